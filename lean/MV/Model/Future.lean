import MV.Model.Conc
/-!
# Instruction-level model of the ask machinery
(`engine/future/future.go`, the registry operations of `engine/prc/resource_controller.go` it uses, and
`actorContext.nextChildGuid` / the three `FutureAsk` entry points of `engine/vivid`.)

One `trans` step = one shared-memory operation of the Go code — the operation that follows a
`verifhook.At("fut.…")` line — or one action of the environment (a receiver routing a reply, the
runtime firing the timer).  Any number of futures live in one registry; a future is identified by the
order of creation (`k`, its index).  `Reply.tag` names the request a reply answers: a receiver replies
to the sender address *that request carried* (`(futs tag).addr`), it cannot forge addresses.

PC ↔ Go (hook sites in brackets; sites without a Go hook are yield points of the harness):

* `alloc` — `nextChildGuid` (`atomic.AddUint64`; the legacy program `load; store (v+1)` is kept behind
  `Cfg.atomicAlloc = false` with the second step `allocSt v`)
* `new a tmo` [fut.reg] — `future.New`: `rc.Register` = `processes.LoadOrStore(addr, fp)`; on success →
  `init k` [fut.init] `f.rc = rc` → (timeout > 0) `arm k` [fut.arm] `f.timer = time.AfterFunc(…)`;
  on failure (address taken) `New` returns a future that was never initialised (no rc, no timer)
* `timer k` [fut.timer] — the runtime fires the timer if it is still pending → `Close(ErrorFutureTimeout)`
* `reply r` [fut.route] — a receiver replies to request `r.tag`: `rc.GetProcess(sender)` (registry lookup by
  address; dead letter if nothing is registered) → `dLoad k r` [fut.dload] `closed.Load()` → the completion
  `cas` (legacy: → `dMsg k r` [fut.msg] `f.message = message` first)
* `close k e` [fut.close] — somebody calls `Close(reason)`
* completion: `cas k e m` [fut.cas] `closed.CompareAndSwap(false,true)` → `setRes k e m` [fut.err]
  `f.message = message; f.err = reason` → `closeDone k` [fut.done] `close(f.done)` → `stopT k` [fut.stop]
  `timer.Stop()` → `unreg k` [fut.unreg] `rc.Unregister` = `LoadAndDelete(addr)` (nil rc ⇒ panic) →
  `cLock k` [fut.lock] `forwardsMutex.Lock(); execForward(); Unlock()`
* `forward k ref` [fut.fwd] — somebody calls `Forward(ref)` → `fLock k ref` [fut.flock]: lock, append,
  `closed.Load()`, maybe `execForward`, unlock.
  The two mutex-protected sections are atomic steps: they exclude each other, and the unprotected
  operations inside (`closed.Load`, reading `err`) commute to the section boundary.
* `result k` [fut.res] — somebody calls `Result()` → `rWait k` [fut.wait] `<-f.done` (enabled once `done` is
  closed) → `rRead k` [fut.read] reads
  `message` and `err` (`err` is stable once `done` is closed, so one read step is exact)

`Cfg` selects between the code as shipped now (all `true`) and the three legacy variants that the
`fix:` commits removed; `MV/Findings/C07.lean` proves what goes wrong with each legacy setting.
-/
namespace MV.Model.Future
open MV.Model.Conc

structure Cfg where
  /-- `nextChildGuid` is one atomic add (legacy: `ctx.childGuid++`, i.e. load, store) -/
  atomicAlloc : Bool
  /-- `DeliveryUserMessage` looks for an `error` inside the `*prc.MessageWrapper` (legacy: only at the
  wrapper itself, which never is an `error`) -/
  unwrapErr : Bool
  /-- `message` is written by the winner of the completion CAS (legacy: by every deliverer, before
  its CAS) -/
  winnerWrites : Bool
  deriving DecidableEq, Repr

/-- the code in /repo after the `fix:` commits of C07 -/
def Cfg.shipped : Cfg := ⟨true, true, true⟩
/-- the code before them -/
def Cfg.legacy : Cfg := ⟨false, false, false⟩

inductive Err where
  | timeout
  | reason (n : Nat)     -- Close(reason) by a caller
  | reply (tag val : Nat)   -- an error that arrived as a reply (to request `tag`)
  deriving DecidableEq, Repr

structure Reply where
  tag : Nat       -- the request (future index) this reply answers
  val : Nat
  isErr : Bool    -- the payload is a Go `error`
  deriving DecidableEq, Repr

abbrev Res := Option Reply × Option Err

structure Fut where
  addr : Nat
  tmo : Bool                     -- timeout > 0
  rcSet : Bool := false          -- Initialize ran: f.rc != nil
  ready : Bool := false          -- ghost: New has returned (the handle and its address are known)
  timerSet : Bool := false       -- f.timer != nil
  timerActive : Bool := false    -- the runtime timer is pending
  closed : Bool := false
  msg : Option Reply := none
  err : Option Err := none
  dones : Nat := 0               -- executions of close(f.done); a second one is a Go panic
  forwards : List Nat := []
  -- ghost
  results : List Res := []       -- what every Result() call returned, in order
  fwdLog : List (Nat × Option Err) := []   -- deliveries made by execForward
  fwdReq : List Nat := []        -- targets of the Forward calls that returned
  deriving DecidableEq, Repr

instance : Inhabited Fut := ⟨{ addr := 0, tmo := false }⟩

structure G where
  guid : Nat := 0                       -- childGuid of the asking context
  nfut : Nat := 0
  futs : Nat → Fut := fun _ => default
  reg : Nat → Option Nat := fun _ => none    -- registry: address ↦ future
  dead : List Reply := []               -- ghost: replies that found no process (dead letters)
  crashes : Nat := 0                    -- ghost: nil-rc panics

def upd (f : Nat → Fut) (k : Nat) (v : Fut) : Nat → Fut := fun j => if j = k then v else f j
def updR (f : Nat → Option Nat) (a : Nat) (v : Option Nat) : Nat → Option Nat := fun j => if j = a then v else f j

inductive PC where
  | alloc (tmo : Bool) | allocSt (v : Nat) (tmo : Bool)
  | new (a : Nat) (tmo : Bool) | init (k : Nat) | arm (k : Nat) | timer (k : Nat)
  | reply (r : Reply) | dLoad (k : Nat) (r : Reply) | dMsg (k : Nat) (r : Reply)
  | close (k : Nat) (e : Option Err)
  | cas (k : Nat) (e : Option Err) (m : Option Reply)
  | setRes (k : Nat) (e : Option Err) (m : Option Reply)
  | closeDone (k : Nat) | stopT (k : Nat) | unreg (k : Nat) | cLock (k : Nat)
  | forward (k : Nat) (ref : Nat) | fLock (k : Nat) (ref : Nat)
  | result (k : Nat) | rWait (k : Nat) | rRead (k : Nat)
  | done | crashed
  deriving DecidableEq, Repr

/-- `execForward`: every registered forward target is told the error (or nil) once -/
def execFwd (f : Fut) : Fut :=
  { f with fwdLog := f.fwdLog ++ f.forwards.map (fun r => (r, f.err)), forwards := [] }

def trans (c : Cfg) (g : G) : PC → Option (G × PC × List PC)
  | .alloc tmo =>
      if c.atomicAlloc then some ({ g with guid := g.guid + 1 }, .new (g.guid + 1) tmo, [])
      else some (g, .allocSt g.guid tmo, [])
  | .allocSt v tmo =>
      if c.atomicAlloc then none else some ({ g with guid := v + 1 }, .new (v + 1) tmo, [])
  | .new a tmo =>
      match g.reg a with
      | none => some ({ g with nfut := g.nfut + 1, futs := upd g.futs g.nfut { addr := a, tmo := tmo },
                               reg := updR g.reg a (some g.nfut) }, .init g.nfut, [])
      | some _ => some ({ g with nfut := g.nfut + 1,
                                 futs := upd g.futs g.nfut { addr := a, tmo := tmo, ready := true } }, .done, [])
  | .init k =>
      if (g.futs k).tmo then some ({ g with futs := upd g.futs k { g.futs k with rcSet := true } }, .arm k, [])
      else some ({ g with futs := upd g.futs k { g.futs k with rcSet := true, ready := true } }, .done, [])
  | .arm k =>
      some ({ g with futs := upd g.futs k { g.futs k with timerSet := true, timerActive := true, ready := true } },
            .done, [.timer k])
  | .timer k =>
      if (g.futs k).timerActive then
        some ({ g with futs := upd g.futs k { g.futs k with timerActive := false } }, .cas k (some .timeout) none, [])
      else some (g, .done, [])
  | .reply r =>
      if r.tag < g.nfut ∧ (g.futs r.tag).ready = true then
        match g.reg (g.futs r.tag).addr with
        | some k => some (g, .dLoad k r, [])
        | none => some ({ g with dead := g.dead ++ [r] }, .done, [])
      else none
  | .dLoad k r =>
      if (g.futs k).closed then some (g, .done, [])
      else if r.isErr ∧ c.unwrapErr then some (g, .cas k (some (.reply r.tag r.val)) none, [])
      else if c.winnerWrites then some (g, .cas k none (some r), [])
      else some (g, .dMsg k r, [])
  | .dMsg k r =>
      if c.winnerWrites then none
      else some ({ g with futs := upd g.futs k { g.futs k with msg := some r } }, .cas k none none, [])
  | .close k e =>
      if k < g.nfut ∧ (g.futs k).ready = true then some (g, .cas k e none, []) else none
  | .cas k e m =>
      if (g.futs k).closed then some (g, .done, [])
      else some ({ g with futs := upd g.futs k { g.futs k with closed := true } }, .setRes k e m, [])
  | .setRes k e m =>
      if c.winnerWrites then
        some ({ g with futs := upd g.futs k { g.futs k with msg := m, err := e } }, .closeDone k, [])
      else some ({ g with futs := upd g.futs k { g.futs k with err := e } }, .closeDone k, [])
  | .closeDone k =>
      some ({ g with futs := upd g.futs k { g.futs k with dones := (g.futs k).dones + 1 } }, .stopT k, [])
  | .stopT k =>
      some ({ g with futs := upd g.futs k { g.futs k with timerActive := false } }, .unreg k, [])
  | .unreg k =>
      if (g.futs k).rcSet then some ({ g with reg := updR g.reg (g.futs k).addr none }, .cLock k, [])
      else some ({ g with crashes := g.crashes + 1 }, .crashed, [])
  | .cLock k =>
      some ({ g with futs := upd g.futs k (execFwd (g.futs k)) }, .done, [])
  | .forward k ref =>
      if k < g.nfut ∧ (g.futs k).ready = true then some (g, .fLock k ref, []) else none
  | .fLock k ref =>
      let f := g.futs k
      if f.closed then
        if f.rcSet then
          let f1 : Fut := { f with forwards := f.forwards ++ [ref], fwdReq := f.fwdReq ++ [ref] }
          some ({ g with futs := upd g.futs k (execFwd f1) }, .done, [])
        else
          let f1 : Fut := { f with forwards := f.forwards ++ [ref] }
          some ({ g with futs := upd g.futs k f1, crashes := g.crashes + 1 }, .crashed, [])
      else
        let f1 : Fut := { f with forwards := f.forwards ++ [ref], fwdReq := f.fwdReq ++ [ref] }
        some ({ g with futs := upd g.futs k f1 }, .done, [])
  | .result k =>
      if k < g.nfut ∧ (g.futs k).ready = true then some (g, .rWait k, []) else none
  | .rWait k =>
      if 0 < (g.futs k).dones then some (g, .rRead k, []) else none
  | .rRead k =>
      some ({ g with futs := upd g.futs k { g.futs k with results := (g.futs k).results ++ [((g.futs k).msg, (g.futs k).err)] } },
            .done, [])
  | .done => none
  | .crashed => none

/-- threads the environment may start at any time: asks through the id counter, replies to any
request (enabled once that request exists), closers, forwarders and result readers on any future
(enabled once its `New` has returned) -/
def allowedAsk : PC → Bool
  | .alloc _ | .reply _ | .forward _ _ | .result _ => true
  | .close _ (some (.reply _ _)) => false     -- `Err.reply` is by definition an error that arrived as a reply
  | .close _ _ => true
  | _ => false

/-- additionally: `future.New` called directly with an arbitrary (possibly taken) address -/
def allowedRaw : PC → Bool
  | .new _ _ => true
  | pc => allowedAsk pc

/-- asks go through the id counter -/
def sys (c : Cfg) : Sys G PC := { trans := trans c, allowed := allowedAsk }
/-- `future.New` is also called directly -/
def sysRaw (c : Cfg) : Sys G PC := { trans := trans c, allowed := allowedRaw }

abbrev State := St G PC

def init : State := { g := {}, ths := [] }

def siteName : PC → String
  | .alloc _ => "ask.alloc" | .allocSt _ _ => "ask.allocst"
  | .new _ _ => "fut.reg" | .init _ => "fut.init" | .arm _ => "fut.arm" | .timer _ => "fut.timer"
  | .reply _ => "fut.route" | .dLoad _ _ => "fut.dload" | .dMsg _ _ => "fut.msg"
  | .close _ _ => "fut.close" | .cas _ _ _ => "fut.cas" | .setRes _ _ _ => "fut.err"
  | .closeDone _ => "fut.done" | .stopT _ => "fut.stop" | .unreg _ => "fut.unreg" | .cLock _ => "fut.lock"
  | .forward _ _ => "fut.fwd" | .fLock _ _ => "fut.flock"
  | .result _ => "fut.res" | .rWait _ => "fut.wait" | .rRead _ => "fut.read"
  | .done => "done" | .crashed => "crashed"

end MV.Model.Future
