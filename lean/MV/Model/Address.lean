/-!
# Address algebra of process ids (`engine/prc/process_id.go`)

A `ProcessId` is (physical address = node, logical address = path on that node); the cache field is
not part of the address (it belongs to `MV.Model.Registry`).  Go strings are modelled as `List Char`
(the oracle converts with `String.toList`); `strings.HasPrefix(name, "/")` is `hasSlashPrefix`.
A nil `*ProcessId` is `none`.

Core Lean only.
-/
namespace MV.Model.Address

structure Pid where
  phys : List Char
  logical : List Char
  deriving DecidableEq, Repr

/-- `strings.HasPrefix(name, "/")` -/
def hasSlashPrefix : List Char → Bool
  | '/' :: _ => true
  | _ => false

/-- the name as `Derivation` appends it:
`if ld != "/" && !strings.HasPrefix(name, "/") { name = "/" + name }` -/
def normName (ld name : List Char) : List Char :=
  if ld ≠ ['/'] ∧ hasSlashPrefix name = false then '/' :: name else name

/-- `(*ProcessId).Derivation(name)`: same node, logical address `ld + name` -/
def derivation (pid : Pid) (name : List Char) : Pid :=
  { phys := pid.phys, logical := pid.logical ++ normName pid.logical name }

/-- `(*ProcessId).Equal(id)`: false when either side is nil, otherwise node and logical address
are compared one after the other -/
def equal : Option Pid → Option Pid → Bool
  | some a, some b =>
    if a.phys ≠ b.phys then false
    else if a.logical ≠ b.logical then false
    else true
  | _, _ => false

/-- `(*ProcessId).Clone()` -/
def clone (pid : Pid) : Pid := { phys := pid.phys, logical := pid.logical }

structure Url where
  scheme : List Char
  host : List Char
  path : List Char
  deriving DecidableEq, Repr

/-- `(*ProcessId).URL()`: the zero URL for nil -/
def url : Option Pid → Url
  | none => ⟨[], [], []⟩
  | some p => ⟨"minotaur".toList, p.phys, p.logical⟩

/-- characters `net/url` never escapes in a host and in a path -/
def safeHostChar (c : Char) : Bool := c.isAlphanum || c == '-' || c == '.' || c == '_' || c == '~'
def safePathChar (c : Char) : Bool := safeHostChar c || c == '/'

/-- `URL.String()` of a URL with scheme/host/path only (transcribed from net/url for the characters
that need no escaping; `none` = outside that fragment, not determined here) -/
def urlString (u : Url) : Option (List Char) :=
  if !(u.host.all safeHostChar && u.path.all safePathChar) then none
  else if u.scheme = [] then (if u.host = [] ∧ u.path = [] then some [] else none)
  else
    let slashes := if u.host ≠ [] ∨ u.path ≠ [] then "//".toList else []
    let sep := if u.path ≠ [] ∧ u.path.head? ≠ some '/' ∧ u.host ≠ [] then ['/'] else []
    some (u.scheme ++ [':'] ++ slashes ++ u.host ++ sep ++ u.path)

end MV.Model.Address
