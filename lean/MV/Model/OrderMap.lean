import MV.Model.C16Common
/-!
# Model of `toolkit/collection/mappings/order.go` (`Order[int,int]`, and `OrderSync`: method = one step)

`idx map[K]int` is an `FMap` from key to position, `value []*orderEntry` the dense entry list
`(key, value)`; `Del` moves the last entry into the hole and repairs its index.
Every slice access is guarded (`none` = Go index panic; unreachable under the invariant).

Core Lean only.
-/
namespace MV.Model

structure OrderMap where
  idx : FMap
  value : List (Int × Int)
  deriving Repr

namespace OrderMap

def new : OrderMap := ⟨[], []⟩

/-- `Get(key)`: `(value, exists)`; outer `none` = panic -/
def get (o : OrderMap) (k : Int) : Option (Option Int) :=
  match o.idx.get k with
  | none => some none
  | some i => if i < 0 then none else match o.value[i.toNat]? with
      | none => none
      | some e => some (some e.2)

/-- `Add(key, value)` -/
def add (o : OrderMap) (k v : Int) : OrderMap :=
  if (o.idx.get k).isSome then o
  else { idx := o.idx.set k o.value.length, value := o.value ++ [(k, v)] }

/-- `Set(key, value)` -/
def set (o : OrderMap) (k v : Int) : Option OrderMap :=
  match o.idx.get k with
  | none => some (o.add k v)
  | some i => if i < 0 then none else match o.value[i.toNat]? with
      | none => none
      | some e => some { o with value := o.value.set i.toNat (e.1, v) }

/-- `Del(key)` -/
def del (o : OrderMap) (k : Int) : Option OrderMap :=
  match o.idx.get k with
  | none => some o
  | some i =>
    if i < 0 then none
    else
      let n := o.value.length
      if i < (n : Int) - 1 then
        match o.value[n - 1]? with
        | none => none
        | some last =>
          if i.toNat < n then
            some { idx := ((o.idx.set last.1 i).del k), value := (o.value.set i.toNat last).take (n - 1) }
          else none
      else
        if n = 0 then none      -- `o.value[:len-1]` with len 0 panics
        else some { idx := o.idx.del k, value := o.value.take (n - 1) }

inductive Op where
  | get (k : Int) | add (k v : Int) | set (k v : Int) | len | del (k : Int) | range | rangeSorted | rangeN (n : Int)
  deriving DecidableEq, Repr

def step (o : OrderMap) : Op → OrderMap × Out
  | .get k => match o.get k with
      | some (some v) => (o, .intBool v true)
      | some none => (o, .intBool 0 false)
      | none => (o, .panic)
  | .add k v => (o.add k v, .unit)
  | .set k v => match o.set k v with
      | some o' => (o', .unit)
      | none => (o, .panic)
  | .len => (o, .int o.value.length)
  | .del k => match o.del k with
      | some o' => (o', .unit)
      | none => (o, .panic)
  | .range => (o, .rows (o.value.map (fun e => [e.1, e.2])))
  | .rangeSorted => (o, .rows (sortRows (o.value.map (fun e => [e.1, e.2]))))
  | .rangeN n => (o, .rows ((o.value.take n.toNat).map (fun e => [e.1, e.2])))

def run (o : OrderMap) : List Op → List Out
  | [] => []
  | op :: ops => let (o', r) := step o op; r :: run o' ops

def exec (o : OrderMap) (ops : List Op) : OrderMap := ops.foldl (fun o op => (step o op).1) o

end OrderMap
end MV.Model
