/-!
# The link between two nodes: envelope, codec law, routing, channel machine
(`engine/prc/shared_stream_process.go` `packMessage`, `engine/prc/shared.go` `onDeliveryMessage` /
`onBatchDeliveryMessage` / `streaming`, `engine/prc/resource_controller.go` `GetProcess`,
`engine/prc/codec/protobuf.go`)

Sequential part of C11 (the concurrent sender gate is `MV.Model.StreamGate`; its theorem
`C11_concat_batches` is what justifies treating "cut a batch" as one step here).

* **Envelope**: `pack` is `packMessage` up to the append, `unpack` is `onDeliveryMessage` up to the
  registry lookup.  The codec is a parameter (`Codec`); its round-trip law `Codec.Lawful` is an
  *assumption* of the envelope theorems (protobuf marshal/unmarshal; exercised against the real codec
  by the `codec` suite).
* **Routing**: `route` is `GetProcess` without the per-reference cache (the cache is C12's subject;
  the one place where it matters for C11 — a reference that cached a stream — is `System.tell`).
* **Channel machine** `Chan`: one direction of one peer pair under arbitrary `brk` (the stream dies,
  keeping only a prefix of what is in flight) and `reopen` events.
* **Two-node system** `System`: what the `link` T-diff suite executes against two real `prc.Shared`
  over an in-memory pipe: references with their cached stream, registry, dead letters, replies.

Core Lean only.
-/
namespace MV.Model.Link

structure Pid where
  phys : String
  logical : String
  deriving DecidableEq, Repr

/-- what travels: a payload value, or an error text (Go `error` ↔ `SharedErrorMessage`) -/
inductive Body (P : Type) where
  | val (p : P)
  | err (text : String)
  deriving DecidableEq, Repr

/-- what a caller hands to `DeliveryUserMessage` / `DeliverySystemMessage` of the stream process:
the message itself, or a `*MessageWrapper` around it -/
inductive Msg (P : Type) where
  | bare (b : Body P)
  | wrapped (sender receiver : Option Pid) (b : Body P)
  deriving DecidableEq, Repr

/-- `DeliveryMessage` of shared.proto (`D` = the encoded bytes) -/
structure Env (D : Type) where
  typ : String
  data : D
  system : Bool
  sender : Option Pid
  receiver : Option Pid
  deriving DecidableEq, Repr

structure Codec (P D : Type) where
  encode : Body P → Option (String × D)
  decode : String → D → Option (Body P)

/-- the codec law (assumption): what was encoded decodes to itself -/
def Codec.Lawful {P D : Type} (c : Codec P D) : Prop :=
  ∀ b n d, c.encode b = some (n, d) → c.decode n d = some b

/-- `packMessage`: a Go error becomes a `SharedErrorMessage` (`Body.err` is its model on both sides
of the codec) whether it comes bare or inside a wrapper (the shipped code encoded a wrapper's payload
as it was: `codec.Encode(error)` failed and `packMessage` panicked — repaired, see
findings.d/C11.json); a wrapper contributes its own sender and receiver.
`none` = the Go code panics (the codec refuses the payload). -/
def pack {P D : Type} (c : Codec P D) (receiver sender : Option Pid) (m : Msg P) (system : Bool) :
    Option (Env D) :=
  match m with
  | .bare b => (c.encode b).map fun nd => ⟨nd.1, nd.2, system, sender, receiver⟩
  | .wrapped s r b => (c.encode b).map fun nd => ⟨nd.1, nd.2, system, s, r⟩

/-- what `onDeliveryMessage` hands on: `Delivery{System,User}Message(receiver, sender, nil,
WrapMessage(sender, receiver, body))` -/
structure Arrival (P : Type) where
  system : Bool
  sender : Option Pid
  receiver : Option Pid
  body : Body P
  deriving DecidableEq, Repr

/-- `onDeliveryMessage` up to the lookup; `none` = decode error (the Go code panics) -/
def unpack {P D : Type} (c : Codec P D) (e : Env D) : Option (Arrival P) :=
  (c.decode e.typ e.data).map fun b => ⟨e.system, e.sender, e.receiver, b⟩

/-! ## routing -/

inductive Route where
  | proc (logical : String)     -- a process registered on this node
  | substitute                  -- `notFoundSubstitute` (dead letters)
  | remote (phys : String)      -- the stream process of that peer
  | nothing                     -- nil
  deriving DecidableEq, Repr

structure NodeCfg where
  phys : String
  reg : List String             -- logical addresses registered locally
  hasSub : Bool                 -- a notFoundSubstitute is configured
  peers : List String           -- physical addresses a resolver can reach
  deriving Repr

def fallback (n : NodeCfg) : Route := if n.hasSub then .substitute else .nothing

/-- `GetProcess` (cache aside) -/
def route (n : NodeCfg) : Option Pid → Route
  | none => fallback n
  | some p =>
    if p.phys ≠ n.phys then (if n.peers.contains p.phys then .remote p.phys else fallback n)
    else if n.reg.contains p.logical then .proc p.logical else fallback n

/-- the lookup of `onDeliveryMessage`, including `unknownReceiverRedirect` (consulted only when the
lookup gave nil): the final receiver and where it routes -/
def deliverRoute (n : NodeCfg) (redirect : Option Pid) (receiver : Option Pid) : Option Pid × Route :=
  match route n receiver with
  | .nothing =>
    match redirect with
    | some r => (some r, route n (some r))
    | none => (receiver, .nothing)
  | r => (receiver, r)

/-! ## channel machine: one direction of one peer pair -/

section Chan
variable {α : Type}

def cutBatch (limit : Nat) (q : List α) : List α × List α :=
  if q.length < limit then (q, []) else (q.take limit, q.drop limit)

structure Chan (α : Type) where
  q : List α := []              -- the sender's queue (`batches`)
  wire : List (List α) := []    -- batches the current stream accepted, not yet received
  broken : Bool := false        -- the current stream refuses `Send`
  -- ghost
  sent : List α := []           -- everything appended, in order
  delivered : List α := []      -- everything handed to `onDeliveryMessage`, in order

inductive Op (α : Type) where
  | send (a : α)                -- packMessage appends
  | cut                         -- the sender goroutine cuts a batch and hands it to the stream
  | recv                        -- the receiver loop takes the next stream message and delivers its batch in order
  | brk (keep : Nat)            -- the stream dies; only the first `keep` in-flight batches still arrive
  | reopen                      -- a new stream (the old receiver loop has ended: see assumptions)

def Chan.step (limit : Nat) (c : Chan α) : Op α → Chan α
  | .send a => { c with q := c.q ++ [a], sent := c.sent ++ [a] }
  | .cut =>
    match cutBatch limit c.q with
    | ([], _) => c
    | (b, rest) => if c.broken then { c with q := [] } else { c with q := rest, wire := c.wire ++ [b] }
  | .recv =>
    match c.wire with
    | [] => c
    | b :: w => { c with wire := w, delivered := c.delivered ++ b }
  | .brk keep => { c with broken := true, wire := c.wire.take keep }
  | .reopen => { c with broken := false, wire := [] }

def Chan.run (limit : Nat) (c : Chan α) (ops : List (Op α)) : Chan α := ops.foldl (Chan.step limit) c

def Op.isBrk : Op α → Bool
  | .brk _ => true
  | .reopen => true
  | _ => false

end Chan

end MV.Model.Link
