import MV.Model.Geometry
/-!
# Model of `toolkit/navigate/navmesh/funnel.go` (`funnel.stringPull`)

Transcription of the string-pulling loop as it is.  `portals[i] = (left, right)`; the first and
last portal are the single start / end points (`pushSingle`).  The Go `for i := 1; i < len; i++`
loop with its `i = apexIndex; continue` restarts is a fuelled recursion over the next index
(`i + 1` after a normal iteration, `apexIndex + 1` after a restart).  `stringPull` supplies
`(n+1)²` units of fuel: a restart strictly increases `apexIndex` (after a restart both sides are
re-seeded at `apexIndex + 1` before any further restart can happen), so the real loop makes at
most `n` passes of at most `n` iterations; `none` = fuel exhausted (never observed).

Core Lean only.
-/
namespace MV.Model.Funnel
open MV.Model.Geometry

structure FState where
  points : List Pt
  apexIndex : Nat
  leftIndex : Nat
  rightIndex : Nat
  apex : Pt
  left : Pt
  right : Pt
deriving Repr

/-- one iteration of the loop body at index `i` with portal `(l, r)`; returns the new state and
    the index the Go loop looks at next -/
def body (s : FState) (i : Nat) (l r : Pt) : FState × Nat :=
  -- right side
  let afterRight : Option FState :=
    if areaTwice s.apex s.right r ≤ 0 then
      if s.apex = s.right ∨ areaTwice s.apex s.left r > 0 then
        some { s with right := r, rightIndex := i }
      else none
    else some s
  match afterRight with
  | none =>
    -- right crossed left: the left point becomes the new apex, restart behind it
    ({ points := s.points ++ [s.left], apex := s.left, apexIndex := s.leftIndex,
       left := s.left, right := s.left, leftIndex := s.leftIndex, rightIndex := s.leftIndex },
     s.leftIndex + 1)
  | some s1 =>
    if areaTwice s1.apex s1.left l ≥ 0 then
      if s1.apex = s1.left ∨ areaTwice s1.apex s1.right l < 0 then
        ({ s1 with left := l, leftIndex := i }, i + 1)
      else
        ({ points := s1.points ++ [s1.right], apex := s1.right, apexIndex := s1.rightIndex,
           left := s1.right, right := s1.right, leftIndex := s1.rightIndex, rightIndex := s1.rightIndex },
         s1.rightIndex + 1)
    else (s1, i + 1)

def loop (portals : List (Pt × Pt)) : Nat → FState → Nat → Option FState
  | 0, _, _ => none
  | f + 1, s, i =>
    match portals[i]? with
    | none => some s
    | some (l, r) =>
      let (s', i') := body s i l r
      loop portals f s' i'

/-- `funnel.stringPull()`; Go indexes `portals[0]` unguarded, so the empty portal list panics:
    `none` as well (the oracle prints `panic` for it) -/
def stringPull (portals : List (Pt × Pt)) : Option (List Pt) :=
  match portals, portals.getLast? with
  | p0 :: _, some pl =>
    let s0 : FState := { points := [p0.1], apexIndex := 0, leftIndex := 0, rightIndex := 0,
                         apex := p0.1, left := p0.1, right := p0.2 }
    match loop portals ((portals.length + 1) * (portals.length + 1)) s0 1 with
    | none => none
    | some s =>
      if s.points.getLast? = some pl.1 then some s.points else some (s.points ++ [pl.1])
  | _, _ => none

end MV.Model.Funnel
