import MV.Model.Persistence
import MV.Spec.Persistence
/-!
# Lemmas about `MV.Model.Persistence` (property C09)

`core` projects a system state onto the fields the invariant, the abstraction and the compared
observations depend on; every turn of the model is characterised as a function on that projection
(`core_cmd_ev`, `core_persistence`, `core_recovery`, `core_restart`, `core_recreate`, …), the invariant
`Inv` is then preserved by plain reasoning on `Core` values.
-/
namespace MV.Lemmas.Persistence
open MV.Model.Persistence

variable {σ ε : Type}

/-- the journal after `StateChanged(e)` outside a replay: at the threshold the snapshot turn replaces it -/
def recJournal (thr : Nat) (st : σ) (p : Rec σ ε) (e : ε) : Rec σ ε :=
  if (p.events ++ [e]).length ≥ thr then ⟨some st, []⟩ else ⟨p.snapshot, p.events ++ [e]⟩

theorem stateChanged_live (s : Sys σ ε) (e : ε) (h : s.ctx.recovering = false) :
    stateChanged Variant.code s e =
      (setP s (recJournal s.ctx.threshold s.ctx.actor.st s.ctx.ps e), s.ctx.ps.events.length + 1) := by
  unfold stateChanged
  simp only [initP, setP, h, Ctx.ps, Option.getD_some, recJournal, actorSnapshotReq, saveSnapshot, setMsg,
    Variant.code, List.length_append, List.length_cons, List.length_nil]
  by_cases hc : s.ctx.threshold ≤ (s.ctx.pstate.getD Rec.empty).events.length + 1 <;> simp [hc]

theorem stateChanged_recovering (v : Variant) (s : Sys σ ε) (e : ε) (h : s.ctx.recovering = true) :
    stateChanged v s e = (initP s, s.ctx.ps.events.length) := by
  unfold stateChanged
  simp [initP, setP, h, Ctx.ps]

/-- what the invariant, the abstraction and the compared observations depend on -/
structure Core (σ ε : Type) where
  name : Name
  thr : Nat
  pstate : Option (Rec σ ε)
  recovering : Bool
  st : σ
  store : Store σ ε
  saveLog : List (Rec σ ε)
  lastPersist : Option σ
  launches : Nat

def core (s : Sys σ ε) : Core σ ε :=
  ⟨s.ctx.name, s.ctx.threshold, s.ctx.pstate, s.ctx.recovering, s.ctx.actor.st, s.store, s.saveLog,
   s.lastPersist, s.launches⟩

def Core.ps (c : Core σ ε) : Rec σ ε := c.pstate.getD Rec.empty

@[simp] theorem core_setMsg (s : Sys σ ε) (r : Ref) (m : Msg σ ε) : core (setMsg s r m) = core s := rfl
@[simp] theorem core_castMessage (s : Sys σ ε) (m : Msg σ ε) : core (castMessage s m) = core s := rfl
@[simp] theorem core_answer (s : Sys σ ε) (r : Ref) : core (answer s r) = core s := by
  unfold answer; split <;> rfl

section
variable [DecidableEq σ] [DecidableEq ε]

theorem core_actorEvent_live (F : Fold σ ε) (s : Sys σ ε) (e : ε) (b : Bool) (h : s.ctx.recovering = false) :
    core (actorEvent Variant.code F s e b) =
      { core s with st := F.apply s.ctx.actor.st e,
                    pstate := some (recJournal s.ctx.threshold (F.apply s.ctx.actor.st e) s.ctx.ps e) } := by
  simp only [actorEvent]
  rw [stateChanged_live _ _ (by simpa [setSt] using h)]
  cases b <;> simp [core, setP, setSt, Ctx.ps]

theorem core_actorEvent_rec (v : Variant) (F : Fold σ ε) (s : Sys σ ε) (e : ε) (b : Bool)
    (h : s.ctx.recovering = true) :
    core (actorEvent v F s e b) = { core s with st := F.apply s.ctx.actor.st e, pstate := some s.ctx.ps } := by
  simp only [actorEvent]
  rw [stateChanged_recovering _ _ _ (by simpa [setSt] using h)]
  cases b <;> simp [core, setP, setSt, Ctx.ps, initP]


/-- `Persistence()` on the core -/
def Core.persist (c : Core σ ε) : Core σ ε :=
  match c.pstate with
  | none => { c with lastPersist := some c.st }
  | some p =>
    if p.snapshot.isNone && p.events.isEmpty then { c with lastPersist := some c.st }
    else { c with lastPersist := some c.st, store := c.store.save c.name p, saveLog := c.saveLog ++ [p] }

omit [DecidableEq σ] [DecidableEq ε] in
theorem core_persistence (s : Sys σ ε) : core (persistence s) = (core s).persist := by
  unfold persistence Core.persist
  simp only [core]
  cases hp : s.ctx.pstate with
  | none => simp [hp]
  | some p => by_cases hc : (p.snapshot.isNone && p.events.isEmpty) = true <;> simp [hc, hp]

/-- `ClearPersistence()` on the core -/
def Core.clear (c : Core σ ε) : Core σ ε :=
  match c.pstate with
  | none => c
  | some _ => { c with store := c.store.clear c.name, lastPersist := none }

omit [DecidableEq σ] [DecidableEq ε] in
theorem core_clearPersistence (s : Sys σ ε) : core (clearPersistence s) = (core s).clear := by
  unfold clearPersistence Core.clear
  simp only [core]
  cases hp : s.ctx.pstate <;> simp [hp]

omit [DecidableEq σ] [DecidableEq ε] in
theorem core_saveSnapshot_live (s : Sys σ ε) (x : σ) (h : s.ctx.recovering = false) :
    core (saveSnapshot s x) = { core s with pstate := some ⟨some x, []⟩ } := by
  simp [saveSnapshot, h, core, setP]

/-- user turns that the canonical actor ignores -/
def ignoredMsg : Msg σ ε → Bool
  | .none | .restarting | .restarted | .terminate | .terminated => true
  | _ => false

theorem core_ignored (v : Variant) (F : Fold σ ε) (s : Sys σ ε) (r : Ref) (m : Msg σ ε) (h : ignoredMsg m = true) :
    core (processUser v F s r m) = core s := by
  cases m <;> simp_all [processUser, ignoredMsg]

theorem core_launchMsg (v : Variant) (F : Fold σ ε) (s : Sys σ ε) (r : Ref) :
    core (processUser v F s r .launch) = { core s with st := F.init, launches := s.launches + 1 } := by
  simp [processUser, core, setSt, setMsg]

theorem core_cmd_ev (F : Fold σ ε) (s : Sys σ ε) (r : Ref) (e : ε) (h : s.ctx.recovering = false) :
    core (processUser Variant.code F s r (.cmd (.ev e))) =
      { core s with st := F.apply s.ctx.actor.st e,
                    pstate := some (recJournal s.ctx.threshold (F.apply s.ctx.actor.st e) s.ctx.ps e) } := by
  simp only [processUser, actorCmd, core_answer, core_castMessage]
  rw [core_actorEvent_live]
  · simp [core, setMsg, castMessage, Ctx.ps]
  · simpa [setMsg, castMessage] using h

theorem core_cmd_evq (F : Fold σ ε) (s : Sys σ ε) (r : Ref) (e : ε) (h : s.ctx.recovering = false) :
    core (processUser Variant.code F s r (.cmd (.evq e))) =
      { core s with st := F.apply s.ctx.actor.st e,
                    pstate := some (recJournal s.ctx.threshold (F.apply s.ctx.actor.st e) s.ctx.ps e) } := by
  simp only [processUser, actorCmd, core_castMessage]
  rw [core_actorEvent_live]
  · simp [core, setMsg, castMessage, Ctx.ps]
  · simpa [setMsg, castMessage] using h

theorem core_cmd_get (v : Variant) (F : Fold σ ε) (s : Sys σ ε) (r : Ref) :
    core (processUser v F s r (.cmd .get)) = core s := by
  simp [processUser, actorCmd]

theorem core_cmd_fail (v : Variant) (F : Fold σ ε) (s : Sys σ ε) (r : Ref) :
    core (processUser v F s r (.cmd .fail)) = core s := by
  simp [processUser, actorCmd]

theorem core_cmd_persist (v : Variant) (F : Fold σ ε) (s : Sys σ ε) (r : Ref) :
    core (processUser v F s r (.cmd .persist)) = (core s).persist := by
  simp [processUser, actorCmd, core_persistence]

theorem core_cmd_clear (v : Variant) (F : Fold σ ε) (s : Sys σ ε) (r : Ref) :
    core (processUser v F s r (.cmd .clear)) = (core s).clear := by
  simp [processUser, actorCmd, core_clearPersistence]

theorem core_cmd_snap (v : Variant) (F : Fold σ ε) (s : Sys σ ε) (r : Ref) (h : s.ctx.recovering = false) :
    core (processUser v F s r (.cmd .snap)) = { core s with pstate := some ⟨some s.ctx.actor.st, []⟩ } := by
  simp only [processUser, actorCmd, core_answer]
  rw [core_saveSnapshot_live]
  · simp [core, setMsg]
  · simpa [setMsg] using h


theorem core_snapMsg (v : Variant) (F : Fold σ ε) (s : Sys σ ε) (r : Ref) (x : σ) :
    core (processUser v F s r (.snap x)) = { core s with st := x } := by
  simp [processUser, core, setSt, setMsg]

theorem core_replayEvent (v : Variant) (F : Fold σ ε) (s : Sys σ ε) (r : Ref) (e : ε)
    (h : s.ctx.recovering = true) (hp : s.ctx.pstate.isSome = true) :
    core (processUser v F s r (.event e)) = { core s with st := F.apply s.ctx.actor.st e } := by
  simp only [processUser]
  rw [core_actorEvent_rec _ _ _ _ _ (by simpa [setMsg] using h)]
  obtain ⟨p, hp⟩ := Option.isSome_iff_exists.mp hp
  simp [core, setMsg, Ctx.ps, hp]

theorem core_replayFold (v : Variant) (F : Fold σ ε) (evs : List ε) (s : Sys σ ε)
    (h : s.ctx.recovering = true) (hp : s.ctx.pstate.isSome = true) :
    core (evs.foldl (fun s e => processUser v F s .self (.event e)) s) =
      { core s with st := evs.foldl F.apply s.ctx.actor.st } := by
  induction evs generalizing s with
  | nil => rfl
  | cons e evs ih =>
    have h1 := core_replayEvent v F s .self e h hp
    have hr : (processUser v F s .self (.event e)).ctx.recovering = true := by
      have := congrArg Core.recovering h1; simpa [core] using this.trans h
    have hq : (processUser v F s .self (.event e)).ctx.pstate.isSome = true := by
      have := congrArg Core.pstate h1; simp only [core] at this; rw [this]; exact hp
    have hs : (processUser v F s .self (.event e)).ctx.actor.st = F.apply s.ctx.actor.st e := by
      have := congrArg Core.st h1; simpa [core] using this
    rw [List.foldl_cons, ih _ hr hq, h1, hs]
    rfl

/-- `recoveryPersistence` on the core (code as it is: the loaded record becomes the journal) -/
def Core.recover (F : Fold σ ε) (c : Core σ ε) : Core σ ε :=
  match c.store c.name with
  | none => { c with pstate := some c.ps, recovering := false }
  | some r => { c with pstate := some r, recovering := false, st := r.events.foldl F.apply (r.snapshot.getD c.st) }

omit [DecidableEq σ] [DecidableEq ε] in
theorem core_setRecovering (s : Sys σ ε) (b : Bool) :
    core (setRecovering s b) = { core s with recovering := b } := rfl

theorem snapMsg_recovering (v : Variant) (F : Fold σ ε) (s : Sys σ ε) (r : Ref) (x : σ) :
    (processUser v F s r (.snap x)).ctx.recovering = s.ctx.recovering := by
  simp [processUser, setSt, setMsg]
theorem snapMsg_pstate (v : Variant) (F : Fold σ ε) (s : Sys σ ε) (r : Ref) (x : σ) :
    (processUser v F s r (.snap x)).ctx.pstate = s.ctx.pstate := by
  simp [processUser, setSt, setMsg]
theorem snapMsg_st (v : Variant) (F : Fold σ ε) (s : Sys σ ε) (r : Ref) (x : σ) :
    (processUser v F s r (.snap x)).ctx.actor.st = x := by
  simp [processUser, setSt, setMsg]

theorem core_recovery (F : Fold σ ε) (s : Sys σ ε) :
    core (recovery Variant.code F s) = (core s).recover F := by
  simp only [recovery, Core.recover]
  cases hr : (initP s).store (initP s).ctx.name with
  | none =>
    have hr' : s.store s.ctx.name = none := hr
    simp [hr', core, setRecovering, initP, setP, Core.ps, Ctx.ps]
  | some r =>
    have hcs : (core s).store (core s).name = some r := hr
    simp only [hcs, show Variant.code.adopt = true from rfl, if_true, Option.bind_some, Option.map_some,
      Option.getD_some, core_setRecovering]
    cases hsn : r.snapshot with
    | none =>
      simp only []
      rw [core_replayFold _ _ _ _ rfl rfl]
      simp [core, setRecovering, setP, initP]
    | some x =>
      simp only []
      rw [core_replayFold _ _ _ _ (by rw [snapMsg_recovering]; rfl) (by rw [snapMsg_pstate]; rfl), core_snapMsg,
        snapMsg_st]
      simp [core, setRecovering, setP, initP]


/-- the `OnLaunch` turn on the core -/
def Core.launch (F : Fold σ ε) (c : Core σ ε) : Core σ ε :=
  ({ c with st := F.init, launches := c.launches + 1 } : Core σ ε).recover F

theorem core_launch (F : Fold σ ε) (s : Sys σ ε) : core (launch Variant.code F s) = (core s).launch F := by
  simp only [launch, core_recovery, core_launchMsg, Core.launch]
  rfl

@[simp] theorem core_restarting (v : Variant) (F : Fold σ ε) (s : Sys σ ε) (r : Ref) :
    core (processUser v F s r .restarting) = core s := core_ignored _ _ _ _ _ rfl
@[simp] theorem core_restarted (v : Variant) (F : Fold σ ε) (s : Sys σ ε) (r : Ref) :
    core (processUser v F s r .restarted) = core s := core_ignored _ _ _ _ _ rfl
@[simp] theorem core_terminate (v : Variant) (F : Fold σ ε) (s : Sys σ ε) (r : Ref) :
    core (processUser v F s r .terminate) = core s := core_ignored _ _ _ _ _ rfl
@[simp] theorem core_terminated (v : Variant) (F : Fold σ ε) (s : Sys σ ε) (r : Ref) :
    core (processUser v F s r .terminated) = core s := core_ignored _ _ _ _ _ rfl

omit [DecidableEq σ] [DecidableEq ε] in
theorem core_freshActor (F : Fold σ ε) (s : Sys σ ε) :
    core ({ s with ctx := { s.ctx with actor := Actor.fresh F } }) = { core s with st := F.init } := rfl

omit [DecidableEq σ] [DecidableEq ε] in
theorem core_newCtx (F : Fold σ ε) (s : Sys σ ε) :
    core ({ s with ctx := Ctx.new F s.ctx.name s.ctx.threshold }) =
      { core s with pstate := none, recovering := false, st := F.init } := rfl

theorem core_restart (F : Fold σ ε) (s : Sys σ ε) :
    core (restart Variant.code F s) = ({ (core s).persist with st := F.init } : Core σ ε).launch F := by
  simp only [restart, core_launch, core_restarted, core_freshActor, core_persistence, core_terminated,
    core_terminate, core_restarting]

theorem core_terminateTurn (v : Variant) (F : Fold σ ε) (s : Sys σ ε) :
    core (terminate v F s) = (core s).persist := by
  simp only [terminate, core_terminated, core_persistence, core_terminate]

theorem core_recreate (F : Fold σ ε) (s : Sys σ ε) :
    core (recreate Variant.code F s) =
      ({ (core s).persist with pstate := none, recovering := false, st := F.init } : Core σ ε).launch F := by
  simp only [recreate, core_launch, core_newCtx, core_terminateTurn]

end

/-! ### the invariant -/

/-- between two turns of a live persistent actor -/
structure Inv (F : Fold σ ε) (c : Core σ ε) : Prop where
  /-- not replaying -/
  live : c.recovering = false
  /-- the journal of the running generation replays to the actor's current state -/
  journal : c.ps.replay F = c.st
  /-- an empty journal means that what is stored (if anything) replays to the initial state -/
  fresh : c.ps = Rec.empty → replayOpt F (c.store c.name) = F.init
  /-- what is stored replays to the state the actor had when it last persisted -/
  stored : c.lastPersist.getD F.init = replayOpt F (c.store c.name)
  /-- the persistence state exists (created by the first recovery) -/
  inited : c.pstate.isSome = true

theorem replay_recJournal (F : Fold σ ε) (thr : Nat) (p : Rec σ ε) (e : ε) :
    (recJournal thr (F.apply (p.replay F) e) p e).replay F = F.apply (p.replay F) e := by
  unfold recJournal
  split
  · simp [Rec.replay]
  · simp [Rec.replay, List.foldl_append]

theorem recJournal_ne_empty (thr : Nat) (x : σ) (p : Rec σ ε) (e : ε) : recJournal thr x p e ≠ Rec.empty := by
  unfold recJournal Rec.empty
  split <;> simp

@[simp] theorem save_same (st : Store σ ε) (n : Name) (r : Rec σ ε) : (st.save n r) n = some r := by
  simp [Store.save]
@[simp] theorem clear_same (st : Store σ ε) (n : Name) : (st.clear n) n = none := by
  simp [Store.clear]
theorem save_other (st : Store σ ε) (n m : Name) (r : Rec σ ε) (h : m ≠ n) : (st.save n r) m = st m := by
  simp [Store.save, h]
theorem clear_other (st : Store σ ε) (n m : Name) (h : m ≠ n) : (st.clear n) m = st m := by
  simp [Store.clear, h]

theorem inv_ev (F : Fold σ ε) (c : Core σ ε) (e : ε) (h : Inv F c) :
    Inv F { c with st := F.apply c.st e, pstate := some (recJournal c.thr (F.apply c.st e) c.ps e) } := by
  refine ⟨h.live, ?_, ?_, h.stored, rfl⟩
  · show (recJournal c.thr (F.apply c.st e) c.ps e).replay F = F.apply c.st e
    rw [← h.journal]; exact replay_recJournal F c.thr c.ps e
  · intro he
    exact absurd he (recJournal_ne_empty _ _ _ _)

theorem inv_snap (F : Fold σ ε) (c : Core σ ε) (h : Inv F c) :
    Inv F { c with pstate := some ⟨some c.st, []⟩ } := by
  refine ⟨h.live, rfl, ?_, h.stored, rfl⟩
  intro he
  simp [Core.ps, Rec.empty] at he

theorem inv_clear (F : Fold σ ε) (c : Core σ ε) (h : Inv F c) :
    Inv F c.clear ∧ replayOpt F (c.clear.store c.name) = F.init ∧ c.clear.st = c.st ∧
      c.clear.launches = c.launches ∧ c.clear.name = c.name := by
  obtain ⟨p, hp⟩ := Option.isSome_iff_exists.mp h.inited
  have hc : c.clear = { c with store := c.store.clear c.name, lastPersist := none } := by
    simp [Core.clear, hp]
  rw [hc]
  refine ⟨⟨h.live, h.journal, ?_, ?_, h.inited⟩, ?_, rfl, rfl, rfl⟩
  · intro _; simp [replayOpt]
  · simp [replayOpt]
  · simp [replayOpt]

theorem inv_persist (F : Fold σ ε) (c : Core σ ε) (h : Inv F c) :
    Inv F c.persist ∧ replayOpt F (c.persist.store c.name) = c.st ∧ c.persist.lastPersist = some c.st ∧
      c.persist.st = c.st ∧ c.persist.launches = c.launches ∧ c.persist.name = c.name ∧
      c.persist.pstate = c.pstate ∧ c.persist.thr = c.thr := by
  obtain ⟨p, hp⟩ := Option.isSome_iff_exists.mp h.inited
  have hps : c.ps = p := by simp [Core.ps, hp]
  by_cases hc : (p.snapshot.isNone && p.events.isEmpty) = true
  · have he : p = Rec.empty := by
      cases p with
      | mk sn ev =>
        simp only [Bool.and_eq_true, Option.isNone_iff_eq_none, List.isEmpty_iff] at hc
        simp [Rec.empty, hc.1, hc.2]
    have hcp : c.persist = { c with lastPersist := some c.st } := by simp [Core.persist, hp, hc]
    have hst : c.st = F.init := by rw [← h.journal, hps, he]; rfl
    have hfr := h.fresh (hps.trans he)
    rw [hcp]
    refine ⟨⟨h.live, h.journal, h.fresh, ?_, h.inited⟩, ?_, rfl, rfl, rfl, rfl, rfl, rfl⟩
    · show (some c.st).getD F.init = _
      simp [hfr, hst]
    · show replayOpt F (c.store c.name) = c.st
      rw [hfr, hst]
  · have hcp : c.persist = { c with lastPersist := some c.st, store := c.store.save c.name p,
                                      saveLog := c.saveLog ++ [p] } := by simp [Core.persist, hp, hc]
    have hrp : p.replay F = c.st := by rw [← hps]; exact h.journal
    rw [hcp]
    refine ⟨⟨h.live, h.journal, ?_, ?_, h.inited⟩, ?_, rfl, rfl, rfl, rfl, rfl, rfl⟩
    · intro _
      show replayOpt F ((c.store.save c.name p) c.name) = F.init
      have : p = Rec.empty := by rw [← hps]; assumption
      subst this
      simp [Rec.empty] at hc
    · show (some c.st).getD F.init = replayOpt F ((c.store.save c.name p) c.name)
      simp [replayOpt, hrp]
    · show replayOpt F ((c.store.save c.name p) c.name) = c.st
      simp [replayOpt, hrp]

theorem persist_store_other (c : Core σ ε) (m : Name) (h : m ≠ c.name) : c.persist.store m = c.store m := by
  unfold Core.persist
  cases c.pstate with
  | none => rfl
  | some p =>
    by_cases hc : (p.snapshot.isNone && p.events.isEmpty) = true
    · simp [hc]
    · simp [hc, save_other _ _ _ _ h]

theorem clear_store_other (c : Core σ ε) (m : Name) (h : m ≠ c.name) : c.clear.store m = c.store m := by
  unfold Core.clear
  cases c.pstate with
  | none => rfl
  | some p => simp [clear_other _ _ _ h]

/-- a launch over a storage content that replays to `x`, recorded as the last persisted state -/
theorem inv_launch (F : Fold σ ε) (c : Core σ ε) (x : σ) (hx : replayOpt F (c.store c.name) = x)
    (hl : c.lastPersist.getD F.init = x) (hn : c.store c.name = none → c.ps.replay F = F.init) :
    Inv F (c.launch F) ∧ (c.launch F).st = x ∧ (c.launch F).launches = c.launches + 1 ∧
      (c.launch F).store = c.store ∧ (c.launch F).name = c.name ∧ (c.launch F).lastPersist = c.lastPersist ∧
      (c.launch F).saveLog = c.saveLog ∧ (c.launch F).thr = c.thr := by
  unfold Core.launch Core.recover
  cases hr : c.store c.name with
  | none =>
    simp only []
    have hx' : x = F.init := by rw [← hx, hr]; rfl
    refine ⟨⟨rfl, ?_, ?_, ?_, rfl⟩, hx'.symm, (by first | rfl | trivial), (by first | rfl | trivial), (by first | rfl | trivial), (by first | rfl | trivial), (by first | rfl | trivial), (by first | rfl | trivial)⟩
    · show (Core.ps _).replay F = F.init
      simpa [Core.ps] using hn hr
    · intro _; show replayOpt F (c.store c.name) = F.init; rw [hr]; rfl
    · show c.lastPersist.getD F.init = replayOpt F (c.store c.name); rw [hl, hx]
  | some r =>
    simp only []
    have hx' : r.replay F = x := by rw [← hx, hr]; rfl
    refine ⟨⟨rfl, ?_, ?_, ?_, rfl⟩, ?_, (by first | rfl | trivial), (by first | rfl | trivial), (by first | rfl | trivial), (by first | rfl | trivial), (by first | rfl | trivial), (by first | rfl | trivial)⟩
    · rfl
    · intro he
      show replayOpt F (c.store c.name) = F.init
      have : r = Rec.empty := he
      rw [hr, this]; rfl
    · show c.lastPersist.getD F.init = replayOpt F (c.store c.name); rw [hl, hx]
    · exact hx'


/-! ### message and sender -/

theorem stateChanged_message (s : Sys σ ε) (e : ε) :
    (stateChanged Variant.code s e).1.ctx.message = s.ctx.message ∧
    (stateChanged Variant.code s e).1.ctx.sender = s.ctx.sender := by
  cases h : s.ctx.recovering
  · rw [stateChanged_live _ _ h]; exact ⟨rfl, rfl⟩
  · rw [stateChanged_recovering _ _ _ h]; exact ⟨rfl, rfl⟩

theorem actorEvent_flags [DecidableEq σ] [DecidableEq ε] (F : Fold σ ε) (s : Sys σ ε) (e : ε) (b : Bool) :
    (actorEvent Variant.code F s e b).msgSame = true ∧ (actorEvent Variant.code F s e b).sndSame = true ∧
    (actorEvent Variant.code F s e b).ctx.message = s.ctx.message ∧
    (actorEvent Variant.code F s e b).ctx.sender = s.ctx.sender := by
  simp only [actorEvent]
  generalize hY : setSt s (F.apply s.ctx.actor.st e) = Y
  have hYm : Y.ctx.message = s.ctx.message := by rw [← hY]; rfl
  have hYs : Y.ctx.sender = s.ctx.sender := by rw [← hY]; rfl
  obtain ⟨hm, hs⟩ := stateChanged_message Y e
  cases b <;> simp [hm, hs, hYm, hYs]

theorem ev_flags [DecidableEq σ] [DecidableEq ε] (F : Fold σ ε) (s : Sys σ ε) (r : Ref) (e : ε) :
    (processUser Variant.code F s r (.cmd (.ev e))).msgSame = true ∧
    (processUser Variant.code F s r (.cmd (.ev e))).sndSame = true := by
  simp only [processUser, actorCmd]
  generalize hX : castMessage { setMsg s r (Msg.cmd (Cmd.ev e)) with msgSame := true, sndSame := true } (Msg.event e) = X
  obtain ⟨h1, h2, _, h4⟩ := actorEvent_flags F X e true
  have hXs : X.ctx.sender = r := by rw [← hX]; rfl
  have hsnd : (setMsg s r (Msg.cmd (Cmd.ev e))).ctx.sender = r := rfl
  simp only [answer, castMessage, hsnd, h4, hXs, if_true]
  exact ⟨h1, h2⟩


/-! ### histories and the specification -/

theorem run_append [DecidableEq σ] [DecidableEq ε] (v : Variant) (F : Fold σ ε) (s : Sys σ ε) (h₁ h₂ : List (Op ε)) :
    run v F s (h₁ ++ h₂) = run v F (run v F s h₁) h₂ := by
  simp [run, List.foldl_append]


/-- the specification's state is the fold of the history's events -/
theorem spec_run_cur (F : Fold σ ε) (s : MV.Spec.Persistence.S σ) (h : List (Op ε)) :
    (MV.Spec.Persistence.run F s h).cur = (MV.Spec.Persistence.eventsOf h).foldl F.apply s.cur := by
  induction h generalizing s with
  | nil => rfl
  | cons o h ih =>
    show (MV.Spec.Persistence.run F (MV.Spec.Persistence.step F s o).1 h).cur = _
    rw [ih]
    cases o <;> rfl

theorem foldl_snoc (acc es : List ε) : es.foldl (fun l e => l ++ [e]) acc = acc ++ es := by
  induction es generalizing acc with
  | nil => simp
  | cons e es ih => simp [ih]

end MV.Lemmas.Persistence
