import MV.Lemmas.ClusterRegistry
import MV.Spec.ClusterJudge
/-!
# The answers of the manager model pass the judge of a concurrent phase (C13)

A phase is a list `ks` of requested pairs *in the order in which the manager happens to take them
from its mailbox* (any interleaving of any number of callers is such a list).  `replies s ks` are the
manager's answers, `after s ks` its state afterwards.

Key facts: every answer equals `answer (after s ks) k` — it can be read off the *final* state, because
during lookups the members table only grows and a refusal stays a refusal (`settled`); every member of
the final state was there before or is the subject of an answered request (`trace`).
-/
namespace MV.Model.ClusterManager
open MV.Spec MV.Spec.ClusterJudge
open MV.Spec.ClusterRegistry (Reg findLive nameTaken keyName)

/-! ## a phase of lookups -/

def replies (s : Mgr) : List Key → List Reply
  | [] => []
  | k :: ks => (lookupPure s k.2 k.1).2 :: replies (lookupPure s k.2 k.1).1 ks

def after (s : Mgr) : List Key → Mgr
  | [] => s
  | k :: ks => after (lookupPure s k.2 k.1).1 ks

def lookups (ks : List Key) : List Op := ks.map (fun k => .lookup k.2 k.1)

theorem run_lookups (s : Mgr) (ks : List Key) :
    run s (lookups ks) = (after s ks, (replies s ks).map .reply) := by
  induction ks generalizing s with
  | nil => rfl
  | cons k ks ih =>
    simp only [lookups, List.map_cons, run_cons, step_lookup, replies, after]
    have := ih (lookupPure s k.2 k.1).1
    simp only [lookups] at this
    rw [this]

/-- what a lookup of `k` is answered in a state where nothing has to be created any more -/
def answer (s : Mgr) (k : Key) : Reply :=
  if k.1 ∉ s.abilities then .errAbility
  else match find s.members k with
    | some r => .ref r
    | none => .errCreate

/-- the answer for `k` is final: unknown ability, or remembered, or not creatable -/
def settled (s : Mgr) (k : Key) : Prop :=
  k.1 ∉ s.abilities ∨ (∃ r, find s.members k = some r) ∨
    (find s.members k = none ∧ creatable s k.2 k.1 = false)

theorem lookupPure_cases (s : Mgr) (i a : Name) :
    ((lookupPure s i a).1 = s) ∨
    (a ∈ s.abilities ∧ find s.members (a, i) = none ∧ creatable s i a = true ∧
      lookupPure s i a = ((spawned s i a).1, .ref (spawned s i a).2)) := by
  unfold lookupPure
  by_cases ha : a ∈ s.abilities
  · cases hf : find s.members (a, i) with
    | some r => left; simp [ha]
    | none =>
      by_cases hc : creatable s i a = true
      · right; exact ⟨ha, rfl, hc, by simp [ha, hc]⟩
      · left; simp [ha, hc]
  · left; simp [ha]

theorem abilities_lookupPure (s : Mgr) (i a : Name) : (lookupPure s i a).1.abilities = s.abilities := by
  rcases lookupPure_cases s i a with h | ⟨_, _, _, h⟩
  · rw [h]
  · rw [h]; rfl

theorem terminated_lookupPure (s : Mgr) (i a : Name) : (lookupPure s i a).1.terminated = s.terminated := by
  rcases lookupPure_cases s i a with h | ⟨_, _, _, h⟩
  · rw [h]
  · rw [h]; rfl

theorem members_mono_lookupPure (s : Mgr) (i a : Name) {e : Key × Ref} (he : e ∈ s.members) :
    e ∈ (lookupPure s i a).1.members := by
  rcases lookupPure_cases s i a with h | ⟨_, _, _, h⟩
  · rw [h]; exact he
  · rw [h]; exact List.mem_cons_of_mem _ he

theorem children_mono_lookupPure (s : Mgr) (i a : Name) {n : Name} (hn : n ∈ s.children) :
    n ∈ (lookupPure s i a).1.children := by
  rcases lookupPure_cases s i a with h | ⟨_, _, _, h⟩
  · rw [h]; exact hn
  · rw [h]; exact List.mem_cons_of_mem _ hn

theorem step_answer (s : Mgr) (i a : Name) :
    (lookupPure s i a).2 = answer (lookupPure s i a).1 (a, i) ∧ settled (lookupPure s i a).1 (a, i) := by
  unfold lookupPure
  by_cases ha : a ∈ s.abilities
  · cases hf : find s.members (a, i) with
    | some r =>
      simp only [ha, not_true_eq_false, if_false]
      exact ⟨by simp [answer, ha, hf], Or.inr (Or.inl ⟨r, hf⟩)⟩
    | none =>
      by_cases hc : creatable s i a = true
      · simp only [ha, not_true_eq_false, if_false, hc, if_true]
        exact ⟨by simp [answer, spawned, ha, find],
          Or.inr (Or.inl ⟨(spawned s i a).2, by simp [spawned, find]⟩)⟩
      · simp only [ha, not_true_eq_false, if_false, hc]
        exact ⟨by simp [answer, ha, hf], Or.inr (Or.inr ⟨hf, by simpa using hc⟩)⟩
  · simp only [ha, not_false_eq_true, if_true]
    exact ⟨by simp [answer, ha], Or.inl ha⟩

theorem answer_stable {s : Mgr} {k : Key} (hs : settled s k) (i a : Name) :
    answer (lookupPure s i a).1 k = answer s k ∧ settled (lookupPure s i a).1 k := by
  rcases lookupPure_cases s i a with h | ⟨ha, hf, hc, h⟩
  · rw [h]; exact ⟨rfl, hs⟩
  · rw [h]
    rcases hs with hs | ⟨r, hr⟩ | ⟨hn, hnc⟩
    · exact ⟨by simp [answer, spawned, hs], Or.inl (by simpa [spawned] using hs)⟩
    · have hne : (a, i) ≠ k := by
        intro hh; rw [hh] at hf; rw [hf] at hr; cases hr
      have : find (spawned s i a).1.members k = some r := by
        simpa [spawned, find_cons_ne hne] using hr
      exact ⟨by simp only [answer, this, hr]; rfl, Or.inr (Or.inl ⟨r, this⟩)⟩
    · have hne : (a, i) ≠ k := by
        intro hh; rw [← hh] at hnc; simp [hc] at hnc
      have hfn : find (spawned s i a).1.members k = none := by
        simpa [spawned, find_cons_ne hne] using hn
      have hcn : creatable (spawned s i a).1 k.2 k.1 = false := by
        by_cases hl : (legalName k.2 && legalName k.1) = true
        · have hin : nameOf k.2 k.1 ∈ s.children := by simpa [creatable, hl] using hnc
          simp [creatable, hl, spawned, hin]
        · have hl' : (legalName k.2 && legalName k.1) = false := by simpa using hl
          simp [creatable, hl']
      exact ⟨by simp only [answer, hfn, hn]; rfl, Or.inr (Or.inr ⟨hfn, hcn⟩)⟩

theorem abilities_after (s : Mgr) (ks : List Key) : (after s ks).abilities = s.abilities := by
  induction ks generalizing s with
  | nil => rfl
  | cons k ks ih => rw [after, ih, abilities_lookupPure]

theorem terminated_after (s : Mgr) (ks : List Key) : (after s ks).terminated = s.terminated := by
  induction ks generalizing s with
  | nil => rfl
  | cons k ks ih => rw [after, ih, terminated_lookupPure]

theorem members_mono_after (s : Mgr) (ks : List Key) {e : Key × Ref} (he : e ∈ s.members) :
    e ∈ (after s ks).members := by
  induction ks generalizing s with
  | nil => exact he
  | cons k ks ih => exact ih _ (members_mono_lookupPure s k.2 k.1 he)

theorem children_mono_after (s : Mgr) (ks : List Key) {n : Name} (hn : n ∈ s.children) :
    n ∈ (after s ks).children := by
  induction ks generalizing s with
  | nil => exact hn
  | cons k ks ih => exact ih _ (children_mono_lookupPure s k.2 k.1 hn)

theorem find_after {s : Mgr} {k : Key} {r : Ref} (h : find s.members k = some r) (ks : List Key) :
    find (after s ks).members k = some r := by
  induction ks generalizing s with
  | nil => exact h
  | cons k' ks ih => exact ih (find_lookupPure h k'.2 k'.1)

theorem wf_after {s : Mgr} (h : WF s) (ks : List Key) : WF (after s ks) := by
  induction ks generalizing s with
  | nil => exact h
  | cons k ks ih => exact ih (wf_lookup h k.2 k.1)

theorem answer_stable_after {s : Mgr} {k : Key} (hs : settled s k) (ks : List Key) :
    answer (after s ks) k = answer s k ∧ settled (after s ks) k := by
  induction ks generalizing s with
  | nil => exact ⟨rfl, hs⟩
  | cons k' ks ih =>
    have h1 := answer_stable hs k'.2 k'.1
    have h2 := ih h1.2
    exact ⟨h2.1.trans h1.1, h2.2⟩

/-- every answer of the phase can be read off the final state -/
theorem reply_is_final_answer (s : Mgr) (ks : List Key) {o : Key × Reply}
    (ho : o ∈ ks.zip (replies s ks)) :
    o.2 = answer (after s ks) o.1 ∧ settled (after s ks) o.1 := by
  induction ks generalizing s with
  | nil => simp [replies] at ho
  | cons k ks ih =>
    simp only [replies, List.zip_cons_cons, List.mem_cons] at ho
    rcases ho with ho | ho
    · subst ho
      have h1 := step_answer s k.2 k.1
      have h2 := answer_stable_after h1.2 ks
      exact ⟨h1.1.trans h2.1.symm, h2.2⟩
    · exact ih _ ho

/-- every remembered actor of the final state was remembered before the phase or is the subject of an
    answered request of the phase -/
theorem trace (s : Mgr) (ks : List Key) {e : Key × Ref} (he : e ∈ (after s ks).members) :
    e ∈ s.members ∨ (e.1, Reply.ref e.2) ∈ ks.zip (replies s ks) := by
  induction ks generalizing s with
  | nil => exact Or.inl he
  | cons k ks ih =>
    simp only [replies, List.zip_cons_cons, List.mem_cons]
    rcases ih _ he with h | h
    · rcases lookupPure_cases s k.2 k.1 with hc | ⟨_, _, _, hc⟩
      · rw [hc] at h; exact Or.inl h
      · rw [hc] at h ⊢
        simp only [spawned, List.mem_cons] at h
        rcases h with h | h
        · right; left; rw [h]; simp [spawned]
        · exact Or.inl h
    · exact Or.inr (Or.inr h)

/-! ## the judge's view of a manager state -/

/-- everything the judge reads from its registry state agrees with the manager state -/
structure Equiv (s : Mgr) (t : Reg) : Prop where
  offered : t.offered = s.abilities
  live : ∀ k, findLive t.live k = (find s.members k).map (·.inc)
  count : ∀ n, t.launches.count n = s.launched.count n
  taken : ∀ k, nameTaken t.live k = decide (keyName k ∈ s.children)

theorem equiv_of_sim {s : Mgr} {t : Reg} (h : WF s) (hs : Sim s t) : Equiv s t :=
  ⟨hs.offered, fun k => by rw [hs.live, findLive_liveOf], fun n => by rw [hs.launches],
   fun k => by rw [hs.live, nameTaken_liveOf h]⟩

section phase
variable {s : Mgr} {t : Reg} (h : WF s) (he : Equiv s t) (ks : List Key)
variable {obs : List Obs} (hobs : ∀ o, o ∈ obs ↔ o ∈ ks.zip (replies s ks))
include h he hobs
set_option linter.unusedSectionVars false

theorem offeredKey_eq (k : Key) : offeredKey t k = decide (k.1 ∈ s.abilities) := by
  simp [offeredKey, he.offered]

/-- a new reference of the phase: what is known about it -/
theorem newRef_facts {o : Obs} (ho : o ∈ obs) (hn : isNewRef t o = true) :
    ∃ r, o.2 = .ref r ∧ (o.1, r) ∈ (after s ks).members ∧ find s.members o.1 = none ∧
      r.name = keyName o.1 ∧ keyName o.1 ∉ s.children ∧ keyName o.1 ∈ (after s ks).children := by
  have hw := wf_after h ks
  obtain ⟨hans, _⟩ := reply_is_final_answer s ks ((hobs o).mp ho)
  unfold isNewRef at hn
  cases hr : o.2 with
  | errAbility => simp [hr] at hn
  | errCreate => simp [hr] at hn
  | ref r =>
    simp only [hr, Bool.and_eq_true, Option.isNone_iff_eq_none] at hn
    obtain ⟨hoff, hlive⟩ := hn
    rw [offeredKey_eq h he ks hobs, decide_eq_true_eq] at hoff
    have hfs : find s.members o.1 = none := by
      have := he.live o.1; rw [hlive] at this
      cases hf : find s.members o.1 with
      | none => rfl
      | some x => rw [hf] at this; simp at this
    have hmem : (o.1, r) ∈ (after s ks).members := by
      rw [hr] at hans
      unfold answer at hans
      rw [abilities_after] at hans
      simp only [hoff, not_true_eq_false, if_false] at hans
      cases hf : find (after s ks).members o.1 with
      | none => rw [hf] at hans; cases hans
      | some x => rw [hf] at hans; cases hans; exact find_mem hf
    have hname : r.name = keyName o.1 := (hw.entry _ hmem).1
    have hnc : keyName o.1 ∉ s.children := by
      intro hin
      rw [h.children_eq] at hin
      obtain ⟨e0, he0, hn0⟩ := List.mem_map.mp hin
      have hnd : ((after s ks).members.map (fun e => e.2.name)).Nodup := hw.children_eq ▸ hw.nodup
      have := name_inj_of_nodup hnd (members_mono_after s ks he0) hmem (by rw [hn0, hname])
      rw [this] at he0
      obtain ⟨r', hr'⟩ := find_isSome_of_mem he0
      rw [hfs] at hr'; cases hr'
    exact ⟨r, rfl, hmem, hfs, hname, hnc, hname ▸ mem_children_of_mem hw hmem⟩

/-- a child that appeared during the phase is the subject of a new reference of the phase -/
theorem appeared_has_newRef {n : Name} (hn : n ∈ (after s ks).children) (hns : n ∉ s.children) :
    ∃ o ∈ obs, isNewRef t o = true ∧ keyName o.1 = n := by
  have hw := wf_after h ks
  rw [hw.children_eq] at hn
  obtain ⟨e, hem, hen⟩ := List.mem_map.mp hn
  rcases trace s ks hem with h0 | h0
  · exact absurd (hen ▸ mem_children_of_mem h h0) hns
  · refine ⟨(e.1, .ref e.2), (hobs _).mpr h0, ?_, ?_⟩
    · have hoff : e.1.1 ∈ s.abilities := by
        rw [← abilities_after s ks]; exact (hw.entry e hem).2.1
      have hfs : find s.members e.1 = none := by
        cases hf : find s.members e.1 with
        | none => rfl
        | some x =>
          exfalso
          have hnd : ((after s ks).members.map (fun e => e.2.name)).Nodup := hw.children_eq ▸ hw.nodup
          have hx := members_mono_after s ks (find_mem hf)
          have : (e.1, x) = e := name_inj_of_nodup hnd hx hem
            (by rw [(hw.entry _ hx).1, (hw.entry _ hem).1])
          have hin := find_mem hf
          rw [this] at hin
          exact hns (hen ▸ mem_children_of_mem h hin)
      simp [isNewRef, offeredKey_eq h he ks hobs, hoff, he.live, hfs]
    · have := (hw.entry e hem).1
      simp only [keyName]; rw [← this, hen]

theorem judge_cAbility : cAbility t obs = true := by
  simp only [cAbility, List.all_eq_true]
  intro o ho
  obtain ⟨hans, _⟩ := reply_is_final_answer s ks ((hobs o).mp ho)
  rw [offeredKey_eq h he ks hobs]
  unfold answer at hans
  rw [abilities_after] at hans
  by_cases hoff : o.1.1 ∈ s.abilities
  · simp only [hoff, not_true_eq_false, if_false] at hans
    simp only [hoff, decide_true, if_true, bne_iff_ne, ne_eq]
    cases hf : find (after s ks).members o.1 with
    | none => rw [hf] at hans; rw [hans]; simp
    | some x => rw [hf] at hans; rw [hans]; simp
  · simp only [hoff, not_false_eq_true, if_true] at hans
    simp [hoff, hans]

theorem judge_cLive : cLive t obs = true := by
  simp only [cLive, List.all_eq_true]
  intro o ho
  obtain ⟨hans, _⟩ := reply_is_final_answer s ks ((hobs o).mp ho)
  rw [offeredKey_eq h he ks hobs]
  by_cases hoff : o.1.1 ∈ s.abilities
  · simp only [hoff, decide_true, Bool.not_true, Bool.false_or]
    rw [he.live]
    cases hf : find s.members o.1 with
    | none => simp
    | some r =>
      have hf' := find_after hf ks
      unfold answer at hans
      rw [abilities_after] at hans
      simp only [hoff, not_true_eq_false, if_false, hf'] at hans
      have hname : r.name = keyName o.1 := (h.entry _ (find_mem hf)).1
      simp only [Option.map_some, hans, beq_iff_eq, Reply.ref.injEq]
      rw [← hname]
  · simp [hoff]

theorem judge_cSame : cSame obs = true := by
  simp only [cSame, List.all_eq_true]
  intro o ho o' ho'
  have h1 := (reply_is_final_answer s ks ((hobs o).mp ho)).1
  have h2 := (reply_is_final_answer s ks ((hobs o').mp ho')).1
  by_cases hk : o'.1 = o.1
  · simp [h1, h2, hk]
  · simp [hk]

theorem judge_cFresh : cFresh t obs = true := by
  simp only [cFresh, List.all_eq_true]
  intro o ho
  by_cases hn : isNewRef t o = true
  · obtain ⟨r, hr, hmem, hfs, hname, hnc, hin⟩ := newRef_facts h he ks hobs ho hn
    have hw := wf_after h ks
    obtain ⟨_, _, hl2, hl1, hinc⟩ := hw.entry _ hmem
    have hacc := hw.account (keyName o.1)
    have hacc0 := h.account (keyName o.1)
    rw [terminated_after] at hacc
    simp only [hin, if_true] at hacc
    simp only [hnc, if_false] at hacc0
    have hcount : r.inc = t.launches.count (keyName o.1) + 1 := by
      rw [hinc, he.count]; simp only [hname]; omega
    have hfree : free t o.1 = true := by
      simp only [free, he.taken, Bool.and_eq_true, Bool.not_eq_true', decide_eq_false_iff_not]
      exact ⟨⟨hl2, hl1⟩, hnc⟩
    have hr' : o.2 = .ref ⟨keyName o.1, t.launches.count (keyName o.1) + 1⟩ := by
      rw [← hname] at hcount
      rw [hr, ← hname, ← hcount]
    simp [hn, hr', hfree]
  · simp [hn]

theorem judge_cDistinct : cDistinct t obs = true := by
  simp only [cDistinct, List.all_eq_true]
  intro o ho o' ho'
  by_cases hc : (isNewRef t o && isNewRef t o' && keyName o.1 == keyName o'.1) = true
  · simp only [Bool.and_eq_true, beq_iff_eq] at hc
    obtain ⟨⟨h1, h2⟩, h3⟩ := hc
    obtain ⟨r, _, hmem, _, hname, _, _⟩ := newRef_facts h he ks hobs ho h1
    obtain ⟨r', _, hmem', _, hname', _, _⟩ := newRef_facts h he ks hobs ho' h2
    have hw := wf_after h ks
    have hnd : ((after s ks).members.map (fun e => e.2.name)).Nodup := hw.children_eq ▸ hw.nodup
    have := name_inj_of_nodup hnd hmem hmem' (by simp only [hname, hname', h3])
    have hk : o.1 = o'.1 := (Prod.mk.inj this).1
    simp [hk]
  · simp [hc]

theorem judge_cRefusal : cRefusal t obs = true := by
  simp only [cRefusal, List.all_eq_true]
  intro o ho
  by_cases hc : (o.2 == .errCreate && offeredKey t o.1 && (findLive t.live o.1).isNone && free t o.1) = true
  · simp only [Bool.and_eq_true, beq_iff_eq, Option.isNone_iff_eq_none] at hc
    obtain ⟨⟨⟨hr, hoff⟩, _⟩, hfree⟩ := hc
    rw [offeredKey_eq h he ks hobs, decide_eq_true_eq] at hoff
    simp only [free, he.taken, Bool.and_eq_true, Bool.not_eq_true', decide_eq_false_iff_not] at hfree
    obtain ⟨⟨hl2, hl1⟩, hnc⟩ := hfree
    obtain ⟨hans, hset⟩ := reply_is_final_answer s ks ((hobs o).mp ho)
    have hin : keyName o.1 ∈ (after s ks).children := by
      rcases hset with hs | ⟨x, hx⟩ | ⟨_, hcr⟩
      · rw [abilities_after] at hs; exact absurd hoff hs
      · rw [hr] at hans
        unfold answer at hans
        rw [abilities_after] at hans
        simp [hoff, hx] at hans
      · simp only [creatable, hl2, hl1, Bool.and_self, Bool.true_and, Bool.not_eq_eq_eq_not,
          Bool.not_false, decide_eq_true_eq] at hcr
        exact hcr
    obtain ⟨o', ho', hn', hk'⟩ := appeared_has_newRef h he ks hobs hin hnc
    have : (obs.any fun o' => isNewRef t o' && keyName o'.1 == keyName o.1) = true := by
      rw [List.any_eq_true]
      exact ⟨o', ho', by simp [hn', hk']⟩
    simp [this]
  · simp [hc]

theorem launchedNow_iff (n : Name) :
    launchedNow t obs n = true ↔ (n ∈ (after s ks).children ∧ n ∉ s.children) := by
  simp only [launchedNow, List.any_eq_true, Bool.and_eq_true, beq_iff_eq]
  constructor
  · rintro ⟨o, ho, hn, hk⟩
    obtain ⟨r, _, _, _, _, hnc, hin⟩ := newRef_facts h he ks hobs ho hn
    exact hk ▸ ⟨hin, hnc⟩
  · rintro ⟨hin, hnc⟩
    obtain ⟨o, ho, hn, hk⟩ := appeared_has_newRef h he ks hobs hin hnc
    exact ⟨o, ho, hn, hk⟩

theorem expectedCount_eq (n : Name) :
    expectedCount t obs n = (after s ks).launched.count n := by
  have hw := wf_after h ks
  have hacc := hw.account n
  have hacc0 := h.account n
  rw [terminated_after] at hacc
  unfold expectedCount
  rw [he.count]
  by_cases hl : launchedNow t obs n = true
  · obtain ⟨hin, hnc⟩ := (launchedNow_iff h he ks hobs n).mp hl
    simp only [hl, if_true]
    simp only [hin, if_true] at hacc
    simp only [hnc, if_false] at hacc0
    omega
  · have hl' := mt (launchedNow_iff h he ks hobs n).mpr hl
    have hl2 : launchedNow t obs n = false := by simpa using hl
    simp only [hl2, Bool.false_eq_true, if_false]
    by_cases hs : n ∈ s.children
    · have := children_mono_after s ks hs
      simp only [this, if_true] at hacc
      simp only [hs, if_true] at hacc0
      omega
    · have hnf : n ∉ (after s ks).children := fun hh => hl' ⟨hh, hs⟩
      simp only [hnf, if_false] at hacc
      simp only [hs, if_false] at hacc0
      omega

/-- the judge accepts the answers of the manager for every serialisation `ks`, in whatever order
    (and multiplicity) `obs` lists them, together with the true launch counters -/
theorem accepts_model {reported : List (Name × Nat)}
    (hrep : ∀ n, reportedCount reported n = (after s ks).launched.count n) :
    accepts t obs reported = true := by
  have hl : cLaunch t obs reported = true := by
    simp only [cLaunch, List.all_eq_true, beq_iff_eq]
    intro n _
    rw [hrep, expectedCount_eq h he ks hobs]
  simp [accepts, judge_cAbility h he ks hobs, judge_cLive h he ks hobs, judge_cSame h he ks hobs,
    judge_cFresh h he ks hobs, judge_cDistinct h he ks hobs, judge_cRefusal h he ks hobs, hl]

end phase

end MV.Model.ClusterManager

/-! ## the judge's state after an accepted phase describes the manager's state after the phase -/
namespace MV.Model.ClusterManager
open MV.Spec MV.Spec.ClusterJudge
open MV.Spec.ClusterRegistry (Reg findLive nameTaken keyName)

theorem mem_dedup {k : Key} {l : List Key} : k ∈ dedup l ↔ k ∈ l := by
  induction l with
  | nil => simp [dedup]
  | cons x xs ih =>
    unfold dedup
    by_cases hx : x ∈ dedup xs
    · simp only [hx, if_true, List.mem_cons, ih]
      constructor
      · exact Or.inr
      · rintro (h | h)
        · subst h; exact ih.mp hx
        · exact h
    · simp [hx, ih]

theorem nodup_dedup (l : List Key) : (dedup l).Nodup := by
  induction l with
  | nil => simp [dedup]
  | cons x xs ih =>
    unfold dedup
    by_cases hx : x ∈ dedup xs
    · simpa [hx] using ih
    · simpa [hx] using ih

theorem nodup_map_of_inj_on {α β : Type} {f : α → β} {l : List α} (h : l.Nodup)
    (hf : ∀ x ∈ l, ∀ y ∈ l, f x = f y → x = y) : (l.map f).Nodup := by
  induction l with
  | nil => simp
  | cons a as ih =>
    rw [List.nodup_cons] at h
    simp only [List.map_cons, List.nodup_cons, List.mem_map, not_exists, not_and]
    refine ⟨?_, ih h.2 (fun x hx y hy => hf x (List.mem_cons_of_mem _ hx) y (List.mem_cons_of_mem _ hy))⟩
    intro y hy hfy
    have := hf y (List.mem_cons_of_mem _ hy) a List.mem_cons_self hfy
    exact h.1 (this ▸ hy)

theorem findLive_append_map (ks : List Key) (g : Key → Nat) (live : List (Key × Nat)) (k : Key) :
    findLive (ks.map (fun k => (k, g k)) ++ live) k = if k ∈ ks then some (g k) else findLive live k := by
  induction ks with
  | nil => simp
  | cons x xs ih =>
    by_cases hx : x = k
    · simp [findLive, hx]
    · have hx' : ¬ k = x := fun hh => hx hh.symm
      simp [findLive, hx, hx', ih]

section phase
variable {s : Mgr} {t : Reg} (h : WF s) (he : Equiv s t) (ks : List Key)
variable {obs : List Obs} (hobs : ∀ o, o ∈ obs ↔ o ∈ ks.zip (replies s ks))
include h he hobs
set_option linter.unusedSectionVars false

theorem mem_newKeys {k : Key} : k ∈ newKeys t obs ↔ ∃ o ∈ obs, isNewRef t o = true ∧ o.1 = k := by
  simp only [newKeys, mem_dedup, List.mem_map, List.mem_filter]
  constructor
  · rintro ⟨o, ⟨ho, hn⟩, hk⟩; exact ⟨o, ho, hn, hk⟩
  · rintro ⟨o, ho, hn, hk⟩; exact ⟨o, ⟨ho, hn⟩, hk⟩

theorem newKeys_name_iff (n : Name) :
    n ∈ (newKeys t obs).map keyName ↔ launchedNow t obs n = true := by
  simp only [List.mem_map, mem_newKeys h he ks hobs, launchedNow, List.any_eq_true, Bool.and_eq_true,
    beq_iff_eq]
  constructor
  · rintro ⟨k, ⟨o, ho, hn, hk⟩, hkn⟩; exact ⟨o, ho, hn, by rw [hk, hkn]⟩
  · rintro ⟨o, ho, hn, hk⟩; exact ⟨o.1, ⟨o, ho, hn, rfl⟩, hk⟩

theorem newKeys_names_nodup : ((newKeys t obs).map keyName).Nodup := by
  apply nodup_map_of_inj_on (nodup_dedup _)
  intro k hk k' hk' hn
  obtain ⟨o, ho, hno, hko⟩ := (mem_newKeys h he ks hobs).mp hk
  obtain ⟨o', ho', hno', hko'⟩ := (mem_newKeys h he ks hobs).mp hk'
  have hd := judge_cDistinct h he ks hobs
  simp only [cDistinct, List.all_eq_true] at hd
  have := hd o ho o' ho'
  have hn0 := hn
  rw [← hko, ← hko'] at hn
  have hor : ¬ keyName k = keyName k' ∨ k = k' := by
    simpa [hno, hno', hn, hko, hko'] using this
  rcases hor with h1 | h1
  · exact absurd hn0 h1
  · exact h1

/-- after an accepted phase the judge's registry describes the manager's state after the phase -/
theorem equiv_advance : Equiv (after s ks) (advance t obs) := by
  have hw := wf_after h ks
  constructor
  · simp [advance, he.offered, abilities_after]
  · intro k
    simp only [advance, findLive_append_map]
    by_cases hk : k ∈ newKeys t obs
    · obtain ⟨o, ho, hn, hko⟩ := (mem_newKeys h he ks hobs).mp hk
      obtain ⟨r, hr, hmem, _, _, _, _⟩ := newRef_facts h he ks hobs ho hn
      have hf := judge_cFresh h he ks hobs
      simp only [cFresh, List.all_eq_true] at hf
      have hfo := hf o ho
      simp only [hn, Bool.not_true, Bool.false_or, Bool.and_eq_true, beq_iff_eq, hr,
        Reply.ref.injEq] at hfo
      obtain ⟨r', hr'⟩ := find_isSome_of_mem hmem
      have hnd : ((after s ks).members.map (fun e => e.2.name)).Nodup := hw.children_eq ▸ hw.nodup
      have hrr : r' = r := by
        have := name_inj_of_nodup hnd (find_mem hr') hmem
          (by rw [(hw.entry _ (find_mem hr')).1, (hw.entry _ hmem).1])
        exact (Prod.mk.inj this).2
      rw [hko] at hr'
      simp only [hk, if_true, hr', Option.map_some, hrr]
      rw [hfo.1, hko]
    · simp only [hk, if_false, he.live]
      cases hf : find s.members k with
      | some r => rw [find_after hf ks]
      | none =>
        cases hf' : find (after s ks).members k with
        | none => rfl
        | some r =>
          exfalso
          rcases trace s ks (find_mem hf') with h0 | h0
          · obtain ⟨x, hx⟩ := find_isSome_of_mem h0; rw [hf] at hx; cases hx
          · apply hk
            refine (mem_newKeys h he ks hobs).mpr ⟨(k, .ref r), (hobs _).mpr h0, ?_, rfl⟩
            have hoff : k.1 ∈ s.abilities := by
              rw [← abilities_after s ks]; exact (hw.entry _ (find_mem hf')).2.1
            simp [isNewRef, offeredKey_eq h he ks hobs, hoff, he.live, hf]
  · intro n
    simp only [advance, List.count_append]
    rw [List.Nodup.count (newKeys_names_nodup h he ks hobs), ← expectedCount_eq h he ks hobs n]
    unfold expectedCount
    by_cases hl : launchedNow t obs n = true
    · simp [hl, (newKeys_name_iff h he ks hobs n).mpr hl]; omega
    · have hn := mt (newKeys_name_iff h he ks hobs n).mp hl
      have hl2 : launchedNow t obs n = false := by simpa using hl
      simp [hl2, hn]
  · intro k
    rw [Bool.eq_iff_iff]
    simp only [advance, nameTaken, List.any_append, List.any_map, Bool.or_eq_true, decide_eq_true_eq]
    have ht := he.taken k
    simp only [nameTaken] at ht
    rw [ht, decide_eq_true_eq]
    constructor
    · rintro (hh | hh)
      · simp only [List.any_eq_true, Function.comp, beq_iff_eq] at hh
        obtain ⟨k', hk', hkn⟩ := hh
        have : launchedNow t obs (keyName k) = true :=
          (newKeys_name_iff h he ks hobs _).mp (List.mem_map.mpr ⟨k', hk', hkn⟩)
        exact ((launchedNow_iff h he ks hobs _).mp this).1
      · exact children_mono_after s ks hh
    · intro hin
      by_cases hs : keyName k ∈ s.children
      · exact Or.inr hs
      · left
        have := (launchedNow_iff h he ks hobs _).mpr ⟨hin, hs⟩
        obtain ⟨k', hk', hkn⟩ := List.mem_map.mp ((newKeys_name_iff h he ks hobs _).mpr this)
        simp only [List.any_eq_true, Function.comp, beq_iff_eq]
        exact ⟨k', hk', hkn⟩

end phase

end MV.Model.ClusterManager

/-! ## kills and restarts between phases: the judge follows the abstract registry -/
namespace MV.Model.ClusterManager
open MV.Spec MV.Spec.ClusterJudge
open MV.Spec.ClusterRegistry (Reg findLive nameTaken keyName)

theorem findLive_filter_ne (l : List (Key × Nat)) (k k' : Key) :
    findLive (l.filter (fun e => decide (e.1 ≠ k))) k' = if k' = k then none else findLive l k' := by
  induction l with
  | nil => simp [findLive]
  | cons e rest ih =>
    obtain ⟨k0, n0⟩ := e
    rw [List.filter_cons]
    by_cases h0 : k0 = k
    · have hd : decide ((k0, n0).1 ≠ k) = false := by simp [h0]
      rw [hd]
      simp only [Bool.false_eq_true, if_false]
      rw [ih]
      by_cases hk : k' = k
      · simp [hk]
      · have hne : ¬ k0 = k' := by rw [h0]; exact fun hh => hk hh.symm
        simp only [hk, if_false, findLive, hne]
    · have hd : decide ((k0, n0).1 ≠ k) = true := by simp [h0]
      rw [hd]
      simp only [if_true, findLive]
      by_cases h1 : k0 = k'
      · have hk : ¬ k' = k := by rw [← h1]; exact h0
        simp only [h1, if_true, hk, if_false]
      · simp only [h1, if_false, ih]

theorem findLive_isSome_of_mem {l : List (Key × Nat)} {e : Key × Nat} (he : e ∈ l) :
    ∃ n, findLive l e.1 = some n := by
  induction l with
  | nil => simp at he
  | cons x rest ih =>
    obtain ⟨k0, n0⟩ := x
    by_cases hk : k0 = e.1
    · exact ⟨n0, by simp [findLive, hk]⟩
    · rcases List.mem_cons.mp he with h | h
      · exact absurd (by rw [h]) hk
      · obtain ⟨n, hn⟩ := ih h
        exact ⟨n, by simp [findLive, hk, hn]⟩

theorem findLive_mem {l : List (Key × Nat)} {k : Key} {n : Nat} (h : findLive l k = some n) :
    (k, n) ∈ l := by
  induction l with
  | nil => simp [findLive] at h
  | cons x rest ih =>
    obtain ⟨k0, n0⟩ := x
    by_cases hk : k0 = k
    · simp [findLive, hk] at h; subst hk; subst h; simp
    · simp [findLive, hk] at h; exact List.mem_cons_of_mem _ (ih h)

/-- a kill or a restart between phases: the judge applies the abstract registry's step to its state;
    the answers agree and the new judge state describes the new manager state -/
theorem equiv_step_quiescent {s : Mgr} {t : Reg} (h : WF s) (he : Equiv s t) (op : Op)
    (hop : ∀ i a, op ≠ .lookup i a) :
    Equiv (step s op).1 (ClusterRegistry.step t op).1 ∧
      (step s op).2 = (ClusterRegistry.step t op).2 := by
  cases op with
  | lookup i a => exact absurd rfl (hop i a)
  | restart =>
    rw [step_restart]
    refine ⟨⟨he.offered, ?_, he.count, ?_⟩, rfl⟩
    · intro k; simp [ClusterRegistry.step, restart, findLive, find]
    · intro k; simp [ClusterRegistry.step, restart, nameTaken]
  | kill i a =>
    simp only [ClusterRegistry.step]
    rw [he.live]
    cases hf : find s.members (a, i) with
    | none =>
      rw [step_kill_none hf]
      exact ⟨he, rfl⟩
    | some r =>
      rw [step_kill_some hf]
      have hn : r.name = keyName (a, i) := (h.entry _ (find_mem hf)).1
      simp only [Option.map_some]
      refine ⟨⟨he.offered, ?_, he.count, ?_⟩, by rw [hn]⟩
      · intro k'
        simp only [findLive_filter_ne]
        by_cases hk : k' = (a, i)
        · subst hk
          simp only [if_true]
          cases hf' : find (onTerminated s r.name).members (a, i) with
          | none => rfl
          | some x =>
            exfalso
            have hm := find_mem hf'
            simp only [onTerminated, List.mem_filter, ne_eq, decide_eq_true_eq] at hm
            exact hm.2 (by rw [(h.entry _ hm.1).1, hn]; rfl)
        · simp only [hk, if_false, he.live]
          cases hf' : find s.members k' with
          | none =>
            have : find (onTerminated s r.name).members k' = none :=
              find_filter_none (p := fun e => decide (e.2.name ≠ r.name)) hf'
            rw [this]
          | some r' =>
            have hne := distinct_names h hf' hf hk
            have : find (onTerminated s r.name).members k' = some r' :=
              find_filter (p := fun e => decide (e.2.name ≠ r.name)) hf' (by simpa using hne)
            rw [this]
      · intro k'
        rw [Bool.eq_iff_iff]
        simp only [nameTaken, List.any_eq_true, List.mem_filter, ne_eq, decide_eq_true_eq, beq_iff_eq,
          onTerminated]
        constructor
        · rintro ⟨e, ⟨hel, hek⟩, hen⟩
          obtain ⟨m, hm⟩ := findLive_isSome_of_mem hel
          rw [he.live] at hm
          cases hf' : find s.members e.1 with
          | none => rw [hf'] at hm; cases hm
          | some r' =>
            have hname : r'.name = keyName e.1 := (h.entry _ (find_mem hf')).1
            have hne := distinct_names h hf' hf hek
            refine ⟨?_, ?_⟩
            · rw [← hen, ← hname]; exact mem_children_of_mem h (find_mem hf')
            · rw [← hen, ← hname]; exact hne
        · rintro ⟨hin, hne⟩
          rw [h.children_eq] at hin
          obtain ⟨e', he', hen'⟩ := List.mem_map.mp hin
          obtain ⟨r'', hr''⟩ := find_isSome_of_mem (k := e'.1) (r := e'.2) he'
          have hl := he.live e'.1
          rw [hr''] at hl
          have hmem := findLive_mem hl
          have hk'' : keyName e'.1 = keyName k' := by
            have := (h.entry _ he').1
            simp only [keyName]; rw [← this, hen']; rfl
          refine ⟨(e'.1, r''.inc), ⟨hmem, ?_⟩, hk''⟩
          intro hkk
          apply hne
          rw [← hk'', hkk, ← hn]

end MV.Model.ClusterManager
