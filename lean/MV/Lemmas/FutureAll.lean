import MV.Lemmas.FutureQuiet
/-!
# All invariants hold after every schedule (the code as shipped)
-/
namespace MV.Model.Future
open MV.Model.Conc

/-- invariants of the system in which `future.New` may also be called with arbitrary addresses -/
structure RawInv (s : State) : Prop where
  reg : RegInv s
  bnd : BndInv s
  once : OnceInv s
  sect : SectInv s
  stable : StableInv s
  route : RouteInv s
  shape : ShapeInv s
  phase : PhaseInv s

/-- … and of the system in which every future is created by an ask -/
structure AskInv (s : State) : Prop where
  raw : RawInv s
  uniq : UniqInv s
  live : LiveInv s
  rel : RelInv s
  hang : HangInv s

theorem raw_init : RawInv init := by
  constructor
  · intro a k h; simp [init] at h
  · intro x hx; simp [init] at hx
  · intro k; simp [init, flag]; rfl
  · exact ⟨fun x hx => by simp [init] at hx, fun k _ => rfl⟩
  · intro k x hx; simp [init] at hx; exact absurd hx (by simp [default])
  · exact ⟨fun x hx => by simp [init] at hx, fun k hk => by simp [init] at hk⟩
  · refine ⟨fun x hx => by simp [init] at hx, fun k => ?_⟩
    intro r hr; simp [init, default] at hr
  · intro k hk; simp [init] at hk

theorem raw_step (S : Sys G PC) (hS : S.trans = trans Cfg.shipped) (s s' : State) (i : Nat)
    (h : RawInv s) (hs : step S s i = some s') : RawInv s' :=
  { reg := reg_step S hS s s' i h.bnd h.reg hs
    bnd := bnd_step S hS s s' i h.reg h.bnd hs
    once := once_step S hS s s' i h.bnd h.once hs
    sect := sect_step S hS s s' i h.bnd h.sect hs
    stable := stable_step rfl S hS s s' i h.bnd h.once h.sect h.stable hs
    route := route_step S hS s s' i h.reg h.bnd h.route hs
    shape := shape_step rfl rfl S hS s s' i h.shape hs
    phase := phase_step S hS s s' i h.bnd h.phase hs }

/-- facts about a thread the environment may start -/
theorem allowed_facts (pc : PC) (h : allowedRaw pc = true) :
    bnd 0 pc ∧ (∀ k, pending k pc = false) ∧ (∀ g, sect g pc) ∧ (∀ g, route g pc) ∧ shape pc ∧
    (∀ k, isInit k pc = false) ∧ (∀ g, live g pc) ∧
    (allowedAsk pc = true → ∀ a, isNew a pc = false) := by
  cases pc
  case close k e =>
    refine ⟨trivial, fun _ => rfl, fun _ => trivial, fun g => ?_, trivial, fun _ => rfl, fun _ => trivial,
      fun _ _ => rfl⟩
    intro t v he; subst he; simp [allowedRaw, allowedAsk] at h
  all_goals (simp [allowedRaw, allowedAsk] at h)
  all_goals simp [bnd, pending, sect, route, shape, isInit, live, isNew, allowedAsk]

theorem countP_snoc (l : List PC) (p : PC → Bool) (pc : PC) (h : p pc = false) :
    (l ++ [pc]).countP p = l.countP p := by
  simp [List.countP_append, h]

theorem raw_spawn (s : State) (pc : PC) (h : RawInv s) (ha : allowedRaw pc = true) :
    RawInv { s with ths := s.ths ++ [pc] } := by
  obtain ⟨f1, f2, f3, f4, f5, f6, f7, -⟩ := allowed_facts pc ha
  have mem : ∀ x, x ∈ s.ths ++ [pc] → x ∈ s.ths ∨ x = pc := by
    intro x hx; simpa using hx
  constructor
  · exact h.reg
  · intro x hx
    rcases mem x hx with hx | rfl
    · exact h.bnd x hx
    · exact bnd_mono (Nat.zero_le _) _ f1
  · intro k
    show (s.ths ++ [pc]).countP (pending k) + _ = _
    rw [countP_snoc _ _ _ (f2 k)]; exact h.once k
  · refine ⟨fun x hx => ?_, h.sect.2⟩
    rcases mem x hx with hx | rfl
    · exact h.sect.1 x hx
    · exact f3 _
  · exact h.stable
  · refine ⟨fun x hx => ?_, h.route.2⟩
    rcases mem x hx with hx | rfl
    · exact h.route.1 x hx
    · exact f4 _
  · refine ⟨fun x hx => ?_, h.shape.2⟩
    rcases mem x hx with hx | rfl
    · exact h.shape.1 x hx
    · exact f5
  · intro k hk
    show (s.ths ++ [pc]).countP (isInit k) + _ = _
    rw [countP_snoc _ _ _ (f6 k)]; exact h.phase k hk

theorem raw_reachable (sched : List (Ev PC)) : RawInv (exec (sysRaw Cfg.shipped) init sched) :=
  exec_inv (sysRaw Cfg.shipped) RawInv (fun s s' i h hs => raw_step _ rfl s s' i h hs)
    (fun s pc h ha => raw_spawn s pc h ha) init raw_init sched

theorem allowedAsk_raw (pc : PC) (h : allowedAsk pc = true) : allowedRaw pc = true := by
  cases pc <;> simp_all [allowedRaw, allowedAsk]

theorem ask_init : AskInv init := by
  refine ⟨raw_init, ?_, ?_, ?_, ?_⟩
  · constructor <;> intros <;> simp_all [init]
  · constructor
    · intro x hx; simp [init] at hx
    · intro k hk; simp [init] at hk
    · intro k hk; simp [init] at hk
    · rfl
  · constructor <;> intro k hk <;> simp [init] at hk
  · intro k hk; simp [init] at hk

theorem ask_step (S : Sys G PC) (hS : S.trans = trans Cfg.shipped) (s s' : State) (i : Nat)
    (h : AskInv s) (hs : step S s i = some s') : AskInv s' :=
  { raw := raw_step S hS s s' i h.raw hs
    uniq := uniq_step rfl S hS s s' i h.uniq hs
    live := live_step S hS s s' i h.raw.reg h.raw.bnd h.uniq h.live hs
    rel := rel_step S hS s s' i h.raw.reg h.raw.bnd h.raw.phase h.live h.rel hs
    hang := hang_step S hS s s' i h.raw.bnd h.raw.sect h.raw.phase h.live h.uniq h.raw.reg h.hang hs }

theorem pos_snoc (l : List PC) (p : PC → Bool) (pc : PC) (h : 0 < l.countP p) : 0 < (l ++ [pc]).countP p := by
  simp [List.countP_append]; omega

theorem ask_spawn (s : State) (pc : PC) (h : AskInv s) (ha : allowedAsk pc = true) :
    AskInv { s with ths := s.ths ++ [pc] } := by
  have har := allowedAsk_raw pc ha
  obtain ⟨-, -, -, -, -, -, f7, f8⟩ := allowed_facts pc har
  have f8 := f8 ha
  have mem : ∀ x, x ∈ s.ths ++ [pc] → x ∈ s.ths ∨ x = pc := by
    intro x hx; simpa using hx
  refine ⟨raw_spawn s pc h.raw har, ?_, ?_, ?_, ?_⟩
  · constructor
    · exact h.uniq.le
    · intro a; show (s.ths ++ [pc]).countP (isNew a) ≤ 1
      rw [countP_snoc _ _ _ (f8 a)]; exact h.uniq.one a
    · intro a hgt; show (s.ths ++ [pc]).countP (isNew a) = 0
      rw [countP_snoc _ _ _ (f8 a)]; exact h.uniq.above a hgt
    · intro k hk; show (s.ths ++ [pc]).countP (isNew _) = 0
      rw [countP_snoc _ _ _ (f8 _)]; exact h.uniq.used k hk
    · exact h.uniq.inj
  · refine ⟨fun x hx => ?_, h.live.rc, h.live.closed, h.live.crash⟩
    rcases mem x hx with hx | rfl
    · exact h.live.th x hx
    · exact f7 _
  · constructor
    · intro k hk hc
      rcases h.rel.reg k hk hc with q | q
      · exact Or.inl (pos_snoc _ _ _ q)
      · exact Or.inr q
    · intro k hk hc
      rcases h.rel.timer k hk hc with q | q
      · exact Or.inl (pos_snoc _ _ _ q)
      · exact Or.inr q
    · intro k hk hc
      rcases h.rel.fwd k hk hc with q | q
      · exact Or.inl (pos_snoc _ _ _ q)
      · exact Or.inr q
    · exact h.rel.req
  · intro k hk hr ht
    rcases h.hang k hk hr ht with q | q | q
    · exact Or.inl q
    · exact Or.inr (Or.inl ⟨q.1, pos_snoc _ _ _ q.2⟩)
    · exact Or.inr (Or.inr (pos_snoc _ _ _ q))

theorem ask_reachable (sched : List (Ev PC)) : AskInv (exec (sys Cfg.shipped) init sched) :=
  exec_inv (sys Cfg.shipped) AskInv (fun s s' i h hs => ask_step _ rfl s s' i h hs)
    (fun s pc h ha => ask_spawn s pc h ha) init ask_init sched

end MV.Model.Future
