import MV.Model.BitSet
/-!
# Laws of the `DynamicBitSet` model (shared by C14 and C16)

`isSet` is the membership predicate of the abstract set `{p | isSet b p}`.
-/
namespace MV.Model.BitSet

theorem bit_getLsbD (o j : Nat) (_ho : o < 64) (hj : j < 64) : (bit o).getLsbD j = decide (j = o) := by
  unfold bit
  simp [BitVec.getLsbD_shiftLeft]
  grind

/-- `w & (1<<o) != 0` is the test of bit `o` -/
theorem and_bit_ne_zero (w : BitVec 64) (o : Nat) (ho : o < 64) :
    ((w &&& bit o) != 0) = w.getLsbD o := by
  cases h : w.getLsbD o with
  | true =>
    have : (w &&& bit o) ≠ 0 := by
      intro hz
      have := congrArg (fun x => x.getLsbD o) hz
      simp [BitVec.getLsbD_and, h, bit_getLsbD o o ho ho] at this
    simpa using this
  | false =>
    have : (w &&& bit o) = 0 := by
      apply BitVec.eq_of_getLsbD_eq
      intro i hi
      simp only [BitVec.getLsbD_and, bit_getLsbD o i ho hi]
      by_cases hio : i = o
      · subst hio; simp [h]
      · simp [hio]
    simp [this]

theorem word_eq (b : BitSet) (i : Nat) : b.word i = b.bits.getD i 0 := rfl

theorem word_of_le (b : BitSet) (i : Nat) (h : b.bits.length ≤ i) : b.word i = 0 := by
  unfold word; simp [List.getD, List.getElem?_eq_none h]

/-- `IsSet` reads bit `pos % 64` of word `pos / 64` (words beyond the slice count as 0) -/
theorem isSet_eq (b : BitSet) (p : Nat) : b.isSet p = (b.word (p / 64)).getLsbD (p % 64) := by
  unfold isSet
  dsimp only
  have ho : p % 64 < 64 := Nat.mod_lt _ (by decide)
  by_cases h : b.bits.length ≤ p / 64
  · simp [h, word_of_le b _ h]
  · simp only [h, if_false]
    exact and_bit_ne_zero _ _ ho

theorem length_extend (l : List (BitVec 64)) (i : Nat) : (extend l i).length = max l.length (i + 1) := by
  unfold extend; simp; omega

theorem getD_extend (l : List (BitVec 64)) (i j : Nat) : (extend l i).getD j 0 = l.getD j 0 := by
  unfold extend
  simp only [List.getD_eq_getElem?_getD, List.getElem?_append, List.getElem?_replicate]
  grind

theorem word_set (b : BitSet) (p i : Nat) :
    (b.set p).word i = if i = p / 64 then b.word i ||| bit (p % 64) else b.word i := by
  unfold set word
  dsimp only
  have hl := length_extend b.bits (p / 64)
  have hx : ∀ j : Nat, (extend b.bits (p / 64))[j]?.getD 0 = b.bits[j]?.getD 0 := by
    intro j
    have := getD_extend b.bits (p / 64) j
    simpa only [List.getD_eq_getElem?_getD] using this
  simp only [List.getD_eq_getElem?_getD, List.getElem?_set]
  by_cases h : i = p / 64
  · subst h
    have hlt : p / 64 < (extend b.bits (p / 64)).length := by omega
    simp only [if_true, hlt, Option.getD_some, hx]
  · have h' : ¬ p / 64 = i := fun e => h e.symm
    simp only [h, h', if_false, hx]

theorem length_set (b : BitSet) (p : Nat) : (b.set p).bits.length = max b.bits.length (p / 64 + 1) := by
  unfold set; simp [length_extend]

theorem word_clear (b : BitSet) (p i : Nat) :
    (b.clear p).word i = if i = p / 64 then b.word i &&& ~~~ bit (p % 64) else b.word i := by
  unfold clear word
  dsimp only
  by_cases hl : b.bits.length > p / 64
  · simp only [hl, if_true, List.getD_eq_getElem?_getD, List.getElem?_set]
    by_cases h : i = p / 64
    · subst h; simp [hl]
    · have h' : ¬ p / 64 = i := fun e => h e.symm
      simp [h, h']
  · simp only [hl, if_false]
    by_cases h : i = p / 64
    · subst h
      have : b.bits.length ≤ p / 64 := by omega
      simp [List.getElem?_eq_none this]
    · simp [h]

theorem length_clear (b : BitSet) (p : Nat) : (b.clear p).bits.length = b.bits.length := by
  unfold clear; dsimp only; split <;> simp

/-- `pos ↦ (pos/64, pos%64)` is injective -/
theorem divmod_inj (p q : Nat) : (q / 64 = p / 64 ∧ q % 64 = p % 64) ↔ q = p := by omega

/-- **`Set` law**: afterwards exactly `p` and the old members are set -/
theorem isSet_set (b : BitSet) (p q : Nat) : (b.set p).isSet q = (decide (q = p) || b.isSet q) := by
  rw [isSet_eq, isSet_eq, word_set]
  have hq : q % 64 < 64 := Nat.mod_lt _ (by decide)
  have hp : p % 64 < 64 := Nat.mod_lt _ (by decide)
  by_cases h : q / 64 = p / 64
  · simp only [h, if_true, BitVec.getLsbD_or, bit_getLsbD _ _ hp hq]
    rw [← h]
    by_cases hm : q % 64 = p % 64
    · have : q = p := by omega
      simp [this]
    · have : ¬ q = p := by omega
      simp [hm, this]
  · have : ¬ q = p := by intro e; subst e; exact h rfl
    simp [h, this]

/-- **`Clear` law** -/
theorem isSet_clear (b : BitSet) (p q : Nat) : (b.clear p).isSet q = (!decide (q = p) && b.isSet q) := by
  rw [isSet_eq, isSet_eq, word_clear]
  have hq : q % 64 < 64 := Nat.mod_lt _ (by decide)
  have hp : p % 64 < 64 := Nat.mod_lt _ (by decide)
  by_cases h : q / 64 = p / 64
  · simp only [h, if_true, BitVec.getLsbD_and, BitVec.getLsbD_not, bit_getLsbD _ _ hp hq]
    rw [← h]
    by_cases hm : q % 64 = p % 64
    · have : q = p := by omega
      simp [this]
    · have : ¬ q = p := by omega
      simp [hm, this, hq]
  · have : ¬ q = p := by intro e; subst e; exact h rfl
    simp [h, this]

theorem isSet_new (q : Nat) : new.isSet q = false := by
  rw [isSet_eq]; unfold word new
  cases h : q / 64 <;> simp

theorem isSet_zero (q : Nat) : zero.isSet q = false := by
  rw [isSet_eq]; unfold word zero; simp

theorem isSet_copy (b : BitSet) (q : Nat) : b.copy.isSet q = b.isSet q := rfl

theorem copy_eq (b : BitSet) : b.copy = b := rfl

/-- two words are related bitwise iff all 64 bits are -/
theorem word_ext (x y : BitVec 64) : x = y ↔ ∀ j, j < 64 → x.getLsbD j = y.getLsbD j :=
  ⟨fun h _ _ => by rw [h], BitVec.eq_of_getLsbD_eq⟩

/-- positions ↔ (word, bit) pairs -/
theorem forall_pos_iff (P : Nat → Nat → Prop) :
    (∀ p, P (p / 64) (p % 64)) ↔ ∀ i j, j < 64 → P i j := by
  constructor
  · intro h i j hj
    have := h (i * 64 + j)
    have e1 : (i * 64 + j) / 64 = i := by omega
    have e2 : (i * 64 + j) % 64 = j := by omega
    rwa [e1, e2] at this
  · intro h p
    exact h _ _ (Nat.mod_lt _ (by decide))

/-- `Equal` as coded is equality of the word slices (length included) -/
theorem equal_iff (a b : BitSet) : a.equal b = true ↔ a.bits = b.bits := by
  unfold equal
  constructor
  · intro h
    by_cases hl : a.bits.length = b.bits.length
    · simp only [hl, bne_self_eq_false, Bool.false_eq_true, if_false, List.all_eq_true, List.mem_range,
        beq_iff_eq] at h
      apply List.ext_getElem hl
      intro i h1 h2
      have := h i (by omega)
      unfold word at this
      simpa [List.getD_eq_getElem?_getD, List.getElem?_eq_getElem h1, List.getElem?_eq_getElem h2] using this
    · simp [hl] at h
  · intro h
    simp [h, word]

/-- `Equal` implies the same members … -/
theorem equal_sound (a b : BitSet) (h : a.equal b = true) (p : Nat) : a.isSet p = b.isSet p := by
  have := (equal_iff a b).mp h
  rw [isSet_eq, isSet_eq]; unfold word; rw [this]

/-- … and with equally many words it is exactly set equality -/
theorem equal_iff_same_members (a b : BitSet) (hl : a.bits.length = b.bits.length) :
    a.equal b = true ↔ ∀ p, a.isSet p = b.isSet p := by
  constructor
  · exact equal_sound a b
  · intro h
    rw [equal_iff]
    apply List.ext_getElem hl
    intro i h1 h2
    rw [word_ext]
    intro j hj
    have := h (i * 64 + j)
    rw [isSet_eq, isSet_eq] at this
    have e1 : (i * 64 + j) / 64 = i := by omega
    have e2 : (i * 64 + j) % 64 = j := by omega
    rw [e1, e2] at this
    unfold word at this
    simpa [List.getD_eq_getElem?_getD, List.getElem?_eq_getElem h1, List.getElem?_eq_getElem h2] using this

/-- subset of the abstract sets, word by word -/
theorem subset_iff_words (db mask : BitSet) :
    (∀ p, mask.isSet p = true → db.isSet p = true) ↔ ∀ i, db.word i &&& mask.word i = mask.word i := by
  have : (∀ p, mask.isSet p = true → db.isSet p = true) ↔
      ∀ i j, j < 64 → ((mask.word i).getLsbD j = true → (db.word i).getLsbD j = true) := by
    rw [← forall_pos_iff (fun i j => (mask.word i).getLsbD j = true → (db.word i).getLsbD j = true)]
    constructor <;> intro h p <;> have := h p <;> simpa [isSet_eq] using this
  rw [this]
  constructor
  · intro h i
    rw [word_ext]; intro j hj
    have := h i j hj
    simp only [BitVec.getLsbD_and]
    cases hm : (mask.word i).getLsbD j <;> simp_all
  · intro h i j hj hm
    have := congrArg (fun x => x.getLsbD j) (h i)
    simp only [BitVec.getLsbD_and, hm, Bool.and_true] at this
    exact this

/-- `In` as coded, in words -/
theorem isIn_iff_words (db mask : BitSet) :
    db.isIn mask = true ↔ mask.bits.length ≤ db.bits.length ∧ ∀ i, db.word i &&& mask.word i = mask.word i := by
  unfold isIn
  simp only [List.all_eq_true, List.mem_range]
  constructor
  · intro h
    have hl : mask.bits.length ≤ db.bits.length := by
      apply Nat.le_of_not_lt
      intro hlt
      have := h db.bits.length hlt
      simp at this
    refine ⟨hl, fun i => ?_⟩
    by_cases hi : i < mask.bits.length
    · have := h i hi
      have h2 : ¬ i ≥ db.bits.length := by omega
      simpa [h2] using this
    · rw [word_of_le mask i (by omega)]; simp
  · intro ⟨hl, h⟩ i hi
    have h2 : ¬ i ≥ db.bits.length := by omega
    simp [h2, h i]

/-- **`In` law**: `db.In(mask)` ⇔ every member of `mask` is a member of `db` — *and* `mask` has no
more words than `db` (trailing zero words of the mask make the answer `false`, as coded). -/
theorem in_iff_subset (db mask : BitSet) :
    db.isIn mask = true ↔
      mask.bits.length ≤ db.bits.length ∧ ∀ p, mask.isSet p = true → db.isSet p = true := by
  rw [isIn_iff_words, subset_iff_words]

/-- for a mask that is not longer than `db`, `In` is exactly the subset test -/
theorem in_iff_subset_of_le (db mask : BitSet) (h : mask.bits.length ≤ db.bits.length) :
    db.isIn mask = true ↔ ∀ p, mask.isSet p = true → db.isSet p = true := by
  rw [in_iff_subset]; exact ⟨fun h => h.2, fun h' => ⟨h, h'⟩⟩

theorem disjoint_iff_words (db mask : BitSet) :
    (∀ p, ¬ (mask.isSet p = true ∧ db.isSet p = true)) ↔ ∀ i, db.word i &&& mask.word i = 0 := by
  have : (∀ p, ¬ (mask.isSet p = true ∧ db.isSet p = true)) ↔
      ∀ i j, j < 64 → ¬ ((mask.word i).getLsbD j = true ∧ (db.word i).getLsbD j = true) := by
    rw [← forall_pos_iff (fun i j => ¬ ((mask.word i).getLsbD j = true ∧ (db.word i).getLsbD j = true))]
    constructor <;> intro h p <;> have := h p <;> simpa [isSet_eq] using this
  rw [this]
  constructor
  · intro h i
    rw [word_ext]; intro j hj
    have := h i j hj
    simp only [BitVec.getLsbD_and]
    cases hm : (mask.word i).getLsbD j <;> simp_all
  · intro h i j hj ⟨hm, hd⟩
    have := congrArg (fun x => x.getLsbD j) (h i)
    simp [BitVec.getLsbD_and, hm, hd] at this

/-- **`NotIn` law**: `db.NotIn(mask)` ⇔ the two sets are disjoint (no caveat) -/
theorem notIn_iff_disjoint (db mask : BitSet) :
    db.notIn mask = true ↔ ∀ p, ¬ (mask.isSet p = true ∧ db.isSet p = true) := by
  rw [disjoint_iff_words]
  unfold notIn
  simp only [List.all_eq_true, List.mem_range]
  constructor
  · intro h i
    by_cases hi : i < mask.bits.length
    · by_cases hd : i ≥ db.bits.length
      · rw [word_of_le db i hd]; simp
      · have := h i hi
        simpa [hd] using this
    · rw [word_of_le mask i (by omega)]; simp
  · intro h i hi
    by_cases hd : i ≥ db.bits.length
    · simp [hd]
    · simp [hd, h i]

/-- `Bits()` lists exactly the members -/
theorem mem_bitsOf (b : BitSet) (p : Nat) : p ∈ b.bitsOf ↔ b.isSet p = true := by
  unfold bitsOf
  simp only [List.mem_flatMap, List.mem_range, List.mem_filterMap]
  constructor
  · rintro ⟨i, hi, j, hj, h⟩
    split at h
    · rename_i hb
      simp only [Option.some.injEq] at h
      subst h
      rw [isSet_eq]
      have e1 : (i * 64 + j) / 64 = i := by omega
      have e2 : (i * 64 + j) % 64 = j := by omega
      rw [e1, e2, ← and_bit_ne_zero _ _ hj]; exact hb
    · simp at h
  · intro h
    rw [isSet_eq] at h
    have hm : p % 64 < 64 := Nat.mod_lt _ (by decide)
    have hlen : p / 64 < b.bits.length := by
      apply Nat.lt_of_not_le
      intro hle
      rw [word_of_le b _ hle] at h; simp at h
    refine ⟨p / 64, hlen, p % 64, hm, ?_⟩
    rw [and_bit_ne_zero _ _ hm, h]
    simp; omega

/-! ## as-coded deviations from plain set semantics (witnesses) -/

/-- `Set(100); Clear(100)` leaves trailing zero words: same members as a fresh set, `Equal` false -/
theorem equal_trailing_zero_witness :
    (∀ p, ((new.set 100).clear 100).isSet p = new.isSet p) ∧ ((new.set 100).clear 100).equal new = false := by
  refine ⟨fun p => ?_, by decide⟩
  rw [isSet_clear, isSet_set, isSet_new]; cases h : decide (p = 100) <;> simp

/-- the zero value and `NewDynamicBitSet()` are both empty but not `Equal` -/
theorem equal_zero_new_witness : (∀ p, zero.isSet p = new.isSet p) ∧ zero.equal new = false := by
  refine ⟨fun p => ?_, by decide⟩
  rw [isSet_zero, isSet_new]

/-- a mask with a trailing zero word is not `In` a set that contains all its members -/
theorem in_trailing_zero_witness :
    (∀ p, ((new.set 100).clear 100).isSet p = true → new.isSet p = true) ∧
      new.isIn ((new.set 100).clear 100) = false := by
  refine ⟨fun p => ?_, by decide⟩
  rw [isSet_clear, isSet_set, isSet_new]; cases h : decide (p = 100) <;> simp

end MV.Model.BitSet
