import MV.Model.Registry
/-!
# Invariants of the registry model (all interleavings, any number of threads)

`GInv` collects the facts about the shared state, `SInv` adds what the threads hold in their locals.
The key fact is **cache coherence** (`coh`): whatever process a reference object has cached (or a
lookup thread holds after reading the cache / the map) is terminated, or still stored under that
address, or in limbo (removed by a `LoadAndDelete` whose `Terminate` has not run yet).
-/
namespace MV.Lemmas.Registry
open MV.Model.Conc MV.Model.Registry MV.Spec.Registry

/-! ## runs of the automaton -/

theorem runLins_append (m : Mode) (s : Abs) (l1 l2 : List Lin) :
    runLins m s (l1 ++ l2) = (runLins m s l1).bind (fun s' => runLins m s' l2) := by
  induction l1 generalizing s with
  | nil => simp [runLins]
  | cons x xs ih =>
    simp only [List.cons_append, runLins]
    cases applyLin m s x with
    | none => simp
    | some s' => simpa using ih s'

theorem lins_append (t1 t2 : List TrEv) : lins (t1 ++ t2) = lins t1 ++ lins t2 := by
  simp [lins, List.filterMap_append]

theorem runLins_snoc (m : Mode) (tr : List TrEv) (evs : List TrEv) (l : Lin) (a a' : Abs)
    (h : runLins m Abs.init (lins tr) = some a) (hl : lins evs = [l])
    (ha : applyLin m a l = some a') : runLins m Abs.init (lins (tr ++ evs)) = some a' := by
  rw [lins_append, runLins_append, h, hl]
  simp [runLins, ha]

theorem runLins_nolin (m : Mode) (tr : List TrEv) (evs : List TrEv) (a : Abs)
    (h : runLins m Abs.init (lins tr) = some a) (hl : lins evs = []) :
    runLins m Abs.init (lins (tr ++ evs)) = some a := by
  rw [lins_append, hl, List.append_nil]; exact h

/-! ## the invariant of the shared state -/

/-- `p` is a legitimate answer candidate for address `a`: terminated (a reader will notice), or
current, or in limbo -/
def coh (g : G) (a : Addr) (p : Proc) : Prop :=
  g.term p = true ∨ g.map a = some p ∨ (a, p) ∈ g.limbo

structure GInv (g : G) : Prop where
  cacheCoh : ∀ r p, g.cache r = some p → coh g r.addr p
  legal : runLins .code Abs.init (lins g.tr) = some (absOf g)
  freshMap : ∀ (a p : Nat), g.map a = some p → p < g.nextProc
  freshLimbo : ∀ (a p : Nat), (a, p) ∈ g.limbo → p < g.nextProc
  freshGone : ∀ p : Nat, p ∈ g.gone → p < g.nextProc
  inj : ∀ a a' p, g.map a = some p → g.map a' = some p → a = a'
  limboOut : ∀ a p a', (a, p) ∈ g.limbo → g.map a' ≠ some p
  goneDead : ∀ p, p ∈ g.gone → g.term p = true ∧ ∀ a, g.map a ≠ some p
  clean : g.regInWindow = false → ∀ a p, (a, p) ∈ g.limbo → g.map a = none
  legalStated : g.regInWindow = false → runLins .stated Abs.init (lins g.tr) = some (absOf g)

/-- what a thread holds in its locals -/
def pcOK (g : G) : PC → Prop
  | .gIsTerm _ r p => coh g r.addr p
  | .gCStore _ r p => coh g r.addr p
  | _ => True

def atUTerm (a : Addr) (p : Proc) : PC → Bool
  | .uTerm _ a' p' => a' == a && p' == p
  | _ => false

theorem ginv_init : GInv ({} : G) := by
  refine ⟨?_, rfl, ?_, ?_, ?_, ?_, ?_, ?_, ?_, ?_⟩ <;> intros <;> simp_all [absOf, Abs.init, lins, runLins]

/-- a step that changes nothing the invariant talks about, except the cache (re-proved by the
caller), the op counter, and trace events that are no `lin` events -/
theorem ginv_same {g g' : G} (hI : GInv g)
    (hm : g'.map = g.map) (ht : g'.term = g.term) (hl : g'.limbo = g.limbo)
    (hn : g'.nextProc = g.nextProc) (hgo : g'.gone = g.gone) (hr : g'.regInWindow = g.regInWindow)
    (hlin : lins g'.tr = lins g.tr)
    (hc : ∀ r p, g'.cache r = some p → coh g' r.addr p) : GInv g' := by
  have habs : absOf g' = absOf g := by simp [absOf, hm, hl]
  refine ⟨hc, ?_, ?_, ?_, ?_, ?_, ?_, ?_, ?_, ?_⟩
  · rw [hlin, habs]; exact hI.legal
  · rw [hm, hn]; exact hI.freshMap
  · rw [hl, hn]; exact hI.freshLimbo
  · rw [hgo, hn]; exact hI.freshGone
  · rw [hm]; exact hI.inj
  · rw [hm, hl]; exact hI.limboOut
  · rw [hm, hgo, ht]; exact hI.goneDead
  · rw [hm, hl, hr]; exact hI.clean
  · rw [hlin, habs, hr]; exact hI.legalStated

theorem coh_same {g g' : G} (hm : g'.map = g.map) (ht : g'.term = g.term) (hl : g'.limbo = g.limbo)
    (a : Addr) (p : Proc) : coh g' a p ↔ coh g a p := by
  simp [coh, hm, ht, hl]

/-- a step that only appends one `lin` event which is legal in the current abstract state and does
not change it (and may allocate a process id) -/
theorem ginv_lin {g g' : G} (hI : GInv g)
    (hm : g'.map = g.map) (ht : g'.term = g.term) (hl : g'.limbo = g.limbo)
    (hn : g.nextProc ≤ g'.nextProc) (hgo : g'.gone = g.gone) (hr : g'.regInWindow = g.regInWindow)
    (hca : g'.cache = g.cache) (l : Lin) (evs : List TrEv) (htr : g'.tr = g.tr ++ evs) (hevs : lins evs = [l])
    (h1 : applyLin .code (absOf g) l = some (absOf g))
    (h2 : g.regInWindow = false → applyLin .stated (absOf g) l = some (absOf g)) : GInv g' := by
  have habs : absOf g' = absOf g := by simp [absOf, hm, hl]
  refine ⟨?_, ?_, ?_, ?_, ?_, ?_, ?_, ?_, ?_, ?_⟩
  · intro r p h; rw [hca] at h; exact (coh_same hm ht hl _ _).mpr (hI.cacheCoh r p h)
  · rw [htr, habs]; exact runLins_snoc _ _ _ l _ _ hI.legal hevs h1
  · rw [hm]; intro a p h; have := hI.freshMap a p h; omega
  · rw [hl]; intro a p h; have := hI.freshLimbo a p h; omega
  · rw [hgo]; intro p h; have := hI.freshGone p h; omega
  · rw [hm]; exact hI.inj
  · rw [hm, hl]; exact hI.limboOut
  · rw [hm, hgo, ht]; exact hI.goneDead
  · rw [hm, hl, hr]; exact hI.clean
  · rw [hr, htr, habs]; intro h; exact runLins_snoc _ _ _ l _ _ (hI.legalStated h) hevs (h2 h)

theorem getAllowed_cur (m : Mode) (s : Abs) (a : Addr) (v : Option Proc) (h : s.cur a = v) :
    getAllowed m s a v = true := by
  simp [getAllowed, h]

theorem getAllowed_code_limbo (s : Abs) (a : Addr) (p : Proc) (h : (a, p) ∈ s.limbo) :
    getAllowed .code s a (some p) = true := by
  simp [getAllowed, h]

theorem getAllowed_stated_limbo (s : Abs) (a : Addr) (p : Proc) (h : (a, p) ∈ s.limbo)
    (hc : s.cur a = none) : getAllowed .stated s a (some p) = true := by
  simp [getAllowed, h, hc]

/-! ## one transition -/

/-- the state after a successful `LoadOrStore` -/
def losOk (g : G) (k : Nat) (a : Addr) : G :=
  { g with map := upd g.map a (some g.nextProc), nextProc := g.nextProc + 1,
           regInWindow := g.regInWindow || g.limbo.any (fun x => x.1 == a),
           tr := g.tr ++ [.lin k (.reg a g.nextProc true), .ret k (.regOk g.nextProc)] }

theorem trans_rLos_none {g : G} {k : Nat} {a : Addr} (hI : GInv g) (hmap : g.map a = none) :
    GInv (losOk g k a) ∧
    (∀ a' p, coh g a' p →
      coh (losOk g k a) a' p) := by
  have mono : ∀ a' p, coh g a' p →
      coh (losOk g k a) a' p := by
    intro a' p h
    rcases h with h | h | h
    · exact Or.inl h
    · right; left
      show upd g.map a (some g.nextProc) a' = some p
      have : a' ≠ a := by intro e; rw [e, hmap] at h; cases h
      simp [upd, this, h]
    · exact Or.inr (Or.inr h)
  refine ⟨⟨?_, ?_, ?_, ?_, ?_, ?_, ?_, ?_, ?_, ?_⟩, mono⟩
  · intro r p h; exact mono _ _ (hI.cacheCoh r p h)
  · refine runLins_snoc _ _ _ (.reg a g.nextProc true) _ _ hI.legal (by simp [lins]) ?_
    simp [applyLin, absOf, hmap, losOk]
  · intro a' p h
    show p < g.nextProc + 1
    change upd g.map a (some g.nextProc) a' = some p at h
    unfold upd at h
    split at h
    · cases h; omega
    · have := hI.freshMap a' p h; omega
  · intro a' p h; have := hI.freshLimbo a' p h; show p < g.nextProc + 1; omega
  · intro p h; have := hI.freshGone p h; show p < g.nextProc + 1; omega
  · intro a1 a2 p h1 h2
    change upd g.map a (some g.nextProc) a1 = some p at h1
    change upd g.map a (some g.nextProc) a2 = some p at h2
    unfold upd at h1 h2
    split at h1 <;> split at h2
    · rename_i e1 e2; rw [e1, e2]
    · cases h1; have := hI.freshMap a2 _ h2; omega
    · cases h2; have := hI.freshMap a1 _ h1; omega
    · exact hI.inj a1 a2 p h1 h2
  · intro a0 p a' hl h
    change upd g.map a (some g.nextProc) a' = some p at h
    unfold upd at h
    split at h
    · cases h; have := hI.freshLimbo a0 _ hl; omega
    · exact hI.limboOut a0 p a' hl h
  · intro p hp
    refine ⟨(hI.goneDead p hp).1, ?_⟩
    intro a' h
    change upd g.map a (some g.nextProc) a' = some p at h
    unfold upd at h
    split at h
    · cases h; have := hI.freshGone _ hp; omega
    · exact (hI.goneDead p hp).2 a' h
  · intro hf a0 p hl
    change (g.regInWindow || g.limbo.any (fun x => x.1 == a)) = false at hf
    simp only [Bool.or_eq_false_iff] at hf
    have hne : a0 ≠ a := by
      intro e
      have := List.any_eq_false.mp hf.2 (a0, p) hl
      simp [e] at this
    show upd g.map a (some g.nextProc) a0 = none
    simp [upd, hne]; exact hI.clean hf.1 a0 p hl
  · intro hf
    change (g.regInWindow || g.limbo.any (fun x => x.1 == a)) = false at hf
    simp only [Bool.or_eq_false_iff] at hf
    refine runLins_snoc _ _ _ (.reg a g.nextProc true) _ _ (hI.legalStated hf.1) (by simp [lins]) ?_
    simp [applyLin, absOf, hmap, losOk]

/-- the state after a `LoadAndDelete` that found `p` -/
def ladSome (g : G) (k : Nat) (a : Addr) (p : Proc) : G :=
  { g with map := upd g.map a none, limbo := (a, p) :: g.limbo,
           tr := g.tr ++ [.lin k (.del a (some p))] }

theorem trans_uLad_some {g : G} {k : Nat} {a : Addr} {p : Proc} (hI : GInv g) (hmap : g.map a = some p) :
    GInv (ladSome g k a p) ∧ (∀ a' q, coh g a' q → coh (ladSome g k a p) a' q) := by
  have mono : ∀ a' q, coh g a' q → coh (ladSome g k a p) a' q := by
    intro a' q h
    rcases h with h | h | h
    · exact Or.inl h
    · by_cases e : a' = a
      · subst e; rw [hmap] at h; cases h
        right; right; simp [ladSome]
      · right; left
        show upd g.map a none a' = some q
        simp [upd, e, h]
    · right; right; simp [ladSome, h]
  refine ⟨⟨?_, ?_, ?_, ?_, ?_, ?_, ?_, ?_, ?_, ?_⟩, mono⟩
  · intro r q h; exact mono _ _ (hI.cacheCoh r q h)
  · refine runLins_snoc _ _ _ (.del a (some p)) _ _ hI.legal (by simp [lins]) ?_
    simp [applyLin, absOf, hmap, ladSome]
  · intro a' q h
    change upd g.map a none a' = some q at h
    unfold upd at h
    split at h
    · cases h
    · exact hI.freshMap a' q h
  · intro a' q h
    change (a', q) ∈ (a, p) :: g.limbo at h
    rcases List.mem_cons.mp h with e | h
    · cases e; exact hI.freshMap a p hmap
    · exact hI.freshLimbo a' q h
  · exact hI.freshGone
  · intro a1 a2 q h1 h2
    change upd g.map a none a1 = some q at h1
    change upd g.map a none a2 = some q at h2
    unfold upd at h1 h2
    split at h1
    · cases h1
    · split at h2
      · cases h2
      · exact hI.inj a1 a2 q h1 h2
  · intro a0 q a' hl h
    change (a0, q) ∈ (a, p) :: g.limbo at hl
    change upd g.map a none a' = some q at h
    unfold upd at h
    split at h
    · cases h
    · rename_i hne
      rcases List.mem_cons.mp hl with e | hl
      · cases e; exact hne (hI.inj a' a p h hmap)
      · exact hI.limboOut a0 q a' hl h
  · intro q hq
    refine ⟨(hI.goneDead q hq).1, ?_⟩
    intro a' h
    change upd g.map a none a' = some q at h
    unfold upd at h
    split at h
    · cases h
    · exact (hI.goneDead q hq).2 a' h
  · intro hf a0 q hl
    change (a0, q) ∈ (a, p) :: g.limbo at hl
    show upd g.map a none a0 = none
    by_cases e : a0 = a
    · simp [upd, e]
    · rcases List.mem_cons.mp hl with e' | hl
      · cases e'; exact absurd rfl e
      · simp [upd, e]; exact hI.clean hf a0 q hl
  · intro hf
    refine runLins_snoc _ _ _ (.del a (some p)) _ _ (hI.legalStated hf) (by simp [lins]) ?_
    simp [applyLin, absOf, hmap, ladSome]

/-- the state after `Terminate` of the removed process -/
def termG (g : G) (k : Nat) (a : Addr) (p : Proc) : G :=
  { g with term := upd g.term p true, limbo := g.limbo.erase (a, p), gone := p :: g.gone,
           tr := g.tr ++ [.lin k (.term a p), .ret k .unit] }

theorem trans_uTerm {g : G} {k : Nat} {a : Addr} {p : Proc} (hI : GInv g) (hin : (a, p) ∈ g.limbo) :
    GInv (termG g k a p) ∧ (∀ a' q, coh g a' q → coh (termG g k a p) a' q) := by
  have hterm : ∀ q, g.term q = true → (termG g k a p).term q = true := by
    intro q h; show upd g.term p true q = true; unfold upd; split <;> simp_all
  have mono : ∀ a' q, coh g a' q → coh (termG g k a p) a' q := by
    intro a' q h
    rcases h with h | h | h
    · exact Or.inl (hterm q h)
    · exact Or.inr (Or.inl h)
    · by_cases e : (a', q) = (a, p)
      · cases e; left; show upd g.term p true p = true; simp [upd]
      · right; right; show (a', q) ∈ g.limbo.erase (a, p)
        exact (List.mem_erase_of_ne e).mpr h
  have sub : ∀ x, x ∈ (termG g k a p).limbo → x ∈ g.limbo := fun x h => List.mem_of_mem_erase h
  refine ⟨⟨?_, ?_, ?_, ?_, ?_, ?_, ?_, ?_, ?_, ?_⟩, mono⟩
  · intro r q h; exact mono _ _ (hI.cacheCoh r q h)
  · refine runLins_snoc _ _ _ (.term a p) _ _ hI.legal (by simp [lins]) ?_
    simp [applyLin, absOf, termG]
  · exact hI.freshMap
  · intro a' q h; exact hI.freshLimbo a' q (sub _ h)
  · intro q h
    change q ∈ p :: g.gone at h
    rcases List.mem_cons.mp h with e | h
    · rw [e]; exact hI.freshLimbo a p hin
    · exact hI.freshGone q h
  · exact hI.inj
  · intro a0 q a' hl h; exact hI.limboOut a0 q a' (sub _ hl) h
  · intro q hq
    change q ∈ p :: g.gone at hq
    rcases List.mem_cons.mp hq with e | hq
    · rw [e]
      refine ⟨by show upd g.term p true p = true; simp [upd], ?_⟩
      intro a' h; exact hI.limboOut a p a' hin h
    · exact ⟨hterm q (hI.goneDead q hq).1, (hI.goneDead q hq).2⟩
  · intro hf a0 q hl; exact hI.clean hf a0 q (sub _ hl)
  · intro hf
    refine runLins_snoc _ _ _ (.term a p) _ _ (hI.legalStated hf) (by simp [lins]) ?_
    simp [applyLin, absOf, termG]

/-- **one transition preserves the invariant**: given the invariant of the shared state, the facts the
acting thread holds in its locals, and (for `Terminate`) that its process is in limbo -/
theorem trans_inv {g g' : G} {pc pc' : PC} {sp : List PC} (hI : GInv g) (hpc : pcOK g pc)
    (hU : ∀ k a p, pc = .uTerm k a p → (a, p) ∈ g.limbo)
    (ht : trans g pc = some (g', pc', sp)) :
    GInv g' ∧ sp = [] ∧ pcOK g' pc' ∧ (∀ a p, coh g a p → coh g' a p) := by
  have same_call : ∀ (n : Nat) (e : TrEv), lins [e] = [] →
      GInv { g with nextOp := n, tr := g.tr ++ [e] } ∧
      (∀ a p, coh g a p → coh { g with nextOp := n, tr := g.tr ++ [e] } a p) := by
    intro n e he
    refine ⟨ginv_same hI rfl rfl rfl rfl rfl rfl (by simp [lins_append, he]) ?_, fun a p h => h⟩
    intro r p h; exact hI.cacheCoh r p h
  cases pc with
  | rCall a =>
    simp only [MV.Model.Registry.trans, Option.some.injEq, Prod.mk.injEq] at ht
    obtain ⟨rfl, rfl, rfl⟩ := ht
    have := same_call (g.nextOp + 1) (.call g.nextOp (.reg a)) (by simp [lins])
    exact ⟨this.1, rfl, trivial, this.2⟩
  | uCall a =>
    simp only [MV.Model.Registry.trans, Option.some.injEq, Prod.mk.injEq] at ht
    obtain ⟨rfl, rfl, rfl⟩ := ht
    have := same_call (g.nextOp + 1) (.call g.nextOp (.unreg a)) (by simp [lins])
    exact ⟨this.1, rfl, trivial, this.2⟩
  | gCall r =>
    simp only [MV.Model.Registry.trans, Option.some.injEq, Prod.mk.injEq] at ht
    obtain ⟨rfl, rfl, rfl⟩ := ht
    have := same_call (g.nextOp + 1) (.call g.nextOp (.get r.addr)) (by simp [lins])
    exact ⟨this.1, rfl, trivial, this.2⟩
  | rLos k a =>
    simp only [MV.Model.Registry.trans] at ht
    split at ht
    · rename_i hmap
      simp only [Option.some.injEq, Prod.mk.injEq] at ht
      obtain ⟨rfl, rfl, rfl⟩ := ht
      have := @trans_rLos_none g k a hI hmap
      exact ⟨this.1, rfl, trivial, this.2⟩
    · rename_i q hmap
      simp only [Option.some.injEq, Prod.mk.injEq] at ht
      obtain ⟨rfl, rfl, rfl⟩ := ht
      refine ⟨ginv_lin hI rfl rfl rfl (Nat.le_succ _) rfl rfl rfl (.reg a g.nextProc false) _ rfl
        (by simp [lins]) ?_ ?_, rfl, trivial, fun a p h => h⟩
      · simp [applyLin, absOf, hmap]
      · intro _; simp [applyLin, absOf, hmap]
  | uLad k a =>
    simp only [MV.Model.Registry.trans] at ht
    split at ht
    · rename_i hmap
      simp only [Option.some.injEq, Prod.mk.injEq] at ht
      obtain ⟨rfl, rfl, rfl⟩ := ht
      refine ⟨ginv_lin hI rfl rfl rfl (Nat.le_refl _) rfl rfl rfl (.del a none) _ rfl
        (by simp [lins]) ?_ ?_, rfl, trivial, fun a p h => h⟩
      · simp [applyLin, absOf, hmap]
      · intro _; simp [applyLin, absOf, hmap]
    · rename_i q hmap
      simp only [Option.some.injEq, Prod.mk.injEq] at ht
      obtain ⟨rfl, rfl, rfl⟩ := ht
      have := @trans_uLad_some g k a q hI hmap
      exact ⟨this.1, rfl, trivial, this.2⟩
  | uTerm k a p =>
    simp only [MV.Model.Registry.trans, Option.some.injEq, Prod.mk.injEq] at ht
    obtain ⟨rfl, rfl, rfl⟩ := ht
    have := @trans_uTerm g k a p hI (hU k a p rfl)
    exact ⟨this.1, rfl, trivial, this.2⟩
  | gCLoad k r =>
    simp only [MV.Model.Registry.trans] at ht
    split at ht
    · simp only [Option.some.injEq, Prod.mk.injEq] at ht
      obtain ⟨rfl, rfl, rfl⟩ := ht
      exact ⟨hI, rfl, trivial, fun a p h => h⟩
    · rename_i q hc
      simp only [Option.some.injEq, Prod.mk.injEq] at ht
      obtain ⟨rfl, rfl, rfl⟩ := ht
      exact ⟨hI, rfl, hI.cacheCoh r q hc, fun a p h => h⟩
  | gIsTerm k r p =>
    simp only [MV.Model.Registry.trans] at ht
    split at ht
    · simp only [Option.some.injEq, Prod.mk.injEq] at ht
      obtain ⟨rfl, rfl, rfl⟩ := ht
      exact ⟨hI, rfl, trivial, fun a p h => h⟩
    · rename_i hnt
      simp only [Option.some.injEq, Prod.mk.injEq] at ht
      obtain ⟨rfl, rfl, rfl⟩ := ht
      have hcoh : g.map r.addr = some p ∨ (r.addr, p) ∈ g.limbo := by
        rcases hpc with h | h | h
        · exact absurd h hnt
        · exact Or.inl h
        · exact Or.inr h
      refine ⟨ginv_lin hI rfl rfl rfl (Nat.le_refl _) rfl rfl rfl (.get r.addr (some p)) _ rfl
        (by simp [lins]) ?_ ?_, rfl, trivial, fun a p h => h⟩
      · have : getAllowed .code (absOf g) r.addr (some p) = true := by
          rcases hcoh with h | h
          · exact getAllowed_cur _ _ _ _ h
          · exact getAllowed_code_limbo _ _ _ h
        simp [applyLin, this]
      · intro hf
        have : getAllowed .stated (absOf g) r.addr (some p) = true := by
          rcases hcoh with h | h
          · exact getAllowed_cur _ _ _ _ h
          · exact getAllowed_stated_limbo _ _ _ h (hI.clean hf _ _ h)
        simp [applyLin, this]
  | gCClear k r =>
    simp only [MV.Model.Registry.trans, Option.some.injEq, Prod.mk.injEq] at ht
    obtain ⟨rfl, rfl, rfl⟩ := ht
    refine ⟨ginv_same hI rfl rfl rfl rfl rfl rfl rfl ?_, rfl, trivial, fun a p h => h⟩
    intro r' q h
    change upd g.cache r none r' = some q at h
    unfold upd at h
    split at h
    · cases h
    · exact hI.cacheCoh r' q h
  | gMLoad k r =>
    simp only [MV.Model.Registry.trans] at ht
    split at ht
    · rename_i hmap
      simp only [Option.some.injEq, Prod.mk.injEq] at ht
      obtain ⟨rfl, rfl, rfl⟩ := ht
      have ha : ∀ m, getAllowed m (absOf g) r.addr none = true := fun m => getAllowed_cur _ _ _ _ hmap
      refine ⟨ginv_lin hI rfl rfl rfl (Nat.le_refl _) rfl rfl rfl (.get r.addr none) _ rfl
        (by simp [lins]) ?_ ?_, rfl, trivial, fun a p h => h⟩
      · simp [applyLin, ha]
      · intro _; simp [applyLin, ha]
    · rename_i q hmap
      simp only [Option.some.injEq, Prod.mk.injEq] at ht
      obtain ⟨rfl, rfl, rfl⟩ := ht
      have ha : ∀ m, getAllowed m (absOf g) r.addr (some q) = true := fun m => getAllowed_cur _ _ _ _ hmap
      refine ⟨ginv_lin hI rfl rfl rfl (Nat.le_refl _) rfl rfl rfl (.get r.addr (some q)) _ rfl
        (by simp [lins]) ?_ ?_, rfl, Or.inr (Or.inl hmap), fun a p h => h⟩
      · simp [applyLin, ha]
      · intro _; simp [applyLin, ha]
  | gCStore k r p =>
    simp only [MV.Model.Registry.trans, Option.some.injEq, Prod.mk.injEq] at ht
    obtain ⟨rfl, rfl, rfl⟩ := ht
    refine ⟨ginv_same hI rfl rfl rfl rfl rfl rfl (by simp [lins]) ?_, rfl, trivial, fun a p h => h⟩
    intro r' q h
    change upd g.cache r (some p) r' = some q at h
    unfold upd at h
    split at h
    · rename_i e; cases h; rw [e]; exact hpc
    · exact hI.cacheCoh r' q h
  | done => simp [MV.Model.Registry.trans] at ht

/-! ## the invariant of a state (shared state + threads) -/

/-- the limbo list is exactly the multiset of processes held by unregisterers in front of `Terminate` -/
def LimboCount (s : State) : Prop :=
  ∀ (a : Addr) (p : Proc), s.g.limbo.count (a, p) = s.ths.countP (atUTerm a p)

structure SInv (s : State) : Prop where
  ginv : GInv s.g
  locals : ∀ pc ∈ s.ths, pcOK s.g pc
  limbo : LimboCount s

theorem atUTerm_self (k : Nat) (a : Addr) (p : Proc) : atUTerm a p (.uTerm k a p) = true := by
  simp [atUTerm]

theorem pcOK_mono {g g' : G} (h : ∀ a p, coh g a p → coh g' a p) (pc : PC) (hp : pcOK g pc) :
    pcOK g' pc := by
  cases pc <;> simp only [pcOK] at hp ⊢ <;> first | exact h _ _ hp | trivial

/-- bookkeeping of the limbo list against the acting thread's program counter -/
theorem trans_limbo_count {g g' : G} {pc pc' : PC} {sp : List PC}
    (ht : MV.Model.Registry.trans g pc = some (g', pc', sp)) (a : Addr) (p : Proc)
    (hU : ∀ k a p, pc = .uTerm k a p → (a, p) ∈ g.limbo) :
    g'.limbo.count (a, p) + (if atUTerm a p pc then 1 else 0) =
      g.limbo.count (a, p) + (if atUTerm a p pc' then 1 else 0) := by
  cases pc with
  | uLad k a0 =>
    simp only [MV.Model.Registry.trans] at ht
    split at ht
    · simp only [Option.some.injEq, Prod.mk.injEq] at ht
      obtain ⟨rfl, rfl, rfl⟩ := ht
      simp [atUTerm]
    · rename_i q hmap
      simp only [Option.some.injEq, Prod.mk.injEq] at ht
      obtain ⟨rfl, rfl, rfl⟩ := ht
      simp only [atUTerm, List.count_cons]
      by_cases e : (a0, q) = (a, p)
      · cases e; simp
      · have e' : ¬ (a0 = a ∧ q = p) := fun h => e (by rw [h.1, h.2])
        simp [e, e']
  | uTerm k a0 p0 =>
    simp only [MV.Model.Registry.trans, Option.some.injEq, Prod.mk.injEq] at ht
    obtain ⟨rfl, rfl, rfl⟩ := ht
    have hin := hU k a0 p0 rfl
    simp only [atUTerm]
    by_cases e : (a0, p0) = (a, p)
    · cases e
      have := List.count_pos_iff.mpr hin
      simp [List.count_erase_self]; omega
    · have e' : ¬ (a0 = a ∧ p0 = p) := fun h => e (by rw [h.1, h.2])
      have e'' : (a, p) ≠ (a0, p0) := fun h => e h.symm
      simp [e', List.count_erase_of_ne e'']
  | rCall _ | uCall _ | gCall _ | gCClear _ _ | gCStore _ _ _ =>
    simp only [MV.Model.Registry.trans, Option.some.injEq, Prod.mk.injEq] at ht
    obtain ⟨rfl, rfl, rfl⟩ := ht
    simp [atUTerm]
  | rLos _ _ | gCLoad _ _ | gIsTerm _ _ _ | gMLoad _ _ =>
    simp only [MV.Model.Registry.trans] at ht
    split at ht <;>
      (simp only [Option.some.injEq, Prod.mk.injEq] at ht
       obtain ⟨rfl, rfl, rfl⟩ := ht
       simp [atUTerm])
  | done => simp [MV.Model.Registry.trans] at ht

theorem sinv_init : SInv MV.Model.Registry.init := by
  refine ⟨ginv_init, ?_, ?_⟩
  · intro pc h; simp [MV.Model.Registry.init] at h
  · intro a p; simp [MV.Model.Registry.init]

theorem sinv_step (s s' : State) (i : Nat) (h : SInv s) (hs : step sys s i = some s') : SInv s' := by
  obtain ⟨pc, pc', sp, hpc, ht, hths, hc⟩ := step_spec sys s s' i hs
  simp only [sys] at ht
  have hmem : pc ∈ s.ths := List.mem_of_getElem? hpc
  have hU : ∀ k a p, pc = .uTerm k a p → (a, p) ∈ s.g.limbo := by
    intro k a p e
    have h1 := countP_pos_of_getElem? s.ths i pc (atUTerm a p) hpc (by rw [e]; exact atUTerm_self k a p)
    have h2 := h.limbo a p
    exact List.count_pos_iff.mp (by omega)
  obtain ⟨hG, hsp, hpc', hmono⟩ := trans_inv h.ginv (h.locals pc hmem) hU ht
  subst hsp
  refine ⟨hG, ?_, ?_⟩
  · intro q hq
    rw [hths, List.append_nil] at hq
    rcases List.mem_or_eq_of_mem_set hq with hq | hq
    · exact pcOK_mono hmono q (h.locals q hq)
    · rw [hq]; exact hpc'
  · intro a p
    have k := hc (atUTerm a p)
    have l := trans_limbo_count ht a p hU
    have o := h.limbo a p
    simp only [List.countP_nil, Nat.add_zero] at k
    omega

theorem sinv_spawn (s : State) (pc : PC) (h : SInv s) (ha : sys.allowed pc = true) :
    SInv { s with ths := s.ths ++ [pc] } := by
  refine ⟨h.ginv, ?_, ?_⟩
  · intro q hq
    rcases List.mem_append.mp hq with hq | hq
    · exact h.locals q hq
    · simp only [List.mem_singleton] at hq; subst hq
      cases q <;> simp_all [sys, allowed, pcOK]
  · intro a p
    have := h.limbo a p
    simp only [List.countP_append, List.countP_cons, List.countP_nil]
    cases pc <;> simp_all [sys, allowed, atUTerm]

/-- the invariant holds after every schedule -/
theorem all_reachable (sched : List (Ev PC)) : SInv (exec sys MV.Model.Registry.init sched) :=
  exec_inv sys SInv sinv_step sinv_spawn MV.Model.Registry.init sinv_init sched

/-! ## what a step adds to the trace -/

/-- a `lin` event of a lookup that answers `p` -/
def decides (p : Proc) : TrEv → Bool
  | .lin _ (.get _ (some q)) => q == p
  | _ => false

/-- every step appends to the trace, never un-removes a process, and — in a state satisfying the
invariant — no lookup decides for a process whose `Unregister` has returned -/
theorem step_trace (s s' : State) (i : Nat) (h : SInv s) (hs : step sys s i = some s') :
    ∃ evs, s'.g.tr = s.g.tr ++ evs ∧ (∀ p, p ∈ s.g.gone → p ∈ s'.g.gone) ∧
      ∀ p, p ∈ s.g.gone → ∀ e ∈ evs, decides p e = false := by
  obtain ⟨pc, pc', sp, hpc, ht, -, -⟩ := step_spec sys s s' i hs
  simp only [sys] at ht
  generalize s'.g = g' at ht ⊢
  cases pc with
  | gIsTerm k r p0 =>
    simp only [MV.Model.Registry.trans] at ht
    split at ht
    · simp only [Option.some.injEq, Prod.mk.injEq] at ht
      obtain ⟨rfl, -, -⟩ := ht
      exact ⟨[], by simp, fun p hp => hp, by intro p _ e he; cases he⟩
    · rename_i hnt
      simp only [Option.some.injEq, Prod.mk.injEq] at ht
      obtain ⟨rfl, -, -⟩ := ht
      refine ⟨_, rfl, fun p hp => hp, ?_⟩
      intro p hp e he
      have hne : p0 ≠ p := by
        intro e'; rw [e'] at hnt; exact hnt (h.ginv.goneDead p hp).1
      simp only [List.mem_cons, List.not_mem_nil, or_false] at he
      rcases he with rfl | rfl <;> simp [decides, hne]
  | gMLoad k r =>
    simp only [MV.Model.Registry.trans] at ht
    split at ht
    · simp only [Option.some.injEq, Prod.mk.injEq] at ht
      obtain ⟨rfl, -, -⟩ := ht
      refine ⟨_, rfl, fun p hp => hp, ?_⟩
      intro p hp e he
      simp only [List.mem_cons, List.not_mem_nil, or_false] at he
      rcases he with rfl | rfl <;> simp [decides]
    · rename_i q hmap
      simp only [Option.some.injEq, Prod.mk.injEq] at ht
      obtain ⟨rfl, -, -⟩ := ht
      refine ⟨_, rfl, fun p hp => hp, ?_⟩
      intro p hp e he
      have hne : q ≠ p := by
        intro e'; rw [e'] at hmap; exact (h.ginv.goneDead p hp).2 _ hmap
      simp only [List.mem_cons, List.not_mem_nil, or_false] at he
      rcases he with rfl; simp [decides, hne]
  | uTerm k a p0 =>
    simp only [MV.Model.Registry.trans, Option.some.injEq, Prod.mk.injEq] at ht
    obtain ⟨rfl, -, -⟩ := ht
    refine ⟨_, rfl, fun p hp => List.mem_cons_of_mem _ hp, ?_⟩
    intro p hp e he
    simp only [List.mem_cons, List.not_mem_nil, or_false] at he
    rcases he with rfl | rfl <;> simp [decides]
  | rCall _ | uCall _ | gCall _ | gCStore _ _ _ =>
    simp only [MV.Model.Registry.trans, Option.some.injEq, Prod.mk.injEq] at ht
    obtain ⟨rfl, -, -⟩ := ht
    refine ⟨_, rfl, fun p hp => hp, ?_⟩
    intro p hp e he
    simp only [List.mem_cons, List.not_mem_nil, or_false] at he
    rcases he with rfl; simp [decides]
  | gCClear _ _ =>
    simp only [MV.Model.Registry.trans, Option.some.injEq, Prod.mk.injEq] at ht
    obtain ⟨rfl, -, -⟩ := ht
    exact ⟨[], by simp, fun p hp => hp, by intro p _ e he; cases he⟩
  | gCLoad _ _ =>
    simp only [MV.Model.Registry.trans] at ht
    split at ht <;>
      (simp only [Option.some.injEq, Prod.mk.injEq] at ht
       obtain ⟨rfl, -, -⟩ := ht
       exact ⟨[], by simp, fun p hp => hp, by intro p _ e he; cases he⟩)
  | rLos _ _ | uLad _ _ =>
    simp only [MV.Model.Registry.trans] at ht
    split at ht <;>
      (simp only [Option.some.injEq, Prod.mk.injEq] at ht
       obtain ⟨rfl, -, -⟩ := ht
       refine ⟨_, rfl, fun p hp => hp, ?_⟩
       intro p hp e he
       simp only [List.mem_cons, List.not_mem_nil, or_false] at he
       rcases he with rfl | rfl <;> simp [decides])
  | done => simp [MV.Model.Registry.trans] at ht

end MV.Lemmas.Registry
