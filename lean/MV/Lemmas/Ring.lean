import MV.Model.Ring
import MV.Spec.Queue
/-!
# Helper lemmas: every `Ring` operation refines the list queue on `abs`
-/
namespace MV.Model.Ring
variable {α : Type}

theorem ext_list {l₁ l₂ : List α} (hl : l₁.length = l₂.length)
    (h : ∀ i (h1 : i < l₁.length) (h2 : i < l₂.length), l₁[i] = l₂[i]) : l₁ = l₂ :=
  List.ext_getElem hl h

theorem getElem_abs (b : Ring α) (i : Nat) (h : i < b.abs.length) :
    b.abs[i] = b.buf (wrap b.size (b.r + i)) := by
  simp [abs]

@[simp] theorem length_abs (b : Ring α) : b.abs.length = b.len := by simp [abs]

theorem new_wf (d : α) (k : Int) : WF (new d k) := by
  unfold WF new; dsimp only; split <;> simp <;> omega

theorem new_abs (d : α) (k : Int) : (new d k).abs = [] := by
  apply List.eq_nil_of_length_eq_zero
  rw [length_abs]; unfold len new; simp

def writeNoGrow (b : Ring α) (v : α) : Ring α :=
  { b with buf := upd b.buf b.w v, w := if b.w + 1 = b.size then 0 else b.w + 1 }

theorem write_eq_nogrow (b : Ring α) (v : α)
    (hne : (if b.w + 1 = b.size then 0 else b.w + 1) ≠ b.r) : write b v = writeNoGrow b v := by
  unfold write writeNoGrow; simp only; rw [if_neg hne]

theorem write_eq_grow (b : Ring α) (v : α)
    (he : (if b.w + 1 = b.size then 0 else b.w + 1) = b.r) : write b v = grow (writeNoGrow b v) := by
  unfold write writeNoGrow; simp only; rw [if_pos he]

theorem writeNoGrow_wf (b : Ring α) (v : α) (h : WF b) : WF (writeNoGrow b v) := by
  unfold WF writeNoGrow at *; dsimp only; grind

theorem grow_wf (b : Ring α) (h : WF b) : WF (grow b) := by
  unfold WF grow at *; dsimp only; grind

theorem write_wf (b : Ring α) (v : α) (h : WF b) : WF (write b v) := by
  by_cases he : (if b.w + 1 = b.size then 0 else b.w + 1) = b.r
  · rw [write_eq_grow b v he]; exact grow_wf _ (writeNoGrow_wf b v h)
  · rw [write_eq_nogrow b v he]; exact writeNoGrow_wf b v h

theorem writeNoGrow_abs (b : Ring α) (v : α) (h : WF b)
    (hne : (if b.w + 1 = b.size then 0 else b.w + 1) ≠ b.r) :
    (writeNoGrow b v).abs = b.abs ++ [v] := by
  obtain ⟨_, _, hr, hw⟩ := h
  apply ext_list
  · simp only [length_abs, List.length_append, List.length_singleton]
    unfold len writeNoGrow; dsimp only
    grind
  · intro i h1 h2'
    rw [getElem_abs, List.getElem_append]
    simp only [length_abs] at *
    unfold writeNoGrow len at h1
    unfold writeNoGrow
    dsimp only at *
    split
    · rename_i hi
      rw [getElem_abs]
      unfold upd wrap len at *
      grind
    · rename_i hi
      simp only [List.getElem_singleton]
      unfold upd wrap len at *
      grind

theorem grow_abs_full (b : Ring α) (h : WF b) (hfull : b.r = b.w) :
    (grow b).abs = (List.range b.size).map (fun i => b.buf (wrap b.size (b.r + i))) := by
  obtain ⟨_, _, hr, hw⟩ := h
  apply ext_list
  · simp only [length_abs, List.length_map, List.length_range]
    unfold len grow; dsimp only; grind
  · intro i h1 h2'
    rw [getElem_abs]
    simp only [List.getElem_map, List.getElem_range, length_abs, List.length_map, List.length_range] at *
    unfold grow len at h1
    unfold grow wrap
    dsimp only at *
    grind

theorem write_abs (b : Ring α) (v : α) (h : WF b) : (write b v).abs = b.abs ++ [v] := by
  by_cases he : (if b.w + 1 = b.size then 0 else b.w + 1) = b.r
  · rw [write_eq_grow b v he]
    have hwf := writeNoGrow_wf b v h
    have hfull : (writeNoGrow b v).r = (writeNoGrow b v).w := by unfold writeNoGrow; dsimp only; exact he.symm
    rw [grow_abs_full _ hwf hfull]
    obtain ⟨_, _, hr, hw⟩ := h
    apply ext_list
    · simp only [length_abs, List.length_append, List.length_singleton, List.length_map, List.length_range]
      unfold writeNoGrow len; dsimp only; grind
    · intro i h1 h2'
      rw [List.getElem_append]
      simp only [List.getElem_map, List.getElem_range, length_abs, List.length_map, List.length_range] at *
      unfold writeNoGrow at *
      dsimp only at *
      split
      · rw [getElem_abs]; unfold upd wrap len at *; grind
      · simp only [List.getElem_singleton]; unfold upd wrap len at *; grind
  · rw [write_eq_nogrow b v he]; exact writeNoGrow_abs b v h he

theorem abs_nil_iff (b : Ring α) (h : WF b) : b.abs = [] ↔ b.r = b.w := by
  obtain ⟨_, _, hr, hw⟩ := h
  rw [← List.length_eq_zero_iff, length_abs]; unfold len; grind

theorem read_wf (b : Ring α) (h : WF b) : WF (read b).2 := by
  unfold WF read at *; split <;> dsimp only <;> grind

theorem read_abs (b : Ring α) (h : WF b) :
    (read b).1 = b.abs.head? ∧ (read b).2.abs = b.abs.tail := by
  obtain ⟨_, _, hr, hw⟩ := h
  unfold read
  split
  · rename_i he
    have : b.abs = [] := by
      have : b.abs.length = 0 := by rw [length_abs]; unfold len; grind
      exact List.eq_nil_of_length_eq_zero this
    simp [this]
  · rename_i hne
    have hpos : 0 < b.abs.length := by rw [length_abs]; unfold len; grind
    constructor
    · dsimp only
      rw [List.head?_eq_getElem?, List.getElem?_eq_getElem hpos, getElem_abs]
      unfold wrap; grind
    · dsimp only
      apply ext_list
      · simp only [length_abs, List.length_tail]; unfold len; dsimp only; grind
      · intro i h1 h2'
        rw [getElem_abs, List.getElem_tail, getElem_abs]
        simp only [length_abs, List.length_tail] at *
        unfold len at *; unfold wrap; dsimp only at *; grind

theorem peek_abs (b : Ring α) (h : WF b) : peek b = b.abs.head? := by
  obtain ⟨_, _, hr, hw⟩ := h
  unfold peek
  split
  · rename_i he
    have : b.abs = [] := by
      apply List.eq_nil_of_length_eq_zero; rw [length_abs]; unfold len; grind
    simp [this]
  · have hpos : 0 < b.abs.length := by rw [length_abs]; unfold len; grind
    rw [List.head?_eq_getElem?, List.getElem?_eq_getElem hpos, getElem_abs]
    unfold wrap; grind

theorem reset_wf (b : Ring α) (h : WF b) : WF (reset b) := by
  unfold WF reset at *; dsimp only; grind

theorem reset_abs (b : Ring α) : (reset b).abs = [] := by
  apply List.eq_nil_of_length_eq_zero; rw [length_abs]; unfold len reset; simp

theorem readAll_wf (b : Ring α) (h : WF b) : WF (readAll b).2 := by
  unfold WF readAll at *; split <;> dsimp only <;> grind

theorem readAll_abs (b : Ring α) (h : WF b) :
    (readAll b).1 = (if b.abs = [] then none else some b.abs) ∧ (readAll b).2.abs = [] := by
  have hn := abs_nil_iff b h
  unfold readAll
  split
  · rename_i he
    have := hn.mpr he
    simp [this]
  · rename_i hne
    have : ¬ b.abs = [] := fun hh => hne (hn.mp hh)
    simp only [if_neg this, true_and]
    apply List.eq_nil_of_length_eq_zero; rw [length_abs]; unfold len; simp

theorem rmN_eq (b : Ring α) (n : Int) (h : WF b) (hne : b.r ≠ b.w) : rmN b n = min n.toNat b.len := by
  obtain ⟨hi1, hi2, hr, hw⟩ := h
  unfold rmN len; simp only [Nat.min_def]
  by_cases h1 : b.w > b.r <;> by_cases h2 : b.r ≤ b.w <;> simp only [h1, h2, if_true, if_false] <;>
    (split <;> split <;> omega)

theorem rmData_eq (b : Ring α) (n : Int) (h : WF b) (hne : b.r ≠ b.w) :
    rmData b n = b.abs.take n.toNat := by
  have hN := rmN_eq b n h hne
  apply ext_list
  · unfold rmData
    simp only [List.length_map, List.length_range, List.length_take, length_abs, hN]
  · intro i h1 h2'
    have e1 : (rmData b n)[i] = b.buf (wrap b.size (b.r + i)) := by simp [rmData]
    rw [e1, List.getElem_take, getElem_abs]

theorem rmNext_wf (b : Ring α) (n : Int) (h : WF b) (hne : b.r ≠ b.w) : WF (rmNext b n) := by
  unfold WF rmNext rmN at *; dsimp only; grind

theorem rmNext_abs (b : Ring α) (n : Int) (h : WF b) (hne : b.r ≠ b.w) :
    (rmNext b n).abs = b.abs.drop n.toNat := by
  obtain ⟨hi1, hi2, hr, hw⟩ := h
  apply ext_list
  · simp only [length_abs, List.length_drop]; unfold len rmNext rmN; dsimp only; grind
  · intro i h1 h2'
    rw [getElem_abs, List.getElem_drop, getElem_abs]
    simp only [length_abs, List.length_drop] at *
    unfold len rmNext rmN at *; unfold wrap; dsimp only at *; grind

end MV.Model.Ring
