import MV.Lemmas.ECSOps
/-!
# Queries return exactly the living matches (C14)
-/
namespace MV.Lemmas.ECS
open MV.Model.ECS MV.Model.ECSMask MV.Lemmas.ECSList MV.Lemmas.ECSMask MV.Lemmas.ECSSlots
  MV.Lemmas.ECSStore MV.Lemmas.ECSArch

theorem count_none (p : Arch → Bool) (e : Entity) (l : List Arch) (h : ∀ A, A ∈ l → e ∉ A.members) :
    List.count e ((l.filter p).flatMap (·.members)) = 0 := by
  induction l with
  | nil => simp
  | cons A l ih =>
    have h1 := h A (by simp)
    have h2 := ih (fun B hB => h B (by simp [hB]))
    rw [List.filter_cons]
    by_cases hp : p A = true
    · simp only [hp, if_true, List.flatMap_cons, List.count_append, h2, List.count_eq_zero.mpr h1]
    · simp only [hp, Bool.false_eq_true, if_false, h2]

/-- an entity that is a member (once) of exactly one archetype is returned once iff that archetype
matches -/
theorem count_unique (p : Arch → Bool) (e : Entity) : ∀ (l : List Arch) (k : Nat), k < l.length →
    (∀ a, a < l.length → e ∈ (nth a0 l a).members → a = k) → List.count e (nth a0 l k).members = 1 →
    List.count e ((l.filter p).flatMap (·.members)) = if p (nth a0 l k) = true then 1 else 0 := by
  intro l
  induction l with
  | nil => intro k hk; simp at hk
  | cons A l ih =>
    intro k hk hu hc
    rw [List.filter_cons]
    cases k with
    | zero =>
      rw [nth_cons_zero] at hc ⊢
      have hnone : ∀ B, B ∈ l → e ∉ B.members := by
        intro B hB hm
        obtain ⟨j, hj, hje⟩ := exists_nth_of_mem a0 l B hB
        have := hu (j + 1) (by simp; omega) (by rw [nth_cons_succ, hje]; exact hm)
        omega
      have h0 := count_none p e l hnone
      by_cases hp : p A = true
      · simp only [hp, if_true, List.flatMap_cons, List.count_append, h0, hc]
      · simp only [hp, Bool.false_eq_true, if_false, h0]
    | succ k =>
      rw [nth_cons_succ] at hc ⊢
      have hA : e ∉ A.members := by
        intro hm
        have := hu 0 (by simp) (by rw [nth_cons_zero]; exact hm)
        omega
      have hrec := ih k (by simpa using hk)
        (fun a ha hm => by
          have := hu (a + 1) (by simp; omega) (by rw [nth_cons_succ]; exact hm)
          omega) hc
      by_cases hp : p A = true
      · simp only [hp, if_true, List.flatMap_cons, List.count_append, List.count_eq_zero.mpr hA, hrec, Nat.zero_add]
      · simp only [hp, Bool.false_eq_true, if_false, hrec]

theorem map_nth_range (hs : List Entity) : (List.range hs.length).map (nth z hs) = hs := by
  apply List.ext_getElem
  · simp
  · intro i h1 h2
    simp only [List.getElem_map, List.getElem_range]
    exact nth_eq_getElem z hs i h2

theorem count_map_filter_range (hs : List Entity) (hn : hs.Nodup) (q : Nat → Bool) (i : Nat) (hi : i < hs.length) :
    List.count (nth z hs i) (((List.range hs.length).filter q).map (nth z hs)) = if q i = true then 1 else 0 := by
  have hsub : (((List.range hs.length).filter q).map (nth z hs)).Sublist hs := by
    have := List.Sublist.map (nth z hs) (List.filter_sublist (p := q) (l := List.range hs.length))
    rwa [map_nth_range] at this
  have hnd := List.Nodup.sublist hsub hn
  rw [hnd.count]
  have : nth z hs i ∈ ((List.range hs.length).filter q).map (nth z hs) ↔ q i = true := by
    rw [List.mem_map]
    constructor
    · rintro ⟨j, hj, hje⟩
      rw [List.mem_filter, List.mem_range] at hj
      have := nth_inj z hs hn j i hj.1 hi hje
      subst this; exact hj.2
    · intro hq
      exact ⟨i, by rw [List.mem_filter, List.mem_range]; exact ⟨hi, hq⟩, rfl⟩
  by_cases hq : q i = true
  · simp [this, hq]
  · simp only [this, hq]

theorem flatMap_replicate_ite (q : Nat → Bool) (l : List Nat) :
    l.flatMap (fun i => List.replicate (if q i = true then 1 else 0) i) = l.filter q := by
  induction l with
  | nil => rfl
  | cons x l ih =>
    rw [List.flatMap_cons, ih, List.filter_cons]
    by_cases hq : q x = true
    · simp [hq]
    · simp [hq]

theorem flatMap_congr' {α β : Type} (l : List α) (f g : α → List β) (h : ∀ x, x ∈ l → f x = g x) :
    l.flatMap f = l.flatMap g := by
  induction l with
  | nil => rfl
  | cons x l ih =>
    rw [List.flatMap_cons, List.flatMap_cons, h x (by simp), ih (fun y hy => h y (by simp [hy]))]

/-- the filter, evaluated on the archetype of a living name, is the filter on its component set -/
theorem eval_living (s : St) (t : MV.Spec.ECS.St) (r : R s t) (f : Filter) (i a : Nat) (ha : a < s.w.arts.length)
    (hm : (s.w.art a).mask = setAll [] (t.compsOf i)) :
    f.eval (s.w.art a).mask = MV.Spec.ECS.sat (t.compsOf i) f := by
  apply eval_sat _ _ (r.arch.sorted a ha)
  intro x; rw [hm]; simp [mem_setAll]

/-- **every entity is returned exactly as often as the spec says**: once if it is a living match,
never otherwise -/
theorem query_count (s : St) (t : MV.Spec.ECS.St) (r : R s t) (f : Filter) (e : Entity) :
    List.count e (s.w.query f) = List.count e ((t.matches f).map (nth z s.hs)) := by
  have hmatches : t.matches f = (List.range s.hs.length).filter (fun i => t.isLiving i && MV.Spec.ECS.sat (t.compsOf i) f) := by
    unfold MV.Spec.ECS.St.matches; rw [r.n_eq]
  unfold World.query World.matched
  cases hx : s.w.index e with
  | some a =>
    obtain ⟨ha, hcnt, i, hi, hie, hli⟩ := r.ent.index_sound e a hx
    obtain ⟨a', _, hidx', _, hmask, _, _⟩ := r.ent.living i hi hli
    have haa : a' = a := by rw [hie, hx] at hidx'; exact (Option.some.inj hidx').symm
    subst haa
    rw [count_unique (fun A => f.eval A.mask) e s.w.arts a' ha
      (fun b hb hm => by
        have := r.ent.members b hb e hm
        rw [hx] at this; exact (Option.some.inj this).symm) hcnt]
    rw [hmatches, ← hie, count_map_filter_range s.hs r.slots.nodup _ i hi]
    have := eval_living s t r f i a' ha hmask
    simp only [art_eq] at this
    simp only [this, hli, Bool.true_and]
  | none =>
    rw [count_none]
    · symm
      rw [List.count_eq_zero, List.mem_map]
      rintro ⟨i, hi, hie⟩
      rw [hmatches, List.mem_filter, List.mem_range] at hi
      have hli : t.isLiving i = true := by
        have := hi.2; simp only [Bool.and_eq_true] at this; exact this.1
      obtain ⟨a, _, hidx, _⟩ := r.ent.living i hi.1 hli
      rw [hie, hx] at hidx; simp at hidx
    · intro A hA hm
      obtain ⟨a, ha, hae⟩ := exists_nth_of_mem a0 s.w.arts A hA
      have := r.ent.members a ha e (by rw [art_eq, hae]; exact hm)
      rw [hx] at this; simp at this

theorem query_perm (s : St) (t : MV.Spec.ECS.St) (r : R s t) (f : Filter) :
    (s.w.query f).Perm ((t.matches f).map (nth z s.hs)) :=
  List.perm_iff_count.mpr (query_count s t r f)

/-- the names printed for a query are exactly the spec's living matches -/
theorem names_query (s : St) (t : MV.Spec.ECS.St) (r : R s t) (f : Filter) :
    names s.hs (s.w.query f) = t.matches f := by
  have hmatches : t.matches f = (List.range s.hs.length).filter (fun i => t.isLiving i && MV.Spec.ECS.sat (t.compsOf i) f) := by
    unfold MV.Spec.ECS.St.matches; rw [r.n_eq]
  unfold names
  rw [hmatches, ← flatMap_replicate_ite]
  apply flatMap_congr'
  intro i hi
  rw [List.mem_range] at hi
  congr 1
  show List.count (nth z s.hs i) _ = _
  rw [query_count s t r f, hmatches, count_map_filter_range s.hs r.slots.nodup _ i hi]

theorem queryCount_eq (s : St) (t : MV.Spec.ECS.St) (r : R s t) (f : Filter) :
    s.w.queryCount f = (t.matches f).length := by
  have h1 : s.w.queryCount f = (s.w.query f).length := by
    unfold World.queryCount World.query
    rw [List.length_flatMap]
  rw [h1, (query_perm s t r f).length_eq, List.length_map]

end MV.Lemmas.ECS
