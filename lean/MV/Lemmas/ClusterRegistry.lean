import MV.Lemmas.ClusterManager
import MV.Spec.ClusterRegistry
/-!
# The manager model refines the abstract registry (C13)

Simulation `Sim s t`: the spec's live pairs are the manager's members (with the incarnation of
their reference), same offered abilities, same launch log.  Under the invariant `WF` every step of
the model and of the spec gives the same answer and re-establishes the relation.
-/
namespace MV.Model.ClusterManager
open MV.Spec
open MV.Spec.ClusterRegistry (Reg findLive nameTaken keyName)

def liveOf (members : List (Key × Ref)) : List (Key × Nat) := members.map (fun e => (e.1, e.2.inc))

structure Sim (s : Mgr) (t : Reg) : Prop where
  offered : t.offered = s.abilities
  live : t.live = liveOf s.members
  launches : t.launches = s.launched

theorem findLive_liveOf (l : List (Key × Ref)) (k : Key) :
    findLive (liveOf l) k = (find l k).map (·.inc) := by
  induction l with
  | nil => simp [liveOf, findLive, find]
  | cons e rest ih =>
    obtain ⟨k0, r0⟩ := e
    by_cases hk : k0 = k
    · simp [liveOf, findLive, find, hk]
    · simpa [liveOf, findLive, find, hk] using ih

theorem nameTaken_liveOf {s : Mgr} (h : WF s) (k : Key) :
    nameTaken (liveOf s.members) k = decide (keyName k ∈ s.children) := by
  rw [Bool.eq_iff_iff]
  simp only [nameTaken, liveOf, List.any_map, List.any_eq_true, Function.comp, beq_iff_eq,
    decide_eq_true_eq, h.children_eq, List.mem_map]
  constructor
  · rintro ⟨e, he, hn⟩
    exact ⟨e, he, by rw [(h.entry e he).1]; exact hn⟩
  · rintro ⟨e, he, hn⟩
    exact ⟨e, he, by rw [← hn, (h.entry e he).1]; rfl⟩

theorem ref_eta (r : Ref) : (⟨r.name, r.inc⟩ : Ref) = r := rfl

theorem sim_lookup {s : Mgr} {t : Reg} (h : WF s) (hs : Sim s t) (i a : Name) :
    Sim (lookupPure s i a).1 (ClusterRegistry.lookup t i a).1 ∧
      (lookupPure s i a).2 = (ClusterRegistry.lookup t i a).2 := by
  unfold lookupPure ClusterRegistry.lookup
  rw [hs.offered, hs.live, findLive_liveOf]
  by_cases ha : a ∈ s.abilities
  · cases hf : find s.members (a, i) with
    | some r =>
      have hn := (h.entry _ (find_mem hf)).1
      simp only [ha, not_true_eq_false, if_false, Option.map_some]
      refine ⟨hs, ?_⟩
      simp only [keyName]
      rw [← hn]
    | none =>
      simp only [ha, not_true_eq_false, if_false, Option.map_none, nameTaken_liveOf h]
      by_cases hi : legalName i = true
      · by_cases hl : legalName a = true
        · by_cases hc : nameOf i a ∈ s.children
          · have hc' : keyName (a, i) ∈ s.children := hc
            simp [creatable, hi, hl, hc, hc', hs]
          · have hc' : ¬ keyName (a, i) ∈ s.children := hc
            simp only [creatable, hi, hl, hc, hc', Bool.and_self, decide_false, Bool.not_false,
              if_true, Bool.not_true, Bool.or_self, Bool.false_eq_true, if_false]
            refine ⟨⟨?_, ?_, ?_⟩, ?_⟩
            · simp [spawned]
            · simp [spawned, liveOf, hs.launches, keyName]
            · simp [spawned, hs.launches, keyName]
            · simp [spawned, hs.launches, keyName]
        · simp [creatable, hi, hl, hs]
      · simp [creatable, hi, hs]
  · simp [ha, hs]

theorem sim_step {s : Mgr} {t : Reg} (h : WF s) (hs : Sim s t) (op : Op) :
    Sim (step s op).1 (ClusterRegistry.step t op).1 ∧ (step s op).2 = (ClusterRegistry.step t op).2 := by
  cases op with
  | lookup i a =>
    rw [step_lookup]
    have := sim_lookup h hs i a
    simp only [ClusterRegistry.step]
    exact ⟨this.1, by rw [this.2]⟩
  | kill i a =>
    simp only [ClusterRegistry.step]
    rw [hs.live, findLive_liveOf]
    cases hf : find s.members (a, i) with
    | some r =>
      rw [step_kill_some hf]
      have hn : r.name = nameOf i a := (h.entry _ (find_mem hf)).1
      simp only [Option.map_some]
      refine ⟨⟨hs.offered, ?_, hs.launches⟩, ?_⟩
      · simp only [onTerminated, liveOf, List.filter_map]
        congr 1
        apply List.filter_congr
        intro e he
        have hnd : (s.members.map (fun e => e.2.name)).Nodup := h.children_eq ▸ h.nodup
        simp only [Function.comp, ne_eq, decide_eq_decide]
        constructor
        · intro hh hname
          apply hh
          have := name_inj_of_nodup hnd he (find_mem hf) hname
          rw [this]
        · intro hh hkey
          apply hh
          rw [(h.entry e he).1, hkey, hn]
      · simp only [keyName]; rw [← hn]
    | none =>
      rw [step_kill_none hf]
      exact ⟨hs, rfl⟩
  | restart =>
    rw [step_restart]
    exact ⟨⟨hs.offered, by simp [ClusterRegistry.step, restart, liveOf], hs.launches⟩, rfl⟩

theorem spec_run_cons (t : Reg) (op : Op) (ops : List Op) :
    ClusterRegistry.run t (op :: ops) =
      ((ClusterRegistry.run (ClusterRegistry.step t op).1 ops).1,
       (ClusterRegistry.step t op).2 :: (ClusterRegistry.run (ClusterRegistry.step t op).1 ops).2) := rfl

theorem sim_run {s : Mgr} {t : Reg} (h : WF s) (hs : Sim s t) (ops : List Op) :
    Sim (run s ops).1 (ClusterRegistry.run t ops).1 ∧ (run s ops).2 = (ClusterRegistry.run t ops).2 := by
  induction ops generalizing s t with
  | nil => exact ⟨hs, rfl⟩
  | cons op ops ih =>
    rw [run_cons, spec_run_cons]
    have h1 := sim_step h hs op
    have h2 := ih (wf_step h op) h1.1
    exact ⟨h2.1, by rw [h1.2, h2.2]⟩

theorem sim_init (abilities : List Name) : Sim (init abilities) (ClusterRegistry.init abilities) :=
  ⟨rfl, rfl, rfl⟩

end MV.Model.ClusterManager
