import MV.Model.Future
/-!
# Invariants of the future model, part 1 (every configuration, every schedule, raw `New` allowed)

`RegInv` (the registry only maps an address to an existing future with that address), `BndInv`
(threads past a gate mention existing futures), `OnceInv` (the CAS invariant), `SectInv`, `ReadInv`,
`StableInv`.
-/
namespace MV.Model.Future
open MV.Model.Conc

variable {c : Cfg}

theorem upd_same (f : Nat → Fut) (k : Nat) (v : Fut) : upd f k v k = v := by simp [upd]
theorem upd_other (f : Nat → Fut) (k j : Nat) (v : Fut) (h : j ≠ k) : upd f k v j = f j := by simp [upd, h]

def flag (b : Bool) : Nat := if b then 1 else 0

theorem countP_zero_of {p : PC → Bool} {l : List PC} (h : ∀ x ∈ l, p x = false) : l.countP p = 0 := by
  induction l with
  | nil => rfl
  | cons a t ih =>
    have ha := h a (by simp)
    have := ih (fun x hx => h x (by simp [hx]))
    simp [ha, this]

theorem countP_pos_of_mem {p : PC → Bool} {l : List PC} {x : PC} (hx : x ∈ l) (hp : p x = true) :
    0 < l.countP p := by
  induction l with
  | nil => simp at hx
  | cons a t ih =>
    simp only [List.mem_cons] at hx
    rcases hx with rfl | hx
    · simp [hp]
    · have := ih hx; simp [List.countP_cons]; omega

/-- `step_spec` plus membership bookkeeping -/
theorem step_spec2 (S : Sys G PC) (s s' : State) (i : Nat) (h : step S s i = some s') :
    ∃ pc pc' sp, pc ∈ s.ths ∧ S.trans s.g pc = some (s'.g, pc', sp) ∧
      (∀ x ∈ s'.ths, x = pc' ∨ x ∈ sp ∨ x ∈ s.ths) ∧
      (∀ p : PC → Bool, s'.ths.countP p + (if p pc then 1 else 0) =
        s.ths.countP p + (if p pc' then 1 else 0) + sp.countP p) := by
  obtain ⟨pc, pc', sp, hpc, ht, hth, hc⟩ := step_spec S s s' i h
  refine ⟨pc, pc', sp, List.mem_of_getElem? hpc, ht, ?_, hc⟩
  intro x hx
  rw [hth, List.mem_append] at hx
  rcases hx with hx | hx
  · rcases List.mem_or_eq_of_mem_set hx with h1 | h1
    · exact Or.inr (Or.inr h1)
    · exact Or.inl h1
  · exact Or.inr (Or.inl hx)

set_option hygiene false in
/-- case split over the program counter of the moving thread and the branches of `trans`; leaves, per
branch, `ht : g' = s'.g ∧ pc'' = pc' ∧ sp'' = sp` -/
macro "split_trans" : tactic => `(tactic| (
  cases pc <;> simp only [trans] at ht
  all_goals (try split at ht)
  all_goals (try split at ht)
  all_goals (try split at ht)
  all_goals simp only [Option.some.injEq, Prod.mk.injEq, reduceCtorEq] at ht))

set_option hygiene false in
macro "take_ht" : tactic => `(tactic| (obtain ⟨hg, hp, hsp⟩ := ht; subst hp; subst hsp; (try rw [← hg])))

/-! ## what never goes backwards -/

structure Mono (g g' : G) : Prop where
  nfut : g.nfut ≤ g'.nfut
  addr : ∀ k, k < g.nfut → (g'.futs k).addr = (g.futs k).addr
  tmo : ∀ k, k < g.nfut → (g'.futs k).tmo = (g.futs k).tmo
  closed : ∀ k, k < g.nfut → (g.futs k).closed = true → (g'.futs k).closed = true
  dones : ∀ k, k < g.nfut → (g.futs k).dones ≤ (g'.futs k).dones
  rcSet : ∀ k, k < g.nfut → (g.futs k).rcSet = true → (g'.futs k).rcSet = true
  ready : ∀ k, k < g.nfut → (g.futs k).ready = true → (g'.futs k).ready = true

theorem trans_mono (g g' : G) (pc pc' : PC) (sp : List PC) (ht : trans c g pc = some (g', pc', sp)) :
    Mono g g' := by
  split_trans
  all_goals (
    obtain ⟨hg, -, -⟩ := ht; subst hg
    constructor <;> (try intro k hk) <;> (try simp only [upd, execFwd]) <;> grind)

/-! ## registry and thread bounds -/

def RegInv (s : State) : Prop := ∀ a k, s.g.reg a = some k → k < s.g.nfut ∧ (s.g.futs k).addr = a

/-- threads past a gate only mention existing futures -/
def bnd (n : Nat) : PC → Prop
  | .init k | .arm k | .timer k | .dLoad k _ | .dMsg k _ | .cas k _ _ | .setRes k _ _ | .closeDone k
  | .stopT k | .unreg k | .cLock k | .fLock k _ | .rWait k | .rRead k => k < n
  | _ => True

def BndInv (s : State) : Prop := ∀ x ∈ s.ths, bnd s.g.nfut x

theorem bnd_mono {n m : Nat} (h : n ≤ m) (x : PC) (hx : bnd n x) : bnd m x := by
  cases x <;> simp only [bnd] at * <;> omega

theorem reg_step (S : Sys G PC) (hS : S.trans = trans c) (s s' : State) (i : Nat)
    (hb : BndInv s) (h : RegInv s) (hs : step S s i = some s') : RegInv s' := by
  obtain ⟨pc, pc', sp, hpc, ht, -, -⟩ := step_spec2 S s s' i hs
  have hb1 := hb pc hpc
  rw [hS] at ht
  intro a k
  have h1 := h a k
  unfold RegInv at h
  split_trans
  all_goals (
    take_ht
    simp only [upd, updR, execFwd, bnd] at *
    grind)

theorem bnd_step (S : Sys G PC) (hS : S.trans = trans c) (s s' : State) (i : Nat)
    (hr : RegInv s) (hb : BndInv s) (hs : step S s i = some s') : BndInv s' := by
  obtain ⟨pc, pc', sp, hpc, ht, hmem, -⟩ := step_spec2 S s s' i hs
  have hb1 := hb pc hpc
  rw [hS] at ht
  have hm := trans_mono _ _ _ _ _ ht
  intro x hx
  rcases hmem x hx with rfl | hx | hx
  · -- the thread that moved
    clear hmem
    split_trans
    all_goals (
      obtain ⟨hg, hp, hsp⟩ := ht; subst hp; subst hsp; rw [← hg]
      simp only [bnd] at *
      (try grind))
    -- reply: the registry only knows existing futures
    all_goals (
      rename_i k hk
      exact (hr _ _ hk).1)
  · -- spawned threads
    clear hmem
    split_trans
    all_goals (
      obtain ⟨hg, hp, hsp⟩ := ht; subst hp; subst hsp; rw [← hg]
      simp only [bnd, List.mem_cons, List.not_mem_nil, or_false] at *
      (try grind))
  · exact bnd_mono hm.nfut x (hb x hx)

/-! ## the CAS invariant -/

/-- pcs that have won the completion CAS of `k` and not yet closed `done` -/
def pending (k : Nat) : PC → Bool
  | .setRes j _ _ => j == k
  | .closeDone j => j == k
  | _ => false

/-- **CAS invariant**: `done` has been closed, or is about to be closed by exactly one thread, iff
the flag is set -/
def OnceInv (s : State) : Prop :=
  ∀ k, s.ths.countP (pending k) + (s.g.futs k).dones = flag (s.g.futs k).closed

theorem pending_top (s : State) (hb : BndInv s) (k : Nat) (hk : s.g.nfut ≤ k) :
    s.ths.countP (pending k) = 0 := by
  apply countP_zero_of
  intro x hx
  have := hb x hx
  cases x <;> simp only [pending, bnd] at * <;> (try rfl) <;> (simp; omega)

theorem once_step (S : Sys G PC) (hS : S.trans = trans c) (s s' : State) (i : Nat)
    (hb : BndInv s) (h : OnceInv s) (hs : step S s i = some s') : OnceInv s' := by
  obtain ⟨pc, pc', sp, hpc, ht, -, hc⟩ := step_spec2 S s s' i hs
  intro k
  have k1 := hc (pending k)
  have h1 := h k
  have hb1 := hb pc hpc
  have hz := pending_top s hb s.g.nfut (Nat.le_refl _)
  rw [hS] at ht
  unfold flag at *
  split_trans
  all_goals (
    take_ht
    simp only [pending, if_false, Bool.false_eq_true, List.countP_nil, List.countP_cons, Nat.add_zero] at k1
    simp only [upd, bnd, execFwd] at *
    grind)

/-! ## threads in the completion section; readers -/

/-- state facts a thread's position implies (all of them monotone) -/
def sect (g : G) : PC → Prop
  | .setRes k _ _ | .closeDone k => (g.futs k).closed = true
  | .stopT k | .unreg k | .cLock k => (g.futs k).closed = true ∧ 0 < (g.futs k).dones
  | .rRead k => 0 < (g.futs k).dones
  | _ => True

def SectInv (s : State) : Prop :=
  (∀ x ∈ s.ths, sect s.g x) ∧ ∀ k, (s.g.futs k).dones = 0 → (s.g.futs k).results = []

theorem sect_mono (g g' : G) (hm : Mono g g') (x : PC) (hb : bnd g.nfut x) (hx : sect g x) : sect g' x := by
  cases x <;> simp only [sect, bnd] at * <;> try trivial
  all_goals (
    have h1 := hm.closed _ hb
    have h2 := hm.dones _ hb
    grind)

theorem sect_step (S : Sys G PC) (hS : S.trans = trans c) (s s' : State) (i : Nat)
    (hb : BndInv s) (h : SectInv s) (hs : step S s i = some s') : SectInv s' := by
  obtain ⟨pc, pc', sp, hpc, ht, hmem, -⟩ := step_spec2 S s s' i hs
  have hb1 := hb pc hpc
  have hs1 := h.1 pc hpc
  rw [hS] at ht
  have hm := trans_mono _ _ _ _ _ ht
  constructor
  · intro x hx
    rcases hmem x hx with rfl | hx | hx
    · clear hmem
      split_trans
      all_goals (
        take_ht
        simp only [sect, bnd, upd, execFwd] at *
        (try grind))
    · clear hmem
      split_trans
      all_goals (
        obtain ⟨hg, hp, hsp⟩ := ht; subst hp; subst hsp
        simp only [List.mem_cons, List.not_mem_nil, or_false] at hx
        (try (subst hx; simp only [sect])))
    · exact sect_mono _ _ hm x (hb x hx) (h.1 x hx)
  · intro k
    have h2 := h.2 k
    clear hmem
    split_trans
    all_goals (
      take_ht
      simp only [sect, bnd, upd, execFwd] at *
      grind)

/-! ## the result never changes -/

/-- every result handed out so far is the pair that is stored now -/
def StableInv (s : State) : Prop :=
  ∀ k, ∀ x ∈ (s.g.futs k).results, x = ((s.g.futs k).msg, (s.g.futs k).err)

theorem stable_step (hw : c.winnerWrites = true) (S : Sys G PC) (hS : S.trans = trans c) (s s' : State) (i : Nat)
    (hb : BndInv s) (ho : OnceInv s) (hsec : SectInv s) (h : StableInv s) (hs : step S s i = some s') :
    StableInv s' := by
  obtain ⟨pc, pc', sp, hpc, ht, -, -⟩ := step_spec2 S s s' i hs
  have hb1 := hb pc hpc
  rw [hS] at ht
  intro k x
  have h1 := h k x
  have h2 := hsec.2 k
  have h3 := ho k
  have hpos := fun hp => countP_pos_of_mem (p := pending k) hpc hp
  unfold flag at h3
  split_trans
  all_goals (
    take_ht
    simp only [upd, bnd, execFwd, pending] at *
    grind)

end MV.Model.Future
