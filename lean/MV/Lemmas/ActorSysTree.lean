import MV.Lemmas.ActorSysTurns
/-!
# The supervision tree of the Layer-2 model: a global invariant for every run

`TI w` relates the statuses, children tables, registrations and queued `Terminated` notifications of
ALL actors of a world.  `Prim w w'` lists the primitive updates the model's functions are made of,
each with the guard under which the code performs it (e.g. "status := terminated" only from
`terminating` with an empty children table — `tryTerminated`); `TI` is preserved by every primitive
update (`TI_prim`), hence by every sequence of them (`TI_steps`).  `MV/Lemmas/ActorSysTreeWP.lean`
shows that every function of the model only performs such updates.

Actor ids at or above `ghostBase` are addresses that never existed ("ghosts"); the model keeps them
apart from real ids as long as fewer than `ghostBase` actors have been created, which the run-level
theorems assume (`nA w ≤ ghostBase`).
-/
namespace MV.Model.ActorSys

/-- number of actors ever created -/
abbrev nA (w : World) : Nat := w.actors.length

/-- an id that denotes an existing actor or a ghost address — never a *future* actor -/
def inScope (n : Nat) (x : Aid) : Prop := x < n ∨ ghostBase ≤ x

def inScopeO (n : Nat) : Option Aid → Prop
  | none => True
  | some x => inScope n x

/-- `who` is a terminated actor, or an address that never existed -/
def DeadOrGhost (w : World) (who : Aid) : Prop :=
  (who < nA w ∧ (actorAt w who).status = .terminated) ∨ ghostBase ≤ who

/-- a `Terminated(who)` notification may only be sent about a terminated actor or a ghost -/
def msgOK (w : World) : SMsg → Prop
  | .terminated who => DeadOrGhost w who
  | _ => True

def isSpawn : Action → Bool
  | .spawn _ => true
  | _ => false

/-- the hypothesis under which "children first" can hold at all (known finding
`C05-child-spawned-during-termination-outlives-parent`): the handler of an actor's own `OnTerminated`
does not create children -/
def BehOK (b : BehDef) : Prop :=
  ∀ r ∈ b.rules, (r.1 = .terminatedSelf ∨ r.1 = .terminatedAny ∨ r.1 = .any) → ∀ act ∈ r.2, isSpawn act = false

/-- the handler of this incarnation has been shown `OnTerminate` -/
def hasT (x : Actor) : Prop := ∃ s, ({ inc := x.inc, obs := Obs.terminate, sender := s } : LogEntry) ∈ x.log
/-- the handler of this incarnation has been shown its own `OnTerminated` -/
def hasD (a : Aid) (x : Actor) : Prop := ∃ s, ({ inc := x.inc, obs := Obs.terminated a, sender := s } : LogEntry) ∈ x.log

/-- in the handler record of actor `a`: every own `OnTerminated` is preceded by an `OnTerminate` of the
same incarnation -/
def okLog (a : Aid) (l : List LogEntry) : Prop :=
  ∀ (k i : Nat) (s : Option Aid), l[k]? = some ({ inc := i, obs := Obs.terminated a, sender := s } : LogEntry) →
    ∃ j : Nat, j < k ∧ ∃ s' : Option Aid, l[j]? = some ({ inc := i, obs := Obs.terminate, sender := s' } : LogEntry)

structure TI (w : World) : Prop where
  /-- a living actor is listed in its parent's children table; parents are older than children -/
  par : ∀ c, c < nA w → ∀ p, (actorAt w c).parent = some p →
    p < c ∧ (c ∈ (actorAt w p).children ∨ (actorAt w c).status = .terminated)
  /-- queued `Terminated(who)` notifications are about terminated actors (or ghosts) -/
  msg : ∀ a, a < nA w → ∀ who s, (SMsg.terminated who, s) ∈ (actorAt w a).sysQ → DeadOrGhost w who
  /-- only a terminated actor is unregistered -/
  reg : ∀ a, a < nA w → (actorAt w a).registered = false → (actorAt w a).status = .terminated
  /-- a terminated actor has no children left -/
  leaf : ∀ a, a < nA w → (actorAt w a).status = .terminated → (actorAt w a).children = []
  sndS : ∀ a, a < nA w → ∀ m x, (m, some x) ∈ (actorAt w a).sysQ → inScope (nA w) x
  sndU : ∀ a, a < nA w → ∀ m x, (m, some x) ∈ (actorAt w a).userQ → inScope (nA w) x
  cur : ∀ a, a < nA w → inScopeO (nA w) (actorAt w a).curSender
  /-- lifecycle record: a terminating incarnation has handled `OnTerminate`, a terminated one also its own
      `OnTerminated`, and in the whole record `OnTerminate` precedes the own `OnTerminated` -/
  lgT : ∀ a, a < nA w → (actorAt w a).status = .terminating → hasT (actorAt w a)
  lgD : ∀ a, a < nA w → (actorAt w a).status = .terminated → hasT (actorAt w a) ∧ hasD a (actorAt w a)
  lgOK : ∀ a, a < nA w → okLog a (actorAt w a).log
  /-- only the guard (actor 0) has no parent -/
  root : ∀ a, a < nA w → (actorAt w a).parent = none → a = 0
  /-- the channel `Shutdown` waits on is closed only after the guard has terminated -/
  shut : w.closed = true → (actorAt w 0).status = .terminated
  /-- armed restart timers name an existing supervisor -/
  tim : ∀ p ∈ w.timers, p.1 < nA w
  behs : ∀ b ∈ w.behs, BehOK b

/-- the fresh actor record `ActorOf` creates -/
def freshChild (p : Aid) (beh : Nat) : Actor := { beh := beh, parent := some p }

/-- the primitive updates of the model, with the guards under which the code performs them -/
inductive Prim : World → World → Prop where
  /-- events, dead letters, timers, flags: the actor table is untouched -/
  | frame (w w' : World) : w'.actors = w.actors → w'.behs = w.behs → w'.timers = w.timers → w'.closed = w.closed → Prim w w'
  /-- the root's `tryTerminated` closes the channel `Shutdown` waits on -/
  | close (w : World) : (nA w ≤ ghostBase → (actorAt w 0).status = .terminated) → Prim w { w with closed := true }
  /-- `time.AfterFunc` of a restart decision / its firing -/
  | armTimer (w : World) (s v : Aid) : s < nA w → Prim w { w with timers := w.timers ++ [(s, v)] }
  | popTimer (w : World) (p : Aid × Aid) (rest : List (Aid × Aid)) : w.timers = p :: rest → Prim w { w with timers := rest }
  /-- bookkeeping of one actor: log, accidents, suspension, runner flag, watchers, graceful flag,
      taking messages out of a queue, and status changes between non-terminated statuses -/
  | upd (w : World) (a : Aid) (f : Actor → Actor) :
      (f (actorAt w a)).children = (actorAt w a).children →
      (f (actorAt w a)).parent = (actorAt w a).parent →
      (f (actorAt w a)).registered = (actorAt w a).registered →
      ((f (actorAt w a)).status = .terminated ↔ (actorAt w a).status = .terminated) →
      (∀ e, e ∈ (f (actorAt w a)).sysQ → e ∈ (actorAt w a).sysQ) →
      (∀ e, e ∈ (f (actorAt w a)).userQ → e ∈ (actorAt w a).userQ) →
      (f (actorAt w a)).curSender = (actorAt w a).curSender →
      (f (actorAt w a)).log = (actorAt w a).log →
      (f (actorAt w a)).inc = (actorAt w a).inc →
      ((f (actorAt w a)).status = .terminating → (actorAt w a).status = .terminating) →
      Prim w { w with actors := w.actors.modify a f }
  /-- `handle`: the handler is shown `obs` (recorded in the actor's log). Its own `OnTerminated` only after
      an `OnTerminate` of the same incarnation. -/
  | logged (w : World) (a : Aid) (obs : Obs) :
      (nA w ≤ ghostBase → obs = .terminated a → hasT (actorAt w a)) →
      Prim w { w with actors := w.actors.modify a fun x =>
        { x with log := x.log ++ [{ inc := x.inc, obs := obs, sender := x.curSender }] } }
  /-- `onTerminate`: CAS alive → terminating, then the handler is shown `OnTerminate` -/
  | beginTerm (w : World) (a : Aid) : (actorAt w a).status = .alive →
      Prim w { w with actors := w.actors.modify a fun x =>
        { x with status := .terminating, log := x.log ++ [{ inc := x.inc, obs := .terminate, sender := x.curSender }] } }
  /-- the end of a restart: a fresh incarnation -/
  | revive (w : World) (a : Aid) : (actorAt w a).status = .restarting →
      Prim w { w with actors := w.actors.modify a fun x => { x with inc := x.inc + 1, status := .alive } }
  | setCur (w : World) (a : Aid) (s : Option Aid) : (nA w ≤ ghostBase → inScopeO (nA w) s) →
      Prim w { w with actors := w.actors.modify a fun x => { x with curSender := s } }
  | setCurG (w : World) (a : Aid) (s : Option Aid) : (nA w ≤ ghostBase → inScopeO (nA w) s) →
      Prim w { w with actors := w.actors.modify a fun x => { x with curSender := s, graceful := true } }
  | pushS (w : World) (a : Aid) (m : SMsg) (s : Option Aid) :
      (nA w ≤ ghostBase → inScopeO (nA w) s) → (nA w ≤ ghostBase → msgOK w m) →
      Prim w { w with actors := w.actors.modify a fun x => { x with sysQ := x.sysQ ++ [(m, s)], hasRunner := true } }
  | pushU (w : World) (a : Aid) (m : UMsg) (s : Option Aid) : (nA w ≤ ghostBase → inScopeO (nA w) s) →
      Prim w { w with actors := w.actors.modify a fun x => { x with userQ := x.userQ ++ [(m, s)], hasRunner := true } }
  /-- `tryTerminated`: CAS terminating → terminated, only with an empty children table, then the handler is
      shown its own `OnTerminated` -/
  | term (w : World) (a : Aid) : (actorAt w a).status = .terminating → (actorAt w a).children = [] →
      Prim w { w with actors := w.actors.modify a fun x =>
        { x with status := .terminated, log := x.log ++ [{ inc := x.inc, obs := .terminated a, sender := x.curSender }] } }
  /-- `rc.Unregister` at the end of `tryTerminated` -/
  | unreg (w : World) (a : Aid) : (actorAt w a).status = .terminated →
      Prim w { w with actors := w.actors.modify a fun x => { x with registered := false } }
  /-- `onTerminated`: the child named by a `Terminated` notification leaves the children table -/
  | dropChild (w : World) (a who : Aid) : (nA w ≤ ghostBase → DeadOrGhost w who) →
      Prim w { w with actors := w.actors.modify a fun x => { x with children := x.children.filter (· ≠ who) } }
  /-- `ActorOf`: a fresh actor is appended and bound to its (not terminated) parent -/
  | spawn (w : World) (p : Aid) (beh : Nat) : p < nA w → (actorAt w p).status ≠ .terminated →
      Prim w { w with actors := (w.actors ++ [freshChild p beh]).modify p fun x => { x with children := x.children ++ [nA w] } }

inductive Steps : World → World → Prop where
  | refl (w : World) : Steps w w
  | tail {w w1 w2 : World} : Steps w w1 → Prim w1 w2 → Steps w w2

theorem Steps.trans {a b c : World} (h1 : Steps a b) (h2 : Steps b c) : Steps a c := by
  induction h2 with
  | refl => exact h1
  | tail _ hp ih => exact Steps.tail ih hp

theorem Steps.single {a b : World} (h : Prim a b) : Steps a b := Steps.tail (Steps.refl a) h

/-! ## basic facts about `actorAt` under the updates -/

theorem actorAt_ge (w : World) (a : Aid) (h : nA w ≤ a) : actorAt w a = default := by
  unfold actorAt; rw [List.getElem?_eq_none h]; rfl

theorem status_default : (default : Actor).status = .alive := rfl

theorem lt_of_terminated (w : World) (a : Aid) (h : (actorAt w a).status = .terminated) : a < nA w := by
  by_cases hlt : a < nA w
  · exact hlt
  · rw [actorAt_ge w a (Nat.le_of_not_lt hlt)] at h; cases h

theorem actorAt_mod (w : World) (a b : Aid) (f : Actor → Actor) :
    actorAt { w with actors := w.actors.modify a f } b =
      if a = b ∧ b < nA w then f (actorAt w b) else actorAt w b := by
  unfold actorAt
  by_cases hab : a = b
  · subst hab
    by_cases hlt : a < nA w
    · simp [hlt]
    · simp [hlt]
  · simp [hab]

theorem nA_mod (w : World) (a : Aid) (f : Actor → Actor) :
    nA { w with actors := w.actors.modify a f } = nA w := by simp [nA]

theorem Prim.nA_le {w w' : World} (h : Prim w w') : nA w ≤ nA w' := by
  cases h with
  | frame _ ha _ _ _ => simp [nA, ha]
  | spawn => simp [nA]
  | _ => simp [nA]

theorem Steps.nA_le {w w' : World} (h : Steps w w') : nA w ≤ nA w' := by
  induction h with
  | refl => exact Nat.le_refl _
  | tail _ hp ih => exact Nat.le_trans ih hp.nA_le

theorem Prim.behs_eq {w w' : World} (h : Prim w w') : w'.behs = w.behs := by
  cases h with
  | frame _ _ hb _ _ => exact hb
  | _ => rfl

theorem Steps.behs_eq {w w' : World} (h : Steps w w') : w'.behs = w.behs := by
  induction h with
  | refl => rfl
  | tail _ hp ih => rw [hp.behs_eq, ih]

theorem inScope.mono {n m : Nat} {x : Aid} (h : inScope n x) (hnm : n ≤ m) : inScope m x := by
  rcases h with h | h
  · exact Or.inl (Nat.lt_of_lt_of_le h hnm)
  · exact Or.inr h

theorem inScopeO.mono {n m : Nat} {s : Option Aid} (h : inScopeO n s) (hnm : n ≤ m) : inScopeO m s := by
  cases s with
  | none => trivial
  | some x => exact inScope.mono h hnm


theorem DeadOrGhost.mono {w w' : World} {who : Aid} (h : DeadOrGhost w who) (hn : nA w ≤ nA w')
    (hs : ∀ b, b < nA w → (actorAt w b).status = .terminated → (actorAt w' b).status = .terminated) :
    DeadOrGhost w' who := by
  rcases h with ⟨h1, h2⟩ | h
  · exact Or.inl ⟨Nat.lt_of_lt_of_le h1 hn, hs who h1 h2⟩
  · exact Or.inr h

/-- the invariant survives an update of one actor record `x ↦ y` that satisfies the listed conditions -/
theorem TI_modify (w : World) (a : Aid) (f : Actor → Actor) (h : TI w)
    (s1 : (actorAt w a).status = .terminated → (f (actorAt w a)).status = .terminated)
    (c1 : (f (actorAt w a)).parent = (actorAt w a).parent)
    (k1 : ∀ c, c ∈ (actorAt w a).children → c < nA w →
      c ∈ (f (actorAt w a)).children ∨ (actorAt w c).status = .terminated)
    (q1 : ∀ who s, (SMsg.terminated who, s) ∈ (f (actorAt w a)).sysQ → DeadOrGhost w who)
    (r1 : (f (actorAt w a)).registered = false → (f (actorAt w a)).status = .terminated)
    (l1 : (f (actorAt w a)).status = .terminated → (f (actorAt w a)).children = [])
    (ss : ∀ m x, (m, some x) ∈ (f (actorAt w a)).sysQ → inScope (nA w) x)
    (su : ∀ m x, (m, some x) ∈ (f (actorAt w a)).userQ → inScope (nA w) x)
    (cc : inScopeO (nA w) (f (actorAt w a)).curSender)
    (t1 : (f (actorAt w a)).status = .terminating → hasT (f (actorAt w a)))
    (t2 : (f (actorAt w a)).status = .terminated → hasT (f (actorAt w a)) ∧ hasD a (f (actorAt w a)))
    (t3 : okLog a (f (actorAt w a)).log) :
    TI { w with actors := w.actors.modify a f } := by
  have hn : nA { w with actors := w.actors.modify a f } = nA w := nA_mod w a f
  have hst : ∀ b, b < nA w → (actorAt w b).status = .terminated →
      (actorAt { w with actors := w.actors.modify a f } b).status = .terminated := by
    intro b hb hd
    rw [actorAt_mod]
    split
    · rename_i hab; obtain ⟨hab, _⟩ := hab; subst hab; exact s1 hd
    · exact hd
  refine ⟨?_, ?_, ?_, ?_, ?_, ?_, ?_, ?_, ?_, ?_, ?_, ?_, (by intro p hp; rw [hn]; exact h.tim p hp), h.behs⟩
  · intro c hc p hp
    rw [hn] at hc
    have hp' : (actorAt w c).parent = some p := by
      rw [actorAt_mod] at hp
      split at hp
      · rename_i hab; obtain ⟨hab, _⟩ := hab; subst hab; rw [c1] at hp; exact hp
      · exact hp
    obtain ⟨hpc, hor⟩ := h.par c hc p hp'
    refine ⟨hpc, ?_⟩
    rcases hor with hin | hd
    · rw [actorAt_mod w a p]
      split
      · rename_i hap; obtain ⟨hap, _⟩ := hap; subst hap
        rcases k1 c hin hc with hk | hk
        · exact Or.inl hk
        · exact Or.inr (hst c hc hk)
      · exact Or.inl hin
    · exact Or.inr (hst c hc hd)
  · intro b hb who s hm
    rw [hn] at hb
    have hdg : DeadOrGhost w who := by
      rw [actorAt_mod] at hm
      split at hm
      · rename_i hab; obtain ⟨hab, _⟩ := hab; subst hab; exact q1 who s hm
      · exact h.msg b hb who s hm
    exact hdg.mono (Nat.le_of_eq hn.symm) hst
  · intro b hb hr
    rw [hn] at hb
    rw [actorAt_mod] at hr ⊢
    split
    · rename_i hab; rw [if_pos hab] at hr; obtain ⟨hab, _⟩ := hab; subst hab; exact r1 hr
    · rename_i hab; rw [if_neg hab] at hr; exact h.reg b hb hr
  · intro b hb hd
    rw [hn] at hb
    rw [actorAt_mod] at hd ⊢
    split
    · rename_i hab; rw [if_pos hab] at hd; obtain ⟨hab, _⟩ := hab; subst hab; exact l1 hd
    · rename_i hab; rw [if_neg hab] at hd; exact h.leaf b hb hd
  · intro b hb m x hm
    rw [hn] at hb ⊢
    rw [actorAt_mod] at hm
    split at hm
    · rename_i hab; obtain ⟨hab, _⟩ := hab; subst hab; exact ss m x hm
    · exact h.sndS b hb m x hm
  · intro b hb m x hm
    rw [hn] at hb ⊢
    rw [actorAt_mod] at hm
    split at hm
    · rename_i hab; obtain ⟨hab, _⟩ := hab; subst hab; exact su m x hm
    · exact h.sndU b hb m x hm
  · intro b hb
    rw [hn] at hb ⊢
    rw [actorAt_mod]
    split
    · rename_i hab; obtain ⟨hab, _⟩ := hab; subst hab; exact cc
    · exact h.cur b hb
  · intro b hb hs
    rw [hn] at hb
    rw [actorAt_mod] at hs ⊢
    split
    · rename_i hab; rw [if_pos hab] at hs; obtain ⟨hab, _⟩ := hab; subst hab; exact t1 hs
    · rename_i hab; rw [if_neg hab] at hs; exact h.lgT b hb hs
  · intro b hb hs
    rw [hn] at hb
    rw [actorAt_mod] at hs ⊢
    split
    · rename_i hab; rw [if_pos hab] at hs; obtain ⟨hab, _⟩ := hab; subst hab; exact t2 hs
    · rename_i hab; rw [if_neg hab] at hs; exact h.lgD b hb hs
  · intro b hb
    rw [hn] at hb
    rw [actorAt_mod]
    split
    · rename_i hab; obtain ⟨hab, _⟩ := hab; subst hab; exact t3
    · exact h.lgOK b hb
  · intro b hb hp
    rw [hn] at hb
    apply h.root b hb
    rw [actorAt_mod] at hp
    split at hp
    · rename_i hab; obtain ⟨hab, _⟩ := hab; subst hab; rw [c1] at hp; exact hp
    · exact hp
  · intro hc
    have h0 := h.shut hc
    exact hst 0 (lt_of_terminated w 0 h0) h0

theorem modify_ge (w : World) (a : Aid) (f : Actor → Actor) (h : nA w ≤ a) : w.actors.modify a f = w.actors := by
  apply List.ext_getElem?
  intro i
  by_cases hia : a = i
  · subst hia; simp [List.getElem?_eq_none h]
  · simp [hia]

theorem TI_of_eq {w w' : World} (ha : w'.actors = w.actors) (hb : w'.behs = w.behs)
    (ht : ∀ p ∈ w'.timers, p.1 < nA w) (hc : w'.closed = true → (actorAt w 0).status = .terminated)
    (h : TI w) : TI w' := by
  have hat : ∀ b, actorAt w' b = actorAt w b := by intro b; unfold actorAt; rw [ha]
  have hn : nA w' = nA w := by simp [nA, ha]
  refine ⟨?_, ?_, ?_, ?_, ?_, ?_, ?_,
    (by intro a hl hs; rw [hn] at hl; rw [hat] at hs ⊢; exact h.lgT a hl hs),
    (by intro a hl hs; rw [hn] at hl; rw [hat] at hs ⊢; exact h.lgD a hl hs),
    (by intro a hl; rw [hn] at hl; rw [hat]; exact h.lgOK a hl),
    (by intro a hl hp; rw [hn] at hl; rw [hat] at hp; exact h.root a hl hp),
    (by intro hcl; rw [hat]; exact hc hcl), (by intro p hp; rw [hn]; exact ht p hp), ?_⟩
  · intro c hc p hp; rw [hn] at hc; rw [hat] at hp; rw [hat, hat]; exact h.par c hc p hp
  · intro a hl who s hm; rw [hn] at hl; rw [hat] at hm
    rcases h.msg a hl who s hm with ⟨x, y⟩ | x
    · exact Or.inl ⟨by rw [hn]; exact x, by rw [hat]; exact y⟩
    · exact Or.inr x
  · intro a hl; rw [hn] at hl; rw [hat]; exact h.reg a hl
  · intro a hl; rw [hn] at hl; rw [hat]; exact h.leaf a hl
  · intro a hl; rw [hn] at hl ⊢; rw [hat]; exact h.sndS a hl
  · intro a hl; rw [hn] at hl ⊢; rw [hat]; exact h.sndU a hl
  · intro a hl; rw [hn] at hl ⊢; rw [hat]; exact h.cur a hl
  · rw [hb]; exact h.behs

theorem actorAt_spawn (w : World) (p : Aid) (beh : Nat) (hp : p < nA w) (b : Aid) :
    actorAt { w with actors := (w.actors ++ [freshChild p beh]).modify p fun x => { x with children := x.children ++ [nA w] } } b =
      if b = p then { actorAt w p with children := (actorAt w p).children ++ [nA w] }
      else if b = nA w then freshChild p beh else actorAt w b := by
  unfold actorAt
  by_cases hbp : b = p
  · subst hbp
    simp [List.getElem?_append_left hp]
    rw [List.getElem?_eq_getElem hp]; rfl
  · have hpb : p ≠ b := fun h => hbp h.symm
    simp only [hbp, if_false]
    by_cases hbn : b = nA w
    · subst hbn; simp [hpb]
    · simp only [hbn, if_false]
      by_cases hlt : b < nA w
      · simp [hpb, List.getElem?_append_left hlt]
      · have h1 : nA w + 1 ≤ b := Nat.lt_of_le_of_ne (Nat.le_of_not_lt hlt) (Ne.symm hbn)
        have : (w.actors ++ [freshChild p beh])[b]? = none := List.getElem?_eq_none (by simp; omega)
        have h2 : w.actors[b]? = none := List.getElem?_eq_none (by simp [nA] at hlt ⊢; omega)
        simp [hpb, this, h2]

theorem TI_spawn (w : World) (p : Aid) (beh : Nat) (hp : p < nA w)
    (hst : (actorAt w p).status ≠ .terminated) (h : TI w) :
    TI { w with actors := (w.actors ++ [freshChild p beh]).modify p fun x => { x with children := x.children ++ [nA w] } } := by
  have hn : nA { w with actors := (w.actors ++ [freshChild p beh]).modify p fun x => { x with children := x.children ++ [nA w] } } = nA w + 1 := by
    simp [nA]
  have hold : ∀ b, b < nA w → b ≠ p →
      actorAt { w with actors := (w.actors ++ [freshChild p beh]).modify p fun x => { x with children := x.children ++ [nA w] } } b = actorAt w b := by
    intro b hb hbp; rw [actorAt_spawn w p beh hp]; simp [hbp, Nat.ne_of_lt hb]
  have hpar : actorAt { w with actors := (w.actors ++ [freshChild p beh]).modify p fun x => { x with children := x.children ++ [nA w] } } p
      = { actorAt w p with children := (actorAt w p).children ++ [nA w] } := by
    rw [actorAt_spawn w p beh hp]; simp
  have hnew : actorAt { w with actors := (w.actors ++ [freshChild p beh]).modify p fun x => { x with children := x.children ++ [nA w] } } (nA w)
      = freshChild p beh := by
    rw [actorAt_spawn w p beh hp]; simp [Nat.ne_of_gt hp]
  have hstat : ∀ b, b < nA w → (actorAt w b).status = .terminated →
      (actorAt { w with actors := (w.actors ++ [freshChild p beh]).modify p fun x => { x with children := x.children ++ [nA w] } } b).status = .terminated := by
    intro b hb hd
    by_cases hbp : b = p
    · subst hbp; rw [hpar]; exact hd
    · rw [hold b hb hbp]; exact hd
  generalize hw' : ({ w with actors := (w.actors ++ [freshChild p beh]).modify p fun x => { x with children := x.children ++ [nA w] } } : World) = w' at *
  have hbehs : w'.behs = w.behs := by subst hw'; rfl
  have htim : ∀ p ∈ w'.timers, p.1 < nA w' := by
    intro p hp; subst hw'; rw [hn]; exact Nat.lt_succ_of_lt (h.tim p hp)
  refine ⟨?_, ?_, ?_, ?_, ?_, ?_, ?_, ?_, ?_, ?_, ?_, ?_, htim, ?_⟩
  · intro c hc q hq
    rw [hn] at hc
    by_cases hcn : c = nA w
    · subst hcn
      rw [hnew] at hq
      have : q = p := by simp [freshChild] at hq; exact hq.symm
      subst this
      refine ⟨hp, Or.inl ?_⟩
      rw [hpar]; simp
    · have hc' : c < nA w := by omega
      have hq' : (actorAt w c).parent = some q := by
        by_cases hcp : c = p
        · subst hcp; rw [hpar] at hq; exact hq
        · rw [hold c hc' hcp] at hq; exact hq
      obtain ⟨hqc, hor⟩ := h.par c hc' q hq'
      refine ⟨hqc, ?_⟩
      rcases hor with hin | hd
      · left
        by_cases hqp : q = p
        · subst hqp; rw [hpar]; simp [hin]
        · rw [hold q (Nat.lt_trans hqc hc') hqp]; exact hin
      · exact Or.inr (hstat c hc' hd)
  · intro a ha who s hm
    rw [hn] at ha
    have hdg : DeadOrGhost w who := by
      by_cases han : a = nA w
      · subst han; rw [hnew] at hm; simp [freshChild] at hm
      · have ha' : a < nA w := by omega
        by_cases hap : a = p
        · subst hap; rw [hpar] at hm; exact h.msg a ha' who s hm
        · rw [hold a ha' hap] at hm; exact h.msg a ha' who s hm
    exact hdg.mono (by rw [hn]; omega) hstat
  · intro a ha hr
    rw [hn] at ha
    by_cases han : a = nA w
    · subst han; rw [hnew] at hr; simp [freshChild] at hr
    · have ha' : a < nA w := by omega
      by_cases hap : a = p
      · subst hap; rw [hpar] at hr ⊢; exact h.reg a ha' hr
      · rw [hold a ha' hap] at hr ⊢; exact h.reg a ha' hr
  · intro a ha hd
    rw [hn] at ha
    by_cases han : a = nA w
    · subst han; rw [hnew] at hd; simp [freshChild] at hd
    · have ha' : a < nA w := by omega
      by_cases hap : a = p
      · subst hap; rw [hpar] at hd; exact absurd hd hst
      · rw [hold a ha' hap] at hd ⊢; exact h.leaf a ha' hd
  · intro a ha m x hm
    rw [hn] at ha ⊢
    by_cases han : a = nA w
    · subst han; rw [hnew] at hm; simp [freshChild] at hm
    · have ha' : a < nA w := by omega
      refine inScope.mono ?_ (Nat.le_succ _)
      by_cases hap : a = p
      · subst hap; rw [hpar] at hm; exact h.sndS a ha' m x hm
      · rw [hold a ha' hap] at hm; exact h.sndS a ha' m x hm
  · intro a ha m x hm
    rw [hn] at ha ⊢
    by_cases han : a = nA w
    · subst han; rw [hnew] at hm; simp [freshChild] at hm
    · have ha' : a < nA w := by omega
      refine inScope.mono ?_ (Nat.le_succ _)
      by_cases hap : a = p
      · subst hap; rw [hpar] at hm; exact h.sndU a ha' m x hm
      · rw [hold a ha' hap] at hm; exact h.sndU a ha' m x hm
  · intro a ha
    rw [hn] at ha ⊢
    by_cases han : a = nA w
    · subst han; rw [hnew]; simp [freshChild, inScopeO]
    · have ha' : a < nA w := by omega
      refine inScopeO.mono ?_ (Nat.le_succ _)
      by_cases hap : a = p
      · subst hap; rw [hpar]; exact h.cur a ha'
      · rw [hold a ha' hap]; exact h.cur a ha'
  · intro a ha hs
    rw [hn] at ha
    by_cases han : a = nA w
    · subst han; rw [hnew] at hs; simp [freshChild] at hs
    · have ha' : a < nA w := by omega
      by_cases hap : a = p
      · subst hap; rw [hpar] at hs ⊢; exact h.lgT a ha' hs
      · rw [hold a ha' hap] at hs ⊢; exact h.lgT a ha' hs
  · intro a ha hs
    rw [hn] at ha
    by_cases han : a = nA w
    · subst han; rw [hnew] at hs; simp [freshChild] at hs
    · have ha' : a < nA w := by omega
      by_cases hap : a = p
      · subst hap; rw [hpar] at hs ⊢; exact h.lgD a ha' hs
      · rw [hold a ha' hap] at hs ⊢; exact h.lgD a ha' hs
  · intro a ha
    rw [hn] at ha
    by_cases han : a = nA w
    · subst han; rw [hnew]; unfold okLog; intro k i s hk; simp [freshChild] at hk
    · have ha' : a < nA w := by omega
      by_cases hap : a = p
      · subst hap; rw [hpar]; exact h.lgOK a ha'
      · rw [hold a ha' hap]; exact h.lgOK a ha'
  · intro a ha hpn
    rw [hn] at ha
    by_cases han : a = nA w
    · subst han; rw [hnew] at hpn; simp [freshChild] at hpn
    · have ha' : a < nA w := by omega
      apply h.root a ha'
      by_cases hap : a = p
      · subst hap; rw [hpar] at hpn; exact hpn
      · rw [hold a ha' hap] at hpn; exact hpn
  · intro hc
    have hc' : w.closed = true := by subst hw'; exact hc
    have h0 := h.shut hc'
    exact hstat 0 (lt_of_terminated w 0 h0) h0
  · rw [hbehs]; exact h.behs


theorem okLog_append {a : Aid} {l : List LogEntry} (h : okLog a l) (e : LogEntry)
    (hg : e.obs = .terminated a → ∃ s, ({ inc := e.inc, obs := Obs.terminate, sender := s } : LogEntry) ∈ l) :
    okLog a (l ++ [e]) := by
  intro k i s hk
  by_cases hlt : k < l.length
  · rw [List.getElem?_append_left hlt] at hk
    obtain ⟨j, hj, s', hs'⟩ := h k i s hk
    exact ⟨j, hj, s', by rw [List.getElem?_append_left (Nat.lt_trans hj hlt)]; exact hs'⟩
  · have hge : l.length ≤ k := Nat.le_of_not_lt hlt
    rw [List.getElem?_append_right hge] at hk
    have hk0 : k - l.length = 0 := by
      cases hkk : k - l.length with
      | zero => rfl
      | succ n => rw [hkk] at hk; simp at hk
    rw [hk0] at hk
    simp only [List.getElem?_cons_zero, Option.some.injEq] at hk
    obtain ⟨s0, hs0⟩ := hg (by rw [hk])
    obtain ⟨j, hj, hjj⟩ := List.getElem_of_mem hs0
    refine ⟨j, by omega, s0, ?_⟩
    rw [List.getElem?_append_left hj, List.getElem?_eq_getElem hj, hjj, hk]

theorem hasT_append {x y : Actor} (e : LogEntry) (hl : y.log = x.log ++ [e]) (hi : y.inc = x.inc)
    (h : hasT x) : hasT y := by
  obtain ⟨s, hs⟩ := h
  exact ⟨s, by rw [hl, hi]; exact List.mem_append_left _ hs⟩

/-- every primitive update preserves the invariant (as long as real ids stay below the ghost range) -/
theorem TI_prim {w w' : World} (hp : Prim w w') (hb : nA w' ≤ ghostBase) (h : TI w) : TI w' := by
  have hbw : nA w ≤ ghostBase := Nat.le_trans hp.nA_le hb
  cases hp with
  | frame _ ha hbe hti hcl => exact TI_of_eq ha hbe (by intro p hp; rw [hti] at hp; exact h.tim p hp) (by intro hc; rw [hcl] at hc; exact h.shut hc) h
  | close hd => exact TI_of_eq (w := w) rfl rfl h.tim (fun _ => hd hbw) h
  | armTimer s v hs =>
    refine TI_of_eq (w := w) rfl rfl ?_ h.shut h
    intro p hp
    simp only [List.mem_append, List.mem_singleton] at hp
    rcases hp with hp | hp
    · exact h.tim p hp
    · subst hp; exact hs
  | popTimer p rest hr =>
    refine TI_of_eq (w := w) rfl rfl ?_ h.shut h
    intro q hq
    exact h.tim q (by rw [hr]; exact List.mem_cons_of_mem _ hq)
  | upd a f hch hpa hre hst hsq huq hcu hlog hinc htg =>
    by_cases ha : a < nA w
    · apply TI_modify w a f h
      · exact hst.mpr
      · exact hpa
      · intro c hc _; left; rw [hch]; exact hc
      · intro who s hm; exact h.msg a ha who s (hsq _ hm)
      · intro hr; rw [hre] at hr; exact hst.mpr (h.reg a ha hr)
      · intro hd; rw [hch]; exact h.leaf a ha (hst.mp hd)
      · intro m x hm; exact h.sndS a ha m x (hsq _ hm)
      · intro m x hm; exact h.sndU a ha m x (huq _ hm)
      · rw [hcu]; exact h.cur a ha
      · intro hs
        obtain ⟨s, hs'⟩ := h.lgT a ha (htg hs)
        exact ⟨s, by rw [hlog, hinc]; exact hs'⟩
      · intro hs
        obtain ⟨⟨s, h1⟩, ⟨s2, h2⟩⟩ := h.lgD a ha (hst.mp hs)
        exact ⟨⟨s, by rw [hlog, hinc]; exact h1⟩, ⟨s2, by rw [hlog, hinc]; exact h2⟩⟩
      · rw [hlog]; exact h.lgOK a ha
    · rw [modify_ge w a f (Nat.le_of_not_lt ha)]; exact h
  | setCur a s hs =>
    have hs := hs hbw
    by_cases ha : a < nA w
    · apply TI_modify w a _ h
      · exact id
      · rfl
      · intro c hc _; exact Or.inl hc
      · intro who s' hm; exact h.msg a ha who s' hm
      · exact h.reg a ha
      · exact h.leaf a ha
      · exact h.sndS a ha
      · exact h.sndU a ha
      · exact hs
      · exact h.lgT a ha
      · exact h.lgD a ha
      · exact h.lgOK a ha
    · rw [modify_ge w a _ (Nat.le_of_not_lt ha)]; exact h
  | setCurG a s hs =>
    have hs := hs hbw
    by_cases ha : a < nA w
    · apply TI_modify w a _ h
      · exact id
      · rfl
      · intro c hc _; exact Or.inl hc
      · intro who s' hm; exact h.msg a ha who s' hm
      · exact h.reg a ha
      · exact h.leaf a ha
      · exact h.sndS a ha
      · exact h.sndU a ha
      · exact hs
      · exact h.lgT a ha
      · exact h.lgD a ha
      · exact h.lgOK a ha
    · rw [modify_ge w a _ (Nat.le_of_not_lt ha)]; exact h
  | pushS a m s hs hm =>
    have hs := hs hbw
    have hm := hm hbw
    by_cases ha : a < nA w
    · apply TI_modify w a _ h
      · exact id
      · rfl
      · intro c hc _; exact Or.inl hc
      · intro who s' hmem
        simp only [List.mem_append, List.mem_singleton, Prod.mk.injEq] at hmem
        rcases hmem with hold | ⟨h1, _⟩
        · exact h.msg a ha who s' hold
        · subst h1; exact hm
      · exact h.reg a ha
      · exact h.leaf a ha
      · intro m' x hmem
        simp only [List.mem_append, List.mem_singleton, Prod.mk.injEq] at hmem
        rcases hmem with hold | ⟨_, h2⟩
        · exact h.sndS a ha m' x hold
        · subst h2; exact hs
      · exact h.sndU a ha
      · exact h.cur a ha
      · exact h.lgT a ha
      · exact h.lgD a ha
      · exact h.lgOK a ha
    · rw [modify_ge w a _ (Nat.le_of_not_lt ha)]; exact h
  | pushU a m s hs =>
    have hs := hs hbw
    by_cases ha : a < nA w
    · apply TI_modify w a _ h
      · exact id
      · rfl
      · intro c hc _; exact Or.inl hc
      · intro who s' hm; exact h.msg a ha who s' hm
      · exact h.reg a ha
      · exact h.leaf a ha
      · exact h.sndS a ha
      · intro m' x hmem
        simp only [List.mem_append, List.mem_singleton, Prod.mk.injEq] at hmem
        rcases hmem with hold | ⟨_, h2⟩
        · exact h.sndU a ha m' x hold
        · subst h2; exact hs
      · exact h.cur a ha
      · exact h.lgT a ha
      · exact h.lgD a ha
      · exact h.lgOK a ha
    · rw [modify_ge w a _ (Nat.le_of_not_lt ha)]; exact h
  | logged a obs hg =>
    by_cases ha : a < nA w
    · apply TI_modify w a _ h
      · exact id
      · rfl
      · intro c hc _; exact Or.inl hc
      · intro who s' hm; exact h.msg a ha who s' hm
      · exact h.reg a ha
      · exact h.leaf a ha
      · exact h.sndS a ha
      · exact h.sndU a ha
      · exact h.cur a ha
      · intro hs; exact hasT_append _ rfl rfl (h.lgT a ha hs)
      · intro hs
        obtain ⟨h1, ⟨s2, h2⟩⟩ := h.lgD a ha hs
        exact ⟨hasT_append _ rfl rfl h1, ⟨s2, List.mem_append_left _ h2⟩⟩
      · exact okLog_append (h.lgOK a ha) _ (fun ho => hg hbw ho)
    · rw [modify_ge w a _ (Nat.le_of_not_lt ha)]; exact h
  | beginTerm a hal =>
    by_cases ha : a < nA w
    · apply TI_modify w a _ h
      · intro hd; rw [hal] at hd; cases hd
      · rfl
      · intro c hc _; exact Or.inl hc
      · intro who s' hm; exact h.msg a ha who s' hm
      · intro hr; have := h.reg a ha hr; rw [hal] at this; cases this
      · intro hd; cases hd
      · exact h.sndS a ha
      · exact h.sndU a ha
      · exact h.cur a ha
      · intro _; exact ⟨(actorAt w a).curSender, List.mem_append_right _ (List.mem_singleton.mpr rfl)⟩
      · intro hd; cases hd
      · exact okLog_append (h.lgOK a ha) _ (fun ho => by cases ho)
    · rw [modify_ge w a _ (Nat.le_of_not_lt ha)]; exact h
  | revive a hre =>
    by_cases ha : a < nA w
    · apply TI_modify w a _ h
      · intro hd; rw [hre] at hd; cases hd
      · rfl
      · intro c hc _; exact Or.inl hc
      · intro who s' hm; exact h.msg a ha who s' hm
      · intro hr; have := h.reg a ha hr; rw [hre] at this; cases this
      · intro hd; cases hd
      · exact h.sndS a ha
      · exact h.sndU a ha
      · exact h.cur a ha
      · intro hd; cases hd
      · intro hd; cases hd
      · exact h.lgOK a ha
    · rw [modify_ge w a _ (Nat.le_of_not_lt ha)]; exact h
  | term a hs hc =>
    by_cases ha : a < nA w
    · have hT := h.lgT a ha hs
      apply TI_modify w a _ h
      · intro _; rfl
      · rfl
      · intro c hcm _; exact Or.inl hcm
      · intro who s' hm; exact h.msg a ha who s' hm
      · intro _; rfl
      · intro _; exact hc
      · exact h.sndS a ha
      · exact h.sndU a ha
      · exact h.cur a ha
      · intro hd; cases hd
      · intro _
        exact ⟨hasT_append _ rfl rfl hT, ⟨(actorAt w a).curSender, List.mem_append_right _ (List.mem_singleton.mpr rfl)⟩⟩
      · exact okLog_append (h.lgOK a ha) _ (fun _ => hT)
    · rw [modify_ge w a _ (Nat.le_of_not_lt ha)]; exact h
  | unreg a hs =>
    by_cases ha : a < nA w
    · apply TI_modify w a _ h
      · exact id
      · rfl
      · intro c hcm _; exact Or.inl hcm
      · intro who s' hm; exact h.msg a ha who s' hm
      · intro _; exact hs
      · exact h.leaf a ha
      · exact h.sndS a ha
      · exact h.sndU a ha
      · exact h.cur a ha
      · exact h.lgT a ha
      · exact h.lgD a ha
      · exact h.lgOK a ha
    · rw [modify_ge w a _ (Nat.le_of_not_lt ha)]; exact h
  | dropChild a who hdg =>
    have hdg := hdg hbw
    by_cases ha : a < nA w
    · have hn : nA w ≤ ghostBase := hbw
      apply TI_modify w a _ h
      · exact id
      · rfl
      · intro c hcm hcn
        by_cases hcw : c = who
        · subst hcw
          rcases hdg with ⟨_, hd⟩ | hg
          · exact Or.inr hd
          · exact absurd (Nat.lt_of_lt_of_le hcn hn) (Nat.not_lt.mpr hg)
        · left; simp [hcm, hcw]
      · intro who' s' hm; exact h.msg a ha who' s' hm
      · exact h.reg a ha
      · intro hd; simp [h.leaf a ha hd]
      · exact h.sndS a ha
      · exact h.sndU a ha
      · exact h.cur a ha
      · exact h.lgT a ha
      · exact h.lgD a ha
      · exact h.lgOK a ha
    · rw [modify_ge w a _ (Nat.le_of_not_lt ha)]; exact h
  | spawn p beh hpn hst => exact TI_spawn w p beh hpn hst h

theorem TI_steps {w w' : World} (hs : Steps w w') (hb : nA w' ≤ ghostBase) (h : TI w) : TI w' := by
  induction hs with
  | refl => exact h
  | tail hs1 hp ih => exact TI_prim hp hb (ih (Nat.le_trans hp.nA_le hb))

/-- the invariant, conditional on real ids staying below the ghost range (unconditionally inductive) -/
def J (w : World) : Prop := nA w ≤ ghostBase → TI w

theorem J_steps {w w' : World} (hs : Steps w w') (h : J w) : J w' := fun hb =>
  TI_steps hs hb (h (Nat.le_trans hs.nA_le hb))

/-! ## what never changes along a sequence of primitive updates -/

theorem Prim.parent_eq {w w' : World} (h : Prim w w') (a : Aid) (ha : a < nA w) :
    (actorAt w' a).parent = (actorAt w a).parent := by
  cases h with
  | frame _ hact _ _ _ => unfold actorAt; rw [hact]
  | upd b f _ hpa _ _ _ _ _ _ _ _ =>
    rw [actorAt_mod]; split
    · rename_i hab; obtain ⟨hab, _⟩ := hab; subst hab; exact hpa
    · rfl
  | spawn p beh hp _ =>
    rw [actorAt_spawn w p beh hp]
    split
    · rename_i hap; subst hap; rfl
    · rw [if_neg (Nat.ne_of_lt ha)]
  | armTimer => rfl
  | popTimer => rfl
  | close => rfl
  | _ => rw [actorAt_mod]; split <;> rfl

theorem Steps.parent_eq {w w' : World} (h : Steps w w') (a : Aid) (ha : a < nA w) :
    (actorAt w' a).parent = (actorAt w a).parent := by
  induction h with
  | refl => rfl
  | tail hs hp ih => rw [hp.parent_eq a (Nat.lt_of_lt_of_le ha hs.nA_le), ih]

theorem Prim.dead_mono {w w' : World} (h : Prim w w') (a : Aid)
    (hd : (actorAt w a).status = .terminated) : (actorAt w' a).status = .terminated := by
  have ha := lt_of_terminated w a hd
  cases h with
  | frame _ hact _ _ _ => unfold actorAt at *; rw [hact]; exact hd
  | upd b f _ _ _ hst _ _ _ _ _ _ =>
    rw [actorAt_mod]; split
    · rename_i hab; obtain ⟨hab, _⟩ := hab; subst hab; exact hst.mpr hd
    · exact hd
  | beginTerm b hal =>
    rw [actorAt_mod]; split
    · rename_i hab; obtain ⟨hab, _⟩ := hab; subst hab; rw [hal] at hd; cases hd
    · exact hd
  | revive b hre =>
    rw [actorAt_mod]; split
    · rename_i hab; obtain ⟨hab, _⟩ := hab; subst hab; rw [hre] at hd; cases hd
    · exact hd
  | spawn p beh hp _ =>
    rw [actorAt_spawn w p beh hp]
    split
    · rename_i hap; subst hap; exact hd
    · rw [if_neg (Nat.ne_of_lt ha)]; exact hd
  | term b _ _ => rw [actorAt_mod]; split <;> first | rfl | exact hd
  | armTimer => exact hd
  | popTimer => exact hd
  | close => exact hd
  | _ => rw [actorAt_mod]; split <;> exact hd

theorem Steps.dead_mono {w w' : World} (h : Steps w w') (a : Aid)
    (hd : (actorAt w a).status = .terminated) : (actorAt w' a).status = .terminated := by
  induction h with
  | refl => exact hd
  | tail _ hp ih => exact hp.dead_mono a ih

end MV.Model.ActorSys
