import MV.Lemmas.FinMap
/-!
# `Bucket` / `MutexBucket` refine the finite map, for every hash function into the bucket range
-/
namespace MV.Model.Bucket
open MV.Model MV.Spec.FinMap

/-- sum of the bucket sizes (`Len()`) -/
def total (bs : List FMap) : Nat := bs.foldl (fun n m => n + m.size) 0

theorem foldl_add (bs : List FMap) (a : Nat) : bs.foldl (fun n m => n + FMap.size m) a = a + total bs := by
  unfold total
  induction bs generalizing a with
  | nil => simp
  | cons m bs ih => simp only [List.foldl_cons]; rw [ih, ih (0 + FMap.size m)]; omega

theorem total_cons (m : FMap) (bs : List FMap) : total (m :: bs) = m.size + total bs := by
  unfold total; simp only [List.foldl_cons]; rw [foldl_add]; unfold total; omega

theorem total_set (bs : List FMap) (i : Nat) (hi : i < bs.length) (x : FMap) :
    total (bs.set i x) + bs[i].size = total bs + x.size := by
  induction bs generalizing i with
  | nil => simp at hi
  | cons m bs ih =>
    cases i with
    | zero => simp only [List.set_cons_zero, total_cons, List.getElem_cons_zero]; omega
    | succ i =>
      simp only [List.set_cons_succ, total_cons, List.getElem_cons_succ]
      have := ih i (by simpa using hi)
      omega

theorem total_replicate_nil (n : Nat) : total (List.replicate n ([] : FMap)) = 0 := by
  induction n with
  | zero => rfl
  | succ n ih => rw [List.replicate_succ, total_cons, ih]; rfl

theorem total_map_nil (bs : List FMap) : total (bs.map (fun _ => ([] : FMap))) = 0 := by
  induction bs with
  | nil => rfl
  | cons m bs ih => rw [List.map_cons, total_cons, ih]; rfl

/-- lookup through the bucket the key hashes to -/
def bget (h : Nat → Int → Nat) (b : Bucket) (k : Int) : Option Int :=
  match b.buckets[b.bucketOf h k]? with
  | some m => m.get k
  | none => none

/-- refinement relation: same lookups, every bucket duplicate-free, same size -/
structure Rel (h : Nat → Int → Nat) (b : Bucket) (m : M) : Prop where
  range : ∀ k, h b.buckets.length k < b.buckets.length
  look : ∀ k, bget h b k = lookup m k
  nodupB : ∀ i (hi : i < b.buckets.length), (FMap.keyList b.buckets[i]).Nodup
  nodupM : NodupKeys m
  size : total b.buckets = m.length

theorem rel_new (h : Nat → Int → Nat) (n : Nat) (hr : ∀ k, h n k < n) : Rel h (Bucket.new n) [] := by
  refine ⟨?_, ?_, ?_, List.nodup_nil, ?_⟩
  · intro k; simpa [Bucket.new] using hr k
  · intro k
    unfold bget Bucket.new bucketOf
    simp only [List.length_replicate, List.getElem?_replicate, hr k, if_true]
    rfl
  · intro i hi
    have : (Bucket.new n).buckets[i] = [] := by simp [Bucket.new]
    rw [this]; exact List.nodup_nil
  · show total (List.replicate n []) = 0
    exact total_replicate_nil n

/-- replacing the bucket of `k0` -/
theorem bget_set (h : Nat → Int → Nat) (b : Bucket) (k0 : Int) (x : FMap) (k : Int)
    (hr : h b.buckets.length k0 < b.buckets.length) :
    bget h ⟨b.buckets.set (b.bucketOf h k0) x⟩ k =
      if h b.buckets.length k = h b.buckets.length k0 then x.get k else bget h b k := by
  unfold bget bucketOf
  simp only [List.length_set, List.getElem?_set]
  by_cases e : h b.buckets.length k0 = h b.buckets.length k
  · have hr' : h b.buckets.length k < b.buckets.length := by rw [← e]; exact hr
    rw [if_pos e, if_pos hr, if_pos e.symm]
  · have : ¬ h b.buckets.length k = h b.buckets.length k0 := fun x => e x.symm
    rw [if_neg e, if_neg this]

theorem step_refines (h : Nat → Int → Nat) (b : Bucket) (m : M) (r : Rel h b m) (op : Op) :
    Rel h (step h b op).1 (stepBucket m op).1 ∧ (step h b op).2 = (stepBucket m op).2 := by
  have hlt : ∀ k, b.bucketOf h k < b.buckets.length := r.range
  have hget : ∀ k, b.buckets[b.bucketOf h k]? = some (b.buckets[b.bucketOf h k]'(hlt k)) :=
    fun k => List.getElem?_eq_getElem (hlt k)
  have hlook : ∀ k, (b.buckets[b.bucketOf h k]'(hlt k)).get k = lookup m k := by
    intro k
    have := r.look k
    unfold bget at this
    rw [hget k] at this
    exact this
  -- generic update of the bucket of `k0` by `x`, mirrored by `m'` on the spec side
  have upd : ∀ (k0 : Int) (x : FMap) (m' : M),
      (∀ k, (if h b.buckets.length k = h b.buckets.length k0 then x.get k else bget h b k) = lookup m' k) →
      (FMap.keyList x).Nodup → NodupKeys m' →
      total b.buckets + x.size = m'.length + (b.buckets[b.bucketOf h k0]'(hlt k0)).size →
      Rel h ⟨b.buckets.set (b.bucketOf h k0) x⟩ m' := by
    intro k0 x m' hl hnx hnm hsz
    refine ⟨?_, ?_, ?_, hnm, ?_⟩
    · intro k; simpa using r.range k
    · intro k; rw [bget_set h b k0 x k (r.range k0)]; exact hl k
    · intro i hi
      simp only [List.length_set] at hi
      simp only [List.getElem_set]
      split
      · exact hnx
      · exact r.nodupB i hi
    · have := total_set b.buckets (b.bucketOf h k0) (hlt k0) x
      show total (b.buckets.set (b.bucketOf h k0) x) = m'.length
      omega
  have hsizeM := r.size
  cases op with
  | get k =>
    simp only [step, stepBucket, hget k, hlook k]
    exact ⟨r, trivial⟩
  | len =>
    simp only [step, stepBucket]
    refine ⟨r, ?_⟩
    have : b.len = total b.buckets := rfl
    rw [this, r.size]
  | clear =>
    simp only [step, stepBucket]
    refine ⟨⟨?_, ?_, ?_, List.nodup_nil, ?_⟩, trivial⟩
    · intro k; simpa using r.range k
    · intro k
      unfold bget bucketOf
      simp only [List.length_map, List.getElem?_map]
      cases b.buckets[h b.buckets.length k]? <;> rfl
    · intro i hi
      have : (b.buckets.map (fun _ => ([] : FMap)))[i]'hi = [] := by simp
      rw [this]; exact List.nodup_nil
    · show total (b.buckets.map (fun _ => ([] : FMap))) = 0
      exact total_map_nil _
  | set k v =>
    simp only [step, stepBucket, hget k]
    refine ⟨upd k _ _ ?_ (FMap.nodup_set _ _ _ (r.nodupB _ (hlt k))) (nodup_put _ _ _ r.nodupM) ?_, trivial⟩
    · intro k'
      rw [FMap.get_set, lookup_put]
      by_cases e : k' = k
      · simp [e]
      · simp only [e, if_false]
        split
        · rename_i he
          have := hlook k'
          have hb : b.bucketOf h k' = b.bucketOf h k := he
          simp only [hb] at this
          exact this
        · exact r.look k'
    · have h1 := length_put m k v r.nodupM
      have h2 := length_put (b.buckets[b.bucketOf h k]'(hlt k)) k v (r.nodupB _ (hlt k))
      rw [put_eq_set] at h1 h2
      rw [lookup_eq_get, hlook k] at h2
      rw [put_eq_set]
      show total b.buckets + (FMap.set _ k v).length = (FMap.set m k v).length + (b.buckets[b.bucketOf h k]'(hlt k)).length
      rw [h1, h2]
      split <;> omega
  | del k =>
    simp only [step, stepBucket, hget k]
    refine ⟨upd k _ _ ?_ (FMap.nodup_del _ _ (r.nodupB _ (hlt k))) (nodup_remove _ _ r.nodupM) ?_, trivial⟩
    · intro k'
      rw [FMap.get_del, lookup_remove]
      by_cases e : k' = k
      · simp [e]
      · simp only [e, if_false]
        split
        · rename_i he
          have := hlook k'
          have hb : b.bucketOf h k' = b.bucketOf h k := he
          simp only [hb] at this
          exact this
        · exact r.look k'
    · have h1 := length_remove m k r.nodupM
      have h2 := length_remove (b.buckets[b.bucketOf h k]'(hlt k)) k (r.nodupB _ (hlt k))
      rw [remove_eq_del] at h1 h2
      rw [lookup_eq_get, hlook k] at h2
      rw [remove_eq_del]
      show total b.buckets + (FMap.del _ k).length = (FMap.del m k).length + (b.buckets[b.bucketOf h k]'(hlt k)).length
      rw [h1, h2]
      have hpos : (lookup m k).isSome = true → 0 < (b.buckets[b.bucketOf h k]'(hlt k)).length ∧ 0 < m.length := by
        intro hs
        constructor
        · rw [← hlook k] at hs
          cases hb : b.buckets[b.bucketOf h k]'(hlt k) with
          | nil => rw [hb] at hs; simp [FMap.get] at hs
          | cons _ _ => simp
        · cases m with
          | nil => simp [lookup] at hs
          | cons _ _ => simp
      split
      · rename_i hs
        have := hpos hs
        omega
      · omega
  | getOrSet k v =>
    simp only [step, stepBucket, hget k, hlook k]
    cases hk : lookup m k with
    | some x => exact ⟨r, rfl⟩
    | none =>
      dsimp only
      refine ⟨upd k _ _ ?_ (FMap.nodup_set _ _ _ (r.nodupB _ (hlt k))) (nodup_put _ _ _ r.nodupM) ?_, rfl⟩
      · intro k'
        rw [FMap.get_set, lookup_put]
        by_cases e : k' = k
        · simp [e]
        · simp only [e, if_false]
          split
          · rename_i he
            have := hlook k'
            have hb : b.bucketOf h k' = b.bucketOf h k := he
            simp only [hb] at this
            exact this
          · exact r.look k'
      · have h1 := length_put m k v r.nodupM
        have h2 := length_put (b.buckets[b.bucketOf h k]'(hlt k)) k v (r.nodupB _ (hlt k))
        rw [put_eq_set] at h1 h2
        rw [lookup_eq_get, hlook k] at h2
        rw [put_eq_set]
        show total b.buckets + (FMap.set _ k v).length = (FMap.set m k v).length + (b.buckets[b.bucketOf h k]'(hlt k)).length
        rw [h1, h2, hk]
        simp; omega
  | getAndDel k =>
    simp only [step, stepBucket, hget k, hlook k]
    cases hk : lookup m k with
    | none =>
      dsimp only
      rw [remove_absent m k hk]
      exact ⟨r, rfl⟩
    | some x =>
      dsimp only
      refine ⟨upd k _ _ ?_ (FMap.nodup_del _ _ (r.nodupB _ (hlt k))) (nodup_remove _ _ r.nodupM) ?_, rfl⟩
      · intro k'
        rw [FMap.get_del, lookup_remove]
        by_cases e : k' = k
        · simp [e]
        · simp only [e, if_false]
          split
          · rename_i he
            have := hlook k'
            have hb : b.bucketOf h k' = b.bucketOf h k := he
            simp only [hb] at this
            exact this
          · exact r.look k'
      · have h1 := length_remove m k r.nodupM
        have h2 := length_remove (b.buckets[b.bucketOf h k]'(hlt k)) k (r.nodupB _ (hlt k))
        rw [remove_eq_del] at h1 h2
        rw [lookup_eq_get, hlook k] at h2
        rw [remove_eq_del]
        show total b.buckets + (FMap.del _ k).length = (FMap.del m k).length + (b.buckets[b.bucketOf h k]'(hlt k)).length
        rw [h1, h2, hk]
        have h3 : 0 < (b.buckets[b.bucketOf h k]'(hlt k)).length := by
          have := hlook k
          rw [hk] at this
          cases hb : b.buckets[b.bucketOf h k]'(hlt k) with
          | nil => rw [hb] at this; simp [FMap.get] at this
          | cons _ _ => simp
        have h4 : 0 < m.length := by
          cases m with
          | nil => simp [lookup] at hk
          | cons _ _ => simp
        simp; omega

end MV.Model.Bucket
