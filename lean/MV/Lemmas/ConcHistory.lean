import MV.Spec.ConcQueue
/-!
# From the linearisation invariants of the queue models to the history judge

Generic list lemmas: `L` is the list of all `(producer, value)` pairs in linearisation order, `P i`
the values producer `i` pushed (program order), `Qv` the values popped (a prefix of `L`'s values),
`pops` the per-consumer subsequences of `Qv`.  Conclusion: `MV.Spec.ConcQueue.judge` accepts.
-/
namespace MV.Lemmas.ConcHistory
open MV.Spec.ConcQueue

theorem eq_of_nodup_map_snd (Q : List (Nat × Int)) (h : (Q.map (·.2)).Nodup) :
    ∀ a ∈ Q, ∀ b ∈ Q, a.2 = b.2 → a = b := by
  induction Q with
  | nil => intro a ha; cases ha
  | cons x xs ih =>
    simp only [List.map_cons, List.nodup_cons] at h
    intro a ha b hb hab
    rcases List.mem_cons.mp ha with rfl | ha' <;> rcases List.mem_cons.mp hb with rfl | hb'
    · rfl
    · exact absurd (List.mem_map.mpr ⟨b, hb', hab.symm⟩) h.1
    · exact absurd (List.mem_map.mpr ⟨a, ha', hab⟩) h.1
    · exact ih h.2 a ha' b hb' hab

/-- the values of producers `0 … n-1`, concatenated -/
def famFlat (P : Nat → List Int) (n : Nat) : List Int := ((List.range n).map P).flatten

theorem mem_famFlat {P : Nat → List Int} {n : Nat} {v : Int} :
    v ∈ famFlat P n ↔ ∃ i, i < n ∧ v ∈ P i := by
  unfold famFlat
  constructor
  · intro h
    obtain ⟨l, hl, hv⟩ := List.mem_flatten.mp h
    obtain ⟨i, hi, rfl⟩ := List.mem_map.mp hl
    exact ⟨i, List.mem_range.mp hi, hv⟩
  · rintro ⟨i, hi, hv⟩
    exact List.mem_flatten.mpr ⟨P i, List.mem_map.mpr ⟨i, List.mem_range.mpr hi, rfl⟩, hv⟩

theorem fam_nodup (P : Nat → List Int) (n : Nat) (h : (famFlat P n).Nodup) :
    (∀ i, i < n → (P i).Nodup) ∧
      (∀ i j, i < n → j < n → i ≠ j → ∀ v, v ∈ P i → v ∈ P j → False) := by
  induction n with
  | zero => exact ⟨fun i hi => absurd hi (Nat.not_lt_zero _), fun i j hi => absurd hi (Nat.not_lt_zero _)⟩
  | succ n ih =>
    have e : famFlat P (n + 1) = famFlat P n ++ P n := by
      simp [famFlat, List.range_succ, List.flatten_append]
    rw [e, List.nodup_append] at h
    obtain ⟨h1, h2, h3⟩ := h
    obtain ⟨ih1, ih2⟩ := ih h1
    refine ⟨fun i hi => ?_, fun i j hi hj hij v hvi hvj => ?_⟩
    · rcases Nat.lt_succ_iff_lt_or_eq.mp hi with hi' | rfl
      · exact ih1 i hi'
      · exact h2
    · rcases Nat.lt_succ_iff_lt_or_eq.mp hi with hi' | rfl <;>
        rcases Nat.lt_succ_iff_lt_or_eq.mp hj with hj' | rfl
      · exact ih2 i j hi' hj' hij v hvi hvj
      · exact h3 v (mem_famFlat.mpr ⟨i, hi', hvi⟩) v hvj rfl
      · exact h3 v (mem_famFlat.mpr ⟨j, hj', hvj⟩) v hvi rfl
      · exact hij rfl

/-- the values linked by producer `i` -/
def ofProd (L : List (Nat × Int)) (i : Nat) : List Int := (L.filter (fun x => x.1 = i)).map (·.2)

theorem mem_ofProd_self (L : List (Nat × Int)) (x : Nat × Int) (hx : x ∈ L) : x.2 ∈ ofProd L x.1 :=
  List.mem_map.mpr ⟨x, List.mem_filter.mpr ⟨hx, by simp⟩, rfl⟩

/-- distinct inputs ⇒ distinct values in linearisation order -/
theorem values_nodup (P : Nat → List Int)
    (hPn : ∀ i, (P i).Nodup)
    (hPd : ∀ i j, i ≠ j → ∀ v, v ∈ P i → v ∈ P j → False) :
    ∀ (L : List (Nat × Int)), (∀ i, (ofProd L i).Sublist (P i)) → (L.map (·.2)).Nodup := by
  intro L
  induction L with
  | nil => intro _; simp
  | cons x xs ih =>
    intro hs
    have hs' : ∀ i, (ofProd xs i).Sublist (P i) := by
      intro i
      refine List.Sublist.trans ?_ (hs i)
      unfold ofProd
      exact List.Sublist.map _ (List.Sublist.filter _ (List.sublist_cons_self x xs))
    rw [List.map_cons, List.nodup_cons]
    refine ⟨?_, ih hs'⟩
    intro hmem
    obtain ⟨y, hy, hyx⟩ := List.mem_map.mp hmem
    have hxP : x.2 ∈ P x.1 := (hs x.1).subset (mem_ofProd_self (x :: xs) x (List.mem_cons_self))
    have hyP : y.2 ∈ P y.1 := (hs' y.1).subset (mem_ofProd_self xs y hy)
    by_cases hij : x.1 = y.1
    · -- same producer: its linked list would contain the value twice
      have hnd : (ofProd (x :: xs) x.1).Nodup := (hs x.1).nodup (hPn x.1)
      have e : ofProd (x :: xs) x.1 = x.2 :: ofProd xs x.1 := by simp [ofProd, List.filter_cons]
      rw [e, List.nodup_cons] at hnd
      apply hnd.1
      rw [hij, ← hyx]
      exact mem_ofProd_self xs y hy
    · rw [hyx] at hyP
      exact hPd x.1 y.1 hij x.2 hxP hyP

/-- the per-consumer split of a pop sequence with distinct values has distinct values overall -/
theorem split_nodup (Q : List (Nat × Int)) (h : (Q.map (·.2)).Nodup) (m : Nat) :
    ((List.range m).map (ofProd Q)).flatten.Nodup := by
  induction m with
  | zero => simp
  | succ m ih =>
    rw [List.range_succ, List.map_append, List.flatten_append, List.nodup_append]
    refine ⟨ih, ?_, ?_⟩
    · simp only [List.map_cons, List.map_nil, List.flatten_cons, List.flatten_nil, List.append_nil]
      exact (List.Sublist.map _ List.filter_sublist).nodup h
    · intro a ha b hb hab
      simp only [List.map_cons, List.map_nil, List.flatten_cons, List.flatten_nil, List.append_nil] at hb
      obtain ⟨l, hl, hal⟩ := List.mem_flatten.mp ha
      obtain ⟨c, hc, rfl⟩ := List.mem_map.mp hl
      obtain ⟨q, hq, hqa⟩ := List.mem_map.mp hal
      obtain ⟨q', hq', hqb⟩ := List.mem_map.mp hb
      have hq1 := List.mem_filter.mp hq
      have hq1' := List.mem_filter.mp hq'
      have : q = q' := eq_of_nodup_map_snd Q h q hq1.1 q' hq1'.1 (by rw [hqa, hqb, hab])
      have hc' := List.mem_range.mp hc
      have e1 : q.1 = c := by simpa using hq1.2
      have e2 : q'.1 = m := by simpa using hq1'.2
      rw [this] at e1
      omega

/-- **Safety clauses of the judge** for any reachable (not necessarily drained) history. -/
theorem history_safe (L : List (Nat × Int)) (P : Nat → List Int) (n : Nat)
    (Qv : List Int) (pops : List (List Int))
    (hP0 : ∀ i, n ≤ i → P i = [])
    (hL : ∀ i, (ofProd L i).Sublist (P i))
    (hnd : (famFlat P n).Nodup)
    (hQ : Qv.Sublist (L.map (·.2)))
    (hsub : ∀ c ∈ pops, c.Sublist Qv)
    (hpnd : Qv.Nodup → pops.flatten.Nodup) :
    inputOk ((List.range n).map P) = true ∧ noDup pops = true ∧
      noneInvented ((List.range n).map P) pops = true := by
  obtain ⟨hPn', hPd'⟩ := fam_nodup P n hnd
  have hPn : ∀ i, (P i).Nodup := by
    intro i
    rcases Nat.lt_or_ge i n with h | h
    · exact hPn' i h
    · rw [hP0 i h]; simp
  have hPd : ∀ i j, i ≠ j → ∀ v, v ∈ P i → v ∈ P j → False := by
    intro i j hij v hvi hvj
    rcases Nat.lt_or_ge i n with hi | hi
    · rcases Nat.lt_or_ge j n with hj | hj
      · exact hPd' i j hi hj hij v hvi hvj
      · rw [hP0 j hj] at hvj; cases hvj
    · rw [hP0 i hi] at hvi; cases hvi
  have hLnd := values_nodup P hPn hPd L hL
  have hQnd : Qv.Nodup := hQ.nodup hLnd
  refine ⟨by simpa [inputOk, famFlat] using hnd, by simpa [noDup] using hpnd hQnd, ?_⟩
  simp only [noneInvented, List.all_eq_true, List.contains_iff_mem]
  intro v hv
  obtain ⟨c, hc, hvc⟩ := List.mem_flatten.mp hv
  have hvL : v ∈ L.map (·.2) := hQ.subset ((hsub c hc).subset hvc)
  obtain ⟨x, hx, rfl⟩ := List.mem_map.mp hvL
  have hxP : x.2 ∈ P x.1 := (hL x.1).subset (mem_ofProd_self L x hx)
  have hlt : x.1 < n := by
    rcases Nat.lt_or_ge x.1 n with h | h
    · exact h
    · rw [hP0 _ h] at hxP; cases hxP
  exact mem_famFlat.mpr ⟨x.1, hlt, hxP⟩

/-- **Order clause**: once every producer's values are all linked (`ofProd L i = P i`), every
subsequence of the linearisation order shows each producer's values in program order. -/
theorem history_order (L : List (Nat × Int)) (P : Nat → List Int) (n : Nat)
    (Qv : List Int) (pops : List (List Int))
    (hP0 : ∀ i, n ≤ i → P i = [])
    (hL : ∀ i, ofProd L i = P i)
    (hnd : (famFlat P n).Nodup)
    (hQ : Qv.Sublist (L.map (·.2)))
    (hsub : ∀ c ∈ pops, c.Sublist Qv) :
    orderKept ((List.range n).map P) pops = true := by
  obtain ⟨_, hPd'⟩ := fam_nodup P n hnd
  simp only [orderKept, List.all_eq_true, List.isSublist_iff_sublist]
  intro c hc p hp
  obtain ⟨i, hi, rfl⟩ := List.mem_map.mp hp
  have hi' := List.mem_range.mp hi
  have h1 : (c.filter (fun v => (P i).contains v)).Sublist ((L.map (·.2)).filter (fun v => (P i).contains v)) :=
    List.Sublist.filter _ ((hsub c hc).trans hQ)
  refine h1.trans ?_
  rw [List.filter_map, ← hL i]
  unfold ofProd
  have : List.filter ((fun v => (List.map (fun x => x.2) (List.filter (fun x => decide (x.1 = i)) L)).contains v) ∘ fun x => x.2) L
      = List.filter (fun x => decide (x.1 = i)) L := by
    apply List.filter_congr
    intro x hx
    have hself : x.2 ∈ P x.1 := by rw [← hL x.1]; exact mem_ofProd_self L x hx
    by_cases hxi : x.1 = i
    · subst hxi
      simp only [Function.comp, decide_true]
      exact List.contains_iff_mem.mpr (mem_ofProd_self L x hx)
    · simp only [Function.comp, hxi, decide_false]
      cases hcon : (List.map (fun x => x.2) (List.filter (fun x => decide (x.1 = i)) L)).contains x.2 with
      | false => rfl
      | true =>
        exfalso
        have hmem : x.2 ∈ P i := by
          rw [← hL i]; exact List.contains_iff_mem.mp hcon
        have hlt : x.1 < n := by
          rcases Nat.lt_or_ge x.1 n with h | h
          · exact h
          · rw [hP0 _ h] at hself; cases hself
        exact hPd' x.1 i hlt hi' hxi x.2 hself hmem
  rw [this]
  exact List.Sublist.refl _

/-- **Nothing lost** once everything linked has been popped and every popped value is in some
consumer's sequence. -/
theorem history_complete (L : List (Nat × Int)) (P : Nat → List Int) (n : Nat)
    (Qv : List Int) (pops : List (List Int))
    (hL : ∀ i, ofProd L i = P i)
    (hQ : Qv = L.map (·.2))
    (hall : ∀ v ∈ Qv, v ∈ pops.flatten) :
    nothingLost ((List.range n).map P) pops = true := by
  simp only [nothingLost, List.all_eq_true, List.contains_iff_mem]
  intro v hv
  obtain ⟨i, _, hvi⟩ := (mem_famFlat (P := P) (n := n)).mp hv
  rw [← hL i] at hvi
  obtain ⟨x, hx, rfl⟩ := List.mem_map.mp hvi
  apply hall
  rw [hQ]
  exact List.mem_map.mpr ⟨x, (List.mem_filter.mp hx).1, rfl⟩

end MV.Lemmas.ConcHistory
