import MV.Model.C16Common
/-!
# Lemmas about the shared C16 pieces: the Go-map model `FMap` and insertion sort
-/
namespace MV.Model

/-! ## FMap: function laws -/
namespace FMap

theorem get_nil (k : Int) : get [] k = none := rfl

theorem get_cons (e : Int × Int) (m : FMap) (k : Int) :
    get (e :: m) k = if k = e.1 then some e.2 else get m k := by
  unfold get
  rw [List.lookup_cons]
  by_cases h : k = e.1
  · simp [h]
  · have : (k == e.1) = false := by simp [h]
    simp [this, h]

theorem get_del (m : FMap) (k k' : Int) : get (del m k) k' = if k' = k then none else get m k' := by
  induction m with
  | nil => simp [del, get]
  | cons e m ih =>
    unfold del at ih ⊢
    rw [List.filter_cons]
    by_cases he : e.1 = k
    · have : (e.1 != k) = false := by simp [he]
      simp only [this, Bool.false_eq_true, if_false]
      rw [ih, get_cons]
      by_cases h : k' = k
      · simp [h]
      · have : ¬ k' = e.1 := by rw [he]; exact h
        simp [h, this]
    · have : (e.1 != k) = true := by simp [he]
      simp only [this, if_true]
      rw [get_cons, get_cons, ih]
      by_cases h : k' = k
      · subst h
        have : ¬ k' = e.1 := fun x => he x.symm
        simp [this]
      · simp [h]

theorem get_set (m : FMap) (k v k' : Int) : get (set m k v) k' = if k' = k then some v else get m k' := by
  unfold set
  rw [get_cons, get_del]
  by_cases h : k' = k <;> simp [h]

/-- keys of the map -/
def keyList (m : FMap) : List Int := m.map (·.1)

theorem mem_keyList_iff (m : FMap) (k : Int) : k ∈ keyList m ↔ (get m k).isSome = true := by
  induction m with
  | nil => simp [keyList, get]
  | cons e m ih =>
    rw [get_cons]
    unfold keyList at ih ⊢
    simp only [List.map_cons, List.mem_cons]
    by_cases h : k = e.1
    · simp [h]
    · simp [h, ih]

theorem keyList_del (m : FMap) (k : Int) : keyList (del m k) = (keyList m).filter (fun x => x != k) := by
  unfold keyList del
  induction m with
  | nil => rfl
  | cons e m ih =>
    simp only [List.filter_cons, List.map_cons]
    by_cases he : e.1 = k
    · have : (e.1 != k) = false := by simp [he]
      simp [this, ih]
    · have : (e.1 != k) = true := by simp [he]
      simp [this, ih]

theorem not_mem_keyList_del (m : FMap) (k : Int) : k ∉ keyList (del m k) := by
  rw [keyList_del]; simp

theorem nodup_del (m : FMap) (k : Int) (h : (keyList m).Nodup) : (keyList (del m k)).Nodup := by
  rw [keyList_del]
  exact List.Nodup.sublist List.filter_sublist h

theorem nodup_set (m : FMap) (k v : Int) (h : (keyList m).Nodup) : (keyList (set m k v)).Nodup := by
  unfold set
  show (k :: keyList (del m k)).Nodup
  exact List.nodup_cons.mpr ⟨not_mem_keyList_del m k, nodup_del m k h⟩

/-- two duplicate-free maps with the same lookups have the same size -/
theorem length_eq_of_get_eq (m₁ m₂ : FMap) (h₁ : (keyList m₁).Nodup) (h₂ : (keyList m₂).Nodup)
    (h : ∀ k, get m₁ k = get m₂ k) : m₁.length = m₂.length := by
  have hp : (keyList m₁).Perm (keyList m₂) := by
    rw [List.perm_ext_iff_of_nodup h₁ h₂]
    intro k
    rw [mem_keyList_iff, mem_keyList_iff, h k]
  have := hp.length_eq
  simpa [keyList] using this

/-- in a duplicate-free map an entry is found by its key -/
theorem get_eq_some_of_mem (m : FMap) (h : (keyList m).Nodup) (e : Int × Int) (he : e ∈ m) :
    get m e.1 = some e.2 := by
  induction m with
  | nil => cases he
  | cons x m ih =>
    rw [get_cons]
    have hn : x.1 ∉ keyList m ∧ (keyList m).Nodup := by
      have := List.nodup_cons.mp (show (x.1 :: keyList m).Nodup from h); exact this
    rcases List.mem_cons.mp he with rfl | hm
    · simp
    · have hne : ¬ e.1 = x.1 := by
        intro heq
        apply hn.1
        rw [← heq]
        exact List.mem_map_of_mem (f := (·.1)) hm
      simp [hne, ih hn.2 hm]

theorem mem_of_get_eq_some (m : FMap) (k v : Int) (h : get m k = some v) : (k, v) ∈ m := by
  induction m with
  | nil => simp [get] at h
  | cons x m ih =>
    rw [get_cons] at h
    by_cases hk : k = x.1
    · simp only [hk, if_true, Option.some.injEq] at h
      have : x = (k, v) := by rw [hk, ← h]
      rw [this]; exact List.mem_cons_self
    · simp only [hk, if_false] at h
      exact List.mem_cons_of_mem _ (ih h)

end FMap

/-! ## insertion sort: permutation, ordered, canonical -/

theorem insertBy_perm {α : Type} (le : α → α → Bool) (x : α) (l : List α) :
    (insertBy le x l).Perm (x :: l) := by
  induction l with
  | nil => exact List.Perm.refl _
  | cons y ys ih =>
    unfold insertBy
    split
    · exact List.Perm.refl _
    · exact (List.Perm.cons y ih).trans (List.Perm.swap x y ys)

theorem isortBy_perm {α : Type} (le : α → α → Bool) (l : List α) : (isortBy le l).Perm l := by
  induction l with
  | nil => exact List.Perm.refl _
  | cons x xs ih =>
    unfold isortBy
    exact (insertBy_perm le x _).trans (List.Perm.cons x ih)

theorem insertBy_sorted {α : Type} (le : α → α → Bool)
    (total : ∀ a b, le a b = true ∨ le b a = true) (trans : ∀ a b c, le a b = true → le b c = true → le a c = true)
    (x : α) (l : List α) (h : l.Pairwise (fun a b => le a b = true)) :
    (insertBy le x l).Pairwise (fun a b => le a b = true) := by
  induction l with
  | nil => simp [insertBy]
  | cons y ys ih =>
    unfold insertBy
    have hy := List.pairwise_cons.mp h
    split
    · rename_i hxy
      refine List.pairwise_cons.mpr ⟨?_, h⟩
      intro a ha
      rcases List.mem_cons.mp ha with rfl | ha
      · exact hxy
      · exact trans _ _ _ hxy (hy.1 a ha)
    · rename_i hxy
      have hyx : le y x = true := by
        rcases total x y with h1 | h1
        · exact absurd h1 hxy
        · exact h1
      refine List.pairwise_cons.mpr ⟨?_, ih hy.2⟩
      intro a ha
      have := (insertBy_perm le x ys).mem_iff.mp ha
      rcases List.mem_cons.mp this with rfl | ha
      · exact hyx
      · exact hy.1 a ha

theorem isortBy_sorted {α : Type} (le : α → α → Bool)
    (total : ∀ a b, le a b = true ∨ le b a = true) (trans : ∀ a b c, le a b = true → le b c = true → le a c = true)
    (l : List α) : (isortBy le l).Pairwise (fun a b => le a b = true) := by
  induction l with
  | nil => simp [isortBy]
  | cons x xs ih => unfold isortBy; exact insertBy_sorted le total trans x _ ih

/-- sorting integers is canonical: permutations sort to the same list -/
theorem sortInts_eq_of_perm (l₁ l₂ : List Int) (h : l₁.Perm l₂) : sortInts l₁ = sortInts l₂ := by
  unfold sortInts
  have tot : ∀ a b : Int, decide (a ≤ b) = true ∨ decide (b ≤ a) = true := by
    intro a b; simp; omega
  have tr : ∀ a b c : Int, decide (a ≤ b) = true → decide (b ≤ c) = true → decide (a ≤ c) = true := by
    intro a b c; simp; omega
  have s1 := isortBy_sorted (fun a b : Int => decide (a ≤ b)) tot tr l₁
  have s2 := isortBy_sorted (fun a b : Int => decide (a ≤ b)) tot tr l₂
  have p : (isortBy (fun a b : Int => decide (a ≤ b)) l₁).Perm (isortBy (fun a b : Int => decide (a ≤ b)) l₂) :=
    (isortBy_perm _ l₁).trans (h.trans (isortBy_perm _ l₂).symm)
  apply List.Perm.eq_of_pairwise (le := fun a b : Int => decide (a ≤ b) = true) _ s1 s2 p
  intro a b _ _ hab hba
  simp at hab hba; omega

end MV.Model
