import MV.Lemmas.C16Common
import MV.Spec.PrioritySlice
/-!
# Priority slice: ordered by priority and multiset-preserving, for every sort that meets `SortSpec`
-/
namespace MV.Model.PrioritySlice
open MV.Model MV.Spec.PrioritySlice

theorem sortedP_of_le_one (l : List Item) (h : l.length ≤ 1) : SortedP l := by
  match l, h with
  | [], _ => exact List.Pairwise.nil
  | [a], _ => exact List.pairwise_singleton _ _

theorem sortM_perm {srt : List Item → List Item} (hs : SortSpec srt) (l : List Item) : (sortM srt l).Perm l := by
  unfold sortM; split
  · exact List.Perm.refl _
  · exact (hs l).1

theorem sortM_sorted {srt : List Item → List Item} (hs : SortSpec srt) (l : List Item) : SortedP (sortM srt l) := by
  unfold sortM; split
  · rename_i h; exact sortedP_of_le_one l h
  · exact (hs l).2

/-- insertion sort by priority meets the contract assumed of `sort.Slice` -/
theorem isortP_spec : SortSpec isortP := by
  intro l
  refine ⟨isortBy_perm _ l, ?_⟩
  have tot : ∀ a b : Item, prioLe a b = true ∨ prioLe b a = true := by
    intro a b; unfold prioLe; simp; omega
  have tr : ∀ a b c : Item, prioLe a b = true → prioLe b c = true → prioLe a c = true := by
    intro a b c; unfold prioLe; simp; omega
  have := isortBy_sorted prioLe tot tr l
  unfold SortedP isortP
  exact this.imp (by intro a b h; unfold prioLe at h; simpa using h)

theorem sortedPB_iff (l : List Item) : sortedPB l = true ↔ SortedP l := by
  induction l with
  | nil => simp [sortedPB, SortedP]
  | cons a l ih =>
    cases l with
    | nil => simp [sortedPB, SortedP]
    | cons b rest =>
      unfold sortedPB
      simp only [Bool.and_eq_true, decide_eq_true_eq, ih]
      unfold SortedP
      constructor
      · rintro ⟨hab, hp⟩
        refine List.pairwise_cons.mpr ⟨?_, hp⟩
        intro x hx
        rcases List.mem_cons.mp hx with rfl | hx
        · exact hab
        · have := (List.pairwise_cons.mp hp).1 x hx
          omega
      · intro hp
        have := List.pairwise_cons.mp hp
        exact ⟨this.1 b List.mem_cons_self, this.2⟩

/-- `Set` with an unchanged priority keeps the order -/
theorem sorted_set_same_prio (l : List Item) (hs : SortedP l) (i : Nat) (hi : i < l.length) (x : Item)
    (hp : x.1 = l[i].1) : SortedP (l.set i x) := by
  unfold SortedP at *
  rw [List.pairwise_iff_getElem] at *
  intro a b ha hb hab
  simp only [List.length_set] at ha hb
  simp only [List.getElem_set]
  have := hs a b ha hb hab
  split <;> split <;> simp_all <;> omega

theorem foldl_append_perm {srt : List Item → List Item} (hs : SortSpec srt) (p : Int) (vs : List Int) (l : List Item) :
    (vs.foldl (fun l v => append srt l v p) l).Perm (l ++ vs.map (fun v => (p, v))) := by
  induction vs generalizing l with
  | nil => simp
  | cons v vs ih =>
    simp only [List.foldl_cons, List.map_cons]
    refine (ih _).trans ?_
    have h1 : (append srt l v p).Perm (l ++ [(p, v)]) := sortM_perm hs _
    have : l ++ (p, v) :: vs.map (fun v => (p, v)) = (l ++ [(p, v)]) ++ vs.map (fun v => (p, v)) := by simp
    rw [this]
    exact List.Perm.append_right _ h1

/-- **one step**: ordered before ⇒ ordered after, and the items are (as a multiset) exactly what the
method asked for; a call with a bad index panics and changes nothing. -/
theorem step_spec {srt : List Item → List Item} (hs : SortSpec srt) (l : List Item) (hl : SortedP l) (op : Op) :
    SortedP (step srt l op).1 ∧
      (match effect l op with
       | some want => (step srt l op).1.Perm want
       | none => (step srt l op).1 = l ∧ (step srt l op).2 = .panic) := by
  cases op with
  | append v p => exact ⟨sortM_sorted hs _, sortM_perm hs _⟩
  | appends p vs =>
    refine ⟨sortM_sorted hs _, ?_⟩
    exact (sortM_perm hs _).trans (foldl_append_perm hs p vs l)
  | get i =>
    simp only [step, effect]
    split <;> exact ⟨hl, by first | exact ⟨rfl, rfl⟩ | exact List.Perm.refl _⟩
  | set i v p =>
    simp only [step, effect]
    by_cases hi : i < 0 ∨ i ≥ (l.length : Int)
    · simp only [hi, if_true]; exact ⟨hl, by first | exact ⟨rfl, rfl⟩ | trivial | simp⟩
    · simp only [hi, if_false]
      by_cases hp : (l.getD i.toNat (0, 0)).1 ≠ p
      · rw [if_pos hp]; exact ⟨sortM_sorted hs _, sortM_perm hs _⟩
      · rw [if_neg hp]
        refine ⟨?_, List.Perm.refl _⟩
        have hlt : i.toNat < l.length := by omega
        apply sorted_set_same_prio l hl i.toNat hlt
        have : l.getD i.toNat (0, 0) = l[i.toNat] := by simp [List.getD_eq_getElem?_getD, hlt]
        rw [this] at hp
        simp only [ne_eq, Decidable.not_not] at hp
        exact hp.symm
  | setValue i v =>
    simp only [step, effect]
    by_cases hi : i < 0 ∨ i ≥ (l.length : Int)
    · simp only [hi, if_true]; exact ⟨hl, by first | exact ⟨rfl, rfl⟩ | trivial | simp⟩
    · simp only [hi, if_false]
      refine ⟨?_, List.Perm.refl _⟩
      have hlt : i.toNat < l.length := by omega
      apply sorted_set_same_prio l hl i.toNat hlt
      simp [List.getD_eq_getElem?_getD, hlt]
  | setPriority i p =>
    simp only [step, effect]
    by_cases hi : i < 0 ∨ i ≥ (l.length : Int)
    · simp only [hi, if_true]; exact ⟨hl, by first | exact ⟨rfl, rfl⟩ | trivial | simp⟩
    · simp only [hi, if_false]; exact ⟨sortM_sorted hs _, sortM_perm hs _⟩
  | clear => exact ⟨List.Pairwise.nil, List.Perm.refl _⟩
  | len => exact ⟨hl, List.Perm.refl _⟩
  | slice => exact ⟨hl, List.Perm.refl _⟩
  | prios => exact ⟨hl, List.Perm.refl _⟩
  | rangeN k => exact ⟨hl, List.Perm.refl _⟩

/-- the `Bool` judge is the specification -/
theorem judge_iff (before : List Item) (op : Op) (after : List Item) :
    judge before op after = true ↔
      (match effect before op with
       | some want => SortedP after ∧ after.Perm want
       | none => after = before) := by
  unfold judge
  cases effect before op with
  | none => simp
  | some want => simp [sortedPB_iff, List.isPerm_iff]

end MV.Model.PrioritySlice
