import MV.Model.MPSC
/-!
# Invariants of the MPSC queue model (helper lemmas for `MV/Props/C15Queues.lean`)
-/
namespace MV.Model.MPSC

def GInv (g : Glob) : Prop :=
  g.lk.length = g.order.length ∧ g.c < g.order.length ∧
  g.lk[g.order.length - 1]? = some false ∧
  (∀ k, k < g.c → g.lk[k]? = some true) ∧
  g.popped = ((g.order.drop 1).take g.c).map (·.val) ∧
  g.crashed = false

def LInv (g : Glob) : PC → Prop
  | .store prev => prev + 1 < g.order.length
  | _ => True

theorem LInv_mono (g g' : Glob) (pc : PC) (hle : g.order.length ≤ g'.order.length) (h : LInv g pc) :
    LInv g' pc := by
  cases pc <;> simp only [LInv] at h ⊢
  omega

theorem LInv_start (g : Glob) (todo : List Int) : LInv g (start todo).pc := by
  cases todo <;> simp [start, LInv]

theorem trans_inv (g g' : Glob) (i : Nat) (th th' : Thread) (hG : GInv g) (hL : LInv g th.pc)
    (hs : trans g i th = some (g', th')) :
    GInv g' ∧ LInv g' th'.pc ∧ g.order.length ≤ g'.order.length ∧ g'.c = g.c := by
  obtain ⟨pc, todo⟩ := th
  obtain ⟨h1, h2, h3, h4, h5, h6⟩ := hG
  cases pc <;> simp only [trans] at hs <;> simp only [LInv] at hL
  case done => cases hs
  case swap v =>
    cases hs
    refine ⟨⟨by simp [h1], by simp; omega, ?_, fun k hk => ?_, ?_, h6⟩, by simp [LInv]; omega, by simp, rfl⟩
    · simp only [List.length_append, List.length_cons, List.length_nil]
      rw [List.getElem?_append_right (by omega)]
      simp [h1]
    · simp only at hk ⊢
      rw [List.getElem?_append_left (by omega)]
      exact h4 k hk
    · simp only
      rw [h5, List.drop_append_of_le_length (by omega), List.take_append_of_le_length (by simp; omega)]
  case store prev =>
    cases hs
    refine ⟨⟨by simp [h1], h2, ?_, fun k hk => ?_, h5, h6⟩, LInv_start _ _, Nat.le_refl _, rfl⟩
    · simp only
      rw [List.getElem?_set_ne (by omega)]
      exact h3
    · simp only [List.getElem?_set]
      have := h4 k hk
      split
      · have hlt : prev < g.lk.length := by omega
        simp [hlt]
      · exact this

theorem pop_inv (g : Glob) (hG : GInv g) : GInv (pop g).1 ∧ (pop g).1.order = g.order ∧ (pop g).1.lk = g.lk := by
  obtain ⟨h1, h2, h3, h4, h5, h6⟩ := hG
  unfold pop
  cases hl : g.lk[g.c]? with
  | none =>
    rw [List.getElem?_eq_none_iff] at hl; omega
  | some b =>
    cases b with
    | false => exact ⟨⟨h1, h2, h3, h4, h5, h6⟩, rfl, rfl⟩
    | true =>
      have hne : g.c ≠ g.order.length - 1 := by
        intro he; rw [he, h3] at hl; cases hl
      have hlt : g.c + 1 < g.order.length := by omega
      cases hn : g.order[g.c + 1]? with
      | none => rw [List.getElem?_eq_none_iff] at hn; omega
      | some nd =>
        refine ⟨⟨h1, hlt, h3, fun k hk => ?_, ?_, h6⟩, rfl, rfl⟩
        · simp only at hk ⊢
          rcases Nat.lt_or_ge k g.c with hk' | hk'
          · exact h4 k hk'
          · have : k = g.c := by omega
            subst this; exact hl
        · simp only
          rw [h5, List.take_add_one, List.map_append, List.getElem?_drop]
          have : g.order[1 + g.c]? = g.order[g.c + 1]? := by rw [Nat.add_comm]
          rw [this, hn]; simp

/-! ## Lifting to the thread list and to schedules -/

/-- every non-last node whose `next` is not stored yet has its producer sitting at the store -/
def QInv (s : St) : Prop :=
  ∀ k, k + 1 < s.g.order.length → s.g.lk[k]? = some false →
    ∃ (j : Nat) (th : Thread), s.ths[j]? = some th ∧ th.pc = .store k

def SInv (s : St) : Prop :=
  GInv s.g ∧ (∀ (j : Nat) (th : Thread), s.ths[j]? = some th → LInv s.g th.pc) ∧ QInv s

theorem step_inv (s s' : St) (a : Act) (h : SInv s) (hs : step s a = some s') : SInv s' := by
  obtain ⟨hG, hL, hQ⟩ := h
  cases a with
  | pop =>
    simp only [step, Option.some.injEq] at hs
    subst hs
    obtain ⟨p1, p2, p3⟩ := pop_inv s.g hG
    refine ⟨p1, fun j th hj => LInv_mono _ _ _ (by rw [p2]; exact Nat.le_refl _) (hL j th hj), ?_⟩
    intro k hk hf
    simp only [p2, p3] at hk hf
    exact hQ k hk hf
  | prod i =>
    simp only [step] at hs
    cases hth : s.ths[i]? with
    | none => simp [hth] at hs
    | some th =>
      simp only [hth] at hs
      cases htr : trans s.g i th with
      | none => simp [htr] at hs
      | some r =>
        obtain ⟨g', th'⟩ := r
        simp only [htr, Option.some.injEq] at hs
        subst hs
        have hi : i < s.ths.length := by
          rcases Nat.lt_or_ge i s.ths.length with h | h
          · exact h
          · rw [List.getElem?_eq_none h] at hth; cases hth
        obtain ⟨hG', hL', hle, _⟩ := trans_inv s.g g' i th th' hG (hL i th hth) htr
        refine ⟨hG', fun j tj hj => ?_, ?_⟩
        · have hj' : (s.ths.set i th')[j]? = some tj := hj
          by_cases hij : i = j
          · subst hij
            have : (s.ths.set i th')[i]? = some th' := by simp [hi]
            rw [this] at hj'; cases hj'; exact hL'
          · have : (s.ths.set i th')[j]? = s.ths[j]? := by simp [List.getElem?_set, hij]
            rw [this] at hj'; exact LInv_mono _ _ _ hle (hL j tj hj')
        · -- QInv
          obtain ⟨pc, todo⟩ := th
          obtain ⟨h1, h2, h3, h4, h5, h6⟩ := hG
          cases pc <;> simp only [trans] at htr
          case done => cases htr
          case swap v =>
            cases htr
            intro k hk hf
            simp only [List.length_append, List.length_cons, List.length_nil] at hk
            simp only at hf
            by_cases hkl : k + 1 < s.g.order.length
            · rw [List.getElem?_append_left (by omega)] at hf
              obtain ⟨j, tj, hj, hpc⟩ := hQ k hkl hf
              have hji : j ≠ i := by
                intro he; subst he; rw [hth] at hj; cases hj; cases hpc
              exact ⟨j, tj, by simp only [List.getElem?_set, Ne.symm hji, if_false]; exact hj, hpc⟩
            · have : k = s.g.order.length - 1 := by omega
              exact ⟨i, { pc := .store (s.g.order.length - 1), todo := todo }, by simp [hi], by rw [this]⟩
          case store prev =>
            cases htr
            intro k hk hf
            simp only at hk hf
            have hkp : k ≠ prev := by
              intro he; subst he
              have hlt : k < s.g.lk.length := by omega
              simp [List.getElem?_set, hlt] at hf
            rw [List.getElem?_set_ne (Ne.symm hkp)] at hf
            obtain ⟨j, tj, hj, hpc⟩ := hQ k hk hf
            have hji : j ≠ i := by
              intro he; subst he; rw [hth] at hj; cases hj
              simp only [PC.store.injEq] at hpc; exact hkp hpc.symm
            exact ⟨j, tj, by simp only [List.getElem?_set, Ne.symm hji, if_false]; exact hj, hpc⟩

theorem run_inv (s : St) (sched : List Act) (h : SInv s) : SInv (run s sched) := by
  induction sched generalizing s with
  | nil => exact h
  | cons a rest ih =>
    show SInv (run ((step s a).getD s) rest)
    cases hs : step s a with
    | none => exact ih s h
    | some s1 => exact ih s1 (step_inv s s1 a h hs)

theorem init_inv (progs : List (List Int)) : SInv (init progs) := by
  refine ⟨⟨by simp [init], by simp [init], by simp [init], by simp [init], by simp [init], by simp [init]⟩, ?_, ?_⟩
  · intro j th hj
    simp only [init, List.getElem?_map] at hj
    cases hp : progs[j]? with
    | none => simp [hp] at hj
    | some p => simp [hp] at hj; subst hj; exact LInv_start _ _
  · intro k hk
    simp [init] at hk

/-! ## Every producer's values are swapped in in program order -/

def linked (g : Glob) (i : Nat) : List Int := ((g.order.drop 1).filter (fun n => n.tid = i)).map (·.val)

def pendingPush : PC → List Int
  | .swap v => [v]
  | _ => []

def pushesLeft (th : Thread) : List Int := pendingPush th.pc ++ th.todo

def pushSeq (s : St) (i : Nat) : List Int := linked s.g i ++ ((s.ths[i]?).map pushesLeft).getD []

theorem pushesLeft_start (todo : List Int) : pushesLeft (start todo) = todo := by
  cases todo <;> simp [start, pushesLeft, pendingPush]

theorem trans_pushes (g g' : Glob) (i : Nat) (th th' : Thread) (hlen : 1 ≤ g.order.length)
    (hs : trans g i th = some (g', th')) :
    linked g' i ++ pushesLeft th' = linked g i ++ pushesLeft th ∧ ∀ j, j ≠ i → linked g' j = linked g j := by
  obtain ⟨pc, todo⟩ := th
  cases pc <;> simp only [trans] at hs
  case done => cases hs
  case swap v =>
    cases hs
    simp only [linked, pushesLeft, pendingPush]
    rw [List.drop_append_of_le_length hlen]
    refine ⟨by simp, fun j hj => ?_⟩
    simp [List.filter_append, Ne.symm hj]
  case store prev =>
    cases hs; simp only [pushesLeft_start]; simp [pushesLeft, pendingPush, linked]

theorem step_pushSeq (s s' : St) (a : Act) (h : SInv s) (hs : step s a = some s') (j : Nat) :
    pushSeq s' j = pushSeq s j := by
  cases a with
  | pop =>
    simp only [step, Option.some.injEq] at hs
    subst hs
    obtain ⟨_, p2, _⟩ := pop_inv s.g h.1
    simp only [pushSeq, linked, p2]
  | prod i =>
    simp only [step] at hs
    cases hth : s.ths[i]? with
    | none => simp [hth] at hs
    | some th =>
      simp only [hth] at hs
      cases htr : trans s.g i th with
      | none => simp [htr] at hs
      | some r =>
        obtain ⟨g', th'⟩ := r
        simp only [htr, Option.some.injEq] at hs
        subst hs
        have hlen : 1 ≤ s.g.order.length := by have := h.1.2.1; omega
        have hi : i < s.ths.length := by
          rcases Nat.lt_or_ge i s.ths.length with h | h
          · exact h
          · rw [List.getElem?_eq_none h] at hth; cases hth
        obtain ⟨h1, h2⟩ := trans_pushes s.g g' i th th' hlen htr
        unfold pushSeq
        by_cases hji : j = i
        · subst hji
          simp only [List.getElem?_set, hi, hth, if_true, Option.map_some, Option.getD_some, h1]
        · have : (s.ths.set i th')[j]? = s.ths[j]? := by
            simp [List.getElem?_set, Ne.symm hji]
          simp only [this, h2 j hji]

theorem run_pushSeq (s : St) (sched : List Act) (h : SInv s) (j : Nat) :
    pushSeq (run s sched) j = pushSeq s j := by
  induction sched generalizing s with
  | nil => rfl
  | cons a rest ih =>
    show pushSeq (run ((step s a).getD s) rest) j = pushSeq s j
    cases hs : step s a with
    | none => exact ih s h
    | some s1 =>
      have := ih s1 (step_inv s s1 a h hs)
      simp only [Option.getD_some]
      rw [this, step_pushSeq s s1 a h hs j]

theorem init_pushSeq (progs : List (List Int)) (j : Nat) :
    pushSeq (init progs) j = (progs[j]?).getD [] := by
  simp only [pushSeq, linked, init, List.getElem?_map]
  cases progs[j]? <;> simp [pushesLeft_start]

/-! ## A finished producer has nothing left to do -/

def DoneInv (s : St) : Prop :=
  ∀ (j : Nat) (th : Thread), s.ths[j]? = some th → th.pc = .done → th.todo = []

theorem start_done (todo : List Int) : (start todo).pc = .done → (start todo).todo = [] := by
  cases todo <;> simp [start]

theorem trans_done (g g' : Glob) (i : Nat) (th th' : Thread) (hs : trans g i th = some (g', th')) :
    th'.pc = .done → th'.todo = [] := by
  obtain ⟨pc, todo⟩ := th
  cases pc <;> simp only [trans] at hs
  case done => cases hs
  case swap v => cases hs; simp
  case store prev => cases hs; exact start_done _

theorem step_done (s s' : St) (a : Act) (h : DoneInv s) (hs : step s a = some s') : DoneInv s' := by
  cases a with
  | pop =>
    simp only [step, Option.some.injEq] at hs
    subst hs; exact h
  | prod i =>
    simp only [step] at hs
    cases hth : s.ths[i]? with
    | none => simp [hth] at hs
    | some th =>
      simp only [hth] at hs
      cases htr : trans s.g i th with
      | none => simp [htr] at hs
      | some r =>
        obtain ⟨g', th'⟩ := r
        simp only [htr, Option.some.injEq] at hs
        subst hs
        intro j tj hj
        have hj' : (s.ths.set i th')[j]? = some tj := hj
        have hi : i < s.ths.length := by
          rcases Nat.lt_or_ge i s.ths.length with h | h
          · exact h
          · rw [List.getElem?_eq_none h] at hth; cases hth
        by_cases hij : i = j
        · subst hij
          have : (s.ths.set i th')[i]? = some th' := by simp [hi]
          rw [this] at hj'; cases hj'; exact trans_done _ _ _ _ _ htr
        · have : (s.ths.set i th')[j]? = s.ths[j]? := by simp [List.getElem?_set, hij]
          rw [this] at hj'; exact h j tj hj'

theorem run_done (s : St) (sched : List Act) (h : DoneInv s) : DoneInv (run s sched) := by
  induction sched generalizing s with
  | nil => exact h
  | cons a rest ih =>
    show DoneInv (run ((step s a).getD s) rest)
    cases hs : step s a with
    | none => exact ih s h
    | some s1 => exact ih s1 (step_done s s1 a h hs)

theorem init_done (progs : List (List Int)) : DoneInv (init progs) := by
  intro j th hj
  simp only [init, List.getElem?_map] at hj
  cases hp : progs[j]? with
  | none => simp [hp] at hj
  | some p => simp [hp] at hj; subst hj; exact start_done _

end MV.Model.MPSC
