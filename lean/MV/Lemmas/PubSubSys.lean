import MV.Lemmas.PubSub
/-!
# Lemmas for C10, system level: the control invariant of `MV.Model.PubSub.Sys`

`Reachable` = the states reachable from `Sys.init` by any sequence of actions that respects the two
side conditions of the API (`Allowed`):

* `UnSubscribe` is called with a handle whose (topic, id) pair is the one the subscription actor
  issued for that id (`Genuine`; every handle an actor holds is — `Inv.held` — so is every stale one),
* the link injects only link traffic (`PublishRequestBroadcast`, status changes).

`Inv` is the inductive invariant about who holds what; `Inv.rel` is the heart of
`C10_release_on_restart_terminate`: every subscription the subscription actor still has is either
recorded in its subscriber's `ctx.subscriptions` or its cancellation is already in the mailbox.
-/
namespace MV.Lemmas.PubSubSys
open MV.Model.PubSub MV.Spec.PubSub MV.Lemmas.PubSub

def isLinkMsg (e : Envelope) : Bool :=
  match e.msg with
  | .publishRequestBroadcast _ _ _ _ => true
  | .statusChanged _ _ => true
  | _ => false

/-- the handle names the topic under which the subscription actor filed that id -/
def Genuine (s : Sys) (sub : Subscription) : Prop :=
  ∀ t x, x ∈ s.sa.lookup t → x.id = sub.id → t = sub.topic

def Allowed (s : Sys) : Act → Prop
  | .unsubscribe _ sub => Genuine s sub
  | .inject e => isLinkMsg e = true
  | _ => True

/-- reachable on the node with physical address `self` -/
inductive Reachable (self : Nat) : Sys → Prop
  | init : Reachable self (Sys.init self)
  | step {s : Sys} (a : Act) : Reachable self s → Allowed s a → Reachable self (s.step a)

/-- a subscribe request on behalf of `r` -/
def isSubFor (r : Ref) (e : Envelope) : Bool :=
  match e.msg with
  | .subscribeRequest _ r' => r' == r
  | _ => false

structure Inv (s : Sys) : Prop where
  sawf : ∀ t x, x ∈ s.sa.lookup t → x.topic = t ∧ x.id ≤ s.sa.guid
  held : ∀ r x, x ∈ (s.actors r).held → x.id ≤ s.sa.guid ∧ ∀ t y, y ∈ s.sa.lookup t → y.id = x.id → y = x
  pending : ∀ r, s.saQ.countP (isSubFor r) = if (s.actors r).waiting then 1 else 0
  rel : ∀ t x, x ∈ s.sa.lookup t → x ∈ (s.actors x.subscriber).held ∨ unsubEnvelope x ∈ s.saQ
  dormant : ∀ r, (s.actors r).status ≠ .alive → (s.actors r).held = [] ∧ (s.actors r).waiting = false

/-! ### the machine step seen through `lookup` / `guid` -/

theorem lookup_subscribe (s : SubActor) (snd : Option Ref) (t : Topic) (r : Ref) (t' : Topic) :
    (onSubscribeRequest s snd t r).1.lookup t' =
      if t' = t then (s.lookup t).filter (fun x => x.id != s.guid + 1) ++ [{ topic := t, id := s.guid + 1, subscriber := r }]
      else s.lookup t' := by
  simp only [onSubscribeRequest, SubActor.lookup]
  by_cases h : t' = t
  · subst h
    have hmem : t' ∈ (if t' ∈ s.topics then s.topics else s.topics ++ [t']) := by
      by_cases ht : t' ∈ s.topics <;> simp [ht]
    simp [hmem]
  · by_cases ht : t ∈ s.topics
    · simp [h, ht]
    · simp [h, ht, List.mem_append]

theorem lookup_unsubscribe (s : SubActor) (t : Topic) (i : Nat) (t' : Topic) :
    (onUnsubscribeRequest s t i).1.lookup t' =
      if t' = t then (s.lookup t).filter (fun x => x.id != i) else s.lookup t' := by
  unfold onUnsubscribeRequest
  by_cases ht : t ∈ s.topics
  · simp only [ht, if_true, SubActor.lookup]
    by_cases h : t' = t
    · subst h; simp [ht]
    · simp [h]
  · simp only [ht, if_false]
    by_cases h : t' = t
    · subst h; simp [SubActor.lookup, ht]
    · simp [h]

theorem guid_unsubscribe (s : SubActor) (t : Topic) (i : Nat) : (onUnsubscribeRequest s t i).1.guid = s.guid := by
  unfold onUnsubscribeRequest
  by_cases ht : t ∈ s.topics <;> simp [ht]

theorem effs_unsubscribe (s : SubActor) (t : Topic) (i : Nat) : (onUnsubscribeRequest s t i).2 = [] := by
  unfold onUnsubscribeRequest
  by_cases ht : t ∈ s.topics <;> simp [ht]

theorem lookup_status (s : SubActor) (snd : Option Ref) (a : Nat) (c : Bool) (t' : Topic) :
    (onStatusChanged s snd a c).1.lookup t' = s.lookup t' ∧ (onStatusChanged s snd a c).1.guid = s.guid ∧
    (onStatusChanged s snd a c).2 = [Eff.replyNil snd] := by
  unfold onStatusChanged
  by_cases hs : a = s.self
  · simp [hs]
  · cases c <;> simp [SubActor.lookup, hs]

theorem broadcast_state (s : SubActor) (t : Topic) (p : Payload) (pub : Option Ref) (d : Bool) :
    (onPublishRequestBroadcast s t p pub d).1 = s := by
  unfold onPublishRequestBroadcast
  cases d <;> simp

/-- an effect that is not a subscribe reply -/
def plainEff : Eff → Bool
  | .replySub _ _ => false
  | _ => true

theorem broadcast_effs_plain (s : SubActor) (t : Topic) (p : Payload) (pub : Option Ref) (d : Bool) :
    ∀ e ∈ (onPublishRequestBroadcast s t p pub d).2, plainEff e = true := by
  unfold onPublishRequestBroadcast
  cases d
  · simp
  · intro e he
    simp only [if_true, fanout, List.mem_map] at he
    obtain ⟨x, _, rfl⟩ := he
    rfl

theorem publish_effs_plain (s : SubActor) (snd : Option Ref) (t : Topic) (p : Payload) :
    ∀ e ∈ (onLocalPublishRequest s snd t p).2, plainEff e = true := by
  intro e he
  simp only [onLocalPublishRequest, List.mem_append] at he
  rcases he with he | he
  · split at he
    · simp only [List.mem_map] at he
      obtain ⟨x, _, rfl⟩ := he
      rfl
    · simp at he
  · simp only [fanout, List.mem_map] at he
    obtain ⟨x, _, rfl⟩ := he
    rfl

/-! ### effects that leave the control state alone -/

/-- same subscription actor, same mailbox of it, same control part of every actor -/
def SameCtl (s s' : Sys) : Prop :=
  s'.sa = s.sa ∧ s'.saQ = s.saQ ∧ s'.processed = s.processed ∧ s'.published = s.published ∧
  ∀ r, (s'.actors r).held = (s.actors r).held ∧ (s'.actors r).waiting = (s.actors r).waiting ∧
       (s'.actors r).status = (s.actors r).status ∧ (s'.actors r).inc = (s.actors r).inc

theorem SameCtl.refl (s : Sys) : SameCtl s s := ⟨rfl, rfl, rfl, rfl, fun _ => ⟨rfl, rfl, rfl, rfl⟩⟩

theorem SameCtl.trans {a b c : Sys} (h1 : SameCtl a b) (h2 : SameCtl b c) : SameCtl a c := by
  obtain ⟨a1, a2, a3, a4, a5⟩ := h1
  obtain ⟨b1, b2, b3, b4, b5⟩ := h2
  refine ⟨b1.trans a1, b2.trans a2, b3.trans a3, b4.trans a4, fun r => ?_⟩
  obtain ⟨x1, x2, x3, x4⟩ := a5 r
  obtain ⟨y1, y2, y3, y4⟩ := b5 r
  exact ⟨y1.trans x1, y2.trans x2, y3.trans x3, y4.trans x4⟩

theorem applyEff_plain (s : Sys) (e : Eff) (h : plainEff e = true) : SameCtl s (applyEff s e) := by
  cases e with
  | deliver to snd p =>
    simp only [applyEff]
    split
    · refine ⟨rfl, rfl, rfl, rfl, fun r => ?_⟩
      simp only [Sys.setActor]
      by_cases hr : r = to
      · subst hr; simp
      · simp [hr]
    · exact ⟨rfl, rfl, rfl, rfl, fun _ => ⟨rfl, rfl, rfl, rfl⟩⟩
  | replySub _ _ => simp [plainEff] at h
  | replyNil _ => exact SameCtl.refl s
  | tellRemote _ _ _ _ => exact ⟨rfl, rfl, rfl, rfl, fun _ => ⟨rfl, rfl, rfl, rfl⟩⟩

theorem foldl_plain (effs : List Eff) (s : Sys) (h : ∀ e ∈ effs, plainEff e = true) :
    SameCtl s (effs.foldl applyEff s) := by
  induction effs generalizing s with
  | nil => exact SameCtl.refl s
  | cons e es ih =>
    simp only [List.foldl_cons]
    exact SameCtl.trans (applyEff_plain s e (h e (by simp))) (ih _ (fun x hx => h x (by simp [hx])))

theorem Inv.of_sameCtl {s s' : Sys} (hi : Inv s) (h : SameCtl s s') : Inv s' := by
  obtain ⟨h1, h2, _, _, h5⟩ := h
  constructor
  · intro t x hx; rw [h1] at hx ⊢; exact hi.sawf t x hx
  · intro r x hx; rw [(h5 r).1] at hx; rw [h1]; exact hi.held r x hx
  · intro r; rw [h2, (h5 r).2.1]; exact hi.pending r
  · intro t x hx; rw [h1] at hx; rw [h2, (h5 _).1]; exact hi.rel t x hx
  · intro r hr; rw [(h5 r).2.2.1] at hr; rw [(h5 r).1, (h5 r).2.1]; exact hi.dormant r hr

/-! ### preservation -/

theorem canAct_iff (s : Sys) (r : Ref) :
    s.canAct r = true ↔ (s.actors r).status = .alive ∧ (s.actors r).waiting = false := by
  simp [Sys.canAct]

theorem isSubFor_unsub (r : Ref) (x : Subscription) : isSubFor r (unsubEnvelope x) = false := rfl

theorem countP_unsubs (r : Ref) (l : List Subscription) : (l.map unsubEnvelope).countP (isSubFor r) = 0 := by
  induction l with
  | nil => rfl
  | cons x xs ih => simp [isSubFor_unsub, ih]

theorem inv_init (a : Nat) : Inv (Sys.init a) := by
  constructor
  · intro t x hx; simp [Sys.init, SubActor.init, SubActor.lookup] at hx
  · intro r x hx; simp [Sys.init, Actor.none] at hx
  · intro r; simp [Sys.init, Actor.none]
  · intro t x hx; simp [Sys.init, SubActor.init, SubActor.lookup] at hx
  · intro r _; simp [Sys.init, Actor.none]

theorem inv_spawn {s : Sys} (hi : Inv s) (r : Ref) : Inv (s.step (.spawn r)) := by
  simp only [Sys.step]
  split
  · rename_i hab
    have hd := hi.dormant r (by rw [hab]; decide)
    constructor
    · exact hi.sawf
    · intro r' x hx
      simp only [Sys.setActor] at hx ⊢
      by_cases h : r' = r
      · subst h; simp only [if_true] at hx; exact hi.held r' x hx
      · simp only [h, if_false] at hx; exact hi.held r' x hx
    · intro r'
      simp only [Sys.setActor]
      by_cases h : r' = r
      · subst h; simpa using hi.pending r'
      · simpa [h] using hi.pending r'
    · intro t x hx
      simp only [Sys.setActor]
      by_cases h : x.subscriber = r
      · simp only [h, if_true]; have := hi.rel t x hx; rw [h] at this; exact this
      · simp only [h, if_false]; exact hi.rel t x hx
    · intro r' hr'
      simp only [Sys.setActor] at hr' ⊢
      by_cases h : r' = r
      · subst h; simp at hr'
      · simp only [h, if_false] at hr' ⊢; exact hi.dormant r' hr'
  · exact hi

theorem inv_subscribeCall {s : Sys} (hi : Inv s) (r : Ref) (t : Topic) : Inv (s.step (.subscribeCall r t)) := by
  simp only [Sys.step]
  split
  · rename_i hc
    simp only [Bool.and_eq_true] at hc
    obtain ⟨hst, hw⟩ := (canAct_iff s r).mp hc.1
    constructor
    · exact hi.sawf
    · intro r' x hx
      simp only [Sys.setActor] at hx ⊢
      by_cases h : r' = r
      · subst h; simp only [if_true] at hx; exact hi.held r' x hx
      · simp only [h, if_false] at hx; exact hi.held r' x hx
    · intro r'
      simp only [Sys.setActor, List.countP_append, List.countP_cons, List.countP_nil]
      have := hi.pending r'
      by_cases h : r' = r
      · subst h; rw [hw] at this; simp [this, isSubFor]
      · have hne : (r == r') = false := by simp; exact fun e => h e.symm
        simp [h, this, isSubFor, hne]
    · intro t' x hx
      simp only [Sys.setActor]
      rcases hi.rel t' x hx with h1 | h1
      · left; by_cases h : x.subscriber = r
        · simp only [h, if_true]; rw [h] at h1; exact h1
        · simp only [h, if_false]; exact h1
      · right; simp [h1]
    · intro r' hr'
      simp only [Sys.setActor] at hr' ⊢
      by_cases h : r' = r
      · subst h; simp only [if_true] at hr'; exact absurd hst hr'
      · simp only [h, if_false] at hr' ⊢; exact hi.dormant r' hr'
  · exact hi

theorem inv_unsubscribe {s : Sys} (hi : Inv s) (r : Ref) (sub : Subscription) (hg : Genuine s sub) :
    Inv (s.step (.unsubscribe r sub)) := by
  simp only [Sys.step]
  split
  · rename_i hc
    obtain ⟨hst, hw⟩ := (canAct_iff s r).mp hc
    constructor
    · exact hi.sawf
    · intro r' x hx
      simp only [Sys.setActor] at hx ⊢
      by_cases h : r' = r
      · subst h; simp only [if_true, List.mem_filter] at hx; exact hi.held r' x hx.1
      · simp only [h, if_false] at hx; exact hi.held r' x hx
    · intro r'
      simp only [Sys.setActor, List.countP_append, List.countP_cons, List.countP_nil, isSubFor_unsub]
      have := hi.pending r'
      by_cases h : r' = r
      · subst h; simpa using this
      · simpa [h] using this
    · intro t' x hx
      simp only [Sys.setActor]
      rcases hi.rel t' x hx with h1 | h1
      · by_cases h : x.subscriber = r
        · simp only [h, if_true, List.mem_filter]
          rw [h] at h1
          by_cases hid : x.id = sub.id
          · right
            have ht := hg t' x hx hid
            have hxt := (hi.sawf t' x hx).1
            have : unsubEnvelope x = unsubEnvelope sub := by
              simp [unsubEnvelope, hid, hxt, ht]
            simp [this]
          · left; exact ⟨h1, by simpa using hid⟩
        · left; simp only [h, if_false]; exact h1
      · right; simp [h1]
    · intro r' hr'
      simp only [Sys.setActor] at hr' ⊢
      by_cases h : r' = r
      · subst h; simp only [if_true] at hr'; exact absurd hst hr'
      · simp only [h, if_false] at hr' ⊢; exact hi.dormant r' hr'
  · exact hi

theorem inv_enqueue {s : Sys} (hi : Inv s) (e : Envelope) (hne : ∀ r, isSubFor r e = false) (pub : List (Ref × Topic × Payload)) :
    Inv { s with saQ := s.saQ ++ [e], published := pub } := by
  constructor
  · exact hi.sawf
  · exact hi.held
  · intro r; simp only [List.countP_append, List.countP_cons, List.countP_nil, hne r]; simpa using hi.pending r
  · intro t x hx; rcases hi.rel t x hx with h | h
    · left; exact h
    · right; simp [h]
  · exact hi.dormant

theorem inv_publish {s : Sys} (hi : Inv s) (r : Ref) (t : Topic) (p : Payload) : Inv (s.step (.publish r t p)) := by
  simp only [Sys.step]
  split
  · exact inv_enqueue hi _ (fun _ => rfl) _
  · exact hi

theorem inv_inject {s : Sys} (hi : Inv s) (e : Envelope) (h : isLinkMsg e = true) : Inv (s.step (.inject e)) := by
  simp only [Sys.step]
  have hne : ∀ r, isSubFor r e = false := by
    intro r; cases hm : e.msg <;> simp_all [isSubFor, isLinkMsg]
  have := inv_enqueue hi e hne s.published
  exact this

theorem inv_handle {s : Sys} (hi : Inv s) (r : Ref) : Inv (s.step (.handle r)) := by
  simp only [Sys.step]
  split
  · exact hi
  · split
    · exact hi
    · split
      · apply hi.of_sameCtl
        refine ⟨rfl, rfl, rfl, rfl, fun r' => ?_⟩
        simp only [Sys.setActor]
        by_cases h : r' = r
        · subst h; simp
        · simp [h]
      · apply hi.of_sameCtl
        refine ⟨rfl, rfl, rfl, rfl, fun r' => ?_⟩
        simp only [Sys.setActor]
        by_cases h : r' = r
        · subst h; simp
        · simp [h]

/-- `release`: the cancellations of everything held are enqueued, nothing is held any more; `a` is
    the actor's record with a new incarnation number or the status `terminated` -/
theorem inv_release {s : Sys} (hi : Inv s) (r : Ref) (a : Actor)
    (hheld : a.held = (s.actors r).held) (hw : a.waiting = false) (hw0 : (s.actors r).waiting = false) :
    Inv (release s r a) := by
  constructor
  · exact hi.sawf
  · intro r' x hx
    simp only [release, Sys.setActor] at hx ⊢
    by_cases h : r' = r
    · subst h; simp at hx
    · simp only [h, if_false] at hx; exact hi.held r' x hx
  · intro r'
    simp only [release, Sys.setActor, List.countP_append, countP_unsubs, Nat.add_zero]
    have := hi.pending r'
    by_cases h : r' = r
    · subst h; simp only [if_true, hw]; rw [hw0] at this; exact this
    · simpa [h] using this
  · intro t x hx
    simp only [release, Sys.setActor]
    rcases hi.rel t x hx with h1 | h1
    · by_cases h : x.subscriber = r
      · right
        rw [h] at h1
        simp only [List.mem_append, List.mem_map]
        right; exact ⟨x, by rw [hheld]; exact h1, rfl⟩
      · left; simp only [h, if_false]; exact h1
    · right; simp [h1]
  · intro r' hr'
    simp only [release, Sys.setActor] at hr' ⊢
    by_cases h : r' = r
    · subst h; simp [hw]
    · simp only [h, if_false] at hr' ⊢; exact hi.dormant r' hr'

theorem inv_restart {s : Sys} (hi : Inv s) (r : Ref) : Inv (s.step (.restart r)) := by
  simp only [Sys.step]
  split
  · rename_i hc
    obtain ⟨_, hw⟩ := (canAct_iff s r).mp hc
    exact inv_release hi r _ rfl hw hw
  · exact hi

theorem inv_terminate {s : Sys} (hi : Inv s) (r : Ref) : Inv (s.step (.terminate r)) := by
  simp only [Sys.step]
  split
  · rename_i hc
    obtain ⟨_, hw⟩ := (canAct_iff s r).mp hc
    exact inv_release hi r _ rfl hw hw
  · exact hi

/-- the subscription actor takes an envelope that is no subscribe request: its `lookup` can only
    shrink, and never loses a subscription whose cancellation is not this very envelope -/
theorem inv_pop {s : Sys} (hi : Inv s) (e : Envelope) (rest : List Envelope) (hq : s.saQ = e :: rest)
    (sa' : SubActor) (hg : sa'.guid = s.sa.guid)
    (hl : ∀ t x, x ∈ sa'.lookup t → x ∈ s.sa.lookup t ∧ unsubEnvelope x ≠ e)
    (hne : ∀ r, isSubFor r e = false) (p : List Envelope) :
    Inv { s with sa := sa', saQ := rest, processed := p } := by
  constructor
  · intro t x hx; rw [hg]; exact hi.sawf t x (hl t x hx).1
  · intro r x hx
    obtain ⟨h1, h2⟩ := hi.held r x hx
    refine ⟨by rw [hg]; exact h1, fun t y hy => h2 t y (hl t y hy).1⟩
  · intro r
    have := hi.pending r
    rw [hq, List.countP_cons, hne r] at this
    simpa using this
  · intro t x hx
    obtain ⟨h1, h2⟩ := hl t x hx
    rcases hi.rel t x h1 with h | h
    · left; exact h
    · right
      rw [hq] at h
      simp only [List.mem_cons] at h
      rcases h with h | h
      · exact absurd h h2
      · exact h
  · exact hi.dormant

theorem inv_saStep {s : Sys} (hi : Inv s) : Inv (s.step .saStep) := by
  simp only [Sys.step]
  split
  · exact hi
  · rename_i e rest hq
    cases hm : e.msg with
    | subscribeRequest t r =>
      -- the reply completes the subscriber's pending `Subscribe`
      have hp := hi.pending r
      rw [hq, List.countP_cons] at hp
      have hsub : isSubFor r e = true := by simp [isSubFor, hm]
      rw [hsub] at hp
      have hw : (s.actors r).waiting = true := by
        cases h : (s.actors r).waiting
        · rw [h] at hp; simp at hp
        · rfl
      have hrest : rest.countP (isSubFor r) = 0 := by rw [hw] at hp; simpa using hp
      have halive : (s.actors r).status = .alive := by
        apply Classical.byContradiction
        intro hna
        have := (hi.dormant r hna).2
        rw [hw] at this; cases this
      simp only [SubActor.step, hm, onSubscribeRequest, List.foldl_cons, List.foldl_nil, applyEff, Sys.setActor, hw, if_true]
      have hlk := lookup_subscribe s.sa e.sender t r
      simp only [onSubscribeRequest] at hlk
      constructor
      · intro t' x hx
        simp only at hx ⊢
        rw [hlk t'] at hx
        by_cases h : t' = t
        · subst h
          simp only [if_true, List.mem_append, List.mem_filter, List.mem_singleton] at hx
          rcases hx with hx | hx
          · have := hi.sawf t' x hx.1; exact ⟨this.1, by omega⟩
          · subst hx; exact ⟨rfl, Nat.le_refl _⟩
        · simp only [h, if_false] at hx
          have := hi.sawf t' x hx; exact ⟨this.1, by omega⟩
      · intro r' x hx
        simp only at hx ⊢
        have old : ∀ x, x ∈ (s.actors r').held → x.id ≤ s.sa.guid + 1 ∧
            ∀ t' y, y ∈ (if t' = t then (s.sa.lookup t).filter (fun x => x.id != s.sa.guid + 1) ++
              [{ topic := t, id := s.sa.guid + 1, subscriber := r }] else s.sa.lookup t') → y.id = x.id → y = x := by
          intro x hx
          obtain ⟨h1, h2⟩ := hi.held r' x hx
          refine ⟨by omega, ?_⟩
          intro t' y hy hid
          by_cases h : t' = t
          · subst h
            simp only [if_true, List.mem_append, List.mem_filter, List.mem_singleton] at hy
            rcases hy with hy | hy
            · exact h2 t' y hy.1 hid
            · subst hy; simp at hid; omega
          · simp only [h, if_false] at hy; exact h2 t' y hy hid
        by_cases h : r' = r
        · subst h
          simp only [if_true, List.mem_append, List.mem_filter, List.mem_singleton] at hx
          rcases hx with hx | hx
          · obtain ⟨h1, h2⟩ := old x hx.1
            exact ⟨h1, fun t' y hy => h2 t' y (by rw [← hlk t']; exact hy)⟩
          · subst hx
            refine ⟨Nat.le_refl _, ?_⟩
            intro t' y hy hid
            rw [hlk t'] at hy
            by_cases h : t' = t
            · subst h
              simp only [if_true, List.mem_append, List.mem_filter, List.mem_singleton] at hy
              rcases hy with hy | hy
              · have := (hi.sawf t' y hy.1).2; simp at hid; omega
              · exact hy
            · simp only [h, if_false] at hy
              have := (hi.sawf t' y hy).2; simp at hid; omega
        · simp only [h, if_false] at hx
          obtain ⟨h1, h2⟩ := old x hx
          exact ⟨h1, fun t' y hy => h2 t' y (by rw [← hlk t']; exact hy)⟩
      · intro r'
        simp only
        have hp' := hi.pending r'
        rw [hq, List.countP_cons] at hp'
        by_cases h : r' = r
        · subst h; simp [hrest]
        · have : isSubFor r' e = false := by
            simp only [isSubFor, hm]
            simpa using fun e => h e.symm
          rw [this] at hp'
          simpa [h] using hp'
      · intro t' x hx
        simp only at hx ⊢
        rw [hlk t'] at hx
        have oldcase : x ∈ s.sa.lookup t' → (x ∈ (if x.subscriber = r then
            { (s.actors r) with held := (s.actors r).held.filter (fun y => y.id != s.sa.guid + 1) ++
              [{ topic := t, id := s.sa.guid + 1, subscriber := r }], waiting := false } else s.actors x.subscriber).held) ∨
            unsubEnvelope x ∈ rest := by
          intro hx
          rcases hi.rel t' x hx with h1 | h1
          · left
            by_cases h : x.subscriber = r
            · simp only [h, if_true, List.mem_append, List.mem_filter]
              left
              rw [h] at h1
              have := (hi.sawf t' x hx).2
              exact ⟨h1, by simp; omega⟩
            · simp only [h, if_false]; exact h1
          · right
            rw [hq] at h1
            simp only [List.mem_cons] at h1
            rcases h1 with h1 | h1
            · have := congrArg Envelope.msg h1
              simp [unsubEnvelope, hm] at this
            · exact h1
        by_cases h : t' = t
        · subst h
          simp only [if_true, List.mem_append, List.mem_filter, List.mem_singleton] at hx
          rcases hx with hx | hx
          · exact oldcase hx.1
          · subst hx; left; simp
        · simp only [h, if_false] at hx; exact oldcase hx
      · intro r' hr'
        simp only at hr' ⊢
        by_cases h : r' = r
        · subst h; simp only [if_true] at hr'; exact absurd halive hr'
        · simp only [h, if_false] at hr' ⊢; exact hi.dormant r' hr'
    | unsubscribeRequest t i =>
      simp only [SubActor.step, hm, effs_unsubscribe, List.foldl_nil]
      apply inv_pop hi e rest hq _ (guid_unsubscribe _ _ _)
      · intro t' x hx
        rw [lookup_unsubscribe] at hx
        by_cases h : t' = t
        · subst h
          simp only [if_true, List.mem_filter] at hx
          refine ⟨hx.1, ?_⟩
          intro heq
          have := congrArg Envelope.msg heq
          simp only [unsubEnvelope, hm] at this
          injection this with _ h2
          have := hx.2; simp [h2] at this
        · simp only [h, if_false] at hx
          refine ⟨hx, ?_⟩
          intro heq
          have := congrArg Envelope.msg heq
          simp only [unsubEnvelope, hm] at this
          injection this with h1 _
          exact h (by rw [← (hi.sawf t' x hx).1, h1])
      · intro r; simp [isSubFor, hm]
    | publishRequestBroadcast t p pub d =>
      simp only [SubActor.step, hm]
      apply Inv.of_sameCtl _ (foldl_plain _ _ (broadcast_effs_plain _ _ _ _ _))
      rw [broadcast_state]
      apply inv_pop hi e rest hq _ rfl
      · intro t' x hx
        refine ⟨hx, ?_⟩
        intro heq; have := congrArg Envelope.msg heq; simp [unsubEnvelope, hm] at this
      · intro r; simp [isSubFor, hm]
    | localPublishRequest t p =>
      simp only [SubActor.step, hm]
      apply Inv.of_sameCtl _ (foldl_plain _ _ (publish_effs_plain _ _ _ _))
      apply inv_pop hi e rest hq _ rfl
      · intro t' x hx
        refine ⟨hx, ?_⟩
        intro heq; have := congrArg Envelope.msg heq; simp [unsubEnvelope, hm] at this
      · intro r; simp [isSubFor, hm]
    | statusChanged a c =>
      simp only [SubActor.step, hm]
      have h3 := (lookup_status s.sa e.sender a c 0).2
      rw [h3.2]
      apply Inv.of_sameCtl _ (foldl_plain _ _ (by intro x hx; simp at hx; subst hx; rfl))
      apply inv_pop hi e rest hq _ h3.1
      · intro t' x hx
        rw [(lookup_status s.sa e.sender a c t').1] at hx
        refine ⟨hx, ?_⟩
        intro heq; have := congrArg Envelope.msg heq; simp [unsubEnvelope, hm] at this
      · intro r; simp [isSubFor, hm]
    | other =>
      simp only [SubActor.step, hm, List.foldl_nil]
      apply inv_pop hi e rest hq _ rfl
      · intro t' x hx
        refine ⟨hx, ?_⟩
        intro heq; have := congrArg Envelope.msg heq; simp [unsubEnvelope, hm] at this
      · intro r; simp [isSubFor, hm]

theorem inv_step {s : Sys} (hi : Inv s) (a : Act) (ha : Allowed s a) : Inv (s.step a) := by
  cases a with
  | spawn r => exact inv_spawn hi r
  | subscribeCall r t => exact inv_subscribeCall hi r t
  | unsubscribe r sub => exact inv_unsubscribe hi r sub ha
  | publish r t p => exact inv_publish hi r t p
  | saStep => exact inv_saStep hi
  | handle r => exact inv_handle hi r
  | restart r => exact inv_restart hi r
  | terminate r => exact inv_terminate hi r
  | inject e => exact inv_inject hi e ha

theorem inv_reachable {self : Nat} {s : Sys} (h : Reachable self s) : Inv s := by
  induction h with
  | init => exact inv_init self
  | step a _ ha ih => exact inv_step ih a ha

end MV.Lemmas.PubSubSys
