import MV.Lemmas.C16Common
import MV.Spec.FinMap
/-!
# Finite-map laws and the refinement of `SyncMap` / `Bucket` to the finite-map specification
-/
namespace MV.Spec.FinMap
open MV.Model

theorem lookup_eq_get (m : M) (k : Int) : lookup m k = FMap.get m k := rfl
theorem remove_eq_del (m : M) (k : Int) : remove m k = FMap.del m k := rfl
theorem put_eq_set (m : M) (k v : Int) : put m k v = FMap.set m k v := rfl

/-- **finite-map laws**: the spec state is observed through `lookup` only -/
theorem lookup_put (m : M) (k v k' : Int) : lookup (put m k v) k' = if k' = k then some v else lookup m k' :=
  FMap.get_set m k v k'

theorem lookup_remove (m : M) (k k' : Int) : lookup (remove m k) k' = if k' = k then none else lookup m k' :=
  FMap.get_del m k k'

theorem lookup_empty (k : Int) : lookup [] k = none := rfl

/-- removing an absent key changes nothing (not even the representation) -/
theorem remove_absent (m : M) (k : Int) (h : lookup m k = none) : remove m k = m := by
  unfold remove
  rw [List.filter_eq_self]
  intro a ha
  have : a.1 ≠ k := by
    intro e
    have hm : k ∈ FMap.keyList m := by rw [← e]; exact List.mem_map_of_mem (f := (·.1)) ha
    rw [FMap.mem_keyList_iff, ← lookup_eq_get, h] at hm
    simp at hm
  simp [this]

def NodupKeys (m : M) : Prop := (FMap.keyList m).Nodup

theorem nodup_put (m : M) (k v : Int) (h : NodupKeys m) : NodupKeys (put m k v) := FMap.nodup_set m k v h
theorem nodup_remove (m : M) (k : Int) (h : NodupKeys m) : NodupKeys (remove m k) := FMap.nodup_del m k h

/-- size of a duplicate-free map after a removal -/
theorem length_remove (m : M) (k : Int) (h : NodupKeys m) :
    (remove m k).length = if (lookup m k).isSome then m.length - 1 else m.length := by
  induction m with
  | nil => simp [remove, lookup]
  | cons e m ih =>
    have hx := List.nodup_cons.mp (show (e.1 :: FMap.keyList m).Nodup from h)
    have ih := ih hx.2
    rw [lookup_eq_get, FMap.get_cons]
    unfold remove at ih ⊢
    rw [List.filter_cons]
    by_cases he : e.1 = k
    · have hb : (e.1 != k) = false := by simp [he]
      have habs : lookup m k = none := by
        rw [lookup_eq_get]
        cases hg : FMap.get m k with
        | none => rfl
        | some v =>
          exfalso; apply hx.1; rw [he, FMap.mem_keyList_iff, hg]; rfl
      simp only [he, if_true, Option.isSome_some]
      have := remove_absent m k habs
      unfold remove at this
      rw [this]; simp
    · have hb : (e.1 != k) = true := by simp [he]
      have hne : ¬ k = e.1 := fun x => he x.symm
      simp only [hb, if_true, hne, if_false, List.length_cons, ih, ← lookup_eq_get]
      split
      · rename_i hs
        have : 0 < m.length := by
          cases m with
          | nil => simp [lookup] at hs
          | cons _ _ => simp
        omega
      · rfl

theorem length_put (m : M) (k v : Int) (h : NodupKeys m) :
    (put m k v).length = if (lookup m k).isSome then m.length else m.length + 1 := by
  unfold put
  rw [List.length_cons, length_remove m k h]
  split
  · rename_i hs
    have : 0 < m.length := by
      cases m with
      | nil => simp [lookup] at hs
      | cons _ _ => simp
    omega
  · rfl

end MV.Spec.FinMap

namespace MV.Model.SyncMap
open MV.Spec.FinMap

/-- every `SyncMap` method is the corresponding finite-map operation -/
theorem step_eq_spec (m : FMap) (op : Op) : step m op = stepSync m op := by
  cases op <;> try rfl
  case deleteExist k =>
    simp only [step, stepSync]
    cases h : FMap.get m k with
    | some v => simp [lookup_eq_get, h, remove_eq_del]
    | none =>
      have := remove_absent m k (by rw [lookup_eq_get]; exact h)
      simp [lookup_eq_get, h, this]

theorem run_eq_spec (m : FMap) (ops : List Op) : run m ops = runSync m ops := by
  induction ops generalizing m with
  | nil => rfl
  | cons op ops ih =>
    unfold run runSync
    rw [step_eq_spec]
    simp only [ih]

theorem nodup_step (m : FMap) (op : Op) (h : NodupKeys m) : NodupKeys (step m op).1 := by
  cases op <;> simp only [step] <;>
    first
    | exact h
    | exact FMap.nodup_set _ _ _ h
    | exact FMap.nodup_del _ _ h
    | exact List.nodup_nil
    | (split <;> first | exact h | exact FMap.nodup_del _ _ h)
    | exact FMap.nodup_del _ _ (FMap.nodup_set _ _ _ h)

end MV.Model.SyncMap
