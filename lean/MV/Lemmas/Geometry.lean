import MV.Spec.Geometry
import Mathlib.Tactic.Linarith
import Mathlib.Tactic.Ring
import Mathlib.Tactic.FieldSimp
import Mathlib.Tactic.LinearCombination
import Mathlib.Analysis.Real.Sqrt
namespace MV.Lemmas.Geometry
open MV.Model.Geometry MV.Spec.Geometry

theorem clamp_mem (v : ℚ) : 0 ≤ clamp v 0 1 ∧ clamp v 0 1 ≤ 1 := by
  unfold clamp; split_ifs <;> constructor <;> linarith

theorem clamp_cases (v : ℚ) : (v < 0 ∧ clamp v 0 1 = 0) ∨ (1 < v ∧ clamp v 0 1 = 1) ∨ (0 ≤ v ∧ v ≤ 1 ∧ clamp v 0 1 = v) := by
  unfold clamp; split_ifs with h1 h2
  · exact Or.inl ⟨h1, rfl⟩
  · exact Or.inr (Or.inl ⟨h2, rfl⟩)
  · exact Or.inr (Or.inr ⟨by linarith, by linarith, rfl⟩)

theorem distSq_eq_zero (a b : Pt) (h : distSq a b = 0) : a = b := by
  unfold distSq Model.Geometry.sq at h
  have h1 : b.x - a.x = 0 := by nlinarith [mul_self_nonneg (b.x - a.x), mul_self_nonneg (b.y - a.y)]
  have h2 : b.y - a.y = 0 := by nlinarith [mul_self_nonneg (b.x - a.x), mul_self_nonneg (b.y - a.y)]
  cases a; cases b; simp at *; constructor <;> linarith

theorem closest_on_segment (a b p : Pt) : OnSeg a b (closestPoint a b p) := by
  unfold closestPoint
  by_cases hds : distSq a b = 0
  · simp only [hds, if_true]
    exact ⟨0, le_refl _, by norm_num, by simp [lerp]⟩
  · simp only [hds, if_false]
    exact ⟨_, (clamp_mem _).1, (clamp_mem _).2, rfl⟩

theorem closest_minimal (a b p : Pt) (s : ℚ) (hs0 : 0 ≤ s) (hs1 : s ≤ 1) :
    distSq p (closestPoint a b p) ≤ distSq p (lerp a b s) := by
  unfold closestPoint
  by_cases hds : distSq a b = 0
  · have hab := distSq_eq_zero a b hds
    subst hab
    simp [hds, lerp]
  · simp only [hds, if_false]
    have hpos : 0 < distSq a b := by
      have : 0 ≤ distSq a b := by unfold distSq Model.Geometry.sq; nlinarith [mul_self_nonneg (b.x - a.x), mul_self_nonneg (b.y - a.y)]
      exact lt_of_le_of_ne this (Ne.symm hds)
    set ds := distSq a b with hdsdef
    set num := (p.x - a.x) * (b.x - a.x) + (p.y - a.y) * (b.y - a.y) with hnum
    have ht0 : num / ds * ds = num := by field_simp
    have hdsv : ds = (b.x - a.x) * (b.x - a.x) + (b.y - a.y) * (b.y - a.y) := by simp [hdsdef, distSq, Model.Geometry.sq]
    -- f(s) - f(t) = ds * (s - t) * (s + t - 2 t0)
    have key : ∀ t : ℚ, distSq p (lerp a b s) - distSq p ⟨a.x + t * (b.x - a.x), a.y + t * (b.y - a.y)⟩
        = ds * (s - t) * (s + t) - 2 * num * (s - t) := by
      intro t; simp only [distSq, Model.Geometry.sq, lerp, hdsv, hnum]; ring
    rcases clamp_cases (num / ds) with ⟨h1, h2⟩ | ⟨h1, h2⟩ | ⟨h1, h2, h3⟩
    · rw [h2]
      have := key 0
      have hneg : num < 0 := by
        have := mul_neg_of_neg_of_pos h1 hpos; rwa [ht0] at this
      nlinarith [mul_nonneg hpos.le (mul_self_nonneg s), mul_nonneg hs0 (neg_nonneg.2 hneg.le)]
    · rw [h2]
      have := key 1
      have hgt : ds < num := by
        have := mul_lt_mul_of_pos_right h1 hpos; rwa [ht0, one_mul] at this
      nlinarith [mul_nonneg hpos.le (mul_self_nonneg (s - 1)), mul_nonneg (sub_nonneg.2 hs1) (sub_nonneg.2 hgt.le)]
    · rw [h3]
      have := key (num / ds)
      have e : ds * (s - num / ds) * (s + num / ds) - 2 * num * (s - num / ds) = ds * (s - num / ds) * (s - num / ds) := by
        field_simp; ring
      nlinarith [mul_nonneg hpos.le (mul_self_nonneg (s - num / ds))]


theorem distSq_nonneg (a b : Pt) : 0 ≤ distSq a b := by
  unfold distSq Model.Geometry.sq; nlinarith [mul_self_nonneg (b.x - a.x), mul_self_nonneg (b.y - a.y)]

theorem lerp_bbox (u v t : ℚ) (h0 : 0 ≤ t) (h1 : t ≤ 1) :
    min u v ≤ u + t * (v - u) ∧ u + t * (v - u) ≤ max u v := by
  rcases le_total u v with h | h
  · rw [min_eq_left h, max_eq_right h]; constructor <;> nlinarith
  · rw [min_eq_right h, max_eq_left h]; constructor <;> nlinarith

theorem onSegment_of_onSeg (a b p : Pt) (h : OnSeg a b p) : isPointOnSegment a b p = true := by
  obtain ⟨t, h0, h1, rfl⟩ := h
  have hA : distSq (lerp a b t) a = t * t * distSq a b := by simp only [distSq, Model.Geometry.sq, lerp]; ring
  have hB : distSq (lerp a b t) b = (1 - t) * (1 - t) * distSq a b := by simp only [distSq, Model.Geometry.sq, lerp]; ring
  have hC := distSq_nonneg a b
  have bx := lerp_bbox a.x b.x t h0 h1
  have by' := lerp_bbox a.y b.y t h0 h1
  unfold isPointOnSegment sqrtSumEq
  rw [hA, hB]
  have e1 : t * t * distSq a b + (1 - t) * (1 - t) * distSq a b ≤ distSq a b := by nlinarith [mul_nonneg (mul_nonneg h0 (sub_nonneg.2 h1)) hC]
  have e2 : Model.Geometry.sq (distSq a b - t * t * distSq a b - (1 - t) * (1 - t) * distSq a b) =
      4 * (t * t * distSq a b) * ((1 - t) * (1 - t) * distSq a b) := by unfold Model.Geometry.sq; ring
  simp only [lerp, decide_eq_true e1, decide_eq_true e2, Bool.and_self, Bool.not_true, Bool.false_eq_true, if_false,
    ge_iff_le, Bool.and_eq_true, decide_eq_true_eq]
  exact ⟨⟨bx.1, decide_eq_true bx.2⟩, by'.1, decide_eq_true by'.2⟩

theorem onSeg_of_onSegment (a b p : Pt) (h : isPointOnSegment a b p = true) : OnSeg a b p := by
  unfold isPointOnSegment sqrtSumEq at h
  by_cases hc : (decide (distSq p a + distSq p b ≤ distSq a b) &&
      decide (Model.Geometry.sq (distSq a b - distSq p a - distSq p b) = 4 * distSq p a * distSq p b)) = true
  swap
  · simp only [hc, Bool.not_false, if_true] at h; exact absurd h (by simp)
  simp only [Bool.and_eq_true, decide_eq_true_eq] at hc
  obtain ⟨hle, hsq⟩ := hc
  -- u = p - a, v = b - p
  have hcross : (p.x - a.x) * (b.y - p.y) - (p.y - a.y) * (b.x - p.x) = 0 := by
    have : ((p.x - a.x) * (b.y - p.y) - (p.y - a.y) * (b.x - p.x)) ^ 2 = 0 := by
      simp only [distSq, Model.Geometry.sq] at hsq; nlinarith
    exact pow_eq_zero_iff (by norm_num) |>.1 this
  have hdot : 0 ≤ (p.x - a.x) * (b.x - p.x) + (p.y - a.y) * (b.y - p.y) := by
    simp only [distSq, Model.Geometry.sq] at hle; nlinarith
  by_cases hC : distSq a b = 0
  · have hab := distSq_eq_zero a b hC; subst hab
    have hA : distSq p a = 0 := by nlinarith [distSq_nonneg p a]
    have := distSq_eq_zero p a hA; subst this
    exact ⟨0, le_refl _, by norm_num, by simp [lerp]⟩
  · have hpos : 0 < distSq a b := lt_of_le_of_ne (distSq_nonneg a b) (Ne.symm hC)
    refine ⟨((p.x - a.x) * (b.x - a.x) + (p.y - a.y) * (b.y - a.y)) / distSq a b, ?_, ?_, ?_⟩
    · apply div_nonneg _ hpos.le
      nlinarith [mul_self_nonneg (p.x - a.x), mul_self_nonneg (p.y - a.y)]
    · rw [div_le_one hpos]
      simp only [distSq, Model.Geometry.sq]
      nlinarith [mul_self_nonneg (b.x - p.x), mul_self_nonneg (b.y - p.y)]
    · have hds : distSq a b = (b.x - a.x) * (b.x - a.x) + (b.y - a.y) * (b.y - a.y) := by simp [distSq, Model.Geometry.sq]
      cases p with
      | mk px py =>
        simp only [lerp, Pt.mk.injEq] at *
        constructor
        · field_simp
          rw [hds]; linear_combination (b.y - a.y) * hcross
        · field_simp
          rw [hds]; linear_combination (-(b.x - a.x)) * hcross

end MV.Lemmas.Geometry
