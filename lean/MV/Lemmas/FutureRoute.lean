import MV.Lemmas.Future
/-!
# Invariants of the future model, part 2: routing by address and the shape of results
-/
namespace MV.Model.Future
open MV.Model.Conc

variable {c : Cfg}

/-- the reply `r` answers a request that carried the address of future `k` -/
def routeOK (g : G) (k : Nat) (r : Reply) : Prop :=
  r.tag < g.nfut ∧ (g.futs r.tag).addr = (g.futs k).addr

def errOK (g : G) (k : Nat) (e : Option Err) : Prop :=
  ∀ t v, e = some (.reply t v) → t < g.nfut ∧ (g.futs t).addr = (g.futs k).addr

def msgOK (g : G) (k : Nat) (m : Option Reply) : Prop :=
  ∀ r, m = some r → routeOK g k r

/-- a reason passed to `Close` by a caller is not a reply error -/
def closeOK (e : Option Err) : Prop := ∀ t v, e ≠ some (.reply t v)

def route (g : G) : PC → Prop
  | .dLoad k r | .dMsg k r => routeOK g k r
  | .cas k e m | .setRes k e m => errOK g k e ∧ msgOK g k m
  | .close _ e => closeOK e
  | _ => True

/-- **routing**: whatever is on its way into future `k`, and whatever is stored in it, was sent to
the address of `k` -/
def RouteInv (s : State) : Prop :=
  (∀ x ∈ s.ths, route s.g x) ∧
  ∀ k, k < s.g.nfut → msgOK s.g k (s.g.futs k).msg ∧ errOK s.g k (s.g.futs k).err

theorem route_mono (g g' : G) (hm : Mono g g') (x : PC) (hb : bnd g.nfut x) (hx : route g x) : route g' x := by
  have h1 := hm.addr; have h2 := hm.nfut
  cases x <;> simp only [route, bnd, errOK, msgOK, routeOK] at * <;> grind

theorem route_step (S : Sys G PC) (hS : S.trans = trans c) (s s' : State) (i : Nat)
    (hr : RegInv s) (hb : BndInv s) (h : RouteInv s) (hs : step S s i = some s') : RouteInv s' := by
  obtain ⟨pc, pc', sp, hpc, ht, hmem, -⟩ := step_spec2 S s s' i hs
  have hb1 := hb pc hpc
  have hs1 := h.1 pc hpc
  rw [hS] at ht
  have hm := trans_mono _ _ _ _ _ ht
  constructor
  · intro x hx
    rcases hmem x hx with rfl | hx | hx
    · clear hmem
      have hst := h.2
      unfold RegInv at hr
      split_trans
      all_goals (
        take_ht
        simp only [route, errOK, msgOK, routeOK, closeOK, bnd, upd, execFwd] at *
        (try grind))
    · clear hmem
      split_trans
      all_goals (
        obtain ⟨hg, hp, hsp⟩ := ht; subst hp; subst hsp
        simp only [List.mem_cons, List.not_mem_nil, or_false] at hx
        (try (subst hx; simp only [route])))
    · exact route_mono _ _ hm x (hb x hx) (h.1 x hx)
  · intro k hk
    clear hmem
    by_cases hk0 : k < s.g.nfut
    · have h2 := h.2 k hk0
      have h3 := h.2
      split_trans
      all_goals (
        take_ht
        simp only [route, errOK, msgOK, routeOK, bnd, upd, execFwd] at *
        (try grind))
    · split_trans
      all_goals (
        obtain ⟨hg, hp, hsp⟩ := ht; subst hp; subst hsp; rw [← hg] at hk ⊢
        simp only [upd, execFwd, msgOK, errOK, routeOK] at *
        (try grind))

/-! ## shape of a completion: a value comes without error and is not a Go `error` -/

def shapeOK (e : Option Err) (m : Option Reply) : Prop :=
  ∀ r, m = some r → e = none ∧ r.isErr = false

def shape : PC → Prop
  | .cas _ e m | .setRes _ e m => shapeOK e m
  | _ => True

def ShapeInv (s : State) : Prop :=
  (∀ x ∈ s.ths, shape x) ∧ ∀ k, shapeOK (s.g.futs k).err (s.g.futs k).msg

theorem shape_step (hu : c.unwrapErr = true) (hw : c.winnerWrites = true)
    (S : Sys G PC) (hS : S.trans = trans c) (s s' : State) (i : Nat)
    (h : ShapeInv s) (hs : step S s i = some s') : ShapeInv s' := by
  obtain ⟨pc, pc', sp, hpc, ht, hmem, -⟩ := step_spec2 S s s' i hs
  have hs1 := h.1 pc hpc
  rw [hS] at ht
  constructor
  · intro x hx
    rcases hmem x hx with rfl | hx | hx
    · clear hmem
      split_trans
      all_goals (
        take_ht
        simp only [shape, shapeOK] at *
        (try grind))
    · clear hmem
      split_trans
      all_goals (
        obtain ⟨hg, hp, hsp⟩ := ht; subst hp; subst hsp
        simp only [List.mem_cons, List.not_mem_nil, or_false] at hx
        (try (subst hx; simp only [shape])))
    · exact h.1 x hx
  · intro k
    have h2 := h.2 k
    clear hmem
    split_trans
    all_goals (
      take_ht
      simp only [shape, shapeOK, upd, execFwd] at *
      (try grind))

end MV.Model.Future
