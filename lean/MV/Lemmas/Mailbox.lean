import MV.Model.Mailbox
import MV.Spec.Mailbox
/-!
# Invariants of the mailbox model (all interleavings, any number of threads)
-/
namespace MV.Model.Mailbox
open MV.Model.Conc

/-- runner program counters that own the `running` status: from the successful CAS (the spawned
runner starts at `spop`) up to, not including, the effect of `Store(idle)` -/
def owns : PC → Bool
  | .spop | .sdec _ | .chksusp | .upop | .udec _ | .hEnter _ _ | .hIn _ _ | .acc | .idle => true
  | _ => false

def inHandler : PC → Bool
  | .hIn _ _ => true
  | _ => false

/-- owns, but not inside the handler -/
def ownsOut : PC → Bool
  | .spop | .sdec _ | .chksusp | .upop | .udec _ | .hEnter _ _ | .acc | .idle => true
  | _ => false

def runFlag (g : G) : Nat := if g.running then 1 else 0

/-- **Gate invariant**: exactly one owner while the status is `running`, none while `idle`. -/
def GateInv (s : State) : Prop := s.ths.countP owns = runFlag s.g

theorem gate_step (s s' : State) (i : Nat) (h : GateInv s) (hs : step sys s i = some s') : GateInv s' := by
  obtain ⟨pc, pc', sp, hpc, ht, _, hc⟩ := step_spec sys s s' i hs
  have k := hc owns
  have hpos := fun hp => countP_pos_of_getElem? s.ths i pc owns hpc hp
  unfold GateInv runFlag at *
  simp only [sys] at ht
  cases pc <;> simp only [trans] at ht
  all_goals (try split at ht)
  all_goals
    simp only [Option.some.injEq, Prod.mk.injEq, reduceCtorEq] at ht
  all_goals (try (
    obtain ⟨hg, hp, hsp⟩ := ht; subst hp; subst hsp; rw [← hg]
    (try have hp1 := hpos (by rfl))
    simp only [owns, if_true, if_false, Bool.false_eq_true, List.countP_nil, List.countP_cons, Nat.add_zero, Nat.zero_add] at k
    (try dsimp only)
    (try split at h) <;> (try split at k) <;> (try split) <;> simp_all <;> omega))

/-! ## counters -/

def atSInc : PC → Bool | .sInc => true | _ => false
def atUInc : PC → Bool | .uInc => true | _ => false
def sysPopped : PC → Bool | .sdec _ => true | _ => false
def usrPopped : PC → Bool | .udec _ => true | _ => false

/-- the counters lag the queues by exactly the threads between their two operations -/
def NumInv (s : State) : Prop :=
  s.g.sysNum + (s.ths.countP atSInc : Int) = (s.g.sysQ.length : Int) + (s.ths.countP sysPopped : Int) ∧
  s.g.userNum + (s.ths.countP atUInc : Int) = (s.g.userQ.length : Int) + (s.ths.countP usrPopped : Int)

theorem num_step (s s' : State) (i : Nat) (h : NumInv s) (hs : step sys s i = some s') : NumInv s' := by
  obtain ⟨pc, pc', sp, hpc, ht, _, hc⟩ := step_spec sys s s' i hs
  have k1 := hc atSInc
  have k2 := hc atUInc
  have k3 := hc sysPopped
  have k4 := hc usrPopped
  unfold NumInv at *
  obtain ⟨h1, h2⟩ := h
  simp only [sys] at ht
  cases pc <;> simp only [trans] at ht
  all_goals (try split at ht)
  all_goals
    simp only [Option.some.injEq, Prod.mk.injEq, reduceCtorEq] at ht
  all_goals (try (
    obtain ⟨hg, hp, hsp⟩ := ht; subst hp; subst hsp; rw [← hg]
    simp only [atSInc, atUInc, sysPopped, usrPopped, if_true, if_false, Bool.false_eq_true, List.countP_nil, List.countP_cons, Nat.add_zero, Nat.zero_add] at k1 k2 k3 k4
    (try dsimp only)
    (try split at k1) <;> (try split at k2) <;> (try split at k3) <;> (try split at k4) <;>
      simp_all <;> omega))

/-! ## no lost wake-up -/

/-- threads that will still look at the system queue's counter, or make somebody look -/
def sysWaker : PC → Bool | .sInc | .cas | .ldSys | .recas => true | _ => false
/-- same for the user queue -/
def usrWaker : PC → Bool | .uInc | .cas | .ldSys | .ldSusp | .ldUsr | .recas => true | _ => false

/-- pending work implies that a runner is alive, or somebody is on the way to start one -/
def WakeInv (s : State) : Prop :=
  (s.g.sysQ ≠ [] → s.ths.countP sysWaker + runFlag s.g > 0) ∧
  (s.g.userQ ≠ [] → s.g.susp = false → s.ths.countP usrWaker + runFlag s.g > 0)

theorem atSInc_le_sysWaker (l : List PC) : l.countP atSInc ≤ l.countP sysWaker := by
  apply List.countP_mono_left; intro x _ hx; cases x <;> simp_all [atSInc, sysWaker]

theorem atUInc_le_usrWaker (l : List PC) : l.countP atUInc ≤ l.countP usrWaker := by
  apply List.countP_mono_left; intro x _ hx; cases x <;> simp_all [atUInc, usrWaker]

theorem popped_le_owns (l : List PC) : l.countP sysPopped + l.countP usrPopped ≤ l.countP owns := by
  induction l with
  | nil => simp
  | cons x xs ih => cases x <;> simp [List.countP_cons, sysPopped, usrPopped, owns] <;> omega

theorem wake_step (s s' : State) (i : Nat) (hg0 : GateInv s) (hn : NumInv s) (h : WakeInv s)
    (hs : step sys s i = some s') : WakeInv s' := by
  obtain ⟨pc, pc', sp, hpc, ht, -, hc⟩ := step_spec sys s s' i hs
  have k1 := hc sysWaker
  have k2 := hc usrWaker
  have k3 := hc atSInc
  have k4 := hc atUInc
  have m1 := atSInc_le_sysWaker s'.ths
  have m2 := atUInc_le_usrWaker s'.ths
  have m3 := popped_le_owns s.ths
  have hpos := fun hp => countP_pos_of_getElem? s.ths i pc owns hpc hp
  unfold WakeInv NumInv GateInv runFlag at *
  obtain ⟨h1, h2⟩ := h
  obtain ⟨n1, n2⟩ := hn
  simp only [sys] at ht
  cases pc <;> simp only [trans] at ht
  all_goals (try split at ht)
  all_goals
    simp only [Option.some.injEq, Prod.mk.injEq, reduceCtorEq] at ht
  all_goals (try (
    obtain ⟨hg, hp, hsp⟩ := ht; subst hp; subst hsp; rw [← hg]
    (try have hp1 := hpos (by rfl))
    simp only [sysWaker, usrWaker, atSInc, atUInc, if_true, if_false, Bool.false_eq_true, List.countP_nil, List.countP_cons, Nat.add_zero] at k1 k2 k3 k4
    (try dsimp only)
    (try split at hg0) <;> simp_all <;> (try constructor) <;> (try intros) <;> omega))
  -- the four cases that need the gate / counter invariants
  all_goals (
    obtain ⟨hg, hp, hsp⟩ := ht; subst hp; subst hsp; rw [← hg]
    simp only [sysWaker, usrWaker, atSInc, atUInc, if_true, if_false, Bool.false_eq_true, List.countP_nil, List.countP_cons, Nat.add_zero] at k1 k2 k3 k4)
  · -- cas fails: the status is `running`
    rename_i hr
    simp only [hr, if_true] at h1 h2 hg0 ⊢
    constructor <;> intros <;> omega
  · -- ldSys read sysNum ≤ 0: every queued system message still has its sender before the CAS
    rename_i hr
    have hl : ∀ q : List Msg, q ≠ [] → q.length > 0 := fun q hq => List.length_pos_iff.mpr hq
    constructor
    · intro hq; have := hl _ hq
      split at hg0 <;> omega
    · intro hq hsu; have := h2 hq hsu; omega
  · -- ldUsr read userNum ≤ 0
    rename_i hr
    have hl : ∀ q : List Msg, q ≠ [] → q.length > 0 := fun q hq => List.length_pos_iff.mpr hq
    constructor
    · intro hq; have := h1 hq; omega
    · intro hq hsu; have := hl _ hq
      split at hg0 <;> omega
  · -- recas fails: the status is `running`
    rename_i hr
    simp only [hr, if_true] at h1 h2 hg0 ⊢
    constructor <;> intros <;> omega

/-! ## C01: handler invocations never overlap -/
open MV.Spec.Mailbox
theorem bracketState_append (tr : List Event) (e : Event) :
    bracketState (tr ++ [e]) = bstep (bracketState tr) e := by
  simp [bracketState, List.foldl_append]

theorem owns_split (l : List PC) : l.countP owns = l.countP inHandler + l.countP ownsOut := by
  induction l with
  | nil => simp
  | cons x xs ih => cases x <;> simp [List.countP_cons, owns, inHandler, ownsOut] <;> omega

/-- a thread inside the handler whose invocation is not the open one -/
def badIn (o : Option (Bool × Msg)) : PC → Bool
  | .hIn sy m => decide (o ≠ some (sy, m))
  | _ => false

theorem badIn_le (o : Option (Bool × Msg)) (l : List PC) : l.countP (badIn o) ≤ l.countP inHandler := by
  apply List.countP_mono_left; intro x _ hx; cases x <;> simp_all [badIn, inHandler]

/-- the event trace is well bracketed, and the open invocation (if any) is the one the unique
thread inside the handler is executing -/
def BrInv (s : State) : Prop :=
  ∃ o, bracketState s.g.trace = some o ∧ s.ths.countP inHandler = (if o.isSome then 1 else 0) ∧
    s.ths.countP (badIn o) = 0

theorem br_step (s s' : State) (i : Nat) (hg0 : GateInv s) (h : BrInv s)
    (hs : step sys s i = some s') : BrInv s' := by
  obtain ⟨pc, pc', sp, hpc, ht, -, hc⟩ := step_spec sys s s' i hs
  obtain ⟨o, hb, hI, hB⟩ := h
  have kI := hc inHandler
  have kB := hc (badIn o)
  have kN := hc (badIn none)
  have split := owns_split s.ths
  have hposO := fun hp => countP_pos_of_getElem? s.ths i pc ownsOut hpc hp
  have hposB := fun hp => countP_pos_of_getElem? s.ths i pc (badIn o) hpc hp
  have hle := badIn_le none s.ths
  unfold GateInv runFlag at hg0
  unfold BrInv
  simp only [sys] at ht
  cases pc <;> simp only [trans] at ht
  all_goals (try split at ht)
  all_goals
    simp only [Option.some.injEq, Prod.mk.injEq, reduceCtorEq] at ht
  -- trace unchanged, no handler boundary
  all_goals (try (
    obtain ⟨hg, hp, hsp⟩ := ht; subst hp; subst hsp
    refine ⟨o, by rw [← hg]; exact hb, ?_, ?_⟩
    · simp only [inHandler, if_true, if_false, Bool.false_eq_true, List.countP_nil, List.countP_cons, Nat.add_zero] at kI
      omega
    · simp only [badIn, if_true, if_false, Bool.false_eq_true, List.countP_nil, List.countP_cons, Nat.add_zero] at kB
      omega))
  all_goals (obtain ⟨hg, hp, hsp⟩ := ht; subst hp; subst hsp)
  all_goals simp only [inHandler, badIn, if_true, if_false, Bool.false_eq_true, List.countP_nil, List.countP_cons, Nat.add_zero] at kI kB kN
  · -- spop pops (ghost event)
    refine ⟨o, ?_, by omega, by omega⟩
    rw [← hg]; dsimp only; rw [bracketState_append, hb]; rfl
  · -- upop pops (ghost event)
    refine ⟨o, ?_, by omega, by omega⟩
    rw [← hg]; dsimp only; rw [bracketState_append, hb]; rfl
  · -- hEnter: nobody is inside (this thread is the unique owner and is outside)
    rename_i sy m
    have hp1 := hposO (by rfl)
    have hz : s.ths.countP inHandler = 0 := by split at hg0 <;> omega
    have ho : o = none := by
      cases o with
      | none => rfl
      | some v => simp at hI; omega
    subst ho
    refine ⟨some (sy, m), ?_, ?_, ?_⟩
    · rw [← hg]; dsimp only; rw [bracketState_append, hb]; rfl
    · simp; omega
    · have k2 := hc (badIn (some (sy, m)))
      have := badIn_le (some (sy, m)) s.ths
      simp [badIn] at k2; omega
  · -- hIn (handler panics → acc): the open invocation is this thread's
    rename_i sy m hpan
    have ho : o = some (sy, m) := by
      by_cases hbad : badIn o (.hIn sy m) = true
      · have := hposB hbad; omega
      · simpa [badIn] using hbad
    subst ho
    refine ⟨none, ?_, ?_, ?_⟩
    · rw [← hg]; dsimp only; rw [bracketState_append, hb]; simp [bstep]
    · simp only [Option.isSome_some, if_true] at hI
      simp only [Option.isSome_none, Bool.false_eq_true, if_false]; omega
    · have e : decide ((none : Option (Bool × Msg)) ≠ some (sy, m)) = true := by simp
      simp only [Option.isSome_some, if_true] at hI
      simp only [e, if_true] at kN; omega
  · -- hIn (handler returns → spop): the open invocation is this thread's
    rename_i sy m hpan
    have ho : o = some (sy, m) := by
      by_cases hbad : badIn o (.hIn sy m) = true
      · have := hposB hbad; omega
      · simpa [badIn] using hbad
    subst ho
    refine ⟨none, ?_, ?_, ?_⟩
    · rw [← hg]; dsimp only; rw [bracketState_append, hb]; simp [bstep]
    · simp only [Option.isSome_some, if_true] at hI
      simp only [Option.isSome_none, Bool.false_eq_true, if_false]; omega
    · have e : decide ((none : Option (Bool × Msg)) ≠ some (sy, m)) = true := by simp
      simp only [Option.isSome_some, if_true] at hI
      simp only [e, if_true] at kN; omega
  · -- acc: runs inside the runner, nobody is inside the handler
    have hp1 := hposO (by rfl)
    have hz : s.ths.countP inHandler = 0 := by split at hg0 <;> omega
    have ho : o = none := by
      cases o with
      | none => rfl
      | some v => simp at hI; omega
    subst ho
    refine ⟨none, ?_, ?_, ?_⟩
    · rw [← hg]; dsimp only; rw [bracketState_append, hb]; rfl
    · simp only [Option.isSome_none, Bool.false_eq_true, if_false]; omega
    · omega

/-! ## C02: exactly once, in push order -/

theorem entered_append (b : Bool) (tr : List Event) (e : Event) :
    entered b (tr ++ [e]) = entered b tr ++ entered b [e] := by
  simp [entered, List.filterMap_append]

def heldList (b : Bool) : Option (Bool × Msg) → List Msg
  | some (b', m) => if b' == b then [m] else []
  | none => []

/-- threads that carry a popped message towards the handler -/
def holder : PC → Bool | .sdec _ | .udec _ | .hEnter _ _ => true | _ => false
def ownsNH : PC → Bool | .spop | .chksusp | .upop | .hIn _ _ | .acc | .idle => true | _ => false

/-- a holder whose message is not the one recorded in `held` -/
def badHold (h : Option (Bool × Msg)) : PC → Bool
  | .sdec m => decide (h ≠ some (true, m))
  | .udec m => decide (h ≠ some (false, m))
  | .hEnter sy m => decide (h ≠ some (sy, m))
  | _ => false

theorem owns_split2 (l : List PC) : l.countP owns = l.countP holder + l.countP ownsNH := by
  induction l with
  | nil => simp
  | cons x xs ih => cases x <;> simp [List.countP_cons, owns, holder, ownsNH] <;> omega

theorem badHold_le (h : Option (Bool × Msg)) (l : List PC) : l.countP (badHold h) ≤ l.countP holder := by
  apply List.countP_mono_left; intro x _ hx; cases x <;> simp_all [badHold, holder]

/-- every pushed message is, in push order: already handed to the handler, or held by the runner, or
still queued -/
def FifoInv (s : State) : Prop :=
  s.g.pushedSys = entered true s.g.trace ++ heldList true s.g.held ++ s.g.sysQ ∧
  s.g.pushedUsr = entered false s.g.trace ++ heldList false s.g.held ++ s.g.userQ ∧
  s.ths.countP holder = (if s.g.held.isSome then 1 else 0) ∧
  s.ths.countP (badHold s.g.held) = 0

theorem fifo_step (s s' : State) (i : Nat) (hg0 : GateInv s) (h : FifoInv s)
    (hs : step sys s i = some s') : FifoInv s' := by
  obtain ⟨pc, pc', sp, hpc, ht, -, hc⟩ := step_spec sys s s' i hs
  obtain ⟨hS, hU, hH, hB⟩ := h
  have kH := hc holder
  have kB := hc (badHold s.g.held)
  have kN := hc (badHold none)
  have split := owns_split2 s.ths
  have hposN := fun hp => countP_pos_of_getElem? s.ths i pc ownsNH hpc hp
  have hposB := fun hp => countP_pos_of_getElem? s.ths i pc (badHold s.g.held) hpc hp
  have hleN := badHold_le none s'.ths
  unfold GateInv runFlag at hg0
  unfold FifoInv
  simp only [sys] at ht
  cases pc <;> simp only [trans] at ht
  all_goals (try split at ht)
  all_goals
    simp only [Option.some.injEq, Prod.mk.injEq, reduceCtorEq] at ht
  -- `held` unchanged, thread neither becomes nor stops being a holder
  all_goals (try (
    obtain ⟨hg, hp, hsp⟩ := ht; subst hp; subst hsp; rw [← hg]; (try dsimp only)
    simp only [holder, badHold, if_true, if_false, Bool.false_eq_true, List.countP_nil, List.countP_cons, Nat.add_zero] at kH kB
    refine ⟨?_, ?_, ?_, ?_⟩
    · simp [hS, entered_append, entered]
    · simp [hU, entered_append, entered]
    · omega
    · omega))
  all_goals (obtain ⟨hg, hp, hsp⟩ := ht; subst hp; subst hsp; rw [← hg]; dsimp only)
  all_goals simp only [holder, if_true, if_false, Bool.false_eq_true, List.countP_nil, List.countP_cons, Nat.add_zero] at kH
  · -- spop pops m: nobody holds a message (this thread is the unique owner and holds none)
    rename_i m rest hq
    have hp1 := hposN (by rfl)
    have hz : s.ths.countP holder = 0 := by split at hg0 <;> omega
    have hn : s.g.held = none := by
      cases hh : s.g.held with
      | none => rfl
      | some v => rw [hh] at hH; simp at hH; omega
    rw [hn] at hS hU
    have k2 := hc (badHold (some (true, m)))
    have l2 := badHold_le (some (true, m)) s.ths
    simp only [badHold, ne_eq, not_true_eq_false, decide_false, if_false, Bool.false_eq_true, List.countP_nil, Nat.add_zero] at k2
    refine ⟨?_, ?_, ?_, ?_⟩
    · simp [hS, hq, entered_append, entered, heldList]
    · simp [hU, entered_append, entered, heldList]
    · simp only [Option.isSome_some, if_true]; omega
    · omega
  · -- sdec: still carries the same message
    rename_i m
    have k2 := hc (badHold s.g.held)
    simp only [show badHold s.g.held (.sdec m) = badHold s.g.held (.hEnter true m) from rfl, List.countP_nil, Nat.add_zero] at k2
    exact ⟨hS, hU, by omega, by omega⟩
  · -- upop pops m
    rename_i m rest hq
    have hp1 := hposN (by rfl)
    have hz : s.ths.countP holder = 0 := by split at hg0 <;> omega
    have hn : s.g.held = none := by
      cases hh : s.g.held with
      | none => rfl
      | some v => rw [hh] at hH; simp at hH; omega
    rw [hn] at hS hU
    have k2 := hc (badHold (some (false, m)))
    have l2 := badHold_le (some (false, m)) s.ths
    simp only [badHold, ne_eq, not_true_eq_false, decide_false, if_false, Bool.false_eq_true, List.countP_nil, Nat.add_zero] at k2
    refine ⟨?_, ?_, ?_, ?_⟩
    · simp [hS, entered_append, entered, heldList]
    · simp [hU, hq, entered_append, entered, heldList]
    · simp only [Option.isSome_some, if_true]; omega
    · omega
  · -- udec
    rename_i m
    have k2 := hc (badHold s.g.held)
    simp only [show badHold s.g.held (.udec m) = badHold s.g.held (.hEnter false m) from rfl, List.countP_nil, Nat.add_zero] at k2
    exact ⟨hS, hU, by omega, by omega⟩
  · -- hEnter sy m: the held message is this thread's; it is now handed to the handler
    rename_i sy m
    have hh : s.g.held = some (sy, m) := by
      by_cases hbad : badHold s.g.held (.hEnter sy m) = true
      · have := hposB hbad; omega
      · simpa [badHold] using hbad
    rw [hh] at hS hU hH
    simp only [Option.isSome_some, if_true] at hH
    simp only [badHold, ne_eq, reduceCtorEq, not_false_eq_true, decide_true, if_true, if_false, Bool.false_eq_true, List.countP_nil, Nat.add_zero] at kN
    refine ⟨?_, ?_, ?_, ?_⟩
    · cases sy <;> simp [hS, entered_append, entered, heldList]
    · cases sy <;> simp [hU, entered_append, entered, heldList]
    · simp only [Option.isSome_none, Bool.false_eq_true, if_false]; omega
    · omega

/-! ## all invariants together, for every schedule -/

def AllInv (s : State) : Prop := GateInv s ∧ NumInv s ∧ WakeInv s ∧ BrInv s ∧ FifoInv s

theorem all_init : AllInv init := by
  refine ⟨by simp [GateInv, init, runFlag], by simp [NumInv, init], ?_, ?_, ?_⟩
  · simp [WakeInv, init]
  · exact ⟨none, by simp [init, bracketState], by simp [init], by simp [init]⟩
  · simp [FifoInv, init, entered, heldList]

theorem all_step (s s' : State) (i : Nat) (h : AllInv s) (hs : step sys s i = some s') : AllInv s' := by
  obtain ⟨hg, hn, hw, hb, hf⟩ := h
  exact ⟨gate_step s s' i hg hs, num_step s s' i hn hs, wake_step s s' i hg hn hw hs,
    br_step s s' i hg hb hs, fifo_step s s' i hg hf hs⟩

theorem all_spawn (s : State) (pc : PC) (h : AllInv s) (ha : sys.allowed pc = true) :
    AllInv { s with ths := s.ths ++ [pc] } := by
  obtain ⟨hg, ⟨hn1, hn2⟩, ⟨hw1, hw2⟩, ⟨o, hb1, hb2, hb3⟩, hf1, hf2, hf3, hf4⟩ := h
  simp only [sys] at ha
  cases pc <;> simp [allowed] at ha <;>
  · refine ⟨?_, ⟨?_, ?_⟩, ⟨?_, ?_⟩, ⟨o, hb1, ?_, ?_⟩, hf1, hf2, ?_, ?_⟩ <;>
      simp_all [GateInv, List.countP_append, owns, atSInc, atUInc, sysPopped, usrPopped, sysWaker, usrWaker,
        inHandler, badIn, holder, badHold]

/-- **every reachable state** (any schedule, any number of senders / suspenders / resumers arriving at
any time) satisfies all mailbox invariants -/
theorem all_reachable (sched : List (Ev PC)) : AllInv (exec sys init sched) :=
  exec_inv sys AllInv all_step all_spawn init all_init sched

end MV.Model.Mailbox
