import MV.Lemmas.PubSubSys
/-!
# Lemmas for C10, system level: where the deliveries go (`Flow`) and the two-node link (`NetInv`)
-/
namespace MV.Lemmas.PubSubFlow
open MV.Model.PubSub MV.Spec.PubSub MV.Lemmas.PubSub MV.Lemmas.PubSubSys

/-- every effect of every turn the subscription actor has taken, in order -/
def allEffs (self : Nat) (s : Sys) : List Eff := (SubActor.run (SubActor.init self) s.processed).2.flatten

/-- everything that was pushed into `r`'s mailbox and not turned into a dead letter: handled ++ queued -/
def arrived (s : Sys) (r : Ref) : List Delivery := (s.actors r).handled.map (·.2) ++ (s.actors r).mbox

/-- the dead letters addressed to `r` -/
def lost (s : Sys) (r : Ref) : List Delivery := (s.dead.filter (fun e => e.1 = r)).map (·.2)

def localPubOf (e : Envelope) : Option (Ref × Topic × Payload) :=
  match e.sender, e.msg with
  | some r, .localPublishRequest t p => some (r, t, p)
  | _, _ => none

def toLink : Eff → Option (Nat × Envelope)
  | .tellRemote a t p pub => some (a, { sender := none, msg := .publishRequestBroadcast t p pub true })
  | _ => none

structure Flow (node : Nat) (s : Sys) : Prop where
  saState : s.sa = (SubActor.run (SubActor.init node) s.processed).1
  acct : ∀ r d, (arrived s r).count d + (lost s r).count d = (deliveriesTo r (allEffs node s)).count d
  order : ∀ r, (arrived s r).Sublist (deliveriesTo r (allEffs node s))
  pubs : (s.processed ++ s.saQ).filterMap localPubOf = s.published
  linkLog : s.link = (allEffs node s).filterMap toLink

theorem deliveriesTo_append (r : Ref) (a b : List Eff) :
    deliveriesTo r (a ++ b) = deliveriesTo r a ++ deliveriesTo r b := by
  simp [deliveriesTo, List.filterMap_append]

theorem deliveriesTo_cons (r : Ref) (e : Eff) (es : List Eff) :
    deliveriesTo r (e :: es) = deliveriesTo r [e] ++ deliveriesTo r es := deliveriesTo_append r [e] es

/-- what one effect does to the mailboxes, dead letters and the link output -/
theorem applyEff_flow (s : Sys) (e : Eff) (r : Ref) :
    ((applyEff s e).actors r).status = (s.actors r).status ∧
    arrived (applyEff s e) r = arrived s r ++ (if (s.actors r).status = .alive then deliveriesTo r [e] else []) ∧
    lost (applyEff s e) r = lost s r ++ (if (s.actors r).status = .alive then [] else deliveriesTo r [e]) ∧
    (applyEff s e).link = s.link ++ [e].filterMap toLink ∧
    (applyEff s e).saQ = s.saQ ∧ (applyEff s e).processed = s.processed ∧ (applyEff s e).published = s.published ∧
    (applyEff s e).sa = s.sa := by
  cases e with
  | deliver to snd p =>
    simp only [applyEff]
    by_cases hal : (s.actors to).status = .alive
    · simp only [hal, if_true]
      by_cases hr : r = to
      · subst hr
        simp [Sys.setActor, arrived, lost, deliveriesTo, toLink, hal]
      · have hne : ¬ to = r := fun e => hr e.symm
        simp [Sys.setActor, arrived, lost, deliveriesTo, toLink, hr, hne]
    · simp only [hal, if_false]
      by_cases hr : r = to
      · subst hr
        simp [arrived, lost, deliveriesTo, toLink, hal, List.filter_append]
      · have hne : ¬ to = r := fun e => hr e.symm
        simp [arrived, lost, deliveriesTo, toLink, hne, List.filter_append]
  | replySub to sub =>
    simp only [applyEff]
    split
    · by_cases hr : r = sub.subscriber
      · subst hr; simp [Sys.setActor, arrived, lost, deliveriesTo, toLink]
      · simp [Sys.setActor, arrived, lost, deliveriesTo, toLink, hr]
    · simp [arrived, lost, deliveriesTo, toLink]
  | replyNil to => simp [applyEff, arrived, lost, deliveriesTo, toLink]
  | tellRemote a t p pub => simp [applyEff, arrived, lost, deliveriesTo, toLink]

theorem foldl_flow (effs : List Eff) (s : Sys) (r : Ref) :
    ((effs.foldl applyEff s).actors r).status = (s.actors r).status ∧
    arrived (effs.foldl applyEff s) r = arrived s r ++ (if (s.actors r).status = .alive then deliveriesTo r effs else []) ∧
    lost (effs.foldl applyEff s) r = lost s r ++ (if (s.actors r).status = .alive then [] else deliveriesTo r effs) ∧
    (effs.foldl applyEff s).link = s.link ++ effs.filterMap toLink ∧
    (effs.foldl applyEff s).saQ = s.saQ ∧ (effs.foldl applyEff s).processed = s.processed ∧
    (effs.foldl applyEff s).published = s.published ∧ (effs.foldl applyEff s).sa = s.sa := by
  induction effs generalizing s with
  | nil => simp [deliveriesTo]
  | cons e es ih =>
    simp only [List.foldl_cons]
    obtain ⟨a1, a2, a3, a4, a5, a6, a7, a8⟩ := applyEff_flow s e r
    obtain ⟨b1, b2, b3, b4, b5, b6, b7, b8⟩ := ih (applyEff s e)
    refine ⟨b1.trans a1, ?_, ?_, ?_, b5.trans a5, b6.trans a6, b7.trans a7, b8.trans a8⟩
    · rw [b2, a2, a1, deliveriesTo_cons r e es]
      by_cases hal : (s.actors r).status = .alive <;> simp [hal]
    · rw [b3, a3, a1, deliveriesTo_cons r e es]
      by_cases hal : (s.actors r).status = .alive <;> simp [hal]
    · rw [b4, a4]; simp [List.filterMap_cons]
      cases toLink e <;> simp

theorem flow_init (self : Nat) : Flow self (Sys.init self) := by
  constructor
  · rfl
  · intro r d; simp [arrived, lost, allEffs, Sys.init, Actor.none, SubActor.run, deliveriesTo]
  · intro r; simp [arrived, allEffs, Sys.init, Actor.none, SubActor.run, deliveriesTo]
  · rfl
  · rfl

/-- an action that touches neither the mailboxes of the actors, nor the dead letters, nor what the
    subscription actor has processed; it may append `q` to the subscription actor's mailbox -/
theorem flow_ctl {self : Nat} {s s' : Sys} (hf : Flow self s) (q : List Envelope)
    (hsa : s'.sa = s.sa) (hp : s'.processed = s.processed) (hq : s'.saQ = s.saQ ++ q)
    (hd : s'.dead = s.dead) (hl : s'.link = s.link)
    (ha : ∀ r, (s'.actors r).handled = (s.actors r).handled ∧ (s'.actors r).mbox = (s.actors r).mbox)
    (hpub : s'.published = s.published ++ q.filterMap localPubOf) : Flow self s' := by
  have harr : ∀ r, arrived s' r = arrived s r := by intro r; simp [arrived, ha r]
  have hlost : ∀ r, lost s' r = lost s r := by intro r; simp [lost, hd]
  have heffs : allEffs self s' = allEffs self s := by simp [allEffs, hp]
  constructor
  · rw [hsa, hp]; exact hf.saState
  · intro r d; rw [harr, hlost, heffs]; exact hf.acct r d
  · intro r; rw [harr, heffs]; exact hf.order r
  · rw [hp, hq, ← List.append_assoc, List.filterMap_append, hf.pubs, hpub]
  · rw [hl, heffs]; exact hf.linkLog

theorem setActor_frame (s : Sys) (r : Ref) (a : Actor) (hh : a.handled = (s.actors r).handled) (hm : a.mbox = (s.actors r).mbox) :
    ∀ r', ((s.setActor r a).actors r').handled = (s.actors r').handled ∧ ((s.setActor r a).actors r').mbox = (s.actors r').mbox := by
  intro r'
  simp only [Sys.setActor]
  by_cases h : r' = r
  · subst h; simp [hh, hm]
  · simp [h]

theorem unsubs_no_pub (l : List Subscription) : (l.map unsubEnvelope).filterMap localPubOf = [] := by
  induction l with
  | nil => rfl
  | cons x xs ih => simp [List.filterMap_cons, localPubOf, unsubEnvelope, ih]

/-- a terminated actor's mailbox: the head becomes a dead letter -/
theorem flow_dead {self : Nat} {s : Sys} (hf : Flow self s) (r : Ref) (d : Delivery) (rest : List Delivery)
    (hmb : (s.actors r).mbox = d :: rest) (S : Sys)
    (hS : S = Sys.setActor { s with dead := s.dead ++ [(r, d)] } r { s.actors r with mbox := rest }) : Flow self S := by
  have e1 : lost S r = lost s r ++ [d] := by subst hS; simp [lost, Sys.setActor, List.filter_append]
  have e1' : ∀ r', r' ≠ r → lost S r' = lost s r' := by
    intro r' h; subst hS
    have hne : ¬ r = r' := fun e => h e.symm
    simp [lost, Sys.setActor, List.filter_append, hne]
  have e2 : arrived S r = (s.actors r).handled.map (·.2) ++ rest := by subst hS; simp [arrived, Sys.setActor]
  have e2' : ∀ r', r' ≠ r → arrived S r' = arrived s r' := by
    intro r' h; subst hS; simp [arrived, Sys.setActor, h]
  have e3 : arrived s r = (s.actors r).handled.map (·.2) ++ d :: rest := by simp [arrived, hmb]
  have e4 : allEffs self S = allEffs self s := by subst hS; rfl
  constructor
  · subst hS; exact hf.saState
  · intro r' dd
    have := hf.acct r' dd
    by_cases h : r' = r
    · subst h
      rw [e1, e2, e4]; rw [e3] at this
      simp only [List.count_append, List.count_cons, List.count_nil] at this ⊢
      omega
    · rw [e1' r' h, e2' r' h, e4]; exact this
  · intro r'
    have := hf.order r'
    by_cases h : r' = r
    · subst h
      rw [e2, e4]; rw [e3] at this
      exact List.Sublist.trans (List.Sublist.append_left (List.sublist_cons_self d rest) _) this
    · rw [e2' r' h, e4]; exact this
  · subst hS; exact hf.pubs
  · subst hS; exact hf.linkLog

theorem flow_step {self : Nat} {s : Sys} (hf : Flow self s) (a : Act) (ha : Allowed s a) : Flow self (s.step a) := by
  cases a with
  | spawn r =>
    simp only [Sys.step]
    split
    · exact flow_ctl hf [] rfl rfl (by simp [Sys.setActor]) rfl rfl (setActor_frame s r _ rfl rfl) (by simp [Sys.setActor])
    · exact hf
  | subscribeCall r t =>
    simp only [Sys.step]
    split
    · exact flow_ctl hf [_] rfl rfl rfl rfl rfl (setActor_frame _ r _ rfl rfl) (by simp [Sys.setActor, localPubOf])
    · exact hf
  | unsubscribe r sub =>
    simp only [Sys.step]
    split
    · exact flow_ctl hf [_] rfl rfl rfl rfl rfl (setActor_frame _ r _ rfl rfl) (by simp [Sys.setActor, localPubOf, unsubEnvelope])
    · exact hf
  | publish r t p =>
    simp only [Sys.step]
    split
    · exact flow_ctl hf [_] rfl rfl rfl rfl rfl (fun _ => ⟨rfl, rfl⟩) (by simp [localPubOf])
    · exact hf
  | inject e =>
    simp only [Sys.step]
    refine flow_ctl hf [e] rfl rfl rfl rfl rfl (fun _ => ⟨rfl, rfl⟩) ?_
    have : localPubOf e = none := by
      simp only [Allowed, isLinkMsg] at ha
      unfold localPubOf
      cases hm : e.msg <;> simp_all <;> cases e.sender <;> rfl
    simp [this]
  | restart r =>
    simp only [Sys.step]
    split
    · exact flow_ctl hf _ rfl rfl rfl rfl rfl (setActor_frame _ r _ rfl rfl) (by simp [release, Sys.setActor]; intro a _; rfl)
    · exact hf
  | terminate r =>
    simp only [Sys.step]
    split
    · exact flow_ctl hf _ rfl rfl rfl rfl rfl (setActor_frame _ r _ rfl rfl) (by simp [release, Sys.setActor]; intro a _; rfl)
    · exact hf
  | handle r =>
    simp only [Sys.step]
    split
    · exact hf
    · rename_i d rest hmb
      split
      · exact hf
      · split
        · -- alive: the head of the mailbox moves to the end of `handled`
          have harr : ∀ r', arrived (s.setActor r { s.actors r with mbox := rest, handled := (s.actors r).handled ++ [((s.actors r).inc, d)] }) r' = arrived s r' := by
            intro r'
            simp only [arrived, Sys.setActor]
            by_cases h : r' = r
            · subst h; simp [hmb]
            · simp [h]
          constructor
          · exact hf.saState
          · intro r' dd; rw [harr]; exact hf.acct r' dd
          · intro r'; rw [harr]; exact hf.order r'
          · exact hf.pubs
          · exact hf.linkLog
        · -- not running any more: the head of the mailbox becomes a dead letter
          exact flow_dead hf r d rest hmb _ rfl
  | saStep =>
    simp only [Sys.step]
    split
    · exact hf
    · rename_i e rest hq
      have hrun : SubActor.run (SubActor.init self) (s.processed ++ [e]) =
          ((s.sa.step e).1, (SubActor.run (SubActor.init self) s.processed).2 ++ [(s.sa.step e).2]) := by
        rw [run_append]; simp only [SubActor.run]; rw [← hf.saState]
      have heffs : ∀ s' : Sys, s'.processed = s.processed ++ [e] → allEffs self s' = allEffs self s ++ (s.sa.step e).2 := by
        intro s' hp; simp [allEffs, hp, hrun]
      -- the state the effects are applied to
      generalize hs0 : ({ s with sa := (s.sa.step e).1, saQ := rest, processed := s.processed ++ [e] } : Sys) = s0
      have h0a : ∀ r, arrived s0 r = arrived s r := by intro r; subst hs0; rfl
      have h0l : ∀ r, lost s0 r = lost s r := by intro r; subst hs0; rfl
      have h0s : ∀ r, (s0.actors r).status = (s.actors r).status := by intro r; subst hs0; rfl
      have h0p : s0.processed = s.processed ++ [e] := by subst hs0; rfl
      have h0q : s0.saQ = rest := by subst hs0; rfl
      have h0k : s0.link = s.link := by subst hs0; rfl
      have h0b : s0.published = s.published := by subst hs0; rfl
      have h0sa : s0.sa = (s.sa.step e).1 := by subst hs0; rfl
      have hE := heffs ((s.sa.step e).2.foldl applyEff s0) (by rw [(foldl_flow _ s0 default).2.2.2.2.2.1, h0p])
      constructor
      · rw [(foldl_flow _ s0 default).2.2.2.2.2.2.2, (foldl_flow _ s0 default).2.2.2.2.2.1, h0sa, h0p, hrun]
      · intro r d
        obtain ⟨_, b2, b3, _⟩ := foldl_flow (s.sa.step e).2 s0 r
        rw [b2, b3, hE, deliveriesTo_append, h0a, h0l, h0s]
        have := hf.acct r d
        by_cases hal : (s.actors r).status = .alive <;> simp only [hal, if_true, if_false, List.count_append, List.append_nil] <;> omega
      · intro r
        obtain ⟨_, b2, _⟩ := foldl_flow (s.sa.step e).2 s0 r
        rw [b2, hE, deliveriesTo_append, h0a, h0s]
        by_cases hal : (s.actors r).status = .alive
        · simp only [hal, if_true]; exact List.Sublist.append (hf.order r) (List.Sublist.refl _)
        · simp only [hal, if_false, List.append_nil]
          exact List.Sublist.trans (hf.order r) (List.sublist_append_left _ _)
      · obtain ⟨_, _, _, _, b5, b6, b7, _⟩ := foldl_flow (s.sa.step e).2 s0 default
        rw [b5, b6, b7, h0p, h0q, h0b, ← hf.pubs, hq]; simp
      · obtain ⟨_, _, _, b4, _⟩ := foldl_flow (s.sa.step e).2 s0 default
        rw [b4, hE, h0k, hf.linkLog, List.filterMap_append]

theorem flow_reachable {self : Nat} {s : Sys} (h : Reachable self s) : Flow self s := by
  induction h with
  | init => exact flow_init self
  | step a _ ha ih => exact flow_step ih a ha

/-! ### two nodes -/

def isBroadcast (e : Envelope) : Bool :=
  match e.msg with
  | .publishRequestBroadcast _ _ _ _ => true
  | _ => false

/-- the broadcast an action puts into the subscription actor's mailbox from outside (only `inject` can) -/
def injectedBroadcast : Act → List Envelope
  | .inject e => if isBroadcast e then [e] else []
  | _ => []

theorem unsubs_no_broadcast (l : List Subscription) : (l.map unsubEnvelope).filter isBroadcast = [] := by
  induction l with
  | nil => rfl
  | cons x xs ih => simp [isBroadcast, unsubEnvelope, ih]

theorem toLink_broadcast (effs : List Eff) : ∀ x ∈ effs.filterMap toLink, isBroadcast x.2 = true := by
  intro x hx
  simp only [List.mem_filterMap] at hx
  obtain ⟨e, _, he⟩ := hx
  cases e <;> simp [toLink] at he
  subst he; rfl

/-- what any action does to "processed ++ queued" of the subscription actor and to the link output -/
theorem step_queue (s : Sys) (a : Act) :
    ((s.step a).processed ++ (s.step a).saQ).filter isBroadcast =
      (s.processed ++ s.saQ).filter isBroadcast ++ injectedBroadcast a ∧
    ∃ k, (s.step a).link = s.link ++ k ∧ ∀ x ∈ k, isBroadcast x.2 = true := by
  cases a with
  | spawn r =>
    simp only [Sys.step]; split
    · exact ⟨by simp [Sys.setActor, injectedBroadcast], [], by simp [Sys.setActor], by simp⟩
    · exact ⟨by simp [injectedBroadcast], [], by simp, by simp⟩
  | subscribeCall r t =>
    simp only [Sys.step]; split
    · exact ⟨by simp [Sys.setActor, injectedBroadcast, List.filter_append, isBroadcast], [], by simp [Sys.setActor], by simp⟩
    · exact ⟨by simp [injectedBroadcast], [], by simp, by simp⟩
  | unsubscribe r sub =>
    simp only [Sys.step]; split
    · exact ⟨by simp [Sys.setActor, injectedBroadcast, List.filter_append, isBroadcast, unsubEnvelope], [], by simp [Sys.setActor], by simp⟩
    · exact ⟨by simp [injectedBroadcast], [], by simp, by simp⟩
  | publish r t p =>
    simp only [Sys.step]; split
    · exact ⟨by simp [injectedBroadcast, List.filter_append, isBroadcast], [], by simp, by simp⟩
    · exact ⟨by simp [injectedBroadcast], [], by simp, by simp⟩
  | inject e =>
    simp only [Sys.step]
    refine ⟨?_, [], by simp, by simp⟩
    simp only [injectedBroadcast, ← List.append_assoc, List.filter_append]
    by_cases hb : isBroadcast e = true <;> simp [hb]
  | restart r =>
    simp only [Sys.step]; split
    · exact ⟨by simp [release, Sys.setActor, injectedBroadcast, List.filter_append, unsubs_no_broadcast], [], by simp [release, Sys.setActor], by simp⟩
    · exact ⟨by simp [injectedBroadcast], [], by simp, by simp⟩
  | terminate r =>
    simp only [Sys.step]; split
    · exact ⟨by simp [release, Sys.setActor, injectedBroadcast, List.filter_append, unsubs_no_broadcast], [], by simp [release, Sys.setActor], by simp⟩
    · exact ⟨by simp [injectedBroadcast], [], by simp, by simp⟩
  | handle r =>
    simp only [Sys.step]
    split
    · exact ⟨by simp [injectedBroadcast], [], by simp, by simp⟩
    · split
      · exact ⟨by simp [injectedBroadcast], [], by simp, by simp⟩
      · split
        · exact ⟨by simp [Sys.setActor, injectedBroadcast], [], by simp [Sys.setActor], by simp⟩
        · exact ⟨by simp [Sys.setActor, injectedBroadcast], [], by simp [Sys.setActor], by simp⟩
  | saStep =>
    simp only [Sys.step]
    split
    · exact ⟨by simp [injectedBroadcast], [], by simp, by simp⟩
    · rename_i e rest hq
      obtain ⟨_, _, _, b4, b5, b6, _⟩ := foldl_flow (s.sa.step e).2
        { s with sa := (s.sa.step e).1, saQ := rest, processed := s.processed ++ [e] } default
      refine ⟨?_, _, b4, toLink_broadcast _⟩
      rw [b5, b6, hq]; simp [injectedBroadcast]

/-- node-local actions of the two-node model: the API discipline of `Allowed`, and no broadcast is
    injected directly (broadcasts arrive over the link only) -/
def NAllowed (n : Net) : NAct → Prop
  | .at1 a => Allowed n.n1 a ∧ injectedBroadcast a = []
  | .at2 a => Allowed n.n2 a ∧ injectedBroadcast a = []
  | .xfer12 => True
  | .xfer21 => True

inductive NReachable : Net → Prop
  | init : NReachable Net.init
  | step {n : Net} (a : NAct) : NReachable n → NAllowed n a → NReachable (n.step a)

structure NetInv (n : Net) : Prop where
  r1 : Reachable 1 n.n1
  r2 : Reachable 2 n.n2
  le1 : n.sent1 ≤ n.n1.link.length
  le2 : n.sent2 ≤ n.n2.link.length
  recv2 : (n.n2.processed ++ n.n2.saQ).filter isBroadcast =
    ((n.n1.link.take n.sent1).filter (fun e => e.1 = 2)).map (·.2)
  recv1 : (n.n1.processed ++ n.n1.saQ).filter isBroadcast =
    ((n.n2.link.take n.sent2).filter (fun e => e.1 = 1)).map (·.2)

theorem link_broadcast {self : Nat} {s : Sys} (h : Reachable self s) : ∀ x ∈ s.link, isBroadcast x.2 = true := by
  rw [(flow_reachable h).linkLog]; exact toLink_broadcast _

theorem broadcast_isLink (e : Envelope) (h : isBroadcast e = true) : isLinkMsg e = true := by
  cases hm : e.msg <;> simp_all [isBroadcast, isLinkMsg]

theorem NetInv.intro (n1 n2 : Sys) (s1 s2 : Nat) (r1 : Reachable 1 n1) (r2 : Reachable 2 n2)
    (le1 : s1 ≤ n1.link.length) (le2 : s2 ≤ n2.link.length)
    (recv2 : (n2.processed ++ n2.saQ).filter isBroadcast = ((n1.link.take s1).filter (fun e => e.1 = 2)).map (·.2))
    (recv1 : (n1.processed ++ n1.saQ).filter isBroadcast = ((n2.link.take s2).filter (fun e => e.1 = 1)).map (·.2)) :
    NetInv { n1 := n1, n2 := n2, sent1 := s1, sent2 := s2 } := ⟨r1, r2, le1, le2, recv2, recv1⟩

theorem inject_link (s : Sys) (e : Envelope) : (s.step (.inject e)).link = s.link := rfl

theorem netInv_reachable {n : Net} (h : NReachable n) : NetInv n := by
  induction h with
  | init =>
    exact ⟨Reachable.init, Reachable.init, Nat.le_refl _, Nat.le_refl _, rfl, rfl⟩
  | step a _ ha ih =>
    rename_i n _
    cases a with
    | at1 a =>
      obtain ⟨hq, k, hk, _⟩ := step_queue n.n1 a
      simp only [Net.step]
      apply NetInv.intro _ _ _ _ (Reachable.step a ih.r1 ha.1) ih.r2
      · rw [hk]; simp only [List.length_append]; have := ih.le1; omega
      · exact ih.le2
      · rw [hk, List.take_append_of_le_length ih.le1]; exact ih.recv2
      · rw [hq, ha.2, List.append_nil]; exact ih.recv1
    | at2 a =>
      obtain ⟨hq, k, hk, _⟩ := step_queue n.n2 a
      simp only [Net.step]
      apply NetInv.intro _ _ _ _ ih.r1 (Reachable.step a ih.r2 ha.1)
      · exact ih.le1
      · rw [hk]; simp only [List.length_append]; have := ih.le2; omega
      · rw [hq, ha.2, List.append_nil]; exact ih.recv2
      · rw [hk, List.take_append_of_le_length ih.le2]; exact ih.recv1
    | xfer12 =>
      simp only [Net.step]
      cases hget : n.n1.link[n.sent1]? with
      | none => simpa [hget] using ih
      | some e =>
        simp only []
        have hlt : n.sent1 < n.n1.link.length := (List.getElem?_eq_some_iff.mp hget).1
        have htake : n.n1.link.take (n.sent1 + 1) = n.n1.link.take n.sent1 ++ [e] := by
          rw [List.take_add_one, hget]; rfl
        have hb : isBroadcast e.2 = true := link_broadcast ih.r1 e (List.mem_of_getElem? hget)
        by_cases h2 : e.1 = 2
        · simp only [h2, if_true]
          apply NetInv.intro _ _ _ _ ih.r1 (Reachable.step (.inject e.2) ih.r2 (broadcast_isLink _ hb))
          · omega
          · rw [inject_link]; exact ih.le2
          · rw [(step_queue _ _).1, ih.recv2, htake]
            simp [List.filter_append, h2, injectedBroadcast, hb]
          · rw [inject_link]; exact ih.recv1
        · simp only [h2, if_false]
          apply NetInv.intro _ _ _ _ ih.r1 ih.r2
          · omega
          · exact ih.le2
          · rw [ih.recv2, htake]; simp [List.filter_append, h2]
          · exact ih.recv1
    | xfer21 =>
      simp only [Net.step]
      cases hget : n.n2.link[n.sent2]? with
      | none => simpa [hget] using ih
      | some e =>
        simp only []
        have hlt : n.sent2 < n.n2.link.length := (List.getElem?_eq_some_iff.mp hget).1
        have htake : n.n2.link.take (n.sent2 + 1) = n.n2.link.take n.sent2 ++ [e] := by
          rw [List.take_add_one, hget]; rfl
        have hb : isBroadcast e.2 = true := link_broadcast ih.r2 e (List.mem_of_getElem? hget)
        by_cases h1 : e.1 = 1
        · simp only [h1, if_true]
          apply NetInv.intro _ _ _ _ (Reachable.step (.inject e.2) ih.r1 (broadcast_isLink _ hb)) ih.r2
          · rw [inject_link]; exact ih.le1
          · omega
          · rw [inject_link]; exact ih.recv2
          · rw [(step_queue _ _).1, ih.recv1, htake]
            simp [List.filter_append, h1, injectedBroadcast, hb]
        · simp only [h1, if_false]
          apply NetInv.intro _ _ _ _ ih.r1 ih.r2
          · exact ih.le1
          · omega
          · exact ih.recv2
          · rw [ih.recv1, htake]; simp [List.filter_append, h1]

end MV.Lemmas.PubSubFlow
