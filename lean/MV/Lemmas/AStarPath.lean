import MV.Model.AStar
import MV.Spec.AStar
/-!
Path-level lemmas for the A* proofs (core Lean only): `pathCost`/`last`/`IsWalk` under `p ++ [x]`,
and the correspondence between list walks (`ValidPath`) and the inductive `Reach`.
-/
namespace MV.Lemmas.AStar
open MV.Model.AStar MV.Spec.AStar

theorem last_append_singleton (p : Path) (x : Nat) : last (p ++ [x]) = x := by
  simp [last, List.getLastD_eq_getLast?]

theorem last_singleton (x : Nat) : last [x] = x := rfl

theorem last_cons_cons (a b : Nat) (r : Path) : last (a :: b :: r) = last (b :: r) := by
  simp [last, List.getLastD_eq_getLast?, List.getLast?_cons_cons]

theorem pathCost_append_singleton (cost : Nat → Nat → Nat) (p : Path) (hp : p ≠ []) (x : Nat) :
    pathCost cost (p ++ [x]) = pathCost cost p + cost (last p) x := by
  induction p with
  | nil => exact absurd rfl hp
  | cons a r ih =>
    cases r with
    | nil => simp [pathCost, last_singleton]
    | cons b r' =>
      have := ih (by simp)
      simp only [List.cons_append, pathCost] at this ⊢
      rw [this, last_cons_cons]; omega

theorem isWalk_append_singleton (G : Graph) (p : Path) (hp : p ≠ []) (x : Nat)
    (hw : IsWalk G p) (hx : x ∈ G.nbrs (last p)) : IsWalk G (p ++ [x]) := by
  induction p with
  | nil => exact absurd rfl hp
  | cons a r ih =>
    cases r with
    | nil => simpa [IsWalk, last_singleton] using hx
    | cons b r' =>
      simp only [List.cons_append, IsWalk] at hw ⊢
      refine ⟨hw.1, ?_⟩
      have := ih (by simp) hw.2 (by rwa [last_cons_cons] at hx)
      simpa using this

theorem head?_append_singleton (p : Path) (hp : p ≠ []) (x : Nat) : (p ++ [x]).head? = p.head? := by
  cases p with
  | nil => exact absurd rfl hp
  | cons a r => rfl

theorem getLast?_eq_some_last (p : Path) (hp : p ≠ []) : p.getLast? = some (last p) := by
  cases h : p.getLast? with
  | none => simp [List.getLast?_eq_none_iff] at h; exact absurd h hp
  | some v => simp [last, List.getLastD_eq_getLast?, h]

theorem reach_extend (G : Graph) (s : Nat) : ∀ (p : Path) (a c0 : Nat), IsWalk G (a :: p) → Reach G s a c0 →
    Reach G s (last (a :: p)) (c0 + pathCost G.cost (a :: p)) := by
  intro p
  induction p with
  | nil => intro a c0 _ h; simpa [pathCost, last_singleton] using h
  | cons b r ih =>
    intro a c0 hw h
    simp only [IsWalk] at hw
    have := ih b (c0 + G.cost a b) hw.2 (Reach.step h hw.1)
    rw [last_cons_cons]
    simp only [pathCost] at this ⊢
    rwa [Nat.add_assoc] at this

/-- a list walk from `s` gives a `Reach` to its last node with its cost -/
theorem reach_of_walk (G : Graph) (s : Nat) (p : Path) (hh : p.head? = some s) (hw : IsWalk G p) :
    Reach G s (last p) (pathCost G.cost p) := by
  cases p with
  | nil => simp at hh
  | cons a r =>
    simp at hh; subst hh
    simpa using reach_extend G a r a 0 hw Reach.base

/-- conversely every `Reach` is witnessed by a list walk -/
theorem walk_of_reach (G : Graph) (s : Nat) {y c : Nat} (h : Reach G s y c) :
    ∃ p : Path, p.head? = some s ∧ p ≠ [] ∧ last p = y ∧ IsWalk G p ∧ pathCost G.cost p = c := by
  induction h with
  | base => exact ⟨[s], rfl, by simp, rfl, trivial, rfl⟩
  | step _ hx ih =>
    obtain ⟨p, hh, hne, hl, hw, hc⟩ := ih
    refine ⟨p ++ [_], ?_, by simp, last_append_singleton _ _, ?_, ?_⟩
    · rw [head?_append_singleton _ hne]; exact hh
    · exact isWalk_append_singleton G p hne _ hw (by rwa [hl])
    · rw [pathCost_append_singleton _ _ hne, hc, hl]

theorem isWalkB_iff (G : Graph) (p : Path) : isWalkB G p = true ↔ IsWalk G p := by
  induction p with
  | nil => simp [isWalkB, IsWalk]
  | cons a r ih =>
    cases r with
    | nil => simp [isWalkB, IsWalk]
    | cons b r' => simp only [isWalkB, IsWalk, Bool.and_eq_true, List.contains_iff_mem, ih]

theorem validPathB_iff (G : Graph) (s g : Nat) (p : Path) : validPathB G s g p = true ↔ ValidPath G s g p := by
  simp [validPathB, ValidPath, isWalkB_iff, and_assoc]

end MV.Lemmas.AStar
