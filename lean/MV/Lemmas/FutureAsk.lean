import MV.Lemmas.FutureRoute
/-!
# Invariants of the future model, part 3: asks whose addresses come from the atomic id counter

Every future is created through `alloc` (no raw `New` with a caller-chosen address): addresses are
pairwise distinct, no future is left un-initialised, whoever works on a future has its handle, and the
nil-rc panic cannot happen.
-/
namespace MV.Model.Future
open MV.Model.Conc

variable {c : Cfg}

def isNew (a : Nat) : PC → Bool
  | .new b _ => decide (b = a)
  | _ => false

/-- **address uniqueness** (atomic id counter) -/
structure UniqInv (s : State) : Prop where
  le : ∀ k, k < s.g.nfut → (s.g.futs k).addr ≤ s.g.guid
  one : ∀ a, s.ths.countP (isNew a) ≤ 1
  above : ∀ a, s.g.guid < a → s.ths.countP (isNew a) = 0
  used : ∀ k, k < s.g.nfut → s.ths.countP (isNew (s.g.futs k).addr) = 0
  inj : ∀ j k, j < s.g.nfut → k < s.g.nfut → (s.g.futs j).addr = (s.g.futs k).addr → j = k

theorem uniq_step (ha : c.atomicAlloc = true) (S : Sys G PC) (hS : S.trans = trans c) (s s' : State) (i : Nat)
    (h : UniqInv s) (hs : step S s i = some s') : UniqInv s' := by
  obtain ⟨pc, pc', sp, hpc, ht, -, hc⟩ := step_spec2 S s s' i hs
  rw [hS] at ht
  obtain ⟨h1, h2, h3, h4, h5⟩ := h
  have hpos := fun a hp => countP_pos_of_mem (p := isNew a) hpc hp
  constructor
  · intro k hk
    have q1 := h1 k; have q3 := h3 (s.g.futs k).addr
    split_trans
    all_goals (
      take_ht
      (try rw [← hg] at hk)
      simp only [upd, execFwd, isNew] at *
      (try grind))
  · intro a
    have k1 := hc (isNew a); have q2 := h2 a; have q3 := h3 a
    split_trans
    all_goals (
      take_ht
      simp only [isNew, if_false, Bool.false_eq_true, List.countP_nil, List.countP_cons, Nat.add_zero] at k1
      (try grind))
  · intro a hgt
    have k1 := hc (isNew a); have q3 := h3 a
    split_trans
    all_goals (
      take_ht
      (try rw [← hg] at hgt)
      simp only [isNew, if_false, Bool.false_eq_true, List.countP_nil, List.countP_cons, Nat.add_zero] at k1
      (try grind))
  · intro k hk
    have q1 := h1 k; have q4 := h4 k
    have k1 := hc (isNew (s.g.futs k).addr)
    have k2 := fun a => hc (isNew a)
    split_trans
    all_goals (
      take_ht
      (try rw [← hg] at hk)
      (try simp only [upd, execFwd] at *)
      simp only [isNew, if_false, Bool.false_eq_true, List.countP_nil, List.countP_cons, Nat.add_zero] at k1 k2
      (try grind))
  · intro j k hj hk
    have q5 := h5 j k; have q4j := h4 j; have q4k := h4 k
    split_trans
    all_goals (
      take_ht
      (try rw [← hg] at hj hk)
      simp only [upd, execFwd, isNew] at *
      (try grind))

/-! ## nobody holds a handle before `New` has returned; no un-initialised future -/

def isInit (k : Nat) : PC → Bool
  | .init j => decide (j = k)
  | .arm j => decide (j = k)
  | _ => false

/-- every future is either still inside its `New` (exactly one thread at `init`/`arm`) or ready -/
def PhaseInv (s : State) : Prop :=
  ∀ k, k < s.g.nfut → s.ths.countP (isInit k) + flag (s.g.futs k).ready = 1

theorem isInit_top (s : State) (hb : BndInv s) (k : Nat) (hk : s.g.nfut ≤ k) :
    s.ths.countP (isInit k) = 0 := by
  apply countP_zero_of
  intro x hx
  have := hb x hx
  cases x <;> simp only [isInit, bnd] at * <;> (try rfl) <;> (simp; omega)

theorem phase_step (S : Sys G PC) (hS : S.trans = trans c) (s s' : State) (i : Nat)
    (hb : BndInv s) (h : PhaseInv s) (hs : step S s i = some s') : PhaseInv s' := by
  obtain ⟨pc, pc', sp, hpc, ht, -, hc⟩ := step_spec2 S s s' i hs
  rw [hS] at ht
  intro k hk
  have k1 := hc (isInit k)
  have h1 := h k
  have hb1 := hb pc hpc
  have hz := isInit_top s hb s.g.nfut (Nat.le_refl _)
  have hpos := countP_pos_of_mem (p := isInit k) hpc
  unfold flag at *
  split_trans
  all_goals (
    take_ht
    (try rw [← hg] at hk)
    simp only [isInit, if_false, Bool.false_eq_true, List.countP_nil, List.countP_cons, Nat.add_zero] at k1 hpos
    simp only [upd, bnd, execFwd] at *
    grind)

/-- what a thread's position says about the future it works on (all monotone) -/
def live (g : G) : PC → Prop
  | .arm k => (g.futs k).rcSet = true ∧ (g.futs k).tmo = true
  | .timer k => (g.futs k).rcSet = true ∧ (g.futs k).ready = true
  | .dLoad k _ | .dMsg k _ | .cas k _ _ | .setRes k _ _ | .closeDone k | .stopT k | .unreg k | .cLock k
  | .fLock k _ | .rWait k | .rRead k => (g.futs k).ready = true
  | _ => True

theorem live_mono (g g' : G) (hm : Mono g g') (x : PC) (hb : bnd g.nfut x) (hx : live g x) : live g' x := by
  have h1 := hm.rcSet; have h2 := hm.ready; have h3 := hm.tmo
  cases x <;> simp only [live, bnd] at * <;> grind

/-- **asks only**: handles exist only of initialised futures, and every thread past a gate works on
a future whose `New` has returned -/
structure LiveInv (s : State) : Prop where
  th : ∀ x ∈ s.ths, live s.g x
  rc : ∀ k, k < s.g.nfut → (s.g.futs k).ready = true → (s.g.futs k).rcSet = true
  closed : ∀ k, k < s.g.nfut → (s.g.futs k).closed = true → (s.g.futs k).ready = true
  crash : s.g.crashes = 0

theorem live_step (S : Sys G PC) (hS : S.trans = trans c) (s s' : State) (i : Nat)
    (hr : RegInv s) (hb : BndInv s) (hu : UniqInv s) (h : LiveInv s) (hs : step S s i = some s') :
    LiveInv s' := by
  obtain ⟨pc, pc', sp, hpc, ht, hmem, -⟩ := step_spec2 S s s' i hs
  have hb1 := hb pc hpc
  have hl1 := h.th pc hpc
  rw [hS] at ht
  have hm := trans_mono _ _ _ _ _ ht
  have hrc := h.rc
  have hcr := h.crash
  have hinj := hu.inj
  have hused := hu.used
  have hpos := fun a => countP_pos_of_mem (p := isNew a) hpc
  unfold RegInv at hr
  constructor
  · intro x hx
    rcases hmem x hx with rfl | hx | hx
    · clear hmem
      split_trans
      all_goals (
        take_ht
        simp only [live, bnd, upd, execFwd, isNew] at *
        (try grind))
    · clear hmem
      split_trans
      all_goals (
        obtain ⟨hg, hp, hsp⟩ := ht; subst hp; subst hsp; (try rw [← hg])
        simp only [List.mem_cons, List.not_mem_nil, or_false] at hx
        (try (subst hx; simp only [live, upd, bnd] at *; grind)))
    · exact live_mono _ _ hm x (hb x hx) (h.th x hx)
  · intro k hk
    clear hmem
    split_trans
    all_goals (
      take_ht
      (try rw [← hg] at hk)
      simp only [live, bnd, upd, execFwd, isNew] at *
      (try grind))
  · intro k hk
    have hcl := h.closed k
    clear hmem
    split_trans
    all_goals (
      take_ht
      (try rw [← hg] at hk)
      simp only [live, bnd, upd, execFwd, isNew] at *
      (try grind))
  · clear hmem
    split_trans
    all_goals (
      take_ht
      simp only [live, bnd, execFwd] at *
      (try grind))

end MV.Model.Future
