import MV.Model.Civil
/-!
# Lemmas about the civil-calendar model (Hinnant's algorithms)

`omega` decides the linear integer facts once the nested quotients are pinned down one at a time
(it has no dark/grey shadows, so the composite quotient `yoeOfDoe` needs the staged decomposition
`doe = 36524·c + 1461·q + 365·j + t` first).
-/
namespace MV.Model.Civil


theorem doe_decomp (doe : Int) (h0 : 0 ≤ doe) (h1 : doe ≤ 146096) :
    ∃ c q j t : Int, 0 ≤ c ∧ c ≤ 3 ∧ 0 ≤ q ∧ q ≤ 24 ∧ 0 ≤ j ∧ j ≤ 3 ∧ 0 ≤ t ∧
      doe = 36524 * c + 1461 * q + 365 * j + t ∧
      (t ≤ 364 ∨ (t = 365 ∧ j = 3 ∧ (q ≤ 23 ∨ c = 3))) := by
  let c := if doe / 36524 = 4 then 3 else doe / 36524
  let r := doe - 36524 * c
  let q := if r / 1461 = 25 then 24 else r / 1461
  let s := r - 1461 * q
  let j := if s / 365 = 4 then 3 else s / 365
  refine ⟨c, q, j, s - 365 * j, ?_⟩
  simp only [c, q, j, s, r]
  split <;> split <;> split <;> omega

theorem yoe_eq (c q j t : Int) (hc0 : 0 ≤ c) (hc : c ≤ 3) (hq0 : 0 ≤ q) (hq : q ≤ 24) (hj0 : 0 ≤ j) (hj : j ≤ 3)
    (ht0 : 0 ≤ t) (ht : t ≤ 364 ∨ (t = 365 ∧ j = 3 ∧ (q ≤ 23 ∨ c = 3))) :
    yoeOfDoe (36524 * c + 1461 * q + 365 * j + t) = 100 * c + 4 * q + j := by
  unfold yoeOfDoe
  generalize hd : 36524 * c + 1461 * q + 365 * j + t = doe
  have h1 : doe / 36524 = c ∨ (doe / 36524 = 4 ∧ c = 3 ∧ q = 24 ∧ j = 3 ∧ t = 365) := by omega
  have h2 : doe / 146096 = 0 ∨ (doe / 146096 = 1 ∧ c = 3 ∧ q = 24 ∧ j = 3 ∧ t = 365) := by omega
  have h3 : doe / 1460 = 25 * c + q ∨ (doe / 1460 = 25 * c + q + 1 ∧ 24 * c + q + 365 * j + t ≥ 1460) := by omega
  omega

/-- the year-of-era is the one whose March-based year contains the era day -/
theorem yoe_spec (doe : Int) (h0 : 0 ≤ doe) (h1 : doe ≤ 146096) :
    0 ≤ yoeOfDoe doe ∧ yoeOfDoe doe ≤ 399 ∧
    0 ≤ doe - (365 * yoeOfDoe doe + yoeOfDoe doe / 4 - yoeOfDoe doe / 100) ∧
    (doe - (365 * yoeOfDoe doe + yoeOfDoe doe / 4 - yoeOfDoe doe / 100) ≤ 364 ∨
      (doe - (365 * yoeOfDoe doe + yoeOfDoe doe / 4 - yoeOfDoe doe / 100) = 365 ∧
        (yoeOfDoe doe + 1) % 4 = 0 ∧ ((yoeOfDoe doe + 1) % 100 ≠ 0 ∨ (yoeOfDoe doe + 1) = 400))) := by
  obtain ⟨c, q, j, t, hc0, hc, hq0, hq, hj0, hj, ht0, hd, ht⟩ := doe_decomp doe h0 h1
  have hy := yoe_eq c q j t hc0 hc hq0 hq hj0 hj ht0 ht
  subst hd
  rw [hy]
  have f1 : (100 * c + 4 * q + j) / 4 = 25 * c + q := by omega
  have f2 : (100 * c + 4 * q + j) / 100 = c := by omega
  rw [f1, f2]
  omega

theorem daysFromCivil_civilFromDays (z : Int) :
    daysFromCivil (civilFromDays z).1 (civilFromDays z).2.1 (civilFromDays z).2.2 = z := by
  unfold civilFromDays
  dsimp only
  generalize hera : (z + 719468) / 146097 = era
  generalize hdoe : z + 719468 - era * 146097 = doe
  have h0 : 0 ≤ doe := by omega
  have h1 : doe ≤ 146096 := by omega
  obtain ⟨hy0, hy1, hd0, hd1⟩ := yoe_spec doe h0 h1
  generalize hyoe : yoeOfDoe doe = yoe at *
  generalize hdoy : doe - (365 * yoe + yoe / 4 - yoe / 100) = doy at *
  generalize hmp : (5 * doy + 2) / 153 = mp
  have hmp0 : 0 ≤ mp := by omega
  have hmp1 : mp ≤ 11 := by omega
  have hera' : (yoe + era * 400) / 400 = era := by omega
  unfold daysFromCivil
  dsimp only
  by_cases hlt : mp < 10
  · have hm1 : ¬ (mp + 3 ≤ 2) := by omega
    have hm2 : mp + 3 > 2 := by omega
    have e2 : yoe + era * 400 - era * 400 = yoe := by omega
    have e3 : mp + 3 - 3 = mp := by omega
    simp only [hlt, if_true, hm1, if_false, hm2, hera', e2, e3]
    omega
  · have hm1 : mp - 9 ≤ 2 := by omega
    have hm2 : ¬ (mp - 9 > 2) := by omega
    have e1 : yoe + era * 400 + 1 - 1 = yoe + era * 400 := by omega
    have e2 : yoe + era * 400 - era * 400 = yoe := by omega
    have e3 : mp - 9 + 9 = mp := by omega
    simp only [hlt, if_false, hm1, if_true, hm2, e1, hera', e2, e3]
    omega
theorem isLeap_iff (y : Int) : isLeap y = true ↔ ((y % 4 = 0 ∧ y % 100 ≠ 0) ∨ y % 400 = 0) := by
  simp [isLeap]

/-- month lengths as arithmetic facts (omega-friendly) -/
theorem daysInMonth_eq (y m : Int) (h1 : 1 ≤ m) (h2 : m ≤ 12) :
    (m = 2 → (((y % 4 = 0 ∧ y % 100 ≠ 0) ∨ y % 400 = 0) → daysInMonth y m = 29) ∧
             (¬ ((y % 4 = 0 ∧ y % 100 ≠ 0) ∨ y % 400 = 0) → daysInMonth y m = 28)) ∧
    ((m = 4 ∨ m = 6 ∨ m = 9 ∨ m = 11) → daysInMonth y m = 30) ∧
    ((m = 1 ∨ m = 3 ∨ m = 5 ∨ m = 7 ∨ m = 8 ∨ m = 10 ∨ m = 12) → daysInMonth y m = 31) := by
  have hm : m = 1 ∨ m = 2 ∨ m = 3 ∨ m = 4 ∨ m = 5 ∨ m = 6 ∨ m = 7 ∨ m = 8 ∨ m = 9 ∨ m = 10 ∨ m = 11 ∨ m = 12 := by omega
  rcases hm with h | h | h | h | h | h | h | h | h | h | h | h <;> subst h <;> simp [daysInMonth, isLeap_iff] <;> omega

theorem yoe_unique (yoe doy : Int) (h0 : 0 ≤ yoe) (h1 : yoe ≤ 399) (hd0 : 0 ≤ doy)
    (hd : doy ≤ 364 ∨ (doy = 365 ∧ (yoe + 1) % 4 = 0 ∧ ((yoe + 1) % 100 ≠ 0 ∨ yoe + 1 = 400))) :
    yoeOfDoe (yoe * 365 + yoe / 4 - yoe / 100 + doy) = yoe := by
  have e : yoe * 365 + yoe / 4 - yoe / 100 + doy
      = 36524 * (yoe / 100) + 1461 * (yoe % 100 / 4) + 365 * (yoe % 4) + doy := by omega
  rw [e, yoe_eq] <;> omega

theorem civilFromDays_daysFromCivil (y m d : Int) (hm1 : 1 ≤ m) (hm2 : m ≤ 12) (hd1 : 1 ≤ d)
    (hd2 : d ≤ daysInMonth y m) : civilFromDays (daysFromCivil y m d) = (y, m, d) := by
  have hdim := daysInMonth_eq y m hm1 hm2
  unfold daysFromCivil
  dsimp only
  generalize hy' : (if m ≤ 2 then y - 1 else y) = y'
  generalize hmp : (if m > 2 then m - 3 else m + 9) = mp
  generalize hera : y' / 400 = era
  generalize hyoe : y' - era * 400 = yoe
  generalize hdoy : (153 * mp + 2) / 5 + d - 1 = doy
  have hyoe0 : 0 ≤ yoe := by omega
  have hyoe1 : yoe ≤ 399 := by omega
  have hmp0 : 0 ≤ mp := by split at hmp <;> omega
  have hmp1 : mp ≤ 11 := by split at hmp <;> omega
  have hmm : (m = mp + 3 ∧ mp < 10 ∧ y' = y) ∨ (m = mp - 9 ∧ 10 ≤ mp ∧ y' = y - 1) := by
    split at hmp <;> split at hy' <;> omega
  have hdoy0 : 0 ≤ doy := by omega
  -- the day-of-year is inside the March-based year
  have hdoyv : doy ≤ 364 ∨ (doy = 365 ∧ (yoe + 1) % 4 = 0 ∧ ((yoe + 1) % 100 ≠ 0 ∨ yoe + 1 = 400)) := by
    have hmpc : mp = 0 ∨ mp = 1 ∨ mp = 2 ∨ mp = 3 ∨ mp = 4 ∨ mp = 5 ∨ mp = 6 ∨ mp = 7 ∨ mp = 8 ∨ mp = 9 ∨ mp = 10 ∨ mp = 11 := by omega
    rcases hmpc with h | h | h | h | h | h | h | h | h | h | h | h <;> subst h <;> omega
  have hmpr : (5 * doy + 2) / 153 = mp := by
    have hmpc : mp = 0 ∨ mp = 1 ∨ mp = 2 ∨ mp = 3 ∨ mp = 4 ∨ mp = 5 ∨ mp = 6 ∨ mp = 7 ∨ mp = 8 ∨ mp = 9 ∨ mp = 10 ∨ mp = 11 := by omega
    rcases hmpc with h | h | h | h | h | h | h | h | h | h | h | h <;> subst h <;> omega
  have hyq := yoe_unique yoe doy hyoe0 hyoe1 hdoy0 hdoyv
  generalize hdoe : yoe * 365 + yoe / 4 - yoe / 100 + doy = doe at hyq
  have hdoe0 : 0 ≤ doe := by omega
  have hdoe1 : doe ≤ 146096 := by omega
  unfold civilFromDays
  dsimp only
  have e1 : era * 146097 + doe - 719468 + 719468 = era * 146097 + doe := by omega
  have e2 : (era * 146097 + doe) / 146097 = era := by omega
  have e3 : era * 146097 + doe - era * 146097 = doe := by omega
  rw [e1, e2, e3, hyq]
  have e4 : doe - (365 * yoe + yoe / 4 - yoe / 100) = doy := by omega
  rw [e4, hmpr]
  rcases hmm with ⟨a, b, c⟩ | ⟨a, b, c⟩
  · have g1 : mp < 10 := b
    have g2 : ¬ (mp + 3 ≤ 2) := by omega
    simp only [g1, if_true, g2, if_false]
    refine Prod.ext ?_ (Prod.ext ?_ ?_) <;> dsimp only <;> omega
  · have g1 : ¬ (mp < 10) := by omega
    have g2 : mp - 9 ≤ 2 := by omega
    simp only [g1, if_false, g2, if_true]
    refine Prod.ext ?_ (Prod.ext ?_ ?_) <;> dsimp only <;> omega

theorem daysFromCivil_day (y m d k : Int) : daysFromCivil y m (d + k) = daysFromCivil y m d + k := by
  unfold daysFromCivil; dsimp only; omega

theorem daysFromCivil_add400 (y m d : Int) : daysFromCivil (y + 400) m d = daysFromCivil y m d + 146097 := by
  unfold daysFromCivil; dsimp only
  split <;> omega

theorem daysFromCivil_month_step (y m : Int) (h1 : 1 ≤ m) (h2 : m ≤ 11) :
    daysFromCivil y (m + 1) 1 = daysFromCivil y m 1 + daysInMonth y m := by
  have hdim := daysInMonth_eq y m h1 (by omega)
  have hm : m = 1 ∨ m = 2 ∨ m = 3 ∨ m = 4 ∨ m = 5 ∨ m = 6 ∨ m = 7 ∨ m = 8 ∨ m = 9 ∨ m = 10 ∨ m = 11 := by omega
  unfold daysFromCivil; dsimp only
  rcases hm with h | h | h | h | h | h | h | h | h | h | h <;> subst h <;> (repeat' split) <;> omega

theorem daysFromCivil_year_step (y : Int) :
    daysFromCivil (y + 1) 1 1 = daysFromCivil y 12 1 + 31 := by
  unfold daysFromCivil; dsimp only
  repeat' split
  all_goals omega
example : daysFromCivil 1970 1 1 = 0 := by decide


theorem civilFromDays_valid (z : Int) :
    1 ≤ (civilFromDays z).2.1 ∧ (civilFromDays z).2.1 ≤ 12 ∧ 1 ≤ (civilFromDays z).2.2 ∧
      (civilFromDays z).2.2 ≤ daysInMonth (civilFromDays z).1 (civilFromDays z).2.1 := by
  unfold civilFromDays
  dsimp only
  generalize hera : (z + 719468) / 146097 = era
  generalize hdoe : z + 719468 - era * 146097 = doe
  have h0 : 0 ≤ doe := by omega
  have h1 : doe ≤ 146096 := by omega
  obtain ⟨hy0, hy1, hd0, hd1⟩ := yoe_spec doe h0 h1
  generalize hyoe : yoeOfDoe doe = yoe at *
  generalize hdoy : doe - (365 * yoe + yoe / 4 - yoe / 100) = doy at *
  generalize hmp : (5 * doy + 2) / 153 = mp
  have hmp0 : 0 ≤ mp := by omega
  have hmp1 : mp ≤ 11 := by omega
  have hmpc : mp = 0 ∨ mp = 1 ∨ mp = 2 ∨ mp = 3 ∨ mp = 4 ∨ mp = 5 ∨ mp = 6 ∨ mp = 7 ∨ mp = 8 ∨ mp = 9 ∨ mp = 10 ∨ mp = 11 := by omega
  by_cases hlt : mp < 10
  · have hm1 : ¬ (mp + 3 ≤ 2) := by omega
    simp only [hlt, if_true, hm1, if_false]
    have hdim := daysInMonth_eq (yoe + era * 400) (mp + 3) (by omega) (by omega)
    rcases hmpc with h | h | h | h | h | h | h | h | h | h | h | h <;> subst h <;> omega
  · have hm1 : mp - 9 ≤ 2 := by omega
    simp only [hlt, if_false, hm1, if_true]
    have hdim := daysInMonth_eq (yoe + era * 400 + 1) (mp - 9) (by omega) (by omega)
    rcases hmpc with h | h | h | h | h | h | h | h | h | h | h | h <;> subst h <;> omega

theorem civilFromDays_add146097 (z : Int) :
    civilFromDays (z + 146097) = ((civilFromDays z).1 + 400, (civilFromDays z).2.1, (civilFromDays z).2.2) := by
  unfold civilFromDays
  dsimp only
  have e1 : (z + 146097 + 719468) / 146097 = (z + 719468) / 146097 + 1 := by omega
  have e2 : z + 146097 + 719468 - ((z + 719468) / 146097 + 1) * 146097 = z + 719468 - (z + 719468) / 146097 * 146097 := by omega
  rw [e1, e2]
  refine Prod.ext ?_ (Prod.ext ?_ ?_) <;> dsimp only
  split <;> omega

theorem weekdayOfDays_add146097 (z : Int) : weekdayOfDays (z + 146097) = weekdayOfDays z := by
  unfold weekdayOfDays; omega

theorem daysFromCivil_inj (y m d y' m' d' : Int) (h1 : 1 ≤ m) (h2 : m ≤ 12) (h3 : 1 ≤ d) (h4 : d ≤ daysInMonth y m)
    (h1' : 1 ≤ m') (h2' : m' ≤ 12) (h3' : 1 ≤ d') (h4' : d' ≤ daysInMonth y' m')
    (h : daysFromCivil y m d = daysFromCivil y' m' d') : y = y' ∧ m = m' ∧ d = d' := by
  have a := civilFromDays_daysFromCivil y m d h1 h2 h3 h4
  have b := civilFromDays_daysFromCivil y' m' d' h1' h2' h3' h4'
  rw [h, b] at a
  simp only [Prod.mk.injEq] at a
  omega

end MV.Model.Civil
