import MV.Lemmas.ActorSysWP
/-!
# Which handler invocations a turn can record

`EvOk R E0 w`: the event record of `w` extends `E0` by events that all satisfy `R`.
For every function of the model we prove `Stable (EvOk (Rh self ok) E0)`: a turn of actor `self`
records handler invocations of `self` only, and only with observations allowed by `ok`.
-/
namespace MV.Model.ActorSys
open Std.Do

def EvOk (R : Event → Prop) (E0 : List Event) (w : World) : Prop :=
  ∃ es, w.events = E0 ++ es ∧ ∀ e ∈ es, R e

theorem EvOk.of_events_eq {R E0} {w w' : World} (h : EvOk R E0 w) (he : w'.events = w.events) :
    EvOk R E0 w' := by
  obtain ⟨es, h1, h2⟩ := h
  exact ⟨es, by rw [he, h1], h2⟩

theorem EvOk.append {R E0} {w w' : World} {e : Event} (h : EvOk R E0 w) (hr : R e)
    (he : w'.events = w.events ++ [e]) : EvOk R E0 w' := by
  obtain ⟨es, h1, h2⟩ := h
  refine ⟨es ++ [e], by rw [he, h1, List.append_assoc], ?_⟩
  intro x hx
  rcases List.mem_append.mp hx with h | h
  · exact h2 x h
  · simp at h; subst h; exact hr

theorem EvOk.refl (R : Event → Prop) (w : World) : EvOk R w.events w := ⟨[], by simp, by simp⟩

/-- closes the routine verification conditions of a `Stable` proof -/
macro "st_close" : tactic => `(tactic| (
  all_goals (try assumption)
  all_goals (try exact EvOk.of_events_eq (by assumption) rfl)
  all_goals (try exact ExceptConds.entails.rfl)
  all_goals (try (intros; assumption))))

/-- handler invocations are by `self` and observe something allowed; other events are unrestricted -/
def Rh (self : Aid) (ok : Obs → Prop) : Event → Prop
  | .handled a _ o _ => a = self ∧ ok o
  | _ => True

section
variable (R : Event → Prop) (E0 : List Event)

local notation "P" => EvOk R E0

theorem getA_st (a : Aid) : Stable P (getA a) := by
  unfold Stable getA; mvcgen

attribute [local spec] getA_st

theorem modA_st (a : Aid) (f : Actor → Actor) : Stable P (modA a f) := by
  unfold Stable modA; mvcgen


attribute [local spec] modA_st

theorem pushSys_st (t : Aid) (m : SMsg) (s : Option Aid) : Stable P (pushSys t m s) := by
  unfold Stable pushSys; mvcgen

attribute [local spec] pushSys_st

theorem pushUser_st (t : Aid) (m : UMsg) (s : Option Aid) : Stable P (pushUser t m s) := by
  unfold Stable pushUser; mvcgen

attribute [local spec] pushUser_st

theorem sendSys_st (t : Aid) (m : SMsg) (s : Option Aid) : Stable P (sendSys t m s) := by
  unfold Stable sendSys; mvcgen

attribute [local spec] sendSys_st

theorem abyssUser_st (t : Aid) (m : UMsg) (s : Option Aid) : Stable P (abyssUser t m s) := by
  unfold Stable abyssUser; mvcgen

attribute [local spec] abyssUser_st

theorem sendUser_st (t : Aid) (m : UMsg) (s : Option Aid) : Stable P (sendUser t m s) := by
  unfold Stable sendUser; mvcgen

attribute [local spec] sendUser_st

theorem terminateReq_st (a t : Aid) (g : Bool) : Stable P (terminateReq a t g) := by
  unfold Stable terminateReq; mvcgen

attribute [local spec] terminateReq_st

theorem spawnChild_st' (hR : ∀ e, (∀ a i o s, e ≠ .handled a i o s) → R e) (parent : Aid) (beh : Nat) :
    Stable P (spawnChild parent beh) := by
  unfold Stable spawnChild; mvcgen
  all_goals exact EvOk.append (by assumption) (hR _ (by simp)) rfl


end

attribute [local spec] getA_st modA_st pushSys_st pushUser_st sendSys_st abyssUser_st sendUser_st terminateReq_st

theorem Rh_other (self : Aid) (ok : Obs → Prop) (e : Event) (h : ∀ a i o s, e ≠ .handled a i o s) : Rh self ok e := by
  cases e with
  | handled a i o s => exact absurd rfl (h a i o s)
  | _ => simp [Rh]

section
variable (self : Aid) (ok : Obs → Prop) (E0 : List Event)

local notation "P" => EvOk (Rh self ok) E0

theorem spawnChild_st (parent : Aid) (beh : Nat) : Stable P (spawnChild parent beh) :=
  spawnChild_st' (Rh self ok) E0 (Rh_other self ok) parent beh

attribute [local spec] spawnChild_st

theorem terminateCall_st (a t : Aid) (g : Bool) : Stable P (terminateCall a t g) := by
  unfold Stable terminateCall; mvcgen
  st_close
  all_goals (try exact EvOk.append (by assumption) (by simp [Rh]) rfl)
attribute [local spec] terminateCall_st

theorem runAction_st (a : Action) : Stable P (runAction self a) := by
  unfold Stable; cases a <;> unfold runAction <;> mvcgen
  all_goals (try exact EvOk.append (by assumption) (by simp [Rh]) rfl)

attribute [local spec] runAction_st

theorem runActions_st (as : List Action) : Stable P (runActions self as) := by
  induction as with
  | nil => unfold Stable runActions; mvcgen
  | cons a as ih => unfold Stable runActions; mvcgen [ih]

attribute [local spec] runActions_st

theorem handle_st (obs : Obs) (h : ok obs) : Stable P (handle self obs) := by
  unfold Stable handle; mvcgen
  all_goals (try exact EvOk.append (by assumption) (by simp [Rh, h]) rfl)

attribute [local spec] handle_st

theorem userTurn_st (obs : Obs) (s : Option Aid) (h : ok obs) : Stable P (userTurn self obs s) := by
  unfold Stable userTurn; mvcgen
  all_goals (try assumption)

attribute [local spec] userTurn_st

theorem tryTerminated_st (h : ok (.terminated self)) : Stable P (tryTerminated self) := by
  unfold Stable tryTerminated; mvcgen
  case inv1 => exact post⟨fun _ w => ⌜P w⌝, fun _ w => ⌜P w⌝⟩
  st_close

attribute [local spec] tryTerminated_st

theorem tryRestarted_st (h1 : ok .terminate) (h2 : ok (.terminated self)) : Stable P (tryRestarted self) := by
  unfold Stable tryRestarted; mvcgen
  st_close

attribute [local spec] tryRestarted_st

theorem onTerminate_st (g : Bool) (h1 : ok .terminate) (h2 : ok (.terminated self)) :
    Stable P (onTerminate self g) := by
  unfold Stable onTerminate; mvcgen
  case inv1 => exact post⟨fun _ w => ⌜P w⌝, fun _ w => ⌜P w⌝⟩
  st_close

attribute [local spec] onTerminate_st

theorem onTerminated_st (who : Aid) (h0 : ok (.terminated who)) (h1 : ok .terminate)
    (h2 : ok (.terminated self)) : Stable P (onTerminated self who) := by
  unfold Stable onTerminated; mvcgen
  st_close

attribute [local spec] onTerminated_st

theorem onRestart_st (h0 : ok .restarting) (h1 : ok .terminate) (h2 : ok (.terminated self)) :
    Stable P (onRestart self) := by
  unfold Stable onRestart; mvcgen
  case inv1 => exact post⟨fun _ w => ⌜P w⌝, fun _ w => ⌜P w⌝⟩
  st_close

attribute [local spec] onRestart_st

theorem escalate_st (victim : Aid) : Stable P (escalate self victim) := by
  unfold Stable escalate; mvcgen
  st_close

attribute [local spec] escalate_st

theorem decide_st (victim : Aid) (st : Strategy) (h2 : ok (.terminated self)) :
    Stable P (decide self victim st) := by
  unfold Stable decide; mvcgen
  st_close
  all_goals (try exact EvOk.append (by assumption) (by simp [Rh]) rfl)

attribute [local spec] decide_st

theorem onAccident_st (victim : Aid) (h2 : ok (.terminated self)) : Stable P (onAccident self victim) := by
  unfold Stable onAccident; mvcgen
  st_close

attribute [local spec] onAccident_st

theorem onWatch_st (s : Option Aid) : Stable P (onWatch self s) := by
  unfold Stable onWatch; mvcgen
  st_close

attribute [local spec] onWatch_st

theorem onUnWatch_st (s : Option Aid) : Stable P (onUnWatch self s) := by
  unfold Stable onUnWatch; mvcgen
  st_close

attribute [local spec] onUnWatch_st

end

attribute [local spec] spawnChild_st runAction_st runActions_st handle_st userTurn_st tryTerminated_st tryRestarted_st
  onTerminate_st onTerminated_st onRestart_st escalate_st decide_st onAccident_st onWatch_st onUnWatch_st

/-- observations a system-message turn can show to the handler: never a user message -/
def sysObs : Obs → Prop
  | .user _ | .dead _ _ => False
  | _ => True

/-- **a system-message turn of `self` records handler invocations of `self` only, none of them a
user message** -/
theorem sysTurn_st (self : Aid) (E0 : List Event) (m : SMsg) (s : Option Aid) :
    Stable (EvOk (Rh self sysObs) E0) (sysTurn self m s) := by
  unfold Stable sysTurn; mvcgen
  st_close
  all_goals (try (intros; simp [sysObs]))

theorem subPublish_st (self : Aid) (ok : Obs → Prop) (E0 : List Event) (inner : UMsg) (s : Option Aid) :
    Stable (EvOk (Rh self ok) E0) (subPublish inner s) := by
  unfold Stable subPublish; mvcgen
  case inv1 => exact post⟨fun _ w => ⌜EvOk (Rh self ok) E0 w⌝, fun _ w => ⌜EvOk (Rh self ok) E0 w⌝⟩
  st_close

attribute [local spec] subPublish_st

/-- **a user-message turn of `self` records handler invocations of `self` only** -/
theorem usrTurn_st (self : Aid) (E0 : List Event) (m : UMsg) (s : Option Aid) :
    Stable (EvOk (Rh self (fun _ => True)) E0) (usrTurn self m s) := by
  unfold Stable usrTurn; mvcgen
  st_close
  all_goals (try (intros; simp [sysObs]))

/-- a terminated actor's system turn records no handler invocation at all -/
theorem deadTurn_st (self : Aid) (ok : Obs → Prop) (E0 : List Event) (m : SMsg) (s : Option Aid) :
    Stable (EvOk (Rh self ok) E0) (deadTurn self m s) := by
  unfold Stable deadTurn; mvcgen
  st_close

theorem abyssUser_st' (self : Aid) (ok : Obs → Prop) (E0 : List Event) (t : Aid) (m : UMsg) (s : Option Aid) :
    Stable (EvOk (Rh self ok) E0) (abyssUser t m s) := abyssUser_st _ _ t m s

theorem sendSys_st' (self : Aid) (ok : Obs → Prop) (E0 : List Event) (t : Aid) (m : SMsg) (s : Option Aid) :
    Stable (EvOk (Rh self ok) E0) (sendSys t m s) := sendSys_st _ _ t m s

theorem sendUser_st' (self : Aid) (ok : Obs → Prop) (E0 : List Event) (t : Aid) (m : UMsg) (s : Option Aid) :
    Stable (EvOk (Rh self ok) E0) (sendUser t m s) := sendUser_st _ _ t m s

theorem terminateCall_st' (self : Aid) (ok : Obs → Prop) (E0 : List Event) (a t : Aid) (g : Bool) :
    Stable (EvOk (Rh self ok) E0) (terminateCall a t g) := terminateCall_st self ok E0 a t g

theorem spawnTop_st (self : Aid) (ok : Obs → Prop) (E0 : List Event) (beh : Nat) :
    Stable (EvOk (Rh self ok) E0) (do let _ ← spawnChild 0 beh) := by
  unfold Stable; mvcgen
  st_close

theorem reportAbnormal_st (self : Aid) (ok : Obs → Prop) (E0 : List Event) :
    Stable (EvOk (Rh self ok) E0) (reportAbnormal self) := by
  unfold Stable reportAbnormal; mvcgen
  st_close

end MV.Model.ActorSys
