import MV.Model.Address
namespace MV.Lemmas.Address
open MV.Model.Address

theorem hasSlashPrefix_cons (n : List Char) : hasSlashPrefix ('/' :: n) = true := rfl

theorem normName_root (n : List Char) : normName ['/'] n = n := by
  simp [normName]

theorem normName_of_slash {ld n : List Char} (h : hasSlashPrefix n = true) : normName ld n = n := by
  simp [normName, h]

theorem normName_of_noslash {ld n : List Char} (hl : ld ≠ ['/']) (h : hasSlashPrefix n = false) :
    normName ld n = '/' :: n := by
  simp [normName, hl, h]

/-- the normalised name always starts with `/` under a non-root parent -/
theorem normName_slash {ld n : List Char} (hl : ld ≠ ['/']) : hasSlashPrefix (normName ld n) = true := by
  cases h : hasSlashPrefix n
  · rw [normName_of_noslash hl h]; rfl
  · rw [normName_of_slash h]; exact h

theorem derivation_eq_iff_norm (p : Pid) (n1 n2 : List Char) :
    derivation p n1 = derivation p n2 ↔ normName p.logical n1 = normName p.logical n2 := by
  unfold derivation
  constructor
  · intro h
    have := congrArg Pid.logical h
    simpa using this
  · intro h; rw [h]

/-- exact characterisation of when two names normalise to the same suffix -/
theorem normName_eq_iff (ld n1 n2 : List Char) :
    normName ld n1 = normName ld n2 ↔
      (n1 = n2 ∨ (ld ≠ ['/'] ∧
        ((hasSlashPrefix n1 = false ∧ n2 = '/' :: n1) ∨ (hasSlashPrefix n2 = false ∧ n1 = '/' :: n2)))) := by
  by_cases hl : ld = ['/']
  · subst hl; simp [normName_root]
  · cases h1 : hasSlashPrefix n1 <;> cases h2 : hasSlashPrefix n2
    · rw [normName_of_noslash hl h1, normName_of_noslash hl h2]
      constructor
      · intro h; left; simpa using h
      · rintro (h | ⟨_, ⟨_, h⟩ | ⟨_, h⟩⟩)
        · rw [h]
        · rw [h] at h2; simp [hasSlashPrefix] at h2
        · rw [h] at h1; simp [hasSlashPrefix] at h1
    · rw [normName_of_noslash hl h1, normName_of_slash h2]
      constructor
      · intro h; right; exact ⟨hl, Or.inl ⟨rfl, h.symm⟩⟩
      · rintro (h | ⟨_, ⟨_, h⟩ | ⟨h, _⟩⟩)
        · rw [h] at h1; rw [h1] at h2; cases h2
        · exact h.symm
        · cases h
    · rw [normName_of_slash h1, normName_of_noslash hl h2]
      constructor
      · intro h; right; exact ⟨hl, Or.inr ⟨rfl, h⟩⟩
      · rintro (h | ⟨_, ⟨h, _⟩ | ⟨_, h⟩⟩)
        · rw [h] at h1; rw [h1] at h2; cases h2
        · cases h
        · exact h
    · rw [normName_of_slash h1, normName_of_slash h2]
      constructor
      · intro h; left; exact h
      · rintro (h | ⟨_, ⟨h, _⟩ | ⟨h, _⟩⟩)
        · exact h
        · cases h
        · cases h

end MV.Lemmas.Address
