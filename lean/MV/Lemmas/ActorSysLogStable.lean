import MV.Lemmas.ActorSysTree
/-!
# "The handler of `self` has been shown OnTerminate" survives the action layer

`HT self w`: the current incarnation of `self` has an `OnTerminate` entry in its handler record.  None of the
functions user code can reach through its actions (`tell/ask/reply/spawn/kill/watch/unwatch/panic`) removes
entries from a log or changes an incarnation counter, so `HT self` is stable under `runActions`.
(Same development as `ActorSysStatus.lean`, for a predicate closed under log-extending updates.)
-/
namespace MV.Model.ActorSys
open Std.Do

def HT (self : Aid) (w : World) : Prop := hasT (actorAt w self) ∧ self < nA w

/-- an update that only extends the log and keeps the incarnation counter -/
def LogExt (f : Actor → Actor) : Prop := ∀ x, (∃ l, (f x).log = x.log ++ l) ∧ (f x).inc = x.inc

theorem HT.modify {self a : Aid} {w : World} {f : Actor → Actor} (h : HT self w) (hf : LogExt f) :
    HT self { w with actors := w.actors.modify a f } := by
  obtain ⟨⟨s, hs⟩, hlt⟩ := h
  refine ⟨?_, by simpa [nA] using hlt⟩
  rw [actorAt_mod]
  split
  · rename_i hab; obtain ⟨hab, _⟩ := hab; subst hab
    obtain ⟨⟨l, hl⟩, hi⟩ := hf (actorAt w a)
    exact ⟨s, by rw [hl, hi]; exact List.mem_append_left _ hs⟩
  · exact ⟨s, hs⟩

theorem HT.append {self : Aid} {w : World} {c : Actor} (h : HT self w) :
    HT self { w with actors := w.actors ++ [c] } := by
  obtain ⟨ht, hlt⟩ := h
  refine ⟨?_, by simp only [nA, List.length_append, List.length_singleton] at hlt ⊢; exact Nat.lt_succ_of_lt hlt⟩
  unfold actorAt at *
  rw [List.getElem?_append_left hlt]; exact ht

theorem HT.of_actors_eq {self : Aid} {w w' : World} (h : HT self w) (he : w'.actors = w.actors) : HT self w' := by
  unfold HT actorAt nA at *; rw [he]; exact h

structure LogClosed (P : World → Prop) : Prop where
  modify : ∀ (w : World) (a : Aid) (f : Actor → Actor), LogExt f → P w → P { w with actors := w.actors.modify a f }
  append : ∀ (w : World) (c : Actor), P w → P { w with actors := w.actors ++ [c] }
  actors : ∀ (w w' : World), w'.actors = w.actors → P w → P w'

theorem HT.closed (self : Aid) : LogClosed (HT self) :=
  ⟨fun _ _ _ hf h => HT.modify h hf, fun _ _ h => HT.append h, fun _ _ he h => HT.of_actors_eq h he⟩

structure LCPred where
  P : World → Prop
  closed : LogClosed P

@[irreducible] def HoldsL (Q : LCPred) (w : World) : Prop := Q.P w

theorem logExt_of_eq {f : Actor → Actor} (hl : ∀ x, (f x).log = x.log) (hi : ∀ x, (f x).inc = x.inc) : LogExt f :=
  fun x => ⟨⟨[], by rw [hl]; simp⟩, hi x⟩

section
variable (Q : LCPred)

local macro "lc_close" : tactic => `(tactic| (
  all_goals (try unfold HoldsL at *)
  all_goals (try assumption)
  all_goals (try exact ExceptConds.entails.rfl)
  all_goals (try (intros; assumption))
  all_goals (try (exact logExt_of_eq (fun _ => rfl) (fun _ => rfl)))
  all_goals (try (intros; exact logExt_of_eq (fun _ => rfl) (fun _ => rfl)))
  all_goals (try (refine Q.closed.actors _ _ ?_ (by assumption); rfl))
  all_goals (try (subst_vars; refine Q.closed.actors _ _ ?_ (by assumption); rfl))
  all_goals (try exact Q.closed.append _ _ (by assumption))))

theorem getA_lc (a : Aid) : Stable (HoldsL Q) (getA a) := by
  unfold Stable getA; mvcgen
attribute [local spec] getA_lc

theorem modA_lc (a : Aid) (f : Actor → Actor) (hf : LogExt f) : Stable (HoldsL Q) (modA a f) := by
  unfold Stable modA; mvcgen
  unfold HoldsL at *; exact Q.closed.modify _ _ _ hf (by assumption)
attribute [local spec] modA_lc

theorem pushSys_lc (t : Aid) (m : SMsg) (s : Option Aid) : Stable (HoldsL Q) (pushSys t m s) := by
  unfold Stable pushSys; mvcgen
  lc_close
attribute [local spec] pushSys_lc

theorem pushUser_lc (t : Aid) (m : UMsg) (s : Option Aid) : Stable (HoldsL Q) (pushUser t m s) := by
  unfold Stable pushUser; mvcgen
  lc_close
attribute [local spec] pushUser_lc

theorem sendSys_lc (t : Aid) (m : SMsg) (s : Option Aid) : Stable (HoldsL Q) (sendSys t m s) := by
  unfold Stable sendSys; mvcgen
  lc_close
attribute [local spec] sendSys_lc

theorem abyssUser_lc (t : Aid) (m : UMsg) (s : Option Aid) : Stable (HoldsL Q) (abyssUser t m s) := by
  unfold Stable abyssUser; mvcgen
  lc_close
attribute [local spec] abyssUser_lc

theorem sendUser_lc (t : Aid) (m : UMsg) (s : Option Aid) : Stable (HoldsL Q) (sendUser t m s) := by
  unfold Stable sendUser; mvcgen
  lc_close
attribute [local spec] sendUser_lc

theorem terminateReq_lc (a t : Aid) (g : Bool) : Stable (HoldsL Q) (terminateReq a t g) := by
  unfold Stable terminateReq; mvcgen
  lc_close
attribute [local spec] terminateReq_lc

theorem terminateCall_lc (a t : Aid) (g : Bool) : Stable (HoldsL Q) (terminateCall a t g) := by
  unfold Stable terminateCall; mvcgen
  lc_close
attribute [local spec] terminateCall_lc

theorem spawnChild_lc (parent : Aid) (beh : Nat) : Stable (HoldsL Q) (spawnChild parent beh) := by
  unfold Stable spawnChild; mvcgen
  lc_close
attribute [local spec] spawnChild_lc

theorem runAction_lc (self : Aid) (a : Action) : Stable (HoldsL Q) (runAction self a) := by
  unfold Stable; cases a <;> unfold runAction <;> mvcgen
  lc_close
attribute [local spec] runAction_lc

theorem runActions_lc (self : Aid) (as : List Action) : Stable (HoldsL Q) (runActions self as) := by
  induction as with
  | nil => unfold Stable runActions; mvcgen
  | cons a as ih => unfold Stable runActions; mvcgen [ih]

end

def htQ (self : Aid) : LCPred := ⟨HT self, HT.closed self⟩

theorem holdsL_htQ (self : Aid) (w : World) : HoldsL (htQ self) w = HT self w := by
  unfold HoldsL htQ; rfl

/-- `HT self` is stable under the actions of any rule -/
theorem runActions_ht (self a : Aid) (as : List Action) : Stable (HT self) (runActions a as) := by
  have := runActions_lc (htQ self) a as
  unfold Stable at *
  simpa only [holdsL_htQ] using this

end MV.Model.ActorSys
