import MV.Model.Funnel
/-!
Invariant of the string-pulling loop: the output starts at the start point and only ever contains
portal end points.  Core Lean only.
-/
namespace MV.Lemmas.Funnel
open MV.Model.Geometry MV.Model.Funnel

/-- `v` is an end point of one of the portals -/
def IsEnd (portals : List (Pt × Pt)) (v : Pt) : Prop := ∃ pr ∈ portals, v = pr.1 ∨ v = pr.2

structure FInv (portals : List (Pt × Pt)) (start : Pt) (s : FState) : Prop where
  head : s.points.head? = some start
  pts : ∀ v ∈ s.points, IsEnd portals v
  left : IsEnd portals s.left
  right : IsEnd portals s.right

theorem head?_append_of_head? {l : List Pt} {a : Pt} (h : l.head? = some a) (r : List Pt) :
    (l ++ r).head? = some a := by
  cases l with
  | nil => simp at h
  | cons x xs => simpa using h

theorem body_inv (portals : List (Pt × Pt)) (start : Pt) (s : FState) (i : Nat) (l r : Pt)
    (hl : IsEnd portals l) (hr : IsEnd portals r) (I : FInv portals start s) :
    FInv portals start (body s i l r).1 := by
  unfold body
  by_cases h1 : areaTwice s.apex s.right r ≤ 0
  · by_cases h2 : s.apex = s.right ∨ areaTwice s.apex s.left r > 0
    · simp only [h1, h2, if_true]
      by_cases h3 : areaTwice s.apex s.left l ≥ 0
      · by_cases h4 : s.apex = s.left ∨ areaTwice s.apex r l < 0
        · simp only [h3, h4, if_true]; exact ⟨I.head, I.pts, hl, hr⟩
        · simp only [h3, h4, if_true, if_false]
          refine ⟨head?_append_of_head? I.head _, ?_, hr, hr⟩
          intro v hv
          rcases List.mem_append.1 hv with h | h
          · exact I.pts v h
          · simp at h; subst h; exact hr
      · simp only [h3, if_false]; exact ⟨I.head, I.pts, I.left, hr⟩
    · simp only [h1, h2, if_true, if_false]
      refine ⟨head?_append_of_head? I.head _, ?_, I.left, I.left⟩
      intro v hv
      rcases List.mem_append.1 hv with h | h
      · exact I.pts v h
      · simp at h; subst h; exact I.left
  · simp only [h1, if_false]
    by_cases h3 : areaTwice s.apex s.left l ≥ 0
    · by_cases h4 : s.apex = s.left ∨ areaTwice s.apex s.right l < 0
      · simp only [h3, h4, if_true]; exact ⟨I.head, I.pts, hl, I.right⟩
      · simp only [h3, h4, if_true, if_false]
        refine ⟨head?_append_of_head? I.head _, ?_, I.right, I.right⟩
        intro v hv
        rcases List.mem_append.1 hv with h | h
        · exact I.pts v h
        · simp at h; subst h; exact I.right
    · simp only [h3, if_false]; exact I

theorem loop_inv (portals : List (Pt × Pt)) (start : Pt) : ∀ (fuel : Nat) (s : FState) (i : Nat) (s' : FState),
    FInv portals start s → loop portals fuel s i = some s' → FInv portals start s' := by
  intro fuel
  induction fuel with
  | zero => intro s i s' _ h; simp [loop] at h
  | succ f ih =>
    intro s i s' I h
    unfold loop at h
    cases hp : portals[i]? with
    | none => rw [hp] at h; simp at h; subst h; exact I
    | some pr =>
      obtain ⟨l, r⟩ := pr
      rw [hp] at h
      simp only at h
      have hmem : (l, r) ∈ portals := List.mem_of_getElem? hp
      exact ih _ _ s' (body_inv portals start s i l r ⟨_, hmem, Or.inl rfl⟩ ⟨_, hmem, Or.inr rfl⟩ I) h

/-- endpoints and portal-end property of `stringPull` -/
theorem stringPull_spec (portals : List (Pt × Pt)) (path : List Pt) (h : stringPull portals = some path) :
    (∃ p0, portals.head? = some p0 ∧ path.head? = some p0.1) ∧
    (∃ pl, portals.getLast? = some pl ∧ path.getLast? = some pl.1) ∧
    ∀ v ∈ path, IsEnd portals v := by
  unfold stringPull at h
  cases portals with
  | nil => simp at h
  | cons p0 rest =>
    cases hl : (p0 :: rest).getLast? with
    | none => simp at hl
    | some pl =>
      rw [hl] at h
      simp only at h
      have hmem0 : p0 ∈ p0 :: rest := List.mem_cons_self
      have hmeml : pl ∈ p0 :: rest := List.mem_of_getLast? hl
      have I0 : FInv (p0 :: rest) p0.1
          { points := [p0.1], apexIndex := 0, leftIndex := 0, rightIndex := 0, apex := p0.1, left := p0.1, right := p0.2 } :=
        ⟨rfl, by intro v hv; simp at hv; subst hv; exact ⟨p0, hmem0, Or.inl rfl⟩,
         ⟨p0, hmem0, Or.inl rfl⟩, ⟨p0, hmem0, Or.inr rfl⟩⟩
      cases hloop : loop (p0 :: rest) (((p0 :: rest).length + 1) * ((p0 :: rest).length + 1))
          { points := [p0.1], apexIndex := 0, leftIndex := 0, rightIndex := 0, apex := p0.1, left := p0.1, right := p0.2 } 1 with
      | none => rw [hloop] at h; simp at h
      | some s =>
        rw [hloop] at h
        have I := loop_inv (p0 :: rest) p0.1 _ _ _ s I0 hloop
        simp only at h
        by_cases hlast : s.points.getLast? = some pl.1
        · rw [if_pos hlast] at h
          injection h with h; subst h
          exact ⟨⟨p0, rfl, I.head⟩, ⟨pl, rfl, hlast⟩, I.pts⟩
        · rw [if_neg hlast] at h
          injection h with h; subst h
          refine ⟨⟨p0, rfl, head?_append_of_head? I.head _⟩, ⟨pl, rfl, by simp⟩, ?_⟩
          intro v hv
          rcases List.mem_append.1 hv with h | h
          · exact I.pts v h
          · simp at h; subst h; exact ⟨pl, hmeml, Or.inl rfl⟩

end MV.Lemmas.Funnel
