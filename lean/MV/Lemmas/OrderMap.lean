import MV.Lemmas.C16Common
import MV.Spec.OrderedMap
/-!
# `Order` / `OrderSync`: the index map and the dense entry slice stay consistent; refinement to the
# ordered-map specification
-/
namespace MV.Model.OrderMap
open MV.Model

/-- `idx` maps exactly the key of every entry to the entry's position -/
structure WF (o : OrderMap) : Prop where
  d1 : ∀ (j : Nat) (e : Int × Int), o.value[j]? = some e → o.idx.get e.1 = some (j : Int)
  d2 : ∀ (k i : Int), o.idx.get k = some i →
        ∃ (j : Nat) (e : Int × Int), i = (j : Int) ∧ o.value[j]? = some e ∧ e.1 = k

theorem wf_new : WF OrderMap.new := ⟨fun j e h => by simp [OrderMap.new] at h, fun k i h => by simp [OrderMap.new, FMap.get] at h⟩

/-- each key occurs once in the entry slice -/
theorem WF.nodupKeys {o : OrderMap} (h : WF o) : (FMap.keyList o.value).Nodup := by
  unfold FMap.keyList
  rw [List.Nodup, List.pairwise_iff_getElem]
  intro i j hi hj hij
  simp only [List.length_map] at hi hj
  simp only [List.getElem_map]
  intro e
  have h1 := h.d1 i o.value[i] (List.getElem?_eq_getElem hi)
  have h2 := h.d1 j o.value[j] (List.getElem?_eq_getElem hj)
  rw [e, h2] at h1
  simp at h1; omega

theorem WF.absent {o : OrderMap} (h : WF o) (k : Int) (hk : o.idx.get k = none) : FMap.get o.value k = none := by
  cases hg : FMap.get o.value k with
  | none => rfl
  | some v =>
    have hm := FMap.mem_of_get_eq_some _ _ _ hg
    obtain ⟨j, hj, he⟩ := List.getElem_of_mem hm
    have := h.d1 j (k, v) (by rw [List.getElem?_eq_getElem hj, he])
    rw [hk] at this; cases this

/-- `Get` is the lookup in the entry slice, and never panics -/
theorem get_eq {o : OrderMap} (h : WF o) (k : Int) : o.get k = some (FMap.get o.value k) := by
  unfold get
  cases hk : o.idx.get k with
  | none => rw [h.absent k hk]
  | some i =>
    obtain ⟨j, e, h1, h2, h3⟩ := h.d2 k i hk
    subst h1
    have hn : ¬ ((j : Int) < 0) := by omega
    simp only [hn, if_false, Int.toNat_natCast, h2]
    have hm : e ∈ o.value := List.mem_of_getElem? h2
    have := FMap.get_eq_some_of_mem o.value h.nodupKeys e hm
    rw [h3] at this
    rw [this]

theorem wf_add (o : OrderMap) (h : WF o) (k v : Int) : WF (o.add k v) := by
  unfold add
  split
  · exact h
  · rename_i hk
    have hk' : o.idx.get k = none := by simpa using hk
    constructor
    · intro j e he
      simp only [List.getElem?_append] at he
      rw [FMap.get_set]
      split at he
      · have := h.d1 j e he
        split
        · rename_i e1; rw [e1, hk'] at this; cases this
        · exact this
      · rename_i hj
        have : j = o.value.length := by
          obtain ⟨hlt, _⟩ := List.getElem?_eq_some_iff.mp he
          simp at hlt; omega
        subst this
        simp at he
        subst he
        simp
    · intro k' i hi
      rw [FMap.get_set] at hi
      split at hi
      · rename_i e1
        subst e1
        simp at hi
        exact ⟨o.value.length, (k', v), hi.symm, by simp, rfl⟩
      · obtain ⟨j, e, h1, h2, h3⟩ := h.d2 k' i hi
        refine ⟨j, e, h1, ?_, h3⟩
        rw [List.getElem?_append]
        obtain ⟨hlt, heq⟩ := List.getElem?_eq_some_iff.mp h2
        simp [hlt, heq]

/-- the state `Set` produces on a present key -/
theorem set_present {o : OrderMap} (h : WF o) (k v : Int) (j : Nat) (e : Int × Int)
    (hk : o.idx.get k = some (j : Int)) (he : o.value[j]? = some e) :
    o.set k v = some { o with value := o.value.set j (e.1, v) } := by
  unfold set
  rw [hk]
  have hn : ¬ ((j : Int) < 0) := by omega
  simp only [hn, if_false, Int.toNat_natCast, he]

theorem wf_set_present {o : OrderMap} (h : WF o) (v : Int) (j : Nat) (e : Int × Int)
    (he : o.value[j]? = some e) : WF { o with value := o.value.set j (e.1, v) } := by
  constructor
  · intro x e' hx
    simp only [List.getElem?_set] at hx
    split at hx
    · rename_i hjx
      subst hjx
      split at hx
      · simp at hx; subst hx; exact h.d1 j e he
      · cases hx
    · exact h.d1 x e' hx
  · intro k' i hi
    obtain ⟨x, e', h1, h2, h3⟩ := h.d2 k' i hi
    by_cases hjx : j = x
    · subst hjx
      rw [he] at h2; cases h2
      refine ⟨j, (e.1, v), h1, ?_, h3⟩
      have hlt : j < o.value.length := (List.getElem?_eq_some_iff.mp he).1
      simp [List.getElem?_set, hlt]
    · refine ⟨x, e', h1, ?_, h3⟩
      simp [List.getElem?_set, hjx, h2]

/-- the state `Del` produces on a present key: swap-delete -/
def swapDel (o : OrderMap) (k : Int) (j : Nat) : OrderMap :=
  let n := o.value.length
  if j + 1 < n then
    match o.value[n - 1]? with
    | some last => { idx := (o.idx.set last.1 (j : Int)).del k, value := (o.value.set j last).take (n - 1) }
    | none => o
  else { idx := o.idx.del k, value := o.value.take (n - 1) }

theorem del_present {o : OrderMap} (k : Int) (j : Nat) (hk : o.idx.get k = some (j : Int))
    (hj : j < o.value.length) : o.del k = some (swapDel o k j) := by
  unfold del swapDel
  rw [hk]
  have hn : ¬ ((j : Int) < 0) := by omega
  simp only [hn, if_false, Int.toNat_natCast]
  by_cases hlt : j + 1 < o.value.length
  · have h1 : (j : Int) < (o.value.length : Int) - 1 := by omega
    have h2 : o.value.length - 1 < o.value.length := by omega
    simp only [h1, if_true, hlt, List.getElem?_eq_getElem h2, hj]
  · have h1 : ¬ (j : Int) < (o.value.length : Int) - 1 := by omega
    have h2 : ¬ o.value.length = 0 := by omega
    simp only [h1, if_false, hlt, h2]

/-- entries of the swap-deleted slice -/
theorem swapDel_getElem? (o : OrderMap) (k : Int) (j : Nat) (hj : j < o.value.length) (x : Nat) :
    (swapDel o k j).value[x]? =
      if x < o.value.length - 1 then (if x = j then o.value[o.value.length - 1]? else o.value[x]?) else none := by
  unfold swapDel
  dsimp only
  have h2 : o.value.length - 1 < o.value.length := by omega
  by_cases hlt : j + 1 < o.value.length
  · simp only [hlt, if_true, List.getElem?_eq_getElem h2, List.getElem?_take, List.getElem?_set]
    by_cases hx : x < o.value.length - 1
    · simp only [hx, if_true]
      by_cases e : j = x
      · subst e; simp [hj]
      · have e' : ¬ x = j := fun q => e q.symm
        simp [e, e']
    · simp [hx]
  · simp only [hlt, if_false, List.getElem?_take]
    by_cases hx : x < o.value.length - 1
    · have : ¬ x = j := by omega
      simp [hx, this]
    · simp [hx]

theorem wf_swapDel {o : OrderMap} (h : WF o) (k : Int) (j : Nat) (hk : o.idx.get k = some (j : Int))
    (hj : j < o.value.length) (hkey : o.value[j].1 = k) : WF (swapDel o k j) := by
  have hnd := h.nodupKeys
  have h2 : o.value.length - 1 < o.value.length := by omega
  -- the key at position x determines x
  have inj : ∀ (x y : Nat) (ex ey : Int × Int), o.value[x]? = some ex → o.value[y]? = some ey → ex.1 = ey.1 → x = y := by
    intro x y ex ey hx hy e
    have a := h.d1 x ex hx
    have b := h.d1 y ey hy
    rw [e, b] at a
    simp at a; omega
  have hjv : o.value[j]? = some o.value[j] := List.getElem?_eq_getElem hj
  have hidx : ∀ k', (swapDel o k j).idx.get k' =
      if k' = k then none
      else if j + 1 < o.value.length ∧ k' = (o.value[o.value.length - 1]'h2).1 then some (j : Int)
      else o.idx.get k' := by
    intro k'
    unfold swapDel
    dsimp only
    by_cases hlt : j + 1 < o.value.length
    · simp only [hlt, if_true, List.getElem?_eq_getElem h2, FMap.get_del, FMap.get_set, true_and]
    · simp only [hlt, if_false, FMap.get_del, false_and]
  constructor
  · intro x e hx
    rw [swapDel_getElem? o k j hj] at hx
    rw [hidx]
    split at hx
    · rename_i hxl
      split at hx
      · rename_i hxj
        subst hxj
        -- e is the former last entry, now at position x = j
        have hlt : x + 1 < o.value.length := by omega
        rw [List.getElem?_eq_getElem h2] at hx
        simp only [Option.some.injEq] at hx
        have hne : ¬ e.1 = k := by
          intro q
          have := inj (o.value.length - 1) x _ _ (List.getElem?_eq_getElem h2) hjv (by rw [hx, q, hkey])
          omega
        subst hx
        simp [hne, hlt]
      · rename_i hxj
        have hne : ¬ e.1 = k := by
          intro q
          exact hxj (inj x j e _ hx hjv (by rw [q, hkey]))
        have hne2 : ¬ (j + 1 < o.value.length ∧ e.1 = (o.value[o.value.length - 1]'h2).1) := by
          intro ⟨_, q⟩
          have := inj x (o.value.length - 1) e _ hx (List.getElem?_eq_getElem h2) q
          omega
        simp only [hne, hne2, if_false]
        exact h.d1 x e hx
    · cases hx
  · intro k' i hi
    rw [hidx] at hi
    split at hi
    · cases hi
    · rename_i hk'
      split at hi
      · rename_i hc
        simp only [Option.some.injEq] at hi
        refine ⟨j, o.value[o.value.length - 1]'h2, hi.symm, ?_, hc.2.symm⟩
        rw [swapDel_getElem? o k j hj]
        have : j < o.value.length - 1 := by omega
        simp [this, List.getElem?_eq_getElem h2]
      · rename_i hc
        obtain ⟨x, e, h1, hx, h3⟩ := h.d2 k' i hi
        have hxj : ¬ x = j := by
          intro q; subst q
          rw [hjv] at hx; cases hx
          exact hk' (by rw [← h3, hkey])
        have hxl : x < o.value.length := (List.getElem?_eq_some_iff.mp hx).1
        have hxl' : x < o.value.length - 1 := by
          apply Nat.lt_of_le_of_ne (by omega)
          intro q
          apply hc
          subst q
          rw [List.getElem?_eq_getElem h2] at hx
          simp only [Option.some.injEq] at hx
          refine ⟨by omega, ?_⟩
          rw [hx, h3]
        refine ⟨x, e, h1, ?_, h3⟩
        rw [swapDel_getElem? o k j hj]
        simp [hxl', hxj, hx]

/-- membership in the swap-deleted slice: everything but the deleted key -/
theorem mem_swapDel {o : OrderMap} (h : WF o) (k : Int) (j : Nat) (hj : j < o.value.length)
    (hkey : o.value[j].1 = k) (e : Int × Int) :
    e ∈ (swapDel o k j).value ↔ e ∈ o.value ∧ e.1 ≠ k := by
  have h2 : o.value.length - 1 < o.value.length := by omega
  have hjv : o.value[j]? = some o.value[j] := List.getElem?_eq_getElem hj
  have inj : ∀ (x y : Nat) (ex ey : Int × Int), o.value[x]? = some ex → o.value[y]? = some ey → ex.1 = ey.1 → x = y := by
    intro x y ex ey hx hy q
    have a := h.d1 x ex hx
    have b := h.d1 y ey hy
    rw [q, b] at a
    simp at a; omega
  rw [List.mem_iff_getElem?, List.mem_iff_getElem?]
  constructor
  · rintro ⟨x, hx⟩
    rw [swapDel_getElem? o k j hj] at hx
    split at hx
    · split at hx
      · rename_i hxl hxj
        subst hxj
        refine ⟨⟨_, hx⟩, ?_⟩
        intro q
        have := inj (o.value.length - 1) x e _ hx hjv (by rw [q, hkey])
        omega
      · rename_i hxl hxj
        refine ⟨⟨x, hx⟩, ?_⟩
        intro q
        exact hxj (inj x j e _ hx hjv (by rw [q, hkey]))
    · cases hx
  · rintro ⟨⟨x, hx⟩, hne⟩
    have hxl : x < o.value.length := (List.getElem?_eq_some_iff.mp hx).1
    have hxj : ¬ x = j := by
      intro q; subst q
      rw [hjv] at hx; cases hx
      exact hne hkey
    by_cases hlast : x = o.value.length - 1
    · refine ⟨j, ?_⟩
      rw [swapDel_getElem? o k j hj]
      have : j < o.value.length - 1 := by omega
      simp only [this, if_true]
      rw [← hlast]; exact hx
    · refine ⟨x, ?_⟩
      rw [swapDel_getElem? o k j hj]
      have : x < o.value.length - 1 := by omega
      simp [this, hxj, hx]

theorem nodup_of_map_fst {l : List (Int × Int)} (h : (FMap.keyList l).Nodup) : l.Nodup := by
  unfold FMap.keyList List.Nodup at *
  rw [List.pairwise_map] at h
  exact h.imp (fun hab e => hab (by rw [e]))

/-- the swap-deleted slice is a permutation of "all entries but the deleted key" -/
theorem perm_swapDel {o : OrderMap} (h : WF o) (k : Int) (j : Nat) (hk : o.idx.get k = some (j : Int))
    (hj : j < o.value.length) (hkey : o.value[j].1 = k) :
    (swapDel o k j).value.Perm (o.value.filter (fun e => e.1 != k)) := by
  have hw := wf_swapDel h k j hk hj hkey
  have n1 : (swapDel o k j).value.Nodup := nodup_of_map_fst hw.nodupKeys
  have n2 : (o.value.filter (fun e => e.1 != k)).Nodup :=
    List.Nodup.sublist List.filter_sublist (nodup_of_map_fst h.nodupKeys)
  rw [List.perm_ext_iff_of_nodup n1 n2]
  intro e
  rw [mem_swapDel h k j hj hkey, List.mem_filter]
  simp

/-- lookups only depend on the set of entries -/
theorem get_perm {l₁ l₂ : List (Int × Int)} (hn : (FMap.keyList l₁).Nodup) (hp : l₁.Perm l₂) (k : Int) :
    FMap.get l₁ k = FMap.get l₂ k := by
  have hn2 : (FMap.keyList l₂).Nodup := List.Nodup.perm hn (hp.map _)
  cases h1 : FMap.get l₁ k with
  | some v =>
    have := FMap.get_eq_some_of_mem l₂ hn2 (k, v) (hp.mem_iff.mp (FMap.mem_of_get_eq_some _ _ _ h1))
    exact this.symm
  | none =>
    cases h2 : FMap.get l₂ k with
    | none => rfl
    | some v =>
      have := FMap.get_eq_some_of_mem l₁ hn (k, v) (hp.mem_iff.mpr (FMap.mem_of_get_eq_some _ _ _ h2))
      rw [h1] at this; cases this

end MV.Model.OrderMap
