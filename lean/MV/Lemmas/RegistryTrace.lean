import MV.Lemmas.Registry
/-!
# The ghost trace of the registry model is well bracketed

Every operation id is used by at most one thread; the events of one operation are, in trace order,
`call`, its `lin` event(s), `ret` (or a prefix while the operation is pending), and the returned value
is the linearised one (`shapeOK`).  Together with the legality of the `lin` events this is
`checkTrace`: the trace is a linearisation proof of its own call/return history.
-/
namespace MV.Lemmas.Registry
open MV.Model.Conc MV.Model.Registry MV.Spec.Registry

/-- the operation a thread is executing -/
def opOf : PC → Option Nat
  | .rLos k _ | .uLad k _ | .uTerm k _ _ | .gCLoad k _ | .gIsTerm k _ _ | .gCClear k _
  | .gMLoad k _ | .gCStore k _ _ => some k
  | _ => none

def hasOp (k : Nat) (pc : PC) : Bool := opOf pc == some k

/-- the events operation `k` has produced when its thread is at `pc` -/
def expect : PC → List TrEv
  | .rLos k a => [.call k (.reg a)]
  | .uLad k a => [.call k (.unreg a)]
  | .uTerm k a p => [.call k (.unreg a), .lin k (.del a (some p))]
  | .gCLoad k r | .gIsTerm k r _ | .gCClear k r | .gMLoad k r => [.call k (.get r.addr)]
  | .gCStore k r p => [.call k (.get r.addr), .lin k (.get r.addr (some p))]
  | _ => []

theorem proj_append (k : Nat) (t1 t2 : List TrEv) : proj k (t1 ++ t2) = proj k t1 ++ proj k t2 := by
  simp [proj]

theorem proj_all (k : Nat) (evs : List TrEv) (h : ∀ e ∈ evs, e.id = k) : proj k evs = evs := by
  unfold proj; rw [List.filter_eq_self]; intro e he; simp [h e he]

theorem proj_none (k : Nat) (evs : List TrEv) (h : ∀ e ∈ evs, e.id ≠ k) : proj k evs = [] := by
  unfold proj; rw [List.filter_eq_nil_iff]; intro e he; simp [h e he]

/-- what one transition does to the trace, from the point of view of the bracket invariant -/
theorem trans_shape {g g' : G} {pc pc' : PC} {sp : List PC}
    (ht : MV.Model.Registry.trans g pc = some (g', pc', sp)) :
    match opOf pc with
    | none => g'.nextOp = g.nextOp + 1 ∧ opOf pc' = some g.nextOp ∧
        ∃ op, g'.tr = g.tr ++ [.call g.nextOp op] ∧ expect pc' = [.call g.nextOp op]
    | some k => g'.nextOp = g.nextOp ∧ (opOf pc' = some k ∨ opOf pc' = none) ∧
        ∃ evs, g'.tr = g.tr ++ evs ∧ (∀ e ∈ evs, e.id = k) ∧
          (opOf pc' = some k → expect pc ++ evs = expect pc') ∧ shapeOK (expect pc ++ evs) = true := by
  cases pc with
  | rCall a =>
    simp only [MV.Model.Registry.trans, Option.some.injEq, Prod.mk.injEq] at ht
    obtain ⟨rfl, rfl, rfl⟩ := ht
    exact ⟨rfl, rfl, _, rfl, rfl⟩
  | uCall a =>
    simp only [MV.Model.Registry.trans, Option.some.injEq, Prod.mk.injEq] at ht
    obtain ⟨rfl, rfl, rfl⟩ := ht
    exact ⟨rfl, rfl, _, rfl, rfl⟩
  | gCall r =>
    simp only [MV.Model.Registry.trans, Option.some.injEq, Prod.mk.injEq] at ht
    obtain ⟨rfl, rfl, rfl⟩ := ht
    exact ⟨rfl, rfl, _, rfl, rfl⟩
  | rLos k a =>
    simp only [MV.Model.Registry.trans] at ht
    split at ht <;>
      (simp only [Option.some.injEq, Prod.mk.injEq] at ht
       obtain ⟨rfl, rfl, rfl⟩ := ht
       refine ⟨rfl, Or.inr rfl, _, rfl, ?_, ?_, ?_⟩
       · intro e he; simp only [List.mem_cons, List.not_mem_nil, or_false] at he
         rcases he with rfl | rfl <;> rfl
       · intro h; cases h
       · simp [expect, shapeOK])
  | uLad k a =>
    simp only [MV.Model.Registry.trans] at ht
    split at ht
    · simp only [Option.some.injEq, Prod.mk.injEq] at ht
      obtain ⟨rfl, rfl, rfl⟩ := ht
      refine ⟨rfl, Or.inr rfl, _, rfl, ?_, ?_, ?_⟩
      · intro e he; simp only [List.mem_cons, List.not_mem_nil, or_false] at he
        rcases he with rfl | rfl <;> rfl
      · intro h; cases h
      · simp [expect, shapeOK]
    · simp only [Option.some.injEq, Prod.mk.injEq] at ht
      obtain ⟨rfl, rfl, rfl⟩ := ht
      refine ⟨rfl, Or.inl rfl, _, rfl, ?_, ?_, ?_⟩
      · intro e he; simp only [List.mem_cons, List.not_mem_nil, or_false] at he
        rcases he with rfl; rfl
      · intro _; rfl
      · simp [expect, shapeOK]
  | uTerm k a p =>
    simp only [MV.Model.Registry.trans, Option.some.injEq, Prod.mk.injEq] at ht
    obtain ⟨rfl, rfl, rfl⟩ := ht
    refine ⟨rfl, Or.inr rfl, _, rfl, ?_, ?_, ?_⟩
    · intro e he; simp only [List.mem_cons, List.not_mem_nil, or_false] at he
      rcases he with rfl | rfl <;> rfl
    · intro h; cases h
    · simp [expect, shapeOK]
  | gCLoad k r =>
    simp only [MV.Model.Registry.trans] at ht
    split at ht <;>
      (simp only [Option.some.injEq, Prod.mk.injEq] at ht
       obtain ⟨rfl, rfl, rfl⟩ := ht
       refine ⟨rfl, Or.inl rfl, [], by simp, ?_, ?_, ?_⟩
       · intro e he; cases he
       · intro _; rfl
       · simp [expect, shapeOK])
  | gIsTerm k r p =>
    simp only [MV.Model.Registry.trans] at ht
    split at ht
    · simp only [Option.some.injEq, Prod.mk.injEq] at ht
      obtain ⟨rfl, rfl, rfl⟩ := ht
      refine ⟨rfl, Or.inl rfl, [], by simp, ?_, ?_, ?_⟩
      · intro e he; cases he
      · intro _; rfl
      · simp [expect, shapeOK]
    · simp only [Option.some.injEq, Prod.mk.injEq] at ht
      obtain ⟨rfl, rfl, rfl⟩ := ht
      refine ⟨rfl, Or.inr rfl, _, rfl, ?_, ?_, ?_⟩
      · intro e he; simp only [List.mem_cons, List.not_mem_nil, or_false] at he
        rcases he with rfl | rfl <;> rfl
      · intro h; cases h
      · simp [expect, shapeOK]
  | gCClear k r =>
    simp only [MV.Model.Registry.trans, Option.some.injEq, Prod.mk.injEq] at ht
    obtain ⟨rfl, rfl, rfl⟩ := ht
    refine ⟨rfl, Or.inl rfl, [], by simp, ?_, ?_, ?_⟩
    · intro e he; cases he
    · intro _; rfl
    · simp [expect, shapeOK]
  | gMLoad k r =>
    simp only [MV.Model.Registry.trans] at ht
    split at ht
    · simp only [Option.some.injEq, Prod.mk.injEq] at ht
      obtain ⟨rfl, rfl, rfl⟩ := ht
      refine ⟨rfl, Or.inr rfl, _, rfl, ?_, ?_, ?_⟩
      · intro e he; simp only [List.mem_cons, List.not_mem_nil, or_false] at he
        rcases he with rfl | rfl <;> rfl
      · intro h; cases h
      · simp [expect, shapeOK]
    · simp only [Option.some.injEq, Prod.mk.injEq] at ht
      obtain ⟨rfl, rfl, rfl⟩ := ht
      refine ⟨rfl, Or.inl rfl, _, rfl, ?_, ?_, ?_⟩
      · intro e he; simp only [List.mem_cons, List.not_mem_nil, or_false] at he
        rcases he with rfl; rfl
      · intro _; rfl
      · simp [expect, shapeOK]
  | gCStore k r p =>
    simp only [MV.Model.Registry.trans, Option.some.injEq, Prod.mk.injEq] at ht
    obtain ⟨rfl, rfl, rfl⟩ := ht
    refine ⟨rfl, Or.inr rfl, _, rfl, ?_, ?_, ?_⟩
    · intro e he; simp only [List.mem_cons, List.not_mem_nil, or_false] at he
      rcases he with rfl; rfl
    · intro h; cases h
    · simp [expect, shapeOK]
  | done => simp [MV.Model.Registry.trans] at ht

/-- two positions that satisfy a predicate counted at most once are the same position -/
theorem unique_of_countP_le_one (l : List PC) (p : PC → Bool) (h : l.countP p ≤ 1) (i j : Nat) (a b : PC)
    (hi : l[i]? = some a) (hj : l[j]? = some b) (pa : p a = true) (pb : p b = true) : i = j := by
  induction l generalizing i j with
  | nil => simp at hi
  | cons x xs ih =>
    rw [List.countP_cons] at h
    cases i with
    | zero =>
      cases j with
      | zero => rfl
      | succ j' =>
        simp at hi hj; subst hi
        have := countP_pos_of_getElem? xs j' b p hj pb
        simp only [pa, if_true] at h; omega
    | succ i' =>
      cases j with
      | zero =>
        simp at hi hj; subst hj
        have := countP_pos_of_getElem? xs i' a p hi pa
        simp only [pb, if_true] at h; omega
      | succ j' =>
        simp at hi hj
        have : xs.countP p ≤ 1 := by omega
        rw [ih this i' j' hi hj]

/-- the bracket invariant -/
structure WInv (s : State) : Prop where
  ids : ∀ e ∈ s.g.tr, e.id < s.g.nextOp
  uniq : ∀ k, s.ths.countP (hasOp k) ≤ 1 ∧ (s.g.nextOp ≤ k → s.ths.countP (hasOp k) = 0)
  shape : ∀ k, shapeOK (proj k s.g.tr) = true
  own : ∀ (j : Nat) (pc : PC) (k : Nat), s.ths[j]? = some pc → opOf pc = some k → proj k s.g.tr = expect pc

theorem winv_init : WInv MV.Model.Registry.init := by
  refine ⟨?_, ?_, ?_, ?_⟩
  · intro e he; simp [MV.Model.Registry.init] at he
  · intro k; simp [MV.Model.Registry.init]
  · intro k; simp [MV.Model.Registry.init, proj, shapeOK]
  · intro j pc k h; simp [MV.Model.Registry.init] at h

theorem hasOp_iff (k : Nat) (pc : PC) : hasOp k pc = true ↔ opOf pc = some k := by
  simp [hasOp]

theorem winv_step (s s' : State) (i : Nat) (h : WInv s) (hs : step sys s i = some s') : WInv s' := by
  obtain ⟨pc, pc', sp, hpc, ht, hths, hc⟩ := step_spec sys s s' i hs
  simp only [sys] at ht
  have hsp : sp = [] := by
    cases pc <;> simp only [MV.Model.Registry.trans] at ht <;> (try split at ht) <;> simp_all
  subst hsp
  rw [List.append_nil] at hths
  have hsh := trans_shape ht
  -- thread j of the new state
  have hget : ∀ j q, s'.ths[j]? = some q → (j = i ∧ q = pc') ∨ (j ≠ i ∧ s.ths[j]? = some q) := by
    intro j q hq
    rw [hths] at hq
    by_cases e : j = i
    · left; subst e
      rw [List.getElem?_set_self (by
        have := List.getElem?_eq_some_iff.mp hpc; exact this.1)] at hq
      exact ⟨rfl, (Option.some.inj hq).symm⟩
    · right; rw [List.getElem?_set_ne (fun h => e h.symm)] at hq; exact ⟨e, hq⟩
  cases hop : opOf pc with
  | none =>
    rw [hop] at hsh
    obtain ⟨hn, hop', op, htr, hex⟩ := hsh
    have hcount : ∀ k, s'.ths.countP (hasOp k) =
        s.ths.countP (hasOp k) + (if k = s.g.nextOp then 1 else 0) := by
      intro k
      have := hc (hasOp k)
      have e1 : hasOp k pc = false := by simp [hasOp, hop]
      by_cases e : k = s.g.nextOp
      · have e2 : hasOp k pc' = true := by simp [hasOp, hop', e]
        simp only [e1, e2, List.countP_nil, Nat.add_zero, if_true, Bool.false_eq_true, if_false] at this
        simp only [e, if_true]; rw [← e]; omega
      · have e2 : hasOp k pc' = false := by
          simp only [hasOp, hop', beq_eq_false_iff_ne, ne_eq, Option.some.injEq]
          exact fun h => e h.symm
        simp only [e1, e2, List.countP_nil, Nat.add_zero, Bool.false_eq_true, if_false] at this
        simp only [e, if_false]; omega
    refine ⟨?_, ?_, ?_, ?_⟩
    · intro e he
      rw [htr] at he
      rcases List.mem_append.mp he with he | he
      · have := h.ids e he; omega
      · simp only [List.mem_singleton] at he; subst he; simp [TrEv.id]; omega
    · intro k
      rw [hcount k, hn]
      by_cases e : k = s.g.nextOp
      · subst e
        have := (h.uniq s.g.nextOp).2 (Nat.le_refl _)
        simp [this]
      · have := h.uniq k
        simp only [e, if_false, Nat.add_zero]
        exact ⟨this.1, fun hk => this.2 (by omega)⟩
    · intro k
      rw [htr, proj_append]
      by_cases e : k = s.g.nextOp
      · subst e
        have : proj s.g.nextOp s.g.tr = [] := proj_none _ _ (fun e he => Nat.ne_of_lt (h.ids e he))
        rw [this, proj_all _ _ (by intro e he; simp only [List.mem_singleton] at he; subst he; rfl)]
        simp [shapeOK]
      · rw [proj_none _ [TrEv.call s.g.nextOp op] (by
          intro e' he; simp only [List.mem_singleton] at he; subst he; exact fun h => e h.symm)]
        simpa using h.shape k
    · intro j q k hq hk
      rw [htr, proj_append]
      rcases hget j q hq with ⟨_, rfl⟩ | ⟨_, hq'⟩
      · rw [hop'] at hk; cases hk
        have : proj s.g.nextOp s.g.tr = [] := proj_none _ _ (fun e he => Nat.ne_of_lt (h.ids e he))
        rw [this, proj_all _ _ (by intro e he; simp only [List.mem_singleton] at he; subst he; rfl), hex]
        rfl
      · have hlt : k < s.g.nextOp := by
          have h1 := countP_pos_of_getElem? s.ths j q (hasOp k) hq' ((hasOp_iff k q).mpr hk)
          have h2 := (h.uniq k).2
          by_cases hk' : s.g.nextOp ≤ k
          · have := h2 hk'; omega
          · omega
        rw [proj_none _ [TrEv.call s.g.nextOp op] (by
          intro e' he; simp only [List.mem_singleton] at he; subst he; simp [TrEv.id]; omega)]
        simpa using h.own j q k hq' hk
  | some k0 =>
    rw [hop] at hsh
    obtain ⟨hn, hop', evs, htr, hid, hex, hshape⟩ := hsh
    have hk0 : k0 < s.g.nextOp := by
      have h1 := countP_pos_of_getElem? s.ths i pc (hasOp k0) hpc ((hasOp_iff k0 pc).mpr hop)
      have h2 := (h.uniq k0).2
      by_cases hk' : s.g.nextOp ≤ k0
      · have := h2 hk'; omega
      · omega
    have hcount : ∀ k, s'.ths.countP (hasOp k) ≤ s.ths.countP (hasOp k) := by
      intro k
      have := hc (hasOp k)
      simp only [List.countP_nil, Nat.add_zero] at this
      rcases hop' with hop' | hop'
      · have e : hasOp k pc' = hasOp k pc := by simp [hasOp, hop, hop']
        rw [e] at this; omega
      · have e : hasOp k pc' = false := by simp [hasOp, hop']
        rw [e] at this; simp at this; omega
    refine ⟨?_, ?_, ?_, ?_⟩
    · intro e he
      rw [htr] at he; rw [hn]
      rcases List.mem_append.mp he with he | he
      · exact h.ids e he
      · rw [hid e he]; exact hk0
    · intro k
      have := h.uniq k
      have hc' := hcount k
      rw [hn]
      exact ⟨by omega, fun hk => by have := this.2 hk; omega⟩
    · intro k
      rw [htr, proj_append]
      by_cases e : k = k0
      · subst e
        rw [proj_all _ evs hid, h.own i pc k hpc hop]; exact hshape
      · rw [proj_none _ evs (by intro e' he; rw [hid e' he]; exact fun h => e h.symm)]
        simpa using h.shape k
    · intro j q k hq hk
      rw [htr, proj_append]
      rcases hget j q hq with ⟨_, rfl⟩ | ⟨hne, hq'⟩
      · rcases hop' with hop' | hop'
        · rw [hop'] at hk; cases hk
          rw [proj_all _ evs hid, h.own i pc k0 hpc hop]; exact hex hop'
        · rw [hop'] at hk; cases hk
      · have hkne : k ≠ k0 := by
          intro e
          rw [e] at hk
          exact hne (unique_of_countP_le_one s.ths (hasOp k0) (h.uniq k0).1 j i q pc hq' hpc
            ((hasOp_iff k0 q).mpr hk) ((hasOp_iff k0 pc).mpr hop))
        rw [proj_none _ evs (by intro e' he; rw [hid e' he]; exact fun h => hkne h.symm)]
        simpa using h.own j q k hq' hk

theorem winv_spawn (s : State) (pc : PC) (h : WInv s) (ha : sys.allowed pc = true) :
    WInv { s with ths := s.ths ++ [pc] } := by
  have hop : opOf pc = none := by cases pc <;> simp_all [sys, allowed, opOf]
  refine ⟨h.ids, ?_, h.shape, ?_⟩
  · intro k
    have : hasOp k pc = false := by simp [hasOp, hop]
    simp only [List.countP_append, List.countP_cons, List.countP_nil, this]
    simpa using h.uniq k
  · intro j q k hq hk
    by_cases hj : j < s.ths.length
    · rw [List.getElem?_append_left hj] at hq; exact h.own j q k hq hk
    · rw [List.getElem?_append_right (by omega)] at hq
      have : q = pc := by
        cases hjj : j - s.ths.length with
        | zero => rw [hjj] at hq; simpa using hq.symm
        | succ n => rw [hjj] at hq; simp at hq
      rw [this, hop] at hk; cases hk

theorem all_bracketed (sched : List (Ev PC)) : WInv (exec sys MV.Model.Registry.init sched) :=
  exec_inv sys WInv winv_step winv_spawn MV.Model.Registry.init winv_init sched

/-- the trace of every execution is a linearisation proof of its own history for the `code` automaton -/
theorem checkTrace_code (sched : List (Ev PC)) :
    checkTrace .code (exec sys MV.Model.Registry.init sched).g.nextOp
      (exec sys MV.Model.Registry.init sched).g.tr = true := by
  have hI := (all_reachable sched).ginv.legal
  have hW := all_bracketed sched
  simp only [checkTrace, Bool.and_eq_true, List.all_eq_true, decide_eq_true_eq]
  refine ⟨⟨by rw [hI]; rfl, hW.ids⟩, fun k _ => hW.shape k⟩

theorem checkTrace_stated (sched : List (Ev PC))
    (hf : (exec sys MV.Model.Registry.init sched).g.regInWindow = false) :
    checkTrace .stated (exec sys MV.Model.Registry.init sched).g.nextOp
      (exec sys MV.Model.Registry.init sched).g.tr = true := by
  have hI := (all_reachable sched).ginv.legalStated hf
  have hW := all_bracketed sched
  simp only [checkTrace, Bool.and_eq_true, List.all_eq_true, decide_eq_true_eq]
  refine ⟨⟨by rw [hI]; rfl, hW.ids⟩, fun k _ => hW.shape k⟩

end MV.Lemmas.Registry
