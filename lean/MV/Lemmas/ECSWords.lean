import MV.Lemmas.BitSet
import MV.Lemmas.ECSMask
/-!
# The set-level masks of the ECS model are refined by the word-level `DynamicBitSet` (C14 ↔ C16)

`MV.Model.ECS` evaluates filters on canonical id lists (`MV.Model.ECSMask`).  The real code evaluates
them on `toolkit.DynamicBitSet` word slices, modelled word by word in `MV.Model.BitSet` (property C16).
This file proves that on every mask the ECS can build the two agree:

* `Rep k₀ b m`: the bit set `b`, built by `Set` from a start of `k₀` words (`NewDynamicBitSet()`: 1,
  the zero value `new(DynamicBitSet)`: 0), has exactly the members of the canonical list `m` and
  exactly `max k₀ (maxw m)` words — the ECS never clears a bit, so there are no trailing zero words;
* `evalW_eq`: `Query.Evaluate` as coded in `query.go` on the word level (`In`/`NotIn` masks start
  from the zero value, `Equal` masks from `NewDynamicBitSet()` after the `fix:`) equals the set-level
  `Filter.eval` the oracle executes, for every filter and every archetype mask;
* `bits_eq_rep`: two archetype masks have the same word slice (hence the same `Key()`) iff they are the
  same set — the `masks` index of `archetypes.go` is keyed faithfully.
-/
namespace MV.Lemmas.ECSWords
open MV.Model MV.Model.ECSMask MV.Lemmas.ECSMask

/-- number of words the ids of a mask need -/
def maxw : Mask → Nat
  | [] => 0
  | p :: m => max (p / 64 + 1) (maxw m)

theorem le_maxw (m : Mask) (x : Nat) (h : x ∈ m) : x / 64 + 1 ≤ maxw m := by
  induction m with
  | nil => simp at h
  | cons y ys ih =>
    simp only [maxw]
    rcases List.mem_cons.mp h with e | h
    · subst e; omega
    · have := ih h; omega

theorem maxw_le (m : Mask) (k : Nat) (h : ∀ x, x ∈ m → x / 64 + 1 ≤ k) : maxw m ≤ k := by
  induction m with
  | nil => simp [maxw]
  | cons y ys ih =>
    simp only [maxw]
    have := h y (by simp)
    have := ih (fun x hx => h x (by simp [hx]))
    omega

theorem maxw_setBit (m : Mask) (p : Nat) : maxw (setBit m p) = max (p / 64 + 1) (maxw m) := by
  apply Nat.le_antisymm
  · apply maxw_le
    intro x hx
    rcases (mem_setBit m p x).mp hx with e | hx
    · subst e; omega
    · have := le_maxw m x hx; omega
  · have h1 := le_maxw (setBit m p) p ((mem_setBit m p p).mpr (Or.inl rfl))
    have h2 : maxw m ≤ maxw (setBit m p) :=
      maxw_le m _ (fun x hx => le_maxw _ x ((mem_setBit m p x).mpr (Or.inr hx)))
    omega

structure Rep (k0 : Nat) (b : BitSet) (m : Mask) : Prop where
  sorted : Sorted m
  mem : ∀ p, b.isSet p = true ↔ p ∈ m
  len : b.bits.length = max k0 (maxw m)

theorem rep_new : Rep 1 BitSet.new [] :=
  ⟨sorted_nil, fun p => by simp [BitSet.isSet_new], rfl⟩

theorem rep_zero : Rep 0 BitSet.zero [] :=
  ⟨sorted_nil, fun p => by simp [BitSet.isSet_zero], rfl⟩

theorem rep_set (k0 : Nat) (b : BitSet) (m : Mask) (p : Nat) (h : Rep k0 b m) :
    Rep k0 (b.set p) (setBit m p) := by
  refine ⟨sorted_setBit m p h.sorted, ?_, ?_⟩
  · intro q
    rw [BitSet.isSet_set, mem_setBit, ← h.mem q]
    simp
  · rw [BitSet.length_set, h.len, maxw_setBit]; omega

theorem rep_setAll (k0 : Nat) (ids : List Nat) : ∀ (b : BitSet) (m : Mask), Rep k0 b m →
    Rep k0 (ids.foldl BitSet.set b) (setAll m ids) := by
  induction ids with
  | nil => intro b m h; exact h
  | cons i is ih => intro b m h; exact ih _ _ (rep_set k0 b m i h)

theorem isSet_rep (k0 : Nat) (b : BitSet) (m : Mask) (h : Rep k0 b m) (p : Nat) :
    b.isSet p = isSet m p := by
  rw [Bool.eq_iff_iff, h.mem, isSet_iff]

/-- `mask.In(q)` as coded = the set-level test (the query mask is never longer than a mask that
contains it) -/
theorem isIn_rep (db q : BitSet) (m qm : Mask) (h : Rep 1 db m) (hq : Rep 0 q qm) :
    db.isIn q = isIn m qm := by
  rw [Bool.eq_iff_iff, BitSet.in_iff_subset, in_iff_subset]
  constructor
  · rintro ⟨_, hs⟩ x hx
    exact (h.mem x).mp (hs x ((hq.mem x).mpr hx))
  · intro hs
    refine ⟨?_, fun p hp => (h.mem p).mpr (hs p ((hq.mem p).mp hp))⟩
    rw [h.len, hq.len]
    have := maxw_le qm (maxw m) (fun x hx => le_maxw m x (hs x hx))
    omega

theorem notIn_rep (k k' : Nat) (db q : BitSet) (m qm : Mask) (h : Rep k db m) (hq : Rep k' q qm) :
    db.notIn q = notIn m qm := by
  rw [Bool.eq_iff_iff, BitSet.notIn_iff_disjoint, notIn_iff_disjoint]
  constructor
  · intro hd x hx hm
    exact hd x ⟨(hq.mem x).mpr hx, (h.mem x).mpr hm⟩
  · intro hd p ⟨h1, h2⟩
    exact hd p ((hq.mem p).mp h1) ((h.mem p).mp h2)

/-- two masks built the same way have the same words iff they are the same set (`Key()`, `Equal`) -/
theorem bits_eq_rep (k0 : Nat) (a b : BitSet) (m m' : Mask) (ha : Rep k0 a m) (hb : Rep k0 b m') :
    a.bits = b.bits ↔ m = m' := by
  constructor
  · intro e
    apply sorted_ext m m' ha.sorted hb.sorted
    intro x
    rw [← ha.mem x, ← hb.mem x]
    have := BitSet.equal_sound a b ((BitSet.equal_iff a b).mpr e) x
    rw [this]
  · intro e
    subst e
    rw [← BitSet.equal_iff, BitSet.equal_iff_same_members a b (by rw [ha.len, hb.len])]
    intro p
    rw [Bool.eq_iff_iff, ha.mem, hb.mem]

theorem equal_rep (q db : BitSet) (qm m : Mask) (hq : Rep 1 q qm) (h : Rep 1 db m) :
    q.equal db = equal qm m := by
  rw [Bool.eq_iff_iff, BitSet.equal_iff, bits_eq_rep 1 q db qm m hq h]
  simp [equal]

/-- the defect repaired by `fix: Equal() matches the archetype without components`: a query mask
started from the zero value never equals the root mask -/
theorem equal_zero_root : BitSet.zero.equal BitSet.new = false := BitSet.equal_zero_new_witness.2

/-! ## `query.go` on the word level -/

open MV.Model.ECS in
mutual
/-- `Query.Evaluate(mask)` transcribed on `DynamicBitSet` words -/
def evalW (db : BitSet) : Filter → Bool
  | .and l => evalAllW db l
  | .or l => evalAnyW db l
  | .isIn ids => db.isIn (ids.foldl BitSet.set BitSet.zero)
  | .notIn ids => db.notIn (ids.foldl BitSet.set BitSet.zero)
  | .eq ids => (ids.foldl BitSet.set BitSet.new).equal db
def evalAllW (db : BitSet) : List Filter → Bool
  | [] => true
  | f :: fs => evalW db f && evalAllW db fs
def evalAnyW (db : BitSet) : List Filter → Bool
  | [] => false
  | f :: fs => evalW db f || evalAnyW db fs
end

open MV.Model.ECS in
mutual
theorem evalW_eq (db : BitSet) (m : Mask) (h : Rep 1 db m) : ∀ f : Filter, evalW db f = Filter.eval m f
  | .and l => by simp only [evalW, Filter.eval]; exact evalAllW_eq db m h l
  | .or l => by simp only [evalW, Filter.eval]; exact evalAnyW_eq db m h l
  | .isIn ids => by
    simp only [evalW, Filter.eval]
    exact isIn_rep db _ m _ h (rep_setAll 0 ids _ _ rep_zero)
  | .notIn ids => by
    simp only [evalW, Filter.eval]
    exact notIn_rep 1 0 db _ m _ h (rep_setAll 0 ids _ _ rep_zero)
  | .eq ids => by
    simp only [evalW, Filter.eval]
    exact equal_rep _ db _ m (rep_setAll 1 ids _ _ rep_new) h
theorem evalAllW_eq (db : BitSet) (m : Mask) (h : Rep 1 db m) : ∀ l : List Filter, evalAllW db l = evalAll m l
  | [] => rfl
  | f :: fs => by simp only [evalAllW, evalAll, evalW_eq db m h f, evalAllW_eq db m h fs]
theorem evalAnyW_eq (db : BitSet) (m : Mask) (h : Rep 1 db m) : ∀ l : List Filter, evalAnyW db l = evalAny m l
  | [] => rfl
  | f :: fs => by simp only [evalAnyW, evalAny, evalW_eq db m h f, evalAnyW_eq db m h fs]
end

end MV.Lemmas.ECSWords
