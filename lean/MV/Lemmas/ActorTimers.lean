import MV.Model.ActorTimers
namespace MV.Model.ActorTimers
open MV.Model.Scheduler

/-- every callback turn was taken by a live actor -/
def TurnsLive (a : Actor) : Prop := ∀ t ∈ a.turns, t.live = true

theorem idleStop_turns (a : Actor) : (idleStop a).turns = a.turns ∧ (idleStop a).live = a.live := by
  unfold idleStop; split <;> exact ⟨rfl, rfl⟩
theorem idleStart_turns (a : Actor) : (idleStart a).turns = a.turns ∧ (idleStart a).live = a.live := by
  unfold idleStart; split <;> exact ⟨rfl, rfl⟩
theorem post_turns (a : Actor) : (post a).turns = a.turns := rfl
theorem terminate_turns (a : Actor) : (terminate a).turns = a.turns := by
  unfold terminate; split
  · rw [(idleStart_turns _).1]
  · rfl
theorem restart_turns (a : Actor) : (restart a).turns = a.turns := by
  unfold restart
  simp only
  rw [(idleStart_turns _).1, (idleStop_turns _).1]
  split <;> rfl

theorem TurnsLive_of_eq {a b : Actor} (h : b.turns = a.turns) (ha : TurnsLive a) : TurnsLive b := by
  unfold TurnsLive; rw [h]; exact ha

theorem TurnsLive_turnCb (a : Actor) (f : Firing) (h : TurnsLive a) : TurnsLive (turnCb a f) := by
  unfold turnCb
  simp only
  have key : TurnsLive (idleStart
      (if (!a.live) = true ∨ (a.sched.objs f.id).name = idleName ∨ (a.sched.objs f.id).name = expireName then idleStop a
       else { idleStop a with turns := { id := f.id, time := a.sched.now, inc := a.inc, live := a.live } :: (idleStop a).turns })) := by
    apply TurnsLive_of_eq (idleStart_turns _).1
    split
    · exact TurnsLive_of_eq (idleStop_turns a).1 h
    · rename_i hn
      intro t ht
      simp only [List.mem_cons] at ht
      rcases ht with rfl | ht
      · simp only
        cases hl : a.live
        · exact absurd (Or.inl (by simp [hl])) hn
        · rfl
      · rw [(idleStop_turns a).1] at ht; exact h t ht
  split
  · exact TurnsLive_of_eq rfl key
  · exact key

theorem graceful_turns (a : Actor) : (graceful a).turns = a.turns := by
  unfold graceful
  split
  · simp only
    split
    · rw [terminate_turns, (idleStop_turns _).1, (idleStart_turns _).1, (idleStop_turns _).1]
    · rfl
  · rfl

theorem TurnsLive_drain (a : Actor) (n : Nat) (h : TurnsLive a) : TurnsLive (drain a n) := by
  induction n generalizing a with
  | zero => exact h
  | succ n ih =>
    unfold drain
    split
    · exact h
    · exact ih _ (TurnsLive_turnCb _ _ (TurnsLive_of_eq rfl h))

theorem TurnsLive_settle (a : Actor) (h : TurnsLive a) : TurnsLive (settle a) :=
  TurnsLive_of_eq (graceful_turns _) (TurnsLive_drain _ _ (TurnsLive_of_eq (post_turns a) h))

theorem TurnsLive_wait (a : Actor) (d : Nat) (h : TurnsLive a) : TurnsLive (wait a d) := by
  induction d generalizing a with
  | zero => exact h
  | succ d ih => exact ih _ (TurnsLive_settle _ (TurnsLive_of_eq rfl h))

theorem inHandler_turns (a : Actor) (d : Nat) : (inHandler a d).turns = a.turns := by
  induction d generalizing a with
  | zero => rfl
  | succ d ih => unfold inHandler; rw [ih]; rfl

theorem TurnsLive_astep (a : Actor) (op : AOp) (h : TurnsLive a) : TurnsLive (astep a op) := by
  cases op with
  | wait d => exact TurnsLive_wait a d h
  | term d =>
    simp only [astep, term]
    split
    · exact h
    · apply TurnsLive_settle
      apply TurnsLive_of_eq (terminate_turns _)
      apply TurnsLive_of_eq (inHandler_turns _ _)
      apply TurnsLive_of_eq (idleStop_turns _).1
      exact TurnsLive_settle a h
  | busy d =>
    simp only [astep, busy]
    split
    · exact h
    · apply TurnsLive_settle
      apply TurnsLive_of_eq (idleStart_turns _).1
      apply TurnsLive_of_eq (inHandler_turns _ _)
      exact TurnsLive_of_eq (idleStop_turns _).1 h
  | crash d =>
    simp only [astep, crash]
    split
    · exact h
    · apply TurnsLive_settle
      apply TurnsLive_of_eq (restart_turns _)
      apply TurnsLive_of_eq (inHandler_turns _ _)
      apply TurnsLive_of_eq (idleStop_turns _).1
      apply TurnsLive_settle
      apply TurnsLive_of_eq (idleStart_turns _).1
      exact TurnsLive_of_eq (idleStop_turns _).1 h
  | tell act =>
    simp only [astep, tell]
    split
    · exact h
    · apply TurnsLive_settle
      apply TurnsLive_of_eq (idleStart_turns _).1
      cases act <;> exact TurnsLive_of_eq (idleStop_turns _).1 h

theorem TurnsLive_arun (a : Actor) (ops : List AOp) (h : TurnsLive a) : TurnsLive (arun a ops) := by
  induction ops generalizing a with
  | nil => exact h
  | cons op ops ih => exact ih _ (TurnsLive_astep a op h)

theorem TurnsLive_init (tick idle expire : Nat) : TurnsLive (init tick idle expire) := by
  unfold init; simp only
  apply TurnsLive_of_eq (idleStart_turns _).1
  intro t ht; cases ht

/-! ## once terminated, no more turns -/

theorem dead_turnCb (a : Actor) (f : Firing) (h : a.live = false) :
    (turnCb a f).turns = a.turns ∧ (turnCb a f).live = false := by
  unfold turnCb
  simp only [h, Bool.not_false, true_or, if_true, Bool.false_eq_true, and_false, if_false]
  exact ⟨by rw [(idleStart_turns _).1, (idleStop_turns _).1], by rw [(idleStart_turns _).2, (idleStop_turns _).2, h]⟩

theorem dead_graceful (a : Actor) (h : a.live = false) :
    (graceful a).turns = a.turns ∧ (graceful a).live = false := by
  refine ⟨graceful_turns a, ?_⟩
  unfold graceful
  split
  · simp only [h, Bool.false_eq_true, if_false]
  · exact h

theorem dead_drain (a : Actor) (n : Nat) (h : a.live = false) :
    (drain a n).turns = a.turns ∧ (drain a n).live = false := by
  induction n generalizing a with
  | zero => exact ⟨rfl, h⟩
  | succ n ih =>
    unfold drain
    split
    · exact ⟨rfl, h⟩
    · rename_i f rest _
      have hc := dead_turnCb { a with mbox := rest } f h
      have := ih (turnCb { a with mbox := rest } f) hc.2
      exact ⟨this.1.trans hc.1, this.2⟩

theorem dead_wait (a : Actor) (d : Nat) (h : a.live = false) :
    (wait a d).turns = a.turns ∧ (wait a d).live = false := by
  induction d generalizing a with
  | zero => exact ⟨rfl, h⟩
  | succ d ih =>
    have hs : (msIdle a).turns = a.turns ∧ (msIdle a).live = false := by
      unfold msIdle settle
      simp only
      have hd := dead_drain (post { a with sched := msStep a.sched })
        (post { a with sched := msStep a.sched }).mbox.length h
      have hg := dead_graceful _ hd.2
      exact ⟨hg.1.trans hd.1, hg.2⟩
    have := ih (msIdle a) hs.2
    exact ⟨this.1.trans hs.1, this.2⟩

theorem dead_astep (a : Actor) (op : AOp) (h : a.live = false) :
    (astep a op).turns = a.turns ∧ (astep a op).live = false := by
  cases op with
  | wait d => exact dead_wait a d h
  | term d => simp [astep, term, h]
  | busy d => simp [astep, busy, h]
  | crash d => simp [astep, crash, h]
  | tell act => simp [astep, tell, h]

theorem dead_arun (a : Actor) (ops : List AOp) (h : a.live = false) :
    (arun a ops).turns = a.turns ∧ (arun a ops).live = false := by
  induction ops generalizing a with
  | nil => exact ⟨rfl, h⟩
  | cons op ops ih =>
    have h1 := dead_astep a op h
    have := ih _ h1.2
    exact ⟨this.1.trans h1.1, this.2⟩

end MV.Model.ActorTimers
