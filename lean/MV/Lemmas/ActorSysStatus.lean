import MV.Lemmas.ActorSysLocal
/-!
# Status discipline of the Layer-2 model: `terminated` is absorbing

For every function of the model: if actor `b` is terminated before, it is terminated afterwards
(normal return or panic). The only writes to a status are guarded by a read of the same actor's status
in the same function (CAS in the Go code), and `terminated` is never a source state.
-/
namespace MV.Model.ActorSys
open Std.Do

/-- `b` is terminated -/
def Dead (b : Aid) (w : World) : Prop := (actorAt w b).status = .terminated

theorem Dead.modify {b a : Aid} {w : World} {f : Actor → Actor} (h : Dead b w)
    (hf : ∀ x, x.status = .terminated → (f x).status = .terminated) :
    Dead b { w with actors := w.actors.modify a f } := by
  unfold Dead actorAt at *
  by_cases hab : a = b
  · subst hab
    cases hx : w.actors[a]? with
    | none => simp [List.getElem?_modify, hx] at h ⊢; exact h
    | some x => simp [List.getElem?_modify, hx] at h ⊢; exact hf x h
  · simp [List.getElem?_modify, hab]; exact h

theorem Dead.append {b : Aid} {w : World} {c : Actor} (h : Dead b w) :
    Dead b { w with actors := w.actors ++ [c] } := by
  unfold Dead actorAt at *
  by_cases hb : b < w.actors.length
  · simpa [List.getElem?_append_left hb] using h
  · have : w.actors[b]? = none := List.getElem?_eq_none (Nat.le_of_not_lt hb)
    simp [this] at h
    exact absurd h (by decide)

theorem Dead.of_actors_eq {b : Aid} {w w' : World} (h : Dead b w) (he : w'.actors = w.actors) : Dead b w' := by
  unfold Dead actorAt at *; rw [he]; exact h

/-- A predicate on worlds that only depends on the actor table, survives appending a fresh actor and
survives every per-actor update that keeps `terminated` statuses. (`Dead b` is one; stating the
development for an abstract `P` keeps `mvcgen`'s unifier from guessing `b`.) -/
structure StatusClosed (P : World → Prop) : Prop where
  modify : ∀ (w : World) (a : Aid) (f : Actor → Actor),
    (∀ x, x.status = .terminated → (f x).status = .terminated) → P w → P { w with actors := w.actors.modify a f }
  append : ∀ (w : World) (c : Actor), P w → P { w with actors := w.actors ++ [c] }
  actors : ∀ (w w' : World), w'.actors = w.actors → P w → P w'

theorem Dead.closed (b : Aid) : StatusClosed (Dead b) :=
  ⟨fun _ _ _ hf h => Dead.modify h hf, fun _ _ h => Dead.append h, fun _ _ he h => Dead.of_actors_eq h he⟩

/-- a status-closed predicate, bundled so that `mvcgen`'s unifier finds it structurally and the specs
below need no side hypothesis -/
structure SCPred where
  P : World → Prop
  closed : StatusClosed P

@[irreducible] def Holds (Q : SCPred) (w : World) : Prop := Q.P w

section
variable (Q : SCPred)

/-- closes the verification conditions of a `Stable P` proof -/
local macro "dead_close" : tactic => `(tactic| (
  all_goals (try unfold Holds at *)
  all_goals (try assumption)
  all_goals (try exact ExceptConds.entails.rfl)
  all_goals (try (intros; assumption))
  all_goals (try (intro x hx; first | exact hx | (simp_all; done)))
  all_goals (try (refine Q.closed.actors _ _ ?_ (by assumption); rfl))
  all_goals (try (subst_vars; refine Q.closed.actors _ _ ?_ (by assumption); rfl))
  all_goals (try exact Q.closed.append _ _ (by assumption))))

theorem getA_dead (a : Aid) : Stable (Holds Q) (getA a) := by
  unfold Stable getA; mvcgen
attribute [local spec] getA_dead

theorem modA_dead (a : Aid) (f : Actor → Actor)
    (hf : ∀ x, x.status = .terminated → (f x).status = .terminated) : Stable (Holds Q) (modA a f) := by
  unfold Stable modA; mvcgen
  unfold Holds at *; exact Q.closed.modify _ _ _ hf (by assumption)
attribute [local spec] modA_dead

theorem pushSys_dead (t : Aid) (m : SMsg) (s : Option Aid) : Stable (Holds Q) (pushSys t m s) := by
  unfold Stable pushSys; mvcgen
  dead_close
attribute [local spec] pushSys_dead

theorem pushUser_dead (t : Aid) (m : UMsg) (s : Option Aid) : Stable (Holds Q) (pushUser t m s) := by
  unfold Stable pushUser; mvcgen
  dead_close
attribute [local spec] pushUser_dead

theorem sendSys_dead (t : Aid) (m : SMsg) (s : Option Aid) : Stable (Holds Q) (sendSys t m s) := by
  unfold Stable sendSys; mvcgen
  dead_close
attribute [local spec] sendSys_dead

theorem abyssUser_dead (t : Aid) (m : UMsg) (s : Option Aid) : Stable (Holds Q) (abyssUser t m s) := by
  unfold Stable abyssUser; mvcgen
  dead_close
attribute [local spec] abyssUser_dead

theorem sendUser_dead (t : Aid) (m : UMsg) (s : Option Aid) : Stable (Holds Q) (sendUser t m s) := by
  unfold Stable sendUser; mvcgen
  dead_close
attribute [local spec] sendUser_dead

theorem terminateReq_dead (a t : Aid) (g : Bool) : Stable (Holds Q) (terminateReq a t g) := by
  unfold Stable terminateReq; mvcgen
  dead_close
attribute [local spec] terminateReq_dead

theorem terminateCall_dead (a t : Aid) (g : Bool) : Stable (Holds Q) (terminateCall a t g) := by
  unfold Stable terminateCall; mvcgen
  dead_close
attribute [local spec] terminateCall_dead

theorem spawnChild_dead (parent : Aid) (beh : Nat) : Stable (Holds Q) (spawnChild parent beh) := by
  unfold Stable spawnChild; mvcgen
  dead_close
attribute [local spec] spawnChild_dead

theorem runAction_dead (self : Aid) (a : Action) : Stable (Holds Q) (runAction self a) := by
  unfold Stable; cases a <;> unfold runAction <;> mvcgen
  dead_close
attribute [local spec] runAction_dead

theorem runActions_dead (self : Aid) (as : List Action) : Stable (Holds Q) (runActions self as) := by
  induction as with
  | nil => unfold Stable runActions; mvcgen
  | cons a as ih => unfold Stable runActions; mvcgen [ih]
attribute [local spec] runActions_dead

theorem handle_dead (self : Aid) (obs : Obs) : Stable (Holds Q) (handle self obs) := by
  unfold Stable handle; mvcgen
  dead_close
attribute [local spec] handle_dead

theorem userTurn_dead (self : Aid) (obs : Obs) (s : Option Aid) : Stable (Holds Q) (userTurn self obs s) := by
  unfold Stable userTurn; mvcgen
  dead_close
attribute [local spec] userTurn_dead

/-- exact read of an actor record that also keeps `Dead b` -/
theorem getA_dead_exact (a : Aid) (Q : PostCond Actor (.except Unit (.arg World .pure))) :
    ⦃fun w => Q.1 (actorAt w a) w⦄ getA a ⦃Q⦄ := getA_exact a Q

theorem tryTerminated_dead (self : Aid) : Stable (Holds Q) (tryTerminated self) := by
  unfold Stable tryTerminated; mvcgen
  case inv1 => exact post⟨fun _ w => ⌜Holds Q w⌝, fun _ w => ⌜Holds Q w⌝⟩
  dead_close
attribute [local spec] tryTerminated_dead

end

theorem Dead.modify_other {b self : Aid} {w : World} {f : Actor → Actor} (h : Dead b w) (hne : b ≠ self) :
    Dead b { w with actors := w.actors.modify self f } := by
  unfold Dead actorAt at *
  simp [List.getElem?_modify, Ne.symm hne]; exact h

/-- the bundled predicate "`b` is terminated" -/
def deadQ (b : Aid) : SCPred := ⟨Dead b, Dead.closed b⟩

attribute [local spec] getA_dead modA_dead pushSys_dead pushUser_dead sendSys_dead abyssUser_dead sendUser_dead
  terminateReq_dead terminateCall_dead spawnChild_dead runAction_dead runActions_dead handle_dead userTurn_dead
  tryTerminated_dead

/-- any update of an actor whose status was just read as not `terminated` keeps `b` dead -/
theorem Dead.modify_live {b self : Aid} {w : World} {f : Actor → Actor} (h : Dead b w)
    (hg : (actorAt w self).status ≠ .terminated) : Dead b { w with actors := w.actors.modify self f } := by
  by_cases hbs : b = self
  · subst hbs; exact absurd h hg
  · unfold Dead actorAt at *
    simp [List.getElem?_modify, Ne.symm hbs]; exact h

end MV.Model.ActorSys
