import MV.Lemmas.ECS
/-!
# The ECS world refines the entity/component specification (C14) — reads, writes, queries, steps
-/
namespace MV.Lemmas.ECS
open MV.Model.ECS MV.Model.ECSMask MV.Lemmas.ECSList MV.Lemmas.ECSMask MV.Lemmas.ECSSlots
  MV.Lemmas.ECSStore MV.Lemmas.ECSArch

/-! ## bulk annihilation -/

theorem annihilates_cons (w : World) (e : Entity) (es : List Entity) :
    w.annihilates (e :: es) = if (w.annihilate e).2 then w.annihilate e else (w.annihilate e).1.annihilates es := rfl

theorem killN_R (l : List Nat) : ∀ (s : St) (t : MV.Spec.ECS.St), R s t → (∀ h, h ∈ l → h < s.hs.length) →
    R { s with w := (s.w.annihilates (l.map s.h)).1 } (l.foldl MV.Spec.ECS.St.kill t) ∧
      (s.w.annihilates (l.map s.h)).2 = false := by
  induction l with
  | nil => intro s t r _; exact ⟨r, rfl⟩
  | cons h l ih =>
    intro s t r hl
    obtain ⟨r1, p1⟩ := kill_R s t r h (hl h (by simp))
    simp only [List.map_cons, List.foldl_cons, annihilates_cons, p1, Bool.false_eq_true, if_false]
    exact ih { s with w := (s.w.annihilate (s.h h)).1 } (t.kill h) r1 (fun h' hh' => hl h' (by simp [hh']))

/-! ## component access -/

theorem has_iff (comps : List Nat) (c : Nat) : MV.Spec.ECS.has comps c = true ↔ c ∈ comps := by
  simp [MV.Spec.ECS.has]

/-- the storage cell of a living name -/
theorem store_get_living (s : St) (t : MV.Spec.ECS.St) (r : R s t) (h : Nat) (hh : h < s.hs.length)
    (hl : t.isLiving h = true) (c : Nat) :
    ∃ a, s.w.index (nth z s.hs h) = some a ∧ isSet (s.w.art a).mask c = MV.Spec.ECS.has (t.compsOf h) c ∧
      (s.w.art a).store.get (nth z s.hs h).id c =
        if MV.Spec.ECS.has (t.compsOf h) c then .val (t.data h c) else .panic := by
  obtain ⟨a, row, hidx, ha, hmask, hpk, hcells⟩ := r.ent.living h hh hl
  have hcont : (s.w.art a).mask.contains c = MV.Spec.ECS.has (t.compsOf h) c := by
    rw [Bool.eq_iff_iff, has_iff, hmask]
    simp [mem_setAll]
  refine ⟨a, hidx, hcont, ?_⟩
  unfold Store.get
  rw [hpk, r.arch.cols a ha]
  simp only [hcont, hcells]

theorem get_eq (s : St) (t : MV.Spec.ECS.St) (r : R s t) (h : Nat) (hh : h < s.hs.length) (c : Nat) :
    s.w.get (s.h h) c =
      if t.isLiving h && MV.Spec.ECS.has (t.compsOf h) c then .val (t.data h c) else .nil := by
  have halive := alive_eq _ _ _ r.slots h hh
  rw [h_eq]
  unfold World.get
  cases hl : t.isLiving h with
  | false =>
    rw [isLiving_eq] at hl; rw [hl] at halive
    simp [halive]
  | true =>
    have hl' := hl; rw [isLiving_eq] at hl'; rw [hl'] at halive
    obtain ⟨a, hidx, hset, hget⟩ := store_get_living s t r h hh hl c
    simp only [halive, Bool.not_true, Bool.false_eq_true, if_false, hidx, hset, hget, Bool.true_and]
    cases MV.Spec.ECS.has (t.compsOf h) c <;> simp

theorem rget_eq (s : St) (t : MV.Spec.ECS.St) (r : R s t) (h : Nat) (hh : h < s.hs.length) (c : Nat) :
    s.w.rget (s.h h) c =
      if t.isLiving h && MV.Spec.ECS.has (t.compsOf h) c then .val (t.data h c) else .panic := by
  rw [h_eq]
  unfold World.rget
  cases hl : t.isLiving h with
  | false => rw [dead_index s t r h hh hl]; simp
  | true =>
    obtain ⟨a, hidx, _, hget⟩ := store_get_living s t r h hh hl c
    simp only [hidx, hget, Bool.true_and]

/-- writing through the pointer of a living name's component -/
theorem put_R (s : St) (t : MV.Spec.ECS.St) (r : R s t) (h : Nat) (hh : h < s.hs.length)
    (hl : t.isLiving h = true) (c : Nat) (v : Int) :
    R { s with w := s.w.put (s.h h) c v } (t.setData h c v) := by
  obtain ⟨a, row, hidx, ha, hmask, hpk, hcells⟩ := r.ent.living h hh hl
  rw [h_eq]
  let e := nth z s.hs h
  let A := s.w.art a
  let A' : Arch := { A with store := A.store.put e.id c v }
  have hput : s.w.put e c v = s.w.setArt a A' := by simp only [World.put, e, hidx]; rfl
  rw [hput]
  obtain ⟨hst, hcols, hpks, hval, hother⟩ := put_spec A.store e.id c v row (r.ent.store a ha) hpk
  let w' := s.w.setArt a A'
  have hart : ∀ j, w'.art j = if a = j then A' else s.w.art j := by
    intro j; rw [art_of_set s.w w' a A' rfl j]; simp [ha]
  refine ⟨r.ncomp, r.clen, r.slots, ?_, ?_⟩
  · exact archOK_data s.w w' a A' r.arch rfl rfl rfl rfl rfl hcols
  · show EntOK w' s.hs (t.setData h c v)
    constructor
    · intro a' ha'
      rw [hart]
      by_cases e1 : a = a'
      · simp only [e1, if_true]; exact hst
      · simp only [e1, if_false]; exact r.ent.store a' (by simpa [w', World.setArt] using ha')
    · intro i hi hli
      have hli' : t.isLiving i = true := hli
      obtain ⟨ai, ri, h1, h2, h3, h4, h5⟩ := r.ent.living i hi hli'
      refine ⟨ai, ri, h1, by simpa [w', World.setArt] using h2, ?_, ?_, ?_⟩
      · rw [hart]
        by_cases e2 : a = ai
        · subst e2; simp only [if_true]; exact h3
        · simp only [e2, if_false]; exact h3
      · rw [hart]
        by_cases e2 : a = ai
        · subst e2; simp only [if_true]
          show (A.store.put e.id c v).pk _ = _
          rw [hpks]; exact h4
        · simp only [e2, if_false]; exact h4
      · intro c'
        show _ = (if i = h ∧ c' = c then v else t.data i c')
        rw [hart]
        by_cases e1 : i = h
        · subst e1
          have hai : ai = a := by rw [hidx] at h1; exact (Option.some.inj h1).symm
          subst hai
          have hri : ri = row := by rw [hpk] at h4; exact (Option.some.inj h4).symm
          subst hri
          simp only [if_true, true_and]
          show (A.store.put e.id c v).cells ri c' = _
          by_cases e3 : c' = c
          · subst e3; simp only [if_true]; exact hval
          · simp only [e3, if_false]; rw [hother ri c' (Or.inr e3)]; exact h5 c'
        · simp only [e1, false_and, if_false]
          by_cases e2 : a = ai
          · subst e2; simp only [if_true]
            show (A.store.put e.id c v).cells ri c' = _
            have hidne : (nth z s.hs i).id ≠ e.id := fun x =>
              e1 (living_id_inj _ _ _ r.slots i h hi hh hli' hl x)
            have hrne : ri ≠ row := fun x => hidne ((r.ent.store a ha).inj _ _ _ h4 (x ▸ hpk))
            rw [hother ri c' (Or.inl hrne)]; exact h5 c'
          · simp only [e2, if_false]; exact h5 c'
    · intro x a' hx
      obtain ⟨h1, h2, h3⟩ := r.ent.index_sound x a' hx
      refine ⟨by simpa [w', World.setArt] using h1, ?_, h3⟩
      rw [hart]
      by_cases e2 : a = a'
      · subst e2; simp only [if_true]; exact h2
      · simp only [e2, if_false]; exact h2
    · intro a' ha' x hx
      rw [hart] at hx
      have ha'' : a' < s.w.arts.length := by simpa [w', World.setArt] using ha'
      by_cases e2 : a = a'
      · subst e2; simp only [if_true] at hx; exact r.ent.members a ha x hx
      · simp only [e2, if_false] at hx; exact r.ent.members a' ha'' x hx
    · intro i hi c'
      show (if i = h ∧ c' = c then v else t.data i c') = 0
      have : i ≠ h := by omega
      simp only [this, false_and, if_false]
      exact r.ent.data0 i hi c'

end MV.Lemmas.ECS
