import MV.Model.StreamGate
import MV.Spec.StreamGate
/-!
# Invariants of the sender-gate model (all interleavings, any number of appenders, any failure pattern)
Same proof shape as `MV.Lemmas.Mailbox`: counting invariants over `List.countP`, one uniform tactic
block per program counter.
-/
set_option linter.unusedSimpArgs false
namespace MV.Model.StreamGate
open MV.Model.Conc

variable (limit : Nat)

/-- sender program counters that own the `active` state: from the successful CAS (the spawned
goroutine starts at `cut`) up to, not including, the effect of `Store(idle)` -/
def owns : PC → Bool
  | .cut | .send _ | .drop | .idle => true
  | _ => false

def actFlag (g : G) : Nat := if g.active then 1 else 0

/-- **Gate invariant**: exactly one sender goroutine while the state is `active`, none while `idle`. -/
def GateInv (s : State) : Prop := s.ths.countP owns = actFlag s.g

theorem cutBatch_cases (q : List Msg) :
    (cutBatch limit q = (q, []) ∧ q.length < limit) ∨
    (cutBatch limit q = (q.take limit, q.drop limit) ∧ limit ≤ q.length) := by
  unfold cutBatch
  by_cases h : q.length < limit
  · left; simp [h]
  · right; simp [h]; omega

theorem cutBatch_append (q : List Msg) : (cutBatch limit q).1 ++ (cutBatch limit q).2 = q := by
  rcases cutBatch_cases limit q with ⟨h, _⟩ | ⟨h, _⟩ <;> rw [h] <;> simp

theorem cutBatch_length (q : List Msg) : (cutBatch limit q).1.length ≤ limit := by
  rcases cutBatch_cases limit q with ⟨h, hl⟩ | ⟨h, hl⟩ <;> rw [h] <;> simp <;> omega

/-- with a positive limit a cut of a non-empty queue takes at least one message -/
theorem cutBatch_progress (hl : 0 < limit) (q : List Msg) (hq : q ≠ []) : (cutBatch limit q).1 ≠ [] := by
  rcases cutBatch_cases limit q with ⟨h, _⟩ | ⟨h, hle⟩ <;> rw [h]
  · exact hq
  · intro h0
    have h1 : q.take limit = [] := h0
    have : (q.take limit).length = 0 := by rw [h1]; rfl
    rw [List.length_take] at this
    have := List.length_pos_iff.mpr hq
    omega

theorem gate_step (s s' : State) (i : Nat) (h : GateInv s) (hs : step (sys limit) s i = some s') :
    GateInv s' := by
  obtain ⟨pc, pc', sp, hpc, ht, _, hc⟩ := step_spec (sys limit) s s' i hs
  have k := hc owns
  have hpos := fun hp => countP_pos_of_getElem? s.ths i pc owns hpc hp
  unfold GateInv actFlag at *
  simp only [sys] at ht
  cases pc <;> simp only [trans] at ht
  all_goals (try split at ht)
  all_goals (try split at ht)
  all_goals
    simp only [Option.some.injEq, Prod.mk.injEq, reduceCtorEq] at ht
  all_goals (try (
    obtain ⟨hg, hp, hsp⟩ := ht; subst hp; subst hsp; rw [← hg]
    (try have hp1 := hpos (by rfl))
    simp only [owns, if_true, if_false, Bool.false_eq_true, List.countP_nil, List.countP_cons, Nat.add_zero, Nat.zero_add] at k
    (try dsimp only)
    (try split at h) <;> (try split at k) <;> (try split) <;> simp_all <;> omega))

/-! ## conservation: nothing invented, duplicated, reordered -/

def holder : PC → Bool | .send _ => true | _ => false
def ownsNH : PC → Bool | .cut | .drop | .idle => true | _ => false

/-- a sender about to `Send` a batch that is not the one recorded in `held` -/
def badHold (h : Option (List Msg)) : PC → Bool
  | .send b => decide (h ≠ some b)
  | _ => false

theorem owns_split (l : List PC) : l.countP owns = l.countP holder + l.countP ownsNH := by
  induction l with
  | nil => simp
  | cons x xs ih => cases x <;> simp [List.countP_cons, owns, holder, ownsNH] <;> omega

theorem badHold_le (h : Option (List Msg)) (l : List PC) : l.countP (badHold h) ≤ l.countP holder := by
  apply List.countP_mono_left; intro x _ hx; cases x <;> simp_all [badHold, holder]

/-- every appended message is — in append (lock) order — in a batch that already left the queue, or
in the batch the sender holds, or still queued; batches handed to the stream respect the limit -/
def ConsInv (s : State) : Prop :=
  s.g.appended = removed s.g ++ heldList s.g ++ s.g.q ∧
  s.ths.countP holder = (if s.g.held.isSome then 1 else 0) ∧
  s.ths.countP (badHold s.g.held) = 0 ∧
  (∀ e ∈ s.g.hist, e.1 = true → 0 < e.2.length ∧ e.2.length ≤ limit) ∧
  (∀ b, s.g.held = some b → 0 < b.length ∧ b.length ≤ limit)

theorem removed_append (g : G) (e : Bool × List Msg) :
    (g.hist ++ [e]).flatMap (·.2) = removed g ++ e.2 := by
  simp [removed, List.flatMap_append]

theorem cons_step (s s' : State) (i : Nat) (hg0 : GateInv s) (h : ConsInv limit s)
    (hs : step (sys limit) s i = some s') : ConsInv limit s' := by
  obtain ⟨pc, pc', sp, hpc, ht, -, hc⟩ := step_spec (sys limit) s s' i hs
  obtain ⟨hA, hH, hB, hL, hHL⟩ := h
  have kH := hc holder
  have kB := hc (badHold s.g.held)
  have kN := hc (badHold none)
  have split := owns_split s.ths
  have hposN := fun hp => countP_pos_of_getElem? s.ths i pc ownsNH hpc hp
  have hposB := fun hp => countP_pos_of_getElem? s.ths i pc (badHold s.g.held) hpc hp
  have hleN := badHold_le none s'.ths
  unfold GateInv actFlag at hg0
  unfold ConsInv
  simp only [sys] at ht
  cases pc <;> simp only [trans] at ht
  all_goals (try split at ht)
  all_goals (try split at ht)
  all_goals
    simp only [Option.some.injEq, Prod.mk.injEq, reduceCtorEq] at ht
  case app m =>
    obtain ⟨hg, hp, hsp⟩ := ht; subst hp; subst hsp; rw [← hg]; dsimp only
    simp only [holder, badHold, if_false, Bool.false_eq_true, List.countP_nil, Nat.add_zero] at kH kB
    refine ⟨?_, by omega, by omega, hL, hHL⟩
    simp only [removed, heldList] at hA ⊢
    rw [hA]; simp
  case h_1 rest hcb =>
    -- empty cut: the queue was empty
    obtain ⟨hg, hp, hsp⟩ := ht; subst hp; subst hsp; rw [← hg]; dsimp only
    simp only [holder, badHold, if_false, Bool.false_eq_true, List.countP_nil, Nat.add_zero] at kH kB
    refine ⟨?_, by omega, by omega, hL, hHL⟩
    have := cutBatch_append limit s.g.q
    rw [hcb] at this
    simp only [removed, heldList] at hA ⊢
    rw [hA]; simp at this; rw [this]
  case h_2 m b rest hcb =>
    -- a batch is cut: nobody holds one (this thread is the unique owner and holds none)
    obtain ⟨hg, hp, hsp⟩ := ht; subst hp; subst hsp; rw [← hg]; dsimp only
    have hp1 := hposN (by rfl)
    simp only [holder, if_true, if_false, Bool.false_eq_true, List.countP_nil, Nat.add_zero] at kH
    have hz : s.ths.countP holder = 0 := by split at hg0 <;> omega
    have hn : s.g.held = none := by
      cases hh : s.g.held with
      | none => rfl
      | some v => rw [hh] at hH; simp at hH; omega
    have k2 := hc (badHold (some (m :: b)))
    have l2 := badHold_le (some (m :: b)) s.ths
    simp only [badHold, ne_eq, not_true_eq_false, decide_false, if_false, Bool.false_eq_true, List.countP_nil, Nat.add_zero] at k2
    have hap := cutBatch_append limit s.g.q
    have hlen := cutBatch_length limit s.g.q
    rw [hcb] at hap hlen
    refine ⟨?_, ?_, ?_, hL, ?_⟩
    · simp only [removed, heldList, hn, Option.getD_none, List.append_nil] at hA
      simp only [removed, heldList, Option.getD_some]
      rw [hA, ← hap]; simp
    · simp only [Option.isSome_some, if_true]; omega
    · omega
    · intro b' hb'; simp only [Option.some.injEq] at hb'; subst hb'
      simp only [List.length_cons] at hlen ⊢; omega
  case send.isTrue b hbr =>
    obtain ⟨hg, hp, hsp⟩ := ht; subst hp; subst hsp; rw [← hg]; dsimp only
    have hh : s.g.held = some b := by
      by_cases hbad : badHold s.g.held (.send b) = true
      · have := hposB hbad; omega
      · simpa [badHold] using hbad
    rw [hh] at hH
    simp only [Option.isSome_some, if_true] at hH
    simp only [holder, if_true, if_false, Bool.false_eq_true, List.countP_nil, Nat.add_zero] at kH
    simp only [badHold, ne_eq, reduceCtorEq, not_false_eq_true, decide_true, if_true, if_false, Bool.false_eq_true, List.countP_nil, Nat.add_zero] at kN
    refine ⟨?_, ?_, ?_, ?_, ?_⟩
    · simp only [heldList, hh, Option.getD_some] at hA
      simp only [removed, heldList, Option.getD_none, List.append_nil]
      rw [removed_append, hA]
    · simp only [Option.isSome_none, Bool.false_eq_true, if_false]; omega
    · omega
    · intro e he
      simp only [List.mem_append, List.mem_singleton] at he
      rcases he with he | he
      · exact hL e he
      · subst he; simp
    · intro b' hb'; simp at hb'
  case send.isFalse b hbr =>
    obtain ⟨hg, hp, hsp⟩ := ht; subst hp; subst hsp; rw [← hg]; dsimp only
    have hh : s.g.held = some b := by
      by_cases hbad : badHold s.g.held (.send b) = true
      · have := hposB hbad; omega
      · simpa [badHold] using hbad
    have hbl := hHL b hh
    rw [hh] at hH
    simp only [Option.isSome_some, if_true] at hH
    simp only [holder, if_true, if_false, Bool.false_eq_true, List.countP_nil, Nat.add_zero] at kH
    simp only [badHold, ne_eq, reduceCtorEq, not_false_eq_true, decide_true, if_true, if_false, Bool.false_eq_true, List.countP_nil, Nat.add_zero] at kN
    refine ⟨?_, ?_, ?_, ?_, ?_⟩
    · simp only [heldList, hh, Option.getD_some] at hA
      simp only [removed, heldList, Option.getD_none, List.append_nil]
      rw [removed_append, hA]
    · simp only [Option.isSome_none, Bool.false_eq_true, if_false]; omega
    · omega
    · intro e he
      simp only [List.mem_append, List.mem_singleton] at he
      rcases he with he | he
      · exact hL e he
      · subst he; intro _; exact hbl
    · intro b' hb'; simp at hb'
  case drop =>
    obtain ⟨hg, hp, hsp⟩ := ht; subst hp; subst hsp; rw [← hg]; dsimp only
    simp only [holder, badHold, if_false, Bool.false_eq_true, List.countP_nil, Nat.add_zero] at kH kB
    -- the dropping thread is the unique owner and holds nothing
    have hp1 := hposN (by rfl)
    have hz : s.ths.countP holder = 0 := by split at hg0 <;> omega
    have hn : s.g.held = none := by
      cases hh : s.g.held with
      | none => rfl
      | some v => rw [hh] at hH; simp at hH; omega
    refine ⟨?_, by omega, by omega, ?_, hHL⟩
    · simp only [removed, heldList, hn, Option.getD_none, List.append_nil] at hA
      simp only [removed, heldList, hn, Option.getD_none, List.append_nil, List.flatMap_append,
        List.flatMap_cons, List.flatMap_nil]
      exact hA
    · intro e he
      simp only [List.mem_append, List.mem_singleton] at he
      rcases he with he | he
      · exact hL e he
      · subst he; simp
  -- remaining program counters: queue, history and `held` untouched, thread neither becomes nor
  -- stops being a holder
  all_goals (
    obtain ⟨hg, hp, hsp⟩ := ht; subst hp; subst hsp; rw [← hg]; (try dsimp only)
    simp only [holder, badHold, if_true, if_false, Bool.false_eq_true, List.countP_nil, List.countP_cons, Nat.add_zero] at kH kB
    exact ⟨hA, by omega, by omega, hL, hHL⟩)

/-! ## no stranded message -/

/-- threads that will still look at the queue, or start somebody who will -/
def waker : PC → Bool
  | .cas | .recheck => true
  | .recas e => !e
  | _ => false

/-- pending messages imply that a sender goroutine is alive, or somebody is on the way to start one -/
def WakeInv (s : State) : Prop := s.g.q ≠ [] → s.ths.countP waker + actFlag s.g > 0

theorem wake_step (s s' : State) (i : Nat) (hg0 : GateInv s) (h : WakeInv s)
    (hs : step (sys limit) s i = some s') : WakeInv s' := by
  obtain ⟨pc, pc', sp, hpc, ht, -, hc⟩ := step_spec (sys limit) s s' i hs
  have k := hc waker
  have hpos := fun hp => countP_pos_of_getElem? s.ths i pc owns hpc hp
  unfold WakeInv GateInv actFlag at *
  simp only [sys] at ht
  cases pc <;> simp only [trans] at ht
  all_goals (try split at ht)
  all_goals (try split at ht)
  all_goals
    simp only [Option.some.injEq, Prod.mk.injEq, reduceCtorEq] at ht
  case h_1 rest hcb =>
    obtain ⟨hg, hp, hsp⟩ := ht; subst hp; subst hsp; rw [← hg]
    have hp1 := hpos (by rfl)
    intro _; dsimp only
    split at hg0 <;> simp_all <;> omega
  case h_2 m b rest hcb =>
    obtain ⟨hg, hp, hsp⟩ := ht; subst hp; subst hsp; rw [← hg]
    have hp1 := hpos (by rfl)
    intro _; dsimp only
    split at hg0 <;> simp_all <;> omega
  case recheck =>
    obtain ⟨hg, hp, hsp⟩ := ht; subst hp; subst hsp; rw [← hg]
    intro hq
    have h1 := h hq
    have he : s.g.q.isEmpty = false := by
      cases hq' : s.g.q with
      | nil => exact absurd hq' hq
      | cons _ _ => rfl
    rw [he] at k
    simp only [waker, Bool.not_false, if_true, List.countP_nil, Nat.add_zero] at k
    omega
  case cas.isTrue hr =>
    -- the activation CAS fails: the state is `active`
    obtain ⟨hg, hp, hsp⟩ := ht; subst hp; subst hsp; rw [← hg]
    intro _; simp only [hr, if_true]; omega
  case recas.isFalse.isTrue he hr =>
    -- the re-CAS fails: the state is `active`
    obtain ⟨hg, hp, hsp⟩ := ht; subst hp; subst hsp; rw [← hg]
    intro _; simp only [hr, if_true]; omega
  all_goals (
    obtain ⟨hg, hp, hsp⟩ := ht; subst hp; subst hsp; rw [← hg]
    simp only [waker, if_true, if_false, Bool.false_eq_true, List.countP_nil, List.countP_cons, Nat.add_zero] at k
    (try dsimp only)
    (try split at hg0) <;> simp_all <;> (try intros) <;> omega)

/-! ## all invariants together, for every schedule -/

def AllInv (s : State) : Prop := GateInv s ∧ ConsInv limit s ∧ WakeInv s

theorem all_init : AllInv limit init := by
  refine ⟨by simp [GateInv, init, actFlag], ?_, by simp [WakeInv, init]⟩
  simp [ConsInv, init, removed, heldList]

theorem all_step (s s' : State) (i : Nat) (h : AllInv limit s) (hs : step (sys limit) s i = some s') :
    AllInv limit s' := by
  obtain ⟨hg, hc, hw⟩ := h
  exact ⟨gate_step limit s s' i hg hs, cons_step limit s s' i hg hc hs, wake_step limit s s' i hg hw hs⟩

theorem all_spawn (s : State) (pc : PC) (h : AllInv limit s) (ha : (sys limit).allowed pc = true) :
    AllInv limit { s with ths := s.ths ++ [pc] } := by
  obtain ⟨hg, ⟨hA, hH, hB, hL, hHL⟩, hw⟩ := h
  simp only [sys] at ha
  cases pc <;> simp [allowed] at ha <;>
  · refine ⟨?_, ⟨hA, ?_, ?_, hL, hHL⟩, ?_⟩ <;>
      simp_all [GateInv, WakeInv, List.countP_append, owns, holder, badHold, waker]

/-- **every reachable state** (any schedule, any number of appenders arriving at any time, the stream
failing and recovering at any time) satisfies all invariants -/
theorem all_reachable (sched : List (Ev PC)) : AllInv limit (exec (sys limit) init sched) :=
  exec_inv (sys limit) (AllInv limit) (all_step limit) (all_spawn limit) init (all_init limit) sched

end MV.Model.StreamGate
