import MV.Lemmas.ECSQuery
/-!
# One step of the ECS model refines one step of the specification (C14)
-/
namespace MV.Lemmas.ECS
open MV.Model.ECS MV.Model.ECSMask MV.Lemmas.ECSList MV.Lemmas.ECSMask MV.Lemmas.ECSSlots
  MV.Lemmas.ECSStore MV.Lemmas.ECSArch

theorem annihilate_zero (w : World) : (w.annihilate ⟨0, 0⟩).1 = w := by
  unfold World.annihilate
  by_cases h : w.slots.alive ⟨0, 0⟩ = true
  · simp [h]
  · simp [h]

theorem all_lt_iff (l : List Nat) (n : Nat) : (l.all (· < n)) = true ↔ ∀ h, h ∈ l → h < n := by
  simp

theorem any_congr_mem {α : Type} (l : List α) (f g : α → Bool) (h : ∀ x, x ∈ l → f x = g x) :
    l.any f = l.any g := by
  induction l with
  | nil => rfl
  | cons x l ih =>
    simp only [List.any_cons, h x (by simp), ih (fun y hy => h y (by simp [hy]))]

theorem step_refines (s : St) (t : MV.Spec.ECS.St) (r : R s t) (op : Op) :
    R (step s op).1 (MV.Spec.ECS.step t op).1 ∧
      MV.Spec.ECS.erase op (step s op).2 = (MV.Spec.ECS.step t op).2 := by
  have hn := r.n_eq
  cases op with
  | reg =>
    refine ⟨⟨?_, r.clen, r.slots, ?_, ?_⟩, ?_⟩
    · show t.ncomp + 1 = s.w.ncomp + 1
      rw [r.ncomp]
    · exact archOK_congr s.w _ r.arch rfl rfl rfl
    · exact ⟨r.ent.store, r.ent.living, r.ent.index_sound, r.ent.members, r.ent.data0⟩
    · show Out.nat (s.w.ncomp + 1) = Out.nat (t.ncomp + 1)
      rw [r.ncomp]
  | rereg k =>
    simp only [step, MV.Spec.ECS.step, r.ncomp]
    by_cases h : 1 ≤ k ∧ k ≤ s.w.ncomp
    · simp only [h, and_self, if_true]; exact ⟨r, rfl⟩
    · simp only [h, if_false]; exact ⟨r, rfl⟩
  | spawn ids =>
    have hv : validIds t.ncomp ids = validIds s.w.ncomp ids := by rw [r.ncomp]
    simp only [step, MV.Spec.ECS.step, hv]
    by_cases h : validIds s.w.ncomp ids = true
    · simp only [h, if_true]; exact ⟨spawn_R s t r ids, rfl⟩
    · simp only [h, Bool.false_eq_true, if_false]; exact ⟨r, rfl⟩
  | spawnN n ids =>
    have hv : validIds t.ncomp ids = validIds s.w.ncomp ids := by rw [r.ncomp]
    simp only [step, MV.Spec.ECS.step, hv]
    by_cases h : validIds s.w.ncomp ids = true
    · simp only [h, if_true]; exact ⟨spawnN_R s t r n ids, rfl⟩
    · simp only [h, Bool.false_eq_true, if_false]; exact ⟨r, rfl⟩
  | kill h =>
    simp only [step, MV.Spec.ECS.step, hn]
    by_cases hh : h < s.hs.length
    · obtain ⟨r1, p1⟩ := kill_R s t r h hh
      simp only [hh, if_true, p1, Bool.false_eq_true, if_false]
      exact ⟨r1, rfl⟩
    · simp only [hh, if_false]; exact ⟨r, rfl⟩
  | killN l =>
    simp only [step, MV.Spec.ECS.step, hn]
    by_cases hh : (l.all (· < s.hs.length)) = true
    · obtain ⟨r1, p1⟩ := killN_R l s t r ((all_lt_iff l _).mp hh)
      simp only [hh, if_true, p1, Bool.false_eq_true, if_false]
      exact ⟨r1, rfl⟩
    · simp only [hh, Bool.false_eq_true, if_false]; exact ⟨r, rfl⟩
  | alive h =>
    simp only [step, MV.Spec.ECS.step, hn]
    by_cases hh : h < s.hs.length
    · simp only [hh, if_true]
      refine ⟨r, ?_⟩
      show Out.bool (s.w.slots.alive (nth z s.hs h)) = Out.bool (nth false t.living h)
      rw [alive_eq _ _ _ r.slots h hh]
    · simp only [hh, if_false]; exact ⟨r, rfl⟩
  | read h c =>
    simp only [step, MV.Spec.ECS.step, hn]
    by_cases hh : h < s.hs.length
    · simp only [hh, if_true, get_eq s t r h hh c]
      refine ⟨r, ?_⟩
      cases (t.isLiving h && MV.Spec.ECS.has (t.compsOf h) c) <;> rfl
    · simp only [hh, if_false]; exact ⟨r, rfl⟩
  | write h c v =>
    simp only [step, MV.Spec.ECS.step, hn]
    by_cases hh : h < s.hs.length
    · simp only [hh, if_true, get_eq s t r h hh c]
      cases hc : (t.isLiving h && MV.Spec.ECS.has (t.compsOf h) c) with
      | false => exact ⟨r, rfl⟩
      | true =>
        simp only [Bool.and_eq_true] at hc
        exact ⟨put_R s t r h hh hc.1 c v, rfl⟩
    · simp only [hh, if_false]; exact ⟨r, rfl⟩
  | rread h c =>
    simp only [step, MV.Spec.ECS.step, hn]
    by_cases hh : h < s.hs.length
    · simp only [hh, if_true, rget_eq s t r h hh c]
      refine ⟨r, ?_⟩
      cases (t.isLiving h && MV.Spec.ECS.has (t.compsOf h) c) <;> rfl
    · simp only [hh, if_false]; exact ⟨r, rfl⟩
  | rwrite h c v =>
    simp only [step, MV.Spec.ECS.step, hn]
    by_cases hh : h < s.hs.length
    · simp only [hh, if_true, rget_eq s t r h hh c]
      cases hc : (t.isLiving h && MV.Spec.ECS.has (t.compsOf h) c) with
      | false => exact ⟨r, rfl⟩
      | true =>
        simp only [Bool.and_eq_true] at hc
        exact ⟨put_R s t r h hh hc.1 c v, rfl⟩
    · simp only [hh, if_false]; exact ⟨r, rfl⟩
  | query f =>
    refine ⟨r, ?_⟩
    show Out.qres (s.w.queryCount f) (names s.hs (s.w.query f)) = Out.qres (t.matches f).length (t.matches f)
    rw [queryCount_eq s t r f, names_query s t r f]
  | qiter c f =>
    have hmem : ∀ i, i ∈ t.matches f → i < s.hs.length ∧ t.isLiving i = true := by
      intro i hi
      unfold MV.Spec.ECS.St.matches at hi
      rw [List.mem_filter, List.mem_range, hn, Bool.and_eq_true] at hi
      exact ⟨hi.1, hi.2.1⟩
    have hval : ∀ i, i ∈ t.matches f → s.w.rget (nth z s.hs i) c =
        if MV.Spec.ECS.has (t.compsOf i) c then .val (t.data i c) else .panic := by
      intro i hi
      have := rget_eq s t r i (hmem i hi).1 c
      rw [h_eq, (hmem i hi).2, Bool.true_and] at this
      exact this
    have hany : (s.w.query f).any (fun e => s.w.rget e c == .panic) =
        (t.matches f).any (fun i => !MV.Spec.ECS.has (t.compsOf i) c) := by
      rw [(query_perm s t r f).any_eq, List.any_map]
      apply any_congr_mem
      intro i hi
      show (s.w.rget (nth z s.hs i) c == GetRes.panic) = _
      rw [hval i hi]
      cases MV.Spec.ECS.has (t.compsOf i) c <;> rfl
    simp only [step, MV.Spec.ECS.step, hany]
    cases hc : (t.matches f).any (fun i => !MV.Spec.ECS.has (t.compsOf i) c) with
    | true => exact ⟨r, rfl⟩
    | false =>
      refine ⟨r, ?_⟩
      simp only [Bool.false_eq_true, if_false, MV.Spec.ECS.erase]
      rw [names_query s t r f]
      congr 1
      apply List.map_congr_left
      intro i hi
      rw [h_eq, hval i hi]
      have : MV.Spec.ECS.has (t.compsOf i) c = true := by
        have := List.any_eq_false.mp hc i hi
        simpa using this
      simp only [this, if_true, optVal]
  | alive0 => exact ⟨r, rfl⟩
  | kill0 =>
    refine ⟨?_, rfl⟩
    show R { s with w := (s.w.annihilate ⟨0, 0⟩).1 } t
    rw [annihilate_zero]; exact r

end MV.Lemmas.ECS
