import MV.Lemmas.ActorTimers
import MV.Lemmas.SchedulerExec
/-!
# The actor slice over the scheduler: invariants (`AInv`), scheduler-event decomposition (`StepsTo`),
`DeadStopped`
-/
namespace MV.Model.ActorTimers
open MV.Model.Scheduler

/-- the scheduler of the actor is in a reachable-like state, and `s'` extends `s` -/
def AInv (a : Actor) : Prop := Inv a.sched

theorem Inv_msStep (s : Sched) (h : Inv s) : Inv (msStep s) := by
  unfold msStep
  simp only
  have h1 : Inv (step s (.advance 1)).1 := Inv_step s _ h
  generalize (step s (.advance 1)).1 = s1 at h1
  generalize s1.nobjs = n
  induction n with
  | zero => exact h1
  | succ n ih => exact Inv_fireIfDue _ _ ih

theorem Ext_fireIfDue (s : Sched) (k : Nat) : Ext s (fireIfDue s k) := by
  rcases fireIfDue_steps s k with e | e <;> rw [e]
  · exact Ext.refl s
  · exact (Ext_step _ _).trans (Ext_step _ _)

theorem Ext_msStep (s : Sched) : Ext s (msStep s) := by
  unfold msStep
  simp only
  have h1 : Ext s (step s (.advance 1)).1 := Ext_step s _
  generalize (step s (.advance 1)).1 = s1 at h1
  generalize s1.nobjs = n
  induction n with
  | zero => exact h1
  | succ n ih => exact ih.trans (Ext_fireIfDue _ _)

/-- `AExt a b`: `b` is a later state of the same actor: its scheduler extends `a`'s -/
def AExt (a b : Actor) : Prop := Ext a.sched b.sched

theorem idleStop_ok (a : Actor) (h : AInv a) : AInv (idleStop a) ∧ AExt a (idleStop a) := by
  unfold idleStop AInv AExt
  split
  · exact ⟨Inv_unregister _ _ h, Ext_unregister _ _⟩
  · exact ⟨h, Ext.refl _⟩

theorem idleStart_ok (a : Actor) (h : AInv a) : AInv (idleStart a) ∧ AExt a (idleStart a) := by
  unfold idleStart AInv AExt
  split
  · exact ⟨Inv_register _ _ _ _ _ _ h, Ext_register _ _ _ _ _ _⟩
  · exact ⟨h, Ext.refl _⟩

theorem post_ok (a : Actor) (h : AInv a) : AInv (post a) ∧ AExt a (post a) := ⟨h, Ext.refl _⟩

theorem terminate_ok (a : Actor) (h : AInv a) : AInv (terminate a) ∧ AExt a (terminate a) := by
  unfold terminate
  split
  · have h1 : AInv { a with sched := (Scheduler.close a.sched).1, live := false } := Inv_close _ h
    have e1 : AExt a { a with sched := (Scheduler.close a.sched).1, live := false } := Ext_close _
    have := idleStart_ok _ h1
    exact ⟨this.1, Ext.trans e1 this.2⟩
  · exact ⟨h, Ext.refl _⟩

theorem restart_ok (a : Actor) (h : AInv a) : AInv (restart a) ∧ AExt a (restart a) := by
  unfold restart
  simp only
  have hc : Inv (clear a.sched) := Inv_clear _ h
  have ec : Ext a.sched (clear a.sched) := Ext_clear _
  have key : ∀ b : Actor, AInv b → AExt a b → AInv (idleStart (idleStop b)) ∧ AExt a (idleStart (idleStop b)) := by
    intro b hb eb
    have s1 := idleStop_ok b hb
    have s2 := idleStart_ok _ s1.1
    exact ⟨s2.1, Ext.trans eb (Ext.trans s1.2 s2.2)⟩
  split
  · exact key _ (Inv_register _ _ _ _ _ _ hc) (Ext.trans ec (Ext_register _ _ _ _ _ _))
  · exact key _ hc ec

theorem turnCb_ok (a : Actor) (f : Firing) (h : AInv a) : AInv (turnCb a f) ∧ AExt a (turnCb a f) := by
  unfold turnCb
  simp only
  have s1 := idleStop_ok a h
  have hmid : ∀ b : Actor, b.sched = (idleStop a).sched → AInv (idleStart b) ∧ AExt a (idleStart b) := by
    intro b hb
    have hb' : AInv b := by unfold AInv; rw [hb]; exact s1.1
    have s2 := idleStart_ok b hb'
    refine ⟨s2.1, Ext.trans ?_ s2.2⟩
    show Ext a.sched b.sched
    rw [hb]; exact s1.2
  have key : AInv (idleStart
      (if (!a.live) = true ∨ (a.sched.objs f.id).name = idleName ∨ (a.sched.objs f.id).name = expireName then idleStop a
       else { idleStop a with turns := { id := f.id, time := a.sched.now, inc := a.inc, live := a.live } :: (idleStop a).turns })) ∧
      AExt a (idleStart
      (if (!a.live) = true ∨ (a.sched.objs f.id).name = idleName ∨ (a.sched.objs f.id).name = expireName then idleStop a
       else { idleStop a with turns := { id := f.id, time := a.sched.now, inc := a.inc, live := a.live } :: (idleStop a).turns })) := by
    split
    · exact hmid _ rfl
    · exact hmid _ rfl
  split
  · exact key
  · exact key

theorem graceful_ok (a : Actor) (h : AInv a) : AInv (graceful a) ∧ AExt a (graceful a) := by
  unfold graceful
  split
  · simp only
    split
    · have h1 : AInv { a with gterm := false } := h
      have t1 := idleStop_ok _ h1
      have t2 := idleStart_ok _ t1.1
      have t3 := idleStop_ok _ t2.1
      have t4 := terminate_ok _ t3.1
      exact ⟨t4.1, Ext.trans t1.2 (Ext.trans t2.2 (Ext.trans t3.2 t4.2))⟩
    · exact ⟨h, Ext.refl _⟩
  · exact ⟨h, Ext.refl _⟩

theorem drain_ok (a : Actor) (n : Nat) (h : AInv a) : AInv (drain a n) ∧ AExt a (drain a n) := by
  induction n generalizing a with
  | zero => exact ⟨h, Ext.refl _⟩
  | succ n ih =>
    unfold drain
    split
    · exact ⟨h, Ext.refl _⟩
    · rename_i f rest _
      have c := turnCb_ok { a with mbox := rest } f h
      have := ih _ c.1
      exact ⟨this.1, Ext.trans c.2 this.2⟩

theorem settle_ok (a : Actor) (h : AInv a) : AInv (settle a) ∧ AExt a (settle a) := by
  unfold settle
  simp only
  have d := drain_ok (post a) (post a).mbox.length h
  have g := graceful_ok _ d.1
  exact ⟨g.1, Ext.trans d.2 g.2⟩

theorem msIdle_ok (a : Actor) (h : AInv a) : AInv (msIdle a) ∧ AExt a (msIdle a) := by
  unfold msIdle
  have h1 : AInv { a with sched := msStep a.sched } := Inv_msStep _ h
  have e1 : AExt a { a with sched := msStep a.sched } := Ext_msStep _
  have := settle_ok _ h1
  exact ⟨this.1, Ext.trans e1 this.2⟩

theorem wait_ok (a : Actor) (d : Nat) (h : AInv a) : AInv (wait a d) ∧ AExt a (wait a d) := by
  induction d generalizing a with
  | zero => exact ⟨h, Ext.refl _⟩
  | succ d ih =>
    have c := msIdle_ok a h
    have := ih _ c.1
    exact ⟨this.1, Ext.trans c.2 this.2⟩

theorem inHandler_ok (a : Actor) (d : Nat) (h : AInv a) : AInv (inHandler a d) ∧ AExt a (inHandler a d) := by
  induction d generalizing a with
  | zero => exact ⟨h, Ext.refl _⟩
  | succ d ih =>
    unfold inHandler
    have h1 : AInv (post { a with sched := msStep a.sched }) := Inv_msStep _ h
    have e1 : AExt a (post { a with sched := msStep a.sched }) := Ext_msStep _
    have := ih _ h1
    exact ⟨this.1, Ext.trans e1 this.2⟩

theorem astep_ok (a : Actor) (op : AOp) (h : AInv a) : AInv (astep a op) ∧ AExt a (astep a op) := by
  have chain2 : ∀ {x y : Actor}, (AInv x ∧ AExt a x) → (AInv x → AInv y ∧ AExt x y) → AInv y ∧ AExt a y :=
    fun hx f => ⟨(f hx.1).1, Ext.trans hx.2 (f hx.1).2⟩
  have h0 : AInv a ∧ AExt a a := ⟨h, Ext.refl _⟩
  cases op with
  | wait d => exact wait_ok a d h
  | term d =>
    simp only [astep, term]
    split
    · exact h0
    · exact chain2 (chain2 (chain2 (chain2 (chain2 h0 (settle_ok _)) (idleStop_ok _)) (inHandler_ok _ d)) (terminate_ok _)) (settle_ok _)
  | busy d =>
    simp only [astep, busy]
    split
    · exact h0
    · exact chain2 (chain2 (chain2 (chain2 h0 (idleStop_ok _)) (inHandler_ok _ d)) (idleStart_ok _)) (settle_ok _)
  | crash d =>
    simp only [astep, crash]
    split
    · exact h0
    · exact chain2 (chain2 (chain2 (chain2 (chain2 (chain2 (chain2 h0 (idleStop_ok _)) (idleStart_ok _)) (settle_ok _))
        (idleStop_ok _)) (inHandler_ok _ d)) (restart_ok _)) (settle_ok _)
  | tell act =>
    simp only [astep, tell]
    split
    · exact h0
    · have s1 := idleStop_ok a h
      have mid : ∀ b : Actor, AInv b → AExt a b → AInv (settle (idleStart b)) ∧ AExt a (settle (idleStart b)) := by
        intro b hb eb
        exact chain2 (chain2 ⟨hb, eb⟩ (idleStart_ok _)) (settle_ok _)
      cases act with
      | after n x =>
        exact mid _ (Inv_register _ _ _ _ _ _ s1.1) (Ext.trans s1.2 (Ext_register _ _ _ _ _ _))
      | repeated n x iv k =>
        exact mid _ (Inv_register _ _ _ _ _ _ s1.1) (Ext.trans s1.2 (Ext_register _ _ _ _ _ _))
      | stop n =>
        exact mid _ (Inv_unregister _ _ s1.1) (Ext.trans s1.2 (Ext_unregister _ _))
      | ping => exact mid _ s1.1 s1.2

theorem arun_ok (a : Actor) (ops : List AOp) (h : AInv a) : AInv (arun a ops) ∧ AExt a (arun a ops) := by
  induction ops generalizing a with
  | nil => exact ⟨h, Ext.refl _⟩
  | cons op ops ih =>
    have c := astep_ok a op h
    have := ih _ c.1
    exact ⟨this.1, Ext.trans c.2 this.2⟩

theorem AInv_init (tick idle expire : Nat) (ht : 0 < tick) : AInv (init tick idle expire) := by
  unfold init
  simp only
  apply (idleStart_ok _ _).1
  unfold AInv; simp only
  split
  · exact Inv_register _ _ _ _ _ _ (Inv_init tick ht)
  · exact Inv_init tick ht

/-- `tryRestarted`: every task object that existed is cancelled by `Clear()` -/
theorem restart_kills (a : Actor) (h : AInv a) (i : Nat) (hi : i < a.sched.nobjs) :
    ((restart a).sched.objs i).kill = true := by
  have hk : ((clear a.sched).objs i).kill = true := clear_all_killed a.sched h i hi
  have hc : Inv (clear a.sched) := Inv_clear _ h
  unfold restart
  simp only
  have key : ∀ b : Actor, AInv b → Ext (clear a.sched) b.sched → ((idleStart (idleStop b)).sched.objs i).kill = true := by
    intro b hb eb
    have s1 := idleStop_ok b hb
    have s2 := idleStart_ok _ s1.1
    exact (Ext.trans eb (Ext.trans s1.2 s2.2)).kill i hi hk
  split
  · exact key _ (Inv_register _ _ _ _ _ _ hc) (Ext_register _ _ _ _ _ _)
  · exact key _ hc (Ext.refl _)

theorem terminate_stops (a : Actor) (hl : a.live = true) : (terminate a).sched.stopped = true := by
  unfold terminate
  simp only [hl, if_true]
  have hs : (Scheduler.close a.sched).1.stopped = true := by
    unfold Scheduler.close; simp only
    cases h : a.sched.stopped
    · simp
    · simp only [if_true]; exact (Ext_clear a.sched).stopped h
  unfold idleStart
  split
  · exact (Ext_register _ _ _ _ _ _).stopped hs
  · exact hs


/-- `s'` is reached from `s` by scheduler events -/
def StepsTo (s s' : Sched) : Prop := ∃ evs, s' = runEvents s evs

theorem StepsTo.refl (s : Sched) : StepsTo s s := ⟨[], rfl⟩
theorem StepsTo.trans {a b c : Sched} (h1 : StepsTo a b) (h2 : StepsTo b c) : StepsTo a c := by
  obtain ⟨e1, rfl⟩ := h1
  obtain ⟨e2, rfl⟩ := h2
  exact ⟨e1 ++ e2, (runEvents_append _ _ _).symm⟩
theorem StepsTo.step (s : Sched) (ev : Ev) : StepsTo s (step s ev).1 := ⟨[ev], rfl⟩

theorem StepsTo_fireIfDue (s : Sched) (k : Nat) : StepsTo s (fireIfDue s k) := by
  rcases fireIfDue_steps s k with e | e <;> rw [e]
  · exact StepsTo.refl s
  · exact (StepsTo.step _ _).trans (StepsTo.step _ _)

theorem StepsTo_msStep (s : Sched) : StepsTo s (msStep s) := by
  unfold msStep
  simp only
  have h1 : StepsTo s (step s (.advance 1)).1 := StepsTo.step s _
  generalize (step s (.advance 1)).1 = s1 at h1
  generalize s1.nobjs = n
  induction n with
  | zero => exact h1
  | succ n ih => exact ih.trans (StepsTo_fireIfDue _ _)

/-- the actor's scheduler moves by scheduler events only -/
def ASteps (a b : Actor) : Prop := StepsTo a.sched b.sched

theorem idleStop_steps (a : Actor) : ASteps a (idleStop a) := by
  unfold idleStop ASteps
  split
  · exact StepsTo.step a.sched (.unreg idleName)
  · exact StepsTo.refl _

theorem idleStart_steps (a : Actor) : ASteps a (idleStart a) := by
  unfold idleStart ASteps
  split
  · exact StepsTo.step a.sched (.reg idleName a.idle a.sched.tick 1)
  · exact StepsTo.refl _

theorem terminate_steps (a : Actor) : ASteps a (terminate a) := by
  unfold terminate
  split
  · have e1 : ASteps a { a with sched := (Scheduler.close a.sched).1, live := false } := StepsTo.step a.sched .close
    exact StepsTo.trans e1 (idleStart_steps _)
  · exact StepsTo.refl _

theorem restart_steps (a : Actor) : ASteps a (restart a) := by
  unfold restart
  simp only
  have ec : StepsTo a.sched (clear a.sched) := StepsTo.step a.sched .clear
  have key : ∀ b : Actor, StepsTo a.sched b.sched → ASteps a (idleStart (idleStop b)) := by
    intro b eb
    exact StepsTo.trans eb (StepsTo.trans (idleStop_steps b) (idleStart_steps _))
  split
  · rename_i t _
    exact key _ (ec.trans (StepsTo.step (clear a.sched) (.reg expireName ((t : Int) - ((clear a.sched).now : Int)) (clear a.sched).tick 1)))
  · exact key _ ec

theorem turnCb_steps (a : Actor) (f : Firing) : ASteps a (turnCb a f) := by
  unfold turnCb
  simp only
  have hmid : ∀ b : Actor, b.sched = (idleStop a).sched → ASteps a (idleStart b) := by
    intro b hb
    refine StepsTo.trans ?_ (idleStart_steps b)
    show StepsTo a.sched b.sched
    rw [hb]; exact idleStop_steps a
  have key : ASteps a (idleStart
      (if (!a.live) = true ∨ (a.sched.objs f.id).name = idleName ∨ (a.sched.objs f.id).name = expireName then idleStop a
       else { idleStop a with turns := { id := f.id, time := a.sched.now, inc := a.inc, live := a.live } :: (idleStop a).turns })) := by
    split
    · exact hmid _ rfl
    · exact hmid _ rfl
  split
  · exact key
  · exact key

theorem graceful_steps (a : Actor) : ASteps a (graceful a) := by
  unfold graceful
  split
  · simp only
    split
    · have e0 : ASteps a { a with gterm := false } := StepsTo.refl _
      exact StepsTo.trans e0 (StepsTo.trans (idleStop_steps _) (StepsTo.trans (idleStart_steps _)
        (StepsTo.trans (idleStop_steps _) (terminate_steps _))))
    · exact StepsTo.refl _
  · exact StepsTo.refl _

theorem drain_steps (a : Actor) (n : Nat) : ASteps a (drain a n) := by
  induction n generalizing a with
  | zero => exact StepsTo.refl _
  | succ n ih =>
    unfold drain
    split
    · exact StepsTo.refl _
    · rename_i f rest _
      exact StepsTo.trans (turnCb_steps { a with mbox := rest } f) (ih _)

theorem settle_steps (a : Actor) : ASteps a (settle a) := by
  unfold settle; exact StepsTo.trans (drain_steps (post a) _) (graceful_steps _)

theorem msIdle_steps (a : Actor) : ASteps a (msIdle a) := by
  unfold msIdle
  have e1 : ASteps a { a with sched := msStep a.sched } := StepsTo_msStep _
  exact StepsTo.trans e1 (settle_steps _)

theorem wait_steps (a : Actor) (d : Nat) : ASteps a (wait a d) := by
  induction d generalizing a with
  | zero => exact StepsTo.refl _
  | succ d ih => exact StepsTo.trans (msIdle_steps a) (ih _)

theorem inHandler_steps (a : Actor) (d : Nat) : ASteps a (inHandler a d) := by
  induction d generalizing a with
  | zero => exact StepsTo.refl _
  | succ d ih =>
    unfold inHandler
    have e1 : ASteps a (post { a with sched := msStep a.sched }) := StepsTo_msStep _
    exact StepsTo.trans e1 (ih _)

theorem astep_steps (a : Actor) (op : AOp) : ASteps a (astep a op) := by
  have tr : ∀ {x y : Actor}, ASteps a x → ASteps x y → ASteps a y := fun h1 h2 => StepsTo.trans h1 h2
  have h0 : ASteps a a := StepsTo.refl _
  cases op with
  | wait d => exact wait_steps a d
  | term d =>
    simp only [astep, term]
    split
    · exact h0
    · exact tr (tr (tr (tr (settle_steps a) (idleStop_steps _)) (inHandler_steps _ d)) (terminate_steps _)) (settle_steps _)
  | busy d =>
    simp only [astep, busy]
    split
    · exact h0
    · exact tr (tr (tr (idleStop_steps a) (inHandler_steps _ d)) (idleStart_steps _)) (settle_steps _)
  | crash d =>
    simp only [astep, crash]
    split
    · exact h0
    · exact tr (tr (tr (tr (tr (tr (idleStop_steps a) (idleStart_steps _)) (settle_steps _))
        (idleStop_steps _)) (inHandler_steps _ d)) (restart_steps _)) (settle_steps _)
  | tell act =>
    simp only [astep, tell]
    split
    · exact h0
    · have s1 := idleStop_steps a
      have mid : ∀ b : Actor, ASteps a b → ASteps a (settle (idleStart b)) :=
        fun b eb => tr (tr eb (idleStart_steps _)) (settle_steps _)
      cases act with
      | after n x => exact mid _ (StepsTo.trans s1 (StepsTo.step _ (.reg n x (idleStop a).sched.tick 1)))
      | repeated n x iv k => exact mid _ (StepsTo.trans s1 (StepsTo.step _ (.reg n x iv k)))
      | stop n => exact mid _ (StepsTo.trans s1 (StepsTo.step _ (.unreg n)))
      | ping => exact mid _ s1

theorem arun_steps (a : Actor) (ops : List AOp) : ASteps a (arun a ops) := by
  induction ops generalizing a with
  | nil => exact StepsTo.refl _
  | cons op ops ih => exact StepsTo.trans (astep_steps a op) (ih _)

theorem init_steps (tick idle expire : Nat) : StepsTo (Scheduler.init tick) (init tick idle expire).sched := by
  unfold init
  simp only
  refine StepsTo.trans ?_ (idleStart_steps _)
  simp only
  split
  · exact StepsTo.step (Scheduler.init tick) (.reg expireName expire tick 1)
  · exact StepsTo.refl _

/-- the scheduler of every actor state is a reachable scheduler state -/
theorem actor_sched_reach (tick idle expire : Nat) (ht : 0 < tick) (ops : List AOp) :
    Reach (arun (init tick idle expire) ops).sched := by
  obtain ⟨evs, h⟩ := StepsTo.trans (init_steps tick idle expire) (arun_steps _ ops)
  exact ⟨tick, evs, ht, h⟩


theorem StepsTo.ext {s s' : Sched} (h : StepsTo s s') : Ext s s' := by
  obtain ⟨evs, rfl⟩ := h; exact Ext_runEvents s evs

theorem StepsTo.reach {s s' : Sched} (hr : Reach s) (h : StepsTo s s') : Reach s' := by
  obtain ⟨evs, rfl⟩ := h; exact hr.runEvents evs

/-! ## a dead actor has a stopped scheduler -/

/-- `b` is as live as `a`, or it has terminated and its scheduler is stopped -/
def LiveStep (a b : Actor) : Prop := b.live = a.live ∨ (b.live = false ∧ b.sched.stopped = true)

theorem LiveStep.refl (a : Actor) : LiveStep a a := Or.inl rfl

theorem LiveStep.trans {a b c : Actor} (h1 : LiveStep a b) (h2 : LiveStep b c) (e : ASteps b c) : LiveStep a c := by
  rcases h2 with h2 | h2
  · rcases h1 with h1 | h1
    · exact Or.inl (h2.trans h1)
    · exact Or.inr ⟨h2.trans h1.1, (StepsTo.ext e).stopped h1.2⟩
  · exact Or.inr h2

theorem idleStop_live (a : Actor) : LiveStep a (idleStop a) := Or.inl (idleStop_turns a).2
theorem idleStart_live (a : Actor) : LiveStep a (idleStart a) := Or.inl (idleStart_turns a).2

theorem terminate_live (a : Actor) : LiveStep a (terminate a) := by
  cases hl : a.live
  · left; unfold terminate; simp [hl]
  · right
    refine ⟨?_, terminate_stops a hl⟩
    unfold terminate; simp only [hl, if_true]; rw [(idleStart_turns _).2]

theorem restart_live (a : Actor) : LiveStep a (restart a) := by
  left
  unfold restart
  simp only
  rw [(idleStart_turns _).2, (idleStop_turns _).2]
  split <;> rfl

theorem turnCb_live (a : Actor) (f : Firing) : LiveStep a (turnCb a f) := by
  unfold turnCb
  simp only
  have key : (idleStart
      (if (!a.live) = true ∨ (a.sched.objs f.id).name = idleName ∨ (a.sched.objs f.id).name = expireName then idleStop a
       else { idleStop a with turns := { id := f.id, time := a.sched.now, inc := a.inc, live := a.live } :: (idleStop a).turns })).live = a.live := by
    rw [(idleStart_turns _).2]
    split
    · exact (idleStop_turns a).2
    · exact (idleStop_turns a).2
  split
  · exact Or.inl key
  · exact Or.inl key

theorem graceful_live (a : Actor) : LiveStep a (graceful a) := by
  unfold graceful
  split
  · simp only
    split
    · have l0 : LiveStep a { a with gterm := false } := Or.inl rfl
      have e0 : ASteps a { a with gterm := false } := StepsTo.refl _
      have l2 := LiveStep.trans l0 (idleStop_live _) (idleStop_steps _)
      have l3 := LiveStep.trans l2 (idleStart_live _) (idleStart_steps _)
      have l4 := LiveStep.trans l3 (idleStop_live _) (idleStop_steps _)
      exact LiveStep.trans l4 (terminate_live _) (terminate_steps _)
    · exact Or.inl rfl
  · exact LiveStep.refl a

theorem drain_live (a : Actor) (n : Nat) : LiveStep a (drain a n) := by
  induction n generalizing a with
  | zero => exact LiveStep.refl a
  | succ n ih =>
    unfold drain
    split
    · exact LiveStep.refl a
    · rename_i f rest _
      have c : LiveStep a (turnCb { a with mbox := rest } f) := turnCb_live { a with mbox := rest } f
      exact LiveStep.trans c (ih _) (drain_steps _ n)

theorem settle_live (a : Actor) : LiveStep a (settle a) := by
  unfold settle
  exact LiveStep.trans (drain_live (post a) _) (graceful_live _) (graceful_steps _)

theorem msIdle_live (a : Actor) : LiveStep a (msIdle a) := by
  unfold msIdle
  exact settle_live { a with sched := msStep a.sched }

theorem wait_live (a : Actor) (d : Nat) : LiveStep a (wait a d) := by
  induction d generalizing a with
  | zero => exact LiveStep.refl a
  | succ d ih => exact LiveStep.trans (msIdle_live a) (ih _) (wait_steps _ d)

theorem inHandler_live (a : Actor) (d : Nat) : (inHandler a d).live = a.live := by
  induction d generalizing a with
  | zero => rfl
  | succ d ih => unfold inHandler; rw [ih]; rfl

theorem astep_live (a : Actor) (op : AOp) : LiveStep a (astep a op) := by
  cases op with
  | wait d => exact wait_live a d
  | term d =>
    simp only [astep, term]
    split
    · exact LiveStep.refl a
    · have l1 := settle_live a
      have l2 := LiveStep.trans l1 (idleStop_live _) (idleStop_steps _)
      have l3 : LiveStep a (inHandler (idleStop (settle a)) d) :=
        LiveStep.trans l2 (Or.inl (inHandler_live _ d)) (inHandler_steps _ d)
      have l4 := LiveStep.trans l3 (terminate_live _) (terminate_steps _)
      exact LiveStep.trans l4 (settle_live _) (settle_steps _)
  | busy d =>
    simp only [astep, busy]
    split
    · exact LiveStep.refl a
    · have l1 := idleStop_live a
      have l2 : LiveStep a (inHandler (idleStop a) d) :=
        LiveStep.trans l1 (Or.inl (inHandler_live _ d)) (inHandler_steps _ d)
      have l3 := LiveStep.trans l2 (idleStart_live _) (idleStart_steps _)
      exact LiveStep.trans l3 (settle_live _) (settle_steps _)
  | crash d =>
    simp only [astep, crash]
    split
    · exact LiveStep.refl a
    · have l1 := idleStop_live a
      have l2 := LiveStep.trans l1 (idleStart_live _) (idleStart_steps _)
      have l3 := LiveStep.trans l2 (settle_live _) (settle_steps _)
      have l4 := LiveStep.trans l3 (idleStop_live _) (idleStop_steps _)
      have l5 : LiveStep a (inHandler (idleStop (settle (idleStart (idleStop a)))) d) :=
        LiveStep.trans l4 (Or.inl (inHandler_live _ d)) (inHandler_steps _ d)
      have l6 := LiveStep.trans l5 (restart_live _) (restart_steps _)
      exact LiveStep.trans l6 (settle_live _) (settle_steps _)
  | tell act =>
    simp only [astep, tell]
    split
    · exact LiveStep.refl a
    · have mid : ∀ b : Actor, b.live = a.live → ASteps a b → LiveStep a (settle (idleStart b)) := by
        intro b hb _
        have l1 : LiveStep a b := Or.inl hb
        have l2 := LiveStep.trans l1 (idleStart_live b) (idleStart_steps b)
        exact LiveStep.trans l2 (settle_live _) (settle_steps _)
      have hl := (idleStop_turns a).2
      cases act with
      | after n x => exact mid _ hl (StepsTo.trans (idleStop_steps a) (StepsTo.step _ (.reg n x (idleStop a).sched.tick 1)))
      | repeated n x iv k => exact mid _ hl (StepsTo.trans (idleStop_steps a) (StepsTo.step _ (.reg n x iv k)))
      | stop n => exact mid _ hl (StepsTo.trans (idleStop_steps a) (StepsTo.step _ (.unreg n)))
      | ping => exact mid _ hl (idleStop_steps a)

/-- invariant: a terminated actor's scheduler has been closed -/
def DeadStopped (a : Actor) : Prop := a.live = false → a.sched.stopped = true

theorem DeadStopped_step (a b : Actor) (h : DeadStopped a) (l : LiveStep a b) (e : ASteps a b) : DeadStopped b := by
  intro hb
  rcases l with l | l
  · exact (StepsTo.ext e).stopped (h (l.symm.trans hb))
  · exact l.2

theorem DeadStopped_arun (a : Actor) (ops : List AOp) (h : DeadStopped a) : DeadStopped (arun a ops) := by
  induction ops generalizing a with
  | nil => exact h
  | cons op ops ih => exact ih _ (DeadStopped_step a _ h (astep_live a op) (astep_steps a op))

theorem DeadStopped_init (tick idle expire : Nat) : DeadStopped (init tick idle expire) := by
  intro h
  have : (init tick idle expire).live = true := by
    unfold init; simp only; rw [(idleStart_turns _).2]
  rw [this] at h; cases h

end MV.Model.ActorTimers
