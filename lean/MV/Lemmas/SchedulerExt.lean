import MV.Lemmas.Scheduler
/-!
# How one step extends a state: static fields, monotone `kill`, frozen counts of killed tasks
-/
namespace MV.Model.Scheduler

/-- `s'` is a later state of `s` as far as the task objects of `s` are concerned -/
structure Ext (s s' : Sched) : Prop where
  tick : s'.tick = s.tick
  now : s.now ≤ s'.now
  nobjs : s.nobjs ≤ s'.nobjs
  stopped : s.stopped = true → s'.stopped = true
  fields : ∀ i, i < s.nobjs →
    (s'.objs i).name = (s.objs i).name ∧ (s'.objs i).after = (s.objs i).after ∧
    (s'.objs i).interval = (s.objs i).interval ∧ (s'.objs i).total = (s.objs i).total ∧
    (s'.objs i).cron = (s.objs i).cron ∧ (s'.objs i).base = (s.objs i).base
  kill : ∀ i, i < s.nobjs → (s.objs i).kill = true → (s'.objs i).kill = true
  frozen : ∀ i, i < s.nobjs → (s.objs i).kill = true → fired s' i = fired s i
  mono : ∀ i, fired s i ≤ fired s' i

theorem Ext.refl (s : Sched) : Ext s s :=
  ⟨rfl, Nat.le_refl _, Nat.le_refl _, id, fun _ _ => ⟨rfl, rfl, rfl, rfl, rfl, rfl⟩, fun _ _ h => h,
   fun _ _ _ => rfl, fun _ => Nat.le_refl _⟩

theorem Ext.trans {a b c : Sched} (h1 : Ext a b) (h2 : Ext b c) : Ext a c := by
  refine ⟨h2.tick.trans h1.tick, Nat.le_trans h1.now h2.now, Nat.le_trans h1.nobjs h2.nobjs,
    fun h => h2.stopped (h1.stopped h), ?_, ?_, ?_, fun i => Nat.le_trans (h1.mono i) (h2.mono i)⟩
  · intro i hi
    have x := h1.fields i hi
    have y := h2.fields i (Nat.lt_of_lt_of_le hi h1.nobjs)
    exact ⟨y.1.trans x.1, y.2.1.trans x.2.1, y.2.2.1.trans x.2.2.1, y.2.2.2.1.trans x.2.2.2.1,
      y.2.2.2.2.1.trans x.2.2.2.2.1, y.2.2.2.2.2.trans x.2.2.2.2.2⟩
  · intro i hi hk
    exact h2.kill i (Nat.lt_of_lt_of_le hi h1.nobjs) (h1.kill i hi hk)
  · intro i hi hk
    rw [h2.frozen i (Nat.lt_of_lt_of_le hi h1.nobjs) (h1.kill i hi hk), h1.frozen i hi hk]

/-- a step that changes only task objects, each one by something that keeps the static fields and
    never clears `kill`, and leaves the log alone -/
theorem Ext_of_objs (s s' : Sched) (htick : s'.tick = s.tick) (hnow : s.now ≤ s'.now)
    (hn : s'.nobjs = s.nobjs) (hst : s.stopped = true → s'.stopped = true) (hlog : s'.log = s.log)
    (hobj : ∀ i, i < s.nobjs →
      (s'.objs i).name = (s.objs i).name ∧ (s'.objs i).after = (s.objs i).after ∧
      (s'.objs i).interval = (s.objs i).interval ∧ (s'.objs i).total = (s.objs i).total ∧
      (s'.objs i).cron = (s.objs i).cron ∧ (s'.objs i).base = (s.objs i).base ∧
      ((s.objs i).kill = true → (s'.objs i).kill = true)) : Ext s s' := by
  have hf : ∀ i, fired s' i = fired s i := fun i => by simp [fired, hlog]
  refine ⟨htick, hnow, by omega, hst, ?_, ?_, fun i _ _ => hf i, fun i => by rw [hf i]; exact Nat.le_refl _⟩
  · intro i hi; obtain ⟨a, b, c, d, e, f, _⟩ := hobj i hi; exact ⟨a, b, c, d, e, f⟩
  · intro i hi hk; exact (hobj i hi).2.2.2.2.2.2 hk

theorem Ext_unregister (s : Sched) (n : Nat) : Ext s (unregister s n) := by
  unfold unregister
  split
  · rename_i i _
    apply Ext_of_objs <;> try rfl
    · exact Nat.le_refl _
    · exact id
    · intro j _
      simp only
      by_cases hji : j = i
      · subst hji; rw [upd_same]
        obtain ⟨a, b, c, d, e, f, _⟩ := Task.close_fields (s.objs j)
        exact ⟨a, b, c, d, e, f, fun _ => Task.close_kill _⟩
      · rw [upd_other _ _ _ _ hji]; exact ⟨rfl, rfl, rfl, rfl, rfl, rfl, id⟩
  · exact Ext.refl s

theorem Ext_insert (s : Sched) (n : Nat) (t : Task) : Ext s (addTask s n t) := by
  have hf : ∀ i, fired (addTask s n t) i = fired s i := fun i => rfl
  unfold addTask
  refine ⟨rfl, Nat.le_refl _, Nat.le_succ _, id, ?_, ?_, fun i _ _ => hf i, fun i => Nat.le_of_eq (hf i).symm⟩
  · intro i hi; simp only; rw [upd_other _ _ _ _ (Nat.ne_of_lt hi)]; exact ⟨rfl, rfl, rfl, rfl, rfl, rfl⟩
  · intro i hi hk; simp only; rw [upd_other _ _ _ _ (Nat.ne_of_lt hi)]; exact hk

theorem Ext_register (s : Sched) (n : Nat) (a iv : Int) (cron : Option Nat) (times : Int) :
    Ext s (register s n a iv cron times) := by
  unfold register
  split
  · exact Ext.refl s
  · unfold registerLive
    exact (Ext_unregister s n).trans (Ext_insert _ _ _)

theorem Ext_clear (s : Sched) : Ext s (clear s) := by
  apply Ext_of_objs <;> try rfl
  · exact Nat.le_refl _
  · exact id
  · intro j _
    unfold clear; simp only
    split
    · obtain ⟨a, b, c, d, e, f, _⟩ := Task.close_fields (s.objs j)
      exact ⟨a, b, c, d, e, f, fun _ => Task.close_kill _⟩
    · exact ⟨rfl, rfl, rfl, rfl, rfl, rfl, id⟩

theorem Ext_close (s : Sched) : Ext s (close s).1 := by
  have h := Ext_clear s
  unfold close; simp only
  split
  · exact h
  · exact ⟨h.tick, h.now, h.nobjs, fun _ => rfl, h.fields, h.kill, h.frozen, h.mono⟩

theorem Ext_advance (s : Sched) (dt : Nat) : Ext s (advance s dt) := by
  apply Ext_of_objs <;> try rfl
  · simp [advance]
  · exact id
  · intro j _; exact ⟨rfl, rfl, rfl, rfl, rfl, rfl, id⟩

theorem Ext_expire (s : Sched) (i : Nat) : Ext s (expire s i) := by
  unfold expire
  split
  · exact Ext.refl s
  · split
    · split
      · apply Ext_of_objs <;> try rfl
        · exact Nat.le_refl _
        · exact id
        · intro j _
          simp only
          by_cases hji : j = i
          · subst hji; rw [upd_same]; exact ⟨rfl, rfl, rfl, rfl, rfl, rfl, id⟩
          · rw [upd_other _ _ _ _ hji]; exact ⟨rfl, rfl, rfl, rfl, rfl, rfl, id⟩
      · exact Ext.refl s
    · exact Ext.refl s

theorem Ext_fireAt (s : Sched) (i e : Nat) : Ext s (fireAt s i e) := by
  apply Ext_of_objs <;> try rfl
  · exact Nat.le_refl _
  · exact id
  · intro j _
    unfold fireAt; simp only
    by_cases hji : j = i
    · subst hji; rw [upd_same]
      obtain ⟨a, b, c, d, e', f, g⟩ := Task.fire_fields (s.objs j) e
      exact ⟨a, b, c, d, e', f, fun h => by rw [g]; exact h⟩
    · rw [upd_other _ _ _ _ hji]; exact ⟨rfl, rfl, rfl, rfl, rfl, rfl, id⟩

/-- logging a callback of a task that is not killed -/
theorem Ext_logged (s : Sched) (i e : Nat) (hk : (s.objs i).kill = false) : Ext s (logged s i e) := by
  refine ⟨rfl, Nat.le_refl _, Nat.le_refl _, id, fun _ _ => ⟨rfl, rfl, rfl, rfl, rfl, rfl⟩, fun _ _ h => h, ?_, ?_⟩
  · intro j _ hkj
    rw [fired_logged]
    have : j ≠ i := by intro h; subst h; rw [hk] at hkj; cases hkj
    simp [this]
  · intro j; rw [fired_logged]; omega

theorem Ext_runTimer (s : Sched) (i : Nat) : Ext s (runTimer s i) := by
  unfold runTimer
  split
  · rename_i e _
    split
    · rw [timerTask_eq]
      have h1 := Ext_fireAt s i e
      have hk' : ((fireAt s i e).objs i).kill = (s.objs i).kill := by
        simp only [fireAt, upd_same]; exact (Task.fire_fields _ _).2.2.2.2.2.2
      cases hk : (s.objs i).kill
      · rw [hk] at hk'
        have h2 := Ext_logged (fireAt s i e) i e hk'
        simp only [Bool.false_eq_true, if_false]
        split
        · exact (h1.trans h2).trans (Ext_unregister _ _)
        · exact h1.trans h2
      · simpa using h1
    · exact Ext.refl s
  · exact Ext.refl s

theorem Ext_step (s : Sched) (ev : Ev) : Ext s (step s ev).1 := by
  cases ev with
  | reg n a iv times => exact Ext_register s n a iv none times
  | regCron n p => exact Ext_register s n 0 0 (some p) 0
  | unreg n => exact Ext_unregister s n
  | clear => exact Ext_clear s
  | close => exact Ext_close s
  | advance dt => exact Ext_advance s dt
  | expire i => exact Ext_expire s i
  | run i => exact Ext_runTimer s i

theorem Ext_runEvents (s : Sched) (evs : List Ev) : Ext s (runEvents s evs) := by
  induction evs generalizing s with
  | nil => exact Ext.refl s
  | cons ev evs ih => exact (Ext_step s ev).trans (ih _)

/-! ## reachability, cancellation, the stopped wheel -/

theorem runEvents_append (s : Sched) (a b : List Ev) : runEvents s (a ++ b) = runEvents (runEvents s a) b := by
  induction a generalizing s with
  | nil => rfl
  | cons ev a ih => exact ih _

/-- states reachable from a fresh scheduler by any sequence of API calls, clock advances and wheel events -/
def Reach (s : Sched) : Prop := ∃ tick evs, 0 < tick ∧ s = runEvents (init tick) evs

theorem Reach.inv {s : Sched} (h : Reach s) : Inv s := by
  obtain ⟨tick, evs, ht, rfl⟩ := h
  exact Inv_runEvents _ _ (Inv_init tick ht)

theorem Reach.runEvents {s : Sched} (h : Reach s) (evs : List Ev) : Reach (runEvents s evs) := by
  obtain ⟨tick, evs0, ht, rfl⟩ := h
  exact ⟨tick, evs0 ++ evs, ht, (runEvents_append _ _ _).symm⟩

theorem Reach.step {s : Sched} (h : Reach s) (ev : Ev) : Reach (step s ev).1 := h.runEvents [ev]

theorem unregister_kills (s : Sched) (n i : Nat) (h : s.table n = some i) :
    ((unregister s n).objs i).kill = true := by
  unfold unregister; simp only [h, upd_same]; exact Task.close_kill _

theorem register_kills (s : Sched) (n i : Nat) (a iv : Int) (cron : Option Nat) (times : Int)
    (hinv : Inv s) (h : s.table n = some i) :
    ((register s n a iv cron times).objs i).kill = true ∧ (register s n a iv cron times).table n = some s.nobjs := by
  have hi := (hinv.tbl n i h).1
  have hn := (unregister_frame s n).2.2.1
  have hlive : s.stopped = false := by
    cases hs : s.stopped
    · rfl
    · rw [hinv.closed_empty hs n] at h; cases h
  unfold register
  simp only [hlive, Bool.false_eq_true, if_false]
  unfold registerLive addTask; simp only
  rw [hn, upd_other _ _ _ _ (Nat.ne_of_lt hi)]
  exact ⟨unregister_kills s n i h, by simp⟩

theorem register_log (s : Sched) (n : Nat) (a iv : Int) (cron : Option Nat) (times : Int) :
    (register s n a iv cron times).log = s.log := by
  unfold register
  split
  · rfl
  · unfold registerLive addTask; simp only; exact (unregister_frame s n).2.2.2.1

/-- a registration on a scheduler that has not been closed -/
theorem register_frame (s : Sched) (n : Nat) (a iv : Int) (cron : Option Nat) (times : Int)
    (hlive : s.stopped = false) :
    (register s n a iv cron times).log = s.log ∧ (register s n a iv cron times).nobjs = s.nobjs + 1 ∧
    (register s n a iv cron times).table n = some s.nobjs ∧
    (register s n a iv cron times).objs s.nobjs =
      (Task.fresh n (durMs s.tick cron a) (durMs s.tick cron iv) times cron s.now).schedule s.now := by
  obtain ⟨_, hnow, hn, hlog, _, _⟩ := unregister_frame s n
  unfold register
  simp only [hlive, Bool.false_eq_true, if_false]
  unfold registerLive addTask; simp only
  rw [hn, hnow]
  exact ⟨hlog, rfl, by simp, by simp⟩

theorem clear_kills (s : Sched) (i : Nat) (h : inTable s i = true) : ((clear s).objs i).kill = true := by
  unfold clear; simp only [h, if_true]; exact Task.close_kill _

/-- the events that end the registration held by task object `i` -/
def Cancels (s : Sched) (i : Nat) : Ev → Prop
  | .unreg n => n = (s.objs i).name
  | .reg n _ _ _ => n = (s.objs i).name
  | .regCron n _ => n = (s.objs i).name
  | .clear => True
  | .close => True
  | _ => False

theorem cancel_kills (s : Sched) (i : Nat) (ev : Ev) (hinv : Inv s) (hi : i < s.nobjs) (hc : Cancels s i ev) :
    ((step s ev).1.objs i).kill = true := by
  cases hk : (s.objs i).kill
  · have ht := hinv.live i hi hk
    have hit : inTable s i = true := by simp [inTable, hi, ht]
    cases ev with
    | unreg n => simp only [Cancels] at hc; subst hc; exact unregister_kills s _ i ht
    | reg n a iv times => simp only [Cancels] at hc; subst hc; exact (register_kills s _ i a iv none times hinv ht).1
    | regCron n p => simp only [Cancels] at hc; subst hc; exact (register_kills s _ i 0 0 (some p) 0 hinv ht).1
    | clear => exact clear_kills s i hit
    | close =>
      have := clear_kills s i hit
      simp only [step, close]; split <;> exact this
    | advance dt => cases hc
    | expire j => cases hc
    | run j => cases hc
  · exact (Ext_step s ev).kill i hi hk

theorem log_stopped_step (s : Sched) (ev : Ev) (hinv : Inv s) (hs : s.stopped = true) :
    (step s ev).1.log = s.log := by
  have hreg : ∀ n a iv cron times, (register s n a iv cron times).log = s.log :=
    fun n a iv cron times => register_log s n a iv cron times
  cases ev with
  | reg n a iv times => exact hreg _ _ _ _ _
  | regCron n p => exact hreg _ _ _ _ _
  | unreg n => exact (unregister_frame s n).2.2.2.1
  | clear => rfl
  | close => simp only [step, close]; split <;> rfl
  | advance dt => rfl
  | expire i => simp only [step, expire, hs, if_true]
  | run i =>
    simp only [step, runTimer]
    split
    · rename_i e hin
      split
      · rename_i hi
        rw [timerTask_eq]
        cases hk : (s.objs i).kill
        · exact absurd hin (hinv.stop hs i hi.1 hk e)
        · simp [fireAt]
      · rfl
    · rfl

end MV.Model.Scheduler
