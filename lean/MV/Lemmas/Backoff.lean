import MV.Model.Backoff
import MV.Spec.Backoff
import Mathlib.Tactic.Linarith
import Mathlib.Tactic.Ring
import Mathlib.Tactic.FieldSimp
import Mathlib.Tactic.Positivity
import Mathlib.Tactic.NormNum
import Mathlib.Data.Rat.Floor

/-!
# Lemmas for C18: the `FVal` model of the back-off delay computes the exact rational formula

`Is x q`: the float value `x` is finite and denotes the rational `q`.  The arithmetic of
`MV.Model.Backoff.FVal` is exact below the overflow threshold `F = 2^1024` and yields `+Inf` at or above
it; `delay_eq` collapses the whole model (including every overflow / NaN branch) to
`if max ≤ X then max else ⌊X⌋` with `X = base·m^count + (u − 1/2)·r·base` on the documented domain.
-/
namespace MV.Lemmas.Backoff
open MV.Model.Backoff MV.Model.Backoff.FVal

/-- the overflow threshold as a rational -/
def F : ℚ := (fmax : ℚ)

theorem F_eq : F = 2 ^ 1024 := by unfold F fmax; norm_num

theorem F_big : (2:ℚ) ^ 64 ≤ F := by
  rw [F_eq]; exact pow_le_pow_right₀ (by norm_num) (by norm_num)

theorem F_pos : (0:ℚ) < F := lt_of_lt_of_le (by positivity) F_big

/-- `x` is the finite value `q` -/
def Is (x : FVal) (q : ℚ) : Prop := ∃ (n : Int) (d : Nat), 0 < d ∧ x = fin n d ∧ (n : ℚ) / d = q

theorem norm_is (n : Int) (d : Nat) (hd : 0 < d) (h1 : -F < (n:ℚ)/d) (h2 : (n:ℚ)/d < F) :
    Is (norm n d) ((n:ℚ)/d) := by
  have hdq : (0:ℚ) < d := by exact_mod_cast hd
  refine ⟨n, d, hd, ?_, rfl⟩
  unfold norm
  have a1 : ¬ (((fmax * d : Nat) : Int) ≤ n) := by
    intro h
    have : ((fmax * d : Nat) : ℚ) ≤ (n : ℚ) := by exact_mod_cast h
    rw [lt_div_iff₀ hdq] at h1
    rw [div_lt_iff₀ hdq] at h2
    push_cast at this
    unfold F at h2
    linarith
  have a2 : ¬ (n ≤ -((fmax * d : Nat) : Int)) := by
    intro h
    have : (n : ℚ) ≤ -((fmax * d : Nat) : ℚ) := by exact_mod_cast h
    rw [lt_div_iff₀ hdq] at h1
    push_cast at this
    unfold F at h1
    linarith
  rw [if_neg a1, if_neg a2]

theorem norm_pinf (n : Int) (d : Nat) (hd : 0 < d) (h : F ≤ (n:ℚ)/d) : norm n d = pinf := by
  have hdq : (0:ℚ) < d := by exact_mod_cast hd
  unfold norm
  have a1 : (((fmax * d : Nat) : Int) ≤ n) := by
    rw [le_div_iff₀ hdq] at h
    unfold F at h
    have : ((fmax * d : Nat) : ℚ) ≤ (n : ℚ) := by push_cast; linarith
    exact_mod_cast this
  rw [if_pos a1]

theorem Is_fin (n : Int) (d : Nat) (hd : 0 < d) : Is (fin n d) ((n:ℚ)/d) := ⟨n, d, hd, rfl, rfl⟩

theorem Is_ofInt (i : Int) : Is (ofInt i) i := ⟨i, 1, by decide, rfl, by simp⟩

theorem Is_neg {y : FVal} {q : ℚ} (hy : Is y q) : Is (neg y) (-q) := by
  obtain ⟨c, d, hd, rfl, rfl⟩ := hy
  exact ⟨-c, d, hd, rfl, by push_cast; ring⟩

theorem mul_val (a c : Int) (b d : Nat) (hb : 0 < b) (hd : 0 < d) :
    ((a:ℚ)/b) * ((c:ℚ)/d) = ((a*c : Int):ℚ) / ((b*d : Nat):ℚ) := by
  have : (b:ℚ) ≠ 0 := by positivity
  have : (d:ℚ) ≠ 0 := by positivity
  push_cast; field_simp

theorem add_val (a c : Int) (b d : Nat) (hb : 0 < b) (hd : 0 < d) :
    ((a:ℚ)/b) + ((c:ℚ)/d) = ((a*d + c*b : Int):ℚ) / ((b*d : Nat):ℚ) := by
  have : (b:ℚ) ≠ 0 := by positivity
  have : (d:ℚ) ≠ 0 := by positivity
  push_cast; field_simp

theorem Is_mul {x y : FVal} {p q : ℚ} (hx : Is x p) (hy : Is y q) (h1 : -F < p*q) (h2 : p*q < F) :
    Is (mul x y) (p*q) := by
  obtain ⟨a, b, hb, rfl, rfl⟩ := hx
  obtain ⟨c, d, hd, rfl, rfl⟩ := hy
  rw [mul_val a c b d hb hd] at h1 h2 ⊢
  show Is (norm (a*c) (b*d)) _
  exact norm_is _ _ (Nat.mul_pos hb hd) h1 h2

theorem mul_pinf {x y : FVal} {p q : ℚ} (hx : Is x p) (hy : Is y q) (h : F ≤ p*q) : mul x y = pinf := by
  obtain ⟨a, b, hb, rfl, rfl⟩ := hx
  obtain ⟨c, d, hd, rfl, rfl⟩ := hy
  rw [mul_val a c b d hb hd] at h
  show norm (a*c) (b*d) = pinf
  exact norm_pinf _ _ (Nat.mul_pos hb hd) h

theorem Is_add {x y : FVal} {p q : ℚ} (hx : Is x p) (hy : Is y q) (h1 : -F < p+q) (h2 : p+q < F) :
    Is (add x y) (p+q) := by
  obtain ⟨a, b, hb, rfl, rfl⟩ := hx
  obtain ⟨c, d, hd, rfl, rfl⟩ := hy
  rw [add_val a c b d hb hd] at h1 h2 ⊢
  show Is (norm (a*d + c*b) (b*d)) _
  exact norm_is _ _ (Nat.mul_pos hb hd) h1 h2

theorem add_pinf {x y : FVal} {p q : ℚ} (hx : Is x p) (hy : Is y q) (h : F ≤ p+q) : add x y = pinf := by
  obtain ⟨a, b, hb, rfl, rfl⟩ := hx
  obtain ⟨c, d, hd, rfl, rfl⟩ := hy
  rw [add_val a c b d hb hd] at h
  show norm (a*d + c*b) (b*d) = pinf
  exact norm_pinf _ _ (Nat.mul_pos hb hd) h

theorem Is_sub {x y : FVal} {p q : ℚ} (hx : Is x p) (hy : Is y q) (h1 : -F < p-q) (h2 : p-q < F) :
    Is (sub x y) (p-q) := by
  have := Is_add hx (Is_neg hy) (by linarith) (by linarith)
  rw [sub_eq_add_neg]; exact this

theorem pinf_add_Is {y : FVal} {q : ℚ} (hy : Is y q) : add pinf y = pinf := by
  obtain ⟨c, d, hd, rfl, rfl⟩ := hy; rfl

theorem nan_add (y : FVal) : add nan y = nan := by cases y <;> rfl

theorem pow_val (mn md c : Nat) : (((mn ^ c : Nat) : Int) : ℚ) / ((md ^ c : Nat) : ℚ) = ((mn:ℚ)/md) ^ c := by
  push_cast; rw [div_pow]

theorem Is_powNat (mn md c : Nat) (hd : 0 < md) (h : ((mn:ℚ)/md) ^ c < F) :
    Is (powNat mn md c) (((mn:ℚ)/md) ^ c) := by
  unfold powNat
  rw [← pow_val]
  apply norm_is _ _ (by positivity)
  · rw [pow_val]
    have : (0:ℚ) ≤ ((mn:ℚ)/md) ^ c := pow_nonneg (div_nonneg (Nat.cast_nonneg _) (Nat.cast_nonneg _)) _
    have hF := F_pos
    linarith
  · rw [pow_val]; exact h

theorem powNat_pinf (mn md c : Nat) (hd : 0 < md) (h : F ≤ ((mn:ℚ)/md) ^ c) : powNat mn md c = pinf := by
  unfold powNat
  apply norm_pinf _ _ (by positivity)
  rw [pow_val]; exact h

theorem ofInt_mul_pinf (b : Int) (hb : 0 ≤ b) : mul (ofInt b) pinf = if b = 0 then nan else pinf := by
  show infMul true b = _
  unfold infMul
  by_cases h0 : b = 0
  · simp [h0]
  · have : 0 < b := by omega
    simp [h0, this]

/-! ### the conversion and the clamp -/

theorem clampDur_pinf (max : Int) : clampDur pinf max = max := by
  simp [clampDur, isNaN, ge]

theorem clampDur_nan (max : Int) (h : 0 ≤ max) : clampDur nan max = 0 := by
  simp only [clampDur, isNaN, if_true, ge, toI64]
  have e : (0:Int).tdiv ((1:Nat):Int) = 0 := by simp
  by_cases hm : max ≤ 0
  · have : max = 0 := by omega
    subst this; simp
  · simp [hm]; omega

theorem clampDur_Is {s : FVal} {x : ℚ} (hs : Is s x) (hx : 0 ≤ x) (max : Int) (hm : max < 2 ^ 63) :
    clampDur s max = if (max:ℚ) ≤ x then max else ⌊x⌋ := by
  obtain ⟨n, d, hd, rfl, rfl⟩ := hs
  have hdq : (0:ℚ) < d := by exact_mod_cast hd
  have hdz : (0:Int) < d := by exact_mod_cast hd
  have hn : 0 ≤ n := by
    have := (le_div_iff₀ hdq).mp hx
    simp only [zero_mul] at this
    exact_mod_cast this
  have hfloor : ⌊(n:ℚ)/d⌋ = n / (d:Int) := Rat.floor_intCast_div_natCast n d
  simp only [clampDur, isNaN, Bool.false_eq_true, if_false, ge, toI64, decide_eq_true_eq]
  by_cases hge : (max:ℚ) ≤ (n:ℚ)/d
  · have : max * (d:Int) ≤ n := by
      have := (le_div_iff₀ hdq).mp hge
      exact_mod_cast this
    simp [hge, this]
  · have hlt : n < max * (d:Int) := by
      have := (div_lt_iff₀ hdq).mp (not_le.mp hge)
      exact_mod_cast this
    have h1 : ¬ (max * (d:Int) ≤ n) := by omega
    have h2 : n < 2 ^ 63 * (d:Int) := by
      have : max * (d:Int) ≤ 2 ^ 63 * (d:Int) := Int.mul_le_mul_of_nonneg_right (by omega) (by omega)
      omega
    have h3 : -((2 ^ 63 + 1) * (d:Int)) < n := by
      have : (0:Int) < (2 ^ 63 + 1) * (d:Int) := by positivity
      omega
    have h4 : n.tdiv (d:Int) = n / (d:Int) := Int.tdiv_eq_ediv_of_nonneg hn
    have h5 : ¬ (n / (d:Int) > max) := by
      have : n / (d:Int) < max := by
        apply Int.ediv_lt_of_lt_mul hdz hlt
      omega
    rw [if_neg hge, hfloor]
    simp only [h1, h2, h3, h4, and_self, if_true, false_or]
    rw [if_neg h5]

/-! ### the whole delay computation -/

/-- the documented domain of the arguments -/
structure Dom (base max : Int) (mn md rn rd : Nat) : Prop where
  md_pos : 0 < md
  rd_pos : 0 < rd
  mult_ge : md ≤ mn
  rand_le : rn ≤ 2 * rd
  base_nn : 0 ≤ base
  base_lt : base < 2 ^ 63
  max_nn : 0 ≤ max
  max_lt : max < 2 ^ 63

/-- `base · (mn/md)^count` -/
def prod (c : Nat) (base : Int) (mn md : Nat) : ℚ := base * ((mn:ℚ)/md) ^ c

/-- the jitter `(u − 1/2) · (rn/rd) · base` for the draw `u = un/ud` -/
def jit (base : Int) (rn rd un ud : Nat) : ℚ := ((un:ℚ)/ud - 1/2) * ((rn:ℚ)/rd) * base

/-- the exact real value of `delay + jitter` -/
def X (c : Nat) (base : Int) (mn md rn rd un ud : Nat) : ℚ := prod c base mn md + jit base rn rd un ud

theorem mult_pow_ge_one (mn md c : Nat) (hd : 0 < md) (h : md ≤ mn) : (1:ℚ) ≤ ((mn:ℚ)/md) ^ c := by
  apply one_le_pow₀
  have hdq : (0:ℚ) < md := by exact_mod_cast hd
  rw [le_div_iff₀ hdq]
  have : (md:ℚ) ≤ mn := by exact_mod_cast h
  linarith

/-- `|jitter| ≤ (rn/rd)/2 · base` -/
theorem jit_bounds (base : Int) (rn rd un ud : Nat) (hb : 0 ≤ base) (hud : 0 < ud) (hu : un ≤ ud) :
    -(((rn:ℚ)/rd)/2 * base) ≤ jit base rn rd un ud ∧ jit base rn rd un ud ≤ ((rn:ℚ)/rd)/2 * base := by
  have hudq : (0:ℚ) < ud := by exact_mod_cast hud
  have hu0 : (0:ℚ) ≤ (un:ℚ)/ud := div_nonneg (Nat.cast_nonneg _) (le_of_lt hudq)
  have hu1 : (un:ℚ)/ud ≤ 1 := by
    rw [div_le_one hudq]; exact_mod_cast hu
  have hr : (0:ℚ) ≤ (rn:ℚ)/rd := div_nonneg (Nat.cast_nonneg _) (Nat.cast_nonneg _)
  have hbq : (0:ℚ) ≤ base := by exact_mod_cast hb
  have hrb : (0:ℚ) ≤ (rn:ℚ)/rd * base := mul_nonneg hr hbq
  unfold jit
  constructor <;> nlinarith

theorem delay_eq (c : Nat) (base max : Int) (mn md rn rd un ud : Nat) (D : Dom base max mn md rn rd)
    (hud : 0 < ud) (hu : un ≤ ud) :
    delay c base max mn md rn rd (fin un ud) =
      if (max:ℚ) ≤ X c base mn md rn rd un ud then max else ⌊X c base mn md rn rd un ud⌋ := by
  obtain ⟨hmd, hrd, hmult, hrand, hb0, hbK, hm0, hmK⟩ := D
  -- numeric facts
  have hK : (2:ℚ) ^ 64 = 2 * 2 ^ 63 := by norm_num
  have hFb := F_big
  have hbq0 : (0:ℚ) ≤ base := by exact_mod_cast hb0
  have hbqK : (base:ℚ) < 2 ^ 63 := by exact_mod_cast hbK
  have hmqK : (max:ℚ) < 2 ^ 63 := by exact_mod_cast hmK
  have hmq0 : (0:ℚ) ≤ max := by exact_mod_cast hm0
  have hpow1 := mult_pow_ge_one mn md c hmd hmult
  have hrdq : (0:ℚ) < rd := by exact_mod_cast hrd
  have hr0 : (0:ℚ) ≤ (rn:ℚ)/rd := div_nonneg (Nat.cast_nonneg _) (le_of_lt hrdq)
  have hr2 : (rn:ℚ)/rd ≤ 2 := by
    rw [div_le_iff₀ hrdq]; exact_mod_cast hrand
  obtain ⟨hj1, hj2⟩ := jit_bounds base rn rd un ud hb0 hud hu
  have hw : ((rn:ℚ)/rd)/2 * base ≤ base := by nlinarith
  -- the jitter is finite
  have hudq : (0:ℚ) < ud := by exact_mod_cast hud
  have hu0 : (0:ℚ) ≤ (un:ℚ)/ud := div_nonneg (Nat.cast_nonneg _) (le_of_lt hudq)
  have hu1 : (un:ℚ)/ud ≤ 1 := by
    rw [div_le_one hudq]; exact_mod_cast hu
  have h12 : Is (fin 1 2) (1/2) := by
    have := Is_fin 1 2 (by decide); simpa using this
  have hsub : Is (sub (fin un ud) (fin 1 2)) ((un:ℚ)/ud - 1/2) :=
    Is_sub (Is_fin un ud hud) h12 (by linarith) (by linarith)
  have ht1 : -1 ≤ ((un:ℚ)/ud - 1/2) * ((rn:ℚ)/rd) := by nlinarith
  have ht2 : ((un:ℚ)/ud - 1/2) * ((rn:ℚ)/rd) ≤ 1 := by nlinarith
  have hmul1 : Is (mul (sub (fin un ud) (fin 1 2)) (fin rn rd)) (((un:ℚ)/ud - 1/2) * ((rn:ℚ)/rd)) :=
    Is_mul hsub (Is_fin rn rd hrd) (by linarith) (by linarith)
  have hjit : Is (mul (mul (sub (fin un ud) (fin 1 2)) (fin rn rd)) (ofInt base)) (jit base rn rd un ud) :=
    Is_mul hmul1 (Is_ofInt base) (by unfold jit at hj1; linarith) (by unfold jit at hj2; linarith)
  unfold delay sleepF
  simp only []
  by_cases hp : F ≤ ((mn:ℚ)/md) ^ c
  · -- math.Pow overflows
    rw [powNat_pinf mn md c hmd hp, ofInt_mul_pinf base hb0]
    by_cases hb : base = 0
    · subst hb
      rw [if_pos rfl, nan_add, clampDur_nan max hm0]
      have hX : X c 0 mn md rn rd un ud = 0 := by unfold X prod jit; simp
      rw [hX]
      by_cases hm : max = 0
      · subst hm; simp
      · have : ¬ ((max:ℚ) ≤ 0) := by
          intro h; apply hm
          have : max ≤ 0 := by exact_mod_cast h
          omega
        rw [if_neg this]; simp
    · rw [if_neg hb, pinf_add_Is hjit, clampDur_pinf]
      have hb1 : (1:ℚ) ≤ base := by
        have : (1:Int) ≤ base := by omega
        exact_mod_cast this
      have : (max:ℚ) ≤ X c base mn md rn rd un ud := by
        unfold X prod
        nlinarith
      rw [if_pos this]
  · have hp' := not_le.mp hp
    have hpow := Is_powNat mn md c hmd hp'
    by_cases hq : F ≤ prod c base mn md
    · -- the product overflows
      rw [mul_pinf (Is_ofInt base) hpow hq, pinf_add_Is hjit, clampDur_pinf]
      have : (max:ℚ) ≤ X c base mn md rn rd un ud := by
        unfold X; linarith
      rw [if_pos this]
    · have hq' := not_le.mp hq
      have hprod0 : 0 ≤ prod c base mn md := by unfold prod; nlinarith
      have hdelay : Is (mul (ofInt base) (powNat mn md c)) (prod c base mn md) :=
        Is_mul (Is_ofInt base) hpow (by have := F_pos; unfold prod at hprod0; linarith) hq'
      have hX0 : 0 ≤ X c base mn md rn rd un ud := by
        unfold X; unfold prod at *; nlinarith
      by_cases hs : F ≤ X c base mn md rn rd un ud
      · rw [add_pinf hdelay hjit hs, clampDur_pinf]
        have : (max:ℚ) ≤ X c base mn md rn rd un ud := by linarith
        rw [if_pos this]
      · have hsum : Is (add (mul (ofInt base) (powNat mn md c))
            (mul (mul (sub (fin un ud) (fin 1 2)) (fin rn rd)) (ofInt base))) (X c base mn md rn rd un ud) :=
          Is_add hdelay hjit (by have := F_pos; unfold X at hX0; linarith) (not_le.mp hs)
        exact clampDur_Is hsum hX0 max hmK

/-! ### consequences of `delay_eq` -/

/-- the clamped value as a function of the exact sum -/
def clampQ (max : Int) (x : ℚ) : Int := if (max:ℚ) ≤ x then max else ⌊x⌋

theorem clampQ_mono (max : Int) {x y : ℚ} (h : x ≤ y) : clampQ max x ≤ clampQ max y := by
  unfold clampQ
  by_cases hx : (max:ℚ) ≤ x
  · have hy : (max:ℚ) ≤ y := le_trans hx h
    rw [if_pos hx, if_pos hy]
  · rw [if_neg hx]
    by_cases hy : (max:ℚ) ≤ y
    · rw [if_pos hy]
      have : ⌊x⌋ ≤ max := by
        have h1 : ((⌊x⌋ : Int) : ℚ) ≤ x := Int.floor_le x
        have : ((⌊x⌋ : Int) : ℚ) ≤ (max : ℚ) := by linarith [not_le.mp hx]
        exact_mod_cast this
      exact this
    · rw [if_neg hy]; exact Int.floor_le_floor h

theorem X_nonneg (c : Nat) (base max : Int) (mn md rn rd un ud : Nat) (D : Dom base max mn md rn rd)
    (hud : 0 < ud) (hu : un ≤ ud) : 0 ≤ X c base mn md rn rd un ud := by
  obtain ⟨hmd, hrd, hmult, hrand, hb0, hbK, hm0, hmK⟩ := D
  have hbq0 : (0:ℚ) ≤ base := by exact_mod_cast hb0
  have hpow1 := mult_pow_ge_one mn md c hmd hmult
  have hrdq : (0:ℚ) < rd := by exact_mod_cast hrd
  have hr2 : (rn:ℚ)/rd ≤ 2 := by
    rw [div_le_iff₀ hrdq]; exact_mod_cast hrand
  obtain ⟨hj1, hj2⟩ := jit_bounds base rn rd un ud hb0 hud hu
  unfold X prod
  nlinarith

/-- `0 ≤ delay ≤ max` on the documented domain -/
theorem delay_range (c : Nat) (base max : Int) (mn md rn rd un ud : Nat) (D : Dom base max mn md rn rd)
    (hud : 0 < ud) (hu : un ≤ ud) :
    0 ≤ delay c base max mn md rn rd (fin un ud) ∧ delay c base max mn md rn rd (fin un ud) ≤ max := by
  rw [delay_eq c base max mn md rn rd un ud D hud hu]
  have hX := X_nonneg c base max mn md rn rd un ud D hud hu
  by_cases h : (max:ℚ) ≤ X c base mn md rn rd un ud
  · rw [if_pos h]; exact ⟨D.max_nn, le_refl _⟩
  · rw [if_neg h]
    constructor
    · exact Int.floor_nonneg.mpr hX
    · have h1 : ((⌊X c base mn md rn rd un ud⌋ : Int) : ℚ) ≤ X c base mn md rn rd un ud := Int.floor_le _
      have : ((⌊X c base mn md rn rd un ud⌋ : Int) : ℚ) ≤ (max : ℚ) := by linarith [not_le.mp h]
      exact_mod_cast this

/-- the clamp alone already guarantees `≤ max`, for every float value (NaN and infinities included)
    and every `max` -/
theorem clampDur_le_max (s : FVal) (max : Int) : clampDur s max ≤ max := by
  have key : ∀ t : FVal, (if t.ge max = true ∨ t.toI64 > max then max else t.toI64) ≤ max := by
    intro t
    by_cases h : t.ge max = true ∨ t.toI64 > max
    · rw [if_pos h]
    · rw [if_neg h]; have := (not_or.mp h).2; omega
  exact key _

/-! ### the integer specification is the same band -/

open MV.Spec.Backoff in
theorem den_pos (p : Params) (hmd : 0 < p.md) (hrd : 0 < p.rd) : 0 < 2 * p.rd * p.md ^ p.count := by
  positivity

/-- half-width of the jitter band -/
def halfW (base : Int) (rn rd : Nat) : ℚ := ((rn:ℚ)/rd)/2 * base

open MV.Spec.Backoff in
theorem floorLow_eq (p : Params) (hmd : 0 < p.md) (hrd : 0 < p.rd) :
    floorLow p = ⌊prod p.count p.base p.mn p.md - halfW p.base p.rn p.rd⌋ := by
  have hd := den_pos p hmd hrd
  have e : den p = ((2 * p.rd * p.md ^ p.count : Nat) : Int) := by unfold den; push_cast; ring
  unfold floorLow
  rw [e, ← Rat.floor_intCast_div_natCast]
  congr 1
  have h1 : (p.md:ℚ) ≠ 0 := by positivity
  have h2 : (p.rd:ℚ) ≠ 0 := by positivity
  unfold lowNum prod halfW
  push_cast
  rw [div_pow]
  field_simp

open MV.Spec.Backoff in
theorem floorHigh_eq (p : Params) (hmd : 0 < p.md) (hrd : 0 < p.rd) :
    floorHigh p = ⌊prod p.count p.base p.mn p.md + halfW p.base p.rn p.rd⌋ := by
  have hd := den_pos p hmd hrd
  have e : den p = ((2 * p.rd * p.md ^ p.count : Nat) : Int) := by unfold den; push_cast; ring
  unfold floorHigh
  rw [e, ← Rat.floor_intCast_div_natCast]
  congr 1
  have h1 : (p.md:ℚ) ≠ 0 := by positivity
  have h2 : (p.rd:ℚ) ≠ 0 := by positivity
  unfold highNum prod halfW
  push_cast
  rw [div_pow]
  field_simp

/-- the documented domain, for a parameter record -/
def DomP (p : Params) : Prop := Dom p.base p.max p.mn p.md p.rn p.rd

theorem inDomain_iff (p : Params) : MV.Spec.Backoff.inDomain p = true ↔ DomP p := by
  unfold MV.Spec.Backoff.inDomain DomP
  rw [decide_eq_true_iff]
  constructor
  · rintro ⟨a, b, c, d, e, f, g, h⟩; exact ⟨a, b, c, d, e, f, g, h⟩
  · rintro ⟨a, b, c, d, e, f, g, h⟩; exact ⟨a, b, c, d, e, f, g, h⟩

/-! ### the stop test -/

open MV.Spec.Backoff in
section
/-- a limit is set and the count exceeds it -/
def Stops (p : Params) : Prop := 0 ≤ p.limit ∧ p.limit < (p.count : Int)

theorem stop_iff_Stops (p : Params) : stop p = true ↔ Stops p := by
  unfold stop Stops; rw [decide_eq_true_iff]

theorem backoff_of_stops (p : Params) (u : FVal) (h : Stops p) : backoff p u = -1 := by
  unfold Stops at h
  unfold backoff
  have : (p.count : Int) > p.limit ∧ p.limit > -1 := by omega
  rw [if_pos this]

theorem backoff_of_not_stops (p : Params) (u : FVal) (h : ¬ Stops p) :
    backoff p u = delay p.count p.base p.max p.mn p.md p.rn p.rd u := by
  unfold Stops at h
  unfold backoff
  have : ¬ ((p.count : Int) > p.limit ∧ p.limit > -1) := by omega
  rw [if_neg this]

end

end MV.Lemmas.Backoff
