import MV.Model.ECS
import MV.Spec.ECS
/-!
# Lemmas about the set-level component masks and filter evaluation (C14)
-/
namespace MV.Lemmas.ECSMask
open MV.Model.ECSMask MV.Model.ECS

/-- canonical form: strictly increasing -/
def Sorted (m : Mask) : Prop := List.Pairwise (· < ·) m

theorem mem_setBit (m : Mask) (id x : Nat) : x ∈ setBit m id ↔ x = id ∨ x ∈ m := by
  induction m with
  | nil => simp [setBit]
  | cons y ys ih =>
    unfold setBit
    by_cases h1 : id < y
    · simp [h1]
    · by_cases h2 : id = y
      · subst h2; simp
      · simp only [h1, h2, if_false, List.mem_cons, ih]
        constructor
        · rintro (h | h | h) <;> simp [h]
        · rintro (h | h | h) <;> simp [h]

theorem sorted_setBit (m : Mask) (id : Nat) (h : Sorted m) : Sorted (setBit m id) := by
  induction m with
  | nil => simp [setBit, Sorted]
  | cons y ys ih =>
    unfold Sorted at h ih ⊢
    rw [List.pairwise_cons] at h
    unfold setBit
    by_cases h1 : id < y
    · simp only [h1, if_true, List.pairwise_cons]
      refine ⟨?_, h.1, h.2⟩
      intro a ha
      rcases List.mem_cons.mp ha with rfl | ha
      · exact h1
      · exact Nat.lt_trans h1 (h.1 a ha)
    · by_cases h2 : id = y
      · subst h2
        simp only [Nat.lt_irrefl, if_false, if_true]
        exact List.pairwise_cons.mpr h
      · simp only [h1, h2, if_false, List.pairwise_cons]
        refine ⟨?_, ih h.2⟩
        intro a ha
        rcases (mem_setBit ys id a).mp ha with rfl | ha
        · omega
        · exact h.1 a ha

theorem mem_setAll (ids : List Nat) (m : Mask) (x : Nat) : x ∈ setAll m ids ↔ x ∈ m ∨ x ∈ ids := by
  induction ids generalizing m with
  | nil => simp [setAll]
  | cons i is ih =>
    have := ih (setBit m i)
    unfold setAll at this ⊢
    simp only [List.foldl_cons, this, mem_setBit, List.mem_cons]
    constructor
    · rintro ((h | h) | h) <;> simp [h]
    · rintro (h | h | h) <;> simp [h]

theorem sorted_setAll (ids : List Nat) (m : Mask) (h : Sorted m) : Sorted (setAll m ids) := by
  induction ids generalizing m with
  | nil => simpa [setAll] using h
  | cons i is ih =>
    have := ih (setBit m i) (sorted_setBit m i h)
    simpa [setAll] using this

theorem setAll_cons (m : Mask) (i : Nat) (is : List Nat) : setAll m (i :: is) = setAll (setBit m i) is := rfl

theorem sorted_nil : Sorted [] := List.Pairwise.nil

/-- canonical masks are determined by their members -/
theorem sorted_ext (a b : Mask) (ha : Sorted a) (hb : Sorted b) (h : ∀ x, x ∈ a ↔ x ∈ b) : a = b := by
  induction a generalizing b with
  | nil =>
    cases b with
    | nil => rfl
    | cons y ys => have := (h y).mpr (by simp); simp at this
  | cons x xs ih =>
    cases b with
    | nil => have := (h x).mp (by simp); simp at this
    | cons y ys =>
      unfold Sorted at ha hb
      rw [List.pairwise_cons] at ha hb
      have hxy : x = y := by
        have h1 := (h x).mp (by simp)
        have h2 := (h y).mpr (by simp)
        rcases List.mem_cons.mp h1 with e | h1
        · exact e
        · rcases List.mem_cons.mp h2 with e | h2
          · exact e.symm
          · have := hb.1 x h1; have := ha.1 y h2; omega
      subst hxy
      congr 1
      apply ih ys ha.2 hb.2
      intro z
      constructor
      · intro hz
        rcases List.mem_cons.mp ((h z).mp (List.mem_cons_of_mem _ hz)) with e | h'
        · subst e; have := ha.1 z hz; omega
        · exact h'
      · intro hz
        rcases List.mem_cons.mp ((h z).mpr (List.mem_cons_of_mem _ hz)) with e | h'
        · subst e; have := hb.1 z hz; omega
        · exact h'

/-! ## `BitSet` laws at the set level -/

theorem isSet_iff (m : Mask) (x : Nat) : isSet m x = true ↔ x ∈ m := by simp [isSet]

theorem isSet_set (m : Mask) (id x : Nat) : isSet (setBit m id) x = true ↔ x = id ∨ isSet m x = true := by
  simp [isSet, mem_setBit]

theorem in_iff_subset (m q : Mask) : isIn m q = true ↔ ∀ x ∈ q, x ∈ m := by simp [isIn]

theorem notIn_iff_disjoint (m q : Mask) : notIn m q = true ↔ ∀ x ∈ q, x ∉ m := by simp [notIn]

theorem equal_iff_sameSet (q m : Mask) (hq : Sorted q) (hm : Sorted m) :
    equal q m = true ↔ ∀ x, x ∈ q ↔ x ∈ m := by
  unfold equal
  constructor
  · intro h x; rw [beq_iff_eq.mp h]
  · intro h; exact beq_iff_eq.mpr (sorted_ext q m hq hm h)

/-! ## filter evaluation on a canonical mask = satisfaction by the component set -/

open MV.Spec.ECS in
mutual
theorem eval_sat (m : Mask) (comps : List Nat) (hm : Sorted m) (hc : ∀ x, x ∈ m ↔ x ∈ comps) :
    ∀ f : Filter, Filter.eval m f = sat comps f
  | .and l => by simp only [Filter.eval, sat]; exact evalAll_sat m comps hm hc l
  | .or l => by simp only [Filter.eval, sat]; exact evalAny_sat m comps hm hc l
  | .isIn ids => by
    simp only [Filter.eval, sat, has]
    rw [Bool.eq_iff_iff, in_iff_subset]
    simp [mem_setAll, hc]
  | .notIn ids => by
    simp only [Filter.eval, sat, has]
    rw [Bool.eq_iff_iff, notIn_iff_disjoint]
    simp [mem_setAll, hc]
  | .eq ids => by
    simp only [Filter.eval, sat, has]
    rw [Bool.eq_iff_iff, equal_iff_sameSet _ _ (sorted_setAll ids [] sorted_nil) hm]
    simp only [mem_setAll, List.not_mem_nil, false_or, hc, Bool.and_eq_true, List.all_eq_true,
      List.contains_iff_mem]
    constructor
    · intro h; exact ⟨fun x hx => (h x).mp hx, fun x hx => (h x).mpr hx⟩
    · intro h x; exact ⟨h.1 x, h.2 x⟩
theorem evalAll_sat (m : Mask) (comps : List Nat) (hm : Sorted m) (hc : ∀ x, x ∈ m ↔ x ∈ comps) :
    ∀ l : List Filter, evalAll m l = satAll comps l
  | [] => rfl
  | f :: fs => by
    simp only [evalAll, satAll, eval_sat m comps hm hc f, evalAll_sat m comps hm hc fs]
theorem evalAny_sat (m : Mask) (comps : List Nat) (hm : Sorted m) (hc : ∀ x, x ∈ m ↔ x ∈ comps) :
    ∀ l : List Filter, evalAny m l = satAny comps l
  | [] => rfl
  | f :: fs => by
    simp only [evalAny, satAny, eval_sat m comps hm hc f, evalAny_sat m comps hm hc fs]
end

end MV.Lemmas.ECSMask
