import MV.Model.PubSub
import MV.Spec.PubSub
/-!
# Lemmas for C10: the subscription actor refines the set of current subscriptions
-/
namespace MV.Lemmas.PubSub
open MV.Model.PubSub MV.Spec.PubSub

/-- induction from the right end of a list (core has no `reverseRecOn`) -/
theorem snoc_induction {α : Type} {P : List α → Prop} (nil : P [])
    (snoc : ∀ l x, P l → P (l ++ [x])) (l : List α) : P l := by
  have h : ∀ r : List α, P r.reverse := by
    intro r
    induction r with
    | nil => simpa using nil
    | cons x r ih => simp only [List.reverse_cons]; exact snoc _ _ ih
  simpa using h l.reverse

/-- every current subscription carries an id that has been issued -/
def AbsWF (a : Abs) : Prop := ∀ x ∈ a.live, x.id ≤ a.count

/-- the refinement relation: same counter, and the inner map of every topic read through `lookup` is
    the list of current subscriptions of that topic (same order: ascending id) -/
def Refines (s : SubActor) (a : Abs) : Prop :=
  a.count = s.guid ∧ ∀ t, s.lookup t = a.on t

theorem absWF_init : AbsWF Abs.init := by
  intro x hx; simp [Abs.init] at hx

theorem refines_init (self : Nat) : Refines (SubActor.init self) Abs.init := by
  refine ⟨rfl, ?_⟩
  intro t; simp [SubActor.lookup, SubActor.init, Abs.on, Abs.init]

theorem absWF_apply {a : Abs} (h : AbsWF a) (m : Msg) : AbsWF (a.apply m) := by
  cases m with
  | subscribeRequest t r =>
    intro x hx
    simp only [Abs.apply, List.mem_append, List.mem_singleton] at hx
    rcases hx with hx | hx
    · have := h x hx; simp only [Abs.apply]; omega
    · subst hx; simp [Abs.apply]
  | unsubscribeRequest t i =>
    intro x hx
    simp only [Abs.apply, List.mem_filter] at hx
    exact h x hx.1
  | publishRequestBroadcast _ _ _ _ => exact h
  | localPublishRequest _ _ => exact h
  | statusChanged _ _ => exact h
  | other => exact h

theorem on_subscribe (a : Abs) (t t' : Topic) (r : Ref) :
    (a.apply (.subscribeRequest t r)).on t' =
      if t' = t then a.on t ++ [{ topic := t, id := a.count + 1, subscriber := r }] else a.on t' := by
  simp only [Abs.on, Abs.apply, List.filter_append]
  by_cases h : t' = t
  · subst h; simp
  · have : ¬ t = t' := fun e => h e.symm
    simp [h, this]

theorem on_unsubscribe (a : Abs) (t t' : Topic) (i : Nat) :
    (a.apply (.unsubscribeRequest t i)).on t' =
      if t' = t then (a.on t).filter (fun x => x.id != i) else a.on t' := by
  simp only [Abs.on, Abs.apply, List.filter_filter]
  by_cases h : t' = t
  · subst h
    simp only [if_true]
    apply List.filter_congr
    intro x _
    grind
  · simp only [h, if_false]
    apply List.filter_congr
    intro x _
    grind

theorem on_ids_le {a : Abs} (h : AbsWF a) (t : Topic) : ∀ x ∈ a.on t, x.id ≤ a.count := by
  intro x hx
  simp only [Abs.on, List.mem_filter] at hx
  exact h x hx.1

theorem filter_fresh {l : List Subscription} {g : Nat} (h : ∀ x ∈ l, x.id ≤ g) :
    l.filter (fun x => x.id != g + 1) = l := by
  apply List.filter_eq_self.mpr
  intro x hx
  have := h x hx
  simp only [bne_iff_ne, ne_eq]
  omega

theorem refines_step {s : SubActor} {a : Abs} (hr : Refines s a) (hw : AbsWF a) (e : Envelope) :
    Refines (s.step e).1 (a.apply e.msg) := by
  obtain ⟨hc, hl⟩ := hr
  cases hm : e.msg with
  | subscribeRequest t r =>
    simp only [SubActor.step, hm, onSubscribeRequest]
    refine ⟨by simp [Abs.apply, hc], ?_⟩
    intro t'
    rw [on_subscribe]
    by_cases h : t' = t
    · subst h
      have hfresh : (s.lookup t').filter (fun x => x.id != s.guid + 1) = s.lookup t' := by
        apply filter_fresh
        rw [hl, ← hc]
        exact on_ids_le hw t'
      simp only [SubActor.lookup, if_true]
      have hmem : t' ∈ (if t' ∈ s.topics then s.topics else s.topics ++ [t']) := by
        by_cases ht : t' ∈ s.topics <;> simp [ht]
      simp only [hmem, if_true]
      have := hfresh
      simp only [SubActor.lookup] at this
      rw [this, ← hl t', hc]
      simp [SubActor.lookup]
    · simp only [h, if_false]
      rw [← hl t']
      simp only [SubActor.lookup, h, if_false]
      by_cases ht : t ∈ s.topics
      · simp [ht]
      · have : ¬ t' = t := h
        simp [ht, List.mem_append, this]
  | unsubscribeRequest t i =>
    simp only [SubActor.step, hm, onUnsubscribeRequest]
    by_cases ht : t ∈ s.topics
    · simp only [ht, if_true]
      refine ⟨by simp [Abs.apply, hc], ?_⟩
      intro t'
      rw [on_unsubscribe]
      by_cases h : t' = t
      · subst h
        simp only [if_true, SubActor.lookup, ht]
        rw [← hl t']
        simp [SubActor.lookup, ht]
      · simp only [h, if_false]
        rw [← hl t']
        simp [SubActor.lookup, h]
    · simp only [ht, if_false]
      refine ⟨by simp [Abs.apply, hc], ?_⟩
      intro t'
      rw [on_unsubscribe]
      by_cases h : t' = t
      · subst h
        have : a.on t' = [] := by rw [← hl t']; simp [SubActor.lookup, ht]
        simp [this, hl t']
      · simp [h, hl t']
  | publishRequestBroadcast t p pub d =>
    simp only [SubActor.step, hm, onPublishRequestBroadcast]
    by_cases hd : d = true <;> simp [hd, Abs.apply, Refines, hc, hl]
  | localPublishRequest t p =>
    simp only [SubActor.step, hm, onLocalPublishRequest]
    exact ⟨hc, hl⟩
  | statusChanged ad c =>
    simp only [SubActor.step, hm, onStatusChanged]
    by_cases hself : ad = s.self
    · simp only [hself, if_true]; exact ⟨hc, fun t => by simpa [SubActor.lookup, Abs.apply] using hl t⟩
    · simp only [hself, if_false]
      by_cases hcl : c = true
      · simp only [hcl, if_true]; exact ⟨hc, fun t => by simpa [SubActor.lookup, Abs.apply] using hl t⟩
      · simp only [hcl]; exact ⟨hc, fun t => by simpa [SubActor.lookup, Abs.apply] using hl t⟩
  | other =>
    simp only [SubActor.step, hm]
    exact ⟨hc, hl⟩

theorem run_append (s : SubActor) (h1 h2 : List Envelope) :
    SubActor.run s (h1 ++ h2) =
      ((SubActor.run (SubActor.run s h1).1 h2).1, (SubActor.run s h1).2 ++ (SubActor.run (SubActor.run s h1).1 h2).2) := by
  induction h1 generalizing s with
  | nil => simp [SubActor.run]
  | cons e es ih => simp [SubActor.run, ih]

theorem after_append (h : List Envelope) (e : Envelope) :
    Abs.after (h ++ [e]) = (Abs.after h).apply e.msg := by
  simp [Abs.after, List.foldl_append]

theorem absWF_after (h : List Envelope) : AbsWF (Abs.after h) := by
  induction h using snoc_induction with
  | nil => exact absWF_init
  | snoc h e ih => rw [after_append]; exact absWF_apply ih _

theorem refines_run (self : Nat) (h : List Envelope) : Refines (SubActor.run (SubActor.init self) h).1 (Abs.after h) := by
  induction h using snoc_induction with
  | nil => exact refines_init self
  | snoc h e ih =>
    rw [after_append, run_append]
    simp only [SubActor.run]
    exact refines_step ih (absWF_after h) e

theorem count_after (h : List Envelope) : (Abs.after h).count = (h.filter isSubscribe).length := by
  induction h using snoc_induction with
  | nil => rfl
  | snoc h e ih =>
    rw [after_append, List.filter_append, List.length_append, ← ih]
    cases hm : e.msg <;> simp [Abs.apply, isSubscribe, hm]

end MV.Lemmas.PubSub
