import MV.Lemmas.Leaderboard
/-!
# The leaderboard model refines the abstract board (one step)

`RInv r`: the board is `Good` (ordered, duplicate-free, within the cap) and the `competitors` map
holds exactly the listed `(id, score)` pairs.  Under `RInv` every public method of the model
(i) keeps `RInv`, (ii) changes the rank list exactly as the abstract board does, (iii) answers what
the abstract board answers, and (iv) never runs out of fuel / panics.
-/
namespace MV.Model.Ranking
open MV.Model MV.Spec.Leaderboard

def board (r : Ranking) : Board := ⟨r.asc, r.cap, r.scores⟩

/-- the `competitors` map holds exactly the listed pairs -/
def MapOK (r : Ranking) : Prop :=
  (FMap.keyList r.comp).Nodup ∧ ∀ id, r.comp.get id = scoreOf r.scores id

def RInv (r : Ranking) : Prop := Good (board r) ∧ MapOK r

theorem RInv.sorted {r : Ranking} (h : RInv r) : Sorted r.asc r.scores := h.1.1
theorem RInv.nodup {r : Ranking} (h : RInv r) : NodupIds r.scores := h.1.2.1
theorem RInv.capped {r : Ranking} (h : RInv r) : r.cap > 0 → (r.scores.length : Int) ≤ r.cap := h.1.2.2
theorem RInv.keys {r : Ranking} (h : RInv r) : (FMap.keyList r.comp).Nodup := h.2.1
theorem RInv.get {r : Ranking} (h : RInv r) (id : Int) : r.comp.get id = scoreOf r.scores id := h.2.2 id

theorem rinv_new (asc : Bool) (c : Option Int) : RInv (Ranking.new asc c) := by
  refine ⟨⟨List.Pairwise.nil, List.nodup_nil, ?_⟩, List.nodup_nil, fun _ => rfl⟩
  intro _; unfold board Ranking.new; simp only [List.length_nil]
  cases c with
  | none => decide
  | some k => simp only; split <;> omega

theorem size_eq_length (r : Ranking) (h : RInv r) : r.comp.size = r.scores.length :=
  FMap.length_eq_of_get_eq r.comp r.scores h.keys h.nodup h.get

/-! ## `GetRank` -/

theorem getRank_ok (r : Ranking) (h : RInv r) (p : Nat) (hp : p < r.scores.length) :
    r.getRank r.scores[p].1 = .ok p := by
  unfold getRank
  have hs := scoreOf_of_idx h.nodup p hp
  rw [h.get, hs]
  exact rankLoop_ok h.sorted h.nodup _ _ p hp rfl _ 0 _ (Nat.zero_le _) hp (Nat.le_refl _) (by omega)

theorem getRank_absent (r : Ranking) (id : Int) (h : r.comp.get id = none) : r.getRank id = .errNotExist := by
  unfold getRank; rw [h]

/-! ## `competitor` after the search: insert (and evict) -/

/-- the state `place` must produce: insert at `low`, then drop the last entry if the cap is exceeded -/
def inserted (r : Ranking) (id s : Int) (low : Nat) : Ranking :=
  let l2 := insertAt r.scores low (id, s)
  let c1 := r.comp.set id s
  if r.cap > 0 ∧ (l2.length : Int) > r.cap then
    { r with scores := l2.dropLast, comp := c1.del (l2.getD (l2.length - 1) (0, 0)).1 }
  else { r with scores := l2, comp := c1 }

theorem place_fst (r : Ranking) (id o orank s : Int) (low : Nat) (hlow : low ≤ r.scores.length)
    (hok : low = r.scores.length → ¬ (r.cap > 0 ∧ (r.scores.length : Int) ≥ r.cap)) :
    (place r id o orank s low).1 = inserted r id s low := by
  unfold place inserted
  dsimp only
  by_cases hl : low = r.scores.length
  · have hn := hok hl
    simp only [hl, if_true, hn, if_false, insertAt_length_eq_append]
    have : ¬ (r.cap > 0 ∧ ((r.scores ++ [(id, s)]).length : Int) > r.cap) := by
      simp only [List.length_append, List.length_cons, List.length_nil]; omega
    simp only [this, if_false]
  · simp only [hl, if_false]
    have hlen : (insertAt r.scores low (id, s)).length = r.scores.length + 1 := length_insertAt _ _ _ hlow
    have e : r.scores.take low ++ (id, s) :: r.scores.drop low = insertAt r.scores low (id, s) := rfl
    rw [e]
    by_cases hc : r.cap ≤ 0 ∨ ((insertAt r.scores low (id, s)).length : Int) ≤ r.cap
    · have : ¬ (r.cap > 0 ∧ ((insertAt r.scores low (id, s)).length : Int) > r.cap) := by omega
      rw [if_pos hc, if_neg this]
    · have : r.cap > 0 ∧ ((insertAt r.scores low (id, s)).length : Int) > r.cap := by omega
      rw [if_neg hc, if_pos this]
      have hlt : (insertAt r.scores low (id, s)).length - 1 < (insertAt r.scores low (id, s)).length := by omega
      rw [List.getElem?_eq_getElem hlt]
      simp only [List.dropLast_eq_take, List.getD_eq_getElem?_getD, List.getElem?_eq_getElem hlt,
        Option.getD_some]

theorem inserted_asc_cap (r : Ranking) (id s : Int) (low : Nat) :
    (inserted r id s low).asc = r.asc ∧ (inserted r id s low).cap = r.cap := by
  unfold inserted; dsimp only; split <;> exact ⟨rfl, rfl⟩

theorem inserted_scores (r : Ranking) (id s : Int) (low : Nat) :
    (inserted r id s low).scores =
      (let l2 := insertAt r.scores low (id, s)
       if r.cap > 0 ∧ (l2.length : Int) > r.cap then l2.dropLast else l2) := by
  unfold inserted; dsimp only; split <;> rfl

/-- inserting an absent competitor at the insertion point keeps the invariant -/
theorem rinv_inserted (r : Ranking) (h : RInv r) (id s : Int) (habs : scoreOf r.scores id = none) :
    RInv (inserted r id s (pos r.asc r.scores s)) := by
  have hpos := pos_isPos h.sorted s
  have hS : Sorted r.asc (insertAt r.scores (pos r.asc r.scores s) (id, s)) := sorted_insertAt h.sorted id s _ hpos
  have hN : NodupIds (insertAt r.scores (pos r.asc r.scores s) (id, s)) := nodupIds_insertAt h.nodup id s _ habs
  have hL := length_insertAt r.scores (pos r.asc r.scores s) (id, s) hpos.1
  have hget1 : ∀ id', (r.comp.set id s).get id' = scoreOf (insertAt r.scores (pos r.asc r.scores s) (id, s)) id' := by
    intro id'
    rw [FMap.get_set, scoreOf_insertAt _ _ _ _ habs, h.get]
  unfold inserted
  dsimp only
  by_cases hc : r.cap > 0 ∧ ((insertAt r.scores (pos r.asc r.scores s) (id, s)).length : Int) > r.cap
  · simp only [hc, if_true]
    have hpos' : 0 < (insertAt r.scores (pos r.asc r.scores s) (id, s)).length := by omega
    have hlt : (insertAt r.scores (pos r.asc r.scores s) (id, s)).length - 1 <
        (insertAt r.scores (pos r.asc r.scores s) (id, s)).length := by omega
    have hd := dropLast_eq_eraseId hN hpos'
    refine ⟨⟨sorted_sublist (List.dropLast_sublist _) hS, nodupIds_sublist (List.dropLast_sublist _) hN, ?_⟩,
      FMap.nodup_del _ _ (FMap.nodup_set _ _ _ h.keys), ?_⟩
    · intro _
      show (((insertAt r.scores (pos r.asc r.scores s) (id, s)).dropLast).length : Int) ≤ r.cap
      have := h.capped hc.1
      simp only [List.length_dropLast, hL]
      show ((r.scores.length + 1 - 1 : Nat) : Int) ≤ r.cap
      have e : r.scores.length + 1 - 1 = r.scores.length := by omega
      rw [e]; exact this
    · intro id'
      show FMap.get (FMap.del _ _) id' = scoreOf (List.dropLast _) id'
      rw [hd, scoreOf_eraseId, FMap.get_del, hget1]
      simp only [List.getD_eq_getElem?_getD, List.getElem?_eq_getElem hlt, Option.getD_some]
  · simp only [hc, if_false]
    refine ⟨⟨hS, hN, ?_⟩, FMap.nodup_set _ _ _ h.keys, hget1⟩
    intro hcap
    show ((insertAt r.scores (pos r.asc r.scores s) (id, s)).length : Int) ≤ r.cap
    have : r.cap > 0 := hcap
    omega

theorem competitorIn_ok (r : Ranking) (hs : Sorted r.asc r.scores) (id o orank s : Int) (lo hi : Nat)
    (hlh : lo ≤ hi) (hhi : hi ≤ r.scores.length)
    (hbefore : ∀ i (h : i < r.scores.length), i < lo → key r.asc r.scores[i].2 ≥ key r.asc s)
    (hafter : ∀ i (h : i < r.scores.length), hi ≤ i → key r.asc r.scores[i].2 < key r.asc s) :
    competitorIn r id o orank s lo hi =
      .done (place r id o orank s (pos r.asc r.scores s)).1 (place r id o orank s (pos r.asc r.scores s)).2 := by
  unfold competitorIn
  obtain ⟨p, hp1, hp2, _, _⟩ := insLoop_ok hs s (r.scores.length + 1) lo hi hlh hhi (by omega) hbefore hafter
  rw [hp1, IsPos.unique hp2 (pos_isPos hs s)]

/-! ## the cap test -/

theorem blocked_eq_refuses (r : Ranking) (s : Int) : r.blocked s = refuses (board r) s := by
  unfold blocked refuses board
  dsimp only
  rw [List.getLast?_eq_getElem?]
  by_cases hfull : r.cap > 0 ∧ (r.scores.length : Int) ≥ r.cap
  · have hlt : r.scores.length - 1 < r.scores.length := by omega
    rw [if_pos hfull, List.getElem?_eq_getElem hlt]
    have : decide (r.cap > 0 ∧ (r.scores.length : Int) ≥ r.cap) = true := by simp [hfull]
    rw [this]
    dsimp only
    by_cases hc : rcmp r.asc s (r.scores[r.scores.length - 1]).2 ≤ 0
    · have : ¬ rcmp r.asc s (r.scores[r.scores.length - 1]).2 > 0 := by omega
      simp [hc, this]
    · have : rcmp r.asc s (r.scores[r.scores.length - 1]).2 > 0 := by omega
      simp [hc, this]
  · rw [if_neg hfull]
    have : decide (r.cap > 0 ∧ (r.scores.length : Int) ≥ r.cap) = false := by simp [hfull]
    rw [this]; rfl

/-- a newcomer that passed the cap test is never dropped by the `low == count` branch -/
theorem not_blocked_place (r : Ranking) (h : RInv r) (s : Int) (hb : ¬ r.blocked s = true) :
    pos r.asc r.scores s = r.scores.length → ¬ (r.cap > 0 ∧ (r.scores.length : Int) ≥ r.cap) := by
  intro hposeq hfull
  apply hb
  unfold blocked
  have hlt : r.scores.length - 1 < r.scores.length := by omega
  rw [if_pos hfull, List.getElem?_eq_getElem hlt]
  dsimp only
  have hp := pos_isPos h.sorted s
  have := hp.2.1 (r.scores.length - 1) hlt (by omega)
  have : rcmp r.asc s (r.scores[r.scores.length - 1]).2 ≤ 0 := (rcmp_nonpos _ _ _).mpr (by omega)
  simp [this]

/-! ## `Competitor` -/

/-- the rank list after `Competitor(id, s)`, as the abstract board computes it -/
theorem competitor_refines (r : Ranking) (h : RInv r) (id s : Int) :
    ∃ r' es, r.competitor id s = .done r' es ∧ RInv r' ∧ board r' = submit (board r) id s := by
  unfold competitor submit
  have hget := h.get id
  cases hv : scoreOf r.scores id with
  | some v =>
    have hv' : scoreOf (board r).l id = some v := hv
    rw [hget, hv, hv']
    dsimp only
    by_cases he : v = s
    · have : rcmp r.asc v s = 0 := (rcmp_eq_zero _ _ _).mpr he
      rw [if_pos this, if_pos he]
      exact ⟨r, [], rfl, h, rfl⟩
    · have hne : ¬ rcmp r.asc v s = 0 := fun hh => he ((rcmp_eq_zero _ _ _).mp hh)
      rw [if_neg hne, if_neg he]
      obtain ⟨p, hp, hpe⟩ := exists_idx_of_scoreOf hv
      have hid : r.scores[p].1 = id := by rw [hpe]
      have hsc : r.scores[p].2 = v := by rw [hpe]
      have hrank := getRank_ok r h p hp
      rw [hid] at hrank
      rw [hrank]
      dsimp only
      -- the board without the competitor
      have herase : r.scores.eraseIdx p = eraseId r.scores id := by
        rw [eraseIdx_eq_eraseId h.nodup p hp, hid]
      have hlen1 : (r.scores.eraseIdx p).length = r.scores.length - 1 := by
        rw [List.length_eraseIdx]; simp [hp]
      let r1 : Ranking := { r with scores := r.scores.eraseIdx p, comp := r.comp.del id }
      have hr1 : RInv r1 := by
        refine ⟨?_, FMap.nodup_del _ _ h.keys, ?_⟩
        · have := good_remove (board r) h.1 id
          show Good ⟨r.asc, r.cap, r.scores.eraseIdx p⟩
          rw [herase]; exact this
        · intro id'
          show FMap.get (FMap.del r.comp id) id' = scoreOf (r.scores.eraseIdx p) id'
          rw [herase, scoreOf_eraseId, FMap.get_del, h.get]
      have habs1 : scoreOf r1.scores id = none := by
        show scoreOf (r.scores.eraseIdx p) id = none
        rw [herase, scoreOf_eraseId]; simp
      have hget1 : ∀ i (hi : i < (r.scores.eraseIdx p).length),
          (r.scores.eraseIdx p)[i] = if i < p then r.scores[i]'(by omega) else r.scores[i + 1]'(by omega) := by
        intro i hi
        rw [List.getElem_eraseIdx]
        split <;> rfl
      have hcapfree : ¬ (r1.cap > 0 ∧ (r1.scores.length : Int) ≥ r1.cap) := by
        intro ⟨hc, hge⟩
        have := h.capped hc
        have e1 : r1.scores.length = r.scores.length - 1 := hlen1
        have e2 : r1.cap = r.cap := rfl
        have : (r.scores.length : Int) ≤ r.cap := this
        rw [e1, e2] at hge
        omega
      have hposle : pos r1.asc r1.scores s ≤ r1.scores.length := (pos_isPos hr1.sorted s).1
      have hplace : ∀ orank, (place r1 id v orank s (pos r1.asc r1.scores s)).1 =
          inserted r1 id s (pos r1.asc r1.scores s) :=
        fun orank => place_fst r1 id v orank s _ hposle (fun _ => hcapfree)
      have hins := rinv_inserted r1 hr1 id s habs1
      have hboard : board (inserted r1 id s (pos r1.asc r1.scores s)) =
          { board r with l := insertAt (eraseId (board r).l id) (pos (board r).asc (eraseId (board r).l id) s) (id, s) } := by
        have hsc' := inserted_scores r1 id s (pos r1.asc r1.scores s)
        have hac := inserted_asc_cap r1 id s (pos r1.asc r1.scores s)
        have hnot : ¬ (r1.cap > 0 ∧ ((insertAt r1.scores (pos r1.asc r1.scores s) (id, s)).length : Int) > r1.cap) := by
          rw [length_insertAt _ _ _ hposle]
          intro ⟨hc, hgt⟩
          apply hcapfree
          refine ⟨hc, ?_⟩
          have : ((r1.scores.length + 1 : Nat) : Int) > r1.cap := hgt
          have h2 := h.capped hc
          have e1 : r1.scores.length = r.scores.length - 1 := hlen1
          have : (r.scores.length : Int) ≤ r.cap := h2
          have e2 : r1.cap = r.cap := rfl
          have hp' : 0 < r.scores.length := by omega
          omega
        dsimp only at hsc'
        rw [if_neg hnot] at hsc'
        unfold board
        rw [hsc', hac.1, hac.2]
        show Board.mk r.asc r.cap (insertAt (r.scores.eraseIdx p) (pos r.asc (r.scores.eraseIdx p) s) (id, s)) = _
        rw [herase]
      by_cases himp : rcmp r.asc s v > 0
      · simp only [himp, if_true]
        have hk := (rcmp_pos _ _ _).mp himp
        have := competitorIn_ok r1 hr1.sorted id v p s 0 p (Nat.zero_le _) (by
            show p ≤ (r.scores.eraseIdx p).length; omega)
          (fun i _ hi0 => absurd hi0 (by omega))
          (by
            intro i hi hpi
            show key r.asc ((r.scores.eraseIdx p)[i]'hi).2 < key r.asc s
            rw [hget1 i hi]
            have : ¬ i < p := by omega
            simp only [this, if_false]
            have := sorted_idx_le h.sorted p (i + 1) (by omega) (by have : i < (r.scores.eraseIdx p).length := hi; omega)
            rw [hsc] at this
            omega)
        rw [this]
        exact ⟨_, _, rfl, by rw [hplace]; exact hins, by rw [hplace]; exact hboard⟩
      · simp only [himp, if_false]
        have hk : key r.asc s < key r.asc v := by
          have h1 : ¬ key r.asc s > key r.asc v := fun hh => himp ((rcmp_pos _ _ _).mpr hh)
          have h2 : ¬ key r.asc s = key r.asc v := fun hh => he ((key_inj _ _ _).mp hh).symm
          omega
        have := competitorIn_ok r1 hr1.sorted id v p s p r1.scores.length (by
            show p ≤ (r.scores.eraseIdx p).length; omega) (Nat.le_refl _)
          (by
            intro i hi hip
            show key r.asc ((r.scores.eraseIdx p)[i]'hi).2 ≥ key r.asc s
            rw [hget1 i hi]
            simp only [hip, if_true]
            have := sorted_idx_le h.sorted i p (by omega) hp
            rw [hsc] at this
            omega)
          (fun i hi hle => absurd hi (by omega))
        rw [this]
        exact ⟨_, _, rfl, by rw [hplace]; exact hins, by rw [hplace]; exact hboard⟩
  | none =>
    have hv' : scoreOf (board r).l id = none := hv
    rw [hget, hv, hv']
    dsimp only
    have hbr : r.blocked s = refuses (board r) s := blocked_eq_refuses r s
    by_cases hb : r.blocked s = true
    · have hb' : refuses (board r) s = true := by rw [← hbr]; exact hb
      rw [if_pos hb, if_pos hb']
      exact ⟨r, [], rfl, h, rfl⟩
    · have hb' : ¬ refuses (board r) s = true := by rw [← hbr]; exact hb
      rw [if_neg hb, if_neg hb']
      have hci := competitorIn_ok r h.sorted id 0 (-1) s 0 r.scores.length (Nat.zero_le _) (Nat.le_refl _)
        (fun i _ hi0 => absurd hi0 (by omega)) (fun i hi hle => absurd hi (by omega))
      rw [hci]
      have hpl := place_fst r id 0 (-1) s _ (pos_isPos h.sorted s).1 (not_blocked_place r h s hb)
      refine ⟨_, _, rfl, by rw [hpl]; exact rinv_inserted r h id s hv, ?_⟩
      rw [hpl]
      have hac := inserted_asc_cap r id s (pos r.asc r.scores s)
      unfold board
      rw [inserted_scores, hac.1, hac.2]

/-! ## `RemoveCompetitor` -/

theorem remove_refines (r : Ranking) (h : RInv r) (id : Int) :
    ∃ r' es, r.remove id = .done r' es ∧ RInv r' ∧ board r' = { board r with l := eraseId (board r).l id } := by
  unfold remove
  have hget := h.get id
  cases hv : scoreOf r.scores id with
  | none =>
    rw [hget, hv]
    simp only [Option.isNone_none, if_true]
    refine ⟨r, [], rfl, h, ?_⟩
    show board r = { board r with l := eraseId r.scores id }
    rw [eraseId_of_absent _ _ hv]; rfl
  | some v =>
    rw [hget, hv]
    simp only [Option.isNone_some, Bool.false_eq_true, if_false]
    obtain ⟨p, hp, hpe⟩ := exists_idx_of_scoreOf hv
    have hid : r.scores[p].1 = id := by rw [hpe]
    have hrank := getRank_ok r h p hp
    rw [hid] at hrank
    rw [hrank]
    dsimp only
    rw [List.getElem?_eq_getElem hp]
    dsimp only
    have herase : r.scores.eraseIdx p = eraseId r.scores id := by
      rw [eraseIdx_eq_eraseId h.nodup p hp, hid]
    refine ⟨_, _, rfl, ⟨?_, FMap.nodup_del _ _ h.keys, ?_⟩, ?_⟩
    · have := good_remove (board r) h.1 id
      show Good ⟨r.asc, r.cap, r.scores.eraseIdx p⟩
      rw [herase]; exact this
    · intro id'
      show FMap.get (FMap.del r.comp id) id' = scoreOf (r.scores.eraseIdx p) id'
      rw [herase, scoreOf_eraseId, FMap.get_del, h.get]
    · show Board.mk r.asc r.cap (r.scores.eraseIdx p) = _
      rw [herase]; rfl

end MV.Model.Ranking
