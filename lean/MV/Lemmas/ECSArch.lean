import MV.Model.ECS
import MV.Lemmas.ECSList
import MV.Lemmas.ECSMask
/-!
# The archetype table and the `mutation` walk (C14)

`ArchOK w`: the `masks` index, every `addEdges` entry and every cache entry point to an archetype
with exactly that mask; masks are canonical; an archetype's storage has exactly its mask's columns.
`archGet w ids` then returns an archetype whose mask is the set of `ids`, and only *extends* the
world (`Ext`): existing archetypes keep mask, members and storage, new ones are empty.
-/
namespace MV.Lemmas.ECSArch
open MV.Model.ECS MV.Model.ECSMask MV.Lemmas.ECSList MV.Lemmas.ECSMask

abbrev a0 : Arch := Arch.new []

theorem art_eq (w : World) (i : Nat) : w.art i = nth a0 w.arts i := rfl

structure ArchOK (w : World) : Prop where
  pos : 0 < w.arts.length
  root : (w.art 0).mask = []
  masks_some : ∀ m i, w.masks m = some i → i < w.arts.length ∧ (w.art i).mask = m
  edges : ∀ j m i, j < w.arts.length → (w.art j).addEdges m = some i →
    i < w.arts.length ∧ (w.art i).mask = m
  cache : ∀ ids i, w.cache ids = some i → i < w.arts.length ∧ (w.art i).mask = setAll [] ids
  sorted : ∀ j, j < w.arts.length → Sorted (w.art j).mask
  cols : ∀ j, j < w.arts.length → (w.art j).store.cols = (w.art j).mask
  built : ∀ j, j < w.arts.length → ∃ ids, (w.art j).mask = setAll [] ids

/-- `w'` extends `w`: same slots/index/components, old archetypes keep mask, members and storage,
new archetypes are empty -/
structure Ext (w w' : World) : Prop where
  ncomp : w'.ncomp = w.ncomp
  slots : w'.slots = w.slots
  index : w'.index = w.index
  len : w.arts.length ≤ w'.arts.length
  old : ∀ j, j < w.arts.length → (w'.art j).mask = (w.art j).mask ∧
    (w'.art j).members = (w.art j).members ∧ (w'.art j).store = (w.art j).store
  fresh : ∀ j, w.arts.length ≤ j → j < w'.arts.length →
    (w'.art j).members = [] ∧ (w'.art j).store = Store.new (w'.art j).mask

theorem Ext.refl (w : World) : Ext w w :=
  ⟨rfl, rfl, rfl, Nat.le_refl _, fun _ _ => ⟨rfl, rfl, rfl⟩, fun j h1 h2 => by omega⟩

theorem Ext.trans {w1 w2 w3 : World} (a : Ext w1 w2) (b : Ext w2 w3) : Ext w1 w3 := by
  refine ⟨by rw [b.ncomp, a.ncomp], by rw [b.slots, a.slots], by rw [b.index, a.index],
    Nat.le_trans a.len b.len, ?_, ?_⟩
  · intro j hj
    have h1 := a.old j hj
    have h2 := b.old j (Nat.lt_of_lt_of_le hj a.len)
    exact ⟨by rw [h2.1, h1.1], by rw [h2.2.1, h1.2.1], by rw [h2.2.2, h1.2.2]⟩
  · intro j h1 h2
    by_cases hj : j < w2.arts.length
    · have h3 := b.old j hj
      have h4 := a.fresh j h1 hj
      exact ⟨by rw [h3.2.1, h4.1], by rw [h3.2.2, h4.2, h3.1]⟩
    · exact b.fresh j (by omega) h2

theorem new_ok : ArchOK World.new := by
  constructor
  · simp [World.new]
  · rfl
  · intro m i h
    simp only [World.new, upd] at h
    by_cases e : m = []
    · subst e; simp at h; subst h; exact ⟨by simp [World.new], rfl⟩
    · simp [e] at h
  · intro j m i hj h
    simp only [World.new, List.length_singleton] at hj
    have : j = 0 := by omega
    subst this
    simp [World.new, World.art, Arch.new] at h
  · intro ids i h; simp [World.new] at h
  · intro j hj
    simp only [World.new, List.length_singleton] at hj
    have : j = 0 := by omega
    subst this
    exact sorted_nil
  · intro j hj
    simp only [World.new, List.length_singleton] at hj
    have : j = 0 := by omega
    subst this
    rfl
  · intro j hj
    simp only [World.new, List.length_singleton] at hj
    have : j = 0 := by omega
    subst this
    exact ⟨[], rfl⟩

/-- recording an edge to an existing archetype with the right mask -/
theorem setEdge_ok (w : World) (curr next : Nat) (m : Mask) (h : ArchOK w) (hc : curr < w.arts.length)
    (hn : next < w.arts.length) (hm : (w.art next).mask = m) :
    let c := w.art curr
    let w' := w.setArt curr { c with addEdges := upd c.addEdges m (some next) }
    ArchOK w' ∧ Ext w w' ∧ w'.cache = w.cache := by
  intro c w'
  have hlen : w'.arts.length = w.arts.length := by simp [w', World.setArt]
  have hart : ∀ j, (w'.art j).mask = (w.art j).mask ∧ (w'.art j).members = (w.art j).members ∧
      (w'.art j).store = (w.art j).store ∧
      (w'.art j).addEdges = if curr = j then upd c.addEdges m (some next) else (w.art j).addEdges := by
    intro j
    simp only [w', World.setArt, art_eq, nth_set]
    by_cases e : curr = j
    · subst e; simp [hc, c, art_eq]
    · simp [e]
  refine ⟨?_, ?_, rfl⟩
  · constructor
    · rw [hlen]; exact h.pos
    · rw [(hart 0).1]; exact h.root
    · intro m' i hi
      rw [hlen, (hart i).1]
      exact h.masks_some m' i hi
    · intro j m' i hj he
      rw [hlen] at hj ⊢
      rw [(hart i).1]
      rw [(hart j).2.2.2] at he
      by_cases e : curr = j
      · simp only [e, if_true, upd] at he
        by_cases e2 : m' = m
        · simp [e2] at he; subst he; subst e2; exact ⟨hn, hm⟩
        · simp only [e2, if_false] at he
          exact h.edges curr m' i hc he
      · simp only [e, if_false] at he
        exact h.edges j m' i hj he
    · intro ids i hi
      rw [hlen, (hart i).1]
      exact h.cache ids i hi
    · intro j hj
      rw [hlen] at hj
      rw [(hart j).1]; exact h.sorted j hj
    · intro j hj
      rw [hlen] at hj
      rw [(hart j).1, (hart j).2.2.1]; exact h.cols j hj
    · intro j hj
      rw [hlen] at hj
      rw [(hart j).1]; exact h.built j hj
  · refine ⟨rfl, rfl, rfl, by rw [hlen]; exact Nat.le_refl _, ?_, ?_⟩
    · intro j _; exact ⟨(hart j).1, (hart j).2.1, (hart j).2.2.1⟩
    · intro j h1 h2; rw [hlen] at h2; omega

/-- creating the archetype for a mask (`noneLockCreateArchetype`), with the edge from `curr` -/
theorem create_ok (w : World) (curr : Nat) (m : Mask) (h : ArchOK w) (hc : curr < w.arts.length)
    (hs : Sorted m) (hb : ∃ ids, m = setAll [] ids) :
    let c := w.art curr
    let w' : World := { w with
      arts := w.arts.set curr { c with addEdges := upd c.addEdges m (some w.arts.length) } ++ [Arch.new m],
      masks := upd w.masks m (some w.arts.length) }
    ArchOK w' ∧ Ext w w' ∧ w'.cache = w.cache ∧ w.arts.length < w'.arts.length ∧
      (w'.art w.arts.length).mask = m := by
  intro c w'
  have hlen : w'.arts.length = w.arts.length + 1 := by simp [w']
  have hold : ∀ j, j < w.arts.length → (w'.art j).mask = (w.art j).mask ∧
      (w'.art j).members = (w.art j).members ∧ (w'.art j).store = (w.art j).store ∧
      (w'.art j).addEdges = if curr = j then upd c.addEdges m (some w.arts.length) else (w.art j).addEdges := by
    intro j hj
    simp only [w', art_eq]
    rw [nth_append_left a0 _ _ j (by simpa using hj), nth_set]
    by_cases e : curr = j
    · subst e; simp [hc, c, art_eq]
    · simp [e]
  have hnew : w'.art w.arts.length = Arch.new m := by
    simp only [w', art_eq]
    rw [nth_append_ge a0 _ _ _ (by simp)]
    simp [nth]
  have hcases : ∀ j, j < w'.arts.length → j < w.arts.length ∨ j = w.arts.length := by
    intro j hj; rw [hlen] at hj; omega
  refine ⟨?_, ?_, rfl, by omega, by rw [hnew]; rfl⟩
  · constructor
    · omega
    · rw [(hold 0 h.pos).1]; exact h.root
    · intro m' i hi
      simp only [w', upd] at hi
      by_cases e : m' = m
      · simp [e] at hi; subst hi; subst e
        exact ⟨by omega, by rw [hnew]; rfl⟩
      · simp only [e, if_false] at hi
        have := h.masks_some m' i hi
        exact ⟨by omega, by rw [(hold i this.1).1]; exact this.2⟩
    · intro j m' i hj he
      rcases hcases j hj with hj' | hj'
      · rw [(hold j hj').2.2.2] at he
        by_cases e : curr = j
        · simp only [e, if_true, upd] at he
          by_cases e2 : m' = m
          · simp [e2] at he; subst he; subst e2
            exact ⟨by omega, by rw [hnew]; rfl⟩
          · simp only [e2, if_false] at he
            have := h.edges curr m' i hc he
            exact ⟨by omega, by rw [(hold i this.1).1]; exact this.2⟩
        · simp only [e, if_false] at he
          have := h.edges j m' i hj' he
          exact ⟨by omega, by rw [(hold i this.1).1]; exact this.2⟩
      · subst hj'; rw [hnew] at he; simp [Arch.new] at he
    · intro ids i hi
      have := h.cache ids i hi
      exact ⟨by omega, by rw [(hold i this.1).1]; exact this.2⟩
    · intro j hj
      rcases hcases j hj with hj' | hj'
      · rw [(hold j hj').1]; exact h.sorted j hj'
      · subst hj'; rw [hnew]; exact hs
    · intro j hj
      rcases hcases j hj with hj' | hj'
      · rw [(hold j hj').1, (hold j hj').2.2.1]; exact h.cols j hj'
      · subst hj'; rw [hnew]; rfl
    · intro j hj
      rcases hcases j hj with hj' | hj'
      · rw [(hold j hj').1]; exact h.built j hj'
      · subst hj'; rw [hnew]; exact hb
  · refine ⟨rfl, rfl, rfl, by omega, ?_, ?_⟩
    · intro j hj; exact ⟨(hold j hj).1, (hold j hj).2.1, (hold j hj).2.2.1⟩
    · intro j h1 h2
      have : j = w.arts.length := by omega
      subst this; rw [hnew]; exact ⟨rfl, rfl⟩

theorem walk_edge (w : World) (curr next id : Nat) (mask : Mask) (rest : List Nat)
    (h : (w.art curr).addEdges (setBit mask id) = some next) :
    w.walk curr mask (id :: rest) = w.walk next (setBit mask id) rest := by
  simp only [World.walk, h]

theorem walk_mask (w : World) (curr next id : Nat) (mask : Mask) (rest : List Nat)
    (h : (w.art curr).addEdges (setBit mask id) = none) (h2 : w.masks (setBit mask id) = some next) :
    w.walk curr mask (id :: rest) =
      (w.setArt curr { w.art curr with addEdges := upd (w.art curr).addEdges (setBit mask id) (some next) }).walk
        next (setBit mask id) rest := by
  simp only [World.walk, h, h2]

theorem walk_new (w : World) (curr id : Nat) (mask : Mask) (rest : List Nat)
    (h : (w.art curr).addEdges (setBit mask id) = none) (h2 : w.masks (setBit mask id) = none) :
    w.walk curr mask (id :: rest) =
      World.walk { w with
        arts := w.arts.set curr { w.art curr with addEdges := upd (w.art curr).addEdges (setBit mask id) (some w.arts.length) } ++ [Arch.new (setBit mask id)],
        masks := upd w.masks (setBit mask id) (some w.arts.length) } w.arts.length (setBit mask id) rest := by
  simp only [World.walk, h, h2]

/-- the `mutation` walk: ends at an archetype whose mask is `mask` plus `ids` -/
theorem walk_ok (ids : List Nat) : ∀ (w : World) (curr : Nat) (mask : Mask), ArchOK w →
    curr < w.arts.length → (w.art curr).mask = mask →
    ArchOK (w.walk curr mask ids).1 ∧ Ext w (w.walk curr mask ids).1 ∧
      (w.walk curr mask ids).1.cache = w.cache ∧
      (w.walk curr mask ids).2 < (w.walk curr mask ids).1.arts.length ∧
      ((w.walk curr mask ids).1.art (w.walk curr mask ids).2).mask = setAll mask ids := by
  induction ids with
  | nil => intro w curr mask h hc hm; exact ⟨h, Ext.refl w, rfl, hc, hm⟩
  | cons id rest ih =>
    intro w curr mask h hc hm
    have hsm : Sorted (setBit mask id) := sorted_setBit mask id (hm ▸ h.sorted curr hc)
    have hbm : ∃ ids, setBit mask id = setAll [] ids := by
      obtain ⟨ids0, h0⟩ := h.built curr hc
      refine ⟨ids0 ++ [id], ?_⟩
      rw [← hm, h0]
      simp [setAll, List.foldl_append]
    rw [setAll_cons]
    cases he : (w.art curr).addEdges (setBit mask id) with
    | some next =>
      have := h.edges curr _ next hc he
      rw [walk_edge w curr next id mask rest he]
      exact ih w next (setBit mask id) h this.1 this.2
    | none =>
      cases hk : w.masks (setBit mask id) with
      | none =>
        rw [walk_new w curr id mask rest he hk]
        obtain ⟨h1, e1, c1, l1, m1⟩ := create_ok w curr (setBit mask id) h hc hsm hbm
        obtain ⟨h2, e2, c2, l2, m2⟩ := ih _ w.arts.length (setBit mask id) h1 l1 m1
        exact ⟨h2, e1.trans e2, by rw [c2, c1], l2, m2⟩
      | some next =>
        rw [walk_mask w curr next id mask rest he hk]
        have hn := h.masks_some _ next hk
        obtain ⟨h1, e1, c1⟩ := setEdge_ok w curr next (setBit mask id) h hc hn.1 hn.2
        have hlen : (w.setArt curr { w.art curr with addEdges := upd (w.art curr).addEdges (setBit mask id) (some next) }).arts.length = w.arts.length := by
          simp [World.setArt]
        have hm' := (e1.old next hn.1).1
        obtain ⟨h2, e2, c2, l2, m2⟩ := ih _ next (setBit mask id) h1 (by rw [hlen]; exact hn.1) (by rw [hm']; exact hn.2)
        exact ⟨h2, e1.trans e2, by rw [c2, c1], l2, m2⟩

theorem archGet_hit (w : World) (ids : List Nat) (i : Nat) (h : w.cache ids = some i) :
    w.archGet ids = (w, i) := by
  simp only [World.archGet, h]

theorem archGet_miss (w : World) (ids : List Nat) (h : w.cache ids = none) :
    w.archGet ids = ({ (w.walk 0 (w.art 0).mask ids).1 with
        cache := upd (w.walk 0 (w.art 0).mask ids).1.cache ids (some (w.walk 0 (w.art 0).mask ids).2) },
      (w.walk 0 (w.art 0).mask ids).2) := by
  simp only [World.archGet, h]

/-- `archetypes.get(ids...)` -/
theorem archGet_ok (w : World) (ids : List Nat) (h : ArchOK w) :
    ArchOK (w.archGet ids).1 ∧ Ext w (w.archGet ids).1 ∧
      (w.archGet ids).2 < (w.archGet ids).1.arts.length ∧
      ((w.archGet ids).1.art (w.archGet ids).2).mask = setAll [] ids := by
  cases hc : w.cache ids with
  | some i =>
    rw [archGet_hit w ids i hc]
    have := h.cache ids i hc
    exact ⟨h, Ext.refl w, this.1, this.2⟩
  | none =>
    rw [archGet_miss w ids hc]
    obtain ⟨h1, e1, c1, l1, m1⟩ := walk_ok ids w 0 (w.art 0).mask h h.pos rfl
    have m1' : ((w.walk 0 (w.art 0).mask ids).1.art (w.walk 0 (w.art 0).mask ids).2).mask = setAll [] ids := by
      rw [m1, h.root]
    refine ⟨?_, ?_, l1, m1'⟩
    · constructor
      · exact h1.pos
      · exact h1.root
      · exact h1.masks_some
      · exact h1.edges
      · intro ids' i hi
        simp only [upd] at hi
        by_cases e : ids' = ids
        · simp [e] at hi; subst hi; subst e; exact ⟨l1, m1'⟩
        · simp only [e, if_false] at hi; exact h1.cache ids' i hi
      · exact h1.sorted
      · exact h1.cols
      · exact h1.built
    · exact ⟨e1.ncomp, e1.slots, e1.index, e1.len, e1.old, e1.fresh⟩

end MV.Lemmas.ECSArch
