import MV.Model.ECS
import MV.Spec.ECS
import MV.Lemmas.ECSList
import MV.Lemmas.ECSMask
import MV.Lemmas.ECSSlots
import MV.Lemmas.ECSStore
import MV.Lemmas.ECSArch
/-!
# The ECS world refines the entity/component specification (C14) — invariants

`R s t`: the model state `s` (world + handles by name) represents the spec state `t`.
-/
namespace MV.Lemmas.ECS
open MV.Model.ECS MV.Model.ECSMask MV.Lemmas.ECSList MV.Lemmas.ECSMask MV.Lemmas.ECSSlots
  MV.Lemmas.ECSStore MV.Lemmas.ECSArch

theorem h_eq (s : St) (i : Nat) : s.h i = nth z s.hs i := rfl
theorem isLiving_eq (t : MV.Spec.ECS.St) (i : Nat) : t.isLiving i = nth false t.living i := rfl
theorem compsOf_eq (t : MV.Spec.ECS.St) (i : Nat) : t.compsOf i = nth [] t.comps i := rfl

/-- entities ↔ archetypes ↔ storage rows ↔ spec data -/
structure EntOK (w : World) (hs : List Entity) (t : MV.Spec.ECS.St) : Prop where
  store : ∀ a, a < w.arts.length → StoreOK (w.art a).store
  living : ∀ i, i < hs.length → t.isLiving i = true →
    ∃ a r, w.index (nth z hs i) = some a ∧ a < w.arts.length ∧
      (w.art a).mask = setAll [] (t.compsOf i) ∧ (w.art a).store.pk (nth z hs i).id = some r ∧
      ∀ c, (w.art a).store.cells r c = t.data i c
  index_sound : ∀ e a, w.index e = some a → a < w.arts.length ∧ (w.art a).members.count e = 1 ∧
    ∃ i, i < hs.length ∧ nth z hs i = e ∧ t.isLiving i = true
  members : ∀ a, a < w.arts.length → ∀ e, e ∈ (w.art a).members → w.index e = some a
  data0 : ∀ i, hs.length ≤ i → ∀ c, t.data i c = 0

structure R (s : St) (t : MV.Spec.ECS.St) : Prop where
  ncomp : t.ncomp = s.w.ncomp
  clen : t.comps.length = s.hs.length
  slots : SlotRel s.w.slots s.hs t.living
  arch : ArchOK s.w
  ent : EntOK s.w s.hs t

theorem R.n_eq {s : St} {t : MV.Spec.ECS.St} (r : R s t) : t.n = s.hs.length := r.slots.len_eq.symm

theorem new_R : R St.new MV.Spec.ECS.St.new := by
  refine ⟨rfl, rfl, new_rel, new_ok, ?_⟩
  constructor
  · intro a ha
    simp only [St.new, World.new, List.length_singleton] at ha
    have : a = 0 := by omega
    subst this; exact new_ok _
  · intro i hi; simp [St.new] at hi
  · intro e a h; simp [St.new, World.new] at h
  · intro a ha e he
    simp only [St.new, World.new, List.length_singleton] at ha
    have : a = 0 := by omega
    subst this; simp [St.new, World.new, World.art, Arch.new] at he
  · intro i _ c; rfl

/-! ## generic facts -/

/-- living handles have pairwise distinct slot ids -/
theorem living_id_inj (sl : Slots) (hs : List Entity) (lv : List Bool) (h : SlotRel sl hs lv) (i j : Nat)
    (hi : i < hs.length) (hj : j < hs.length) (li : nth false lv i = true) (lj : nth false lv j = true)
    (e : (nth z hs i).id = (nth z hs j).id) : i = j := by
  apply nth_inj z hs h.nodup i j hi hj
  have h1 := (h.liv i hi li).1
  have h2 := (h.liv j hj lj).1
  rw [e] at h1
  cases hx : nth z hs i; cases hy : nth z hs j
  rw [hx] at e h1; rw [hy] at e h1 h2
  simp at e h1 h2 ⊢
  exact ⟨e, by omega⟩

/-- a dead name has no index entry -/
theorem dead_index (s : St) (t : MV.Spec.ECS.St) (r : R s t) (i : Nat) (hi : i < s.hs.length)
    (hd : t.isLiving i = false) : s.w.index (nth z s.hs i) = none := by
  cases hx : s.w.index (nth z s.hs i) with
  | none => rfl
  | some a =>
    obtain ⟨_, _, j, hj, he, hl⟩ := r.ent.index_sound _ a hx
    have := nth_inj z s.hs r.slots.nodup j i hj hi he
    subst this; rw [hd] at hl; simp at hl

/-- `ArchOK` only looks at `arts`, `masks`, `cache` -/
theorem archOK_congr (w w' : World) (h : ArchOK w) (ha : w'.arts = w.arts) (hm : w'.masks = w.masks)
    (hc : w'.cache = w.cache) : ArchOK w' := by
  have hart : ∀ j, w'.art j = w.art j := by intro j; simp only [art_eq, ha]
  constructor
  · rw [ha]; exact h.pos
  · rw [hart]; exact h.root
  · intro m i hi; rw [ha, hart]; rw [hm] at hi; exact h.masks_some m i hi
  · intro j m i hj he; rw [ha] at hj ⊢; rw [hart] at he ⊢; exact h.edges j m i hj he
  · intro ids i hi; rw [ha, hart]; rw [hc] at hi; exact h.cache ids i hi
  · intro j hj; rw [ha] at hj; rw [hart]; exact h.sorted j hj
  · intro j hj; rw [ha] at hj; rw [hart]; exact h.cols j hj
  · intro j hj; rw [ha] at hj; rw [hart]; exact h.built j hj

theorem art_of_set (w w' : World) (a : Nat) (A' : Arch) (ha : w'.arts = w.arts.set a A') (j : Nat) :
    w'.art j = if a = j ∧ a < w.arts.length then A' else w.art j := by
  simp only [art_eq, ha, nth_set]

/-- replacing the data part (members, storage rows) of one archetype keeps `ArchOK` -/
theorem archOK_data (w w' : World) (a : Nat) (A' : Arch) (h : ArchOK w)
    (ha : w'.arts = w.arts.set a A') (hm : w'.masks = w.masks) (hc : w'.cache = w.cache)
    (h1 : A'.mask = (w.art a).mask) (h2 : A'.addEdges = (w.art a).addEdges)
    (h3 : A'.store.cols = (w.art a).store.cols) : ArchOK w' := by
  have hlen : w'.arts.length = w.arts.length := by rw [ha]; simp
  have hart : ∀ j, (w'.art j).mask = (w.art j).mask ∧ (w'.art j).addEdges = (w.art j).addEdges ∧
      (w'.art j).store.cols = (w.art j).store.cols := by
    intro j
    rw [art_of_set w w' a A' ha j]
    by_cases e : a = j ∧ a < w.arts.length
    · obtain ⟨e1, _⟩ := e; subst e1; simp [*]
    · simp [e]
  constructor
  · rw [hlen]; exact h.pos
  · rw [(hart 0).1]; exact h.root
  · intro m i hi; rw [hlen, (hart i).1]; rw [hm] at hi; exact h.masks_some m i hi
  · intro j m i hj he; rw [hlen] at hj ⊢; rw [(hart j).2.1] at he; rw [(hart i).1]; exact h.edges j m i hj he
  · intro ids i hi; rw [hlen, (hart i).1]; rw [hc] at hi; exact h.cache ids i hi
  · intro j hj; rw [hlen] at hj; rw [(hart j).1]; exact h.sorted j hj
  · intro j hj; rw [hlen] at hj; rw [(hart j).1, (hart j).2.2]; exact h.cols j hj
  · intro j hj; rw [hlen] at hj; rw [(hart j).1]; exact h.built j hj

/-- `EntOK` is carried along an extension of the archetype table -/
theorem entOK_ext (w w' : World) (hs : List Entity) (t : MV.Spec.ECS.St) (h : EntOK w hs t) (e : Ext w w') :
    EntOK w' hs t := by
  constructor
  · intro a ha
    by_cases hlt : a < w.arts.length
    · rw [(e.old a hlt).2.2]; exact h.store a hlt
    · rw [(e.fresh a (by omega) ha).2]; exact new_ok _
  · intro i hi hl
    obtain ⟨a, r, h1, h2, h3, h4, h5⟩ := h.living i hi hl
    have ho := e.old a h2
    exact ⟨a, r, by rw [e.index]; exact h1, Nat.lt_of_lt_of_le h2 e.len, by rw [ho.1]; exact h3,
      by rw [ho.2.2]; exact h4, by rw [ho.2.2]; exact h5⟩
  · intro x a hx
    rw [e.index] at hx
    obtain ⟨h1, h2, h3⟩ := h.index_sound x a hx
    exact ⟨Nat.lt_of_lt_of_le h1 e.len, by rw [(e.old a h1).2.1]; exact h2, h3⟩
  · intro a ha x hx
    rw [e.index]
    by_cases hlt : a < w.arts.length
    · rw [(e.old a hlt).2.1] at hx; exact h.members a hlt x hx
    · rw [(e.fresh a (by omega) ha).1] at hx; simp at hx
  · exact h.data0


/-! ## spawn -/

theorem foldl_upd_index (es : List Entity) (a : Nat) : ∀ (f : Entity → Option Nat) (x : Entity),
    (es.foldl (fun f e => upd f e (some a)) f) x = if x ∈ es then some a else f x := by
  induction es with
  | nil => intro f x; simp
  | cons e es ih =>
    intro f x
    simp only [List.foldl_cons, ih, List.mem_cons, upd]
    by_cases h1 : x ∈ es
    · simp [h1]
    · by_cases h2 : x = e
      · simp [h2]
      · simp [h1, h2]

/-- the spec state after spawning `k` entities with components `ids` -/
def tExt (t : MV.Spec.ECS.St) (k : Nat) (ids : List Nat) : MV.Spec.ECS.St :=
  { t with living := t.living ++ List.replicate k true, comps := t.comps ++ List.replicate k ids }

/-- binding freshly allocated handles `es` to archetype `a` (`bind` is the case `es = [e]`) -/
theorem bindMany_ok (w : World) (hs : List Entity) (t : MV.Spec.ECS.St) (sl' : Slots) (a : Nat)
    (es : List Entity) (ids : List Nat) (harch : ArchOK w) (hent : EntOK w hs t)
    (hsl : SlotRel sl' (hs ++ es) (t.living ++ List.replicate es.length true))
    (hlen : hs.length = t.living.length) (hclen : t.comps.length = hs.length)
    (ha : a < w.arts.length) (hm : (w.art a).mask = setAll [] ids) :
    ArchOK (World.bindMany { w with slots := sl' } a es) ∧
      EntOK (World.bindMany { w with slots := sl' } a es) (hs ++ es) (tExt t es.length ids) := by
  -- abbreviations
  let A := w.art a
  let A' : Arch := { A with store := A.store.addRows (es.map (·.id)), members := A.members ++ es }
  let w' := World.bindMany { w with slots := sl' } a es
  have harts : w'.arts = w.arts.set a A' := rfl
  have hidx : ∀ x, w'.index x = if x ∈ es then some a else w.index x := by
    intro x; exact foldl_upd_index es a w.index x
  have hart : ∀ j, w'.art j = if a = j then A' else w.art j := by
    intro j; rw [art_of_set w w' a A' harts j]; simp [ha]
  have hlen' : w'.arts.length = w.arts.length := by rw [harts]; simp
  -- facts about the new handles
  have hnd := hsl.nodup
  rw [List.nodup_append] at hnd
  obtain ⟨_, hesnd, hdisj⟩ := hnd
  have hlivnew : ∀ j, j < es.length → nth false (t.living ++ List.replicate es.length true) (hs.length + j) = true := by
    intro j hj
    rw [nth_append_ge false _ _ _ (by omega)]
    exact nth_replicate false _ _ _ (by omega)
  have hnthnew : ∀ j, j < es.length → nth z (hs ++ es) (hs.length + j) = nth z es j := by
    intro j hj
    rw [nth_append_ge z _ _ _ (by omega)]
    congr 1; omega
  have hlivold : ∀ i, i < hs.length → nth false (t.living ++ List.replicate es.length true) i = nth false t.living i := by
    intro i hi; exact nth_append_left false _ _ i (by omega)
  have hcompsold : ∀ i, i < hs.length → nth [] (t.comps ++ List.replicate es.length ids) i = nth [] t.comps i := by
    intro i hi; exact nth_append_left [] _ _ i (by omega)
  have hnthold : ∀ i, i < hs.length → nth z (hs ++ es) i = nth z hs i := by
    intro i hi; exact nth_append_left z _ _ i hi
  have hks : (es.map (·.id)).Nodup := by
    unfold List.Nodup
    rw [List.pairwise_map, List.pairwise_iff_getElem]
    intro i j hi hj hij e
    have := living_id_inj sl' (hs ++ es) _ hsl (hs.length + i) (hs.length + j) (by simp; omega) (by simp; omega)
      (hlivnew i hi) (hlivnew j hj)
      (by rw [hnthnew i hi, hnthnew j hj, nth_eq_getElem z es i hi, nth_eq_getElem z es j hj]; exact e)
    omega
  have hidold : ∀ i, i < hs.length → nth false t.living i = true → (nth z hs i).id ∉ es.map (·.id) := by
    intro i hi hl hmem
    obtain ⟨x, hx, hxe⟩ := List.mem_map.mp hmem
    obtain ⟨j, hj, hje⟩ := exists_nth_of_mem z es x hx
    have := living_id_inj sl' (hs ++ es) _ hsl i (hs.length + j) (by simp; omega) (by simp; omega)
      (by rw [hlivold i hi]; exact hl) (hlivnew j hj)
      (by rw [hnthold i hi, hnthnew j hj, hje]; exact hxe.symm)
    omega
  obtain ⟨hst, hcols, hcells, hpk, hnewrows⟩ := addRows_spec (es.map (·.id)) A.store (hent.store a ha) hks
  refine ⟨?_, ?_⟩
  · exact archOK_data w w' a A' harch harts rfl rfl rfl rfl hcols
  · constructor
    · intro a' ha'
      rw [hart]
      by_cases e : a = a'
      · simp only [e, if_true]; exact hst
      · simp only [e, if_false]; rw [hlen'] at ha'; exact hent.store a' ha'
    · intro i hi hl
      by_cases hlt : i < hs.length
      · have hl' : t.isLiving i = true := by
          rw [isLiving_eq] at hl ⊢; rw [← hlivold i hlt]; exact hl
        obtain ⟨ai, r, h1, h2, h3, h4, h5⟩ := hent.living i hlt hl'
        have hne : nth z hs i ∉ es := fun hmem => hdisj _ (nth_mem z hs i hlt) _ hmem rfl
        refine ⟨ai, r, ?_, by rw [hlen']; exact h2, ?_, ?_, ?_⟩
        · rw [hnthold i hlt, hidx]; simp [hne, h1]
        · rw [hart, compsOf_eq]
          show _ = setAll [] (nth [] (t.comps ++ List.replicate es.length ids) i)
          rw [hcompsold i hlt]
          by_cases e : a = ai
          · subst e; simp only [if_true]; exact h3
          · simp only [e, if_false]; exact h3
        · rw [hart, hnthold i hlt]
          by_cases e : a = ai
          · subst e; simp only [if_true]
            show (A.store.addRows (es.map (·.id))).pk _ = _
            rw [hpk _ (hidold i hlt hl')]; exact h4
          · simp only [e, if_false]; exact h4
        · intro c
          rw [hart]
          by_cases e : a = ai
          · subst e; simp only [if_true]
            show (A.store.addRows (es.map (·.id))).cells r c = _
            rw [hcells]; exact h5 c
          · simp only [e, if_false]; exact h5 c
      · -- a new handle
        have hi' : i < hs.length + es.length := by simpa using hi
        obtain ⟨j, hj⟩ : ∃ j, i = hs.length + j := ⟨i - hs.length, by omega⟩
        subst hj
        have hjl : j < es.length := by omega
        have hmem : nth z es j ∈ es := nth_mem z es j hjl
        obtain ⟨r, hr, hz⟩ := hnewrows (nth z es j).id (List.mem_map.mpr ⟨_, hmem, rfl⟩)
        refine ⟨a, r, ?_, by rw [hlen']; exact ha, ?_, ?_, ?_⟩
        · rw [hnthnew j hjl, hidx]; simp [hmem]
        · rw [hart, compsOf_eq]
          show _ = setAll [] (nth [] (t.comps ++ List.replicate es.length ids) (hs.length + j))
          rw [nth_append_ge [] _ _ _ (by omega), nth_replicate [] _ _ _ (by omega)]
          simp only [if_true]; exact hm
        · rw [hart, hnthnew j hjl]; simp only [if_true]; exact hr
        · intro c
          rw [hart]; simp only [if_true]
          show (A.store.addRows (es.map (·.id))).cells r c = t.data (hs.length + j) c
          rw [hcells, hz c, hent.data0 _ (by omega) c]
    · intro x a' hx
      rw [hidx] at hx
      by_cases hmem : x ∈ es
      · simp only [hmem, if_true, Option.some.injEq] at hx
        subst hx
        refine ⟨by rw [hlen']; exact ha, ?_, ?_⟩
        · rw [hart]; simp only [if_true]
          show List.count x (A.members ++ es) = 1
          have hnotin : x ∉ A.members := by
            intro hxm
            obtain ⟨_, _, i, hi, he, _⟩ := hent.index_sound x a (hent.members a ha x hxm)
            exact hdisj _ (he ▸ nth_mem z hs i hi) _ hmem rfl
          rw [List.count_append, List.count_eq_zero.mpr hnotin, hesnd.count]
          simp [hmem]
        · obtain ⟨j, hj, hje⟩ := exists_nth_of_mem z es x hmem
          exact ⟨hs.length + j, by simp; omega, by rw [hnthnew j hj]; exact hje,
            by rw [isLiving_eq]; exact hlivnew j hj⟩
      · simp only [hmem, if_false] at hx
        obtain ⟨h1, h2, i, hi, he, hl⟩ := hent.index_sound x a' hx
        refine ⟨by rw [hlen']; exact h1, ?_, i, by simp; omega, by rw [hnthold i hi]; exact he,
          by rw [isLiving_eq] at hl ⊢; show nth false (t.living ++ _) i = true; rw [hlivold i hi]; exact hl⟩
        rw [hart]
        by_cases e : a = a'
        · subst e; simp only [if_true]
          show List.count x (A.members ++ es) = 1
          rw [List.count_append, List.count_eq_zero.mpr hmem]; exact h2
        · simp only [e, if_false]; exact h2
    · intro a' ha' x hx
      rw [hlen'] at ha'
      rw [hart] at hx
      rw [hidx]
      by_cases e : a = a'
      · subst e
        simp only [if_true] at hx
        have hx' : x ∈ A.members ++ es := hx
        by_cases hmem : x ∈ es
        · simp [hmem]
        · simp only [hmem, if_false]
          rcases List.mem_append.mp hx' with h | h
          · exact hent.members a ha x h
          · exact absurd h hmem
      · simp only [e, if_false] at hx
        have hix := hent.members a' ha' x hx
        obtain ⟨_, _, i, hi, he, _⟩ := hent.index_sound x a' hix
        have hmem : x ∉ es := fun hmem => hdisj _ (he ▸ nth_mem z hs i hi) _ hmem rfl
        simp only [hmem, if_false]; exact hix
    · intro i hi c
      exact hent.data0 i (by simp at hi; omega) c


theorem bind_eq_bindMany (w : World) (a : Nat) (e : Entity) : w.bind a e = w.bindMany a [e] := rfl

/-- `Spawns(n, ids...)` -/
theorem spawnN_R (s : St) (t : MV.Spec.ECS.St) (r : R s t) (n : Nat) (ids : List Nat) :
    R { w := (s.w.spawnN n ids).1, hs := s.hs ++ (s.w.spawnN n ids).2 } (tExt t n ids) := by
  obtain ⟨h1, e1, l1, m1⟩ := archGet_ok s.w ids r.arch
  have hsl : SlotRel (s.w.archGet ids).1.slots s.hs t.living := by rw [e1.slots]; exact r.slots
  obtain ⟨hg, hgl⟩ := getMany_rel n _ _ _ hsl
  have hent := entOK_ext _ _ _ _ r.ent e1
  have hb := bindMany_ok (s.w.archGet ids).1 s.hs t ((s.w.archGet ids).1.slots.getMany n).2 (s.w.archGet ids).2
    ((s.w.archGet ids).1.slots.getMany n).1 ids h1 hent (by rw [hgl]; exact hg) r.slots.len_eq r.clen l1 m1
  rw [hgl] at hb
  refine ⟨?_, ?_, ?_, hb.1, hb.2⟩
  · show t.ncomp = (s.w.archGet ids).1.ncomp
    rw [e1.ncomp]; exact r.ncomp
  · show (t.comps ++ List.replicate n ids).length = (s.hs ++ _).length
    simp only [List.length_append, List.length_replicate, r.clen]
    show _ = s.hs.length + ((s.w.archGet ids).1.slots.getMany n).1.length
    rw [hgl]
  · exact hg

/-- `Spawn(ids...)` -/
theorem spawn_R (s : St) (t : MV.Spec.ECS.St) (r : R s t) (ids : List Nat) :
    R { w := (s.w.spawn ids).1, hs := s.hs ++ [(s.w.spawn ids).2] } (tExt t 1 ids) := by
  obtain ⟨h1, e1, l1, m1⟩ := archGet_ok s.w ids r.arch
  have hsl : SlotRel (s.w.archGet ids).1.slots s.hs t.living := by rw [e1.slots]; exact r.slots
  have hg := get_rel _ _ _ hsl
  have hent := entOK_ext _ _ _ _ r.ent e1
  have hb := bindMany_ok (s.w.archGet ids).1 s.hs t (s.w.archGet ids).1.slots.get.2 (s.w.archGet ids).2
    [(s.w.archGet ids).1.slots.get.1] ids h1 hent hg r.slots.len_eq r.clen l1 m1
  refine ⟨?_, ?_, ?_, hb.1, hb.2⟩
  · show t.ncomp = (s.w.archGet ids).1.ncomp
    rw [e1.ncomp]; exact r.ncomp
  · show (t.comps ++ List.replicate 1 ids).length = (s.hs ++ [_]).length
    simp [r.clen]
  · exact hg

/-! ## annihilate -/

theorem set_same (lv : List Bool) (h : Nat) (hd : nth false lv h = false) : lv.set h false = lv := by
  apply List.ext_getElem
  · simp
  · intro i h1 h2
    rw [List.getElem_set]
    by_cases e : h = i
    · subst e
      simp only [if_true]
      rw [nth_eq_getElem false lv h h2] at hd; exact hd.symm
    · simp [e]

theorem unbind_eq (w : World) (e : Entity) (a : Nat) (h : w.index e = some a) :
    w.unbind e = { w with
      arts := w.arts.set a { w.art a with store := (w.art a).store.delRow e.id, members := (w.art a).members.erase e },
      index := upd w.index e none } := by
  simp only [World.unbind, h]

/-- `Annihilate(h)` for a handed-out handle: never panics, marks exactly that name dead -/
theorem kill_R (s : St) (t : MV.Spec.ECS.St) (r : R s t) (h : Nat) (hh : h < s.hs.length) :
    R { s with w := (s.w.annihilate (s.h h)).1 } (t.kill h) ∧ (s.w.annihilate (s.h h)).2 = false := by
  have halive := alive_eq _ _ _ r.slots h hh
  rw [h_eq]
  unfold World.annihilate
  cases hl : nth false t.living h with
  | false =>
    rw [hl] at halive
    simp only [halive, Bool.not_false, if_true, and_true]
    have : t.kill h = t := by
      show { t with living := t.living.set h false } = t
      rw [set_same t.living h hl]
    rw [this]; exact r
  | true =>
    rw [hl] at halive
    have hid := id_pos _ _ _ r.slots h hh
    simp only [halive, Bool.not_true, Bool.false_eq_true, if_false, hid, and_true]
    obtain ⟨a, row, hidx, ha, hmask, hpk, hcells⟩ := r.ent.living h hh hl
    let e := nth z s.hs h
    rw [unbind_eq { s.w with slots := s.w.slots.recycle (nth z s.hs h) } e a hidx]
    let A := s.w.art a
    let A' : Arch := { A with store := A.store.delRow e.id, members := A.members.erase e }
    obtain ⟨hst, hcols, hpkdel, hpkother, hcellother⟩ := delRow_spec A.store e.id (r.ent.store a ha)
    have hlen' : (s.w.arts.set a A').length = s.w.arts.length := by simp
    have hliv' : ∀ i, (t.kill h).isLiving i = if h = i then false else t.isLiving i := by
      intro i
      show nth false (t.living.set h false) i = _
      rw [nth_set]
      by_cases e1 : h = i
      · subst e1; simp [← r.slots.len_eq, hh]
      · simp [e1, isLiving_eq]
    have hcnt := (r.ent.index_sound e a hidx).2.1
    refine ⟨r.ncomp, r.clen, recycle_rel _ _ _ r.slots h hh hl, ?_, ?_⟩
    · exact archOK_data s.w _ a A' r.arch rfl rfl rfl rfl rfl hcols
    · let w' : World := { s.w with slots := s.w.slots.recycle e, arts := s.w.arts.set a A', index := upd s.w.index e none }
      have hart : ∀ j, w'.art j = if a = j then A' else s.w.art j := by
        intro j; rw [art_of_set s.w w' a A' rfl j]; simp [ha]
      show EntOK w' s.hs (t.kill h)
      constructor
      · intro a' ha'
        rw [hart]
        by_cases e1 : a = a'
        · simp only [e1, if_true]; exact hst
        · simp only [e1, if_false]; exact r.ent.store a' (by simpa [w'] using ha')
      · intro i hi hli
        rw [hliv'] at hli
        by_cases e1 : h = i
        · simp [e1] at hli
        · simp only [e1, if_false] at hli
          obtain ⟨ai, ri, h1, h2, h3, h4, h5⟩ := r.ent.living i hi hli
          have hne : nth z s.hs i ≠ e := fun x => e1 (nth_inj z s.hs r.slots.nodup i h hi hh x).symm
          have hidne : (nth z s.hs i).id ≠ e.id := fun x =>
            e1 (living_id_inj _ _ _ r.slots i h hi hh hli hl x).symm
          refine ⟨ai, ri, by simp [w', upd, hne, h1], by simpa [w'] using h2, ?_, ?_, ?_⟩
          · rw [hart]
            by_cases e2 : a = ai
            · subst e2; simp only [if_true]; exact h3
            · simp only [e2, if_false]; exact h3
          · rw [hart]
            by_cases e2 : a = ai
            · subst e2; simp only [if_true]
              show (A.store.delRow e.id).pk _ = _
              rw [hpkother _ hidne]; exact h4
            · simp only [e2, if_false]; exact h4
          · intro c
            rw [hart]
            by_cases e2 : a = ai
            · subst e2; simp only [if_true]
              show (A.store.delRow e.id).cells ri c = _
              rw [hcellother _ ri hidne h4 c]; exact h5 c
            · simp only [e2, if_false]; exact h5 c
      · intro x a' hx
        have hxe : x ≠ e := by intro e1; simp [w', upd, e1] at hx
        have hx' : s.w.index x = some a' := by simpa [w', upd, hxe] using hx
        obtain ⟨h1, h2, i, hi, he, hli⟩ := r.ent.index_sound x a' hx'
        have hih : h ≠ i := by intro e1; subst e1; exact hxe he.symm
        refine ⟨by simpa [w'] using h1, ?_, i, hi, he, by rw [hliv']; simp [hih, hli]⟩
        rw [hart]
        by_cases e2 : a = a'
        · subst e2; simp only [if_true]
          show List.count x (A.members.erase e) = 1
          rw [List.count_erase_of_ne hxe]; exact h2
        · simp only [e2, if_false]; exact h2
      · intro a' ha' x hx
        have ha'' : a' < s.w.arts.length := by simpa [w'] using ha'
        rw [hart] at hx
        by_cases e2 : a = a'
        · subst e2
          simp only [if_true] at hx
          have hx' : x ∈ A.members.erase e := hx
          have hxe : x ≠ e := by
            intro e1
            rw [e1] at hx'
            have : List.count e (A.members.erase e) = 0 := by
              rw [List.count_erase_self]; show List.count e A.members - 1 = 0; rw [hcnt]
            exact List.count_eq_zero.mp this hx'
          have := r.ent.members a ha x (List.mem_of_mem_erase hx')
          simp [w', upd, hxe, this]
        · simp only [e2, if_false] at hx
          have := r.ent.members a' ha'' x hx
          have hxe : x ≠ e := by
            intro e1; rw [e1, hidx] at this; simp at this; exact e2 this
          simp [w', upd, hxe, this]
      · exact r.ent.data0

end MV.Lemmas.ECS
