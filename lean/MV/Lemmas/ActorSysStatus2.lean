import MV.Lemmas.ActorSysStatus
/-!
# Status discipline, part 2: the functions that write a status after reading it (CAS in the Go code)
-/
namespace MV.Model.ActorSys
open Std.Do

attribute [local spec] pushSys_dead pushUser_dead sendSys_dead abyssUser_dead sendUser_dead
  terminateReq_dead terminateCall_dead spawnChild_dead runAction_dead runActions_dead handle_dead userTurn_dead
  tryTerminated_dead

theorem holds_deadQ (b : Aid) (w : World) : Holds (deadQ b) w = Dead b w := by
  unfold Holds deadQ; rfl

/-- closes the verification conditions of the guarded functions -/
local macro "deadb_close" : tactic => `(tactic| (
  all_goals (try assumption)
  all_goals (try exact ExceptConds.entails.rfl)
  all_goals (try (intros; assumption))
  all_goals (try simp only [holds_deadQ] at *)
  all_goals (try assumption)
  all_goals (try (intros; assumption))
  all_goals (try (apply Dead.modify (by assumption); intro x hx; first | exact hx | (simp_all; done)))
  all_goals (try (apply Dead.modify_live (by assumption); simp_all; done))
  all_goals (try (refine Dead.of_actors_eq (by assumption) ?_; rfl))))

theorem tryRestarted_deadb (b self : Aid) : Stable (Holds (deadQ b)) (tryRestarted self) := by
  unfold Stable tryRestarted
  mvcgen [getA_exact, modA_exact]
  deadb_close
  all_goals (
    by_cases hbs : b = self
    · subst hbs; exfalso; unfold Dead at *; simp_all
    · exact Dead.modify_other (by assumption) hbs)
attribute [local spec] tryRestarted_deadb

theorem onTerminate_deadb (b self : Aid) (g : Bool) : Stable (Holds (deadQ b)) (onTerminate self g) := by
  unfold Stable onTerminate
  mvcgen [getA_exact, modA_exact]
  case inv1 => exact post⟨fun _ w => ⌜Holds (deadQ b) w⌝, fun _ w => ⌜Holds (deadQ b) w⌝⟩
  deadb_close
attribute [local spec] onTerminate_deadb

theorem onTerminated_deadb (b self who : Aid) : Stable (Holds (deadQ b)) (onTerminated self who) := by
  unfold Stable onTerminated
  mvcgen [getA_exact, modA_exact]
  deadb_close
attribute [local spec] onTerminated_deadb

theorem onRestart_deadb (b self : Aid) : Stable (Holds (deadQ b)) (onRestart self) := by
  unfold Stable onRestart
  mvcgen [getA_exact, modA_exact]
  case inv1 => exact post⟨fun _ w => ⌜Holds (deadQ b) w⌝, fun _ w => ⌜Holds (deadQ b) w⌝⟩
  deadb_close
attribute [local spec] onRestart_deadb

attribute [local spec] getA_dead modA_dead

local macro "dq_close" : tactic => `(tactic| (
  all_goals (try assumption)
  all_goals (try exact ExceptConds.entails.rfl)
  all_goals (try (intros; assumption))
  all_goals (try (intro x hx; first | exact hx | (simp_all; done)))
  all_goals (try simp only [holds_deadQ] at *)
  all_goals (try assumption)
  all_goals (try (refine Dead.of_actors_eq (by assumption) ?_; rfl))))

theorem escalate_deadb (b self victim : Aid) : Stable (Holds (deadQ b)) (escalate self victim) := by
  unfold Stable escalate; mvcgen
  dq_close
attribute [local spec] escalate_deadb

theorem decide_deadb (b self victim : Aid) (st : Strategy) : Stable (Holds (deadQ b)) (decide self victim st) := by
  unfold Stable decide; mvcgen
  dq_close
attribute [local spec] decide_deadb

theorem onAccident_deadb (b self victim : Aid) : Stable (Holds (deadQ b)) (onAccident self victim) := by
  unfold Stable onAccident; mvcgen
  dq_close
attribute [local spec] onAccident_deadb

theorem onWatch_deadb (b self : Aid) (s : Option Aid) : Stable (Holds (deadQ b)) (onWatch self s) := by
  unfold Stable onWatch; mvcgen
  dq_close
attribute [local spec] onWatch_deadb

theorem onUnWatch_deadb (b self : Aid) (s : Option Aid) : Stable (Holds (deadQ b)) (onUnWatch self s) := by
  unfold Stable onUnWatch; mvcgen
  dq_close
attribute [local spec] onUnWatch_deadb

theorem sysTurn_deadb (b self : Aid) (m : SMsg) (s : Option Aid) : Stable (Holds (deadQ b)) (sysTurn self m s) := by
  unfold Stable sysTurn; mvcgen
  dq_close

theorem deadTurn_deadb (b self : Aid) (m : SMsg) (s : Option Aid) : Stable (Holds (deadQ b)) (deadTurn self m s) := by
  unfold Stable deadTurn; mvcgen
  dq_close

theorem subPublish_deadb (b : Aid) (inner : UMsg) (s : Option Aid) : Stable (Holds (deadQ b)) (subPublish inner s) := by
  unfold Stable subPublish; mvcgen
  case inv1 => exact post⟨fun _ w => ⌜Holds (deadQ b) w⌝, fun _ w => ⌜Holds (deadQ b) w⌝⟩
  dq_close
attribute [local spec] subPublish_deadb

theorem usrTurn_deadb (b self : Aid) (m : UMsg) (s : Option Aid) : Stable (Holds (deadQ b)) (usrTurn self m s) := by
  unfold Stable usrTurn; mvcgen
  dq_close

theorem reportAbnormal_deadb (b self : Aid) : Stable (Holds (deadQ b)) (reportAbnormal self) := by
  unfold Stable reportAbnormal; mvcgen
  dq_close

theorem abyssUser_deadb (b t : Aid) (m : UMsg) (s : Option Aid) : Stable (Holds (deadQ b)) (abyssUser t m s) :=
  abyssUser_dead _ t m s
theorem sendSys_deadb (b t : Aid) (m : SMsg) (s : Option Aid) : Stable (Holds (deadQ b)) (sendSys t m s) :=
  sendSys_dead _ t m s
theorem sendUser_deadb (b t : Aid) (m : UMsg) (s : Option Aid) : Stable (Holds (deadQ b)) (sendUser t m s) :=
  sendUser_dead _ t m s
theorem terminateCall_deadb (b a t : Aid) (g : Bool) : Stable (Holds (deadQ b)) (terminateCall a t g) :=
  terminateCall_dead _ a t g
theorem spawnTop_deadb (b : Aid) (beh : Nat) : Stable (Holds (deadQ b)) (do let _ ← spawnChild 0 beh) := by
  unfold Stable; mvcgen
  dq_close

end MV.Model.ActorSys

namespace MV.Model.ActorSys

theorem guarded_dead (b self : Aid) (t : M Unit) (w : World)
    (ht : Stable (Holds (deadQ b)) t) (h : Dead b w) : Dead b (guarded self t w) := by
  unfold guarded
  have h0 : Holds (deadQ b) w := by rw [holds_deadQ]; exact h
  have h1 := run_of_stable t _ ht w h0
  revert h1
  generalize (t.run).run w = r1
  obtain ⟨e1, w1⟩ := r1
  intro h1
  cases e1 with
  | ok _ => rw [holds_deadQ] at h1; exact h1
  | error _ =>
    have h2 := run_of_stable (reportAbnormal self) _ (reportAbnormal_deadb b self) w1 h1
    revert h2
    dsimp only
    generalize ((reportAbnormal self).run).run w1 = r2
    obtain ⟨e2, w2⟩ := r2
    intro h2
    rw [holds_deadQ] at h2
    cases e2 with
    | ok _ =>
      -- recheck only touches hasRunner
      exact Dead.modify h2 (fun x hx => hx)
    | error _ => exact Dead.of_actors_eq h2 rfl

theorem extern_dead (b : Aid) (t : M Unit) (w : World)
    (ht : Stable (Holds (deadQ b)) t) (h : Dead b w) : Dead b (extern t w) := by
  have h0 : Holds (deadQ b) w := by rw [holds_deadQ]; exact h
  have := run_of_stable t _ ht w h0
  rw [holds_deadQ] at this; exact this

theorem runOne_dead (b : Aid) (w : World) (a : Aid) (h : Dead b w) : Dead b (runOne w a) := by
  unfold runOne
  cases hx : w.actors[a]? with
  | none => exact h
  | some x =>
    simp only
    split
    · exact h
    · cases hq : x.sysQ with
      | cons ms rest =>
        obtain ⟨m, s⟩ := ms
        simp only
        split
        · exact guarded_dead b a _ _ (deadTurn_deadb b a m s) (Dead.modify h (fun x hx => hx))
        · exact guarded_dead b a _ _ (sysTurn_deadb b a m s) (Dead.modify h (fun x hx => hx))
      | nil =>
        simp only
        split
        · exact Dead.modify h (fun x hx => hx)
        · cases hu : x.userQ with
          | nil => exact Dead.modify h (fun x hx => hx)
          | cons ms rest =>
            obtain ⟨m, s⟩ := ms
            simp only
            split
            · exact guarded_dead b a _ _ (abyssUser_deadb b a m s) (Dead.modify h (fun x hx => hx))
            · exact guarded_dead b a _ _ (usrTurn_deadb b a m s) (Dead.modify h (fun x hx => hx))

/-- **`terminated` is absorbing**: no operation brings a terminated actor back -/
theorem step_dead (b : Aid) (w : World) (op : Op) (h : Dead b w) : Dead b (step w op) := by
  cases op with
  | run a => simp only [step]; split; exact h; exact runOne_dead b w a h
  | fire =>
    simp only [step]; split; exact h
    split
    · exact h
    · exact extern_dead b _ _ (sendSys_deadb b _ _ _) (Dead.of_actors_eq h rfl)
  | spawnTop beh => simp only [step]; split; exact h; exact extern_dead b _ _ (spawnTop_deadb b beh) h
  | tell t tag => simp only [step]; split; exact h; exact extern_dead b _ _ (sendUser_deadb b _ _ _) h
  | kill t g => simp only [step]; split; exact h; exact extern_dead b _ _ (terminateCall_deadb b _ _ _) h
  | shutdown g => simp only [step]; split; exact h; exact extern_dead b _ _ (terminateCall_deadb b _ _ _) h
  | subscribeDead a => simp only [step]; exact Dead.of_actors_eq h rfl

theorem exec_dead (b : Aid) (w : World) (ops : List Op) (h : Dead b w) : Dead b (exec w ops) := by
  unfold exec
  induction ops generalizing w with
  | nil => exact h
  | cons op ops ih => exact ih _ (step_dead b w op h)

end MV.Model.ActorSys
