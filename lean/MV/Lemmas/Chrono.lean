import MV.Lemmas.Civil
import MV.Model.Chrono
import MV.Spec.Chrono
/-!
# Lemmas: the chrono model over fixed-offset zones equals the closed-form spec
-/
namespace MV.Model.Civil

/-- `time.Date` fed with the civil fields of `t`'s local date (day shifted by `k`) -/
theorem date_of_fields' (loc off t k h mi s ns : Int) :
    date loc (year off t) (month off t) (day off t + k) h mi s ns =
      (((localDays off t + k) * secPerDay + h * 3600 + mi * 60 + s) - loc) * nsPerSec + ns := by
  obtain ⟨v1, v2, _, _⟩ := civilFromDays_valid (localDays off t)
  have rt := daysFromCivil_civilFromDays (localDays off t)
  unfold date year month day
  dsimp only
  generalize (civilFromDays (localDays off t)).1 = y at *
  generalize (civilFromDays (localDays off t)).2.1 = m at *
  generalize (civilFromDays (localDays off t)).2.2 = d at *
  have e1 : (m - 1) / 12 = 0 := by omega
  have e2 : (m - 1) % 12 + 1 = m := by omega
  rw [e1, e2, Int.add_zero, daysFromCivil_day, rt]

theorem date_of_fields (off t k h mi s ns : Int) :
    date off (year off t) (month off t) (day off t + k) h mi s ns =
      (((localDays off t + k) * secPerDay + h * 3600 + mi * 60 + s) - off) * nsPerSec + ns :=
  date_of_fields' off off t k h mi s ns

theorem date_of_fields0 (off t h mi s ns : Int) :
    date off (year off t) (month off t) (day off t) h mi s ns =
      ((localDays off t * secPerDay + h * 3600 + mi * 60 + s) - off) * nsPerSec + ns := by
  have := date_of_fields off t 0 h mi s ns
  rwa [Int.add_zero, Int.add_zero] at this

theorem nsOfDay_fields (off t : Int) :
    (hour off t * 3600 + minute off t * 60 + second off t) * nsPerSec + nanosecond off t = nsOfDay off t := by
  unfold hour minute second nanosecond nsPerSec
  have : 0 ≤ nsOfDay off t := by unfold nsOfDay nsPerDay; omega
  omega

theorem local_split (off t : Int) : t = localDays off t * nsPerDay + nsOfDay off t - off * nsPerSec := by
  unfold localDays nsOfDay localNs nsPerDay nsPerSec; omega

theorem nsOfDay_range (off t : Int) : 0 ≤ nsOfDay off t ∧ nsOfDay off t < nsPerDay := by
  unfold nsOfDay nsPerDay; omega

theorem addDate_days (off t k : Int) : addDate off t 0 0 k = t + k * nsPerDay := by
  unfold addDate
  rw [Int.add_zero, Int.add_zero, date_of_fields]
  have a := nsOfDay_fields off t
  have b := local_split off t
  unfold secPerDay nsPerSec nsPerDay at *
  omega

/-- local day number and time of day of a local midnight plus `x` nanoseconds -/
theorem localDays_midnight (off z x : Int) (h0 : 0 ≤ x) (h1 : x < nsPerDay) :
    localDays off (z * nsPerDay - off * nsPerSec + x) = z ∧ nsOfDay off (z * nsPerDay - off * nsPerSec + x) = x := by
  unfold localDays nsOfDay localNs nsPerDay nsPerSec at *; omega
end MV.Model.Civil

namespace MV.Model.Chrono
open MV.Model.Civil MV.Spec.Chrono

theorem startOfDay_eq (off t : Int) : Spec.Chrono.startOfDay off t = localDays off t * nsPerDay - off * nsPerSec := by
  have := local_split off t
  unfold Spec.Chrono.startOfDay; omega

theorem getStartOfDay_eq (t : Time) : getStartOfDay t = ⟨Spec.Chrono.startOfDay t.off t.ns, t.off⟩ := by
  unfold getStartOfDay mkDate Time.year Time.month Time.day
  rw [date_of_fields0, startOfDay_eq]
  congr 1
  unfold secPerDay nsPerSec nsPerDay; omega

theorem getEndOfDay_eq (t : Time) : getEndOfDay t = ⟨Spec.Chrono.endOfDay t.off t.ns, t.off⟩ := by
  unfold getEndOfDay mkDate Time.year Time.month Time.day Spec.Chrono.endOfDay
  rw [date_of_fields0, startOfDay_eq]
  congr 1
  unfold secPerDay nsPerSec nsPerDay; omega

theorem getStartOfWeek_eq (t : Time) (wd : Int) :
    getStartOfWeek t wd = ⟨weekdayStart t.off t.ns wd, t.off⟩ := by
  unfold getStartOfWeek
  rw [getStartOfDay_eq]
  simp only [Time.addDate, Time.weekday]
  rw [addDate_days, startOfDay_eq]
  have hz := (localDays_midnight t.off (localDays t.off t.ns) 0 (by omega) (by unfold nsPerDay; omega)).1
  rw [Int.add_zero] at hz
  simp only [weekday, hz]
  unfold weekdayStart midnightOf mondayOf isoIndex weekdayOfDays
  congr 1
  generalize localDays t.off t.ns = z
  unfold nsPerDay nsPerSec
  split <;> split <;> omega

theorem localDays_add_days (off t k : Int) : localDays off (t + k * nsPerDay) = localDays off t + k := by
  unfold localDays localNs nsPerDay; omega

theorem nsOfDay_add_days (off t k : Int) : nsOfDay off (t + k * nsPerDay) = nsOfDay off t := by
  unfold nsOfDay localNs nsPerDay; omega

theorem startOfDay_add_days (off t k : Int) :
    Spec.Chrono.startOfDay off (t + k * nsPerDay) = Spec.Chrono.startOfDay off t + k * nsPerDay := by
  unfold Spec.Chrono.startOfDay; rw [nsOfDay_add_days]; omega

theorem getEndOfWeek_eq (t : Time) (wd : Int) :
    getEndOfWeek t wd = ⟨weekdayStart t.off t.ns wd + 86399 * nsPerSec, t.off⟩ := by
  unfold getEndOfWeek
  rw [getStartOfWeek_eq, getEndOfDay_eq]
  dsimp only
  unfold Spec.Chrono.endOfDay weekdayStart midnightOf
  rw [startOfDay_eq]
  have := (localDays_midnight t.off (mondayOf (localDays t.off t.ns) + isoIndex wd) 0 (by omega) (by unfold nsPerDay; omega)).1
  rw [Int.add_zero] at this
  rw [this]

theorem getRelativeStartOfWeek_eq (t : Time) (wd k : Int) (h0 : 0 ≤ wd) (h1 : wd ≤ 6) :
    getRelativeStartOfWeek t wd k = ⟨relWeekStart t.off t.ns wd k, t.off⟩ := by
  unfold getRelativeStartOfWeek
  dsimp only
  have hw : t.weekday = weekdayOfDays (localDays t.off t.ns) := rfl
  by_cases hc : (if t.weekday = 0 then 7 else t.weekday) < (if wd = 0 then 7 else wd)
  · rw [if_pos hc, Time.addDate, addDate_days, getStartOfWeek_eq]
    simp only [Time.addDate]
    rw [addDate_days]
    unfold weekdayStart relWeekStart
    dsimp only
    rw [localDays_add_days]
    rw [hw] at hc
    generalize localDays t.off t.ns = z at *
    unfold midnightOf mondayOf isoIndex weekdayOfDays nsPerDay nsPerSec at *
    congr 1
    split at hc <;> split at hc <;> split <;> omega
  · rw [if_neg hc, getStartOfWeek_eq]
    simp only [Time.addDate]
    rw [addDate_days]
    unfold weekdayStart relWeekStart
    dsimp only
    rw [hw] at hc
    generalize localDays t.off t.ns = z at *
    unfold midnightOf mondayOf isoIndex weekdayOfDays nsPerDay nsPerSec at *
    congr 1
    split at hc <;> split at hc <;> split <;> omega

theorem getNextMoment_eq (now : Time) (h mi s : Int) :
    getNextMoment now.off now h mi s = ⟨nextMoment now.off now.ns h mi s, now.off⟩ := by
  unfold getNextMoment mkDate Time.year Time.month Time.day Time.after Time.equal
  dsimp only
  rw [date_of_fields0, date_of_fields]
  unfold nextMoment
  rw [startOfDay_eq]
  dsimp only
  have e : (localDays now.off now.ns * secPerDay + h * 3600 + mi * 60 + s - now.off) * nsPerSec + 0 =
      localDays now.off now.ns * nsPerDay - now.off * nsPerSec + (h * 3600 + mi * 60 + s) * nsPerSec := by
    unfold secPerDay nsPerDay nsPerSec; omega
  have e' : ((localDays now.off now.ns + 1) * secPerDay + h * 3600 + mi * 60 + s - now.off) * nsPerSec + 0 =
      localDays now.off now.ns * nsPerDay - now.off * nsPerSec + (h * 3600 + mi * 60 + s) * nsPerSec + nsPerDay := by
    unfold secPerDay nsPerDay nsPerSec; omega
  rw [e, e']
  generalize localDays now.off now.ns * nsPerDay - now.off * nsPerSec + (h * 3600 + mi * 60 + s) * nsPerSec = x
  by_cases hx : x > now.ns
  · have h1 : ¬ (now.ns > x) := by omega
    have h2 : ¬ (now.ns = x) := by omega
    simp [hx, h1, h2]
  · have h1 : now.ns > x ∨ now.ns = x := by omega
    rcases h1 with h1 | h1
    · simp [hx, h1]
    · have : ¬ (x > x) := by omega
      simp [h1, this]


theorem endOfDay_add_days (off t k : Int) :
    Spec.Chrono.endOfDay off (t + k * nsPerDay) = Spec.Chrono.endOfDay off t + k * nsPerDay := by
  unfold Spec.Chrono.endOfDay; rw [startOfDay_add_days]; omega

theorem startOfDay_idem (off t : Int) :
    Spec.Chrono.startOfDay off (Spec.Chrono.startOfDay off t) = Spec.Chrono.startOfDay off t := by
  rw [startOfDay_eq off t]
  have := localDays_midnight off (localDays off t) 0 (by omega) (by unfold nsPerDay; omega)
  rw [Int.add_zero] at this
  unfold Spec.Chrono.startOfDay
  rw [this.2]; omega

theorem endOfDay_idem (off t : Int) :
    Spec.Chrono.endOfDay off (Spec.Chrono.endOfDay off t) = Spec.Chrono.endOfDay off t := by
  unfold Spec.Chrono.endOfDay
  rw [startOfDay_eq off t]
  have := localDays_midnight off (localDays off t) (86399 * nsPerSec) (by unfold nsPerSec; omega) (by unfold nsPerDay nsPerSec; omega)
  unfold Spec.Chrono.startOfDay
  rw [this.2]; omega

theorem getRelativeStartOfDay_eq (t : Time) (k : Int) :
    getRelativeStartOfDay t k = ⟨Spec.Chrono.startOfDay t.off t.ns + k * nsPerDay, t.off⟩ := by
  unfold getRelativeStartOfDay
  rw [getStartOfDay_eq, getStartOfDay_eq]
  simp only [Time.addDate]
  rw [addDate_days, startOfDay_idem, startOfDay_add_days]

theorem getRelativeEndOfDay_eq (t : Time) (k : Int) :
    getRelativeEndOfDay t k = ⟨Spec.Chrono.endOfDay t.off t.ns + k * nsPerDay, t.off⟩ := by
  unfold getRelativeEndOfDay
  rw [getEndOfDay_eq, getEndOfDay_eq]
  simp only [Time.addDate]
  rw [addDate_days, endOfDay_idem, endOfDay_add_days]

/-- local day number / time of day of the relative week start -/
theorem relWeekStart_local (off t wd k : Int) :
    localDays off (relWeekStart off t wd k) =
      localDays off t - (weekdayOfDays (localDays off t) - wd) % 7 + 7 * k ∧
    nsOfDay off (relWeekStart off t wd k) = 0 := by
  unfold relWeekStart midnightOf
  dsimp only
  have := localDays_midnight off (localDays off t - (weekdayOfDays (localDays off t) - wd) % 7 + 7 * k) 0 (by omega) (by unfold nsPerDay; omega)
  rw [Int.add_zero] at this
  exact this

theorem weekdayStart_local (off t wd : Int) :
    localDays off (weekdayStart off t wd) = mondayOf (localDays off t) + isoIndex wd ∧
    nsOfDay off (weekdayStart off t wd) = 0 := by
  unfold weekdayStart midnightOf
  have := localDays_midnight off (mondayOf (localDays off t) + isoIndex wd) 0 (by omega) (by unfold nsPerDay; omega)
  rw [Int.add_zero] at this
  exact this

theorem getRelativeEndOfWeek_eq (t : Time) (wd k : Int) (h0 : 0 ≤ wd) (h1 : wd ≤ 6) :
    getRelativeEndOfWeek t wd k = ⟨relWeekStart t.off t.ns wd k + 86399 * nsPerSec, t.off⟩ := by
  unfold getRelativeEndOfWeek
  rw [getRelativeStartOfWeek_eq t wd k h0 h1, getEndOfDay_eq]
  dsimp only
  unfold Spec.Chrono.endOfDay Spec.Chrono.startOfDay
  rw [(relWeekStart_local t.off t.ns wd k).2]; simp

theorem getRelativeTimeOfWeek_eq (t : Time) (wd k : Int) (h0 : 0 ≤ wd) (h1 : wd ≤ 6) :
    getRelativeTimeOfWeek t wd k = ⟨relWeekStart t.off t.ns wd k + nsOfDay t.off t.ns, t.off⟩ := by
  unfold getRelativeTimeOfWeek
  rw [getRelativeStartOfWeek_eq t wd k h0 h1]
  unfold mkDate Time.year Time.month Time.day Time.hour Time.minute Time.second Time.nanosecond
  dsimp only
  rw [date_of_fields0]
  have a := nsOfDay_fields t.off t.ns
  have b := relWeekStart_local t.off t.ns wd k
  have c := local_split t.off (relWeekStart t.off t.ns wd k)
  rw [b.2] at c
  congr 1
  unfold secPerDay nsPerSec nsPerDay at *
  omega

theorem getMonthDays_eq (t : Time) : getMonthDays t = daysInMonth t.year t.month := by
  obtain ⟨v1, v2, _, _⟩ := civilFromDays_valid (localDays t.off t.ns)
  have hd := daysInMonth_eq t.year t.month v1 v2
  unfold getMonthDays
  dsimp only
  have hm : t.month = (civilFromDays (localDays t.off t.ns)).2.1 := rfl
  rw [← hm] at v1 v2
  generalize t.month = m at *
  generalize t.year = y at *
  have e100 : Int.tmod y 100 = 0 ↔ y % 100 = 0 := by
    rw [← Int.dvd_iff_tmod_eq_zero, ← Int.dvd_iff_emod_eq_zero]
  have e4 : Int.tmod y 4 = 0 ↔ y % 4 = 0 := by
    rw [← Int.dvd_iff_tmod_eq_zero, ← Int.dvd_iff_emod_eq_zero]
  have e400 : Int.tmod y 400 = 0 ↔ y % 400 = 0 := by
    rw [← Int.dvd_iff_tmod_eq_zero, ← Int.dvd_iff_emod_eq_zero]
  have hm' : m = 1 ∨ m = 2 ∨ m = 3 ∨ m = 4 ∨ m = 5 ∨ m = 6 ∨ m = 7 ∨ m = 8 ∨ m = 9 ∨ m = 10 ∨ m = 11 ∨ m = 12 := by omega
  rcases hm' with h | h | h | h | h | h | h | h | h | h | h | h <;> subst h <;>
    simp [e4, e100, e400] <;> simp at hd <;> grind

/-- wall clock of an instant: nanoseconds since local midnight -/
theorem nsOfDay_of_hms (off z h mi s : Int) (hv : validHMS h mi s = true) :
    nsOfDay off (z * nsPerDay - off * nsPerSec + (h * 3600 + mi * 60 + s) * nsPerSec) = (h * 3600 + mi * 60 + s) * nsPerSec ∧
    localDays off (z * nsPerDay - off * nsPerSec + (h * 3600 + mi * 60 + s) * nsPerSec) = z := by
  simp only [validHMS, Bool.and_eq_true, decide_eq_true_eq] at hv
  have := localDays_midnight off z ((h * 3600 + mi * 60 + s) * nsPerSec) (by unfold nsPerSec; omega)
    (by unfold nsPerDay nsPerSec; omega)
  exact ⟨this.2, this.1⟩


end MV.Model.Chrono
