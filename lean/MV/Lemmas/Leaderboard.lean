import MV.Lemmas.RankingSearch
/-!
# List-level facts about the abstract leaderboard (insertion, removal, lookups)
-/
namespace MV.Spec.Leaderboard
open MV.Model MV.Model.Ranking

theorem scoreOf_eq_get (l : List (Int × Int)) (id : Int) : scoreOf l id = FMap.get l id := rfl
theorem eraseId_eq_del (l : List (Int × Int)) (id : Int) : eraseId l id = FMap.del l id := rfl
theorem nodupIds_iff (l : List (Int × Int)) : NodupIds l ↔ (FMap.keyList l).Nodup := Iff.rfl

theorem sorted_sublist {asc : Bool} {l l' : List (Int × Int)} (h : l'.Sublist l) (hs : Sorted asc l) : Sorted asc l' :=
  List.Pairwise.sublist h hs

theorem nodupIds_sublist {l l' : List (Int × Int)} (h : l'.Sublist l) (hn : NodupIds l) : NodupIds l' :=
  List.Nodup.sublist (List.Sublist.map _ h) hn

/-! ## removal -/

theorem eraseIdx_eq_eraseId {l : List (Int × Int)} (hn : NodupIds l) (p : Nat) (hp : p < l.length) :
    l.eraseIdx p = eraseId l l[p].1 := by
  induction l generalizing p with
  | nil => simp at hp
  | cons x l ih =>
    have hx := List.nodup_cons.mp (show (x.1 :: l.map (·.1)).Nodup from hn)
    cases p with
    | zero =>
      simp only [List.eraseIdx_zero, List.getElem_cons_zero, List.tail_cons]
      unfold eraseId
      rw [List.filter_cons]
      simp only [bne_self_eq_false, Bool.false_eq_true, if_false]
      symm
      rw [List.filter_eq_self]
      intro a ha
      have : a.1 ≠ x.1 := by
        intro e; apply hx.1; rw [← e]; exact List.mem_map_of_mem (f := (·.1)) ha
      simp [this]
    | succ p =>
      have hp' : p < l.length := by simpa using hp
      simp only [List.eraseIdx_cons_succ, List.getElem_cons_succ]
      unfold eraseId
      rw [List.filter_cons]
      have : x.1 ≠ l[p].1 := by
        intro e; apply hx.1; rw [e]
        exact List.mem_map_of_mem (f := fun (y : Int × Int) => y.1) (List.getElem_mem hp')
      have hb : (x.1 != l[p].1) = true := by simp [this]
      simp only [hb, if_true]
      congr 1
      exact ih hx.2 p hp'

theorem dropLast_eq_eraseId {l : List (Int × Int)} (hn : NodupIds l) (h : 0 < l.length) :
    l.dropLast = eraseId l (l[l.length - 1]'(by omega)).1 := by
  rw [← eraseIdx_eq_eraseId hn (l.length - 1) (by omega)]
  rw [List.dropLast_eq_take, List.eraseIdx_eq_take_drop_succ]
  have : l.length - 1 + 1 = l.length := by omega
  rw [this, List.drop_length, List.append_nil]

theorem eraseId_of_absent (l : List (Int × Int)) (id : Int) (h : scoreOf l id = none) : eraseId l id = l := by
  unfold eraseId
  rw [List.filter_eq_self]
  intro a ha
  have : a.1 ≠ id := by
    intro e
    have hm : id ∈ FMap.keyList l := by rw [← e]; exact List.mem_map_of_mem (f := (·.1)) ha
    rw [FMap.mem_keyList_iff] at hm
    rw [scoreOf_eq_get] at h
    simp [h] at hm
  simp [this]

theorem eraseId_sublist (l : List (Int × Int)) (id : Int) : (eraseId l id).Sublist l := List.filter_sublist

theorem scoreOf_eraseId (l : List (Int × Int)) (id id' : Int) :
    scoreOf (eraseId l id) id' = if id' = id then none else scoreOf l id' := FMap.get_del l id id'

/-- position of a listed competitor -/
theorem exists_idx_of_scoreOf {l : List (Int × Int)} {id v : Int} (h : scoreOf l id = some v) :
    ∃ p, ∃ hp : p < l.length, l[p] = (id, v) := by
  have := FMap.mem_of_get_eq_some l id v h
  obtain ⟨p, hp, e⟩ := List.getElem_of_mem this
  exact ⟨p, hp, e⟩

theorem scoreOf_of_idx {l : List (Int × Int)} (hn : NodupIds l) (p : Nat) (hp : p < l.length) :
    scoreOf l l[p].1 = some l[p].2 :=
  FMap.get_eq_some_of_mem l hn l[p] (List.getElem_mem _)

theorem rankOf_of_idx {l : List (Int × Int)} (hn : NodupIds l) (p : Nat) (hp : p < l.length) :
    rankOf l l[p].1 = some p := by
  unfold rankOf
  have : l.findIdx (fun e => e.1 == l[p].1) = p := by
    rw [List.findIdx_eq hp]
    refine ⟨by simp, fun j hj => ?_⟩
    have : l[j].1 ≠ l[p].1 := fun e => by
      have := nodup_idx hn j p (by omega) hp e; omega
    simp [this]
  simp [this, hp]

theorem rankOf_of_absent (l : List (Int × Int)) (id : Int) (h : scoreOf l id = none) : rankOf l id = none := by
  unfold rankOf
  have : ¬ l.findIdx (fun e => e.1 == id) < l.length := by
    rw [List.findIdx_lt_length]
    rintro ⟨x, hx, hxe⟩
    have e : x.1 = id := by simpa using hxe
    have hm : id ∈ FMap.keyList l := by rw [← e]; exact List.mem_map_of_mem (f := (·.1)) hx
    rw [FMap.mem_keyList_iff, ← scoreOf_eq_get, h] at hm
    simp at hm
  simp [this]

/-! ## insertion -/

theorem length_insertAt (l : List (Int × Int)) (p : Nat) (x : Int × Int) (hp : p ≤ l.length) :
    (insertAt l p x).length = l.length + 1 := by
  unfold insertAt; simp; omega

theorem insertAt_length_eq_append (l : List (Int × Int)) (x : Int × Int) : insertAt l l.length x = l ++ [x] := by
  unfold insertAt; simp

theorem mem_insertAt (l : List (Int × Int)) (p : Nat) (x a : Int × Int) : a ∈ insertAt l p x ↔ a = x ∨ a ∈ l := by
  unfold insertAt
  rw [List.mem_append, List.mem_cons]
  constructor
  · rintro (h | h | h)
    · exact Or.inr (List.mem_of_mem_take h)
    · exact Or.inl h
    · exact Or.inr (List.mem_of_mem_drop h)
  · rintro (h | h)
    · exact Or.inr (Or.inl h)
    · rw [← List.take_append_drop p l, List.mem_append] at h
      rcases h with h | h
      · exact Or.inl h
      · exact Or.inr (Or.inr h)

theorem sorted_insertAt {asc : Bool} {l : List (Int × Int)} (hs : Sorted asc l) (id s : Int) (p : Nat)
    (hp : IsPos asc l s p) : Sorted asc (insertAt l p (id, s)) := by
  unfold insertAt Sorted
  rw [List.pairwise_append, List.pairwise_cons]
  have hsplit : Sorted asc (l.take p ++ l.drop p) := by rw [List.take_append_drop]; exact hs
  have hsp := List.pairwise_append.mp hsplit
  refine ⟨hsp.1, ⟨?_, hsp.2.1⟩, ?_⟩
  · intro a ha
    obtain ⟨j, hj, e⟩ := List.mem_drop_iff_getElem.mp ha
    have := hp.2.2 (p + j) (by omega) (by omega)
    rw [e] at this
    show key asc s ≥ key asc a.2
    omega
  · intro a ha b hb
    obtain ⟨j, hj, e⟩ := List.mem_take_iff_getElem.mp ha
    have hja := hp.2.1 j (by omega) (by omega)
    rw [e] at hja
    rcases List.mem_cons.mp hb with rfl | hb
    · exact hja
    · exact hsp.2.2 a ha b hb

theorem nodupIds_insertAt {l : List (Int × Int)} (hn : NodupIds l) (id s : Int) (p : Nat)
    (habs : scoreOf l id = none) : NodupIds (insertAt l p (id, s)) := by
  have hnot : id ∉ FMap.keyList l := by
    rw [FMap.mem_keyList_iff, ← scoreOf_eq_get, habs]; simp
  unfold NodupIds insertAt
  rw [List.map_append, List.map_cons]
  have hperm : (List.map (·.1) (l.take p) ++ id :: List.map (·.1) (l.drop p)).Perm (id :: l.map (·.1)) := by
    have : l.map (·.1) = List.map (·.1) (l.take p) ++ List.map (·.1) (l.drop p) := by
      rw [← List.map_append, List.take_append_drop]
    rw [this]
    exact List.perm_middle
  exact (List.Nodup.perm (List.nodup_cons.mpr ⟨hnot, hn⟩) hperm.symm)

theorem scoreOf_insertAt (l : List (Int × Int)) (id s : Int) (p : Nat) (habs : scoreOf l id = none) (id' : Int) :
    scoreOf (insertAt l p (id, s)) id' = if id' = id then some s else scoreOf l id' := by
  have hsplit : scoreOf l id' = (scoreOf (l.take p) id').or (scoreOf (l.drop p) id') := by
    unfold scoreOf
    rw [← List.lookup_append, List.take_append_drop]
  unfold insertAt
  show List.lookup id' (l.take p ++ (id, s) :: l.drop p) = _
  rw [List.lookup_append]
  by_cases h : id' = id
  · subst h
    have h1 : List.lookup id' (l.take p) = none := by
      have := hsplit
      rw [habs] at this
      unfold scoreOf at this
      cases ht : List.lookup id' (l.take p) with
      | none => rfl
      | some v => rw [ht] at this; simp at this
    rw [h1]
    simp
  · have : (id' == id) = false := by simp [h]
    rw [List.lookup_cons, this]
    simp only [h, if_false]
    rw [hsplit]; rfl

/-! ## `Good` is preserved by a submission and by a removal -/

theorem good_remove (b : Board) (h : Good b) (id : Int) : Good { b with l := eraseId b.l id } := by
  refine ⟨sorted_sublist (eraseId_sublist _ _) h.1, nodupIds_sublist (eraseId_sublist _ _) h.2.1, ?_⟩
  intro hc
  have := h.2.2 hc
  have hl := List.Sublist.length_le (eraseId_sublist b.l id)
  show ((eraseId b.l id).length : Int) ≤ b.cap
  omega

end MV.Spec.Leaderboard
