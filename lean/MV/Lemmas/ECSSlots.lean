import MV.Model.ECS
import MV.Lemmas.ECSList
/-!
# The slot table of `entities.go`: free list, generations, handles (C14)

`SlotRel sl hs lv`: the slot table `sl` is consistent with the list `hs` of all handles ever handed
out and their living flags `lv`:
the free list is a duplicate-free chain of `available` in-range non-zero slots, every living handle
carries its slot's generation and its slot is not free, every dead handle's generation is *smaller*
than its slot's (so it can never match again), and all handles ever handed out are pairwise distinct.
-/
namespace MV.Lemmas.ECSSlots
open MV.Model.ECS MV.Lemmas.ECSList

abbrev z : Entity := ⟨0, 0⟩

theorem slot_eq (sl : Slots) (j : Nat) : sl.slot j = nth z sl.ents j := rfl

/-- the free list: `k` links starting at `nx` -/
def chain (ents : List Entity) : Nat → Nat → List Nat
  | _, 0 => []
  | nx, k + 1 => nx :: chain ents (nth z ents nx).id k

theorem chain_congr (ents ents' : List Entity) :
    ∀ (k nx : Nat), (∀ i ∈ chain ents nx k, (nth z ents' i).id = (nth z ents i).id) →
      chain ents' nx k = chain ents nx k := by
  intro k
  induction k with
  | zero => intros; rfl
  | succ k ih =>
    intro nx h
    have h0 := h nx (by simp [chain])
    simp only [chain]
    rw [h0, ih]
    intro i hi
    exact h i (by simp only [chain, List.mem_cons]; exact Or.inr hi)

structure SlotRel (sl : Slots) (hs : List Entity) (lv : List Bool) : Prop where
  len_eq : hs.length = lv.length
  pos : 0 < sl.ents.length
  chain_nodup : (chain sl.ents sl.next sl.available).Nodup
  chain_rng : ∀ i ∈ chain sl.ents sl.next sl.available, 0 < i ∧ i < sl.ents.length
  nodup : hs.Nodup
  rng : ∀ e ∈ hs, 0 < e.id ∧ e.id < sl.ents.length
  liv : ∀ i, i < hs.length → nth false lv i = true →
    (nth z hs i).gen = (nth z sl.ents (nth z hs i).id).gen ∧
      (nth z hs i).id ∉ chain sl.ents sl.next sl.available
  dead : ∀ i, i < hs.length → nth false lv i = false →
    (nth z hs i).gen < (nth z sl.ents (nth z hs i).id).gen

theorem new_rel : SlotRel Slots.new [] [] := by
  constructor <;> simp [Slots.new, chain]

/-- `alive` of a handed-out handle is its living flag -/
theorem alive_eq (sl : Slots) (hs : List Entity) (lv : List Bool) (h : SlotRel sl hs lv) (i : Nat)
    (hi : i < hs.length) : sl.alive (nth z hs i) = nth false lv i := by
  unfold Slots.alive
  simp only [slot_eq]
  cases hl : nth false lv i with
  | true => have := (h.liv i hi hl).1; simp [this]
  | false => have := h.dead i hi hl; simp; omega

theorem id_pos (sl : Slots) (hs : List Entity) (lv : List Bool) (h : SlotRel sl hs lv) (i : Nat)
    (hi : i < hs.length) : (nth z hs i).id ≠ 0 := by
  have := (h.rng _ (nth_mem z hs i hi)).1; omega

/-- a fresh slot appended (the `available = 0` branch of `get`, and every step of `getMany`) -/
theorem fresh_rel (sl : Slots) (hs : List Entity) (lv : List Bool) (h : SlotRel sl hs lv) :
    SlotRel { sl with ents := sl.ents ++ [⟨sl.ents.length, 0⟩] } (hs ++ [⟨sl.ents.length, 0⟩]) (lv ++ [true]) := by
  have hc : chain (sl.ents ++ [⟨sl.ents.length, 0⟩]) sl.next sl.available = chain sl.ents sl.next sl.available := by
    apply chain_congr
    intro i hi
    rw [nth_append_left z _ _ i (h.chain_rng i hi).2]
  have hslot : ∀ j, j < sl.ents.length →
      nth z (sl.ents ++ [⟨sl.ents.length, 0⟩]) j = nth z sl.ents j := by
    intro j hj
    exact nth_append_left z _ _ j hj
  have hlen := h.len_eq
  constructor
  · simp [h.len_eq]
  · simp
  · simpa [hc] using h.chain_nodup
  · intro i hi
    simp only [hc] at hi
    have := h.chain_rng i hi
    simp; omega
  · rw [List.nodup_append]
    refine ⟨h.nodup, by simp, ?_⟩
    intro a ha b hb
    simp at hb; subst hb
    intro e; subst e
    have := (h.rng _ ha).2
    simp at this
  · intro e he
    rcases List.mem_append.mp he with he | he
    · have := h.rng e he; simp; omega
    · simp at he; subst he
      have := h.pos
      simp; omega
  · intro i hi hl
    simp only [hc]
    by_cases hlt : i < hs.length
    · rw [nth_append_left z _ _ i hlt]
      rw [nth_append_left false _ _ i (by omega)] at hl
      have := h.liv i hlt hl
      rw [hslot _ (h.rng _ (nth_mem z hs i hlt)).2]
      exact this
    · have hie : i = hs.length := by simp at hi; omega
      subst hie
      rw [nth_append_len]
      show (0:Nat) = (nth z (sl.ents ++ [⟨sl.ents.length, 0⟩]) sl.ents.length).gen ∧ _
      rw [nth_append_len]
      refine ⟨rfl, ?_⟩
      intro hm
      have := (h.chain_rng _ hm).2
      simp at this
  · intro i hi hl
    by_cases hlt : i < hs.length
    · rw [nth_append_left z _ _ i hlt]
      rw [nth_append_left false _ _ i (by omega)] at hl
      have := h.dead i hlt hl
      rw [hslot _ (h.rng _ (nth_mem z hs i hlt)).2]
      exact this
    · have hie : i = lv.length := by simp at hi; omega
      subst hie
      rw [nth_append_len] at hl
      simp at hl


/-- `get()` -/
theorem get_rel (sl : Slots) (hs : List Entity) (lv : List Bool) (h : SlotRel sl hs lv) :
    SlotRel sl.get.2 (hs ++ [sl.get.1]) (lv ++ [true]) := by
  unfold Slots.get
  by_cases ha : sl.available = 0
  · rw [if_pos ha]
    exact fresh_rel sl hs lv h
  · rw [if_neg ha]
    simp only [slot_eq]
    obtain ⟨k, hk⟩ : ∃ k, sl.available = k + 1 := ⟨sl.available - 1, by omega⟩
    have hch : chain sl.ents sl.next sl.available = sl.next :: chain sl.ents (nth z sl.ents sl.next).id k := by
      rw [hk]; rfl
    have hnd := h.chain_nodup
    rw [hch, List.nodup_cons] at hnd
    have hrng := h.chain_rng
    rw [hch] at hrng
    have hnext := hrng sl.next (by simp)
    have hk' : sl.available - 1 = k := by omega
    rw [hk']
    -- the new chain is the tail of the old one
    have hc : chain (sl.ents.set sl.next ⟨sl.next, (nth z sl.ents sl.next).gen⟩) (nth z sl.ents sl.next).id k
        = chain sl.ents (nth z sl.ents sl.next).id k := by
      apply chain_congr
      intro i hi
      rw [nth_set_ne]
      intro e; subst e; exact hnd.1 hi
    have hslot : ∀ j, (nth z (sl.ents.set sl.next ⟨sl.next, (nth z sl.ents sl.next).gen⟩) j).gen = (nth z sl.ents j).gen := by
      intro j
      simp only [nth_set]
      by_cases e : sl.next = j
      · subst e; simp [hnext.2]
      · simp [e]
    have hlen := h.len_eq
    constructor
    · simp [h.len_eq]
    · simpa using h.pos
    · simp only [hc]; exact hnd.2
    · intro i hi
      simp only [hc] at hi
      have := hrng i (by simp [hi])
      simpa using this
    · rw [List.nodup_append]
      refine ⟨h.nodup, by simp, ?_⟩
      intro a ha' b hb
      simp only [List.mem_singleton] at hb; subst hb
      intro e; subst e
      obtain ⟨i, hi, he⟩ := exists_nth_of_mem z hs _ ha'
      cases hl : nth false lv i with
      | true =>
        have := (h.liv i hi hl).2
        rw [he, hch] at this
        simp at this
      | false =>
        have := h.dead i hi hl
        rw [he] at this
        simp at this
    · intro e he
      rcases List.mem_append.mp he with he | he
      · have := h.rng e he; simpa using this
      · simp only [List.mem_singleton] at he; subst he; simpa using hnext
    · intro i hi hl
      simp only [hc, hslot]
      by_cases hlt : i < hs.length
      · rw [nth_append_left z _ _ i hlt]
        rw [nth_append_left false _ _ i (by omega)] at hl
        have := h.liv i hlt hl
        rw [hch] at this
        refine ⟨this.1, ?_⟩
        intro hm; exact this.2 (by simp [hm])
      · have hie : i = hs.length := by simp at hi; omega
        subst hie
        rw [nth_append_len]
        exact ⟨rfl, hnd.1⟩
    · intro i hi hl
      simp only [hslot]
      by_cases hlt : i < hs.length
      · rw [nth_append_left z _ _ i hlt]
        rw [nth_append_left false _ _ i (by omega)] at hl
        exact h.dead i hlt hl
      · have hie : i = lv.length := by simp at hi; omega
        subst hie
        rw [nth_append_len] at hl
        simp at hl

/-- `recycle(hs[i])` for a living name `i` -/
theorem recycle_rel (sl : Slots) (hs : List Entity) (lv : List Bool) (h : SlotRel sl hs lv) (i : Nat)
    (hi : i < hs.length) (hl : nth false lv i = true) :
    SlotRel (sl.recycle (nth z hs i)) hs (lv.set i false) := by
  unfold Slots.recycle
  simp only [slot_eq]
  have hliv := h.liv i hi hl
  have hr := h.rng _ (nth_mem z hs i hi)
  have hc : chain (sl.ents.set (nth z hs i).id ⟨sl.next, (nth z sl.ents (nth z hs i).id).gen + 1⟩) (nth z hs i).id (sl.available + 1)
      = (nth z hs i).id :: chain sl.ents sl.next sl.available := by
    simp only [chain]
    rw [nth_set_eq z _ _ _ hr.2]
    congr 1
    apply chain_congr
    intro j hj
    rw [nth_set_ne]
    intro e; subst e; exact hliv.2 hj
  have hslot : ∀ j, (nth z (sl.ents.set (nth z hs i).id ⟨sl.next, (nth z sl.ents (nth z hs i).id).gen + 1⟩) j).gen =
      if j = (nth z hs i).id then (nth z sl.ents j).gen + 1 else (nth z sl.ents j).gen := by
    intro j
    simp only [nth_set]
    by_cases e : (nth z hs i).id = j
    · subst e; simp [hr.2]
    · have : ¬ j = (nth z hs i).id := fun x => e x.symm
      simp [e, this]
  have hlen := h.len_eq
  constructor
  · simp [h.len_eq]
  · simpa using h.pos
  · simp only [hc, List.nodup_cons]; exact ⟨hliv.2, h.chain_nodup⟩
  · intro j hj
    simp only [hc, List.mem_cons] at hj
    rcases hj with e | hj
    · subst e; simpa using hr
    · simpa using h.chain_rng j hj
  · exact h.nodup
  · intro e he; simpa using h.rng e he
  · intro j hj hlj
    rw [nth_set] at hlj
    have hji : i ≠ j := by
      intro e; subst e; simp [← hlen, hi] at hlj
    simp only [hji, false_and, if_false] at hlj
    have hj' := h.liv j hj hlj
    have hne : (nth z hs j).id ≠ (nth z hs i).id := by
      intro e
      have : nth z hs j = nth z hs i := by
        have h1 := hj'.1; have h2 := hliv.1
        rw [e] at h1
        cases hx : nth z hs j; cases hy : nth z hs i
        rw [hx, hy] at e h1; rw [hy] at h2
        simp at e h1 h2 ⊢
        exact ⟨e, by omega⟩
      exact hji (nth_inj z hs h.nodup j i hj hi this).symm
    simp only [hc, hslot, hne, if_false, List.mem_cons, false_or]
    exact ⟨hj'.1, hj'.2⟩
  · intro j hj hlj
    simp only [hslot]
    rw [nth_set] at hlj
    by_cases hji : i = j
    · subst hji; simp; 
      have := hliv.1; omega
    · simp only [hji, false_and, if_false] at hlj
      have := h.dead j hj hlj
      by_cases e : (nth z hs j).id = (nth z hs i).id
      · simp [e]; rw [e] at this; omega
      · simp [e]; exact this

/-- `getMany(n)` -/
theorem getMany_rel (n : Nat) : ∀ (sl : Slots) (hs : List Entity) (lv : List Bool), SlotRel sl hs lv →
    SlotRel (sl.getMany n).2 (hs ++ (sl.getMany n).1) (lv ++ List.replicate n true) ∧
      (sl.getMany n).1.length = n := by
  induction n with
  | zero => intro sl hs lv h; simpa [Slots.getMany] using h
  | succ n ih =>
    intro sl hs lv h
    have := ih _ _ _ (fresh_rel sl hs lv h)
    simp only [Slots.getMany, List.length_cons, this.2, and_true]
    have e1 : hs ++ ⟨sl.ents.length, 0⟩ :: (Slots.getMany { sl with ents := sl.ents ++ [⟨sl.ents.length, 0⟩] } n).1
        = (hs ++ [⟨sl.ents.length, 0⟩]) ++ (Slots.getMany { sl with ents := sl.ents ++ [⟨sl.ents.length, 0⟩] } n).1 := by
      simp
    have e2 : lv ++ List.replicate (n + 1) true = (lv ++ [true]) ++ List.replicate n true := by
      simp [List.replicate_succ]
    rw [e1, e2]
    exact this.1

end MV.Lemmas.ECSSlots
