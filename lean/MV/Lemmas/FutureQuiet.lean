import MV.Lemmas.FutureAsk
/-!
# Invariants of the future model, part 4 (asks only): what is left when the completion section is over

`RelInv` (address released, timer not pending), `HangInv` (a future with a timeout has a live timer
until it is closed), `FwdInv` (forward targets).
-/
namespace MV.Model.Future
open MV.Model.Conc

variable {c : Cfg}

/-- won the CAS of `k`, `Unregister` still ahead -/
def preUnreg (k : Nat) : PC → Bool
  | .setRes j _ _ | .closeDone j | .stopT j | .unreg j => decide (j = k)
  | _ => false

/-- won the CAS of `k`, `timer.Stop` still ahead -/
def preStop (k : Nat) : PC → Bool
  | .setRes j _ _ | .closeDone j | .stopT j => decide (j = k)
  | _ => false

/-- won the CAS of `k`, `execForward` still ahead -/
def preLock (k : Nat) : PC → Bool
  | .setRes j _ _ | .closeDone j | .stopT j | .unreg j | .cLock j => decide (j = k)
  | _ => false

structure RelInv (s : State) : Prop where
  reg : ∀ k, k < s.g.nfut → (s.g.futs k).closed = true →
    0 < s.ths.countP (preUnreg k) ∨ s.g.reg (s.g.futs k).addr ≠ some k
  timer : ∀ k, k < s.g.nfut → (s.g.futs k).closed = true →
    0 < s.ths.countP (preStop k) ∨ (s.g.futs k).timerActive = false
  fwd : ∀ k, k < s.g.nfut → (s.g.futs k).closed = true →
    0 < s.ths.countP (preLock k) ∨ (s.g.futs k).forwards = []
  req : ∀ k, k < s.g.nfut → (s.g.futs k).fwdReq = (s.g.futs k).fwdLog.map (·.1) ++ (s.g.futs k).forwards

theorem rel_step (S : Sys G PC) (hS : S.trans = trans c) (s s' : State) (i : Nat)
    (hr : RegInv s) (hb : BndInv s) (hph : PhaseInv s) (hl : LiveInv s) (h : RelInv s)
    (hs : step S s i = some s') : RelInv s' := by
  obtain ⟨pc, pc', sp, hpc, ht, -, hc⟩ := step_spec2 S s s' i hs
  have hb1 := hb pc hpc
  have hl1 := hl.th pc hpc
  rw [hS] at ht
  have hrc := hl.rc
  unfold RegInv at hr
  constructor
  · intro k hk
    have k1 := hc (preUnreg k)
    have q := h.reg k
    split_trans
    all_goals (
      take_ht
      (try rw [← hg] at hk)
      simp only [preUnreg, if_false, Bool.false_eq_true, List.countP_nil, List.countP_cons, Nat.add_zero] at k1
      simp only [live, bnd, upd, updR, execFwd] at *
      (try grind))
  · intro k hk
    have k1 := hc (preStop k)
    have q := h.timer k
    have q2 := hph k
    have q3 := hl.closed k
    have hpos := countP_pos_of_mem (p := isInit k) hpc
    unfold flag at q2
    split_trans
    all_goals (
      take_ht
      (try rw [← hg] at hk)
      simp only [preStop, isInit, if_false, Bool.false_eq_true, List.countP_nil, List.countP_cons, Nat.add_zero] at k1 hpos
      simp only [live, bnd, upd, execFwd] at *
      (try grind))
  · intro k hk
    have k1 := hc (preLock k)
    have q := h.fwd k
    split_trans
    all_goals (
      take_ht
      (try rw [← hg] at hk)
      simp only [preLock, if_false, Bool.false_eq_true, List.countP_nil, List.countP_cons, Nat.add_zero] at k1
      simp only [live, bnd, upd, execFwd] at *
      (try grind))
  · intro k hk
    have q := h.req k
    split_trans
    all_goals (
      take_ht
      (try rw [← hg] at hk)
      simp only [live, bnd, upd, execFwd] at *
      (try (first | grind | (split <;> simp_all [List.map_append, List.map_map, Function.comp_def]))))

/-! ## a future with a timeout cannot be left behind -/

def isTimer (k : Nat) : PC → Bool
  | .timer j => decide (j = k)
  | _ => false

def isCas (k : Nat) : PC → Bool
  | .cas j _ _ => decide (j = k)
  | _ => false

/-- a future with a timeout whose `New` has returned is closed, or its timer is pending and the
runtime's timer thread is there, or somebody is about to try the completion CAS -/
def HangInv (s : State) : Prop :=
  ∀ k, k < s.g.nfut → (s.g.futs k).ready = true → (s.g.futs k).tmo = true →
    (s.g.futs k).closed = true ∨ ((s.g.futs k).timerActive = true ∧ 0 < s.ths.countP (isTimer k)) ∨
      0 < s.ths.countP (isCas k)

theorem hang_step (S : Sys G PC) (hS : S.trans = trans c) (s s' : State) (i : Nat)
    (hb : BndInv s) (hsec : SectInv s) (hph : PhaseInv s) (hl : LiveInv s) (hu : UniqInv s) (hr : RegInv s)
    (h : HangInv s) (hs : step S s i = some s') : HangInv s' := by
  obtain ⟨pc, pc', sp, hpc, ht, -, hc⟩ := step_spec2 S s s' i hs
  have hb1 := hb pc hpc
  have hl1 := hl.th pc hpc
  have hs1 := hsec.1 pc hpc
  rw [hS] at ht
  intro k hk
  have k1 := hc (isTimer k)
  have k2 := hc (isCas k)
  have q := h k
  have q2 := hph k
  have hpos := countP_pos_of_mem (p := isInit k) hpc
  have hposN := fun a => countP_pos_of_mem (p := isNew a) hpc
  have hused := hu.used
  unfold RegInv at hr
  unfold flag at q2
  split_trans
  all_goals (
    take_ht
    (try rw [← hg] at hk)
    simp only [isTimer, isCas, isInit, isNew, if_false, Bool.false_eq_true, List.countP_nil, List.countP_cons,
      Nat.add_zero] at k1 k2 hpos hposN
    simp only [live, sect, bnd, upd, execFwd] at *
    (try grind))

end MV.Model.Future
