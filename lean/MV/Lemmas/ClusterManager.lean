import MV.Model.ClusterManager
/-!
# Lemmas about the cluster manager model (C13)

* `lookupPure` — what `onActorOf` computes; `onActorOf_eq` shows the handler never panics.
* `WF` — the invariant of the manager's state and its preservation by every step.
* persistence of a member entry over steps that neither kill that pair nor restart the manager.
* injectivity of `nameOf` under the dash-free guard.
-/
namespace MV.Model.ClusterManager

/-! ## the handler as a total function -/

/-- the state after creating the actor of (i, a) -/
def spawned (s : Mgr) (i a : Name) : Mgr × Ref :=
  let name := nameOf i a
  ({ s with children := name :: s.children, launched := name :: s.launched,
            members := ((a, i), ⟨name, (name :: s.launched).count name⟩) :: s.members },
   ⟨name, (name :: s.launched).count name⟩)

/-- can the actor of (i, a) be created in `s`? -/
def creatable (s : Mgr) (i a : Name) : Bool :=
  legalName i && legalName a && !(decide (nameOf i a ∈ s.children))

def lookupPure (s : Mgr) (i a : Name) : Mgr × Reply :=
  if a ∉ s.abilities then (s, .errAbility)
  else match find s.members (a, i) with
    | some r => (s, .ref r)
    | none =>
      if creatable s i a then ((spawned s i a).1, .ref (spawned s i a).2) else (s, .errCreate)

theorem onActorOf_eq (s : Mgr) (i a : Name) : onActorOf s i a = .ok (lookupPure s i a) := by
  unfold onActorOf lookupPure
  by_cases ha : a ∈ s.abilities
  · cases hf : find s.members (a, i) with
    | some r => simp [ha, pure, Except.pure]
    | none =>
      by_cases hi : legalName i = true
      · by_cases hl : legalName a = true
        · by_cases hc : nameOf i a ∈ s.children
          · simp [ha, hi, hl, hc, creatable, actorOf, ctxActorOf, withName, pure, Except.pure,
              bind, Except.bind]
          · simp [ha, hi, hl, hc, creatable, spawned, actorOf, ctxActorOf, withName, pure,
              Except.pure, bind, Except.bind]
        · simp [ha, hi, hl, creatable, actorOf, ctxActorOf, withName, pure, Except.pure,
            bind, Except.bind]
      · simp [ha, hi, creatable, actorOf, ctxActorOf, withName, pure, Except.pure,
          bind, Except.bind]
  · simp [ha, pure, Except.pure]

theorem step_lookup (s : Mgr) (i a : Name) :
    step s (.lookup i a) = ((lookupPure s i a).1, .reply (lookupPure s i a).2) := by
  simp [step, onActorOf_eq]

/-! ## `find` -/

theorem find_mem {l : List (Key × Ref)} {k : Key} {r : Ref} (h : find l k = some r) : (k, r) ∈ l := by
  induction l with
  | nil => simp [find] at h
  | cons e rest ih =>
    obtain ⟨k0, r0⟩ := e
    unfold find at h
    by_cases hk : k0 = k
    · simp [hk] at h; subst hk; subst h; simp
    · simp [hk] at h; exact List.mem_cons_of_mem _ (ih h)

theorem find_isSome_of_mem {l : List (Key × Ref)} {k : Key} {r : Ref} (h : (k, r) ∈ l) :
    ∃ r', find l k = some r' := by
  induction l with
  | nil => simp at h
  | cons e rest ih =>
    obtain ⟨k0, r0⟩ := e
    unfold find
    by_cases hk : k0 = k
    · exact ⟨r0, by simp [hk]⟩
    · simp only [hk, if_false]
      rcases List.mem_cons.mp h with h | h
      · exact absurd (congrArg Prod.fst h).symm hk
      · exact ih h

theorem find_cons_ne {l : List (Key × Ref)} {k k' : Key} {r : Ref} (h : k ≠ k') :
    find ((k, r) :: l) k' = find l k' := by
  simp [find, h]

/-- the first entry of `k` survives a filter that keeps it -/
theorem find_filter {l : List (Key × Ref)} {k : Key} {r : Ref} {p : Key × Ref → Bool}
    (h : find l k = some r) (hp : p (k, r) = true) : find (l.filter p) k = some r := by
  induction l with
  | nil => simp [find] at h
  | cons e rest ih =>
    obtain ⟨k0, r0⟩ := e
    unfold find at h
    by_cases hk : k0 = k
    · simp [hk] at h; subst hk; subst h
      simp [List.filter, hp, find]
    · simp [hk] at h
      by_cases hq : p (k0, r0) = true
      · simp [List.filter, hq, find, hk, ih h]
      · simp [List.filter, hq, ih h]

/-- an absent key stays absent in a filtered table -/
theorem find_filter_none {l : List (Key × Ref)} {k : Key} {p : Key × Ref → Bool}
    (h : find l k = none) : find (l.filter p) k = none := by
  induction l with
  | nil => simp [find]
  | cons e rest ih =>
    obtain ⟨k0, r0⟩ := e
    unfold find at h
    by_cases hk : k0 = k
    · simp [hk] at h
    · simp [hk] at h
      by_cases hq : p (k0, r0) = true
      · simp [List.filter, hq, find, hk, ih h]
      · simp [List.filter, hq, ih h]

/-! ## the invariant -/

structure WF (s : Mgr) : Prop where
  /-- the children of the manager are exactly the actors it remembers -/
  children_eq : s.children = s.members.map (fun e => e.2.name)
  /-- no two children share a name (the registry refuses a taken name) -/
  nodup : s.children.Nodup
  /-- every remembered reference carries the name derived from its key, of an offered ability, and
      denotes the latest launch at its address -/
  entry : ∀ e ∈ s.members, e.2.name = nameOf e.1.2 e.1.1 ∧ e.1.1 ∈ s.abilities ∧
      legalName e.1.2 = true ∧ legalName e.1.1 = true ∧ e.2.inc = s.launched.count e.2.name
  /-- launches = terminations + (1 if alive), per address -/
  account : ∀ n, s.launched.count n = s.terminated.count n + (if n ∈ s.children then 1 else 0)

theorem wf_init (abilities : List Name) : WF (init abilities) := by
  constructor <;> simp [init]

theorem mem_children_of_mem {s : Mgr} (h : WF s) {e : Key × Ref} (he : e ∈ s.members) :
    e.2.name ∈ s.children := by
  rw [h.children_eq]; exact List.mem_map.mpr ⟨e, he, rfl⟩

/-- distinct entries have distinct names -/
theorem name_inj_of_nodup {l : List (Key × Ref)} (h : (l.map (fun e => e.2.name)).Nodup)
    {x y : Key × Ref} (hx : x ∈ l) (hy : y ∈ l) (hn : x.2.name = y.2.name) : x = y := by
  induction l with
  | nil => simp at hx
  | cons e rest ih =>
    simp only [List.map_cons, List.nodup_cons, List.mem_map, not_exists, not_and] at h
    rcases List.mem_cons.mp hx with hx | hx <;> rcases List.mem_cons.mp hy with hy | hy
    · rw [hx, hy]
    · exact absurd (by rw [← hn, hx]) (h.1 y hy)
    · exact absurd (by rw [hn, hy]) (h.1 x hx)
    · exact ih h.2 hx hy

/-- live pairs with different keys have different addresses -/
theorem distinct_names {s : Mgr} (h : WF s) {k k' : Key} {r r' : Ref}
    (hk : find s.members k = some r) (hk' : find s.members k' = some r') (hne : k ≠ k') :
    r.name ≠ r'.name := by
  intro hn
  have hnd : (s.members.map (fun e => e.2.name)).Nodup := h.children_eq ▸ h.nodup
  have := name_inj_of_nodup hnd (find_mem hk) (find_mem hk') hn
  exact hne (congrArg Prod.fst this)

theorem wf_spawned {s : Mgr} (h : WF s) {i a : Name} (ha : a ∈ s.abilities)
    (hc : creatable s i a = true) : WF (spawned s i a).1 := by
  simp only [creatable, Bool.and_eq_true, Bool.not_eq_true', decide_eq_false_iff_not] at hc
  obtain ⟨⟨hi, hl⟩, hnc⟩ := hc
  constructor
  · simp [spawned, h.children_eq]
  · simp only [spawned, List.nodup_cons]; exact ⟨hnc, h.nodup⟩
  · intro e he
    simp only [spawned, List.mem_cons] at he
    rcases he with he | he
    · subst he; simp [spawned, ha, hi, hl]
    · obtain ⟨h1, h2, h3, h4, h5⟩ := h.entry e he
      refine ⟨h1, h2, h3, h4, ?_⟩
      have hne : nameOf i a ≠ e.2.name := fun hh => hnc (hh ▸ mem_children_of_mem h he)
      simp [spawned, hne, h5]
  · intro n
    have := h.account n
    by_cases hn : nameOf i a = n
    · subst hn
      simp only [spawned, List.count_cons_self, List.mem_cons, true_or, if_true]
      simp only [hnc, if_false] at this
      omega
    · have hn' : ¬ n = nameOf i a := fun hh => hn hh.symm
      simp only [spawned, List.count_cons, beq_iff_eq, hn, if_false, List.mem_cons, hn', false_or]
      omega

theorem wf_lookup {s : Mgr} (h : WF s) (i a : Name) : WF (lookupPure s i a).1 := by
  unfold lookupPure
  by_cases ha : a ∈ s.abilities
  · cases hf : find s.members (a, i) with
    | some r => simpa [ha] using h
    | none =>
      by_cases hc : creatable s i a = true
      · simpa [ha, hc] using wf_spawned h ha hc
      · simpa [ha, hc] using h
  · simpa [ha] using h

theorem wf_onTerminated {s : Mgr} (h : WF s) {n : Name} (hn : n ∈ s.children) :
    WF (onTerminated s n) := by
  constructor
  · simp only [onTerminated, h.children_eq, List.filter_map]; rfl
  · exact List.Nodup.sublist List.filter_sublist h.nodup
  · intro e he
    simp only [onTerminated, List.mem_filter] at he
    simpa [onTerminated] using h.entry e he.1
  · intro m
    have := h.account m
    by_cases hm : n = m
    · subst hm
      simp only [onTerminated, List.count_cons_self, List.mem_filter, ne_eq, not_true_eq_false,
        decide_false, Bool.false_eq_true, and_false, if_false]
      simp only [hn, if_true] at this
      omega
    · have hm' : ¬ m = n := fun hh => hm hh.symm
      simp only [onTerminated, List.count_cons, beq_iff_eq, hm, if_false, List.mem_filter, ne_eq,
        hm', not_false_eq_true, decide_true, and_true]
      omega

theorem wf_restart {s : Mgr} (h : WF s) : WF (restart s) := by
  constructor
  · simp [restart]
  · simp [restart]
  · intro e he; simp [restart] at he
  · intro n
    have := h.account n
    have hc := List.Nodup.count (a := n) h.nodup
    simp only [restart, List.count_append, List.not_mem_nil, if_false]
    omega

theorem step_kill_some {s : Mgr} {i a : Name} {r : Ref} (h : find s.members (a, i) = some r) :
    step s (.kill i a) = (onTerminated s r.name, .killed r.name) := by
  simp [step, h]

theorem step_kill_none {s : Mgr} {i a : Name} (h : find s.members (a, i) = none) :
    step s (.kill i a) = (s, .none) := by
  simp [step, h]

theorem step_restart (s : Mgr) : step s .restart = (restart s, .restarted) := rfl

theorem wf_step {s : Mgr} (h : WF s) (op : Op) : WF (step s op).1 := by
  cases op with
  | lookup i a => rw [step_lookup]; exact wf_lookup h i a
  | kill i a =>
    cases hf : find s.members (a, i) with
    | some r =>
      rw [step_kill_some hf]
      exact wf_onTerminated h (mem_children_of_mem h (find_mem hf))
    | none => rw [step_kill_none hf]; exact h
  | restart => exact wf_restart h

theorem run_nil (s : Mgr) : run s [] = (s, []) := rfl

theorem run_cons (s : Mgr) (op : Op) (ops : List Op) :
    run s (op :: ops) = ((run (step s op).1 ops).1, (step s op).2 :: (run (step s op).1 ops).2) := rfl

theorem wf_run {s : Mgr} (h : WF s) (ops : List Op) : WF (run s ops).1 := by
  induction ops generalizing s with
  | nil => exact h
  | cons op ops ih => rw [run_cons]; exact ih (wf_step h op)

/-! ## persistence of a live pair -/

/-- the step neither restarts the manager nor kills the pair (i, a) -/
def quiet (i a : Name) : Op → Prop
  | .restart => False
  | .kill i' a' => ¬ (i' = i ∧ a' = a)
  | .lookup _ _ => True

theorem find_lookupPure {s : Mgr} {k : Key} {r : Ref} (hk : find s.members k = some r)
    (i a : Name) : find (lookupPure s i a).1.members k = some r := by
  unfold lookupPure
  by_cases ha : a ∈ s.abilities
  · cases hf : find s.members (a, i) with
    | some r' => simpa [ha] using hk
    | none =>
      by_cases hc : creatable s i a = true
      · have hne : (a, i) ≠ k := by
          intro hh; rw [hh] at hf; rw [hf] at hk; cases hk
        simpa [ha, hc, spawned, find_cons_ne hne] using hk
      · simpa [ha, hc] using hk
  · simpa [ha] using hk

theorem find_step_quiet {s : Mgr} (h : WF s) {i a : Name} {r : Ref}
    (hk : find s.members (a, i) = some r) {op : Op} (hq : quiet i a op) :
    find (step s op).1.members (a, i) = some r := by
  cases op with
  | lookup i' a' => rw [step_lookup]; exact find_lookupPure hk i' a'
  | kill i' a' =>
    cases hf : find s.members (a', i') with
    | some r' =>
      have hne : (a, i) ≠ (a', i') := by
        intro hh; injection hh with h1 h2; exact hq ⟨h2.symm, h1.symm⟩
      have hn := distinct_names h hk hf hne
      rw [step_kill_some hf]
      exact find_filter (p := fun e => decide (e.2.name ≠ r'.name)) hk (by simpa using hn)
    | none => rw [step_kill_none hf]; exact hk
  | restart => exact absurd hq (by simp [quiet])

theorem find_run_quiet {s : Mgr} (h : WF s) {i a : Name} {r : Ref}
    (hk : find s.members (a, i) = some r) (ops : List Op) (hq : ∀ op ∈ ops, quiet i a op) :
    find (run s ops).1.members (a, i) = some r := by
  induction ops generalizing s with
  | nil => exact hk
  | cons op ops ih =>
    rw [run_cons]
    exact ih (wf_step h op) (find_step_quiet h hk (hq op (by simp)))
      (fun o ho => hq o (List.mem_cons_of_mem _ ho))

/-! ## the name of a pair -/

theorem append_dash_inj {i₁ i₂ a₁ a₂ : Name} (h₁ : '-' ∉ i₁) (h₂ : '-' ∉ i₂)
    (h : i₁ ++ '-' :: a₁ = i₂ ++ '-' :: a₂) : i₁ = i₂ ∧ a₁ = a₂ := by
  induction i₁ generalizing i₂ with
  | nil =>
    cases i₂ with
    | nil => simpa using h
    | cons c cs =>
      simp only [List.nil_append, List.cons_append, List.cons.injEq] at h
      exact absurd (h.1 ▸ List.mem_cons_self) h₂
  | cons c cs ih =>
    cases i₂ with
    | nil =>
      simp only [List.nil_append, List.cons_append, List.cons.injEq] at h
      exact absurd (h.1 ▸ List.mem_cons_self) h₁
    | cons d ds =>
      simp only [List.cons_append, List.cons.injEq] at h
      have := ih (i₂ := ds) (fun hh => h₁ (List.mem_cons_of_mem _ hh))
        (fun hh => h₂ (List.mem_cons_of_mem _ hh)) h.2
      exact ⟨by rw [h.1, this.1], this.2⟩

end MV.Model.ClusterManager
