import MV.Lemmas.AStarSearch
/-!
The A* loop over an abstract lawful priority queue: fuel bound and optimality (consistent heuristic).
Core Lean only.
-/
namespace MV.Lemmas.AStar
open MV.Model.AStar MV.Spec.AStar

variable {pq : PQ} (L : Lawful pq) (G : Graph) (s goal : Nat) (h : Nat → Nat)

/-! ### fuel -/

def deg (v : Nat) : Nat := (G.nbrs v).length

/-- total degree of the nodes of `l` that are not closed -/
def openDegL (closed : List Nat) : List Nat → Nat
  | [] => 0
  | a :: r => (if closed.contains a then 0 else deg G a) + openDegL closed r

theorem openDegL_notin (closed : List Nat) (x : Nat) : ∀ (l : List Nat), x ∉ l →
    openDegL G (x :: closed) l = openDegL G closed l := by
  intro l
  induction l with
  | nil => intro _; rfl
  | cons a r ih =>
    intro hx
    have hax : a ≠ x := fun h => hx (h ▸ List.mem_cons_self)
    have hxr : x ∉ r := fun h => hx (List.mem_cons_of_mem _ h)
    have hb : (a == x) = false := by simpa using hax
    simp only [openDegL, List.contains_cons, hb, Bool.false_or, ih hxr]

theorem openDegL_close (closed : List Nat) (x : Nat) (hx : x ∉ closed) :
    ∀ (l : List Nat), l.Nodup → x ∈ l → openDegL G (x :: closed) l + deg G x = openDegL G closed l := by
  intro l
  induction l with
  | nil => intro _ h; simp at h
  | cons a r ih =>
    intro hn hm
    have hnr : r.Nodup := (List.nodup_cons.1 hn).2
    have har : a ∉ r := (List.nodup_cons.1 hn).1
    by_cases hax : a = x
    · subst hax
      have hca : closed.contains a = false := by simpa using hx
      simp only [openDegL, List.contains_cons, BEq.rfl, Bool.true_or, if_true, hca, Bool.false_eq_true, if_false,
        openDegL_notin G closed a r har]
      omega
    · have hxr : x ∈ r := by
        rcases List.mem_cons.1 hm with h1 | h1
        · exact absurd h1.symm hax
        · exact h1
      have := ih hnr hxr
      have hb : (a == x) = false := by simpa using hax
      simp only [openDegL, List.contains_cons, hb, Bool.false_or]
      omega

theorem openDegL_nil (l : List Nat) : openDegL G [] l = (l.map fun v => (G.nbrs v).length).sum := by
  induction l with
  | nil => rfl
  | cons a r ih => simp [openDegL, ih, deg]

def openDeg (closed : List Nat) : Nat := openDegL G closed (List.range G.n)

theorem openDeg_nil : openDeg G [] = degSum G := by
  unfold openDeg degSum
  exact openDegL_nil G _

theorem openDeg_close (closed : List Nat) (x : Nat) (hx : x ∉ closed) (hn : x < G.n) :
    openDeg G (x :: closed) + deg G x = openDeg G closed :=
  openDegL_close G closed x hx _ List.nodup_range (List.mem_range.2 hn)

theorem loop_fuel (hwf : WF G) : ∀ (fuel : Nat) (q : pq.Q) (closed : List Nat), L.inv q →
    (∀ e ∈ L.elems q, last e.path < G.n) → (L.elems q).length + openDeg G closed < fuel →
    loop pq G goal h fuel q closed ≠ .outOfFuel := by
  intro fuel
  induction fuel with
  | zero => intro q closed _ _ hlt; omega
  | succ f ih =>
    intro q closed hq hb hlt
    cases hp : pq.pop q with
    | none => simp [loop, hp]
    | some r =>
      obtain ⟨e, q'⟩ := r
      obtain ⟨hq', hperm, _⟩ := L.pop_some q e q' hq hp
      have hlen : (L.elems q).length = (L.elems q').length + 1 := by rw [hperm.length_eq]; simp
      have hm := mem_pop L q q' e hq hp
      have hb' : ∀ x ∈ L.elems q', last x.path < G.n := fun x hx => hb x ((hm x).2 (Or.inr hx))
      have he : last e.path < G.n := hb e ((hm e).2 (Or.inl rfl))
      simp only [loop, hp]
      by_cases hc : closed.contains (last e.path) = true
      · rw [if_pos hc]; exact ih q' closed hq' hb' (by omega)
      · rw [if_neg hc]
        by_cases hg : last e.path = goal
        · rw [if_pos hg]; simp
        · rw [if_neg hg]
          have hnc : last e.path ∉ closed := by simpa using hc
          have hod := openDeg_close G closed (last e.path) hnc he
          have hmem := mem_pushNbrs L G h e.path (G.nbrs (last e.path)) q' hq'
          apply ih _ _ (pushNbrs_spec L G h e.path _ q' hq').1
          · intro x hx
            rcases (hmem x).1 hx with ⟨nb, hnb, rfl⟩ | hx'
            · simp only [entryOf, last_append_singleton]; exact hwf _ he _ hnb
            · exact hb' x hx'
          · rw [length_pushNbrs L G h e.path _ q' hq']; unfold deg at hod; omega

/-! ### optimality -/

/-- extra invariant for a consistent heuristic: keys bound path costs from above, and the frontier
    witnesses have keys below every walk through a closed predecessor -/
structure InvO (q : pq.Q) (closed : List Nat) : Prop where
  keys : ∀ e ∈ L.elems q, pathCost G.cost e.path = 0 ∨ pathCost G.cost e.path + h (last e.path) ≤ e.key
  startO : s ∈ closed ∨ ∃ e ∈ L.elems q, last e.path = s ∧ e.key ≤ h s
  frontO : ∀ y ∈ closed, ∀ x ∈ G.nbrs y, x ∈ closed ∨
    ∃ e ∈ L.elems q, last e.path = x ∧ ∀ c, Reach G s y c → e.key ≤ c + G.cost y x + h x

theorem invO_init : InvO L G s h (pq.push pq.empty { key := 0, path := [s] }) [] := by
  have hp := L.push_perm pq.empty { key := 0, path := [s] } L.inv_empty
  rw [L.elems_empty] at hp
  have hm : ∀ x, x ∈ L.elems (pq.push pq.empty { key := 0, path := [s] }) ↔ x = { key := 0, path := [s] } := by
    intro x; rw [hp.mem_iff]; simp
  refine ⟨?_, Or.inr ⟨_, (hm _).2 rfl, rfl, Nat.zero_le _⟩, ?_⟩
  · intro e he; rw [hm] at he; subst he; exact Or.inl rfl
  · intro y hy; simp at hy

/-- every walk to `y` is bounded below (in key terms) by some queued entry, unless `y` is closed -/
theorem reach_lt (hwf : WF G) (hs : s < G.n) {y c : Nat} (hr : Reach G s y c) : y < G.n := by
  induction hr with
  | base => exact hs
  | step _ hx ih => exact hwf _ ih _ hx

theorem key_lower_bound (hwf : WF G) (hs : s < G.n) (hcons : Consistent G h) {q : pq.Q} {closed : List Nat} (O : InvO L G s h q closed)
    {y c : Nat} (hr : Reach G s y c) : y ∈ closed ∨ ∃ e ∈ L.elems q, e.key ≤ c + h y := by
  induction hr with
  | base =>
    rcases O.startO with h1 | ⟨e, he, _, hk⟩
    · exact Or.inl h1
    · exact Or.inr ⟨e, he, by omega⟩
  | @step y x c hr hx ih =>
    rcases ih with hyc | ⟨e, he, hk⟩
    · rcases O.frontO y hyc x hx with h1 | ⟨e, he, _, hk⟩
      · exact Or.inl h1
      · exact Or.inr ⟨e, he, hk c hr⟩
    · have := hcons y (reach_lt G s hwf hs hr) x hx
      exact Or.inr ⟨e, he, by omega⟩

/-- the popped (minimum-key) entry ending in a non-closed node is a cheapest walk to that node -/
theorem popped_optimal (hwf : WF G) (hs : s < G.n) (hcons : Consistent G h) {q q' : pq.Q} {closed : List Nat} {e : Entry}
    (hq : L.inv q) (O : InvO L G s h q closed) (hp : pq.pop q = some (e, q'))
    (hnc : last e.path ∉ closed) {c : Nat} (hr : Reach G s (last e.path) c) : pathCost G.cost e.path ≤ c := by
  have hmin := (L.pop_some q e q' hq hp).2.2
  have hm := mem_pop L q q' e hq hp
  rcases key_lower_bound L G s h hwf hs hcons O hr with h1 | ⟨e', he', hk⟩
  · exact absurd h1 hnc
  · have h2 := hmin e' he'
    rcases O.keys e ((hm e).2 (Or.inl rfl)) with h0 | h3
    · omega
    · omega

theorem invO_skip {q q' : pq.Q} {closed : List Nat} {e : Entry} (hq : L.inv q) (O : InvO L G s h q closed)
    (hp : pq.pop q = some (e, q')) (hc : last e.path ∈ closed) : InvO L G s h q' closed := by
  have hm := mem_pop L q q' e hq hp
  refine ⟨fun x hx => O.keys x ((hm x).2 (Or.inr hx)), ?_, ?_⟩
  · rcases O.startO with h1 | ⟨x, hx, hl, hk⟩
    · exact Or.inl h1
    · rcases (hm x).1 hx with rfl | hx'
      · exact Or.inl (hl ▸ hc)
      · exact Or.inr ⟨x, hx', hl, hk⟩
  · intro y hy x hx
    rcases O.frontO y hy x hx with h1 | ⟨z, hz, hl, hk⟩
    · exact Or.inl h1
    · rcases (hm z).1 hz with rfl | hz'
      · exact Or.inl (hl ▸ hc)
      · exact Or.inr ⟨z, hz', hl, hk⟩

theorem invO_expand (hwf : WF G) (hs : s < G.n) (hcons : Consistent G h) {q q' : pq.Q} {closed : List Nat} {e : Entry}
    (I : InvB L G s goal q closed) (O : InvO L G s h q closed)
    (hp : pq.pop q = some (e, q')) (hnc : last e.path ∉ closed) :
    InvO L G s h (pushNbrs pq G h e.path (G.nbrs (last e.path)) q') (last e.path :: closed) := by
  have hq := I.qinv
  have hm := mem_pop L q q' e hq hp
  have hq' := (L.pop_some q e q' hq hp).1
  have hmem := mem_pushNbrs L G h e.path (G.nbrs (last e.path)) q' hq'
  have he : GoodPath G s e.path := I.walks e ((hm e).2 (Or.inl rfl))
  refine ⟨?_, ?_, ?_⟩
  · intro x hx
    rcases (hmem x).1 hx with ⟨nb, _, rfl⟩ | hx'
    · exact Or.inr (by simp [entryOf, last_append_singleton])
    · exact O.keys x ((hm x).2 (Or.inr hx'))
  · rcases O.startO with h1 | ⟨x, hx, hl, hk⟩
    · exact Or.inl (List.mem_cons_of_mem _ h1)
    · rcases (hm x).1 hx with rfl | hx'
      · exact Or.inl (hl ▸ List.mem_cons_self)
      · exact Or.inr ⟨x, (hmem x).2 (Or.inr hx'), hl, hk⟩
  · intro y hy x hx
    rcases List.mem_cons.1 hy with rfl | hy'
    · refine Or.inr ⟨entryOf G h e.path x, (hmem _).2 (Or.inl ⟨x, hx, rfl⟩), last_append_singleton _ _, ?_⟩
      intro c hr
      have hopt := popped_optimal L G s h hwf hs hcons hq O hp hnc hr
      simp only [entryOf, pathCost_append_singleton _ _ he.ne_nil]
      omega
    · rcases O.frontO y hy' x hx with h1 | ⟨z, hz, hl, hk⟩
      · exact Or.inl (List.mem_cons_of_mem _ h1)
      · rcases (hm z).1 hz with rfl | hz'
        · exact Or.inl (hl ▸ List.mem_cons_self)
        · exact Or.inr ⟨z, (hmem z).2 (Or.inr hz'), hl, hk⟩

theorem loop_found_optimal (hwf : WF G) (hs : s < G.n) (hcons : Consistent G h) : ∀ (fuel : Nat) (q : pq.Q) (closed : List Nat) (p : Path),
    InvB L G s goal q closed → InvO L G s h q closed →
    loop pq G goal h fuel q closed = .found p → ∀ c, Reach G s goal c → pathCost G.cost p ≤ c := by
  intro fuel
  induction fuel with
  | zero => intro q closed p _ _ hl; simp [loop] at hl
  | succ f ih =>
    intro q closed p I O hl
    cases hp : pq.pop q with
    | none => simp [loop, hp] at hl
    | some r =>
      obtain ⟨e, q'⟩ := r
      simp only [loop, hp] at hl
      by_cases hc : closed.contains (last e.path) = true
      · rw [if_pos hc] at hl
        have hc' : last e.path ∈ closed := by simpa using hc
        exact ih q' closed p (invB_skip L G s goal I hp hc') (invO_skip L G s h I.qinv O hp hc') hl
      · rw [if_neg hc] at hl
        have hnc : last e.path ∉ closed := by simpa using hc
        by_cases hg : last e.path = goal
        · rw [if_pos hg] at hl
          injection hl with hl; subst hl
          intro c hr
          exact popped_optimal L G s h hwf hs hcons I.qinv O hp hnc (hg ▸ hr)
        · rw [if_neg hg] at hl
          exact ih _ _ p (invB_expand L G s goal h I hp hg) (invO_expand L G s goal h hwf hs hcons I O hp hnc) hl

end MV.Lemmas.AStar
