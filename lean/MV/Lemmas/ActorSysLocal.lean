import MV.Lemmas.ActorSysEvents
/-!
# Local facts about single functions of the Layer-2 model (exact Hoare triples)
-/
namespace MV.Model.ActorSys
open Std.Do

def actorAt (w : World) (a : Aid) : Actor := (w.actors[a]?).getD default

theorem getA_exact (a : Aid) (Q : PostCond Actor (.except Unit (.arg World .pure))) :
    ⦃fun w => Q.1 (actorAt w a) w⦄ getA a ⦃Q⦄ := by
  unfold getA actorAt; mvcgen

theorem modA_exact (a : Aid) (f : Actor → Actor) (Q : PostCond Unit (.except Unit (.arg World .pure))) :
    ⦃fun w => Q.1 () { w with actors := w.actors.modify a f }⦄ modA a f ⦃Q⦄ := by
  unfold modA; mvcgen

/-- `tryTerminated` does nothing at all while children remain: an actor cannot reach `terminated`
(nor unregister, nor notify anybody) before its children map is empty -/
theorem tryTerminated_waits_for_children (self : Aid) (w0 : World)
    (hc : (actorAt w0 self).children ≠ []) :
    ⦃fun w => ⌜w = w0⌝⦄ tryTerminated self ⦃post⟨fun _ w => ⌜w = w0⌝, fun _ w => ⌜w = w0⌝⟩⦄ := by
  unfold tryTerminated
  mvcgen [getA_exact]
  all_goals simp_all

/-- … and nothing either unless the status is `terminating` -/
theorem tryTerminated_needs_terminating (self : Aid) (w0 : World)
    (hs : (actorAt w0 self).status ≠ .terminating) :
    ⦃fun w => ⌜w = w0⌝⦄ tryTerminated self ⦃post⟨fun _ w => ⌜w = w0⌝, fun _ w => ⌜w = w0⌝⟩⦄ := by
  unfold tryTerminated
  mvcgen [getA_exact]
  all_goals simp_all

/-- `onTerminate` ignores the request unless the actor is alive (CAS alive → terminating) -/
theorem onTerminate_only_when_alive (self : Aid) (g : Bool) (w0 : World)
    (hs : (actorAt w0 self).status ≠ .alive) :
    ⦃fun w => ⌜w = w0⌝⦄ onTerminate self g ⦃post⟨fun _ w => ⌜w = w0⌝, fun _ w => ⌜w = w0⌝⟩⦄ := by
  unfold onTerminate
  mvcgen [getA_exact]
  all_goals simp_all

/-- `onRestart` ignores the request unless the actor is alive (CAS alive → restarting) -/
theorem onRestart_only_when_alive (self : Aid) (w0 : World)
    (hs : (actorAt w0 self).status ≠ .alive) :
    ⦃fun w => ⌜w = w0⌝⦄ onRestart self ⦃post⟨fun _ w => ⌜w = w0⌝, fun _ w => ⌜w = w0⌝⟩⦄ := by
  unfold onRestart
  mvcgen [getA_exact]
  all_goals simp_all

/-- `ReportAbnormal` of a non-alive actor has no effect -/
theorem reportAbnormal_only_when_alive (self : Aid) (w0 : World)
    (hs : (actorAt w0 self).status ≠ .alive) :
    ⦃fun w => ⌜w = w0⌝⦄ reportAbnormal self ⦃post⟨fun _ w => ⌜w = w0⌝, fun _ w => ⌜w = w0⌝⟩⦄ := by
  unfold reportAbnormal
  mvcgen [getA_exact]
  all_goals simp_all

theorem actorAt_modify_same (w : World) (a : Aid) (f : Actor → Actor) (h : a < w.actors.length) :
    actorAt { w with actors := w.actors.modify a f } a = f (actorAt w a) := by
  simp [actorAt, List.getElem?_modify, h]

theorem actorAt_modify_other (w : World) (a b : Aid) (f : Actor → Actor) (h : a ≠ b) :
    actorAt { w with actors := w.actors.modify a f } b = actorAt w b := by
  simp [actorAt, List.getElem?_modify, h]

/-- `ReportAbnormal` of an alive, registered actor: the accident is counted and the mailbox is
suspended before anything else happens -/
theorem reportAbnormal_suspends (self : Aid) (w0 : World)
    (hs : (actorAt w0 self).status = .alive) (hreg : isLive w0 self = true) :
    ⦃fun w => ⌜w = w0⌝⦄ reportAbnormal self
    ⦃post⟨fun _ w => ⌜(actorAt w self).suspended = true ∧ (actorAt w self).accidents = (actorAt w0 self).accidents + 1⌝,
          fun _ w => ⌜(actorAt w self).suspended = true ∧ (actorAt w self).accidents = (actorAt w0 self).accidents + 1⌝⟩⦄ := by
  have hlt : self < w0.actors.length := by
    unfold isLive at hreg
    cases h : w0.actors[self]? with
    | none => simp [h] at hreg
    | some x => exact (List.getElem?_eq_some_iff.mp h).1
  have hget : w0.actors[self]? = some (w0.actors[self]) := List.getElem?_eq_getElem hlt
  unfold reportAbnormal escalate sendSys pushSys
  mvcgen [getA_exact, modA_exact]
  all_goals subst_vars
  all_goals (try (simp_all [actorAt]; done))
  all_goals (simp [actorAt, isLive, List.getElem?_modify, hget] at *)
  all_goals (first | (simp_all; done) | (split <;> simp_all; done) | skip)

/-- a `Watch` sent to an address that is not (or no longer) registered is answered at once: the
watcher gets `Terminated(address)` -/
theorem watch_dead_address_answered (t sd : Aid) (w0 : World)
    (hdead : isLive w0 t = false) (hlive : isLive w0 sd = true) :
    ⦃fun w => ⌜w = w0⌝⦄ sendSys t .watch (some sd)
    ⦃post⟨fun _ w => ⌜(actorAt w sd).sysQ = (actorAt w0 sd).sysQ ++ [(.terminated t, some t)]⌝,
          fun _ _ => ⌜False⌝⟩⦄ := by
  have hlt : sd < w0.actors.length := by
    unfold isLive at hlive
    cases h : w0.actors[sd]? with
    | none => simp [h] at hlive
    | some x => exact (List.getElem?_eq_some_iff.mp h).1
  have hget : w0.actors[sd]? = some (w0.actors[sd]) := List.getElem?_eq_getElem hlt
  unfold sendSys pushSys
  mvcgen [modA_exact]
  all_goals subst_vars
  all_goals (simp [actorAt, isLive, List.getElem?_modify, hget] at *)
  all_goals (first | (simp_all; done) | skip)

/-- a `Resume` decision for a registered victim reopens its mailbox and gives it a runner; nothing
else about the victim changes (same instance, same queues) and the decision cannot fail -/
theorem decide_resume (self victim : Aid) (st : Strategy) (w0 : World)
    (hd : st.decide (actorAt w0 victim).accidents = .resume) (hlive : isLive w0 victim = true) :
    ⦃fun w => ⌜w = w0⌝⦄ MV.Model.ActorSys.decide self victim st
    ⦃post⟨fun _ w => ⌜actorAt w victim = { actorAt w0 victim with suspended := false, hasRunner := true }⌝,
          fun _ _ => ⌜False⌝⟩⦄ := by
  have hlt : victim < w0.actors.length := by
    unfold isLive at hlive
    cases h : w0.actors[victim]? with
    | none => simp [h] at hlive
    | some x => exact (List.getElem?_eq_some_iff.mp h).1
  have hget : w0.actors[victim]? = some (w0.actors[victim]) := List.getElem?_eq_getElem hlt
  unfold MV.Model.ActorSys.decide sendSys
  mvcgen [getA_exact, modA_exact]
  all_goals subst_vars
  all_goals (try (simp_all [actorAt]; done))
  all_goals (simp +zetaDelta [actorAt, isLive, hget] at *)
  all_goals (first | (simp_all; done) | (split <;> simp_all; done) | skip)

/-- an `Escalate` decision hands the accident of `victim` to the parent of the deciding actor (and
to nobody else's queue: every other actor is unchanged) -/
theorem decide_escalate (self victim p : Aid) (st : Strategy) (w0 : World)
    (hd : st.decide (actorAt w0 victim).accidents = .escalate)
    (hp : (actorAt w0 self).parent = some p) (hlive : isLive w0 p = true) :
    ⦃fun w => ⌜w = w0⌝⦄ MV.Model.ActorSys.decide self victim st
    ⦃post⟨fun _ w => ⌜(actorAt w p).sysQ = (actorAt w0 p).sysQ ++ [(.accident victim, some self)] ∧
                       ∀ b, b ≠ p → actorAt w b = actorAt w0 b⌝,
          fun _ _ => ⌜False⌝⟩⦄ := by
  have hlt : p < w0.actors.length := by
    unfold isLive at hlive
    cases h : w0.actors[p]? with
    | none => simp [h] at hlive
    | some x => exact (List.getElem?_eq_some_iff.mp h).1
  have hget : w0.actors[p]? = some (w0.actors[p]) := List.getElem?_eq_getElem hlt
  unfold MV.Model.ActorSys.decide escalate sendSys pushSys
  mvcgen [getA_exact, modA_exact]
  all_goals subst_vars
  all_goals (try (simp_all [actorAt]; done))
  all_goals (simp +zetaDelta [actorAt, isLive, hget, List.getElem?_modify] at *)
  all_goals (try simp_all)
  all_goals (try subst_vars)
  all_goals (first
    | done
    | (intro b hb; have hb' := Ne.symm hb; simp [hb']; done)
    | (refine ⟨?_, ?_⟩ <;> first | (simp; done) | (intro b hb; have hb' := Ne.symm hb; simp [hb']; done))
    | (have hg := List.getElem?_eq_getElem hlt; simp_all; done))

end MV.Model.ActorSys
