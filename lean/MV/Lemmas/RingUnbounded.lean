import MV.Model.RingUnbounded
/-!
# Invariants of the `RingUnbounded` pump model (helper lemmas for `MV/Props/C15Pump.lean`)

Counting invariants over the client thread list (the `countP`-under-`List.set` technique): lock
holders are counted, the pump contributes its own 0/1.
-/
namespace MV.Model.RingUnbounded

theorem countP_set_of {α : Type} (l : List α) (i : Nat) (a : α) (p : α → Bool) (old : α)
    (h : l[i]? = some old) :
    (l.set i a).countP p + (if p old then 1 else 0) = l.countP p + (if p a then 1 else 0) := by
  induction l generalizing i with
  | nil => simp at h
  | cons x xs ih =>
    cases i with
    | zero =>
      simp at h; subst h
      simp [List.countP_cons]; omega
    | succ j =>
      simp at h
      have := ih j h
      simp [List.countP_cons]; omega

/-- holds the read side of `closedMutex` -/
def holdsR (th : Thread) : Bool :=
  match th.pc with
  | .wCheck _ | .wLockM _ | .wWrite _ | .wUnlockM | .wRUnlock => true
  | _ => false

/-- holds the write side of `closedMutex` -/
def holdsW (th : Thread) : Bool :=
  match th.pc with
  | .cCheck | .cLockM | .cSignal | .cUnlockM | .cUnlock => true
  | _ => false

/-- holds `rrm` -/
def holdsM (th : Thread) : Bool :=
  match th.pc with
  | .wWrite _ | .wUnlockM | .cSignal | .cUnlockM => true
  | _ => false

/-- a writer that saw `closed == false` and has not written yet -/
def pastCheck (th : Thread) : Bool :=
  match th.pc with
  | .wLockM _ | .wWrite _ => true
  | _ => false

/-- the pump holds the read side of `closedMutex` -/
def rP : PPC → Nat
  | .pLockM | .pRead | .pRUnlockW | .pRUnlockE _ | .pCheck _ | .pSend _ | .pRUnlockL | .pRUnlockX => 1
  | _ => 0

/-- the pump holds `rrm` -/
def mP : PPC → Nat
  | .pRead | .pRUnlockW | .pWait | .pUnlockMC | .pRUnlockE _ | .pUnlockME _ => 1
  | _ => 0

/-- what the pump knows about an empty `vs` in the else branch: it saw `closed` with an empty ring -/
def PLoc (g : Glob) : PPC → Prop
  | .pRUnlockE vs => vs = [] → g.closed = true ∧ g.ring = []
  | .pUnlockME vs => vs = [] → g.closed = true ∧ g.ring = []
  | .pRLock2 vs => vs = [] → g.closed = true ∧ g.ring = []
  | .pCheck vs => vs = [] → g.closed = true ∧ g.ring = []
  | _ => True

structure PInv (s : St) : Prop where
  a1 : s.g.readers = s.ths.countP holdsR + rP s.pump
  a2 : s.g.writer.toNat = s.ths.countP holdsW
  a3 : s.g.rrm.toNat = s.ths.countP holdsM + mP s.pump
  a4 : s.g.writer = true → s.g.readers = 0
  a5 : s.g.closed = true → s.ths.countP pastCheck = 0
  a6 : s.g.out ++ s.g.chan ++ vsOf s.pump ++ s.g.ring = s.g.accepted
  a7 : s.g.chanClosed = true → s.g.closed = true ∧ s.g.ring = [] ∧ (s.pump = .pRUnlockX ∨ s.pump = .pDone)
  a8 : PLoc s.g s.pump

theorem holds_start (todo : List Op) :
    holdsR (start todo) = false ∧ holdsW (start todo) = false ∧ holdsM (start todo) = false ∧
      pastCheck (start todo) = false := by
  cases todo with
  | nil => simp [start, holdsR, holdsW, holdsM, pastCheck]
  | cons op r => cases op <;> simp [start, holdsR, holdsW, holdsM, pastCheck]

theorem pastCheck_le_holdsR (ths : List Thread) : ths.countP pastCheck ≤ ths.countP holdsR := by
  apply List.countP_mono_left
  intro th _ h
  obtain ⟨pc, todo⟩ := th
  cases pc <;> simp_all [pastCheck, holdsR]

theorem PLoc_of_closed_mono (g g' : Glob) (p : PPC) (h : PLoc g p)
    (hc : g.closed = true → g'.closed = true) (hr : g.closed = true → g.ring = [] → g'.ring = []) : PLoc g' p := by
  cases p <;> simp only [PLoc] at h ⊢
  all_goals
    intro hv
    obtain ⟨h1, h2⟩ := h hv
    exact ⟨hc h1, hr h1 h2⟩

theorem counts_set (l : List Thread) (i : Nat) (th th' : Thread) (p : Thread → Bool) (hth : l[i]? = some th) :
    (l.set i th').countP p + (p th).toNat = l.countP p + (p th').toNat := by
  have := countP_set_of l i th' p th hth
  cases h1 : p th <;> cases h2 : p th' <;> simp [h1, h2] at this ⊢ <;> omega

theorem countP_pos_of (l : List Thread) (i : Nat) (th : Thread) (p : Thread → Bool) (hth : l[i]? = some th)
    (hp : p th = true) : 1 ≤ l.countP p :=
  List.countP_pos_iff.mpr ⟨th, List.mem_of_getElem? hth, hp⟩

theorem toNat_le_one (b : Bool) : b.toNat ≤ 1 := by cases b <;> simp

/-- a client step preserves the invariant -/
theorem client_inv (s : St) (i : Nat) (th th' : Thread) (g' : Glob) (h : PInv s) (hth : s.ths[i]? = some th)
    (htr : trans s.g th = some (g', th')) : PInv { s with g := g', ths := s.ths.set i th' } := by
  have kR := counts_set s.ths i th th' holdsR hth
  have kW := counts_set s.ths i th th' holdsW hth
  have kM := counts_set s.ths i th th' holdsM hth
  have kC := counts_set s.ths i th th' pastCheck hth
  have hle := pastCheck_le_holdsR s.ths
  obtain ⟨a1, a2, a3, a4, a5, a6, a7, a8⟩ := h
  obtain ⟨pc, todo⟩ := th
  have hs := holds_start todo
  cases pc <;> simp only [trans] at htr
  case done => cases htr
  case wRLock v =>
    split at htr
    · cases htr
    · rename_i hw
      cases htr
      simp [holdsR, holdsW, holdsM, pastCheck] at kR kW kM kC
      refine ⟨?_, ?_, ?_, ?_, ?_, a6, a7, ?_⟩ <;> dsimp only
      · omega
      · omega
      · omega
      · intro h'; exact absurd h' hw
      · intro h'; have := a5 h'; omega
      · exact PLoc_of_closed_mono _ _ _ a8 (fun h => h) (fun _ h => h)
  case wCheck v =>
    split at htr
    · cases htr
      simp [holdsR, holdsW, holdsM, pastCheck] at kR kW kM kC
      refine ⟨?_, ?_, ?_, a4, ?_, a6, a7, a8⟩ <;> dsimp only
      · omega
      · omega
      · omega
      · intro h'; have := a5 h'; omega
    · rename_i hc
      cases htr
      simp [holdsR, holdsW, holdsM, pastCheck] at kR kW kM kC
      refine ⟨?_, ?_, ?_, a4, ?_, a6, a7, a8⟩ <;> dsimp only
      · omega
      · omega
      · omega
      · intro h'; exact absurd h' hc
  case wLockM v =>
    split at htr
    · cases htr
    · rename_i hm
      cases htr
      simp [holdsR, holdsW, holdsM, pastCheck] at kR kW kM kC
      simp only [Bool.not_eq_true] at hm
      simp only [hm, Bool.toNat_false] at a3
      refine ⟨?_, ?_, ?_, a4, ?_, a6, a7, a8⟩ <;> dsimp only
      · omega
      · omega
      · simp only [Bool.toNat_true]; omega
      · intro h'; have := a5 h'; omega
  case wWrite v =>
    cases htr
    simp [holdsR, holdsW, holdsM, pastCheck] at kR kW kM kC
    have hnc : s.g.closed = false := by
      cases hc : s.g.closed with
      | false => rfl
      | true => have := a5 hc; omega
    refine ⟨?_, ?_, ?_, a4, ?_, ?_, ?_, ?_⟩ <;> simp only [signal]
    · omega
    · omega
    · omega
    · intro h'; rw [hnc] at h'; cases h'
    · rw [← a6]; simp
    · intro h'; have := (a7 h').1; rw [hnc] at this; cases this
    · exact PLoc_of_closed_mono _ _ _ a8 (fun h => h) (fun h _ => by rw [hnc] at h; cases h)
  case wUnlockM =>
    cases htr
    simp [holdsR, holdsW, holdsM, pastCheck] at kR kW kM kC
    have := toNat_le_one s.g.rrm
    refine ⟨?_, ?_, ?_, a4, ?_, a6, a7, a8⟩ <;> dsimp only
    · omega
    · omega
    · simp only [Bool.toNat_false]; omega
    · intro h'; have := a5 h'; omega
  case wRUnlock =>
    cases htr
    simp only [hs.1, hs.2.1, hs.2.2.1, hs.2.2.2] at kR kW kM kC
    simp [holdsR, holdsW, holdsM, pastCheck] at kR kW kM kC
    refine ⟨?_, ?_, ?_, ?_, ?_, a6, a7, ?_⟩ <;> dsimp only
    · omega
    · omega
    · omega
    · intro h'; have := a4 h'; omega
    · intro h'; have := a5 h'; omega
    · exact PLoc_of_closed_mono _ _ _ a8 (fun h => h) (fun _ h => h)
  case cLock =>
    split at htr
    · cases htr
    · rename_i hw
      cases htr
      simp [holdsR, holdsW, holdsM, pastCheck] at kR kW kM kC
      simp only [Bool.or_eq_true, bne_iff_ne, ne_eq, not_or, Bool.not_eq_true, Decidable.not_not] at hw
      simp only [hw.1, Bool.toNat_false] at a2
      refine ⟨?_, ?_, ?_, ?_, ?_, a6, a7, ?_⟩ <;> dsimp only
      · omega
      · simp only [Bool.toNat_true]; omega
      · omega
      · intro _; exact hw.2
      · intro h'; have := a5 h'; omega
      · exact PLoc_of_closed_mono _ _ _ a8 (fun h => h) (fun _ h => h)
  case cCheck =>
    split at htr
    · cases htr
      simp [holdsR, holdsW, holdsM, pastCheck] at kR kW kM kC
      refine ⟨?_, ?_, ?_, a4, ?_, a6, a7, a8⟩ <;> dsimp only
      · omega
      · omega
      · omega
      · intro h'; have := a5 h'; omega
    · cases htr
      simp [holdsR, holdsW, holdsM, pastCheck] at kR kW kM kC
      have hw : s.g.writer = true := by
        cases hw : s.g.writer with
        | true => rfl
        | false =>
          have := countP_pos_of s.ths i _ holdsW hth (by simp [holdsW])
          simp [hw] at a2; omega
      have hr0 := a4 hw
      refine ⟨?_, ?_, ?_, a4, ?_, a6, ?_, ?_⟩ <;> dsimp only
      · omega
      · omega
      · omega
      · intro _; omega
      · intro h'; have := a7 h'; exact ⟨rfl, this.2⟩
      · exact PLoc_of_closed_mono _ _ _ a8 (fun _ => rfl) (fun _ h => h)
  case cLockM =>
    split at htr
    · cases htr
    · rename_i hm
      cases htr
      simp [holdsR, holdsW, holdsM, pastCheck] at kR kW kM kC
      simp only [Bool.not_eq_true] at hm
      simp only [hm, Bool.toNat_false] at a3
      refine ⟨?_, ?_, ?_, a4, ?_, a6, a7, a8⟩ <;> dsimp only
      · omega
      · omega
      · simp only [Bool.toNat_true]; omega
      · intro h'; have := a5 h'; omega
  case cSignal =>
    cases htr
    simp [holdsR, holdsW, holdsM, pastCheck] at kR kW kM kC
    refine ⟨?_, ?_, ?_, a4, ?_, a6, a7, ?_⟩ <;> simp only [signal]
    · omega
    · omega
    · omega
    · intro h'; have := a5 h'; omega
    · exact PLoc_of_closed_mono _ _ _ a8 (fun h => h) (fun _ h => h)
  case cUnlockM =>
    cases htr
    simp [holdsR, holdsW, holdsM, pastCheck] at kR kW kM kC
    have := toNat_le_one s.g.rrm
    refine ⟨?_, ?_, ?_, a4, ?_, a6, a7, a8⟩ <;> dsimp only
    · omega
    · omega
    · simp only [Bool.toNat_false]; omega
    · intro h'; have := a5 h'; omega
  case cUnlock =>
    cases htr
    simp only [hs.1, hs.2.1, hs.2.2.1, hs.2.2.2] at kR kW kM kC
    simp [holdsR, holdsW, holdsM, pastCheck] at kR kW kM kC
    have := toNat_le_one s.g.writer
    refine ⟨?_, ?_, ?_, ?_, ?_, a6, a7, ?_⟩ <;> dsimp only
    · omega
    · simp only [Bool.toNat_false]; omega
    · omega
    · intro h'; cases h'
    · intro h'; have := a5 h'; omega
    · exact PLoc_of_closed_mono _ _ _ a8 (fun h => h) (fun _ h => h)

/-- a pump step preserves the invariant -/
theorem pump_inv (s : St) (g' : Glob) (p' : PPC) (h : PInv s) (htr : ptrans s.g s.pump = some (g', p')) :
    PInv { s with g := g', pump := p' } := by
  obtain ⟨a1, a2, a3, a4, a5, a6, a7, a8⟩ := h
  have hm1 := toNat_le_one s.g.rrm
  cases hp : s.pump <;> rw [hp] at htr a1 a3 a6 a7 a8 <;> simp only [ptrans] at htr <;>
    simp only [rP, mP, vsOf, PLoc] at a1 a3 a6 a8
  case pDone => cases htr
  case pRLock =>
    split at htr
    · cases htr
    · rename_i hw
      cases htr
      refine ⟨?_, a2, ?_, ?_, a5, ?_, ?_, ?_⟩ <;> simp only [rP, mP, vsOf, PLoc]
      · omega
      · omega
      · intro h'; exact absurd h' hw
      · exact a6
      · intro h'; have := (a7 h').2.2; simp at this
  case pLockM =>
    split at htr
    · cases htr
    · rename_i hm
      cases htr
      simp only [Bool.not_eq_true] at hm
      simp only [hm, Bool.toNat_false] at a3
      refine ⟨?_, a2, ?_, a4, a5, ?_, ?_, ?_⟩ <;> simp only [rP, mP, vsOf, PLoc, Bool.toNat_true]
      · omega
      · omega
      · exact a6
      · intro h'; have := (a7 h').2.2; simp at this
  case pRead =>
    split at htr
    · cases htr
      refine ⟨?_, a2, ?_, a4, a5, ?_, ?_, ?_⟩ <;> simp only [rP, mP, vsOf, PLoc]
      · omega
      · omega
      · exact a6
      · intro h'; have := (a7 h').2.2; simp at this
    · rename_i hc
      cases htr
      refine ⟨?_, a2, ?_, a4, a5, ?_, ?_, ?_⟩ <;> simp only [rP, mP, vsOf, PLoc]
      · omega
      · omega
      · rw [← a6]; simp
      · intro h'; have := (a7 h').2.2; simp at this
      · intro hv
        refine ⟨?_, trivial⟩
        cases hcl : s.g.closed with
        | true => rfl
        | false => simp [hv, hcl] at hc
  case pRUnlockW =>
    cases htr
    refine ⟨?_, a2, ?_, ?_, a5, ?_, ?_, ?_⟩ <;> simp only [rP, mP, vsOf, PLoc]
    · omega
    · omega
    · intro h'; have := a4 h'; omega
    · exact a6
    · intro h'; have := (a7 h').2.2; simp at this
  case pWait =>
    cases htr
    refine ⟨?_, a2, ?_, a4, a5, ?_, ?_, ?_⟩ <;> simp only [rP, mP, vsOf, PLoc, Bool.toNat_false]
    · omega
    · omega
    · exact a6
    · intro h'; have := (a7 h').2.2; simp at this
  case pSleep =>
    split at htr
    · cases htr
    · rename_i hm
      cases htr
      simp only [Bool.or_eq_true, not_or, Bool.not_eq_true] at hm
      simp only [hm.2, Bool.toNat_false] at a3
      refine ⟨?_, a2, ?_, a4, a5, ?_, ?_, ?_⟩ <;> simp only [rP, mP, vsOf, PLoc, Bool.toNat_true]
      · omega
      · omega
      · exact a6
      · intro h'; have := (a7 h').2.2; simp at this
  case pUnlockMC =>
    cases htr
    refine ⟨?_, a2, ?_, a4, a5, ?_, ?_, ?_⟩ <;> simp only [rP, mP, vsOf, PLoc, Bool.toNat_false]
    · omega
    · omega
    · exact a6
    · intro h'; have := (a7 h').2.2; simp at this
  case pRUnlockE vs =>
    cases htr
    refine ⟨?_, a2, ?_, ?_, a5, ?_, ?_, ?_⟩ <;> simp only [rP, mP, vsOf, PLoc]
    · omega
    · omega
    · intro h'; have := a4 h'; omega
    · exact a6
    · intro h'; have := (a7 h').2.2; simp at this
    · exact a8
  case pUnlockME vs =>
    cases htr
    refine ⟨?_, a2, ?_, a4, a5, ?_, ?_, ?_⟩ <;> simp only [rP, mP, vsOf, PLoc, Bool.toNat_false]
    · omega
    · omega
    · exact a6
    · intro h'; have := (a7 h').2.2; simp at this
    · exact a8
  case pRLock2 vs =>
    split at htr
    · cases htr
    · rename_i hw
      cases htr
      refine ⟨?_, a2, ?_, ?_, a5, ?_, ?_, ?_⟩ <;> simp only [rP, mP, vsOf, PLoc]
      · omega
      · omega
      · intro h'; exact absurd h' hw
      · exact a6
      · intro h'; have := (a7 h').2.2; simp at this
      · exact a8
  case pCheck vs =>
    split at htr
    · rename_i hc
      cases htr
      simp only [Bool.and_eq_true, List.isEmpty_iff] at hc
      refine ⟨?_, a2, ?_, a4, a5, ?_, ?_, ?_⟩ <;> simp only [rP, mP, vsOf, PLoc]
      · omega
      · omega
      · rw [← a6, hc.2]
      · intro _; exact ⟨hc.1, (a8 hc.2).2, Or.inl trivial⟩
    · cases htr
      refine ⟨?_, a2, ?_, a4, a5, ?_, ?_, ?_⟩ <;> simp only [rP, mP, vsOf, PLoc]
      · omega
      · omega
      · exact a6
      · intro h'; have := (a7 h').2.2; simp at this
  case pSend vs =>
    cases vs with
    | nil =>
      simp only at htr
      cases htr
      refine ⟨?_, a2, ?_, a4, a5, ?_, ?_, ?_⟩ <;> simp only [rP, mP, vsOf, PLoc]
      · omega
      · omega
      · exact a6
      · intro h'; have := (a7 h').2.2; simp at this
    | cons v rest =>
      simp only at htr
      split at htr
      · cases htr
        refine ⟨?_, a2, ?_, a4, a5, ?_, ?_, ?_⟩ <;> simp only [rP, mP, vsOf, PLoc]
        · omega
        · omega
        · rw [← a6]; simp
        · intro h'; have := (a7 h').2.2; simp at this
      · cases htr
  case pRUnlockL =>
    cases htr
    refine ⟨?_, a2, ?_, ?_, a5, ?_, ?_, ?_⟩ <;> simp only [rP, mP, vsOf, PLoc]
    · omega
    · omega
    · intro h'; have := a4 h'; omega
    · exact a6
    · intro h'; have := (a7 h').2.2; simp at this
  case pRUnlockX =>
    cases htr
    refine ⟨?_, a2, ?_, ?_, a5, ?_, ?_, ?_⟩ <;> simp only [rP, mP, vsOf, PLoc]
    · omega
    · omega
    · intro h'; have := a4 h'; omega
    · exact a6
    · intro h'; have := a7 h'; exact ⟨this.1, this.2.1, Or.inr trivial⟩

/-- a receive by the reader preserves the invariant -/
theorem recv_inv (s : St) (g' : Glob) (h : PInv s) (htr : recv s.g = some g') : PInv { s with g := g' } := by
  obtain ⟨a1, a2, a3, a4, a5, a6, a7, a8⟩ := h
  unfold recv at htr
  cases hc : s.g.chan with
  | nil => simp [hc] at htr
  | cons v rest =>
    simp only [hc, Option.some.injEq] at htr
    subst htr
    refine ⟨a1, a2, a3, a4, a5, ?_, a7, ?_⟩
    · simp only
      rw [← a6, hc]; simp
    · exact PLoc_of_closed_mono _ _ _ a8 (fun h => h) (fun _ h => h)

theorem step_inv (s s' : St) (a : Act) (h : PInv s) (hs : step s a = some s') : PInv s' := by
  cases a with
  | recv =>
    simp only [step, Option.map_eq_some_iff] at hs
    obtain ⟨g', hg, rfl⟩ := hs
    exact recv_inv s g' h hg
  | pump =>
    simp only [step, Option.map_eq_some_iff] at hs
    obtain ⟨⟨g', p'⟩, hg, rfl⟩ := hs
    exact pump_inv s g' p' h hg
  | client i =>
    simp only [step] at hs
    cases hth : s.ths[i]? with
    | none => simp [hth] at hs
    | some th =>
      simp only [hth] at hs
      cases htr : trans s.g th with
      | none => simp [htr] at hs
      | some r =>
        obtain ⟨g', th'⟩ := r
        simp only [htr, Option.some.injEq] at hs
        subst hs
        exact client_inv s i th th' g' h hth htr

theorem run_inv (s : St) (sched : List Act) (h : PInv s) : PInv (run s sched) := by
  induction sched generalizing s with
  | nil => exact h
  | cons a rest ih =>
    show PInv (run ((step s a).getD s) rest)
    cases hs : step s a with
    | none => exact ih s h
    | some s1 => exact ih s1 (step_inv s s1 a h hs)

theorem init_inv (cap : Nat) (progs : List (List Op)) : PInv (init cap progs) := by
  have hz : ∀ p : Thread → Bool, (∀ todo, p (start todo) = false) → (progs.map start).countP p = 0 := by
    intro p hp
    rw [List.countP_eq_zero]
    intro th hth
    obtain ⟨todo, _, rfl⟩ := List.mem_map.mp hth
    simp [hp todo]
  refine ⟨?_, ?_, ?_, ?_, ?_, ?_, ?_, ?_⟩ <;> simp only [init, rP, mP, vsOf, PLoc]
  · rw [hz holdsR (fun t => (holds_start t).1)]
  · rw [hz holdsW (fun t => (holds_start t).2.1)]; rfl
  · rw [hz holdsM (fun t => (holds_start t).2.2.1)]; rfl
  · intro h; cases h
  · intro h; cases h
  · rfl
  · intro h; cases h

end MV.Model.RingUnbounded
