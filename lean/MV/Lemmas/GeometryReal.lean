import MV.Spec.Geometry
import Mathlib.Tactic.Linarith
import Mathlib.Tactic.Ring
import Mathlib.Tactic.FieldSimp
import Mathlib.Analysis.Real.Sqrt
import Mathlib.Algebra.BigOperators.Group.List.Basic
namespace MV.Lemmas.Geometry
open MV.Model.Geometry MV.Spec.Geometry

theorem sqrtLe_iff (D r : ℚ) : sqrtLe D r = true ↔ Real.sqrt (D : ℝ) ≤ (r : ℝ) := by
  unfold sqrtLe
  rw [Real.sqrt_le_iff]
  simp only [Bool.and_eq_true, decide_eq_true_eq]
  constructor
  · rintro ⟨h1, h2⟩; exact ⟨by exact_mod_cast h1, by rw [pow_two]; exact_mod_cast h2⟩
  · rintro ⟨h1, h2⟩; rw [pow_two] at h2; exact ⟨by exact_mod_cast h1, by exact_mod_cast h2⟩

theorem sqrtLt_iff (D r : ℚ) : sqrtLt D r = true ↔ Real.sqrt (D : ℝ) < (r : ℝ) := by
  unfold sqrtLt
  simp only [Bool.and_eq_true, decide_eq_true_eq]
  by_cases hr : 0 < r
  · have hr' : (0 : ℝ) < r := by exact_mod_cast hr
    rw [Real.sqrt_lt' hr', pow_two]
    constructor
    · rintro ⟨_, h2⟩; exact_mod_cast h2
    · intro h; exact ⟨hr, by exact_mod_cast h⟩
  · constructor
    · rintro ⟨h, _⟩; exact absurd h hr
    · intro h
      have : (r : ℝ) ≤ 0 := by exact_mod_cast (not_lt.1 hr)
      linarith [Real.sqrt_nonneg (D : ℝ)]

theorem sqrtSumEq_iff (A B C : ℚ) (hA : 0 ≤ A) (hB : 0 ≤ B) (hC : 0 ≤ C) :
    sqrtSumEq A B C = true ↔ Real.sqrt (A : ℝ) + Real.sqrt (B : ℝ) = Real.sqrt (C : ℝ) := by
  unfold sqrtSumEq Model.Geometry.sq
  simp only [Bool.and_eq_true, decide_eq_true_eq]
  have hA' : (0 : ℝ) ≤ A := by exact_mod_cast hA
  have hB' : (0 : ℝ) ≤ B := by exact_mod_cast hB
  have hC' : (0 : ℝ) ≤ C := by exact_mod_cast hC
  have ha := Real.sqrt_nonneg (A : ℝ)
  have hb := Real.sqrt_nonneg (B : ℝ)
  have hc := Real.sqrt_nonneg (C : ℝ)
  have ha2 := Real.mul_self_sqrt hA'
  have hb2 := Real.mul_self_sqrt hB'
  have hc2 := Real.mul_self_sqrt hC'
  constructor
  · rintro ⟨h1, h2⟩
    have h1' : (A : ℝ) + B ≤ C := by exact_mod_cast h1
    have h2' : ((C : ℝ) - A - B) * (C - A - B) = 4 * A * B := by exact_mod_cast h2
    -- 2ab = C - A - B
    have hab : 2 * (Real.sqrt A * Real.sqrt B) = (C : ℝ) - A - B := by
      have hx : 0 ≤ 2 * (Real.sqrt (A:ℝ) * Real.sqrt B) := by positivity
      have hy : 0 ≤ (C : ℝ) - A - B := by linarith
      have : (2 * (Real.sqrt (A:ℝ) * Real.sqrt B)) * (2 * (Real.sqrt A * Real.sqrt B)) = ((C : ℝ) - A - B) * (C - A - B) := by
        rw [h2']; nlinarith
      nlinarith [mul_self_eq_mul_self_iff.1 this]
    have hsq : (Real.sqrt A + Real.sqrt B) * (Real.sqrt A + Real.sqrt B) = Real.sqrt C * Real.sqrt C := by nlinarith
    nlinarith [mul_self_eq_mul_self_iff.1 hsq]
  · intro h
    have hCe : (C : ℝ) = A + B + 2 * (Real.sqrt A * Real.sqrt B) := by
      have := congrArg (fun x => x * x) h
      beta_reduce at this
      nlinarith
    constructor
    · have : (A : ℝ) + B ≤ C := by rw [hCe]; nlinarith [mul_nonneg ha hb]
      exact_mod_cast this
    · have : ((C : ℝ) - A - B) * (C - A - B) = 4 * A * B := by
        rw [hCe]; nlinarith
      exact_mod_cast this

theorem circleContains_iff (c : Pt) (r : ℚ) (p : Pt) :
    circleContains c r p = true ↔ Real.sqrt (((p.x - c.x) ^ 2 + (p.y - c.y) ^ 2 : ℚ) : ℝ) ≤ (r : ℝ) := by
  unfold circleContains
  rw [sqrtLe_iff]
  have : distSq p c = (p.x - c.x) ^ 2 + (p.y - c.y) ^ 2 := by unfold distSq Model.Geometry.sq; ring
  rw [this]

/-! centroids -/

theorem sumX_reflect (c : Pt) (l : List Pt) : sumX (l.map (reflect c)) = 2 * c.x * l.length - sumX l := by
  unfold sumX
  induction l with
  | nil => simp
  | cons a r ih => simp only [List.map_cons, List.sum_cons, List.length_cons, ih, reflect]; push_cast; ring

theorem sumY_reflect (c : Pt) (l : List Pt) : sumY (l.map (reflect c)) = 2 * c.y * l.length - sumY l := by
  unfold sumY
  induction l with
  | nil => simp
  | cons a r ih => simp only [List.map_cons, List.sum_cons, List.length_cons, ih, reflect]; push_cast; ring

theorem centroid_of_symmetric (c : Pt) (l : List Pt) (hne : l ≠ []) (hs : CentrallySymmetric c l) :
    sumX l / l.length = c.x ∧ sumY l / l.length = c.y := by
  have hlen : (l.length : ℚ) ≠ 0 := by
    have : l.length ≠ 0 := fun h => hne (List.length_eq_zero_iff.1 h)
    exact_mod_cast this
  have hx : sumX (l.map (reflect c)) = sumX l := by
    unfold sumX; exact ((hs.map _).sum_eq)
  have hy : sumY (l.map (reflect c)) = sumY l := by
    unfold sumY; exact ((hs.map _).sum_eq)
  rw [sumX_reflect] at hx
  rw [sumY_reflect] at hy
  constructor
  · rw [div_eq_iff hlen]; linarith
  · rw [div_eq_iff hlen]; linarith

end MV.Lemmas.Geometry
