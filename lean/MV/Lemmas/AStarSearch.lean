import MV.Lemmas.AStarPath
/-!
The A* loop over an abstract lawful priority queue: soundness / completeness invariant.
Core Lean only.
-/
namespace MV.Lemmas.AStar
open MV.Model.AStar MV.Spec.AStar

/-- laws of a priority queue (multiset of entries; `pop` removes a minimum-key entry) -/
structure Lawful (pq : PQ) where
  inv : pq.Q → Prop
  elems : pq.Q → List Entry
  inv_empty : inv pq.empty
  elems_empty : elems pq.empty = []
  push_inv : ∀ q e, inv q → inv (pq.push q e)
  push_perm : ∀ q e, inv q → (elems (pq.push q e)).Perm (e :: elems q)
  pop_none : ∀ q, inv q → pq.pop q = none → elems q = []
  pop_some : ∀ q e q', inv q → pq.pop q = some (e, q') →
    inv q' ∧ (elems q).Perm (e :: elems q') ∧ ∀ x ∈ elems q, e.key ≤ x.key

variable {pq : PQ} (L : Lawful pq) (G : Graph) (s goal : Nat) (h : Nat → Nat)

/-- the entry pushed for neighbour `nb` of the popped path `p` -/
def entryOf (p : Path) (nb : Nat) : Entry := { key := pathCost G.cost (p ++ [nb]) + h nb, path := p ++ [nb] }

theorem pushNbrs_spec (p : Path) : ∀ (nbs : List Nat) (q : pq.Q), L.inv q →
    L.inv (pushNbrs pq G h p nbs q) ∧
      (L.elems (pushNbrs pq G h p nbs q)).Perm ((nbs.map (entryOf G h p)).reverse ++ L.elems q) := by
  intro nbs
  induction nbs with
  | nil => intro q hq; exact ⟨hq, by simp [pushNbrs]⟩
  | cons nb r ih =>
    intro q hq
    have h1 := L.push_inv q (entryOf G h p nb) hq
    have h2 := L.push_perm q (entryOf G h p nb) hq
    obtain ⟨i1, i2⟩ := ih (pq.push q (entryOf G h p nb)) h1
    refine ⟨i1, ?_⟩
    simp only [pushNbrs, List.map_cons, List.reverse_cons, List.append_assoc, List.singleton_append]
    exact i2.trans (List.Perm.append_left _ h2)

theorem mem_pushNbrs (p : Path) (nbs : List Nat) (q : pq.Q) (hq : L.inv q) (x : Entry) :
    x ∈ L.elems (pushNbrs pq G h p nbs q) ↔ (∃ nb ∈ nbs, x = entryOf G h p nb) ∨ x ∈ L.elems q := by
  rw [(pushNbrs_spec L G h p nbs q hq).2.mem_iff]
  simp only [List.mem_append, List.mem_reverse, List.mem_map]
  constructor
  · rintro (⟨nb, h1, h2⟩ | h); exact Or.inl ⟨nb, h1, h2.symm⟩; exact Or.inr h
  · rintro (⟨nb, h1, h2⟩ | h); exact Or.inl ⟨nb, h1, h2.symm⟩; exact Or.inr h

theorem length_pushNbrs (p : Path) (nbs : List Nat) (q : pq.Q) (hq : L.inv q) :
    (L.elems (pushNbrs pq G h p nbs q)).length = nbs.length + (L.elems q).length := by
  rw [(pushNbrs_spec L G h p nbs q hq).2.length_eq]; simp

theorem mem_pop (q q' : pq.Q) (e : Entry) (hq : L.inv q) (hp : pq.pop q = some (e, q')) (x : Entry) :
    x ∈ L.elems q ↔ x = e ∨ x ∈ L.elems q' := by
  rw [(L.pop_some q e q' hq hp).2.1.mem_iff]; simp

/-- a path stored in the queue: a non-empty walk from the start -/
def GoodPath (p : Path) : Prop := p.head? = some s ∧ IsWalk G p

theorem GoodPath.ne_nil {p : Path} (hp : GoodPath G s p) : p ≠ [] := by
  intro h; subst h; simp [GoodPath] at hp

theorem GoodPath.extend {p : Path} (hp : GoodPath G s p) {nb : Nat} (hnb : nb ∈ G.nbrs (last p)) :
    GoodPath G s (p ++ [nb]) :=
  ⟨by rw [head?_append_singleton _ (hp.ne_nil)]; exact hp.1, isWalk_append_singleton G p hp.ne_nil nb hp.2 hnb⟩

/-- soundness + completeness invariant of the loop state -/
structure InvB (q : pq.Q) (closed : List Nat) : Prop where
  qinv : L.inv q
  walks : ∀ e ∈ L.elems q, GoodPath G s e.path
  start : s ∈ closed ∨ ∃ e ∈ L.elems q, last e.path = s
  front : ∀ y ∈ closed, ∀ x ∈ G.nbrs y, x ∈ closed ∨ ∃ e ∈ L.elems q, last e.path = x
  goalOpen : goal ∉ closed

theorem invB_init : InvB L G s goal (pq.push pq.empty { key := 0, path := [s] }) [] := by
  have hp := L.push_perm pq.empty { key := 0, path := [s] } L.inv_empty
  rw [L.elems_empty] at hp
  have hm : ∀ x, x ∈ L.elems (pq.push pq.empty { key := 0, path := [s] }) ↔ x = { key := 0, path := [s] } := by
    intro x; rw [hp.mem_iff]; simp
  refine ⟨L.push_inv _ _ L.inv_empty, ?_, ?_, ?_, by simp⟩
  · intro e he; rw [hm] at he; subst he; exact ⟨rfl, trivial⟩
  · exact Or.inr ⟨_, (hm _).2 rfl, rfl⟩
  · intro y hy; simp at hy

/-- popping an entry whose end node is already closed keeps the invariant -/
theorem invB_skip {q q' : pq.Q} {closed : List Nat} {e : Entry} (I : InvB L G s goal q closed)
    (hp : pq.pop q = some (e, q')) (hc : last e.path ∈ closed) : InvB L G s goal q' closed := by
  have hm := mem_pop L q q' e I.qinv hp
  refine ⟨(L.pop_some q e q' I.qinv hp).1, fun x hx => I.walks x ((hm x).2 (Or.inr hx)), ?_, ?_, I.goalOpen⟩
  · rcases I.start with h1 | ⟨x, hx, hl⟩
    · exact Or.inl h1
    · rcases (hm x).1 hx with rfl | hx'
      · exact Or.inl (hl ▸ hc)
      · exact Or.inr ⟨x, hx', hl⟩
  · intro y hy x hx
    rcases I.front y hy x hx with h1 | ⟨z, hz, hl⟩
    · exact Or.inl h1
    · rcases (hm z).1 hz with rfl | hz'
      · exact Or.inl (hl ▸ hc)
      · exact Or.inr ⟨z, hz', hl⟩

/-- closing the end node of the popped entry and pushing its neighbours keeps the invariant -/
theorem invB_expand {q q' : pq.Q} {closed : List Nat} {e : Entry} (I : InvB L G s goal q closed)
    (hp : pq.pop q = some (e, q')) (hg : last e.path ≠ goal) :
    InvB L G s goal (pushNbrs pq G h e.path (G.nbrs (last e.path)) q') (last e.path :: closed) := by
  have hm := mem_pop L q q' e I.qinv hp
  have hq' := (L.pop_some q e q' I.qinv hp).1
  have hmem := mem_pushNbrs L G h e.path (G.nbrs (last e.path)) q' hq'
  have he : GoodPath G s e.path := I.walks e ((hm e).2 (Or.inl rfl))
  refine ⟨(pushNbrs_spec L G h e.path _ q' hq').1, ?_, ?_, ?_, ?_⟩
  · intro x hx
    rcases (hmem x).1 hx with ⟨nb, hnb, rfl⟩ | hx'
    · exact he.extend G s hnb
    · exact I.walks x ((hm x).2 (Or.inr hx'))
  · rcases I.start with h1 | ⟨x, hx, hl⟩
    · exact Or.inl (List.mem_cons_of_mem _ h1)
    · rcases (hm x).1 hx with rfl | hx'
      · exact Or.inl (hl ▸ List.mem_cons_self)
      · exact Or.inr ⟨x, (hmem x).2 (Or.inr hx'), hl⟩
  · intro y hy x hx
    rcases List.mem_cons.1 hy with rfl | hy'
    · exact Or.inr ⟨entryOf G h e.path x, (hmem _).2 (Or.inl ⟨x, hx, rfl⟩), last_append_singleton _ _⟩
    · rcases I.front y hy' x hx with h1 | ⟨z, hz, hl⟩
      · exact Or.inl (List.mem_cons_of_mem _ h1)
      · rcases (hm z).1 hz with rfl | hz'
        · exact Or.inl (hl ▸ List.mem_cons_self)
        · exact Or.inr ⟨z, (hmem z).2 (Or.inr hz'), hl⟩
  · intro hgc
    rcases List.mem_cons.1 hgc with h1 | h1
    · exact hg h1.symm
    · exact I.goalOpen h1

/-- with an empty queue every reachable node is closed -/
theorem closed_of_reach_of_empty {q : pq.Q} {closed : List Nat} (I : InvB L G s goal q closed)
    (hemp : L.elems q = []) {y c : Nat} (hr : Reach G s y c) : y ∈ closed := by
  induction hr with
  | base =>
    rcases I.start with h1 | ⟨x, hx, _⟩
    · exact h1
    · rw [hemp] at hx; simp at hx
  | step _ hx ih =>
    rcases I.front _ ih _ hx with h1 | ⟨z, hz, _⟩
    · exact h1
    · rw [hemp] at hz; simp at hz

theorem loop_found_sound : ∀ (fuel : Nat) (q : pq.Q) (closed : List Nat) (p : Path), InvB L G s goal q closed →
    loop pq G goal h fuel q closed = .found p → ValidPath G s goal p := by
  intro fuel
  induction fuel with
  | zero => intro q closed p _ hl; simp [loop] at hl
  | succ f ih =>
    intro q closed p I hl
    cases hp : pq.pop q with
    | none => simp [loop, hp] at hl
    | some r =>
      obtain ⟨e, q'⟩ := r
      simp only [loop, hp] at hl
      by_cases hc : closed.contains (last e.path) = true
      · rw [if_pos hc] at hl
        exact ih q' closed p (invB_skip L G s goal I hp (by simpa using hc)) hl
      · rw [if_neg hc] at hl
        by_cases hg : last e.path = goal
        · rw [if_pos hg] at hl
          injection hl with hl; subst hl
          have he : GoodPath G s e.path := I.walks e ((mem_pop L q q' e I.qinv hp e).2 (Or.inl rfl))
          exact ⟨he.1, by rw [getLast?_eq_some_last _ he.ne_nil, hg], he.2⟩
        · rw [if_neg hg] at hl
          exact ih _ _ p (invB_expand L G s goal h I hp hg) hl

theorem loop_notFound_unreachable : ∀ (fuel : Nat) (q : pq.Q) (closed : List Nat), InvB L G s goal q closed →
    loop pq G goal h fuel q closed = .notFound → ¬ Reachable G s goal := by
  intro fuel
  induction fuel with
  | zero => intro q closed _ hl; simp [loop] at hl
  | succ f ih =>
    intro q closed I hl
    cases hp : pq.pop q with
    | none =>
      rintro ⟨c, hr⟩
      exact I.goalOpen (closed_of_reach_of_empty L G s goal I (L.pop_none q I.qinv hp) hr)
    | some r =>
      obtain ⟨e, q'⟩ := r
      simp only [loop, hp] at hl
      by_cases hc : closed.contains (last e.path) = true
      · rw [if_pos hc] at hl
        exact ih q' closed (invB_skip L G s goal I hp (by simpa using hc)) hl
      · rw [if_neg hc] at hl
        by_cases hg : last e.path = goal
        · rw [if_pos hg] at hl; simp at hl
        · rw [if_neg hg] at hl
          exact ih _ _ (invB_expand L G s goal h I hp hg) hl

end MV.Lemmas.AStar
