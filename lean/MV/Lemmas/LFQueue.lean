import MV.Model.LFQueue
/-!
# Invariants of the Michael–Scott queue model (helper lemmas for `MV/Props/C15Queues.lean`)

`GInv`: shared-state invariant; `LInv g pc`: what a thread at `pc` knows about its snapshots;
`Le g g'`: the shared state only grows (`head`, `tail` monotone, `all` append-only) — `LInv` is stable
under `Le`, so the steps of the *other* threads preserve it.
-/
namespace MV.Model.LFQueue

def GInv (g : Glob) : Prop :=
  g.head ≤ g.tail ∧ g.tail < g.all.length ∧ g.all.length ≤ g.tail + 2 ∧
  g.popped.map (·.2) = ((g.all.drop 1).take g.head).map (·.val) ∧
  (∀ x ∈ g.nils, x.2 = true)

def LInv (g : Glob) : PC → Prop
  | .puLoadTail _ => True
  | .puLoadNext _ t => t ≤ g.tail
  | .puRecheck _ t nx => t ≤ g.tail ∧ (∀ k, nx = some k → k = t + 1 ∧ k < g.all.length)
  | .puCasNext _ t => t ≤ g.tail
  | .puSwing t n => n = t + 1 ∧ n < g.all.length
  | .puHelp _ t k => k = t + 1 ∧ k < g.all.length
  | .poLoadHead => True
  | .poLoadTail h => h ≤ g.head
  | .poLoadNext h t => h ≤ g.head ∧ h ≤ t ∧ t ≤ g.tail
  | .poRecheck h t nx e => h ≤ g.head ∧ h ≤ t ∧ t ≤ g.tail ∧
      (∀ k, nx = some k → k = h + 1 ∧ k < g.all.length) ∧ (nx = none → e = true ∧ h = t)
  | .poHelp t k => k = t + 1 ∧ k < g.all.length
  | .poCasHead h k v => k = h + 1 ∧ k ≤ g.tail ∧ (g.all[k]?).map (·.val) = some v
  | .done => True
  | .crashed => False

def Le (g g' : Glob) : Prop :=
  g.head ≤ g'.head ∧ g.tail ≤ g'.tail ∧ ∃ ext, g'.all = g.all ++ ext

theorem Le.refl (g : Glob) : Le g g := ⟨Nat.le_refl _, Nat.le_refl _, [], by simp⟩

theorem LInv_mono (g g' : Glob) (pc : PC) (hle : Le g g') (h : LInv g pc) : LInv g' pc := by
  obtain ⟨hh, ht, ext, he⟩ := hle
  have hlen : g.all.length ≤ g'.all.length := by rw [he]; simp
  cases pc <;> simp only [LInv] at h ⊢
  case puLoadNext v t => omega
  case puRecheck v t nx =>
    refine ⟨by omega, fun k hk => ?_⟩
    have := h.2 k hk; omega
  case puCasNext v t => omega
  case puSwing t n => omega
  case puHelp v t k => omega
  case poLoadTail h' => omega
  case poLoadNext h' t => omega
  case poRecheck h' t nx e =>
    refine ⟨by omega, by omega, by omega, fun k hk => ?_, h.2.2.2.2⟩
    have := h.2.2.2.1 k hk; omega
  case poHelp t k => omega
  case poCasHead h' k v =>
    refine ⟨h.1, by omega, ?_⟩
    obtain ⟨_, _, h3⟩ := h
    cases hk : g.all[k]? with
    | none => simp [hk] at h3
    | some nd =>
      have hlt : k < g.all.length := by
        rcases Nat.lt_or_ge k g.all.length with h | h
        · exact h
        · rw [List.getElem?_eq_none h] at hk; cases hk
      rw [he, List.getElem?_append_left hlt, hk]
      rw [hk] at h3; exact h3
  all_goals trivial

theorem LInv_start (g : Glob) (todo : List Op) : LInv g (start todo).pc := by
  cases todo with
  | nil => simp [start, LInv]
  | cons op r => cases op <;> simp [start, LInv]

/-- the step of one thread: shared invariant kept, the thread's new `pc` is justified, the shared
state only grew. -/
theorem trans_inv (g g' : Glob) (i : Nat) (th th' : Thread) (hG : GInv g) (hL : LInv g th.pc)
    (hs : trans g i th = some (g', th')) : GInv g' ∧ LInv g' th'.pc ∧ Le g g' := by
  obtain ⟨pc, todo⟩ := th
  obtain ⟨h1, h2, h3, h4, h5⟩ := hG
  cases pc <;> simp only [trans] at hs <;> simp only [LInv] at hL
  case done => cases hs
  case puLoadTail v =>
    cases hs
    exact ⟨⟨h1, h2, h3, h4, h5⟩, by simp [LInv], Le.refl _⟩
  case puLoadNext v t =>
    split at hs
    · cases hs
      refine ⟨⟨h1, h2, h3, h4, h5⟩, ?_, Le.refl _⟩
      simp only [LInv, next]
      refine ⟨hL, fun k hk => ?_⟩
      split at hk <;> simp at hk
      omega
    · omega
  case puRecheck v t nx =>
    split at hs
    · cases nx with
      | none => cases hs; exact ⟨⟨h1, h2, h3, h4, h5⟩, by simp only [LInv]; exact hL.1, Le.refl _⟩
      | some k => cases hs; exact ⟨⟨h1, h2, h3, h4, h5⟩, by simp only [LInv]; exact hL.2 k rfl, Le.refl _⟩
    · cases hs; exact ⟨⟨h1, h2, h3, h4, h5⟩, by simp [LInv], Le.refl _⟩
  case puCasNext v t =>
    split at hs
    · rename_i hlen
      cases hs
      refine ⟨⟨h1, by simp; omega, by simp; omega, ?_, h5⟩, by simp [LInv]; omega, ⟨Nat.le_refl _, Nat.le_refl _, _, rfl⟩⟩
      simp only
      rw [h4, List.drop_append_of_le_length (by omega), List.take_append_of_le_length (by simp; omega)]
    · split at hs
      · cases hs; exact ⟨⟨h1, h2, h3, h4, h5⟩, by simp [LInv], Le.refl _⟩
      · omega
  case puSwing t n =>
    cases hs
    refine ⟨⟨?_, ?_, ?_, h4, h5⟩, LInv_start _ _, ⟨Nat.le_refl _, ?_, [], by simp⟩⟩ <;> simp only <;> split <;> omega
  case puHelp v t k =>
    cases hs
    refine ⟨⟨?_, ?_, ?_, h4, h5⟩, by simp [LInv], ⟨Nat.le_refl _, ?_, [], by simp⟩⟩ <;> simp only <;> split <;> omega
  case poLoadHead =>
    cases hs; exact ⟨⟨h1, h2, h3, h4, h5⟩, by simp [LInv], Le.refl _⟩
  case poLoadTail h =>
    cases hs; exact ⟨⟨h1, h2, h3, h4, h5⟩, by simp only [LInv]; omega, Le.refl _⟩
  case poLoadNext h t =>
    split at hs
    · cases hs
      refine ⟨⟨h1, h2, h3, h4, h5⟩, ?_, Le.refl _⟩
      simp only [LInv, next]
      refine ⟨hL.1, hL.2.1, hL.2.2, fun k hk => ?_, fun hn => ?_⟩
      · split at hk <;> simp at hk
        omega
      · split at hn
        · simp at hn
        · simp; omega
    · omega
  case poRecheck h t nx e =>
    obtain ⟨l1, l2, l3, l4, l5⟩ := hL
    split at hs
    · split at hs
      · cases nx with
        | none =>
          cases hs
          refine ⟨⟨h1, h2, h3, h4, ?_⟩, LInv_start _ _, Le.refl _⟩
          intro x hx
          simp only [List.mem_append, List.mem_singleton] at hx
          rcases hx with hx | hx
          · exact h5 x hx
          · subst hx; exact (l5 rfl).1
        | some k =>
          cases hs
          refine ⟨⟨h1, h2, h3, h4, h5⟩, ?_, Le.refl _⟩
          have := l4 k rfl
          simp only [LInv]; omega
      · cases nx with
        | none => have := (l5 rfl).2; omega
        | some k =>
          have hk := l4 k rfl
          simp only at hs
          cases hnd : g.all[k]? with
          | none =>
            rw [List.getElem?_eq_none_iff] at hnd; omega
          | some nd =>
            rw [hnd] at hs
            cases hs
            refine ⟨⟨h1, h2, h3, h4, h5⟩, ?_, Le.refl _⟩
            simp only [LInv, hnd, Option.map_some]
            exact ⟨by omega, by omega, trivial⟩
    · cases hs; exact ⟨⟨h1, h2, h3, h4, h5⟩, by simp [LInv], Le.refl _⟩
  case poHelp t k =>
    cases hs
    refine ⟨⟨?_, ?_, ?_, h4, h5⟩, by simp [LInv], ⟨Nat.le_refl _, ?_, [], by simp⟩⟩ <;> simp only <;> split <;> omega
  case poCasHead h k v =>
    obtain ⟨l1, l2, l3⟩ := hL
    split at hs
    · rename_i hh
      cases hs
      refine ⟨⟨l2, h2, h3, ?_, h5⟩, LInv_start _ _, ⟨by simp only; omega, Nat.le_refl _, [], by simp⟩⟩
      simp only [List.map_append, List.map_cons, List.map_nil]
      subst l1
      rw [h4, hh, List.take_add_one, List.map_append, List.getElem?_drop]
      have : g.all[1 + h]? = g.all[h + 1]? := by rw [Nat.add_comm]
      rw [this]
      cases hnd : g.all[h + 1]? with
      | none => simp [hnd] at l3
      | some nd => simp [hnd] at l3; simp [l3]
    · cases hs; exact ⟨⟨h1, h2, h3, h4, h5⟩, by simp [LInv], Le.refl _⟩

/-! ## Lifting to the thread list and to schedules -/

/-- state invariant: shared invariant + every thread's snapshots are justified -/
def SInv (s : St) : Prop := GInv s.g ∧ ∀ (j : Nat) (th : Thread), s.ths[j]? = some th → LInv s.g th.pc

theorem step_inv (s s' : St) (i : Nat) (h : SInv s) (hs : step s i = some s') : SInv s' := by
  unfold step at hs
  cases hth : s.ths[i]? with
  | none => simp [hth] at hs
  | some th =>
    simp only [hth] at hs
    cases htr : trans s.g i th with
    | none => simp [htr] at hs
    | some r =>
      obtain ⟨g', th'⟩ := r
      simp only [htr, Option.some.injEq] at hs
      subst hs
      obtain ⟨hG, hL, hle⟩ := trans_inv s.g g' i th th' h.1 (h.2 i th hth) htr
      refine ⟨hG, fun j tj hj => ?_⟩
      simp only [List.getElem?_set] at hj
      split at hj
      · split at hj
        · cases hj; exact hL
        · cases hj
      · exact LInv_mono _ _ _ hle (h.2 j tj hj)

theorem run_inv (s : St) (sched : List Nat) (h : SInv s) : SInv (run s sched) := by
  induction sched generalizing s with
  | nil => exact h
  | cons i rest ih =>
    show SInv (run ((step s i).getD s) rest)
    cases hs : step s i with
    | none => exact ih s h
    | some s1 => exact ih s1 (step_inv s s1 i h hs)

theorem init_inv (progs : List (List Op)) : SInv (init progs) := by
  refine ⟨⟨by simp [init], by simp [init], by simp [init], by simp [init], by simp [init]⟩, ?_⟩
  intro j th hj
  simp only [init, List.getElem?_map] at hj
  cases hp : progs[j]? with
  | none => simp [hp] at hj
  | some p => simp [hp] at hj; subst hj; exact LInv_start _ _

/-! ## Every thread's pushes are linked in program order -/

/-- the values linked by thread `i`, in link (= linearisation) order -/
def linked (g : Glob) (i : Nat) : List Int := ((g.all.drop 1).filter (fun n => n.tid = i)).map (·.val)

/-- the value of a `Push` call that is in progress and not linked yet -/
def pendingPush : PC → List Int
  | .puLoadTail v => [v]
  | .puLoadNext v _ => [v]
  | .puRecheck v _ _ => [v]
  | .puCasNext v _ => [v]
  | .puHelp v _ _ => [v]
  | _ => []

def pushesLeft (th : Thread) : List Int := pendingPush th.pc ++ pushesOf th.todo

/-- conserved: what thread `i` has linked followed by what it still has to push -/
def pushSeq (s : St) (i : Nat) : List Int := linked s.g i ++ ((s.ths[i]?).map pushesLeft).getD []

theorem pushesLeft_start (todo : List Op) : pushesLeft (start todo) = pushesOf todo := by
  cases todo with
  | nil => rfl
  | cons op r => cases op <;> simp [start, pushesLeft, pendingPush, pushesOf]

theorem trans_pushes (g g' : Glob) (i : Nat) (th th' : Thread) (hlen : 1 ≤ g.all.length)
    (hs : trans g i th = some (g', th')) (hc : th'.pc ≠ .crashed) :
    linked g' i ++ pushesLeft th' = linked g i ++ pushesLeft th ∧ ∀ j, j ≠ i → linked g' j = linked g j := by
  obtain ⟨pc, todo⟩ := th
  cases pc <;> simp only [trans] at hs
  case done => cases hs
  case crashed => cases hs
  case puCasNext v t =>
    split at hs
    · cases hs
      simp only [linked, pushesLeft, pendingPush]
      rw [List.drop_append_of_le_length hlen]
      refine ⟨by simp, fun j hj => ?_⟩
      simp [List.filter_append, List.filter_cons, Ne.symm hj]
    · split at hs <;> cases hs <;> simp_all [pushesLeft, pendingPush, linked]
  case puSwing t n => cases hs; simp only [pushesLeft_start]; simp [pushesLeft, pendingPush, linked]
  case poRecheck h t nx e =>
    split at hs
    · split at hs
      · cases nx <;> cases hs <;> simp only [pushesLeft_start] <;> simp [pushesLeft, pendingPush, linked]
      · cases nx with
        | none => cases hs; simp_all [pushesLeft, pendingPush, linked]
        | some k =>
          simp only at hs
          split at hs <;> cases hs <;> simp_all [pushesLeft, pendingPush, linked]
    · cases hs; simp [pushesLeft, pendingPush, linked]
  case poCasHead h k v =>
    split at hs <;> cases hs <;> simp only [pushesLeft_start] <;> simp [pushesLeft, pendingPush, linked]
  all_goals
    (try split at hs)
    all_goals (try split at hs)
    all_goals cases hs <;> simp_all [pushesLeft, pendingPush, linked]

theorem step_pushSeq (s s' : St) (i : Nat) (h : SInv s) (hs : step s i = some s') (j : Nat) :
    pushSeq s' j = pushSeq s j := by
  unfold step at hs
  cases hth : s.ths[i]? with
  | none => simp [hth] at hs
  | some th =>
    simp only [hth] at hs
    cases htr : trans s.g i th with
    | none => simp [htr] at hs
    | some r =>
      obtain ⟨g', th'⟩ := r
      simp only [htr, Option.some.injEq] at hs
      subst hs
      have hlen : 1 ≤ s.g.all.length := by have := h.1.2.1; omega
      have hi : i < s.ths.length := by
        rcases Nat.lt_or_ge i s.ths.length with h | h
        · exact h
        · rw [List.getElem?_eq_none h] at hth; cases hth
      have hc : th'.pc ≠ .crashed := by
        have hst : step s i = some { g := g', ths := s.ths.set i th' } := by simp [step, hth, htr]
        have h' := (step_inv s _ i h hst).2 i th' (by simp [hi])
        intro hcr; rw [hcr] at h'; exact h'
      obtain ⟨h1, h2⟩ := trans_pushes s.g g' i th th' hlen htr hc
      unfold pushSeq
      by_cases hji : j = i
      · subst hji
        simp only [List.getElem?_set, hi, hth, if_true, Option.map_some, Option.getD_some, h1]
      · have : (s.ths.set i th')[j]? = s.ths[j]? := by
          simp [List.getElem?_set, Ne.symm hji]
        simp only [this, h2 j hji]

theorem run_pushSeq (s : St) (sched : List Nat) (h : SInv s) (j : Nat) :
    pushSeq (run s sched) j = pushSeq s j := by
  induction sched generalizing s with
  | nil => rfl
  | cons i rest ih =>
    show pushSeq (run ((step s i).getD s) rest) j = pushSeq s j
    cases hs : step s i with
    | none => exact ih s h
    | some s1 =>
      have := ih s1 (step_inv s s1 i h hs)
      simp only [Option.getD_some]
      rw [this, step_pushSeq s s1 i h hs j]

theorem init_pushSeq (progs : List (List Op)) (j : Nat) :
    pushSeq (init progs) j = ((progs[j]?).map pushesOf).getD [] := by
  simp only [pushSeq, linked, init, List.getElem?_map]
  cases progs[j]? <;> simp [pushesLeft_start]

/-! ## A finished thread has nothing left to do -/

def DoneInv (s : St) : Prop :=
  ∀ (j : Nat) (th : Thread), s.ths[j]? = some th → th.pc = .done → th.todo = []

theorem start_done (todo : List Op) : (start todo).pc = .done → (start todo).todo = [] := by
  cases todo with
  | nil => intro _; rfl
  | cons op r => cases op <;> simp [start]

theorem trans_done (g g' : Glob) (i : Nat) (th th' : Thread) (hs : trans g i th = some (g', th')) :
    th'.pc = .done → th'.todo = [] := by
  obtain ⟨pc, todo⟩ := th
  cases pc <;> simp only [trans] at hs
  case done => cases hs
  case crashed => cases hs
  case puSwing t n => cases hs; exact start_done _
  case poRecheck h t nx e =>
    split at hs
    · split at hs
      · cases nx <;> cases hs
        · exact start_done _
        · simp
      · cases nx with
        | none => cases hs; simp
        | some k => simp only at hs; split at hs <;> cases hs <;> simp
    · cases hs; simp
  case poCasHead h k v =>
    split at hs <;> cases hs
    · exact start_done _
    · simp
  all_goals
    (try split at hs)
    all_goals (try split at hs)
    all_goals cases hs <;> simp

theorem step_done (s s' : St) (i : Nat) (h : DoneInv s) (hs : step s i = some s') : DoneInv s' := by
  unfold step at hs
  cases hth : s.ths[i]? with
  | none => simp [hth] at hs
  | some th =>
    simp only [hth] at hs
    cases htr : trans s.g i th with
    | none => simp [htr] at hs
    | some r =>
      obtain ⟨g', th'⟩ := r
      simp only [htr, Option.some.injEq] at hs
      subst hs
      intro j tj hj
      have hj' : (s.ths.set i th')[j]? = some tj := hj
      have hi : i < s.ths.length := by
        rcases Nat.lt_or_ge i s.ths.length with h | h
        · exact h
        · rw [List.getElem?_eq_none h] at hth; cases hth
      by_cases hij : i = j
      · subst hij
        have : (s.ths.set i th')[i]? = some th' := by simp [hi]
        rw [this] at hj'; cases hj'; exact trans_done _ _ _ _ _ htr
      · have : (s.ths.set i th')[j]? = s.ths[j]? := by simp [List.getElem?_set, hij]
        rw [this] at hj'; exact h j tj hj'

theorem run_done (s : St) (sched : List Nat) (h : DoneInv s) : DoneInv (run s sched) := by
  induction sched generalizing s with
  | nil => exact h
  | cons i rest ih =>
    show DoneInv (run ((step s i).getD s) rest)
    cases hs : step s i with
    | none => exact ih s h
    | some s1 => exact ih s1 (step_done s s1 i h hs)

theorem init_done (progs : List (List Op)) : DoneInv (init progs) := by
  intro j th hj
  simp only [init, List.getElem?_map] at hj
  cases hp : progs[j]? with
  | none => simp [hp] at hj
  | some p => simp [hp] at hj; subst hj; exact start_done _

/-! ## Every recorded pop belongs to an existing thread; the thread list never changes length -/

theorem trans_popped (g g' : Glob) (i : Nat) (th th' : Thread) (hs : trans g i th = some (g', th')) :
    ∀ q ∈ g'.popped, q ∈ g.popped ∨ q.1 = i := by
  obtain ⟨pc, todo⟩ := th
  cases pc <;> simp only [trans] at hs
  case done => cases hs
  case crashed => cases hs
  case poCasHead h k v =>
    split at hs <;> cases hs
    · intro q hq
      rcases List.mem_append.mp hq with h | h
      · exact Or.inl h
      · right; simp at h; rw [h]
    · intro q hq; exact Or.inl hq
  case poRecheck h t nx e =>
    split at hs
    · split at hs
      · cases nx <;> cases hs <;> intro q hq <;> exact Or.inl hq
      · cases nx with
        | none => cases hs; intro q hq; exact Or.inl hq
        | some k => simp only at hs; split at hs <;> cases hs <;> intro q hq <;> exact Or.inl hq
    · cases hs; intro q hq; exact Or.inl hq
  all_goals
    (try split at hs)
    all_goals (try split at hs)
    all_goals cases hs <;> intro q hq <;> exact Or.inl hq

def TidInv (s : St) : Prop := ∀ q ∈ s.g.popped, q.1 < s.ths.length

theorem step_tid (s s' : St) (i : Nat) (h : TidInv s) (hs : step s i = some s') :
    TidInv s' ∧ s'.ths.length = s.ths.length := by
  unfold step at hs
  cases hth : s.ths[i]? with
  | none => simp [hth] at hs
  | some th =>
    simp only [hth] at hs
    cases htr : trans s.g i th with
    | none => simp [htr] at hs
    | some r =>
      obtain ⟨g', th'⟩ := r
      simp only [htr, Option.some.injEq] at hs
      subst hs
      have hi : i < s.ths.length := by
        rcases Nat.lt_or_ge i s.ths.length with h | h
        · exact h
        · rw [List.getElem?_eq_none h] at hth; cases hth
      refine ⟨fun q hq => ?_, by simp⟩
      simp only [List.length_set]
      rcases trans_popped _ _ _ _ _ htr q hq with h' | h'
      · exact h q h'
      · rw [h']; exact hi

theorem run_tid (s : St) (sched : List Nat) (h : TidInv s) :
    TidInv (run s sched) ∧ (run s sched).ths.length = s.ths.length := by
  induction sched generalizing s with
  | nil => exact ⟨h, rfl⟩
  | cons i rest ih =>
    show TidInv (run ((step s i).getD s) rest) ∧ (run ((step s i).getD s) rest).ths.length = s.ths.length
    cases hs : step s i with
    | none => exact ih s h
    | some s1 =>
      obtain ⟨h1, h2⟩ := step_tid s s1 i h hs
      obtain ⟨h3, h4⟩ := ih s1 h1
      exact ⟨h3, by rw [Option.getD_some, h4, h2]⟩

theorem init_tid (progs : List (List Op)) : TidInv (init progs) := by
  intro q hq; simp [init] at hq

end MV.Model.LFQueue
