/-!
# Small list toolkit for the ECS proofs (C14): total indexing `nth` and counting lemmas
-/
namespace MV.Lemmas.ECSList

/-- total indexing (`List.getD` behind a name `simp` does not rewrite) -/
def nth {α : Type} (d : α) (l : List α) (i : Nat) : α := l.getD i d

variable {α : Type} (d : α)

theorem nth_eq_getElem (l : List α) (i : Nat) (h : i < l.length) : nth d l i = l[i] := by
  simp [nth, h]

theorem nth_ge (l : List α) (i : Nat) (h : l.length ≤ i) : nth d l i = d := by
  simp [nth, h]

theorem nth_append_left (l l' : List α) (i : Nat) (h : i < l.length) : nth d (l ++ l') i = nth d l i := by
  simp [nth, List.getElem?_append_left h]

theorem nth_append_ge (l l' : List α) (i : Nat) (h : l.length ≤ i) :
    nth d (l ++ l') i = nth d l' (i - l.length) := by
  simp [nth, List.getElem?_append_right h]

theorem nth_append_len (l : List α) (a : α) : nth d (l ++ [a]) l.length = a := by
  simp [nth]

theorem nth_set (l : List α) (i j : Nat) (a : α) :
    nth d (l.set i a) j = if i = j ∧ i < l.length then a else nth d l j := by
  simp only [nth, List.getD_eq_getElem?_getD, List.getElem?_set]
  by_cases h : i = j
  · subst h
    by_cases h2 : i < l.length
    · simp [h2]
    · simp [h2]
  · simp [h]

theorem nth_set_eq (l : List α) (i : Nat) (a : α) (h : i < l.length) : nth d (l.set i a) i = a := by
  simp [nth_set, h]

theorem nth_set_ne (l : List α) (i j : Nat) (a : α) (h : i ≠ j) : nth d (l.set i a) j = nth d l j := by
  simp [nth_set, h]

theorem nth_mem (l : List α) (i : Nat) (h : i < l.length) : nth d l i ∈ l := by
  rw [nth_eq_getElem d l i h]; exact List.getElem_mem h

theorem exists_nth_of_mem (l : List α) (x : α) (h : x ∈ l) : ∃ i, i < l.length ∧ nth d l i = x := by
  obtain ⟨i, hi, he⟩ := List.getElem_of_mem h
  exact ⟨i, hi, by rw [nth_eq_getElem d l i hi]; exact he⟩

theorem nth_replicate (n i : Nat) (a : α) (h : i < n) : nth d (List.replicate n a) i = a := by
  simp [nth, h]

theorem nth_cons_zero (a : α) (l : List α) : nth d (a :: l) 0 = a := rfl

theorem nth_cons_succ (a : α) (l : List α) (i : Nat) : nth d (a :: l) (i + 1) = nth d l i := rfl

/-- in a duplicate-free list positions are determined by values -/
theorem nth_inj (l : List α) (hn : l.Nodup) (i j : Nat) (hi : i < l.length) (hj : j < l.length)
    (h : nth d l i = nth d l j) : i = j := by
  rw [nth_eq_getElem d l i hi, nth_eq_getElem d l j hj] at h
  exact (List.getElem_inj hn).mp h

end MV.Lemmas.ECSList
