import MV.Lemmas.AStarSearch
/-!
Go's `container/heap` (as transcribed in `MV.Model.AStar.GoHeap`) is a lawful priority queue:
`up`/`down` restore the heap order, `Push`/`Pop` permute the contents, `Pop` returns a minimum key.
Core Lean only.
-/
namespace MV.Lemmas.GoHeap
open MV.Model.AStar MV.Model.AStar.GoHeap

def key (a : Array Entry) (k : Nat) : Nat := (a[k]!).key

theorem size_swap (a : Array Entry) (i j : Nat) : (swap a i j).size = a.size := by
  unfold swap Array.swapIfInBounds
  split
  · split <;> simp
  · rfl

theorem getElem!_swap (a : Array Entry) (i j k : Nat) (hi : i < a.size) (hj : j < a.size) :
    (swap a i j)[k]! = if k = i then a[j]! else if k = j then a[i]! else a[k]! := by
  unfold swap Array.swapIfInBounds
  simp only [hi, hj, dite_true]
  by_cases hk : k < a.size
  · rw [getElem!_pos _ k (by simpa using hk), Array.getElem_swap]
    split
    · rw [getElem!_pos a j hj]
    · split
      · rw [getElem!_pos a i hi]
      · rw [getElem!_pos a k hk]
  · have h1 : k ≠ i := by omega
    have h2 : k ≠ j := by omega
    rw [if_neg h1, if_neg h2, getElem!_neg _ k (by simpa using hk), getElem!_neg a k hk]

theorem swap_perm (a : Array Entry) (i j : Nat) (hi : i < a.size) (hj : j < a.size) :
    (swap a i j).toList.Perm a.toList := by
  unfold swap Array.swapIfInBounds
  simp only [hi, hj, dite_true]
  exact Array.perm_iff_toList_perm.1 (Array.swap_perm hi hj)


local notation:max "par(" k ")" => ((k - 1) / 2)

/-- heap order on the prefix of length `n` -/
def HeapOrdN (a : Array Entry) (n : Nat) : Prop := ∀ k, 0 < k → k < n → key a (par(k)) ≤ key a k

theorem key_swap (a : Array Entry) (i j k : Nat) (hi : i < a.size) (hj : j < a.size) :
    key (swap a i j) k = if k = i then key a j else if k = j then key a i else key a k := by
  unfold key; rw [getElem!_swap a i j k hi hj]
  split
  · rfl
  · split <;> rfl

theorem less_iff (a : Array Entry) (i j : Nat) : less a i j = true ↔ key a i < key a j := by
  simp [less, key]

/-- heap order holds everywhere except between `j` and its parent; the grandparent is below `j`'s children -/
def UpInv (a : Array Entry) (j : Nat) : Prop :=
  (∀ k, 0 < k → k < a.size → k ≠ j → key a (par(k)) ≤ key a k) ∧
  (∀ k, 0 < k → k < a.size → par(k) = j → 0 < j → key a (par(j)) ≤ key a k)

theorem up_spec : ∀ (j : Nat) (a : Array Entry), j < a.size → UpInv a j →
    (up a j).size = a.size ∧ (up a j).toList.Perm a.toList ∧ HeapOrdN (up a j) a.size := by
  intro j
  induction j using Nat.strongRecOn with
  | _ j ih =>
    intro a hj hinv
    rw [up]
    by_cases hstop : (j - 1) / 2 = j ∨ less a j ((j - 1) / 2) = false
    · rw [if_pos hstop]
      refine ⟨rfl, List.Perm.refl _, ?_⟩
      intro k hk0 hkn
      by_cases hkj : k = j
      · subst hkj
        rcases hstop with h1 | h1
        · omega
        · have : ¬ key a k < key a (par(k)) := by
            rw [← less_iff]; simpa using h1
          omega
      · exact hinv.1 k hk0 hkn hkj
    · rw [if_neg hstop]
      have hne : (j - 1) / 2 ≠ j := fun h => hstop (Or.inl h)
      have hlt : key a j < key a (par(j)) := by
        rw [← less_iff]
        cases hl : less a j ((j - 1) / 2) with
        | true => rfl
        | false => exact absurd (Or.inr hl) hstop
      have hij : par(j) < j := by omega
      have hi : par(j) < a.size := by omega
      have hsz := size_swap a (par(j)) j
      have hk := key_swap a (par(j)) j
      obtain ⟨r1, r2, r3⟩ := ih (par(j)) hij (swap a (par(j)) j) (by omega) (by
        constructor
        · intro k hk0 hkn hkne
          rw [hsz] at hkn
          rw [hk _ hi hj, hk _ hi hj]
          by_cases hkj : k = j
          · subst hkj
            simp only [if_neg (show k ≠ par(k) by omega), if_true]
            omega
          · have hpk : par(k) ≠ par(j) ∨ par(k) = par(j) := by omega
            have hok := hinv.1 k hk0 hkn hkj
            simp only [if_neg hkne, if_neg hkj]
            by_cases h1 : par(k) = par(j)
            · rw [if_pos h1]; rw [h1] at hok; omega
            · rw [if_neg h1]
              by_cases h2 : par(k) = j
              · rw [if_pos h2]
                have := hinv.2 k hk0 hkn h2 (by omega)
                omega
              · rw [if_neg h2]; exact hok
        · intro k hk0 hkn hpar hpos
          rw [hsz] at hkn
          rw [hk _ hi hj, hk _ hi hj]
          have hpp : par(par(j)) ≠ par(j) := by omega
          have hpp2 : par(par(j)) ≠ j := by omega
          have hki : k ≠ par(j) := by omega
          simp only [if_neg hpp, if_neg hpp2, if_neg hki]
          have hgp := hinv.1 (par(j)) hpos hi (by omega)
          by_cases hkj : k = j
          · rw [if_pos hkj]; exact hgp
          · rw [if_neg hkj]
            have := hinv.1 k hk0 hkn hkj
            rw [hpar] at this; omega)
      refine ⟨by rw [r1, hsz], r2.trans (swap_perm a _ _ hi hj), ?_⟩
      rw [hsz] at r3; exact r3


/-- heap order on the prefix `n` holds except on the edges out of `i`; `i`'s parent is below `i`'s children -/
def DownInv (a : Array Entry) (i n : Nat) : Prop :=
  (∀ k, 0 < k → k < n → par(k) ≠ i → key a (par(k)) ≤ key a k) ∧
  (∀ k, 0 < k → k < n → par(k) = i → 0 < i → key a (par(i)) ≤ key a k)

theorem down_spec : ∀ (d : Nat) (a : Array Entry) (i n : Nat), n - i = d → n ≤ a.size → DownInv a i n →
    (down a i n).size = a.size ∧ (down a i n).toList.Perm a.toList ∧ HeapOrdN (down a i n) n ∧
      ∀ k, n ≤ k → (down a i n)[k]! = a[k]! := by
  intro d
  induction d using Nat.strongRecOn with
  | _ d ih =>
    intro a i n hd hn hinv
    rw [down]
    by_cases h1 : 2 * i + 1 ≥ n
    · rw [if_pos h1]
      refine ⟨rfl, List.Perm.refl _, ?_, fun _ _ => rfl⟩
      intro k hk0 hkn
      exact hinv.1 k hk0 hkn (by omega)
    · rw [if_neg h1]
      -- the smaller child
      generalize hj : (if 2 * i + 1 + 1 < n ∧ less a (2 * i + 1 + 1) (2 * i + 1) = true then 2 * i + 1 + 1 else 2 * i + 1) = j
      have hjc : (j = 2 * i + 1 ∨ j = 2 * i + 2) ∧ j < n ∧
          key a j ≤ key a (2 * i + 1) ∧ (2 * i + 2 < n → key a j ≤ key a (2 * i + 2)) := by
        by_cases hc : 2 * i + 1 + 1 < n ∧ less a (2 * i + 1 + 1) (2 * i + 1) = true
        · rw [if_pos hc] at hj; subst hj
          have := (less_iff a _ _).1 hc.2
          exact ⟨Or.inr rfl, hc.1, by omega, fun _ => Nat.le_refl _⟩
        · rw [if_neg hc] at hj; subst hj
          refine ⟨Or.inl rfl, by omega, Nat.le_refl _, ?_⟩
          intro h2
          have : ¬ (less a (2 * i + 1 + 1) (2 * i + 1) = true) := fun h => hc ⟨by omega, h⟩
          rw [less_iff] at this
          have e : 2 * i + 1 + 1 = 2 * i + 2 := rfl
          rw [e] at this; omega
      obtain ⟨hjv, hjn, hj1, hj2⟩ := hjc
      by_cases hstop : less a j i = false
      · rw [if_pos hstop]
        refine ⟨rfl, List.Perm.refl _, ?_, fun _ _ => rfl⟩
        have hij : key a i ≤ key a j := by
          have : ¬ (less a j i = true) := by simp [hstop]
          rw [less_iff] at this; omega
        intro k hk0 hkn
        by_cases hp : par(k) = i
        · rw [hp]
          have : k = 2 * i + 1 ∨ k = 2 * i + 2 := by omega
          rcases this with rfl | rfl
          · omega
          · have := hj2 hkn; omega
        · exact hinv.1 k hk0 hkn hp
      · rw [if_neg hstop]
        have hlt : key a j < key a i := by
          rw [← less_iff]
          cases hl : less a j i with
          | true => rfl
          | false => exact absurd hl hstop
        have hi : i < a.size := by omega
        have hja : j < a.size := by omega
        have hsz := size_swap a i j
        have hk := key_swap a i j
        have hij : i ≠ j := by omega
        obtain ⟨r1, r2, r3, r4⟩ := ih (n - j) (by omega) (swap a i j) j n rfl (by omega) (by
          constructor
          · intro k hk0 hkn hpk
            rw [hk _ hi hja, hk _ hi hja]
            by_cases hkj : k = j
            · subst hkj
              have hpi : par(k) = i := by omega
              simp only [hpi, if_true, if_neg (Ne.symm hij)]
              omega
            · by_cases hki : k = i
              · subst hki
                have hp1 : par(k) ≠ k := by omega
                have hp2 : par(k) ≠ j := by omega
                simp only [if_neg hp1, if_neg hp2, if_true]
                have := hinv.2 j (by omega) hjn (by omega) hk0
                omega
              · simp only [if_neg hki, if_neg hkj]
                by_cases hpi : par(k) = i
                · rw [if_pos hpi]
                  have : k = 2 * i + 1 ∨ k = 2 * i + 2 := by omega
                  rcases this with rfl | rfl
                  · omega
                  · have := hj2 hkn; omega
                · rw [if_neg hpi, if_neg hpk]
                  exact hinv.1 k hk0 hkn hpi
          · intro k hk0 hkn hpk _
            rw [hk _ hi hja, hk _ hi hja]
            have hpj : par(j) = i := by omega
            have hki : k ≠ i := by omega
            have hkj : k ≠ j := by omega
            simp only [hpj, if_true, if_neg hki, if_neg hkj]
            have := hinv.1 k hk0 hkn (by omega)
            rw [hpk] at this; exact this)
        refine ⟨by rw [r1, hsz], r2.trans (swap_perm a _ _ hi hja), r3, ?_⟩
        intro k hkn
        rw [r4 k hkn, getElem!_swap a i j k hi hja, if_neg (by omega), if_neg (by omega)]


def HeapOrd (a : Array Entry) : Prop := HeapOrdN a a.size

theorem key_push_lt (a : Array Entry) (e : Entry) (k : Nat) (hk : k < a.size) : key (a.push e) k = key a k := by
  unfold key
  rw [getElem!_pos (a.push e) k (by simp; omega), getElem!_pos a k hk, Array.getElem_push_lt hk]

theorem push_spec (a : Array Entry) (e : Entry) (h : HeapOrd a) :
    HeapOrd (push a e) ∧ (push a e).toList.Perm (e :: a.toList) := by
  unfold push
  have hsz : (a.push e).size = a.size + 1 := by simp
  obtain ⟨r1, r2, r3⟩ := up_spec a.size (a.push e) (by omega) (by
    constructor
    · intro k hk0 hkn hkne
      have hk : k < a.size := by omega
      rw [key_push_lt a e k hk, key_push_lt a e _ (by omega)]
      exact h k hk0 hk
    · intro k _ hkn hpar _
      omega)
  refine ⟨?_, ?_⟩
  · unfold HeapOrd; rw [r1]; exact r3
  · refine r2.trans ?_
    rw [Array.toList_push]
    exact List.perm_append_singleton e a.toList

theorem root_min (a : Array Entry) (h : HeapOrd a) : ∀ k, k < a.size → key a 0 ≤ key a k := by
  intro k
  induction k using Nat.strongRecOn with
  | _ k ih =>
    intro hk
    by_cases h0 : k = 0
    · subst h0; exact Nat.le_refl _
    · have := h k (by omega) hk
      have := ih (par(k)) (by omega) (by omega)
      omega

theorem pop_none (a : Array Entry) (hp : pop a = none) : a.toList = [] := by
  unfold pop at hp
  by_cases h0 : a.size = 0
  · simpa using h0
  · rw [if_neg h0] at hp; simp at hp

theorem pop_some (a : Array Entry) (e : Entry) (q' : Array Entry) (h : HeapOrd a) (hp : pop a = some (e, q')) :
    HeapOrd q' ∧ a.toList.Perm (e :: q'.toList) ∧ ∀ x ∈ a.toList, e.key ≤ x.key := by
  unfold pop at hp
  by_cases h0 : a.size = 0
  · rw [if_pos h0] at hp; simp at hp
  · rw [if_neg h0] at hp
    have hn : a.size - 1 < a.size := by omega
    have h0' : 0 < a.size := by omega
    have hsz := size_swap a 0 (a.size - 1)
    have hk := key_swap a 0 (a.size - 1)
    obtain ⟨r1, r2, r3, r4⟩ := down_spec (a.size - 1 - 0) (swap a 0 (a.size - 1)) 0 (a.size - 1) rfl (by omega) (by
      constructor
      · intro k hk0 hkn hpk
        rw [hk _ h0' hn, hk _ h0' hn, if_neg hpk, if_neg (show (k - 1) / 2 ≠ a.size - 1 by omega),
          if_neg (show k ≠ 0 by omega), if_neg (show k ≠ a.size - 1 by omega)]
        exact h k hk0 (by omega)
      · intro k _ _ _ h; omega)
    simp only [Option.some.injEq, Prod.mk.injEq] at hp
    obtain ⟨he, hq⟩ := hp
    have hlast : e = a[0]! := by
      rw [← he, r4 _ (Nat.le_refl _), getElem!_swap a 0 (a.size - 1) _ h0' hn]
      by_cases hz : a.size - 1 = 0
      · rw [if_pos hz, hz]
      · rw [if_neg hz, if_pos rfl]
    have hsz2 : (down (swap a 0 (a.size - 1)) 0 (a.size - 1)).size = a.size := by rw [r1, hsz]
    generalize down (swap a 0 (a.size - 1)) 0 (a.size - 1) = a2 at *
    refine ⟨?_, ?_, ?_⟩
    · -- heap order of the shortened array
      subst hq
      intro k hk0 hkn
      have hkn' : k < a.size - 1 := by simpa [hsz2] using hkn
      have e1 : key a2.pop k = key a2 k := by
        unfold key
        rw [getElem!_pos a2.pop k (by simpa [hsz2] using hkn'), getElem!_pos a2 k (by omega), Array.getElem_pop]
      have e2 : key a2.pop (par(k)) = key a2 (par(k)) := by
        unfold key
        rw [getElem!_pos a2.pop _ (by simp [hsz2]; omega), getElem!_pos a2 _ (by omega), Array.getElem_pop]
      rw [e1, e2]
      exact r3 k hk0 hkn'
    · -- permutation
      have hperm : a.toList.Perm a2.toList := (r2.trans (swap_perm a _ _ h0' hn)).symm
      refine hperm.trans ?_
      subst hq
      rw [Array.toList_pop]
      have hne : a2.toList ≠ [] := by
        intro hnil
        have h3 : a2.toList.length = 0 := by rw [hnil]; rfl
        rw [Array.length_toList] at h3; omega
      have hgl : a2.toList.getLast hne = e := by
        rw [← he, List.getLast_eq_getElem]
        simp only [Array.length_toList, hsz2]
        rw [getElem!_pos a2 (a.size - 1) (by omega)]
        simp
      have := List.dropLast_concat_getLast hne
      rw [hgl] at this
      rw [← this] at *
      simp only [List.dropLast_concat]
      exact List.perm_append_singleton e _
    · intro x hx
      obtain ⟨k, hk, hxk⟩ := List.mem_iff_getElem.1 hx
      have hk' : k < a.size := by simpa using hk
      have := root_min a h k hk'
      unfold key at this
      rw [getElem!_pos a k hk', getElem!_pos a 0 h0'] at this
      rw [hlast, getElem!_pos a 0 h0', ← hxk]
      simpa using this


/-- the transcription of `container/heap` satisfies the queue laws the A* proofs use -/
def goHeapLawful : MV.Lemmas.AStar.Lawful goHeap where
  inv := HeapOrd
  elems := Array.toList
  inv_empty := by intro k _ hk; simp [goHeap] at hk
  elems_empty := rfl
  push_inv q e h := (push_spec q e h).1
  push_perm q e h := (push_spec q e h).2
  pop_none q _ hp := pop_none q hp
  pop_some q e q' h hp := pop_some q e q' h hp

end MV.Lemmas.GoHeap
