import MV.Model.ECS
import MV.Lemmas.ECSList
/-!
# Column storage (`storage/column/storage.go`): rows are private to their key (C14)

`StoreOK s`: distinct keys own distinct rows below `rows`, none of them invalid; the invalid list is
duplicate-free and below `rows`; every cell of an invalid or never-used row holds the default value.
-/
namespace MV.Lemmas.ECSStore
open MV.Model.ECS MV.Model.ECSMask

structure StoreOK (s : Store) : Prop where
  inj : ∀ k k' r, s.pk k = some r → s.pk k' = some r → k = k'
  lt : ∀ k r, s.pk k = some r → r < s.rows
  notinv : ∀ k r, s.pk k = some r → r ∉ s.invalids
  inv_lt : ∀ r, r ∈ s.invalids → r < s.rows
  inv_nodup : s.invalids.Nodup
  clear : ∀ r c, (r ∈ s.invalids ∨ s.rows ≤ r) → s.cells r c = 0

theorem new_ok (m : Mask) : StoreOK (Store.new m) := by
  constructor <;> simp [Store.new]

/-- `AddRow(k)`: `k` gets a row of default cells, nobody else is affected -/
theorem addRow_spec (s : Store) (k : Nat) (h : StoreOK s) :
    StoreOK (s.addRow k) ∧ (s.addRow k).cols = s.cols ∧ (s.addRow k).cells = s.cells ∧
      (∀ k', k' ≠ k → (s.addRow k).pk k' = s.pk k') ∧
      ∃ r, (s.addRow k).pk k = some r ∧ ∀ c, s.cells r c = 0 := by
  unfold Store.addRow
  cases hi : s.invalids with
  | nil =>
    refine ⟨?_, rfl, rfl, ?_, ?_⟩
    · constructor
      all_goals dsimp only
      · intro k1 k2 r h1 h2
        simp only [upd] at h1 h2
        by_cases e1 : k1 = k <;> by_cases e2 : k2 = k <;> simp [e1, e2] at h1 h2
        · rw [e1, e2]
        · have := h.lt _ _ h2; omega
        · have := h.lt _ _ h1; omega
        · exact h.inj _ _ _ h1 h2
      · intro k1 r h1
        simp only [upd] at h1
        by_cases e1 : k1 = k <;> simp [e1] at h1
        · omega
        · have := h.lt _ _ h1; omega
      · intro k1 r _; simp
      · intro r hr; simp at hr
      · simp
      · intro r c hr
        apply h.clear
        rcases hr with hr | hr
        · simp at hr
        · right; omega
    · intro k' hk'; dsimp only; simp [upd, hk']
    · exact ⟨s.rows, by dsimp only; simp [upd], fun c => h.clear _ c (Or.inr (Nat.le_refl _))⟩
  | cons r0 rest =>
    have hnd := h.inv_nodup
    rw [hi, List.nodup_cons] at hnd
    refine ⟨?_, rfl, rfl, ?_, ?_⟩
    · constructor
      all_goals dsimp only
      · intro k1 k2 r h1 h2
        simp only [upd] at h1 h2
        by_cases e1 : k1 = k <;> by_cases e2 : k2 = k <;> simp [e1, e2] at h1 h2
        · rw [e1, e2]
        · have := h.notinv _ _ h2; rw [hi, ← h1] at this; simp at this
        · have := h.notinv _ _ h1; rw [hi, ← h2] at this; simp at this
        · exact h.inj _ _ _ h1 h2
      · intro k1 r h1
        simp only [upd] at h1
        by_cases e1 : k1 = k <;> simp [e1] at h1
        · have := h.inv_lt r0 (by simp [hi]); omega
        · exact h.lt _ _ h1
      · intro k1 r h1
        simp only [upd] at h1
        by_cases e1 : k1 = k <;> simp [e1] at h1
        · subst h1; exact hnd.1
        · have := h.notinv _ _ h1; rw [hi] at this; simp at this; exact this.2
      · intro r hr; exact h.inv_lt r (by simp [hi, hr])
      · exact hnd.2
      · intro r c hr
        apply h.clear
        rcases hr with hr | hr
        · left; simp [hi, hr]
        · right; exact hr
    · intro k' hk'; dsimp only; simp [upd, hk']
    · exact ⟨r0, by dsimp only; simp [upd], fun c => h.clear _ c (Or.inl (by simp [hi]))⟩

/-- `DelRow(k)` -/
theorem delRow_spec (s : Store) (k : Nat) (h : StoreOK s) :
    StoreOK (s.delRow k) ∧ (s.delRow k).cols = s.cols ∧ (s.delRow k).pk k = none ∧
      (∀ k', k' ≠ k → (s.delRow k).pk k' = s.pk k') ∧
      (∀ k' r, k' ≠ k → s.pk k' = some r → ∀ c, (s.delRow k).cells r c = s.cells r c) := by
  unfold Store.delRow
  cases hp : s.pk k with
  | none => exact ⟨h, rfl, hp, fun _ _ => rfl, fun _ _ _ _ _ => rfl⟩
  | some r0 =>
    refine ⟨?_, rfl, by simp [upd], fun k' hk' => by simp [upd, hk'], ?_⟩
    · constructor
      all_goals dsimp only
      · intro k1 k2 r h1 h2
        simp only [upd] at h1 h2
        by_cases e1 : k1 = k <;> by_cases e2 : k2 = k <;> simp [e1, e2] at h1 h2
        exact h.inj _ _ _ h1 h2
      · intro k1 r h1
        simp only [upd] at h1
        by_cases e1 : k1 = k <;> simp [e1] at h1
        exact h.lt _ _ h1
      · intro k1 r h1
        simp only [upd] at h1
        by_cases e1 : k1 = k <;> simp [e1] at h1
        simp only [List.mem_append, List.mem_singleton, not_or]
        refine ⟨h.notinv _ _ h1, ?_⟩
        intro e; subst e; exact e1 (h.inj _ _ _ h1 hp)
      · intro r hr
        simp only [List.mem_append, List.mem_singleton] at hr
        rcases hr with hr | hr
        · exact h.inv_lt r hr
        · subst hr; exact h.lt _ _ hp
      · rw [List.nodup_append]
        refine ⟨h.inv_nodup, by simp, ?_⟩
        intro a ha b hb
        simp only [List.mem_singleton] at hb; subst hb
        intro e; subst e; exact h.notinv _ _ hp ha
      · intro r c hr
        by_cases e : r = r0
        · simp [e]
        · simp only [e, if_false]
          apply h.clear
          rcases hr with hr | hr
          · simp only [List.mem_append, List.mem_singleton] at hr
            rcases hr with hr | hr
            · exact Or.inl hr
            · exact absurd hr e
          · exact Or.inr hr
    · intro k' r hk' hr c
      have : r ≠ r0 := by intro e; subst e; exact hk' (h.inj _ _ _ hr hp)
      simp [this]

/-- a write through the pointer for `(k, c)` -/
theorem put_spec (s : Store) (k c : Nat) (v : Int) (r : Nat) (h : StoreOK s) (hr : s.pk k = some r) :
    StoreOK (s.put k c v) ∧ (s.put k c v).cols = s.cols ∧ (s.put k c v).pk = s.pk ∧
      (s.put k c v).cells r c = v ∧
      (∀ r' c', (r' ≠ r ∨ c' ≠ c) → (s.put k c v).cells r' c' = s.cells r' c') := by
  unfold Store.put
  rw [hr]
  refine ⟨?_, rfl, rfl, by simp, ?_⟩
  · constructor
    all_goals dsimp only
    · exact h.inj
    · exact h.lt
    · exact h.notinv
    · exact h.inv_lt
    · exact h.inv_nodup
    · intro r' c' hr'
      have : r' ≠ r := by
        intro e; subst e
        rcases hr' with hr' | hr'
        · exact h.notinv _ _ hr hr'
        · have := h.lt _ _ hr; omega
      simp only [this, false_and, if_false]
      exact h.clear _ _ hr'
  · intro r' c' hne
    have : ¬ (r' = r ∧ c' = c) := by
      intro ⟨a, b⟩; rcases hne with hne | hne
      · exact hne a
      · exact hne b
    simp [this]

/-- `AddRows(ks)` for distinct keys -/
theorem addRows_spec (ks : List Nat) : ∀ (s : Store), StoreOK s → ks.Nodup →
    StoreOK (s.addRows ks) ∧ (s.addRows ks).cols = s.cols ∧ (s.addRows ks).cells = s.cells ∧
      (∀ k', k' ∉ ks → (s.addRows ks).pk k' = s.pk k') ∧
      ∀ k, k ∈ ks → ∃ r, (s.addRows ks).pk k = some r ∧ ∀ c, s.cells r c = 0 := by
  induction ks with
  | nil => intro s h _; simp [Store.addRows]; exact h
  | cons k ks ih =>
    intro s h hn
    rw [List.nodup_cons] at hn
    obtain ⟨h1, hc1, hce1, hpk1, r1, hr1, hz1⟩ := addRow_spec s k h
    obtain ⟨h2, hc2, hce2, hpk2, hall2⟩ := ih (s.addRow k) h1 hn.2
    have e : s.addRows (k :: ks) = (s.addRow k).addRows ks := rfl
    rw [e]
    refine ⟨h2, by rw [hc2, hc1], by rw [hce2, hce1], ?_, ?_⟩
    · intro k' hk'
      simp only [List.mem_cons, not_or] at hk'
      rw [hpk2 k' hk'.2, hpk1 k' hk'.1]
    · intro k' hk'
      rcases List.mem_cons.mp hk' with e | hk'
      · subst e
        exact ⟨r1, by rw [hpk2 k' hn.1, hr1], hz1⟩
      · obtain ⟨r, hr, hz⟩ := hall2 k' hk'
        exact ⟨r, hr, by rw [← hce1]; exact hz⟩

end MV.Lemmas.ECSStore
