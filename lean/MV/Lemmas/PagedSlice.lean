import MV.Spec.Slice
/-!
# `PagedSlice` refines the plain slice

`WF`: page size ≥ 1, the logical length fits the allocated pages, every allocated cell beyond the
length is zero (the reason `Grow` exposes zero values), and `lenLast` is the fill of the last page
(what `Add` relies on).  `abs` is the list of the first `len` cells.
-/
namespace MV.Model.Paged
open MV.Model

/-- `lenLast` / page-count bookkeeping -/
def Book (s : Paged) : Prop :=
  (s.np = 0 ∧ s.len = 0 ∧ s.lenLast = 0) ∨ (s.np = 1 ∧ s.len = 0 ∧ s.lenLast = 0) ∨
    (1 ≤ s.np ∧ 1 ≤ s.lenLast ∧ s.lenLast ≤ s.ps ∧ s.len = (s.np - 1) * s.ps + s.lenLast)

structure WF (s : Paged) : Prop where
  ps1 : 1 ≤ s.ps
  fits : s.len ≤ s.np * s.ps
  slack : ∀ i, s.len ≤ i → i < s.np * s.ps → s.buf i = 0
  book : Book s

theorem wf_new (ps : Nat) (h : 1 ≤ ps) : WF (Paged.new ps) :=
  ⟨h, by simp [Paged.new], fun i _ h2 => by simp [Paged.new] at h2, Or.inl ⟨rfl, rfl, rfl⟩⟩

theorem abs_new (ps : Nat) : (Paged.new ps).abs = [] := rfl

theorem length_abs (s : Paged) : s.abs.length = s.len := by simp [abs]

theorem getElem_abs (s : Paged) (i : Nat) (h : i < s.abs.length) : s.abs[i] = s.buf i := by simp [abs]

theorem pred_mul (a b : Nat) (h : 1 ≤ a) : a * b = (a - 1) * b + b := by
  have : a = (a - 1) + 1 := by omega
  rw [this, Nat.succ_mul]; simp

/-! ## cell access -/

theorem cell (ps i : Nat) : i / ps * ps + i % ps = i := Nat.div_add_mod' i ps

theorem read_eq (s : Paged) (h1 : 1 ≤ s.ps) (i : Nat) (hi : i < s.np * s.ps) : s.read (i : Int) = some (s.buf i) := by
  unfold read
  have hn : ¬ ((i : Int) < 0) := by omega
  have hp : i / s.ps < s.np := (Nat.div_lt_iff_lt_mul (by omega)).mpr hi
  simp only [hn, if_false, Int.toNat_natCast, hp, if_true, cell]

theorem write_eq (s : Paged) (h1 : 1 ≤ s.ps) (i : Nat) (hi : i < s.np * s.ps) (v : Int) :
    s.write (i : Int) v = some { s with buf := upd s.buf i v } := by
  unfold write
  have hn : ¬ ((i : Int) < 0) := by omega
  have hp : i / s.ps < s.np := (Nat.div_lt_iff_lt_mul (by omega)).mpr hi
  simp only [hn, if_false, Int.toNat_natCast, hp, if_true, cell]

theorem write_neg (s : Paged) (i v : Int) (h : i < 0) : s.write i v = none := by
  unfold write; simp [h]

/-! ## `Set` / `Get` -/

theorem set_in (s : Paged) (h : WF s) (i : Nat) (hi : i < s.len) (v : Int) :
    s.set (i : Int) v = some { s with buf := upd s.buf i v } := by
  unfold set
  have : ¬ ((i : Int) < 0 ∨ (i : Int) ≥ s.len) := by omega
  rw [if_neg this]
  exact write_eq s h.ps1 i (by have := h.fits; omega) v

theorem wf_upd (s : Paged) (h : WF s) (i : Nat) (hi : i < s.len) (v : Int) : WF { s with buf := upd s.buf i v } :=
  ⟨h.ps1, h.fits, fun j h1 h2 => by
    dsimp only at h1 h2 ⊢
    simp only [upd]
    have : ¬ j = i := by omega
    simp [this, h.slack j h1 h2], h.book⟩

theorem abs_upd (s : Paged) (i : Nat) (hi : i < s.len) (v : Int) :
    ({ s with buf := upd s.buf i v } : Paged).abs = s.abs.set i v := by
  apply List.ext_getElem
  · simp [abs]
  · intro j h1 h2
    simp only [abs, List.length_map, List.length_range] at h1
    simp only [abs, upd, List.getElem_set, List.getElem_map, List.getElem_range]
    by_cases e : i = j
    · subst e; simp
    · have e' : ¬ j = i := fun q => e q.symm
      simp [e, e']

theorem get_in (s : Paged) (h : WF s) (i : Nat) (hi : i < s.len) : s.get (i : Int) = some (s.abs.getD i 0) := by
  unfold get
  rw [read_eq s h.ps1 i (by have := h.fits; omega)]
  have : i < s.abs.length := by rw [length_abs]; exact hi
  simp [List.getD_eq_getElem?_getD, List.getElem?_eq_getElem this, getElem_abs]

/-! ## `Add` -/

theorem add_spec (s : Paged) (h : WF s) (v : Int) :
    ∃ s', s.add v = some s' ∧ WF s' ∧ s'.abs = s.abs ++ [v] := by
  have h1 := h.ps1
  unfold add
  by_cases hc : s.np = 0 ∨ s.lenLast = s.ps
  · -- a new page is appended
    rw [if_pos hc]
    have hlen : s.len = s.np * s.ps := by
      rcases h.book with ⟨a, b, _⟩ | ⟨a, b, c⟩ | ⟨a, b, c, d⟩
      · simp [a, b]
      · rcases hc with hc | hc
        · omega
        · omega
      · rcases hc with hc | hc
        · omega
        · rw [pred_mul s.np s.ps a, d, hc]
    have hgp : growPages s (s.np + 1) =
        { s with np := s.np + 1, buf := fun i => if s.np * s.ps ≤ i ∧ i < (s.np + 1) * s.ps then 0 else s.buf i } := by
      unfold growPages; simp
    rw [hgp]
    dsimp only
    have hg : ¬ (s.np + 1 = 0 ∨ 0 ≥ s.ps) := by omega
    rw [if_neg hg]
    have hsucc : (s.np + 1) * s.ps = s.np * s.ps + s.ps := Nat.succ_mul _ _
    refine ⟨_, rfl, ⟨h1, ?_, ?_, ?_⟩, ?_⟩
    · show s.len + 1 ≤ (s.np + 1) * s.ps; omega
    · intro i hi1 hi2
      dsimp only at hi1 hi2 ⊢
      have e : s.np + 1 - 1 = s.np := by omega
      simp only [upd, e, Nat.add_zero]
      have hi1' : s.len + 1 ≤ i := hi1
      have hi2' : i < (s.np + 1) * s.ps := hi2
      have hne : ¬ i = s.np * s.ps := by omega
      have hin : s.np * s.ps ≤ i ∧ i < (s.np + 1) * s.ps := by omega
      rw [if_neg hne, if_pos hin]
    · right; right
      refine ⟨by simp, by simp, h1, ?_⟩
      show s.len + 1 = (s.np + 1 - 1) * s.ps + (0 + 1)
      have e : s.np + 1 - 1 = s.np := by omega
      rw [e]; omega
    · apply List.ext_getElem
      · simp [abs]
      · intro j hj1 hj2
        simp only [abs, List.length_map, List.length_range] at hj1
        have e : s.np + 1 - 1 = s.np := by omega
        simp only [abs, List.getElem_map, List.getElem_range, upd, e, Nat.add_zero, List.getElem_append]
        have hj1' : j < s.len + 1 := hj1
        by_cases hj : j = s.np * s.ps
        · have : ¬ j < s.len := by omega
          simp [hj, ← hlen]
        · have : j < s.len := by omega
          have h3 : ¬ (s.np * s.ps ≤ j ∧ j < (s.np + 1) * s.ps) := by omega
          simp [hj, this, h3]
  · -- room in the last page
    rw [if_neg hc]
    have hnp : 1 ≤ s.np := by omega
    have hlen : s.len = (s.np - 1) * s.ps + s.lenLast ∧ s.lenLast < s.ps := by
      rcases h.book with ⟨a, _, _⟩ | ⟨a, b, c⟩ | ⟨a, b, c, d⟩
      · omega
      · simp [a, b, c]; omega
      · exact ⟨d, by omega⟩
    have hg : ¬ (s.np = 0 ∨ s.lenLast ≥ s.ps) := by omega
    rw [if_neg hg]
    have hmul := pred_mul s.np s.ps hnp
    refine ⟨_, rfl, ⟨h1, ?_, ?_, ?_⟩, ?_⟩
    · show s.len + 1 ≤ s.np * s.ps; omega
    · intro i hi1 hi2
      dsimp only at hi1 hi2 ⊢
      have hi1' : s.len + 1 ≤ i := hi1
      have hi2' : i < s.np * s.ps := hi2
      simp only [upd]
      have : ¬ i = (s.np - 1) * s.ps + s.lenLast := by omega
      simp only [this, if_false]
      exact h.slack i (by omega) hi2'
    · right; right
      refine ⟨hnp, by simp, ?_, ?_⟩
      · show s.lenLast + 1 ≤ s.ps; omega
      · show s.len + 1 = (s.np - 1) * s.ps + (s.lenLast + 1); omega
    · apply List.ext_getElem
      · simp [abs]
      · intro j hj1 hj2
        simp only [abs, List.length_map, List.length_range] at hj1
        have hj1' : j < s.len + 1 := hj1
        simp only [abs, List.getElem_map, List.getElem_range, upd, List.getElem_append]
        by_cases hj : j = (s.np - 1) * s.ps + s.lenLast
        · have : ¬ j < s.len := by omega
          simp [hj, ← hlen.1]
        · have : j < s.len := by omega
          simp [hj, this]

/-! ## growing -/

theorem growTo_small (s : Paged) (m : Int) (h : ¬ m ≥ s.len) : growTo s m = s := by
  unfold growTo; rw [if_neg h]

theorem growTo_spec (s : Paged) (h : WF s) (m : Int) :
    WF (growTo s m) ∧ (growTo s m).abs = MV.Spec.Slice.growTo s.abs m ∧ s.len ≤ (growTo s m).len ∧
      (m ≥ 0 → m.toNat < (growTo s m).len) := by
  have h1 := h.ps1
  unfold MV.Spec.Slice.growTo
  rw [length_abs]
  by_cases hm : m ≥ (s.len : Int)
  · rw [if_pos hm]
    unfold growTo
    rw [if_pos hm]
    dsimp only
    generalize hk : m.toNat = k
    have hkl : s.len ≤ k := by omega
    -- arithmetic of the page count
    have hdm : k / s.ps * s.ps + k % s.ps = k := cell s.ps k
    have hmod : k % s.ps < s.ps := Nat.mod_lt _ (by omega)
    have hnp0 : 1 ≤ s.np → s.lenLast ≥ 1 → s.len = (s.np - 1) * s.ps + s.lenLast → s.np - 1 ≤ k / s.ps := by
      intro _ _ d
      exact (Nat.le_div_iff_mul_le (by omega)).mpr (by omega)
    generalize hq : k / s.ps = q at *
    generalize hr : k % s.ps = r at *
    have htot : (q + 1) * s.ps = q * s.ps + s.ps := Nat.succ_mul _ _
    have hnp : s.np ≤ q + 1 := by
      rcases h.book with ⟨a, _, _⟩ | ⟨a, _, _⟩ | ⟨a, b, c, d⟩
      · omega
      · omega
      · have := hnp0 a b d
        omega
    have hnpmul : s.np * s.ps ≤ (q + 1) * s.ps := Nat.mul_le_mul_right _ hnp
    -- the state after `growPages`
    have hgp : ∃ buf', growPages s (q + 1) = { s with np := q + 1, buf := buf' } ∧
        (∀ i, i < s.len → buf' i = s.buf i) ∧ (∀ i, s.len ≤ i → i < (q + 1) * s.ps → buf' i = 0) := by
      unfold growPages
      by_cases hlt : s.np < q + 1
      · rw [if_pos hlt]
        refine ⟨_, rfl, ?_, ?_⟩
        · intro i hi
          have : ¬ (s.np * s.ps ≤ i ∧ i < (q + 1) * s.ps) := by have := h.fits; omega
          simp [this]
        · intro i hi1 hi2
          by_cases hc : s.np * s.ps ≤ i ∧ i < (q + 1) * s.ps
          · simp [hc]
          · simp only [hc, if_false]
            exact h.slack i hi1 (by omega)
      · rw [if_neg hlt]
        have e : s.np = q + 1 := by omega
        refine ⟨s.buf, ?_, fun _ _ => rfl, ?_⟩
        · cases s; simp_all
        · intro i hi1 hi2
          exact h.slack i hi1 (by rw [e]; exact hi2)
    obtain ⟨buf', hgp1, hb1, hb2⟩ := hgp
    rw [hgp1]
    dsimp only
    refine ⟨⟨h1, ?_, ?_, ?_⟩, ?_, by show s.len ≤ k + 1; omega, fun _ => by show k < k + 1; omega⟩
    · show k + 1 ≤ (q + 1) * s.ps; omega
    · intro i hi1 hi2
      exact hb2 i (by have : k + 1 ≤ i := hi1; omega) hi2
    · right; right
      refine ⟨by simp, by simp, by show r + 1 ≤ s.ps; omega, ?_⟩
      show k + 1 = (q + 1 - 1) * s.ps + (r + 1)
      have e : q + 1 - 1 = q := by omega
      rw [e]; omega
    · apply List.ext_getElem
      · simp [abs]; omega
      · intro j hj1 hj2
        simp only [abs, List.length_map, List.length_range] at hj1
        have hj1' : j < k + 1 := hj1
        simp only [abs, List.getElem_map, List.getElem_range, List.getElem_append, List.length_map,
          List.length_range, List.getElem_replicate]
        by_cases hj : j < s.len
        · simp [hj, hb1 j hj]
        · simp only [hj, dif_neg, not_false_eq_true]
          exact hb2 j (by omega) (by omega)
  · rw [if_neg hm, growTo_small s m hm]
    exact ⟨h, rfl, Nat.le_refl _, fun h0 => by omega⟩

/-! ## `Del` -/

theorem del_out (s : Paged) (i : Int) (h : i < 0 ∨ i ≥ s.len) : s.del i = some s := by
  unfold del; rw [if_pos h]

theorem del_spec (s : Paged) (h : WF s) (i : Nat) (hi : i < s.len) :
    ∃ s', s.del (i : Int) = some s' ∧ WF s' ∧ s'.abs = MV.Spec.Slice.del s.abs (i : Int) := by
  have h1 := h.ps1
  have hfit := h.fits
  unfold del
  have hin : ¬ ((i : Int) < 0 ∨ (i : Int) ≥ s.len) := by omega
  rw [if_neg hin]
  dsimp only
  have hlast : ((s.len : Int) - 1) = ((s.len - 1 : Nat) : Int) := by omega
  rw [hlast, read_eq s h1 (s.len - 1) (by omega)]
  dsimp only
  rw [write_eq s h1 i (by omega)]
  dsimp only
  rw [write_eq ({ s with buf := upd s.buf i (s.buf (s.len - 1)) }) h1 (s.len - 1)
    (by show s.len - 1 < s.np * s.ps; omega)]
  dsimp only
  -- bookkeeping: the slice is non-empty, so `Book`'s third case applies
  obtain ⟨hnp, hll1, hll2, hlen⟩ : 1 ≤ s.np ∧ 1 ≤ s.lenLast ∧ s.lenLast ≤ s.ps ∧ s.len = (s.np - 1) * s.ps + s.lenLast := by
    rcases h.book with ⟨_, b, _⟩ | ⟨_, b, _⟩ | hb
    · omega
    · omega
    · exact hb
  have hmul := pred_mul s.np s.ps hnp
  have hmodr : (s.len - 1) % s.ps = (s.lenLast - 1) % s.ps := by
    have : s.len - 1 = s.ps * (s.np - 1) + (s.lenLast - 1) := by rw [Nat.mul_comm]; omega
    rw [this, Nat.mul_add_mod]
  have hmodr' : (s.len - 1) % s.ps = s.lenLast - 1 := by rw [hmodr]; exact Nat.mod_eq_of_lt (by omega)
  -- the new cell function
  have hbuf : ∀ x, x < s.len - 1 →
      upd (upd s.buf i (s.buf (s.len - 1))) (s.len - 1) 0 x = if x = i then s.buf (s.len - 1) else s.buf x := by
    intro x hx
    have : ¬ x = s.len - 1 := by omega
    simp [upd, this]
  have habs : ∀ (s' : Paged), s'.len = s.len - 1 →
      s'.buf = upd (upd s.buf i (s.buf (s.len - 1))) (s.len - 1) 0 →
      s'.abs = MV.Spec.Slice.del s.abs (i : Int) := by
    intro s' hl hb
    unfold MV.Spec.Slice.del
    rw [length_abs, if_neg hin]
    apply List.ext_getElem
    · simp [abs, hl]
    · intro x hx1 hx2
      simp only [abs, List.length_map, List.length_range, hl] at hx1
      have hlastD : s.abs.getLastD 0 = s.buf (s.len - 1) := by
        rw [List.getLastD_eq_getLast?, List.getLast?_eq_getElem?]
        have : s.abs.length - 1 < s.abs.length := by rw [length_abs]; omega
        rw [List.getElem?_eq_getElem this]
        simp [abs]
      simp only [hlastD]
      simp only [abs, List.getElem_map, List.getElem_range, hb, hbuf x hx1, List.getElem_dropLast,
        List.getElem_set, Int.toNat_natCast]
      by_cases e : i = x
      · subst e; simp
      · have e' : ¬ x = i := fun q => e q.symm
        simp [e, e']
  have hslack : ∀ x, s.len - 1 ≤ x → x < s.np * s.ps →
      upd (upd s.buf i (s.buf (s.len - 1))) (s.len - 1) 0 x = 0 := by
    intro x hx1 hx2
    by_cases e : x = s.len - 1
    · simp [upd, e]
    · have : ¬ x = i := by omega
      simp only [upd, e, this, if_false]
      exact h.slack x (by omega) hx2
  by_cases hc : (s.len - 1) % s.ps = 0 ∧ s.np > 1
  · rw [if_pos hc]
    have hl1 : s.lenLast = 1 := by omega
    have hmul2 := pred_mul (s.np - 1) s.ps (by omega)
    refine ⟨_, rfl, ⟨h1, ?_, ?_, ?_⟩, habs _ rfl rfl⟩
    · show s.len - 1 ≤ (s.np - 1) * s.ps; omega
    · intro x hx1 hx2
      exact hslack x hx1 (by have : x < (s.np - 1) * s.ps := hx2; omega)
    · right; right
      refine ⟨by show 1 ≤ s.np - 1; omega, h1, Nat.le_refl _, ?_⟩
      show s.len - 1 = (s.np - 1 - 1) * s.ps + s.ps
      omega
  · rw [if_neg hc]
    refine ⟨_, rfl, ⟨h1, ?_, ?_, ?_⟩, habs _ rfl rfl⟩
    · show s.len - 1 ≤ s.np * s.ps; omega
    · intro x hx1 hx2; exact hslack x hx1 hx2
    · show Book { s with buf := _, len := s.len - 1, lenLast := (s.len - 1) % s.ps }
      unfold Book
      dsimp only
      by_cases hz : s.len - 1 = 0
      · right; left
        have : s.np = 1 := by
          have : (s.len - 1) % s.ps = 0 := by rw [hz]; simp
          omega
        exact ⟨this, hz, by rw [hz]; simp⟩
      · right; right
        have hne : ¬ s.lenLast - 1 = 0 := by
          intro q
          apply hc
          refine ⟨by rw [hmodr', q], ?_⟩
          have : s.len - 1 = (s.np - 1) * s.ps := by omega
          apply Nat.lt_of_not_le
          intro hle
          have e1 : s.np - 1 = 0 := by omega
          rw [e1] at this; simp at this; omega
        refine ⟨hnp, by rw [hmodr']; omega, by rw [hmodr']; omega, by rw [hmodr']; omega⟩

/-! ## the batch writers -/

theorem le_foldl_max (is : List Int) (a : Int) : a ≤ is.foldl (fun m x => if x > m then x else m) a := by
  induction is generalizing a with
  | nil => exact Int.le_refl _
  | cons x is ih =>
    simp only [List.foldl_cons]
    split
    · exact Int.le_trans (by omega) (ih x)
    · exact ih a

theorem mem_le_foldl_max (is : List Int) (a i : Int) (hi : i ∈ is) :
    i ≤ is.foldl (fun m x => if x > m then x else m) a := by
  induction is generalizing a with
  | nil => cases hi
  | cons x is ih =>
    simp only [List.foldl_cons]
    rcases List.mem_cons.mp hi with rfl | hm
    · split
      · exact le_foldl_max is i
      · exact Int.le_trans (by omega) (le_foldl_max is a)
    · exact ih _ hm

theorem le_maxIdx (is : List Int) (i : Int) (hi : i ∈ is) : i ≤ maxIdx is := by
  cases is with
  | nil => cases hi
  | cons x is =>
    unfold maxIdx
    rcases List.mem_cons.mp hi with rfl | hm
    · exact le_foldl_max is i
    · exact mem_le_foldl_max is x i hm

theorem writeAll_spec (s : Paged) (h : WF s) (is vs : List Int) (hb : ∀ i ∈ is, i < (s.len : Int)) :
    WF (writeAll s is vs).1 ∧ (writeAll s is vs).1.abs = (MV.Spec.Slice.writeAll s.abs is vs).1 ∧
      (writeAll s is vs).2 = (MV.Spec.Slice.writeAll s.abs is vs).2 := by
  induction is generalizing s vs with
  | nil => unfold writeAll MV.Spec.Slice.writeAll; exact ⟨h, rfl, rfl⟩
  | cons i is ih =>
    cases vs with
    | nil => unfold writeAll MV.Spec.Slice.writeAll; exact ⟨h, rfl, rfl⟩
    | cons v vs =>
      unfold writeAll MV.Spec.Slice.writeAll
      have hi := hb i List.mem_cons_self
      by_cases hneg : i < 0
      · rw [write_neg s i v hneg]
        have : MV.Spec.Slice.write s.abs i v = none := by unfold MV.Spec.Slice.write; simp [hneg]
        rw [this]
        exact ⟨h, rfl, rfl⟩
      · obtain ⟨n, rfl⟩ : ∃ n : Nat, i = (n : Int) := ⟨i.toNat, by omega⟩
        have hn : n < s.len := by omega
        rw [write_eq s h.ps1 n (by have := h.fits; omega) v]
        have hw : MV.Spec.Slice.write s.abs (n : Int) v = some (s.abs.set n v) := by
          unfold MV.Spec.Slice.write
          rw [length_abs]
          have : ¬ ((n : Int) < 0 ∨ (n : Int) ≥ s.len) := by omega
          simp [hn]
        rw [hw]
        dsimp only
        have := ih _ (wf_upd s h n hn v) vs (fun j hj => hb j (List.mem_cons_of_mem _ hj))
        rw [abs_upd s n hn v] at this
        exact this

theorem setAll_spec (s : Paged) (h : WF s) (is vs : List Int) :
    ∃ s', setAll s is vs = some s' ∧ WF s' ∧ s'.abs = MV.Spec.Slice.setAll s.abs is vs := by
  induction is generalizing s vs with
  | nil => unfold setAll MV.Spec.Slice.setAll; exact ⟨s, rfl, h, rfl⟩
  | cons i is ih =>
    cases vs with
    | nil => unfold setAll MV.Spec.Slice.setAll; exact ⟨s, rfl, h, rfl⟩
    | cons v vs =>
      unfold setAll MV.Spec.Slice.setAll
      by_cases hout : i < 0 ∨ i ≥ (s.len : Int)
      · rw [if_pos hout]
        have : MV.Spec.Slice.write s.abs i v = none := by
          unfold MV.Spec.Slice.write; rw [length_abs]; simp [hout]
        rw [this]
        exact ih s h vs
      · rw [if_neg hout]
        obtain ⟨n, rfl⟩ : ∃ n : Nat, i = (n : Int) := ⟨i.toNat, by omega⟩
        have hn : n < s.len := by omega
        rw [write_eq s h.ps1 n (by have := h.fits; omega) v]
        have hw : MV.Spec.Slice.write s.abs (n : Int) v = some (s.abs.set n v) := by
          unfold MV.Spec.Slice.write
          rw [length_abs]
          simp [hn]
        rw [hw]
        dsimp only
        have := ih _ (wf_upd s h n hn v) vs
        rw [abs_upd s n hn v] at this
        exact this

end MV.Model.Paged
