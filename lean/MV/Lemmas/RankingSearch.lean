import MV.Lemmas.C16Common
import MV.Spec.Leaderboard
/-!
# The two binary searches of the leaderboard model are correct on ordered boards

`insLoop_ok`: on a board ordered by score the insertion search, started on any window that brackets
the insertion point, ends (within the fuel `hi - lo + 1`) at *the* insertion point — the number of
entries that are not worse than the new score.
`rankLoop_ok`: if the competitor sits at position `p` inside the window, `GetRank`'s loop ends with
`p`; in particular the tie scan always finds it and the loop can not spin.
-/
namespace MV.Model.Ranking
open MV.Model MV.Spec.Leaderboard

/-! ## `Cmp` is the sign of a key difference -/

theorem rcmp_eq_zero (asc : Bool) (a b : Int) : rcmp asc a b = 0 ↔ a = b := by
  unfold rcmp; cases asc <;> simp <;> split <;> (try split) <;> omega

theorem rcmp_neg (asc : Bool) (a b : Int) : rcmp asc a b < 0 ↔ key asc a < key asc b := by
  unfold rcmp key; cases asc <;> simp <;> split <;> (try split) <;> omega

theorem rcmp_pos (asc : Bool) (a b : Int) : rcmp asc a b > 0 ↔ key asc a > key asc b := by
  unfold rcmp key; cases asc <;> simp <;> split <;> (try split) <;> omega

theorem rcmp_nonneg (asc : Bool) (a b : Int) : rcmp asc a b ≥ 0 ↔ key asc a ≥ key asc b := by
  unfold rcmp key; cases asc <;> simp <;> split <;> (try split) <;> omega

theorem rcmp_nonpos (asc : Bool) (a b : Int) : rcmp asc a b ≤ 0 ↔ key asc a ≤ key asc b := by
  unfold rcmp key; cases asc <;> simp <;> split <;> (try split) <;> omega

theorem key_inj (asc : Bool) (a b : Int) : key asc a = key asc b ↔ a = b := by
  unfold key; cases asc <;> simp

/-! ## index form of the board invariants -/

theorem sorted_idx {asc : Bool} {l : List (Int × Int)} (h : Sorted asc l) (i j : Nat) (hij : i < j)
    (hj : j < l.length) : key asc (l[i]'(by omega)).2 ≥ key asc l[j].2 := by
  have := List.pairwise_iff_getElem.mp h i j (by omega) hj hij
  exact this

theorem sorted_idx_le {asc : Bool} {l : List (Int × Int)} (h : Sorted asc l) (i j : Nat) (hij : i ≤ j)
    (hj : j < l.length) : key asc (l[i]'(by omega)).2 ≥ key asc l[j].2 := by
  by_cases e : i = j
  · subst e; omega
  · exact sorted_idx h i j (by omega) hj

theorem nodup_idx {l : List (Int × Int)} (h : NodupIds l) (i j : Nat) (hi : i < l.length) (hj : j < l.length)
    (e : l[i].1 = l[j].1) : i = j := by
  unfold NodupIds at h
  have hp := List.pairwise_iff_getElem.mp h
  apply Nat.le_antisymm
  · apply Nat.le_of_not_lt
    intro hlt
    have := hp j i (by simpa using hj) (by simpa using hi) hlt
    simp at this
    exact this e.symm
  · apply Nat.le_of_not_lt
    intro hlt
    have := hp i j (by simpa using hi) (by simpa using hj) hlt
    simp at this
    exact this e

/-! ## insertion point -/

/-- `p` is the insertion point of score `s`: everything before is not worse, everything from `p` on is worse -/
def IsPos (asc : Bool) (l : List (Int × Int)) (s : Int) (p : Nat) : Prop :=
  p ≤ l.length ∧ (∀ i (h : i < l.length), i < p → key asc l[i].2 ≥ key asc s) ∧
    (∀ i (h : i < l.length), p ≤ i → key asc l[i].2 < key asc s)

theorem IsPos.unique {asc : Bool} {l : List (Int × Int)} {s : Int} {p q : Nat}
    (hp : IsPos asc l s p) (hq : IsPos asc l s q) : p = q := by
  apply Nat.le_antisymm
  · apply Nat.le_of_not_lt
    intro h
    have h1 := hp.2.1 q (by have := hp.1; omega) h
    have h2 := hq.2.2 q (by have := hp.1; omega) (Nat.le_refl _)
    omega
  · apply Nat.le_of_not_lt
    intro h
    have h1 := hq.2.1 p (by have := hq.1; omega) h
    have h2 := hp.2.2 p (by have := hq.1; omega) (Nat.le_refl _)
    omega

theorem pos_cons (asc : Bool) (x : Int × Int) (l : List (Int × Int)) (s : Int) :
    pos asc (x :: l) s = if key asc x.2 ≥ key asc s then pos asc l s + 1 else 0 := by
  unfold pos
  rw [List.takeWhile_cons]
  by_cases h : key asc x.2 ≥ key asc s
  · have : decide (rcmp asc x.2 s ≥ 0) = true := by simp; exact (rcmp_nonneg asc _ _).mpr h
    simp [this, h]
  · have : decide (rcmp asc x.2 s ≥ 0) = false := by
      simp only [decide_eq_false_iff_not]; intro hh; exact h ((rcmp_nonneg asc _ _).mp hh)
    simp [this, h]

/-- the spec's `pos` is the insertion point of an ordered board -/
theorem pos_isPos {asc : Bool} {l : List (Int × Int)} (h : Sorted asc l) (s : Int) : IsPos asc l s (pos asc l s) := by
  induction l with
  | nil => exact ⟨Nat.le_refl _, fun i h => absurd h (by simp), fun i h => absurd h (by simp)⟩
  | cons x l ih =>
    have hx := List.pairwise_cons.mp h
    have ih := ih hx.2
    rw [pos_cons]
    by_cases hk : key asc x.2 ≥ key asc s
    · simp only [hk, if_true]
      refine ⟨by simp; exact ih.1, ?_, ?_⟩
      · intro i hi hlt
        cases i with
        | zero => exact hk
        | succ i => exact ih.2.1 i (by simpa using hi) (by omega)
      · intro i hi hle
        cases i with
        | zero => omega
        | succ i => exact ih.2.2 i (by simpa using hi) (by omega)
    · simp only [hk, if_false]
      refine ⟨by simp, fun i _ hlt => absurd hlt (by omega), ?_⟩
      intro i hi _
      cases i with
      | zero => show key asc x.2 < key asc s; omega
      | succ i =>
        have hi' : i < l.length := by simpa using hi
        show key asc (l[i]'hi').2 < key asc s
        have := hx.1 (l[i]'hi') (List.getElem_mem _)
        omega

/-! ## `tieScan` -/

theorem tieScan_spec (asc : Bool) (l : List (Int × Int)) (s : Int) (n i : Nat) (h : i + n ≤ l.length) :
    ∃ j, tieScan asc l s i n = some j ∧ i ≤ j ∧ j ≤ i + n ∧
      (∀ k (hk : k < l.length), i ≤ k → k < j → l[k].2 = s) ∧
      (∀ (hj : j < l.length), j < i + n → l[j].2 ≠ s) := by
  induction n generalizing i with
  | zero => exact ⟨i, rfl, Nat.le_refl _, Nat.le_refl _, fun k _ h1 h2 => absurd h2 (by omega), fun _ h => absurd h (by omega)⟩
  | succ n ih =>
    unfold tieScan
    have hi : i < l.length := by omega
    rw [List.getElem?_eq_getElem hi]
    dsimp only
    by_cases hc : rcmp asc l[i].2 s ≠ 0
    · rw [if_pos hc]
      refine ⟨i, rfl, Nat.le_refl _, by omega, fun k _ h1 h2 => absurd h2 (by omega), fun _ _ => ?_⟩
      intro e; exact hc ((rcmp_eq_zero asc _ _).mpr e)
    · rw [if_neg hc]
      have he : l[i].2 = s := (rcmp_eq_zero asc _ _).mp (by simpa using hc)
      obtain ⟨j, h1, h2, h3, h4, h5⟩ := ih (i + 1) (by omega)
      refine ⟨j, h1, by omega, by omega, ?_, fun hj hlt => h5 hj (by omega)⟩
      intro k hk hik hkj
      by_cases e : k = i
      · subst e; exact he
      · exact h4 k hk (by omega) hkj

/-! ## the insertion search -/

theorem insLoop_ok {asc : Bool} {l : List (Int × Int)} (hs : Sorted asc l) (s : Int) (fuel lo hi : Nat)
    (hlh : lo ≤ hi) (hhi : hi ≤ l.length) (hf : hi - lo < fuel)
    (hbefore : ∀ i (h : i < l.length), i < lo → key asc l[i].2 ≥ key asc s)
    (hafter : ∀ i (h : i < l.length), hi ≤ i → key asc l[i].2 < key asc s) :
    ∃ p, insLoop asc l s fuel lo hi = .ok p ∧ IsPos asc l s p ∧ lo ≤ p ∧ p ≤ hi := by
  induction fuel generalizing lo hi with
  | zero => omega
  | succ f ih =>
    unfold insLoop
    by_cases hlt : lo < hi
    · simp only [hlt, if_true]
      have hmid1 : lo ≤ (lo + hi - 1) / 2 := by omega
      have hmid2 : (lo + hi - 1) / 2 < hi := by omega
      generalize hm : (lo + hi - 1) / 2 = mid at hmid1 hmid2
      have hml : mid < l.length := by omega
      rw [List.getElem?_eq_getElem hml]
      dsimp only
      by_cases hc0 : rcmp asc l[mid].2 s = 0
      · simp only [hc0, if_true]
        have he : l[mid].2 = s := (rcmp_eq_zero asc _ _).mp hc0
        obtain ⟨j, h1, h2, h3, h4, h5⟩ := tieScan_spec asc l s (hi - (mid + 1)) (mid + 1) (by omega)
        rw [h1]
        dsimp only
        have hjhi : j ≤ hi := by omega
        obtain ⟨p, hp1, hp2, hp3, hp4⟩ := ih j hi hjhi hhi (by omega) (by
          intro i hi' hij
          by_cases him : i ≤ mid
          · have := sorted_idx_le hs i mid him hml
            rw [he] at this; exact this
          · have := h4 i hi' (by omega) hij
            rw [this]; omega) hafter
        exact ⟨p, hp1, hp2, by omega, hp4⟩
      · simp only [hc0, if_false]
        by_cases hcn : rcmp asc l[mid].2 s < 0
        · simp only [hcn, if_true]
          have hk := (rcmp_neg asc _ _).mp hcn
          obtain ⟨p, hp1, hp2, hp3, hp4⟩ := ih lo mid hmid1 (by omega) (by omega) hbefore (by
            intro i hi' hmi
            have := sorted_idx_le hs mid i hmi hi'
            omega)
          exact ⟨p, hp1, hp2, hp3, by omega⟩
        · simp only [hcn, if_false]
          have hk : key asc l[mid].2 > key asc s := by
            have h1 : ¬ key asc l[mid].2 < key asc s := fun h => hcn ((rcmp_neg asc _ _).mpr h)
            have h2 : ¬ l[mid].2 = s := fun h => hc0 ((rcmp_eq_zero asc _ _).mpr h)
            have h3 : ¬ key asc l[mid].2 = key asc s := fun h => h2 ((key_inj asc _ _).mp h)
            omega
          obtain ⟨p, hp1, hp2, hp3, hp4⟩ := ih (mid + 1) hi (by omega) hhi (by omega) (by
            intro i hi' him
            have := sorted_idx_le hs i mid (by omega) hml
            omega) hafter
          exact ⟨p, hp1, hp2, by omega, hp4⟩
    · simp only [hlt, if_false]
      have e : lo = hi := by omega
      subst e
      exact ⟨lo, rfl, ⟨hhi, hbefore, hafter⟩, Nat.le_refl _, Nat.le_refl _⟩

/-! ## the scans of `GetRank` -/

theorem scanUp_spec {l : List (Int × Int)} (hn : NodupIds l) (id : Int) (p : Nat) (hp : p < l.length)
    (hid : l[p].1 = id) (n i : Nat) (h : i + n ≤ l.length) :
    scanUp l id i n = if i ≤ p ∧ p < i + n then .found p else .notFound := by
  induction n generalizing i with
  | zero =>
    unfold scanUp
    have : ¬ (i ≤ p ∧ p < i + 0) := by omega
    simp [this]
  | succ n ih =>
    unfold scanUp
    have hi : i < l.length := by omega
    rw [List.getElem?_eq_getElem hi]
    dsimp only
    by_cases he : l[i].1 = id
    · have : i = p := nodup_idx hn i p hi hp (by rw [he, hid])
      subst this
      have : i ≤ i ∧ i < i + (n + 1) := by omega
      simp [he]
    · have hne : i ≠ p := by intro e; subst e; exact he hid
      simp only [he, if_false]
      rw [ih (i + 1) (by omega)]
      by_cases hc : i + 1 ≤ p ∧ p < i + 1 + n
      · have : i ≤ p ∧ p < i + (n + 1) := by omega
        simp [hc, this]
      · have : ¬ (i ≤ p ∧ p < i + (n + 1)) := by omega
        simp [hc, this]

theorem scanDown_spec {l : List (Int × Int)} (hn : NodupIds l) (id : Int) (p : Nat) (hp : p < l.length)
    (hid : l[p].1 = id) (lo k : Nat) (h : lo + k ≤ l.length) :
    scanDown l id lo k = if lo ≤ p ∧ p < lo + k then .found p else .notFound := by
  induction k with
  | zero =>
    unfold scanDown
    have : ¬ (lo ≤ p ∧ p < lo + 0) := by omega
    simp [this]
  | succ k ih =>
    unfold scanDown
    have hi : lo + k < l.length := by omega
    rw [List.getElem?_eq_getElem hi]
    dsimp only
    by_cases he : l[lo + k].1 = id
    · have : lo + k = p := nodup_idx hn (lo + k) p hi hp (by rw [he, hid])
      subst this
      have : lo ≤ lo + k ∧ lo + k < lo + (k + 1) := by omega
      simp [he]
    · have hne : lo + k ≠ p := by intro e; subst e; exact he hid
      simp only [he, if_false]
      rw [ih (by omega)]
      by_cases hc : lo ≤ p ∧ p < lo + k
      · have : lo ≤ p ∧ p < lo + (k + 1) := by omega
        simp [hc, this]
      · have : ¬ (lo ≤ p ∧ p < lo + (k + 1)) := by omega
        simp [hc, this]

/-! ## the rank search -/

theorem rankLoop_ok {asc : Bool} {l : List (Int × Int)} (hs : Sorted asc l) (hn : NodupIds l)
    (id cs : Int) (p : Nat) (hp : p < l.length) (hpe : l[p] = (id, cs)) (fuel lo hi : Nat)
    (hlo : lo ≤ p) (hhi : p < hi) (hhl : hi ≤ l.length) (hf : hi - lo < fuel) :
    rankLoop asc l id cs fuel lo hi = .ok p := by
  have hid : l[p].1 = id := by rw [hpe]
  have hcs : l[p].2 = cs := by rw [hpe]
  induction fuel generalizing lo hi with
  | zero => omega
  | succ f ih =>
    unfold rankLoop
    have hlt : lo < hi := by omega
    simp only [hlt, if_true]
    have hmid1 : lo ≤ (lo + hi - 1) / 2 := by omega
    have hmid2 : (lo + hi - 1) / 2 < hi := by omega
    generalize hm : (lo + hi - 1) / 2 = mid at hmid1 hmid2
    have hml : mid < l.length := by omega
    rw [List.getElem?_eq_getElem hml]
    dsimp only
    by_cases he : l[mid].1 = id
    · have : mid = p := nodup_idx hn mid p hml hp (by rw [he, hid])
      subst this
      simp only [hid, if_true]
    · have hne : mid ≠ p := by intro e; subst e; exact he hid
      simp only [he, if_false]
      by_cases hc0 : rcmp asc l[mid].2 cs = 0
      · simp only [hc0, if_true]
        rw [scanUp_spec hn id p hp hid (hi - (mid + 1)) (mid + 1) (by omega)]
        by_cases hup : mid + 1 ≤ p ∧ p < mid + 1 + (hi - (mid + 1))
        · simp [hup]
        · simp only [hup, if_false]
          rw [scanDown_spec hn id p hp hid lo (mid - lo) (by omega)]
          have : lo ≤ p ∧ p < lo + (mid - lo) := by omega
          simp [this]
      · simp only [hc0, if_false]
        by_cases hcn : rcmp asc l[mid].2 cs < 0
        · simp only [hcn, if_true]
          have hk := (rcmp_neg asc _ _).mp hcn
          have : p < mid := by
            apply Nat.lt_of_not_le
            intro hle
            have := sorted_idx_le hs mid p hle hp
            rw [hcs] at this; omega
          exact ih lo mid hlo this (by omega) (by omega)
        · simp only [hcn, if_false]
          have hk : key asc l[mid].2 > key asc cs := by
            have h1 : ¬ key asc l[mid].2 < key asc cs := fun h => hcn ((rcmp_neg asc _ _).mpr h)
            have h2 : ¬ l[mid].2 = cs := fun h => hc0 ((rcmp_eq_zero asc _ _).mpr h)
            have h3 : ¬ key asc l[mid].2 = key asc cs := fun h => h2 ((key_inj asc _ _).mp h)
            omega
          have : mid < p := by
            apply Nat.lt_of_not_le
            intro hle
            have := sorted_idx_le hs p mid hle hml
            rw [hcs] at this; omega
          exact ih (mid + 1) hi (by omega) hhi hhl (by omega)

end MV.Model.Ranking
