import MV.Lemmas.ActorSysTreeWP
/-!
# From the functions to `step`: the tree invariant holds in every reachable world
-/
namespace MV.Model.ActorSys
open Std.Do

/-- the state part of running a triple with precondition `P` and postcondition `Steps w0` -/
theorem steps_of_triple {α} (m : M α) (w0 : World) (P : World → Prop)
    (h : ⦃fun w => ⌜P w⌝⦄ m ⦃post⟨fun _ w => ⌜Steps w0 w⌝, fun _ w => ⌜Steps w0 w⌝⟩⦄) (w : World) (hp : P w) :
    Steps w0 ((m.run).run w).2 := by
  have := run_of_triple m P (fun _ w => Steps w0 w) (fun w => Steps w0 w) h w hp
  revert this
  generalize (m.run).run w = r
  obtain ⟨e, w'⟩ := r
  cases e <;> exact id

theorem guarded_steps' (w0 : World) (hJ : J w0) (self : Aid) (hself : self < nA w0) (t : M Unit) (P : World → Prop)
    (ht : ∀ w, P w → Steps w0 ((t.run).run w).2) (w : World) (hp : P w) :
    Steps w0 (guarded self t w) := by
  unfold guarded
  have h1 := ht w hp
  revert h1
  generalize (t.run).run w = r1
  obtain ⟨e1, w1⟩ := r1
  intro h1
  cases e1 with
  | ok _ => exact h1
  | error _ =>
    have h2 := steps_of_triple (reportAbnormal self) w0 (Steps w0) (reportAbnormal_steps hJ self hself) w1 h1
    revert h2
    dsimp only
    generalize ((reportAbnormal self).run).run w1 = r2
    obtain ⟨e2, w2⟩ := r2
    intro h2
    cases e2 with
    | ok _ =>
      unfold recheck
      exact Steps.book h2 self _ (fun _ => rfl) (fun _ => rfl) (fun _ => rfl) (fun _ => rfl)
        (fun _ _ h => h) (fun _ _ h => h) (fun _ => rfl)
    | error _ => exact Steps.frame h2 rfl rfl

theorem guarded_steps (w0 : World) (hJ : J w0) (self : Aid) (hself : self < nA w0) (t : M Unit) (P : World → Prop)
    (ht : ⦃fun w => ⌜P w⌝⦄ t ⦃post⟨fun _ w => ⌜Steps w0 w⌝, fun _ w => ⌜Steps w0 w⌝⟩⦄) (w : World) (hp : P w) :
    Steps w0 (guarded self t w) :=
  guarded_steps' w0 hJ self hself t P (fun w hp => steps_of_triple t w0 P ht w hp) w hp

theorem extern_steps (w0 : World) (t : M Unit) (P : World → Prop)
    (ht : ⦃fun w => ⌜P w⌝⦄ t ⦃post⟨fun _ w => ⌜Steps w0 w⌝, fun _ w => ⌜Steps w0 w⌝⟩⦄) (w : World) (hp : P w) :
    Steps w0 (extern t w) := steps_of_triple t w0 P ht w hp


theorem actorAt_of_get {w : World} {a : Aid} {x : Actor} (h : w.actors[a]? = some x) : actorAt w a = x ∧ a < nA w := by
  refine ⟨by simp [actorAt, h], (List.getElem?_eq_some_iff.mp h).1⟩

/-- popping the head of the system queue is a bookkeeping update -/
theorem pop_sys_steps (w : World) (a : Aid) (x : Actor) (m : SMsg × Option Aid) (rest : List (SMsg × Option Aid))
    (hx : actorAt w a = x) (hq : x.sysQ = m :: rest) (st : Status) (hst : x.status = st) (_ha : a < nA w) :
    GS w a st { w with actors := w.actors.modify a fun x => { x with sysQ := rest } } := by
  refine ⟨Steps.single (Prim.upd w a _ rfl rfl rfl (by simp) ?_ (fun _ h => h) rfl rfl rfl id), ?_⟩
  · intro e he; rw [hx, hq]; exact List.mem_cons_of_mem _ he
  · rw [status_mod_keep _ _ _ _ rfl, hx]; exact hst

theorem pop_usr_steps (w : World) (a : Aid) (x : Actor) (m : UMsg × Option Aid) (rest : List (UMsg × Option Aid))
    (hx : actorAt w a = x) (hq : x.userQ = m :: rest) (st : Status) (hst : x.status = st) (_ha : a < nA w) :
    GS w a st { w with actors := w.actors.modify a fun x => { x with userQ := rest } } := by
  refine ⟨Steps.single (Prim.upd w a _ rfl rfl rfl (by simp) (fun _ h => h) ?_ rfl rfl rfl id), ?_⟩
  · intro e he; rw [hx, hq]; exact List.mem_cons_of_mem _ he
  · rw [status_mod_keep _ _ _ _ rfl, hx]; exact hst

theorem runOne_steps (w : World) (hJ : J w) (hB : ∀ b ∈ w.behs, BehOK b) (a : Aid) : Steps w (runOne w a) := by
  unfold runOne
  cases hx : w.actors[a]? with
  | none => exact Steps.refl w
  | some x =>
    obtain ⟨hax, ha⟩ := actorAt_of_get hx
    simp only
    split
    · exact Steps.refl w
    · cases hq : x.sysQ with
      | cons ms rest =>
        obtain ⟨m, s⟩ := ms
        have hsnd : ScO w s := by
          intro hb
          cases s with
          | none => trivial
          | some sd => exact (hJ hb).sndS a ha m sd (by rw [hax, hq]; exact List.mem_cons_self)
        simp only
        split
        · -- terminated: only watch requests are answered
          apply guarded_steps w hJ a ha (deadTurn a m s) (Steps w) (deadTurn_steps hJ a ha m s hsnd)
          exact (pop_sys_steps w a x (m, s) rest hax hq x.status rfl ha).1
        · rename_i hst
          have hne : x.status ≠ .terminated := by simpa using hst
          have hmsg : ∀ who, m = .terminated who → nA w ≤ ghostBase → DeadOrGhost w who := by
            intro who hm hb
            subst hm
            exact (hJ hb).msg a ha who s (by rw [hax, hq]; exact List.mem_cons_self)
          have hns : ∀ who, m = .terminated who → nA w ≤ ghostBase → who ≠ a := by
            intro who hm hb heq
            subst heq
            rcases hmsg who hm hb with ⟨_, hd⟩ | hg
            · rw [hax] at hd; exact hne hd
            · exact absurd (Nat.lt_of_lt_of_le ha hb) (Nat.not_lt.mpr hg)
          apply guarded_steps w hJ a ha (sysTurn a m s) (GS w a x.status)
            (sysTurn_steps hJ a x.status hB ha m s hne hsnd hmsg hns)
          exact pop_sys_steps w a x (m, s) rest hax hq x.status rfl ha
      | nil =>
        simp only
        split
        · exact Steps.book (Steps.refl w) a _ (fun _ => rfl) (fun _ => rfl) (fun _ => rfl) (fun _ => rfl)
            (fun _ _ h => h) (fun _ _ h => h) (fun _ => rfl)
        · cases hu : x.userQ with
          | nil =>
            exact Steps.book (Steps.refl w) a _ (fun _ => rfl) (fun _ => rfl) (fun _ => rfl) (fun _ => rfl)
              (fun _ _ h => h) (fun _ _ h => h) (fun _ => rfl)
          | cons ms rest =>
            obtain ⟨m, s⟩ := ms
            have hsnd : ScO w s := by
              intro hb
              cases s with
              | none => trivial
              | some sd => exact (hJ hb).sndU a ha m sd (by rw [hax, hu]; exact List.mem_cons_self)
            simp only
            split
            · apply guarded_steps' w hJ a ha (abyssUser a m s) (GS w a x.status)
              · intro w' hg
                exact (run_of_stable _ _ (abyssUser_gs hJ a x.status a m s) w' hg).1
              · exact pop_usr_steps w a x (m, s) rest hax hu x.status rfl ha
            · rename_i hrank
              have hne : x.status ≠ .terminated := by
                intro h; rw [h] at hrank; simp [Status.rank] at hrank
              apply guarded_steps w hJ a ha (usrTurn a m s) (GS w a x.status)
                (usrTurn_steps hJ a x.status hB ha m s hne hsnd)
              exact pop_usr_steps w a x (m, s) rest hax hu x.status rfl ha


/-- an operation is admissible unless it creates a top-level actor under a guard that has terminated
(`system.ActorOf` after `Shutdown`: the known finding "child spawned during termination" in its
external form) -/
def OpOK (w : World) : Op → Prop
  | .spawnTop _ => (actorAt w 0).status ≠ .terminated
  | _ => True

theorem spawnTop_gs {w0 : World} (hJ : J w0) (st : Status) (beh : Nat) (h0 : 0 < nA w0) (hst : st ≠ .terminated) :
    Stable (GS w0 0 st) (do let _ ← spawnChild 0 beh) := by
  unfold Stable
  mvcgen [spawnChild_gs]

theorem sendSys_run_steps {w0 : World} (hJ : J w0) (t : Aid) (m : SMsg) (s : Option Aid) (hs : ScO w0 s)
    (hm : ∀ who, m ≠ .terminated who) (hw : m ≠ .watch) (w : World) (h : Steps w0 w) :
    Steps w0 (((sendSys t m s).run).run w).2 := by
  have := run_of_triple _ _ _ _ (sendSys_gs hJ 0 (actorAt w 0).status t m s hs hm) w ⟨⟨h, rfl⟩, fun h' => absurd h' hw⟩
  revert this
  generalize ((sendSys t m s).run).run w = r
  obtain ⟨e, w'⟩ := r
  cases e <;> exact fun h => h.1

theorem step_steps (w : World) (hJ : J w) (hB : ∀ b ∈ w.behs, BehOK b) (h0 : 0 < nA w) (op : Op) (hop : OpOK w op) :
    Steps w (step w op) := by
  cases op with
  | run a =>
    simp only [step]; split
    · exact Steps.refl w
    · exact runOne_steps w hJ hB a
  | fire =>
    simp only [step]; split
    · exact Steps.refl w
    · split
      · exact Steps.refl w
      · rename_i s v rest ht
        have hs : ScO w (some s) := fun hb => Or.inl ((hJ hb).tim (s, v) (by rw [ht]; exact List.mem_cons_self))
        unfold extern
        exact sendSys_run_steps hJ v .restart (some s) hs (by intro who h; cases h) (by intro h; cases h) _
          (Steps.single (Prim.popTimer w (s, v) rest ht))
  | spawnTop beh =>
    simp only [step]; split
    · exact Steps.refl w
    · unfold extern
      exact (run_of_stable _ _ (spawnTop_gs hJ (actorAt w 0).status beh h0 hop) w ⟨Steps.refl w, rfl⟩).1
  | tell t tag =>
    simp only [step]; split
    · exact Steps.refl w
    · unfold extern
      exact (run_of_stable _ _ (sendUser_gs hJ 0 (actorAt w 0).status _ (.user tag) none (ScO.none w)) w
        ⟨Steps.refl w, rfl⟩).1
  | kill t g =>
    simp only [step]; split
    · exact Steps.refl w
    · unfold extern
      exact (run_of_stable _ _ (terminateCall_gs hJ 0 (actorAt w 0).status 0 _ g h0) w ⟨Steps.refl w, rfl⟩).1
  | shutdown g =>
    simp only [step]; split
    · exact Steps.refl w
    · unfold extern
      exact (run_of_stable _ _ (terminateCall_gs hJ 0 (actorAt w 0).status 0 0 g h0) w ⟨Steps.refl w, rfl⟩).1
  | subscribeDead a =>
    simp only [step]
    exact Steps.frame (Steps.refl w) rfl rfl

/-- what is carried along a run -/
structure Reach (w : World) : Prop where
  inv : J w
  behs : ∀ b ∈ w.behs, BehOK b
  pos : 0 < nA w

theorem Reach.step {w : World} (h : Reach w) (op : Op) (hop : OpOK w op) : Reach (step w op) := by
  have hs := step_steps w h.inv h.behs h.pos op hop
  exact ⟨J_steps hs h.inv, by rw [hs.behs_eq]; exact h.behs, Nat.lt_of_lt_of_le h.pos hs.nA_le⟩

/-- every operation of the run is admissible in the world it is applied to -/
def RunOK : World → List Op → Prop
  | _, [] => True
  | w, op :: ops => OpOK w op ∧ RunOK (step w op) ops

theorem Reach.exec {w : World} (h : Reach w) (ops : List Op) (hok : RunOK w ops) : Reach (exec w ops) := by
  unfold MV.Model.ActorSys.exec
  induction ops generalizing w with
  | nil => exact h
  | cons op ops ih => exact ih (h.step op hok.1) hok.2

end MV.Model.ActorSys
