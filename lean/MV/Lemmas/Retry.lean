import MV.Model.Retry
import MV.Spec.Retry
/-!
# Lemmas for the retry helpers (C18): the loops of `MV.Model.Retry` reach the first stopping attempt
-/
namespace MV.Lemmas.Retry
open MV.Model.Retry MV.Spec.Retry

/-! ### `firstIdx`: least index below the bound satisfying `p`, else the bound -/

theorem firstIdx_succ (p : Nat → Bool) (b : Nat) :
    firstIdx p (b + 1) = if firstIdx p b < b then firstIdx p b else if p b then b else b + 1 := by
  unfold firstIdx
  rw [List.range_succ, List.find?_append]
  cases h : (List.range b).find? p with
  | some k =>
    have hk := List.mem_of_find?_eq_some h
    rw [List.mem_range] at hk
    simp [hk]
  | none =>
    by_cases hp : p b <;> simp [hp]

theorem firstIdx_le (p : Nat → Bool) (b : Nat) : firstIdx p b ≤ b := by
  induction b with
  | zero => simp [firstIdx]
  | succ b ih =>
    rw [firstIdx_succ]
    split
    · omega
    · split <;> omega

theorem firstIdx_not (p : Nat → Bool) (b j : Nat) (h : j < firstIdx p b) : p j = false := by
  induction b with
  | zero => simp [firstIdx] at h
  | succ b ih =>
    rw [firstIdx_succ] at h
    have hle := firstIdx_le p b
    by_cases h1 : firstIdx p b < b
    · rw [if_pos h1] at h; exact ih h
    · rw [if_neg h1] at h
      have he : firstIdx p b = b := by omega
      by_cases hp : p b = true
      · rw [if_pos hp] at h; exact ih (by omega)
      · rw [if_neg hp] at h
        by_cases hj : j < b
        · exact ih (by omega)
        · have : j = b := by omega
          subst this; simpa using hp

theorem firstIdx_spec (p : Nat → Bool) (b : Nat) (h : firstIdx p b < b) : p (firstIdx p b) = true := by
  induction b with
  | zero => omega
  | succ b ih =>
    rw [firstIdx_succ] at h ⊢
    have hle := firstIdx_le p b
    by_cases h1 : firstIdx p b < b
    · rw [if_pos h1]; exact ih h1
    · rw [if_neg h1] at h ⊢
      by_cases hp : p b = true
      · rw [if_pos hp]; exact hp
      · rw [if_neg hp] at h; omega

theorem outcomeAt_length (s : List Outcome) (k : Nat) (h : s.length ≤ k) : outcomeAt s k = none := by
  unfold outcomeAt; simp [List.getD, h]

/-- at `firstIdx stop s.length` a stop condition that holds whenever the operation succeeds holds -/
theorem stop_at_first (s : List Outcome) (p : Nat → Bool) (hp : ∀ k, outcomeAt s k = none → p k = true) :
    p (firstIdx p s.length) = true := by
  by_cases h : firstIdx p s.length < s.length
  · exact firstIdx_spec p _ h
  · exact hp _ (outcomeAt_length s _ (by omega))

theorem firstOk_none (s : List Outcome) : outcomeAt s (firstOk s) = none := by
  have := stop_at_first s (fun k => (outcomeAt s k).isNone) (by intro k hk; simp [hk])
  unfold firstOk
  simpa using this

theorem firstOk_some (s : List Outcome) (j : Nat) (h : j < firstOk s) : ∃ e, outcomeAt s j = some e := by
  have := firstIdx_not _ _ j h
  cases ho : outcomeAt s j with
  | none => simp [ho] at this
  | some e => exact ⟨e, rfl⟩

/-! ### `Retry` -/

theorem retryLoop_run (s : List Outcome) (iv : Int) (k : Nat) (hk : outcomeAt s k = none) :
    ∀ (fuel i : Nat) (sl : List Int) (last : Res), i ≤ k → (∀ j, i ≤ j → j < k → ∃ e, outcomeAt s j = some e) →
      k - i < fuel → retryLoop s iv fuel i sl last = ⟨k + 1, 0, sl ++ List.replicate (k - i) iv, .nil⟩ := by
  intro fuel
  induction fuel with
  | zero => intro i sl last _ _ h; omega
  | succ n ih =>
    intro i sl last hik hfail hfuel
    unfold retryLoop
    by_cases hik' : i = k
    · subst hik'; rw [hk]; simp
    · obtain ⟨e, he⟩ := hfail i (Nat.le_refl _) (by omega)
      rw [he]
      simp only []
      rw [ih (i + 1) _ _ (by omega) (fun j h1 h2 => hfail j (by omega) h2) (by omega)]
      have : k - i = (k - (i + 1)) + 1 := by omega
      rw [this, List.replicate_succ, List.append_assoc]
      rfl

theorem retryLoop_exhaust (s : List Outcome) (iv : Int) :
    ∀ (fuel i : Nat) (sl : List Int) (last : Res), (∀ j, i ≤ j → j < i + fuel → ∃ e, outcomeAt s j = some e) →
      retryLoop s iv fuel i sl last =
        ⟨i + fuel, 0, sl ++ List.replicate fuel iv, if fuel = 0 then last else resOf (outcomeAt s (i + fuel - 1))⟩ := by
  intro fuel
  induction fuel with
  | zero => intro i sl last _; simp [retryLoop]
  | succ n ih =>
    intro i sl last hfail
    unfold retryLoop
    obtain ⟨e, he⟩ := hfail i (Nat.le_refl _) (by omega)
    rw [he]
    simp only []
    rw [ih (i + 1) _ _ (fun j h1 h2 => hfail j (by omega) (by omega))]
    have h1 : i + 1 + n = i + (n + 1) := by omega
    rw [h1, List.replicate_succ, List.append_assoc]
    by_cases hn : n = 0
    · subst hn; simp [he, resOf]
    · simp [hn]

theorem retry_eq_spec (count iv : Int) (s : List Outcome) :
    MV.Model.Retry.retry count iv s = MV.Spec.Retry.retry count iv s := by
  unfold MV.Model.Retry.retry MV.Spec.Retry.retry
  simp only []
  by_cases h : firstOk s < count.toNat
  · rw [if_pos h, retryLoop_run s iv (firstOk s) (firstOk_none s) _ 0 [] .nil (Nat.zero_le _)
      (fun j _ h2 => firstOk_some s j h2) (by omega)]
    simp
  · rw [if_neg h, retryLoop_exhaust s iv count.toNat 0 [] .nil
      (fun j _ h2 => firstOk_some s j (by omega))]
    simp

/-! ### `RetryForever` -/

theorem foreverLoop_run (s : List Outcome) (iv : Int) (k : Nat) (hk : outcomeAt s k = none) :
    ∀ (fuel i : Nat) (sl : List Int), i ≤ k → (∀ j, i ≤ j → j < k → ∃ e, outcomeAt s j = some e) →
      k - i < fuel → foreverLoop s iv fuel i sl = ⟨k + 1, 0, sl ++ List.replicate (k - i) iv, .nil⟩ := by
  intro fuel
  induction fuel with
  | zero => intro i sl _ _ h; omega
  | succ n ih =>
    intro i sl hik hfail hfuel
    unfold foreverLoop
    by_cases hik' : i = k
    · subst hik'; rw [hk]; simp
    · obtain ⟨e, he⟩ := hfail i (Nat.le_refl _) (by omega)
      rw [he]
      simp only []
      rw [ih (i + 1) _ (by omega) (fun j h1 h2 => hfail j (by omega) h2) (by omega)]
      have : k - i = (k - (i + 1)) + 1 := by omega
      rw [this, List.replicate_succ, List.append_assoc]
      rfl

theorem firstOk_le (s : List Outcome) : firstOk s ≤ s.length := firstIdx_le _ _

theorem retryForever_eq_spec (iv : Int) (s : List Outcome) :
    MV.Model.Retry.retryForever iv s = MV.Spec.Retry.retryForever iv s := by
  unfold MV.Model.Retry.retryForever MV.Spec.Retry.retryForever
  have := firstOk_le s
  rw [foreverLoop_run s iv (firstOk s) (firstOk_none s) _ 0 [] (Nat.zero_le _)
    (fun j _ h2 => firstOk_some s j h2) (by omega)]
  simp

theorem firstIdx_eq_of (p : Nat → Bool) (b r : Nat) (hr : r ≤ b) (h1 : ∀ j, j < r → p j = false)
    (h2 : r < b → p r = true) : firstIdx p b = r := by
  have hle := firstIdx_le p b
  by_cases hlt : firstIdx p b < r
  · have := firstIdx_spec p b (by omega)
    rw [h1 _ hlt] at this
    exact absurd this (by decide)
  · by_cases hgt : r < firstIdx p b
    · have := firstIdx_not p b r hgt
      rw [h2 (by omega)] at this
      exact absurd this (by decide)
    · omega

/-! ### `RetryByRule` -/

/-- stop condition of `RetryByRule` at attempt `k` -/
def ruleStop (s : List Outcome) (rule : List Int) (k : Nat) : Bool :=
  (outcomeAt s k).isNone || decide (rule.getD k 0 ≤ 0)

def ruleResult (s : List Outcome) (c : Nat) (sl : List Int) : Run :=
  match outcomeAt s c with
  | none => ⟨c + 1, c, sl, .nil⟩
  | some e => ⟨c + 1, c + 1, sl, .err e⟩

theorem ruleLoop_run (s : List Outcome) (rule : List Int) (c : Nat) (hc : ruleStop s rule c = true) :
    ∀ (fuel i : Nat) (sl : List Int), i ≤ c → (∀ j, i ≤ j → j < c → ruleStop s rule j = false) →
      c - i < fuel →
      ruleLoop s rule fuel i sl =
        ruleResult s c (sl ++ (List.range' i (c - i)).map (fun k => rule.getD k 0)) := by
  intro fuel
  induction fuel with
  | zero => intro i sl _ _ h; omega
  | succ n ih =>
    intro i sl hic hgo hfuel
    unfold ruleLoop
    by_cases hic' : i = c
    · subst hic'
      unfold ruleResult
      cases ho : outcomeAt s i with
      | none => simp
      | some e =>
        have : rule[i]?.getD 0 ≤ 0 := by
          unfold ruleStop at hc; rw [ho] at hc; simpa using hc
        simp
        intro h; omega
    · have hstop := hgo i (Nat.le_refl _) (by omega)
      unfold ruleStop at hstop
      cases ho : outcomeAt s i with
      | none => rw [ho] at hstop; simp at hstop
      | some e =>
        rw [ho] at hstop
        have hpos : ¬ (rule.getD i 0 ≤ 0) := by simpa using hstop
        simp only [hpos, if_false]
        rw [ih (i + 1) _ (by omega) (fun j h1 h2 => hgo j (by omega) h2) (by omega)]
        have : c - i = (c - (i + 1)) + 1 := by omega
        rw [this, List.range'_succ, List.map_cons, List.append_assoc]
        rfl

theorem retryByRule_eq_spec (s : List Outcome) (rule : List Int) :
    MV.Model.Retry.retryByRule s rule = MV.Spec.Retry.retryByRule s rule := by
  unfold MV.Model.Retry.retryByRule MV.Spec.Retry.retryByRule
  have hstop : ruleStop s rule (firstIdx (ruleStop s rule) s.length) = true :=
    stop_at_first s (ruleStop s rule) (by intro k hk; simp [ruleStop, hk])
  have hle := firstIdx_le (ruleStop s rule) s.length
  rw [ruleLoop_run s rule _ hstop _ 0 [] (Nat.zero_le _)
    (fun j _ h2 => firstIdx_not _ _ j h2) (by omega)]
  show ruleResult s _ _ = _
  unfold ruleResult
  simp only [List.nil_append, Nat.sub_zero, List.range_eq_range']
  rfl

/-! ### `ConditionalRetryByExponentialBackoff` -/

def condResult (s : List Outcome) (cond : Option (List Bool)) (ignore : List Nat) (r : Nat) (sl : List Int) : Run :=
  if condAt cond r = false then ⟨r, condCalls cond (r + 1), sl, .interrupted⟩
  else match outcomeAt s r with
    | none => ⟨r + 1, condCalls cond (r + 1), sl, .nil⟩
    | some e =>
      if ignored ignore e then ⟨r + 1, condCalls cond (r + 1), sl, .err e⟩
      else ⟨r + 1, condCalls cond (r + 1), sl, .maxRetries e⟩

theorem condLoop_run (s : List Outcome) (cond : Option (List Bool)) (ignore : List Nat) (mr : Int)
    (d : Nat → Int) (r : Nat) (hr : condStop s cond ignore mr r = true) :
    ∀ (fuel i : Nat) (sl : List Int), i ≤ r → (∀ j, i ≤ j → j < r → condStop s cond ignore mr j = false) →
      r - i < fuel →
      condLoop s cond ignore mr d fuel i sl =
        condResult s cond ignore r (sl ++ (List.range' i (r - i)).map d) := by
  intro fuel
  induction fuel with
  | zero => intro i sl _ _ h; omega
  | succ n ih =>
    intro i sl hir hgo hfuel
    unfold condLoop
    by_cases hir' : i = r
    · subst hir'
      unfold condResult
      by_cases hc : condAt cond i = false
      · simp [hc]
      · rw [if_neg hc, if_neg hc]
        cases ho : outcomeAt s i with
        | none => simp
        | some e =>
          simp only []
          by_cases hig : ignored ignore e = true
          · simp [hig]
          · have hct : condAt cond i = true := by simpa using hc
            have : (i : Int) ≥ mr := by
              unfold condStop at hr
              rw [ho, hct] at hr
              simpa [hig] using hr
            simp [hig, this]
    · have hstop := hgo i (Nat.le_refl _) (by omega)
      unfold condStop at hstop
      have hct : condAt cond i = true := by
        cases h : condAt cond i with
        | true => rfl
        | false => rw [h] at hstop; simp at hstop
      rw [hct] at hstop
      cases ho : outcomeAt s i with
      | none => rw [ho] at hstop; simp at hstop
      | some e =>
        rw [ho] at hstop
        have hboth : ignored ignore e = false ∧ ¬ ((i : Int) ≥ mr) := by simpa using hstop
        obtain ⟨hig, hmr⟩ := hboth
        simp only [hct, hig, hmr, if_false, Bool.true_eq_false, Bool.false_eq_true]
        rw [ih (i + 1) _ (by omega) (fun j h1 h2 => hgo j (by omega) h2) (by omega)]
        have : r - i = (r - (i + 1)) + 1 := by omega
        rw [this, List.range'_succ, List.map_cons, List.append_assoc]
        rfl

theorem condStop_some (s : List Outcome) (cond : Option (List Bool)) (ignore : List Nat) (mr : Int) (k : Nat)
    (e : Err) (h : outcomeAt s k = some e) :
    condStop s cond ignore mr k = (!condAt cond k || (ignored ignore e || decide ((k : Int) ≥ mr))) := by
  unfold condStop; rw [h]

theorem ruleStop_some (s : List Outcome) (rule : List Int) (k : Nat) (e : Err) (h : outcomeAt s k = some e) :
    ruleStop s rule k = decide (rule.getD k 0 ≤ 0) := by
  unfold ruleStop; rw [h]; rfl

theorem condStop_of_none (s : List Outcome) (cond : Option (List Bool)) (ignore : List Nat) (mr : Int) (k : Nat)
    (h : outcomeAt s k = none) : condStop s cond ignore mr k = true := by
  unfold condStop; rw [h]; simp

theorem condLoop_eq_spec (s : List Outcome) (cond : Option (List Bool)) (ignore : List Nat) (mr : Int)
    (d : Nat → Int) :
    condLoop s cond ignore mr d (s.length + 1) 0 [] = MV.Spec.Retry.condRetry s cond ignore mr d := by
  have hstop := stop_at_first s (condStop s cond ignore mr) (condStop_of_none s cond ignore mr)
  have hle := firstIdx_le (condStop s cond ignore mr) s.length
  rw [condLoop_run s cond ignore mr d _ hstop _ 0 [] (Nat.zero_le _)
    (fun j _ h2 => firstIdx_not _ _ j h2) (by omega)]
  unfold MV.Spec.Retry.condRetry condResult
  simp only [List.nil_append, Nat.sub_zero, List.range_eq_range']
  rfl

/-! ### the stopping attempt of the conditional back-off retry -/

/-- the attempt at which the conditional back-off retry stops -/
def stopAttempt (s : List Outcome) (cond : Option (List Bool)) (ig : List Nat) (mr : Int) : Nat :=
  firstIdx (condStop s cond ig mr) s.length

theorem stopAttempt_le_maxRetries (s : List Outcome) (cond : Option (List Bool)) (ig : List Nat) (mr : Int) :
    stopAttempt s cond ig mr ≤ mr.toNat := by
  unfold stopAttempt
  refine Decidable.byContradiction fun h => ?_
  have hlt : mr.toNat < firstIdx (condStop s cond ig mr) s.length := by omega
  have := firstIdx_not _ _ _ hlt
  unfold condStop at this
  cases hc : condAt cond mr.toNat with
  | false => rw [hc] at this; simp at this
  | true =>
    rw [hc] at this
    cases ho : outcomeAt s mr.toNat with
    | none => rw [ho] at this; simp at this
    | some e =>
      rw [ho] at this
      simp at this
      omega

theorem stopAttempt_le_firstOk (s : List Outcome) (cond : Option (List Bool)) (ig : List Nat) (mr : Int) :
    stopAttempt s cond ig mr ≤ firstOk s := by
  unfold stopAttempt
  refine Decidable.byContradiction fun h => ?_
  have hlt : firstOk s < firstIdx (condStop s cond ig mr) s.length := by omega
  have := firstIdx_not _ _ _ hlt
  rw [condStop_of_none s cond ig mr _ (firstOk_none s)] at this
  exact absurd this (by decide)

theorem condRetry_calls_le (s : List Outcome) (cond : Option (List Bool)) (ig : List Nat) (mr : Int)
    (d : Nat → Int) : (MV.Spec.Retry.condRetry s cond ig mr d).calls ≤ stopAttempt s cond ig mr + 1 := by
  unfold MV.Spec.Retry.condRetry stopAttempt
  simp only []
  split
  · simp
  · split
    · simp
    · split <;> simp

/-- the closed form when the attempt `r` is known to be the first stopping one -/
theorem condRetry_at (s : List Outcome) (cond : Option (List Bool)) (ig : List Nat) (mr : Int) (d : Nat → Int)
    (r : Nat) (hgo : ∀ j, j < r → condStop s cond ig mr j = false) (hstop : condStop s cond ig mr r = true) :
    MV.Spec.Retry.condRetry s cond ig mr d = condResult s cond ig r ((List.range r).map d) := by
  have hr : r ≤ s.length := by
    refine Decidable.byContradiction fun h => ?_
    have := hgo s.length (by omega)
    rw [condStop_of_none s cond ig mr _ (outcomeAt_length s _ (Nat.le_refl _))] at this
    exact absurd this (by decide)
  have hidx : firstIdx (condStop s cond ig mr) s.length = r :=
    firstIdx_eq_of _ _ _ hr hgo (fun _ => hstop)
  unfold MV.Spec.Retry.condRetry condResult
  simp only []
  rw [hidx]
  rfl


end MV.Lemmas.Retry
