import MV.Lemmas.SchedulerExt
/-!
# The deterministic executable (`wait` = millisecond steps, every timer runs at its expiration)

`Drained`: between two operations no timer is in flight and no pending (non-cron) timer is overdue.
-/
namespace MV.Model.Scheduler

/-- progress of `fireDue`: objects below `k` have been looked at in this millisecond -/
structure DrainedUpTo (s : Sched) (k : Nat) : Prop where
  noInfl : ∀ i e, i < s.nobjs → (s.objs i).timer ≠ .inflight e
  ahead : s.stopped = false → ∀ i e, i < s.nobjs → (s.objs i).cron = none →
    (s.objs i).timer = .pending e → s.now ≤ e ∧ (i < k → s.now < e)
  behind : s.stopped = false → ∀ i e, i < s.nobjs → (s.objs i).cron = none →
    (s.objs i).timer = .pending e → 2 ≤ (s.objs i).trigger → e ≤ s.now + (s.objs i).interval
  done : ∀ i, i < s.nobjs → (s.objs i).cron = none → (s.objs i).kill = false → (s.objs i).timer = .idle →
    (s.objs i).base + (s.objs i).after + ((s.objs i).trigger - 1) * (s.objs i).interval ≤ s.now

def Drained (s : Sched) : Prop := DrainedUpTo s s.nobjs

theorem Task.stop_timer (t : Task) : t.stop.timer = t.timer ∨ t.stop.timer = .idle := by
  unfold Task.stop; split
  · right; rfl
  · left; rfl

theorem Task.close_timer (t : Task) : t.close.timer = t.timer ∨ t.close.timer = .idle := by
  unfold Task.close; split
  · left; rfl
  · split
    · exact Task.stop_timer { t with kill := true }
    · left; rfl

theorem Task.close_same_or_kill (t : Task) : t.close = t ∨ t.close.kill = true := by
  cases hk : t.kill
  · right; exact Task.close_kill t
  · left; exact Task.close_of_kill t hk

/-- a step that leaves every timer as it was or idles it keeps `DrainedUpTo` -/
theorem DrainedUpTo_of_timers (s s' : Sched) (k : Nat) (h : DrainedUpTo s k)
    (hn : s'.nobjs = s.nobjs) (hnow : s'.now = s.now) (hst : s'.stopped = false → s.stopped = false)
    (hobj : ∀ i, i < s.nobjs → (s'.objs i).cron = (s.objs i).cron ∧
      ((s'.objs i).timer = (s.objs i).timer ∨ (s'.objs i).timer = .idle) ∧
      (s'.objs i).interval = (s.objs i).interval ∧ (s'.objs i).trigger = (s.objs i).trigger ∧
      (s'.objs i = s.objs i ∨ (s'.objs i).kill = true)) :
    DrainedUpTo s' k := by
  refine ⟨?_, ?_, ?_, ?_⟩
  · intro i e hi hin
    rw [hn] at hi
    rcases (hobj i hi).2.1 with h1 | h1 <;> rw [h1] at hin
    · exact h.noInfl i e hi hin
    · cases hin
  · intro hs i e hi hc hp
    rw [hn] at hi; rw [hnow]
    rw [(hobj i hi).1] at hc
    rcases (hobj i hi).2.1 with h1 | h1 <;> rw [h1] at hp
    · exact h.ahead (hst hs) i e hi hc hp
    · cases hp
  · intro hs i e hi hc hp ht
    rw [hn] at hi; rw [hnow]
    rw [(hobj i hi).1] at hc
    rw [(hobj i hi).2.2.2.1] at ht
    rw [(hobj i hi).2.2.1]
    rcases (hobj i hi).2.1 with h1 | h1 <;> rw [h1] at hp
    · exact h.behind (hst hs) i e hi hc hp ht
    · cases hp
  · intro i hi hc hk hidle
    rw [hn] at hi; rw [hnow]
    rcases (hobj i hi).2.2.2.2 with heq | hkill
    · rw [heq] at hc hk hidle ⊢; exact h.done i hi hc hk hidle
    · rw [hkill] at hk; cases hk

theorem DrainedUpTo_unregister (s : Sched) (n k : Nat) (h : DrainedUpTo s k) : DrainedUpTo (unregister s n) k := by
  unfold unregister
  split
  · rename_i i _
    refine DrainedUpTo_of_timers s
      { s with objs := upd s.objs i (s.objs i).close, table := upd s.table n none } k h rfl rfl id ?_
    intro j _
    simp only
    by_cases hji : j = i
    · subst hji; rw [upd_same]
      exact ⟨(Task.close_fields _).2.2.2.2.1, Task.close_timer _, (Task.close_fields _).2.2.1,
        (Task.close_fields _).2.2.2.2.2.2, Task.close_same_or_kill _⟩
    · rw [upd_other _ _ _ _ hji]; exact ⟨rfl, Or.inl rfl, rfl, rfl, Or.inl rfl⟩
  · exact h

theorem DrainedUpTo_clear (s : Sched) (k : Nat) (h : DrainedUpTo s k) : DrainedUpTo (clear s) k := by
  refine DrainedUpTo_of_timers s (clear s) k h rfl rfl id ?_
  intro j _
  unfold clear; simp only
  split
  · exact ⟨(Task.close_fields _).2.2.2.2.1, Task.close_timer _, (Task.close_fields _).2.2.1,
      (Task.close_fields _).2.2.2.2.2.2, Task.close_same_or_kill _⟩
  · exact ⟨rfl, Or.inl rfl, rfl, rfl, Or.inl rfl⟩

theorem DrainedUpTo_mono (s : Sched) (k k' : Nat) (h : DrainedUpTo s k) (hk : k' ≤ k) : DrainedUpTo s k' :=
  ⟨h.noInfl, fun hs i e hi hc hp => ⟨(h.ahead hs i e hi hc hp).1, fun hlt => (h.ahead hs i e hi hc hp).2 (by omega)⟩,
   h.behind, h.done⟩

/-- `Drained` only talks about objects below `nobjs`, so the bound may be anything above -/
theorem DrainedUpTo_ge (s : Sched) (k k' : Nat) (h : DrainedUpTo s k) (hk : s.nobjs ≤ k) : DrainedUpTo s k' :=
  ⟨h.noInfl, fun hs i e hi hc hp => ⟨(h.ahead hs i e hi hc hp).1, fun _ => (h.ahead hs i e hi hc hp).2 (by omega)⟩,
   h.behind, h.done⟩

theorem Task.schedule_fresh_timer (n a iv : Nat) (times : Int) (now : Nat) :
    ((Task.fresh n a iv times none now).schedule now).timer = .pending (now + a) := by
  unfold Task.schedule Task.next Task.bump Task.finished Task.fresh
  by_cases h : 0 < times
  · have h2 : ¬ times ≤ 0 := by omega
    simp [h, h2]
  · simp [h]

theorem Task.schedule_fresh_trigger (n a iv : Nat) (times : Int) (now : Nat) :
    ((Task.fresh n a iv times none now).schedule now).trigger = 1 := by
  unfold Task.schedule Task.next Task.bump Task.finished Task.fresh
  by_cases h : 0 < times
  · have h2 : ¬ times ≤ 0 := by omega
    simp [h, h2]
  · simp [h]

theorem Drained_register (s : Sched) (n : Nat) (a iv : Int) (cron : Option Nat) (times : Int)
    (hinv : Inv s) (h : Drained s) : Drained (register s n a iv cron times) := by
  cases hlive : s.stopped
  case true =>
    have : register s n a iv cron times = s := by unfold register; simp [hlive]
    rw [this]; exact h
  obtain ⟨_, hn, _, hobj⟩ := register_frame s n a iv cron times hlive
  have h1 : DrainedUpTo (unregister s n) s.nobjs := DrainedUpTo_unregister s n _ h
  obtain ⟨_, hnow, hnn, _, hstop, _⟩ := unregister_frame s n
  unfold Drained
  rw [hn]
  have hreg : register s n a iv cron times = addTask (unregister s n) n
      ((Task.fresh n (durMs s.tick cron a) (durMs s.tick cron iv) times cron s.now).schedule (unregister s n).now) := by
    unfold register; simp only [hlive, Bool.false_eq_true, if_false]; rfl
  rw [hreg, hnow]
  generalize hs1 : unregister s n = s1 at *
  generalize ht : (Task.fresh n (durMs s.tick cron a) (durMs s.tick cron iv) times cron s.now).schedule s.now = t'
  have hnin : ∀ e, t'.timer ≠ .inflight e := by
    intro e; subst ht; exact Task.schedule_not_inflight _ _ _ rfl
  refine ⟨?_, ?_, ?_, ?_⟩
  · intro i e hi hin
    simp only [addTask] at hi hin
    by_cases hji : i = s1.nobjs
    · subst hji; rw [upd_same] at hin; exact hnin e hin
    · rw [upd_other _ _ _ _ hji] at hin; exact h1.noInfl i e (by omega) hin
  · intro hs i e hi hc hp
    simp only [addTask] at hs hi hc hp ⊢
    by_cases hji : i = s1.nobjs
    · subst hji; rw [upd_same] at hc hp
      subst ht
      have hcr : cron = none := by
        rw [(Task.schedule_fields _ _).2.2.2.2.1] at hc; exact hc
      subst hcr
      rw [Task.schedule_fresh_timer] at hp
      cases hp
      have := clampMs_ge s.tick a
      have := hinv.tick_pos
      simp only [durMs]
      rw [hnow]
      constructor <;> intros <;> omega
    · rw [upd_other _ _ _ _ hji] at hc hp
      have := h1.ahead hs i e (by omega) hc hp
      exact ⟨this.1, fun _ => this.2 (by omega)⟩
  · intro hs i e hi hc hp htr
    simp only [addTask] at hs hi hc hp htr ⊢
    by_cases hji : i = s1.nobjs
    · subst hji; rw [upd_same] at hc htr
      subst ht
      have hcr : cron = none := by
        rw [(Task.schedule_fields _ _).2.2.2.2.1] at hc; exact hc
      subst hcr
      rw [Task.schedule_fresh_trigger] at htr
      omega
    · rw [upd_other _ _ _ _ hji] at hc hp htr ⊢
      exact h1.behind hs i e (by omega) hc hp htr
  · intro i hi hc hk hidle
    simp only [addTask] at hi hc hk hidle ⊢
    by_cases hji : i = s1.nobjs
    · subst hji; rw [upd_same] at hc hidle
      subst ht
      have hcr : cron = none := by
        rw [(Task.schedule_fields _ _).2.2.2.2.1] at hc; exact hc
      subst hcr
      rw [Task.schedule_fresh_timer] at hidle; cases hidle
    · rw [upd_other _ _ _ _ hji] at hc hk hidle ⊢
      exact h1.done i (by omega) hc hk hidle

theorem Drained_close (s : Sched) (h : Drained s) : Drained (close s).1 := by
  have hc : DrainedUpTo (clear s) s.nobjs := DrainedUpTo_clear s _ h
  unfold close; simp only
  split
  · exact hc
  · exact ⟨hc.noInfl, fun hs => by simp at hs, fun hs => by simp at hs, hc.done⟩

theorem Task.next_timer_irrel (t : Task) (x : Timer) (e : Nat) : ({ t with timer := x } : Task).next e = t.next e := rfl

theorem Task.bump_timer_irrel (t : Task) (x : Timer) :
    ({ t with timer := x } : Task).bump = { t.bump with timer := x } := by
  obtain ⟨name, after, interval, total, cron, trigger, kill, timer, base⟩ := t
  cases cron with
  | some p => rfl
  | none =>
    simp only [Task.bump, Task.finished]
    by_cases h : (kill || decide (total > 0) && decide (total ≤ (trigger : Int))) = true
    · simp [h]
    · simp [h]

/-- `Next`/`caller` never look at the timer handle -/
theorem Task.fire_timer_irrel (t : Task) (x : Timer) (e : Nat) : ({ t with timer := x } : Task).fire e = t.fire e := by
  unfold Task.fire
  rw [Task.next_timer_irrel, Task.bump_timer_irrel]

theorem expire_eq_of_due (s : Sched) (i e : Nat) (hs : s.stopped = false) (hi : i < s.nobjs)
    (hp : (s.objs i).timer = .pending e) (he : e ≤ s.now) :
    expire s i = { s with objs := upd s.objs i { s.objs i with timer := .inflight e } } := by
  have _ := he
  unfold expire
  simp [hs, hp, hi]

theorem expire_eq_self (s : Sched) (i e : Nat) (hp : (s.objs i).timer = .pending e)
    (h : s.stopped = true ∨ ¬ i < s.nobjs) : expire s i = s := by
  unfold expire
  rcases h with h | h
  · simp [h]
  · simp [hp, h]

theorem runTimer_eq_self (s : Sched) (i e : Nat) (hp : (s.objs i).timer = .pending e) : runTimer s i = s := by
  unfold runTimer; simp [hp]

theorem upd_upd {α : Type} (f : Nat → α) (k : Nat) (a b : α) : upd (upd f k a) k b = upd f k b := by
  funext j; simp only [upd]; split <;> rfl

/-- the timer of a (non-cron) task after it has run at its expiration `e`: idle, or one interval later -/
theorem Task.fire_ahead (t : Task) (f e : Nat) (hok : TaskOKp t f) (hc : t.cron = none)
    (hact : ∃ e', t.timer = .pending e' ∨ t.timer = .inflight e') :
    (t.fire e).timer = .idle ∨ (t.fire e).timer = .pending (e + t.interval) := by
  cases hk : t.kill
  · obtain ⟨_, _, h3⟩ := hok hc
    have ht : 0 < t.trigger := by
      rcases h3 hk with ⟨_, _, hf, _⟩ | ⟨hidle, _⟩
      · omega
      · obtain ⟨e', h | h⟩ := hact <;> rw [hidle] at h <;> cases h
    rcases Task.fire_of_live t e hc hk ht with ⟨_, _, heq⟩ | ⟨_, heq⟩ <;> rw [heq]
    · left; rfl
    · right; rfl
  · rw [Task.fire_of_kill t e hc hk]; left; rfl

theorem DrainedUpTo_fireIfDue (s : Sched) (k : Nat) (hinv : Inv s) (h : DrainedUpTo s k) :
    DrainedUpTo (fireIfDue s k) (k + 1) ∧ (fireIfDue s k).nobjs = s.nobjs := by
  have hsame : DrainedUpTo s (k + 1) ∨ ∃ e, (s.objs k).timer = .pending e ∧ e ≤ s.now := by
    cases ht : (s.objs k).timer with
    | pending e =>
      by_cases he : e ≤ s.now
      · right; exact ⟨e, rfl, he⟩
      · left
        refine ⟨h.noInfl, fun hs i e' hi hc hp => ⟨(h.ahead hs i e' hi hc hp).1, fun hlt => ?_⟩, h.behind, h.done⟩
        by_cases hik : i = k
        · subst hik; rw [ht] at hp; cases hp; omega
        · exact (h.ahead hs i e' hi hc hp).2 (by omega)
    | _ =>
      left
      refine ⟨h.noInfl, fun hs i e' hi hc hp => ⟨(h.ahead hs i e' hi hc hp).1, fun hlt => ?_⟩, h.behind, h.done⟩
      by_cases hik : i = k
      · subst hik; rw [ht] at hp; cases hp
      · exact (h.ahead hs i e' hi hc hp).2 (by omega)
  unfold fireIfDue
  cases ht : (s.objs k).timer with
  | pending e =>
    simp only
    by_cases he : e ≤ s.now
    · simp only [he, if_true, step]
      by_cases hrun : s.stopped = false ∧ k < s.nobjs
      · obtain ⟨hs, hk⟩ := hrun
        rw [expire_eq_of_due s k e hs hk ht he]
        generalize hs1 : ({ s with objs := upd s.objs k { s.objs k with timer := .inflight e } } : Sched) = s1
        have h1t : (s1.objs k).timer = .inflight e := by subst hs1; simp
        have h1n : s1.nobjs = s.nobjs := by subst hs1; rfl
        have hrt : runTimer s1 k = timerTask s1 k e := by
          have he1 : e ≤ s1.now := by subst hs1; exact he
          unfold runTimer; rw [h1t]; simp [h1n, hk, he1]
        rw [hrt, timerTask_eq]
        have hobjk : (s1.objs k).fire e = (s.objs k).fire e := by
          subst hs1; simp only [upd_same]; exact Task.fire_timer_irrel _ _ _
        have hfa : fireAt s1 k e = { s with objs := upd s.objs k ((s.objs k).fire e) } := by
          unfold fireAt; rw [hobjk]; subst hs1; simp only [upd_upd]
        -- the state after `Next` + re-add
        have hD : DrainedUpTo (fireAt s1 k e) (k + 1) := by
          rw [hfa]
          refine ⟨?_, ?_, ?_, ?_⟩
          · intro i e' hi hin
            simp only at hi hin
            by_cases hik : i = k
            · subst hik; rw [upd_same] at hin
              rcases Task.fire_timer (s.objs i) e with ⟨x, hx⟩ | hx <;> rw [hx] at hin <;> cases hin
            · rw [upd_other _ _ _ _ hik] at hin; exact h.noInfl i e' hi hin
          · intro hs' i e' hi hc hp
            simp only at hs' hi hc hp ⊢
            by_cases hik : i = k
            · subst hik; rw [upd_same] at hc hp
              rw [(Task.fire_fields _ _).2.2.2.2.1] at hc
              have hcl := hinv.clamped i hi hc
              have hpos := hinv.tick_pos
              have hnow := (h.ahead hs i e hi hc ht).1
              rcases Task.fire_ahead (s.objs i) _ e (hinv.ok i hi) hc ⟨e, Or.inl ht⟩ with hx | hx <;> rw [hx] at hp <;> cases hp
              constructor <;> intros <;> omega
            · rw [upd_other _ _ _ _ hik] at hc hp
              exact ⟨(h.ahead hs i e' hi hc hp).1, fun hlt => (h.ahead hs i e' hi hc hp).2 (by omega)⟩
          · intro hs' i e' hi hc hp htr
            simp only at hs' hi hc hp htr ⊢
            by_cases hik : i = k
            · subst hik; rw [upd_same] at hc hp htr ⊢
              rw [(Task.fire_fields _ _).2.2.2.2.1] at hc
              rw [(Task.fire_fields _ _).2.2.1]
              rcases Task.fire_ahead (s.objs i) _ e (hinv.ok i hi) hc ⟨e, Or.inl ht⟩ with hx | hx <;> rw [hx] at hp <;> cases hp
              omega
            · rw [upd_other _ _ _ _ hik] at hc hp htr ⊢
              exact h.behind hs i e' hi hc hp htr
          · intro i hi hc hkl hidle
            simp only at hi hc hkl hidle ⊢
            by_cases hik : i = k
            · subst hik; rw [upd_same] at hc hkl hidle ⊢
              have hff := Task.fire_fields (s.objs i) e
              rw [hff.2.2.2.2.1] at hc
              rw [hff.2.2.2.2.2.2] at hkl
              rw [hff.2.2.2.2.2.1, hff.2.1, hff.2.2.1]
              obtain ⟨_, _, h3⟩ := hinv.ok i hi hc
              rcases h3 hkl with ⟨e0, hte, hf, he0⟩ | ⟨hid, _⟩
              · have : e0 = e := by rcases hte with x | x <;> rw [ht] at x <;> cases x; rfl
                subst this
                have htpos : 0 < (s.objs i).trigger := by omega
                rcases Task.fire_of_live (s.objs i) e0 hc hkl htpos with ⟨_, _, heq⟩ | ⟨_, heq⟩
                · rw [heq]; simp only; omega
                · rw [heq] at hidle; cases hidle
              · rw [ht] at hid; cases hid
            · rw [upd_other _ _ _ _ hik] at hc hkl hidle ⊢
              exact h.done i hi hc hkl hidle
        have hN : (fireAt s1 k e).nobjs = s.nobjs := by rw [hfa]
        have hL : DrainedUpTo (logged (fireAt s1 k e) k e) (k + 1) := ⟨hD.noInfl, hD.ahead, hD.behind, hD.done⟩
        split
        · exact ⟨hD, hN⟩
        · split
          · exact ⟨DrainedUpTo_unregister _ _ _ hL, by rw [(unregister_frame _ _).2.2.1]; exact hN⟩
          · exact ⟨hL, hN⟩
      · -- the wheel is stopped, or `k` is no task object: nothing happens
        have hor : s.stopped = true ∨ ¬ k < s.nobjs := by
          cases hst : s.stopped
          · right; intro hk; exact hrun ⟨hst, hk⟩
          · left; rfl
        rw [expire_eq_self s k e ht hor, runTimer_eq_self s k e ht]
        refine ⟨⟨h.noInfl, fun hs i e' hi hc hp => ⟨(h.ahead hs i e' hi hc hp).1, fun hlt => ?_⟩, h.behind, h.done⟩, rfl⟩
        rcases hor with hst | hnk
        · rw [hst] at hs; cases hs
        · exact (h.ahead hs i e' hi hc hp).2 (by omega)
    · simp only [he, if_false]
      rcases hsame with hD | ⟨e', he', hle⟩
      · exact ⟨hD, trivial⟩
      · rw [ht] at he'; cases he'; exact absurd hle he
  | unset => rcases hsame with hD | ⟨e', he', _⟩; exact ⟨hD, rfl⟩; rw [ht] at he'; cases he'
  | idle => rcases hsame with hD | ⟨e', he', _⟩; exact ⟨hD, rfl⟩; rw [ht] at he'; cases he'
  | inflight e => rcases hsame with hD | ⟨e', he', _⟩; exact ⟨hD, rfl⟩; rw [ht] at he'; cases he'

theorem fireIfDue_steps (s : Sched) (k : Nat) :
    fireIfDue s k = s ∨ fireIfDue s k = (step (step s (.expire k)).1 (.run k)).1 := by
  unfold fireIfDue
  split
  · split
    · right; rfl
    · left; rfl
  · left; rfl

theorem Inv_fireIfDue (s : Sched) (k : Nat) (h : Inv s) : Inv (fireIfDue s k) := by
  rcases fireIfDue_steps s k with e | e <;> rw [e]
  · exact h
  · exact Inv_step _ _ (Inv_step _ _ h)

theorem Reach_fireIfDue (s : Sched) (k : Nat) (h : Reach s) : Reach (fireIfDue s k) := by
  rcases fireIfDue_steps s k with e | e <;> rw [e]
  · exact h
  · exact (h.step _).step _

theorem fireDue_spec (s : Sched) (k : Nat) (hinv : Inv s) (hr : Reach s) (h : DrainedUpTo s 0) :
    DrainedUpTo (fireDue s k) k ∧ Inv (fireDue s k) ∧ Reach (fireDue s k) ∧ (fireDue s k).nobjs = s.nobjs := by
  induction k with
  | zero => exact ⟨h, hinv, hr, rfl⟩
  | succ k ih =>
    obtain ⟨hd, hi, hre, hn⟩ := ih
    have := DrainedUpTo_fireIfDue (fireDue s k) k hi hd
    exact ⟨this.1, Inv_fireIfDue _ _ hi, Reach_fireIfDue _ _ hre, this.2.trans hn⟩

theorem msStep_spec (s : Sched) (hinv : Inv s) (hr : Reach s) (h : Drained s) :
    Drained (msStep s) ∧ Inv (msStep s) ∧ Reach (msStep s) := by
  have h0 : DrainedUpTo (advance s 1) 0 := by
    refine ⟨h.noInfl, fun hs i e hi hc hp => ⟨?_, fun hlt => by omega⟩, fun hs i e hi hc hp htr => ?_, fun i hi hc hk hidle => ?_⟩
    · have := (h.ahead hs i e hi hc hp).2 hi
      simp only [advance]; omega
    · have := h.behind hs i e hi hc hp htr
      simp only [advance]; omega
    · have := h.done i hi hc hk hidle
      simp only [advance]; omega
  have := fireDue_spec (advance s 1) (advance s 1).nobjs (Inv_advance s 1 hinv) (hr.step (.advance 1)) h0
  obtain ⟨hd, hi, hre, hn⟩ := this
  refine ⟨?_, hi, hre⟩
  show DrainedUpTo (fireDue (advance s 1) (advance s 1).nobjs) (fireDue (advance s 1) (advance s 1).nobjs).nobjs
  rw [hn]; exact hd

theorem wait_spec (s : Sched) (d : Nat) (hinv : Inv s) (hr : Reach s) (h : Drained s) :
    Drained (wait s d) ∧ Inv (wait s d) ∧ Reach (wait s d) := by
  induction d generalizing s with
  | zero => exact ⟨h, hinv, hr⟩
  | succ d ih =>
    obtain ⟨a, b, c⟩ := msStep_spec s hinv hr h
    exact ih _ b c a

/-- the calls a user of the scheduler can make (the wheel's own events are produced by `wait`) -/
def Ev.api : Ev → Bool
  | .reg _ _ _ _ | .regCron _ _ | .unreg _ | .clear | .close => true
  | _ => false

def Op.api : Op → Bool
  | .ev e => e.api
  | .wait _ => true

theorem exec_spec (s : Sched) (op : Op) (hop : op.api = true) (hinv : Inv s) (hr : Reach s) (h : Drained s) :
    Drained (exec s op).1 ∧ Inv (exec s op).1 ∧ Reach (exec s op).1 := by
  cases op with
  | wait d => exact wait_spec s d hinv hr h
  | ev e =>
    refine ⟨?_, Inv_step s e hinv, hr.step e⟩
    cases e with
    | reg n a iv times => exact Drained_register s n a iv none times hinv h
    | regCron n p => exact Drained_register s n 0 0 (some p) 0 hinv h
    | unreg n =>
      show DrainedUpTo (unregister s n) (unregister s n).nobjs
      rw [(unregister_frame s n).2.2.1]; exact DrainedUpTo_unregister s n _ h
    | clear => exact DrainedUpTo_clear s _ h
    | close => exact Drained_close s h
    | advance dt => cases hop
    | expire i => cases hop
    | run i => cases hop

theorem Drained_init (tick : Nat) : Drained (init tick) :=
  ⟨fun i e hi => by simp [init] at hi, fun _ i e hi => by simp [init] at hi, fun _ i e hi => by simp [init] at hi, fun i hi => by simp [init] at hi⟩

/-- states of the deterministic executable: a fresh scheduler, then any API calls and waits -/
def ExecReach (s : Sched) : Prop :=
  ∃ tick ops, 0 < tick ∧ (∀ op ∈ ops, Op.api op = true) ∧ s = execAll (init tick) ops

theorem execAll_spec (s : Sched) (ops : List Op) (hops : ∀ op ∈ ops, Op.api op = true)
    (hinv : Inv s) (hr : Reach s) (h : Drained s) :
    Drained (execAll s ops) ∧ Inv (execAll s ops) ∧ Reach (execAll s ops) := by
  induction ops generalizing s with
  | nil => exact ⟨h, hinv, hr⟩
  | cons op ops ih =>
    obtain ⟨a, b, c⟩ := exec_spec s op (hops op (List.mem_cons_self ..)) hinv hr h
    exact ih _ (fun o ho => hops o (List.mem_cons_of_mem _ ho)) b c a

theorem ExecReach.spec {s : Sched} (h : ExecReach s) : Drained s ∧ Inv s ∧ Reach s := by
  obtain ⟨tick, ops, ht, hops, rfl⟩ := h
  exact execAll_spec _ ops hops (Inv_init tick ht) ⟨tick, [], ht, rfl⟩ (Drained_init tick)

end MV.Model.Scheduler
