import MV.Spec.Geometry
import Mathlib.Tactic.Order
import Mathlib.Data.Prod.Lex
import Mathlib.Algebra.Order.Ring.Rat
import Mathlib.Tactic.Linarith
/-!
`CalcLineSegmentOverlap` (after the fix) computes the intersection of two lexicographic intervals.
-/
namespace MV.Lemmas.Geometry
open MV.Model.Geometry MV.Spec.Geometry

/-- the lexicographic key of a point -/
def lk (p : Pt) : ℚ ×ₗ ℚ := toLex (p.x, p.y)

theorem lk_inj (a b : Pt) : a = b ↔ lk a = lk b := by
  cases a; cases b; simp [lk, Prod.ext_iff]

theorem lexLt_iff (a b : Pt) : lexLt a b ↔ lk a < lk b := by
  unfold lexLt lk; rw [Prod.Lex.toLex_lt_toLex]

theorem ptLess_iff (a b : Pt) : ptLess a b = true ↔ lk a < lk b := by
  rw [← lexLt_iff]
  unfold ptLess lexLt
  by_cases h1 : a.x < b.x
  · simp [h1]
  · by_cases h2 : a.x > b.x
    · simp only [h1, h2, if_false, if_true, false_or]
      constructor
      · intro h; exact absurd h (by simp)
      · rintro ⟨h, _⟩; rw [h] at h2; exact absurd h2 (lt_irrefl _)
    · have : a.x = b.x := le_antisymm (not_lt.1 h2) (not_lt.1 h1)
      simp [this]

local macro "ovsimp" : tactic => `(tactic|
  try simp only [Bool.or_eq_true, beq_iff_eq, decide_eq_true_eq, Bool.false_eq_true, Bool.true_eq_false, false_or,
      true_or, not_true_eq_false, not_false_eq_true, lk_inj, Option.some.injEq, Prod.mk.injEq, reduceCtorEq, not_lt,
      beq_self_eq_true, if_true, if_false] at *)

set_option maxHeartbeats 4000000 in
set_option linter.unusedSimpArgs false in
theorem segOverlap_eq (a b c d : Pt) : segOverlap a b c d = overlapSpec a b c d := by
  unfold segOverlap overlapSpec sortPts lexMin lexMax
  simp only [List.foldl, insertPt, ptLess_iff, lexLt_iff]
  split_ifs <;> simp only [insertPt, ptLess_iff] <;> split_ifs <;> simp only [insertPt, ptLess_iff] <;> split_ifs <;>
    ovsimp <;> (try split_ifs) <;> ovsimp <;> order

/-- along a line `o + t·d` with a lexicographically positive direction the lexicographic order of the
    points is the order of the parameters — so `overlapSpec` is the intersection of the two
    parameter intervals for collinear segments -/
theorem lexLt_param (o d : Pt) (hd : lexLt ⟨0, 0⟩ d) (s t : ℚ) :
    lexLt ⟨o.x + s * d.x, o.y + s * d.y⟩ ⟨o.x + t * d.x, o.y + t * d.y⟩ ↔ s < t := by
  unfold lexLt at *
  simp only at *
  rcases hd with hx | ⟨hx, hy⟩
  · constructor
    · rintro (h | ⟨h1, h2⟩)
      · by_contra hc; nlinarith [not_lt.1 hc]
      · have : s = t := by
          have : (s - t) * d.x = 0 := by linarith
          rcases mul_eq_zero.1 this with h | h
          · linarith
          · linarith
        subst this; exact absurd h2 (lt_irrefl _)
    · intro h; left; nlinarith
  · rw [← hx]
    constructor
    · rintro (h | ⟨_, h2⟩)
      · simp at h
      · by_contra hc; nlinarith [not_lt.1 hc]
    · intro h; right; constructor
      · simp
      · nlinarith

end MV.Lemmas.Geometry
