import MV.Lemmas.ECSStep
/-!
# Histories: handles only accumulate, `exec` over concatenation, freshness from distinctness (C14)
-/
namespace MV.Lemmas.ECS
open MV.Model.ECS MV.Lemmas.ECSList MV.Lemmas.ECSSlots

theorem step_hs_prefix (s : St) (op : Op) : ∃ l, (step s op).1.hs = s.hs ++ l := by
  cases op <;> simp only [step] <;> (try split) <;> (try split) <;>
    first
    | exact ⟨_, rfl⟩
    | exact ⟨[], (List.append_nil _).symm⟩

theorem exec_hs_prefix (ops : List Op) : ∀ s : St, ∃ l, (exec s ops).hs = s.hs ++ l := by
  induction ops with
  | nil => intro s; exact ⟨[], by simp [exec]⟩
  | cons op ops ih =>
    intro s
    obtain ⟨l1, h1⟩ := step_hs_prefix s op
    obtain ⟨l2, h2⟩ := ih (step s op).1
    exact ⟨l1 ++ l2, by show (exec (step s op).1 ops).hs = _; rw [h2, h1, List.append_assoc]⟩

theorem exec_append (s : St) (ops ops' : List Op) : exec s (ops ++ ops') = exec (exec s ops) ops' := by
  simp [exec, List.foldl_append]

theorem spec_exec_append (t : MV.Spec.ECS.St) (ops ops' : List Op) :
    MV.Spec.ECS.exec t (ops ++ ops') = MV.Spec.ECS.exec (MV.Spec.ECS.exec t ops) ops' := by
  simp [MV.Spec.ECS.exec, List.foldl_append]

theorem fresh_of_nodup (issued : List Entity) : ∀ es : List Entity, (issued ++ es).Nodup →
    MV.Spec.ECS.fresh issued es = true := by
  intro es
  induction es with
  | nil => intro _; rfl
  | cons e es ih =>
    intro h
    rw [List.nodup_append] at h
    obtain ⟨h1, h2, h3⟩ := h
    rw [List.nodup_cons] at h2
    have hsub : (issued ++ es).Nodup := by
      rw [List.nodup_append]
      exact ⟨h1, h2.2, fun a ha b hb => h3 a ha b (List.mem_cons_of_mem _ hb)⟩
    have hni : e ∉ issued := fun hm => h3 e hm e (by simp) rfl
    simp [MV.Spec.ECS.fresh, ih hsub, hni, h2.1]

end MV.Lemmas.ECS
