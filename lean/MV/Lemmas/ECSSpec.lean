import MV.Spec.ECS
import MV.Lemmas.ECSList
/-!
# Facts about the abstract ECS specification itself (C14): liveness is monotone
-/
namespace MV.Lemmas.ECSSpec
open MV.Model.ECS (Op Out Filter validIds)
open MV.Spec.ECS MV.Lemmas.ECSList

theorem isLiving_eq (t : St) (i : Nat) : t.isLiving i = nth false t.living i := rfl

theorem kill_n (t : St) (h : Nat) : (t.kill h).n = t.n := by simp [St.kill, St.n]

theorem kill_living (t : St) (h i : Nat) :
    (t.kill h).isLiving i = if h = i ∧ h < t.n then false else t.isLiving i := by
  show nth false (t.living.set h false) i = _
  rw [nth_set]; rfl

theorem foldl_kill_n (l : List Nat) : ∀ t : St, (l.foldl St.kill t).n = t.n := by
  induction l with
  | nil => intro t; rfl
  | cons h l ih => intro t; rw [List.foldl_cons, ih, kill_n]

/-- after annihilating the names `l`, a name is living iff it was living and is not in `l` -/
theorem foldl_kill_living (l : List Nat) : ∀ (t : St) (i : Nat), i < t.n →
    (l.foldl St.kill t).isLiving i = (t.isLiving i && !l.contains i) := by
  induction l with
  | nil => intro t i _; simp
  | cons h l ih =>
    intro t i hi
    rw [List.foldl_cons, ih (t.kill h) i (by rw [kill_n]; exact hi), kill_living]
    by_cases e : h = i
    · subst e; simp [hi]
    · have e' : ¬ i = h := fun x => e x.symm
      simp [e, e']

/-- the names an operation annihilates -/
def kills : Op → Nat → Bool
  | .kill h, i => h == i
  | .killN l, i => l.contains i
  | _, _ => false

/-- the number of names only grows -/
theorem step_n_mono (t : St) (op : Op) : t.n ≤ (step t op).1.n := by
  cases op with
  | spawn ids => simp only [step]; split <;> simp [St.n]
  | spawnN n ids => simp only [step]; split <;> simp [St.n]
  | kill h => simp only [step]; split <;> simp [kill_n]
  | killN l => simp only [step]; split <;> simp [foldl_kill_n]
  | write h c v => simp only [step]; split <;> (try split) <;> simp [St.n, St.setData]
  | rwrite h c v => simp only [step]; split <;> (try split) <;> simp [St.n, St.setData]
  | reg => simp [step, St.n]
  | rereg k => simp only [step]; split <;> simp
  | alive h => simp only [step]; split <;> simp
  | read h c => simp only [step]; split <;> simp
  | rread h c => simp only [step]; split <;> simp
  | query f => simp [step]
  | qiter c f => simp only [step]; split <;> simp
  | alive0 => simp [step]
  | kill0 => simp [step]

/-- **liveness changes only by annihilation**: an existing name is living after an operation iff it
was living before and the operation did not annihilate it -/
theorem step_living (t : St) (op : Op) (i : Nat) (hi : i < t.n) :
    (step t op).1.isLiving i = (t.isLiving i && !(kills op i && (step t op).2 != .badOp)) := by
  have hi' : i < t.living.length := hi
  cases op with
  | spawn ids =>
    simp only [step, kills]
    split
    · show nth false (t.living ++ [true]) i = _
      rw [nth_append_left false _ _ i hi']; simp [isLiving_eq]
    · simp
  | spawnN n ids =>
    simp only [step, kills]
    split
    · show nth false (t.living ++ List.replicate n true) i = _
      rw [nth_append_left false _ _ i hi']; simp [isLiving_eq]
    · simp
  | kill h =>
    simp only [step, kills]
    split
    · rename_i hh
      rw [kill_living]
      by_cases e : h = i
      · subst e; simp [hh]
      · have : (h == i) = false := by simp [e]
        simp [e, this]
    · simp
  | killN l =>
    simp only [step, kills]
    split
    · have hne : (Out.ok != Out.badOp) = true := by decide
      rw [foldl_kill_living l t i hi]; simp [hne]
    · simp
  | write h c v =>
    simp only [step, kills]
    split
    · split <;> simp [St.setData, St.isLiving]
    · simp
  | rwrite h c v =>
    simp only [step, kills]
    split
    · split <;> simp [St.setData, St.isLiving]
    · simp
  | reg => simp [step, kills, St.isLiving]
  | rereg k => simp only [step, kills]; split <;> simp
  | alive h => simp only [step, kills]; split <;> simp
  | read h c => simp only [step, kills]; split <;> simp
  | rread h c => simp only [step, kills]; split <;> simp
  | query f => simp [step, kills]
  | qiter c f => simp only [step, kills]; split <;> simp
  | alive0 => simp [step, kills]
  | kill0 => simp [step, kills]

/-- a name that is dead stays dead -/
theorem step_dead (t : St) (op : Op) (i : Nat) (hi : i < t.n) (hd : t.isLiving i = false) :
    (step t op).1.isLiving i = false := by
  rw [step_living t op i hi, hd]; rfl

theorem exec_dead (ops : List Op) : ∀ (t : St) (i : Nat), i < t.n → t.isLiving i = false →
    i < (exec t ops).n ∧ (exec t ops).isLiving i = false := by
  induction ops with
  | nil => intro t i hi hd; exact ⟨hi, hd⟩
  | cons op ops ih =>
    intro t i hi hd
    exact ih (step t op).1 i (Nat.lt_of_lt_of_le hi (step_n_mono t op)) (step_dead t op i hi hd)

/-- a freshly spawned entity is living -/
theorem spawn_living (t : St) (ids : List Nat) (h : validIds t.ncomp ids = true) :
    (step t (.spawn ids)).1.n = t.n + 1 ∧ (step t (.spawn ids)).1.isLiving t.n = true := by
  simp only [step, h, if_true]
  refine ⟨by simp [St.n], ?_⟩
  show nth false (t.living ++ [true]) t.living.length = true
  rw [nth_append_len]

end MV.Lemmas.ECSSpec
