import MV.Spec.ECS
import MV.Lemmas.ECSList
/-!
# Facts about the abstract ECS specification itself (C14): liveness is monotone
-/
namespace MV.Lemmas.ECSSpec
open MV.Model.ECS (Op Out Filter validIds)
open MV.Spec.ECS MV.Lemmas.ECSList

theorem isLiving_eq (t : St) (i : Nat) : t.isLiving i = nth false t.living i := rfl

theorem kill_n (t : St) (h : Nat) : (t.kill h).n = t.n := by simp [St.kill, St.n]

theorem kill_living (t : St) (h i : Nat) :
    (t.kill h).isLiving i = if h = i ∧ h < t.n then false else t.isLiving i := by
  show nth false (t.living.set h false) i = _
  rw [nth_set]; rfl

theorem foldl_kill_n (l : List Nat) : ∀ t : St, (l.foldl St.kill t).n = t.n := by
  induction l with
  | nil => intro t; rfl
  | cons h l ih => intro t; rw [List.foldl_cons, ih, kill_n]

/-- after annihilating the names `l`, a name is living iff it was living and is not in `l` -/
theorem foldl_kill_living (l : List Nat) : ∀ (t : St) (i : Nat), i < t.n →
    (l.foldl St.kill t).isLiving i = (t.isLiving i && !l.contains i) := by
  induction l with
  | nil => intro t i _; simp
  | cons h l ih =>
    intro t i hi
    rw [List.foldl_cons, ih (t.kill h) i (by rw [kill_n]; exact hi), kill_living]
    by_cases e : h = i
    · subst e; simp [hi]
    · have e' : ¬ i = h := fun x => e x.symm
      simp [e, e']

/-- the names an operation annihilates -/
def kills : Op → Nat → Bool
  | .kill h, i => h == i
  | .killN l, i => l.contains i
  | _, _ => false

/-- the number of names only grows -/
theorem step_n_mono (t : St) (op : Op) : t.n ≤ (step t op).1.n := by
  cases op with
  | spawn ids => simp only [step]; split <;> simp [St.n]
  | spawnN n ids => simp only [step]; split <;> simp [St.n]
  | kill h => simp only [step]; split <;> simp [kill_n]
  | killN l => simp only [step]; split <;> simp [foldl_kill_n]
  | write h c v => simp only [step]; split <;> (try split) <;> simp [St.n, St.setData]
  | rwrite h c v => simp only [step]; split <;> (try split) <;> simp [St.n, St.setData]
  | reg => simp [step, St.n]
  | rereg k => simp only [step]; split <;> simp
  | alive h => simp only [step]; split <;> simp
  | read h c => simp only [step]; split <;> simp
  | rread h c => simp only [step]; split <;> simp
  | query f => simp [step]
  | qiter c f => simp only [step]; split <;> simp
  | alive0 => simp [step]
  | kill0 => simp [step]

/-- **liveness changes only by annihilation**: an existing name is living after an operation iff it
was living before and the operation did not annihilate it -/
theorem step_living (t : St) (op : Op) (i : Nat) (hi : i < t.n) :
    (step t op).1.isLiving i = (t.isLiving i && !(kills op i && (step t op).2 != .badOp)) := by
  have hi' : i < t.living.length := hi
  cases op with
  | spawn ids =>
    simp only [step, kills]
    split
    · show nth false (t.living ++ [true]) i = _
      rw [nth_append_left false _ _ i hi']; simp [isLiving_eq]
    · simp
  | spawnN n ids =>
    simp only [step, kills]
    split
    · show nth false (t.living ++ List.replicate n true) i = _
      rw [nth_append_left false _ _ i hi']; simp [isLiving_eq]
    · simp
  | kill h =>
    simp only [step, kills]
    split
    · rename_i hh
      rw [kill_living]
      by_cases e : h = i
      · subst e; simp [hh]
      · have : (h == i) = false := by simp [e]
        simp [e, this]
    · simp
  | killN l =>
    simp only [step, kills]
    split
    · have hne : (Out.ok != Out.badOp) = true := by decide
      rw [foldl_kill_living l t i hi]; simp [hne]
    · simp
  | write h c v =>
    simp only [step, kills]
    split
    · split <;> simp [St.setData, St.isLiving]
    · simp
  | rwrite h c v =>
    simp only [step, kills]
    split
    · split <;> simp [St.setData, St.isLiving]
    · simp
  | reg => simp [step, kills, St.isLiving]
  | rereg k => simp only [step, kills]; split <;> simp
  | alive h => simp only [step, kills]; split <;> simp
  | read h c => simp only [step, kills]; split <;> simp
  | rread h c => simp only [step, kills]; split <;> simp
  | query f => simp [step, kills]
  | qiter c f => simp only [step, kills]; split <;> simp
  | alive0 => simp [step, kills]
  | kill0 => simp [step, kills]

/-- a name that is dead stays dead -/
theorem step_dead (t : St) (op : Op) (i : Nat) (hi : i < t.n) (hd : t.isLiving i = false) :
    (step t op).1.isLiving i = false := by
  rw [step_living t op i hi, hd]; rfl

theorem exec_dead (ops : List Op) : ∀ (t : St) (i : Nat), i < t.n → t.isLiving i = false →
    i < (exec t ops).n ∧ (exec t ops).isLiving i = false := by
  induction ops with
  | nil => intro t i hi hd; exact ⟨hi, hd⟩
  | cons op ops ih =>
    intro t i hi hd
    exact ih (step t op).1 i (Nat.lt_of_lt_of_le hi (step_n_mono t op)) (step_dead t op i hi hd)

/-- a freshly spawned entity is living -/
theorem spawn_living (t : St) (ids : List Nat) (h : validIds t.ncomp ids = true) :
    (step t (.spawn ids)).1.n = t.n + 1 ∧ (step t (.spawn ids)).1.isLiving t.n = true := by
  simp only [step, h, if_true]
  refine ⟨by simp [St.n], ?_⟩
  show nth false (t.living ++ [true]) t.living.length = true
  rw [nth_append_len]


theorem compsOf_eq (t : St) (i : Nat) : t.compsOf i = nth [] t.comps i := rfl

/-- the component ids of an existing name never change -/
theorem step_compsOf (t : St) (op : Op) (i : Nat) (hc : t.comps.length = t.living.length) (hi : i < t.n) :
    (step t op).1.compsOf i = t.compsOf i := by
  have hi' : i < t.comps.length := by rw [hc]; exact hi
  have hfold : ∀ (l : List Nat) (t : St), (l.foldl St.kill t).comps = t.comps := by
    intro l
    induction l with
    | nil => intro t; rfl
    | cons h l ih => intro t; rw [List.foldl_cons, ih]; rfl
  cases op with
  | spawn ids =>
    simp only [step]; split
    · show nth [] (t.comps ++ [ids]) i = _
      rw [nth_append_left [] _ _ i hi']; rfl
    · rfl
  | spawnN n ids =>
    simp only [step]; split
    · show nth [] (t.comps ++ List.replicate n ids) i = _
      rw [nth_append_left [] _ _ i hi']; rfl
    · rfl
  | kill h => simp only [step]; split <;> rfl
  | killN l =>
    simp only [step]; split
    · show nth [] (l.foldl St.kill t).comps i = _
      rw [hfold]; rfl
    · rfl
  | write h c v => simp only [step]; split <;> (try split) <;> rfl
  | rwrite h c v => simp only [step]; split <;> (try split) <;> rfl
  | reg => rfl
  | rereg k => simp only [step]; split <;> rfl
  | alive h => simp only [step]; split <;> rfl
  | read h c => simp only [step]; split <;> rfl
  | rread h c => simp only [step]; split <;> rfl
  | query f => rfl
  | qiter c f => simp only [step]; split <;> rfl
  | alive0 => rfl
  | kill0 => rfl

/-- the operations that write the cell `(i, c)` -/
def writes : Op → Nat → Nat → Bool
  | .write h c' _, i, c => h == i && c' == c
  | .rwrite h c' _, i, c => h == i && c' == c
  | _, _, _ => false

/-- a component value changes only by a write to exactly that `(entity, component)` -/
theorem step_data (t : St) (op : Op) (i c : Nat) (hw : writes op i c = false) :
    (step t op).1.data i c = t.data i c := by
  have hfold : ∀ (l : List Nat) (t : St), (l.foldl St.kill t).data = t.data := by
    intro l
    induction l with
    | nil => intro t; rfl
    | cons h l ih => intro t; rw [List.foldl_cons, ih]; rfl
  cases op with
  | write h c' v =>
    simp only [writes, Bool.and_eq_false_iff, beq_eq_false_iff_ne] at hw
    simp only [step]; split
    · split
      · show (if i = h ∧ c = c' then v else t.data i c) = _
        have : ¬ (i = h ∧ c = c') := by
          intro ⟨a, b⟩; rcases hw with hw | hw
          · exact hw a.symm
          · exact hw b.symm
        simp [this]
      · rfl
    · rfl
  | rwrite h c' v =>
    simp only [writes, Bool.and_eq_false_iff, beq_eq_false_iff_ne] at hw
    simp only [step]; split
    · split
      · show (if i = h ∧ c = c' then v else t.data i c) = _
        have : ¬ (i = h ∧ c = c') := by
          intro ⟨a, b⟩; rcases hw with hw | hw
          · exact hw a.symm
          · exact hw b.symm
        simp [this]
      · rfl
    · rfl
  | spawn ids => simp only [step]; split <;> rfl
  | spawnN n ids => simp only [step]; split <;> rfl
  | kill h => simp only [step]; split <;> rfl
  | killN l =>
    simp only [step]; split
    · show (l.foldl St.kill t).data i c = _
      rw [hfold]
    · rfl
  | reg => rfl
  | rereg k => simp only [step]; split <;> rfl
  | alive h => simp only [step]; split <;> rfl
  | read h c => simp only [step]; split <;> rfl
  | rread h c => simp only [step]; split <;> rfl
  | query f => rfl
  | qiter c f => simp only [step]; split <;> rfl
  | alive0 => rfl
  | kill0 => rfl

theorem read_out (t : St) (i c : Nat) (hi : i < t.n) :
    (step t (.read i c)).2 = if t.isLiving i && has (t.compsOf i) c then .val (t.data i c) else .nil := by
  simp only [step, hi, if_true]

/-- the answer to `read i c` is unchanged by any operation that neither writes `(i, c)` nor
annihilates `i` -/
theorem step_read (t : St) (op : Op) (i c : Nat) (hc : t.comps.length = t.living.length) (hi : i < t.n)
    (hw : writes op i c = false) (hk : kills op i = false) :
    (step (step t op).1 (.read i c)).2 = (step t (.read i c)).2 := by
  have h1 := step_living t op i hi
  rw [hk] at h1
  simp only [Bool.false_and, Bool.not_false, Bool.and_true] at h1
  have h2 := step_compsOf t op i hc hi
  have h3 := step_data t op i c hw
  have h4 : i < (step t op).1.n := Nat.lt_of_lt_of_le hi (step_n_mono t op)
  rw [read_out _ i c h4, read_out t i c hi, h1, h2, h3]

end MV.Lemmas.ECSSpec
