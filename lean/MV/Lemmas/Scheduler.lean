import MV.Model.Scheduler
/-!
# Lemmas about `MV.Model.Scheduler`: the per-task counting invariant and the global invariant

Core Lean only.
-/
namespace MV.Model.Scheduler

@[simp] theorem upd_same {α : Type} (f : Nat → α) (k : Nat) (v : α) : upd f k v k = v := by simp [upd]
theorem upd_other {α : Type} (f : Nat → α) (k : Nat) (v : α) (i : Nat) (h : i ≠ k) : upd f k v i = f i := by
  simp [upd, h]

/-! ## pure facts about one task object -/

/-- `f` callbacks so far; the invariant tying `trigger`, the timer and the number of callbacks -/
def TaskOKp (t : Task) (f : Nat) : Prop :=
  t.cron = none →
    (0 < t.total → (t.trigger : Int) ≤ t.total) ∧
    (t.kill = true → f ≤ t.trigger) ∧
    (t.kill = false →
       (∃ e, (t.timer = .pending e ∨ t.timer = .inflight e) ∧ f + 1 = t.trigger ∧
             e = t.base + t.after + (t.trigger - 1) * t.interval)
       ∨ (t.timer = .idle ∧ 0 < t.total ∧ (t.trigger : Int) = t.total ∧ f = t.trigger))

theorem Task.stop_fields (t : Task) :
    t.stop.name = t.name ∧ t.stop.after = t.after ∧ t.stop.interval = t.interval ∧ t.stop.total = t.total ∧
    t.stop.cron = t.cron ∧ t.stop.base = t.base ∧ t.stop.kill = t.kill ∧ t.stop.trigger = t.trigger := by
  unfold Task.stop; split <;> simp

theorem Task.close_fields (t : Task) :
    t.close.name = t.name ∧ t.close.after = t.after ∧ t.close.interval = t.interval ∧ t.close.total = t.total ∧
    t.close.cron = t.cron ∧ t.close.base = t.base ∧ t.close.trigger = t.trigger := by
  unfold Task.close; split
  · simp
  · split
    · have := Task.stop_fields { t with kill := true }
      simp_all
    · simp

theorem Task.close_kill (t : Task) : t.close.kill = true := by
  unfold Task.close; split
  · simp_all
  · split
    · rw [(Task.stop_fields _).2.2.2.2.2.2.1]
    · rfl

theorem Task.close_of_kill (t : Task) (h : t.kill = true) : t.close = t := by
  unfold Task.close; simp [h]

theorem TaskOKp_close (t : Task) (f : Nat) (h : TaskOKp t f) : TaskOKp t.close f := by
  obtain ⟨_, _, _, htot, hcr, _, htr⟩ := Task.close_fields t
  intro hc
  rw [hcr] at hc
  obtain ⟨h1, h2, h3⟩ := h hc
  refine ⟨?_, ?_, ?_⟩
  · rw [htr, htot]; exact h1
  · intro _
    rw [htr]
    cases hk : t.kill
    · rcases h3 hk with ⟨e, _, he, _⟩ | ⟨_, _, _, he⟩ <;> omega
    · exact h2 hk
  · intro hk; rw [Task.close_kill] at hk; cases hk

theorem Task.bump_fields (t : Task) :
    t.bump.name = t.name ∧ t.bump.after = t.after ∧ t.bump.interval = t.interval ∧ t.bump.total = t.total ∧
    t.bump.cron = t.cron ∧ t.bump.base = t.base ∧ t.bump.kill = t.kill ∧ t.bump.timer = t.timer := by
  unfold Task.bump; split
  · simp
  · split <;> simp

theorem Task.fire_fields (t : Task) (e : Nat) :
    (t.fire e).name = t.name ∧ (t.fire e).after = t.after ∧ (t.fire e).interval = t.interval ∧
    (t.fire e).total = t.total ∧ (t.fire e).cron = t.cron ∧ (t.fire e).base = t.base ∧
    (t.fire e).kill = t.kill := by
  have := Task.bump_fields t
  unfold Task.fire; split <;> simp_all

theorem Task.schedule_fields (t : Task) (now : Nat) :
    (t.schedule now).name = t.name ∧ (t.schedule now).after = t.after ∧ (t.schedule now).interval = t.interval ∧
    (t.schedule now).total = t.total ∧ (t.schedule now).cron = t.cron ∧ (t.schedule now).base = t.base ∧
    (t.schedule now).kill = t.kill := by
  have := Task.bump_fields t
  unfold Task.schedule; split <;> simp_all

/-- a killed task that runs: nothing is rescheduled (non-cron) -/
theorem Task.fire_of_kill (t : Task) (e : Nat) (hc : t.cron = none) (hk : t.kill = true) :
    t.fire e = { t with timer := .idle } := by
  unfold Task.fire Task.next Task.bump Task.finished
  simp [hc, hk]

/-- the run of a live task: either the last one, or the next one is scheduled one interval later -/
theorem Task.fire_of_live (t : Task) (e : Nat) (hc : t.cron = none) (hk : t.kill = false) (ht : 0 < t.trigger) :
    (0 < t.total ∧ t.total ≤ (t.trigger : Int) ∧ t.fire e = { t with timer := .idle }) ∨
    (¬ (0 < t.total ∧ t.total ≤ (t.trigger : Int)) ∧
      t.fire e = { t with trigger := t.trigger + 1, timer := .pending (e + t.interval) }) := by
  unfold Task.fire Task.next Task.bump Task.finished
  by_cases h : 0 < t.total ∧ t.total ≤ (t.trigger : Int)
  · left; simp [hc, hk, h]
  · right
    have ht' : t.trigger ≠ 0 := by omega
    refine ⟨h, ?_⟩
    have h' : ¬ (0 < t.total ∧ t.total ≤ (t.trigger : Int)) := h
    simp only [hc, hk, Bool.false_or, Bool.and_eq_true, decide_eq_true_eq, h', if_false, ht']

theorem TaskOKp_fire (t : Task) (f e : Nat) (h : TaskOKp t f) (hc : t.cron = none)
    (hin : t.timer = .inflight e) :
    TaskOKp (t.fire e) (if t.kill then f else f + 1) := by
  obtain ⟨h1, h2, h3⟩ := h hc
  cases hk : t.kill
  · -- live
    have hact := h3 hk
    rcases hact with ⟨e', hte, hf, he⟩ | ⟨hidle, _⟩
    · have hee : e' = e := by
        rcases hte with h | h <;> rw [hin] at h <;> cases h; rfl
      subst hee
      have ht : 0 < t.trigger := by omega
      rcases Task.fire_of_live t e' hc hk ht with ⟨hp, hle, heq⟩ | ⟨hn, heq⟩
      · rw [heq]; intro _
        refine ⟨h1, by simp [hk], fun _ => Or.inr ⟨rfl, hp, ?_, ?_⟩⟩
        · have := h1 hp; simp only; omega
        · simp only [Bool.false_eq_true, if_false]; omega
      · rw [heq]; intro _
        refine ⟨?_, by simp [hk], fun _ => Or.inl ⟨e' + t.interval, Or.inl rfl, ?_, ?_⟩⟩
        · intro hp; simp only at hp ⊢
          have := h1 hp
          have : ¬ t.total ≤ (t.trigger : Int) := fun hh => hn ⟨hp, hh⟩
          omega
        · simp only [Bool.false_eq_true, if_false]; omega
        · simp only
          obtain ⟨k, hk'⟩ : ∃ k, t.trigger = k + 1 := ⟨t.trigger - 1, by omega⟩
          rw [he, hk']
          simp only [Nat.add_sub_cancel, Nat.add_mul, Nat.one_mul]
          omega
    · rw [hin] at hidle; cases hidle
  · rw [Task.fire_of_kill t e hc hk]; intro _
    simp only [if_true]
    exact ⟨h1, fun _ => h2 hk, fun hk' => by simp [hk] at hk'⟩

/-! ## the global invariant -/

theorem TaskOKp_schedule (name a iv : Nat) (total : Int) (now : Nat) :
    TaskOKp ((Task.fresh name a iv total none now).schedule now) 0 := by
  intro _
  unfold Task.schedule Task.next Task.bump Task.finished Task.fresh
  by_cases h : 0 < total
  · have h2 : ¬ total ≤ 0 := by omega
    simp [h, h2]; omega
  · simp [h]

theorem Task.stop_inflight (t : Task) (e : Nat) (h : t.stop.timer = .inflight e) : t.timer = .inflight e := by
  unfold Task.stop at h; split at h
  · cases h
  · exact h

theorem Task.close_inflight (t : Task) (e : Nat) (h : t.close.timer = .inflight e) : t.timer = .inflight e := by
  unfold Task.close at h; split at h
  · exact h
  · split at h
    · exact Task.stop_inflight { t with kill := true } e h
    · exact h

structure Inv (s : Sched) : Prop where
  tick_pos : 0 < s.tick
  ok : ∀ i, i < s.nobjs → TaskOKp (s.objs i) (fired s i)
  tbl : ∀ n i, s.table n = some i → i < s.nobjs ∧ (s.objs i).name = n ∧ (s.objs i).kill = false
  live : ∀ i, i < s.nobjs → (s.objs i).kill = false → s.table (s.objs i).name = some i
  logid : ∀ f ∈ s.log, f.id < s.nobjs
  logt : ∀ f ∈ s.log, f.exp ≤ f.time ∧ f.time ≤ s.now ∧
    ((s.objs f.id).cron = none →
      ∃ k, f.exp = (s.objs f.id).base + (s.objs f.id).after + k * (s.objs f.id).interval)
  stop : s.stopped = true → ∀ i, i < s.nobjs → (s.objs i).kill = false → ∀ e, (s.objs i).timer ≠ .inflight e
  clamped : ∀ i, i < s.nobjs → (s.objs i).cron = none → s.tick ≤ (s.objs i).after ∧ s.tick ≤ (s.objs i).interval
  closed_empty : s.stopped = true → ∀ n, s.table n = none

theorem Inv_init (tick : Nat) (h : 0 < tick) : Inv (init tick) := by
  refine ⟨h, ?_, ?_, ?_, ?_, ?_, ?_, ?_, ?_⟩ <;> simp [init]

theorem fired_same_log (s s' : Sched) (h : s'.log = s.log) (i : Nat) : fired s' i = fired s i := by
  simp [fired, h]

theorem Inv_unregister (s : Sched) (n : Nat) (h : Inv s) : Inv (unregister s n) := by
  unfold unregister
  split
  · rename_i i hi
    obtain ⟨hlt, hname, hkill⟩ := h.tbl n i hi
    have hcf := Task.close_fields (s.objs i)
    refine ⟨h.tick_pos, ?_, ?_, ?_, h.logid, ?_, ?_, ?_, ?_⟩
    · intro j hj
      show TaskOKp (upd s.objs i (s.objs i).close j) (fired s j)
      by_cases hji : j = i
      · subst hji; rw [upd_same]; exact TaskOKp_close _ _ (h.ok j hj)
      · rw [upd_other _ _ _ _ hji]; exact h.ok j hj
    · intro n' i' hn'
      simp only [upd] at hn'
      split at hn'
      · cases hn'
      · rename_i hne
        obtain ⟨a, b, c⟩ := h.tbl n' i' hn'
        have : i' ≠ i := by intro heq; subst heq; exact hne (b.symm.trans hname)
        simp only [upd_other _ _ _ _ this]
        exact ⟨a, b, c⟩
    · intro j hj hk
      simp only at hj hk ⊢
      by_cases hji : j = i
      · subst hji; rw [upd_same, Task.close_kill] at hk; cases hk
      · rw [upd_other _ _ _ _ hji] at hk ⊢
        have := h.live j hj hk
        simp only [upd]
        split
        · rename_i heq; rw [heq, hi] at this; cases this; exact absurd rfl hji
        · exact this
    · intro f hf
      obtain ⟨a, b, c⟩ := h.logt f hf
      refine ⟨a, b, ?_⟩
      simp only
      by_cases hfi : f.id = i
      · rw [hfi, upd_same, hcf.2.2.2.2.1, hcf.2.2.2.2.2.1, hcf.2.1, hcf.2.2.1]; rw [hfi] at c; exact c
      · rw [upd_other _ _ _ _ hfi]; exact c
    · intro hs j hj hk e
      simp only at hs hj hk ⊢
      by_cases hji : j = i
      · subst hji; rw [upd_same, Task.close_kill] at hk; cases hk
      · rw [upd_other _ _ _ _ hji] at hk ⊢; exact h.stop hs j hj hk e
    · intro j hj hc
      simp only at hj hc ⊢
      by_cases hji : j = i
      · subst hji; rw [upd_same] at hc ⊢
        rw [hcf.2.2.2.2.1] at hc; rw [hcf.2.1, hcf.2.2.1]; exact h.clamped j hj hc
      · rw [upd_other _ _ _ _ hji] at hc ⊢; exact h.clamped j hj hc
    · intro hs n'
      simp only [upd]
      split
      · rfl
      · exact h.closed_empty hs n'
  · exact h

theorem unregister_frame (s : Sched) (n : Nat) :
    (unregister s n).tick = s.tick ∧ (unregister s n).now = s.now ∧ (unregister s n).nobjs = s.nobjs ∧
    (unregister s n).log = s.log ∧ (unregister s n).stopped = s.stopped ∧ (unregister s n).table n = none := by
  unfold unregister; split
  · simp
  · rename_i h; simp [h]

theorem Task.schedule_not_inflight (t : Task) (now e : Nat) (h : t.timer = .unset) :
    (t.schedule now).timer ≠ .inflight e := by
  have := Task.bump_fields t
  unfold Task.schedule; split
  · simp
  · rw [this.2.2.2.2.2.2.2, h]; simp

theorem fired_lt (s : Sched) (h : ∀ f ∈ s.log, f.id < s.nobjs) (i : Nat) (hi : s.nobjs ≤ i) : fired s i = 0 := by
  unfold fired
  rw [List.countP_eq_zero]
  intro f hf
  have := h f hf
  simp; omega

theorem Inv_addTask (s1 : Sched) (n : Nat) (t' : Task) (h1 : Inv s1) (ftab : s1.table n = none)
    (hname : t'.name = n) (hkill : t'.kill = false) (hnin : ∀ e, t'.timer ≠ .inflight e)
    (hok : TaskOKp t' 0) (hcl : t'.cron = none → s1.tick ≤ t'.after ∧ s1.tick ≤ t'.interval)
    (hlive : s1.stopped = false) :
    Inv (addTask s1 n t') := by
  unfold addTask
  refine ⟨h1.tick_pos, ?_, ?_, ?_, ?_, ?_, ?_, ?_, ?_⟩
  · intro j hj
    have : fired { s1 with objs := upd s1.objs s1.nobjs t', nobjs := s1.nobjs + 1, table := upd s1.table n (some s1.nobjs) } j = fired s1 j := rfl
    rw [this]
    simp only at hj ⊢
    by_cases hjn : j = s1.nobjs
    · subst hjn
      rw [upd_same, fired_lt s1 h1.logid _ (Nat.le_refl _)]; exact hok
    · rw [upd_other _ _ _ _ hjn]; exact h1.ok j (by omega)
  · intro n' i' hn'
    simp only [upd] at hn' ⊢
    split at hn'
    · rename_i heq; cases hn'; subst heq; simp [hname, hkill]
    · obtain ⟨x, y, z⟩ := h1.tbl n' i' hn'
      have : i' ≠ s1.nobjs := by omega
      simp [this]; exact ⟨by omega, y, z⟩
  · intro j hj hk
    simp only at hj hk ⊢
    by_cases hjn : j = s1.nobjs
    · subst hjn; rw [upd_same, hname]; simp [upd]
    · rw [upd_other _ _ _ _ hjn] at hk ⊢
      have hl := h1.live j (by omega) hk
      simp only [upd]
      split
      · rename_i heq; rw [heq, ftab] at hl; cases hl
      · exact hl
  · intro f hf; have := h1.logid f hf; simp only; omega
  · intro f hf
    obtain ⟨x, y, z⟩ := h1.logt f hf
    have hne : f.id ≠ s1.nobjs := by have := h1.logid f hf; omega
    simp only [upd_other _ _ _ _ hne]
    exact ⟨x, y, z⟩
  · intro hs j hj hk e
    simp only at hs hj hk ⊢
    by_cases hjn : j = s1.nobjs
    · subst hjn; rw [upd_same]; exact hnin e
    · rw [upd_other _ _ _ _ hjn] at hk ⊢; exact h1.stop hs j (by omega) hk e
  · intro j hj hc
    simp only at hj hc ⊢
    by_cases hjn : j = s1.nobjs
    · subst hjn; rw [upd_same] at hc ⊢; exact hcl hc
    · rw [upd_other _ _ _ _ hjn] at hc ⊢; exact h1.clamped j (by omega) hc
  · intro hs; simp only at hs; rw [hlive] at hs; cases hs

theorem clampMs_ge (tick : Nat) (d : Int) : tick ≤ clampMs tick d := by
  unfold clampMs; split
  · exact Nat.le_refl _
  · omega

theorem Inv_registerLive (s : Sched) (n : Nat) (a iv : Int) (cron : Option Nat) (times : Int) (h : Inv s)
    (hlive : s.stopped = false) : Inv (registerLive s n a iv cron times) := by
  have h1 := Inv_unregister s n h
  obtain ⟨ftick, fnow, fn, flog, fstop, ftab⟩ := unregister_frame s n
  unfold registerLive
  simp only
  have hfields := Task.schedule_fields
    (Task.fresh n (durMs s.tick cron a) (durMs s.tick cron iv) times cron s.now) (unregister s n).now
  apply Inv_addTask _ _ _ h1 ftab hfields.1 hfields.2.2.2.2.2.2
  · intro e; exact Task.schedule_not_inflight _ _ _ rfl
  · cases cron with
    | none => rw [fnow]; exact TaskOKp_schedule n _ _ times s.now
    | some p => intro hc; rw [hfields.2.2.2.2.1] at hc; cases hc
  · intro hc
    rw [hfields.2.2.2.2.1] at hc
    rw [hfields.2.1, hfields.2.2.1, ftick]
    have hc' : cron = none := hc
    subst hc'
    exact ⟨clampMs_ge _ _, clampMs_ge _ _⟩
  · rw [fstop]; exact hlive

theorem Inv_register (s : Sched) (n : Nat) (a iv : Int) (cron : Option Nat) (times : Int) (h : Inv s) :
    Inv (register s n a iv cron times) := by
  unfold register
  cases hs : s.stopped
  · simpa using Inv_registerLive s n a iv cron times h hs
  · simpa using h

theorem clear_all_killed (s : Sched) (h : Inv s) (j : Nat) (hj : j < s.nobjs) :
    ((clear s).objs j).kill = true := by
  unfold clear; simp only
  split
  · exact Task.close_kill _
  · rename_i hnt
    cases hk : (s.objs j).kill
    · have := h.live j hj hk
      simp [inTable, hj, this] at hnt
    · rfl

theorem Inv_clear (s : Sched) (h : Inv s) : Inv (clear s) := by
  have hk := clear_all_killed s h
  refine ⟨h.tick_pos, ?_, ?_, ?_, h.logid, ?_, ?_, ?_, fun _ _ => rfl⟩
  · intro j hj
    have : fired (clear s) j = fired s j := rfl
    rw [this]
    unfold clear; simp only
    split
    · exact TaskOKp_close _ _ (h.ok j hj)
    · exact h.ok j hj
  · intro n i hn; simp [clear] at hn
  · intro j hj hkj; rw [hk j hj] at hkj; cases hkj
  · intro f hf
    obtain ⟨a, b, c⟩ := h.logt f hf
    refine ⟨a, b, ?_⟩
    unfold clear; simp only
    split
    · have hcf := Task.close_fields (s.objs f.id)
      rw [hcf.2.2.2.2.1, hcf.2.2.2.2.2.1, hcf.2.1, hcf.2.2.1]; exact c
    · exact c
  · intro _ j hj hkj; rw [hk j hj] at hkj; cases hkj
  · intro j hj hc
    unfold clear at hc ⊢; simp only at hj hc ⊢
    split at hc
    · rename_i hit; simp only [hit, if_true]
      have hcf := Task.close_fields (s.objs j)
      rw [hcf.2.2.2.2.1] at hc; rw [hcf.2.1, hcf.2.2.1]; exact h.clamped j hj hc
    · rename_i hit; simp only [hit]; exact h.clamped j hj hc

theorem Inv_close (s : Sched) (h : Inv s) : Inv (close s).1 := by
  have hc := Inv_clear s h
  have hk := clear_all_killed s h
  unfold close; simp only
  split
  · exact hc
  · exact ⟨hc.tick_pos, hc.ok, hc.tbl, hc.live, hc.logid, hc.logt,
      fun _ j hj hkj => (by rw [hk j hj] at hkj; cases hkj), hc.clamped, fun _ _ => rfl⟩

theorem Inv_advance (s : Sched) (dt : Nat) (h : Inv s) : Inv (advance s dt) := by
  unfold advance
  refine ⟨h.tick_pos, h.ok, h.tbl, h.live, h.logid, ?_, h.stop, h.clamped, h.closed_empty⟩
  · intro f hf; obtain ⟨a, b, c⟩ := h.logt f hf; exact ⟨a, by simp only; omega, c⟩

theorem Inv_expire (s : Sched) (i : Nat) (h : Inv s) : Inv (expire s i) := by
  unfold expire
  split
  · exact h
  · rename_i hns
    split
    · rename_i e hp
      split
      · rename_i hi
        simp only
        refine ⟨h.tick_pos, ?_, ?_, ?_, h.logid, ?_, ?_, ?_, h.closed_empty⟩
        · intro j hj
          have : fired { s with objs := upd s.objs i { s.objs i with timer := .inflight e } } j = fired s j := rfl
          rw [this]; simp only
          by_cases hji : j = i
          · subst hji; rw [upd_same]
            intro hc
            obtain ⟨h1, h2, h3⟩ := h.ok j hj hc
            refine ⟨h1, h2, fun hk => ?_⟩
            rcases h3 hk with ⟨e', hte, hf, he⟩ | ⟨hidle, _⟩
            · left; refine ⟨e', Or.inr ?_, hf, he⟩
              rcases hte with hte | hte <;> rw [hp] at hte <;> cases hte; rfl
            · rw [hp] at hidle; cases hidle
          · rw [upd_other _ _ _ _ hji]; exact h.ok j hj
        · intro n' i' hn'
          obtain ⟨a, b, c⟩ := h.tbl n' i' hn'
          simp only
          by_cases hji : i' = i
          · subst hji; rw [upd_same]; exact ⟨a, b, c⟩
          · rw [upd_other _ _ _ _ hji]; exact ⟨a, b, c⟩
        · intro j hj hk
          simp only at hj hk ⊢
          by_cases hji : j = i
          · subst hji; rw [upd_same] at hk ⊢; exact h.live j hj hk
          · rw [upd_other _ _ _ _ hji] at hk ⊢; exact h.live j hj hk
        · intro f hf
          obtain ⟨a, b, c⟩ := h.logt f hf
          refine ⟨a, b, ?_⟩
          simp only
          by_cases hji : f.id = i
          · rw [hji, upd_same]; rw [hji] at c; exact c
          · rw [upd_other _ _ _ _ hji]; exact c
        · intro hs; simp only at hs; rw [hs] at hns; exact absurd rfl hns
        · intro j hj hc
          simp only at hj hc ⊢
          by_cases hji : j = i
          · subst hji; rw [upd_same] at hc ⊢; exact h.clamped j hj hc
          · rw [upd_other _ _ _ _ hji] at hc ⊢; exact h.clamped j hj hc
      · exact h
    · exact h

/-- the state after `function.Call` of task `i` -/
def logged (s : Sched) (i e : Nat) : Sched := { s with log := { id := i, exp := e, time := s.now } :: s.log }

theorem unregister_logged (s : Sched) (n i e : Nat) :
    { unregister s n with log := { id := i, exp := e, time := s.now } :: (unregister s n).log }
      = unregister (logged s i e) n := by
  unfold unregister logged; simp only
  split <;> rfl

theorem caller_eq (s : Sched) (i e : Nat) :
    caller s i e =
      if (s.objs i).kill then s
      else if (s.objs i).total > 0 ∧ (s.objs i).total < ((s.objs i).trigger : Int) then
        unregister (logged s i e) (s.objs i).name
      else logged s i e := by
  unfold caller; simp only
  split
  · rfl
  · split
    · rw [← unregister_logged]
    · rfl

theorem fired_logged (s : Sched) (i e j : Nat) : fired (logged s i e) j = fired s j + (if j = i then 1 else 0) := by
  unfold fired logged
  simp only [List.countP_cons]
  by_cases h : j = i
  · subst h; simp
  · have : ¬ i = j := fun hh => h hh.symm
    simp [h, this]

/-- the state in the middle of `t.task()`: `Next` has been asked, the timer re-added -/
def fireAt (s : Sched) (i e : Nat) : Sched := { s with objs := upd s.objs i ((s.objs i).fire e) }

theorem Task.fire_timer (t : Task) (e : Nat) : (∃ e', (t.fire e).timer = .pending e') ∨ (t.fire e).timer = .idle := by
  unfold Task.fire; split
  · left; exact ⟨_, rfl⟩
  · right; rfl

theorem Inv_fired (s : Sched) (i e : Nat) (h : Inv s) (hi : i < s.nobjs) (hin : (s.objs i).timer = .inflight e)
    (hle : e ≤ s.now) :
    Inv (if (s.objs i).kill then fireAt s i e else logged (fireAt s i e) i e) := by
  have hff := Task.fire_fields (s.objs i) e
  have htm := Task.fire_timer (s.objs i) e
  have hnin : ∀ e', ((s.objs i).fire e).timer ≠ .inflight e' := by
    intro e' hh; rcases htm with ⟨x, hx⟩ | hx <;> rw [hx] at hh <;> cases hh
  -- facts shared by both branches (everything except `ok`, `logid`, `logt`)
  have htbl : ∀ n i', s.table n = some i' →
      i' < s.nobjs ∧ ((fireAt s i e).objs i').name = n ∧ ((fireAt s i e).objs i').kill = false := by
    intro n i' hn
    obtain ⟨a, b, c⟩ := h.tbl n i' hn
    unfold fireAt; simp only
    by_cases hji : i' = i
    · subst hji; rw [upd_same, hff.1, hff.2.2.2.2.2.2]; exact ⟨a, b, c⟩
    · rw [upd_other _ _ _ _ hji]; exact ⟨a, b, c⟩
  have hlive : ∀ j, j < s.nobjs → ((fireAt s i e).objs j).kill = false →
      s.table ((fireAt s i e).objs j).name = some j := by
    intro j hj hk
    unfold fireAt at hk ⊢; simp only at hk ⊢
    by_cases hji : j = i
    · subst hji; rw [upd_same] at hk ⊢; rw [hff.2.2.2.2.2.2] at hk; rw [hff.1]; exact h.live j hj hk
    · rw [upd_other _ _ _ _ hji] at hk ⊢; exact h.live j hj hk
  have hstop : s.stopped = true → ∀ j, j < s.nobjs → ((fireAt s i e).objs j).kill = false →
      ∀ e', ((fireAt s i e).objs j).timer ≠ .inflight e' := by
    intro hs j hj hk e'
    unfold fireAt at hk ⊢; simp only at hk ⊢
    by_cases hji : j = i
    · subst hji; rw [upd_same]; exact hnin e'
    · rw [upd_other _ _ _ _ hji] at hk ⊢; exact h.stop hs j hj hk e'
  have hlogt : ∀ f ∈ s.log, f.exp ≤ f.time ∧ f.time ≤ s.now ∧
      (((fireAt s i e).objs f.id).cron = none → ∃ k, f.exp = ((fireAt s i e).objs f.id).base +
        ((fireAt s i e).objs f.id).after + k * ((fireAt s i e).objs f.id).interval) := by
    intro f hf
    obtain ⟨a, b, c⟩ := h.logt f hf
    refine ⟨a, b, ?_⟩
    unfold fireAt; simp only
    by_cases hji : f.id = i
    · rw [hji, upd_same, hff.2.2.2.2.1, hff.2.2.2.2.2.1, hff.2.1, hff.2.2.1]; rw [hji] at c; exact c
    · rw [upd_other _ _ _ _ hji]; exact c
  have hclamp : ∀ j, j < s.nobjs → ((fireAt s i e).objs j).cron = none →
      s.tick ≤ ((fireAt s i e).objs j).after ∧ s.tick ≤ ((fireAt s i e).objs j).interval := by
    intro j hj hc
    unfold fireAt at hc ⊢; simp only at hc ⊢
    by_cases hji : j = i
    · subst hji; rw [upd_same] at hc ⊢
      rw [hff.2.2.2.2.1] at hc; rw [hff.2.1, hff.2.2.1]; exact h.clamped j hj hc
    · rw [upd_other _ _ _ _ hji] at hc ⊢; exact h.clamped j hj hc
  have hok : ∀ j, j < s.nobjs → j ≠ i → TaskOKp ((fireAt s i e).objs j) (fired s j) := by
    intro j hj hji
    unfold fireAt; simp only; rw [upd_other _ _ _ _ hji]; exact h.ok j hj
  have hoki : TaskOKp ((fireAt s i e).objs i) (if (s.objs i).kill then fired s i else fired s i + 1) := by
    unfold fireAt; simp only; rw [upd_same]
    cases hc : (s.objs i).cron with
    | none => exact TaskOKp_fire _ _ _ (h.ok i hi) hc hin
    | some p => intro hc'; rw [hff.2.2.2.2.1, hc] at hc'; cases hc'
  cases hk : (s.objs i).kill
  · -- live: one callback
    simp only [hk, Bool.false_eq_true, if_false] at hoki ⊢
    refine ⟨h.tick_pos, ?_, htbl, hlive, ?_, ?_, hstop, hclamp, h.closed_empty⟩
    · intro j hj
      rw [fired_logged]
      have : fired (fireAt s i e) j = fired s j := rfl
      rw [this]
      by_cases hji : j = i
      · subst hji; simpa [logged] using hoki
      · simp only [hji, if_false, Nat.add_zero]; exact hok j hj hji
    · intro f hf
      simp only [logged, List.mem_cons] at hf
      rcases hf with rfl | hf
      · exact hi
      · exact h.logid f hf
    · intro f hf
      simp only [logged, List.mem_cons] at hf
      rcases hf with rfl | hf
      · refine ⟨hle, Nat.le_refl _, ?_⟩
        intro hc
        simp only [logged, fireAt, upd_same] at hc ⊢
        rw [hff.2.2.2.2.1] at hc
        rw [hff.2.2.2.2.2.1, hff.2.1, hff.2.2.1]
        obtain ⟨_, _, h3⟩ := h.ok i hi hc
        rcases h3 hk with ⟨e', hte, _, he⟩ | ⟨hidle, _⟩
        · have : e' = e := by rcases hte with x | x <;> rw [hin] at x <;> cases x; rfl
          subst this; exact ⟨_, he⟩
        · rw [hin] at hidle; cases hidle
      · exact hlogt f hf
  · simp only [hk, if_true] at hoki ⊢
    refine ⟨h.tick_pos, ?_, htbl, hlive, h.logid, hlogt, hstop, hclamp, h.closed_empty⟩
    intro j hj
    have : fired (fireAt s i e) j = fired s j := rfl
    rw [this]
    by_cases hji : j = i
    · subst hji; exact hoki
    · exact hok j hj hji

theorem timerTask_eq (s : Sched) (i e : Nat) :
    timerTask s i e =
      if (s.objs i).kill then fireAt s i e
      else if ((s.objs i).fire e).total > 0 ∧ ((s.objs i).fire e).total < (((s.objs i).fire e).trigger : Int) then
        unregister (logged (fireAt s i e) i e) (s.objs i).name
      else logged (fireAt s i e) i e := by
  have hff := Task.fire_fields (s.objs i) e
  have h0 : timerTask s i e = caller (fireAt s i e) i e := rfl
  have h1 : (fireAt s i e).objs i = (s.objs i).fire e := by simp [fireAt]
  rw [h0, caller_eq, h1, hff.2.2.2.2.2.2, hff.1]

theorem Inv_runTimer (s : Sched) (i : Nat) (h : Inv s) : Inv (runTimer s i) := by
  unfold runTimer
  split
  · rename_i e hin
    split
    · rename_i hc
      obtain ⟨hi, hle⟩ := hc
      have hf := Inv_fired s i e h hi hin hle
      rw [timerTask_eq]
      cases hk : (s.objs i).kill
      · simp only [hk, Bool.false_eq_true, if_false] at hf ⊢
        split
        · exact Inv_unregister _ _ hf
        · exact hf
      · simpa [hk] using hf
    · exact h
  · exact h

theorem Inv_step (s : Sched) (ev : Ev) (h : Inv s) : Inv (step s ev).1 := by
  cases ev with
  | reg n a iv times => exact Inv_register s n a iv none times h
  | regCron n p => exact Inv_register s n 0 0 (some p) 0 h
  | unreg n => exact Inv_unregister s n h
  | clear => exact Inv_clear s h
  | close => exact Inv_close s h
  | advance dt => exact Inv_advance s dt h
  | expire i => exact Inv_expire s i h
  | run i => exact Inv_runTimer s i h

theorem Inv_runEvents (s : Sched) (evs : List Ev) (h : Inv s) : Inv (runEvents s evs) := by
  induction evs generalizing s with
  | nil => exact h
  | cons ev evs ih => exact ih _ (Inv_step s ev h)

end MV.Model.Scheduler
