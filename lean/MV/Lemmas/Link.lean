import MV.Model.Link
import MV.Model.LinkSys
/-!
# Lemmas about the link: channel machine invariant, envelope round trip
-/
namespace MV.Model.Link

theorem flatten_sublist {α : Type} {l₁ l₂ : List (List α)} (h : l₁.Sublist l₂) :
    l₁.flatten.Sublist l₂.flatten := by
  induction h with
  | slnil => simp
  | cons a _ ih => simp only [List.flatten_cons]; exact ih.trans (List.sublist_append_right _ _)
  | cons_cons a _ ih => simp only [List.flatten_cons]; exact List.Sublist.append (List.Sublist.refl _) ih

section Chan
variable {α : Type}

theorem cutBatch_append (limit : Nat) (q : List α) : (cutBatch limit q).1 ++ (cutBatch limit q).2 = q := by
  unfold cutBatch
  by_cases h : q.length < limit <;> simp [h]

theorem cutBatch_length (limit : Nat) (q : List α) : (cutBatch limit q).1.length ≤ limit := by
  unfold cutBatch
  by_cases h : q.length < limit <;> simp [h] <;> omega

/-- everything that is somewhere between the sender's queue and the receiver, in order -/
def Chan.pending (c : Chan α) : List α := c.delivered ++ c.wire.flatten ++ c.q

/-- **channel invariant**: delivered, in flight and queued messages are, in this order, an in-order
selection of what was sent -/
def ChanInv (c : Chan α) : Prop := c.pending.Sublist c.sent

theorem chan_step (limit : Nat) (c : Chan α) (op : Op α) (h : ChanInv c) : ChanInv (c.step limit op) := by
  unfold ChanInv Chan.pending at *
  cases op with
  | send a =>
    simp only [Chan.step]
    rw [← List.append_assoc]
    exact List.Sublist.append h (List.Sublist.refl _)
  | cut =>
    simp only [Chan.step]
    have hap := cutBatch_append limit c.q
    split
    · exact h
    · rename_i b rest hne hcb
      rw [hcb] at hap
      split
      · refine List.Sublist.trans ?_ h
        simp only [List.append_nil]
        exact List.sublist_append_left _ _
      · simp only [List.flatten_append, List.flatten_cons, List.flatten_nil, List.append_nil]
        simp only [] at hap
        rw [← hap] at h
        simpa [List.append_assoc] using h
  | recv =>
    simp only [Chan.step]
    split
    · exact h
    · rename_i b w hw
      rw [hw] at h
      simpa [List.append_assoc] using h
  | brk keep =>
    simp only [Chan.step]
    refine List.Sublist.trans ?_ h
    exact List.Sublist.append (List.Sublist.append (List.Sublist.refl _)
      (flatten_sublist (List.take_sublist _ _))) (List.Sublist.refl _)
  | reopen =>
    simp only [Chan.step]
    refine List.Sublist.trans ?_ h
    exact List.Sublist.append (List.Sublist.append (List.Sublist.refl _) (by simp)) (List.Sublist.refl _)

theorem chan_run (limit : Nat) (c : Chan α) (ops : List (Op α)) (h : ChanInv c) :
    ChanInv (c.run limit ops) := by
  unfold Chan.run
  induction ops generalizing c with
  | nil => exact h
  | cons op ops ih => exact ih _ (chan_step limit c op h)

/-- while the stream works nothing is lost: the selection is everything -/
def ChanExact (c : Chan α) : Prop := c.broken = false ∧ c.pending = c.sent

theorem chan_step_exact (limit : Nat) (c : Chan α) (op : Op α) (hop : op.isBrk = false)
    (h : ChanExact c) : ChanExact (c.step limit op) := by
  obtain ⟨hb, h⟩ := h
  unfold ChanExact Chan.pending at *
  cases op with
  | send a => simp only [Chan.step]; exact ⟨hb, by rw [← h]; simp [List.append_assoc]⟩
  | cut =>
    simp only [Chan.step]
    have hap := cutBatch_append limit c.q
    split
    · exact ⟨hb, h⟩
    · rename_i b rest hne hcb
      rw [hcb] at hap
      simp only [hb, Bool.false_eq_true, if_false, true_and]
      simp only [List.flatten_append, List.flatten_cons, List.flatten_nil, List.append_nil]
      simp only [] at hap
      rw [← h, ← hap]; simp [List.append_assoc]
  | recv =>
    simp only [Chan.step]
    split
    · exact ⟨hb, h⟩
    · rename_i b w hw
      rw [hw] at h
      exact ⟨hb, by rw [← h]; simp [List.append_assoc]⟩
  | brk keep => simp [Op.isBrk] at hop
  | reopen => simp [Op.isBrk] at hop

theorem chan_run_exact (limit : Nat) (c : Chan α) (ops : List (Op α))
    (hops : ∀ op ∈ ops, op.isBrk = false) (h : ChanExact c) : ChanExact (c.run limit ops) := by
  unfold Chan.run
  induction ops generalizing c with
  | nil => exact h
  | cons op ops ih =>
    exact ih _ (fun o ho => hops o (List.mem_cons_of_mem _ ho))
      (chan_step_exact limit c op (hops op (List.mem_cons_self ..)) h)

end Chan

end MV.Model.Link

namespace MV.Model.LinkSys
open MV.Model.Link

theorem resolve_spec (s : Sys) (hup : s.up = true ∨ s.cur.isSome = true) :
    ∃ e, (resolve s).2 = some e ∧ (resolve s).1.cur = some e ∧ (resolve s).1.a = s.a ∧ (resolve s).1.b = s.b := by
  unfold resolve
  cases hc : s.cur with
  | some e => exact ⟨e, rfl, hc, rfl, rfl⟩
  | none =>
    have hu : s.up = true := by
      rcases hup with h | h
      · exact h
      · rw [hc] at h; simp at h
    simp [hu]

theorem transmit_delivers (fuel : Nat) (s : Sys) (i : Nat) (e : Nat) (pid : Pid) (system : Bool)
    (sender : Option Pid) (b : Body Pay)
    (hcur : s.cur = some e)
    (hpeer : pid.phys = (s.node (other i)).phys)
    (hreg : pid.logical ∈ (s.node (other i)).reg) :
    (transmit (fuel + 1) s i (some e) system (some pid) sender (.wrapped sender (some pid) b)).2 =
      .seen [(other i, ⟨pid.logical, system, sender, some pid, .wrapped sender (some pid) b⟩)] := by
  have hroute : route (cfg s (other i)) (some pid) = .proc pid.logical := by
    simp [route, cfg, hpeer, hreg]
  simp only [transmit, pack, codec, Option.map_some, unpack, hcur, ne_eq, not_true_eq_false,
    Option.isNone_some, Bool.or_self, Bool.false_eq_true, if_false, decide_false]
  simp [deliverRoute, hroute, deliverLocal]

end MV.Model.LinkSys
