import MV.Lemmas.ActorSysStatus2
/-!
# From the monadic turns to the pure step function
-/
namespace MV.Model.ActorSys

theorem EvOk.mono {R R' : Event → Prop} {E0 : List Event} {w : World} (h : EvOk R E0 w)
    (hm : ∀ e, R e → R' e) : EvOk R' E0 w := by
  obtain ⟨es, h1, h2⟩ := h
  exact ⟨es, h1, fun e he => hm e (h2 e he)⟩

theorem Rh.mono {self : Aid} {ok ok' : Obs → Prop} (h : ∀ o, ok o → ok' o) (e : Event) :
    Rh self ok e → Rh self ok' e := by
  cases e <;> simp [Rh]
  intro h1 h2; exact ⟨h1, h _ h2⟩

theorem guarded_evok (self : Aid) (t : M Unit) (R : Event → Prop) (E0 : List Event) (w : World)
    (ht : Stable (EvOk R E0) t) (hr : Stable (EvOk R E0) (reportAbnormal self)) (h : EvOk R E0 w) :
    EvOk R E0 (guarded self t w) := by
  unfold guarded
  have h1 := run_of_stable t _ ht w h
  revert h1
  generalize (t.run).run w = r1
  obtain ⟨e1, w1⟩ := r1
  intro h1
  cases e1 with
  | ok _ => exact h1
  | error _ =>
    have h2 := run_of_stable (reportAbnormal self) _ hr w1 h1
    revert h2
    dsimp only
    generalize ((reportAbnormal self).run).run w1 = r2
    obtain ⟨e2, w2⟩ := r2
    intro h2
    cases e2 with
    | ok _ => exact h2.of_events_eq rfl
    | error _ => exact h2.of_events_eq rfl

theorem extern_evok (t : M Unit) (R : Event → Prop) (E0 : List Event) (w : World)
    (ht : Stable (EvOk R E0) t) (h : EvOk R E0 w) : EvOk R E0 (extern t w) :=
  run_of_stable t _ ht w h

/-- the actor record the mailbox loop looks at -/
def actorOf (w : World) (a : Aid) : Actor := (w.actors[a]?).getD default

/-- what the handler of `a` may be shown by one mailbox step in world `w`:
nothing when `a` is terminated; system-side observations when the step takes a system message or the
mailbox is suspended or `a` is terminating; anything otherwise -/
def stepObs (w : World) (a : Aid) (o : Obs) : Prop :=
  (actorOf w a).status ≠ .terminated ∧
  (sysObs o ∨ ((actorOf w a).sysQ = [] ∧ (actorOf w a).suspended = false ∧
               (actorOf w a).status.rank < Status.terminating.rank))

theorem runOne_evok (w : World) (a : Aid) : EvOk (Rh a (stepObs w a)) w.events (runOne w a) := by
  unfold runOne
  cases hx : w.actors[a]? with
  | none => exact EvOk.refl _ _
  | some x =>
    have hax : actorOf w a = x := by simp [actorOf, hx]
    simp only
    split
    · exact EvOk.refl _ _
    · cases hq : x.sysQ with
      | cons ms rest =>
        obtain ⟨m, s⟩ := ms
        simp only
        split
        · apply guarded_evok
          · exact deadTurn_st a _ _ m s
          · exact reportAbnormal_st a _ _
          · exact (EvOk.refl _ w).of_events_eq rfl
        · rename_i hst
          have hne : x.status ≠ .terminated := by simpa using hst
          have := guarded_evok a (sysTurn a m s) (Rh a sysObs) w.events
            { w with actors := w.actors.modify a fun x => { x with sysQ := rest } }
            (sysTurn_st a w.events m s) (reportAbnormal_st a _ _) ((EvOk.refl _ w).of_events_eq rfl)
          exact this.mono (Rh.mono fun o ho => ⟨by rw [hax]; exact hne, Or.inl ho⟩)
      | nil =>
        simp only
        split
        · exact (EvOk.refl _ w).of_events_eq rfl
        · rename_i hsusp
          cases hu : x.userQ with
          | nil => exact (EvOk.refl _ w).of_events_eq rfl
          | cons ms rest =>
            obtain ⟨m, s⟩ := ms
            simp only
            split
            · apply guarded_evok
              · exact abyssUser_st' a _ _ a m s
              · exact reportAbnormal_st a _ _
              · exact (EvOk.refl _ w).of_events_eq rfl
            · rename_i hrank
              have := guarded_evok a (usrTurn a m s) (Rh a (fun _ => True)) w.events
                { w with actors := w.actors.modify a fun x => { x with userQ := rest } }
                (usrTurn_st a w.events m s) (reportAbnormal_st a _ _) ((EvOk.refl _ w).of_events_eq rfl)
              refine this.mono (Rh.mono fun o _ => ⟨?_, Or.inr ⟨?_, ?_, ?_⟩⟩)
              · rw [hax]; intro h; rw [h] at hrank; simp [Status.rank] at hrank
              · rw [hax]; exact hq
              · rw [hax]; simpa using hsusp
              · rw [hax]; omega

/-- which handler invocations one operation may record -/
def stepR (w : World) : Op → Event → Prop
  | .run a => Rh a (stepObs w a)
  | _ => Rh 0 (fun _ => False)

theorem step_evok (w : World) (op : Op) : EvOk (stepR w op) w.events (step w op) := by
  cases op with
  | run a =>
    simp only [step, stepR]
    split
    · exact EvOk.refl _ _
    · exact runOne_evok w a
  | fire =>
    simp only [step, stepR]
    split
    · exact EvOk.refl _ _
    · split
      · exact EvOk.refl _ _
      · apply extern_evok
        · exact sendSys_st' 0 _ _ _ _ _
        · exact (EvOk.refl _ w).of_events_eq rfl
  | spawnTop beh =>
    simp only [step, stepR]
    split
    · exact EvOk.refl _ _
    · exact extern_evok _ _ _ _ (spawnTop_st 0 _ _ beh) (EvOk.refl _ w)
  | tell t tag =>
    simp only [step, stepR]
    split
    · exact EvOk.refl _ _
    · exact extern_evok _ _ _ _ (sendUser_st' 0 _ _ _ _ _) (EvOk.refl _ w)
  | kill t g =>
    simp only [step, stepR]
    split
    · exact EvOk.refl _ _
    · exact extern_evok _ _ _ _ (terminateCall_st' 0 _ _ _ _ _) (EvOk.refl _ w)
  | shutdown g =>
    simp only [step, stepR]
    split
    · exact EvOk.refl _ _
    · exact extern_evok _ _ _ _ (terminateCall_st' 0 _ _ _ _ _) (EvOk.refl _ w)
  | subscribeDead a =>
    simp only [step, stepR]
    exact (EvOk.refl _ w).of_events_eq rfl

end MV.Model.ActorSys
