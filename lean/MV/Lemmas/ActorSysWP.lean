import Std.Do
import Std.Tactic.Do
import MV.Model.ActorSys
/-!
# Program-logic plumbing for the Layer-2 model

The turns of `MV.Model.ActorSys` are written in the monad `M = ExceptT Unit (StateM World)`.
Invariants are proved as Hoare triples with `Std.Do` (`mvcgen` generates the verification conditions,
which are then closed by `simp`/`omega`; everything is kernel-checked) and transported to the pure
`step` function with `run_of_triple`.
-/
namespace MV.Model.ActorSys
open Std.Do

/-- `P` holds before ⇒ `P` holds after, whether the turn ends normally or by a panic -/
abbrev Stable {α : Type} (P : World → Prop) (m : M α) : Prop :=
  ⦃fun w => ⌜P w⌝⦄ m ⦃post⟨fun _ w => ⌜P w⌝, fun _ w => ⌜P w⌝⟩⦄

/-- from a triple to the pure run of the monadic action -/
theorem run_of_triple {α} (m : M α) (P : World → Prop) (Q : α → World → Prop) (E : World → Prop)
    (h : ⦃fun w => ⌜P w⌝⦄ m ⦃post⟨fun a w => ⌜Q a w⌝, fun _ w => ⌜E w⌝⟩⦄) (w : World) (hp : P w) :
    match (m.run).run w with
    | (.ok a, w') => Q a w'
    | (.error _, w') => E w' := by
  have := h w
  simp only [wp, SPred.entails, PredTrans.pushExcept, PredTrans.pushArg] at this
  have := this hp
  simp [Id.run, StateT.run, ExceptT.run] at this ⊢
  revert this
  generalize hm : (m w : Id _) = r
  obtain ⟨e, w'⟩ := r
  cases e <;> simp [PredTrans.apply, hm]

theorem run_of_stable {α} (m : M α) (P : World → Prop) (h : Stable P m) (w : World) (hp : P w) :
    P ((m.run).run w).2 := by
  have := run_of_triple m P (fun _ w => P w) P h w hp
  revert this
  generalize (m.run).run w = r
  obtain ⟨e, w'⟩ := r
  cases e <;> simp

end MV.Model.ActorSys
