import MV.Lemmas.FutureAll
import MV.Spec.Future
/-!
# Helper lemmas for `MV/Props/C07.lean`: quiescent states, the judge's address table
-/
namespace MV.Model.Future
open MV.Model.Conc MV.Spec.Future

/-- a state in which no thread can take a step (everybody has finished, or waits for a `done` that
is never closed, or for a future that does not exist) -/
def Quiescent (s : State) : Prop := ∀ i, step (sys Cfg.shipped) s i = none

theorem quiescent_stuck (s : State) (hq : Quiescent s) (x : PC) (hx : x ∈ s.ths) :
    trans Cfg.shipped s.g x = none := by
  obtain ⟨i, hi, rfl⟩ := List.mem_iff_getElem.mp hx
  have h := hq i
  unfold step at h
  have hi2 : s.ths[i]? = some s.ths[i] := by simp [hi]
  rw [hi2] at h
  simp only [sys] at h
  cases ht : trans Cfg.shipped s.g s.ths[i] with
  | none => rfl
  | some v => rw [ht] at h; simp at h

theorem quiescent_none (s : State) (hq : Quiescent s) (p : PC → Bool)
    (hp : ∀ x, p x = true → trans Cfg.shipped s.g x ≠ none) : s.ths.countP p = 0 := by
  apply countP_zero_of
  intro x hx
  by_cases h : p x = true
  · exact absurd (quiescent_stuck s hq x hx) (hp x h)
  · simpa using h

theorem always_enabled (g : G) (x : PC) (k : Nat)
    (h : pending k x = true ∨ preUnreg k x = true ∨ preStop k x = true ∨ preLock k x = true ∨
      isTimer k x = true ∨ isCas k x = true) : trans Cfg.shipped g x ≠ none := by
  cases x <;> simp [pending, preUnreg, preStop, preLock, isTimer, isCas] at h <;>
    simp only [trans, Cfg.shipped] <;> (try split) <;> simp

theorem find_range (n t : Nat) : (List.range n).find? (fun j => j == t) = if t < n then some t else none := by
  induction n with
  | zero => simp
  | succ n ih =>
    rw [List.range_succ, List.find?_append, ih]
    by_cases h : t < n
    · simp [h]; omega
    · by_cases h2 : t = n
      · subst h2; simp
      · have : ¬ t < n + 1 := by omega
        simp [h, this]; omega

/-- the address table the judge reconstructs from the observations is the model's -/
theorem addrOf_observeAll (g : G) (t : Nat) :
    addrOf (observeAll g) t = if t < g.nfut then some (g.futs t).addr else none := by
  unfold addrOf observeAll
  rw [List.find?_map]
  have : ((fun x => x.k == t) ∘ observe g) = (fun j => j == t) := by
    funext j; simp [observe]
  rw [this, find_range]
  split <;> simp [observe]

end MV.Model.Future
