import MV.Lemmas.Collection.Compact
/-! Lemmas about de-duplication (duplicate.go). -/
namespace MV.Lemmas.Coll
open MV.Model.Coll MV.Spec.Coll

theorem filter_congr' {α} {p q : α → Bool} {l : List α} (h : ∀ x ∈ l, p x = q x) : l.filter p = l.filter q := by
  induction l with
  | nil => rfl
  | cons a as ih =>
    have ha := h a (by simp)
    have ih' := ih (fun x hx => h x (by simp [hx]))
    simp [List.filter, ha, ih']

/-- the `seen`-set loop keeps exactly the first occurrences that are not in `seen` -/
theorem dedupGo_eq (seen l : List Int) :
    dedupGo seen l = (firstOcc l).filter (fun y => !seen.contains y) := by
  induction l generalizing seen with
  | nil => simp [dedupGo, firstOcc, firstOccBy]
  | cons v vs ih =>
    unfold dedupGo
    by_cases hv : seen.contains v = true
    · simp only [hv, if_true]
      rw [ih seen]
      simp only [firstOcc, firstOccBy, List.filter_cons, hv, Bool.not_true, List.filter_filter]
      simp only [Bool.false_eq_true, if_false]
      apply filter_congr'
      intro x hx
      have hv2 : v ∈ seen := by simpa using hv
      by_cases hx2 : x ∈ seen <;> by_cases hvx : v = x <;> simp_all
    · have hv' : seen.contains v = false := by simpa using hv
      simp only [hv', Bool.false_eq_true, if_false]
      rw [ih (v :: seen)]
      simp only [firstOcc, firstOccBy, List.filter_cons, hv', Bool.not_false, if_true, List.filter_filter]
      congr 1
      apply filter_congr'
      intro x hx
      simp only [List.contains_cons]
      cases h1 : (x == v) <;> cases h2 : (v == x) <;> simp_all
      
theorem dedupGo_nil (l : List Int) : dedupGo [] l = firstOcc l := by
  rw [dedupGo_eq]; simp


/-! ### copying loops in `copyFrom` form -/

theorem copyFrom_dedup (l : List Int) : ∀ (i : Nat) (acc seen : List Int),
    copyFrom (fun _ (seen : List Int) _ v => !seen.contains v) (fun seen _ v => v :: seen) (enumFrom i l) acc seen
      = acc ++ dedupGo seen l := by
  induction l with
  | nil => intro i acc seen; simp [enumFrom, copyFrom, dedupGo]
  | cons v vs ih =>
    intro i acc seen
    simp only [enumFrom, copyFrom, dedupGo]
    by_cases hv : seen.contains v = true
    · simp only [hv, Bool.not_true, Bool.false_eq_true, if_false, if_true, ih]
    · have hv' : seen.contains v = false := by simpa using hv
      simp only [hv', Bool.not_false, if_true, Bool.false_eq_true, if_false, ih, List.append_assoc, List.singleton_append]

theorem copyFrom_dedupCmp (cmp : Int → Int → Bool) (l : List Int) : ∀ (i : Nat) (acc : List Int),
    copyFrom (σ := Unit) (fun acc _ _ v => !acc.any (fun r => cmp v r)) (fun _ _ _ => ()) (enumFrom i l) acc ()
      = dedupCmpGo cmp acc l := by
  induction l with
  | nil => intro i acc; simp [enumFrom, copyFrom, dedupCmpGo]
  | cons v vs ih =>
    intro i acc
    simp only [enumFrom, copyFrom, dedupCmpGo]
    by_cases hv : acc.any (fun r => cmp v r) = true
    · simp [hv, ih]
    · have hv' : acc.any (fun r => cmp v r) = false := by simpa using hv
      simp [hv', ih]

/-- in-place de-duplication leaves in `(*s)[:len]` what the copying variant returns -/
theorem dedupInPlace_result (l : List Int) :
    (compact (fun _ _ (seen : List Int) _ v => !seen.contains v) (fun seen _ v => v :: seen) l []).result = dedupGo [] l := by
  rw [compact_result _ (fun _ (seen : List Int) _ v => !seen.contains v) _ (by intros; rfl)]
  rw [copyFrom_dedup]; simp

theorem dedupCmpInPlace_result (cmp : Int → Int → Bool) (l : List Int) :
    (compact (σ := Unit) (fun arr w _ _ v => !(arr.take w).any (fun r => cmp v r)) (fun _ _ _ => ()) l ()).result
      = dedupCmpGo cmp [] l := by
  rw [compact_result _ (fun acc _ _ v => !acc.any (fun r => cmp v r)) _ (by intros; rfl)]
  rw [copyFrom_dedupCmp]

/-! ### the compare variant and its specification (for equivalences) -/

/-- for a symmetric and transitive `cmp` the compare loop keeps the first element of every class -/
theorem dedupCmpGo_eq (cmp : Int → Int → Bool) (hs : ∀ a b, cmp a b = cmp b a)
    (ht : ∀ a b c, cmp a b = true → cmp b c = true → cmp a c = true) (l : List Int) : ∀ acc : List Int,
    dedupCmpGo cmp acc l = acc ++ (firstOccBy cmp l).filter (fun y => !acc.any (fun r => cmp y r)) := by
  induction l with
  | nil => intro acc; simp [dedupCmpGo, firstOccBy]
  | cons v vs ih =>
    intro acc
    unfold dedupCmpGo
    by_cases hv : acc.any (fun r => cmp v r) = true
    · simp only [hv, if_true]
      rw [ih acc]
      simp only [firstOccBy, List.filter_cons, hv, Bool.not_true, Bool.false_eq_true, if_false, List.filter_filter]
      congr 1
      apply filter_congr'
      intro x hx
      obtain ⟨a, ha, hva⟩ := List.any_eq_true.mp hv
      by_cases hx2 : acc.any (fun r => cmp x r) = true
      · simp [hx2]
      · have hx2' : acc.any (fun r => cmp x r) = false := by simpa using hx2
        have : cmp v x = false := by
          cases hvx : cmp v x with
          | false => rfl
          | true =>
            have hxv : cmp x v = true := by rw [hs]; exact hvx
            have hxa : cmp x a = true := ht x v a hxv hva
            have : acc.any (fun r => cmp x r) = true := List.any_eq_true.mpr ⟨a, ha, hxa⟩
            rw [this] at hx2'; cases hx2'
        simp [hx2', this]
    · have hv' : acc.any (fun r => cmp v r) = false := by simpa using hv
      simp only [hv', Bool.false_eq_true, if_false]
      rw [ih (acc ++ [v])]
      simp only [firstOccBy, List.filter_cons, hv', Bool.not_false, if_true, List.filter_filter, List.append_assoc,
        List.singleton_append]
      congr 2
      apply filter_congr'
      intro x hx
      simp only [List.any_append, List.any_cons, List.any_nil, Bool.or_false]
      rw [hs x v]
      cases acc.any (fun r => cmp x r) <;> cases cmp v x <;> rfl

theorem dedupCmpGo_nil (cmp : Int → Int → Bool) (hs : ∀ a b, cmp a b = cmp b a)
    (ht : ∀ a b c, cmp a b = true → cmp b c = true → cmp a c = true) (l : List Int) :
    dedupCmpGo cmp [] l = firstOccBy cmp l := by
  rw [dedupCmpGo_eq cmp hs ht]; simp

/-! ### what `firstOccBy` means -/

/-- right-to-left reading of the specification: the last element is kept iff nothing before it is
    related to it; everything before is treated the same way.  Together with `firstOccBy [] = []` this
    determines `firstOccBy`: first occurrences, in order, nothing else. -/
theorem firstOccBy_append_singleton (eqv : Int → Int → Bool) (a : List Int) (x : Int) :
    firstOccBy eqv (a ++ [x]) = if a.any (fun y => eqv y x) then firstOccBy eqv a else firstOccBy eqv a ++ [x] := by
  induction a with
  | nil => simp [firstOccBy]
  | cons y ys ih =>
    have hany : (y :: ys).any (fun y => eqv y x) = (eqv y x || ys.any (fun y => eqv y x)) := by simp
    simp only [List.cons_append, firstOccBy, ih]
    by_cases h1 : ys.any (fun y => eqv y x) = true
    · have : (y :: ys).any (fun y => eqv y x) = true := by rw [hany, h1]; simp
      rw [if_pos h1, if_pos this]
    · by_cases h2 : eqv y x = true
      · have : (y :: ys).any (fun y => eqv y x) = true := by rw [hany, h2]; simp
        rw [if_neg h1, if_pos this, List.filter_append]; simp [h2]
      · have : ¬ (y :: ys).any (fun y => eqv y x) = true := by rw [hany]; simp [h1, h2]
        rw [if_neg h1, if_neg this, List.filter_append]; simp [h2]

theorem firstOccBy_sublist (eqv : Int → Int → Bool) (l : List Int) : (firstOccBy eqv l).Sublist l := by
  induction l with
  | nil => simp [firstOccBy]
  | cons x xs ih =>
    simp only [firstOccBy]
    exact List.Sublist.cons_cons x ((List.filter_sublist).trans ih)

theorem mem_firstOcc (l : List Int) (x : Int) : x ∈ firstOcc l ↔ x ∈ l := by
  induction l with
  | nil => simp [firstOcc, firstOccBy]
  | cons y ys ih =>
    simp only [firstOcc, firstOccBy, List.mem_cons, List.mem_filter] at ih ⊢
    constructor
    · rintro (h | ⟨h, _⟩)
      · exact Or.inl h
      · exact Or.inr (ih.mp h)
    · rintro (h | h)
      · exact Or.inl h
      · by_cases hxy : x = y
        · exact Or.inl hxy
        · refine Or.inr ⟨ih.mpr h, ?_⟩
          have : (y == x) = false := by simp; exact fun hh => hxy hh.symm
          simp [this]

theorem nodup_firstOcc (l : List Int) : (firstOcc l).Nodup := by
  induction l with
  | nil => simp [firstOcc, firstOccBy]
  | cons y ys ih =>
    simp only [firstOcc, firstOccBy] at ih ⊢
    rw [List.nodup_cons]
    refine ⟨?_, List.Nodup.sublist List.filter_sublist ih⟩
    intro hmem
    have := (List.mem_filter.mp hmem).2
    simp at this

end MV.Lemmas.Coll
