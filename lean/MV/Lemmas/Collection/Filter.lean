import MV.Lemmas.Collection.Compact
/-! Lemmas about filter.go / drop.go: the in-place and the copying variants compute the plain list filter. -/
namespace MV.Lemmas.Coll
open MV.Model.Coll MV.Spec.Coll

theorem enumFrom_map_snd (l : List Int) : ∀ i, (enumFrom i l).map (·.2) = l := by
  induction l with
  | nil => intro i; rfl
  | cons v vs ih => intro i; simp [enumFrom, ih]

theorem enumFrom_length (l : List Int) : ∀ i, (enumFrom i l).length = l.length := by
  induction l with
  | nil => intro i; rfl
  | cons v vs ih => intro i; simp [enumFrom, ih]

theorem enumFrom_eq (l : List Int) : ∀ i, enumFrom i l = (List.range l.length).map (fun j => (i + j, l.getD j 0)) := by
  induction l with
  | nil => intro i; rfl
  | cons v vs ih =>
    intro i
    rw [enumFrom, ih (i + 1), List.length_cons, List.range_succ_eq_map]
    simp only [List.map_cons, List.map_map]
    congr 1
    apply List.map_congr_left
    intro j _
    simp [List.getD]
    omega

theorem mem_enumFrom (l : List Int) : ∀ i (p : Nat × Int), p ∈ enumFrom i l → i ≤ p.1 ∧ p.1 < i + l.length := by
  induction l with
  | nil => intro i p h; simp [enumFrom] at h
  | cons v vs ih =>
    intro i p h
    simp only [enumFrom, List.mem_cons] at h
    rcases h with h | h
    · subst h; simp
    · have := ih (i + 1) p h
      simp; omega

/-- a keep-decision that looks only at index and value: the copying loop is `filter` -/
theorem copyFrom_stateless (p : Nat → Int → Bool) (l : List (Nat × Int)) : ∀ acc : List Int,
    copyFrom (σ := Unit) (fun _ _ i v => p i v) (fun _ _ _ => ()) l acc ()
      = acc ++ (l.filter (fun q => p q.1 q.2)).map (·.2) := by
  induction l with
  | nil => intro acc; simp [copyFrom]
  | cons q qs ih =>
    intro acc
    obtain ⟨i, v⟩ := q
    simp only [copyFrom, List.filter_cons]
    by_cases h : p i v = true
    · simp [h, ih]
    · have h' : p i v = false := by simpa using h
      simp [h', ih]

theorem compact_stateless (p : Nat → Int → Bool) (l : List Int) :
    (compact (σ := Unit) (fun _ _ _ i v => p i v) (fun _ _ _ => ()) l ()).result
      = ((enumFrom 0 l).filter (fun q => p q.1 q.2)).map (·.2) := by
  rw [compact_result _ (fun _ _ i v => p i v) _ (by intros; rfl), copyFrom_stateless]
  simp

theorem enum_filter_value (f : Int → Bool) (l : List Int) : ∀ i,
    ((enumFrom i l).filter (fun q => f q.2)).map (·.2) = l.filter f := by
  induction l with
  | nil => intro i; rfl
  | cons v vs ih =>
    intro i
    simp only [enumFrom, List.filter_cons]
    cases h : f v <;> simp [ih]

/-- the index-based specification in `enumFrom` form -/
theorem dropIdx_eq (l idx : List Int) :
    dropIdx l idx = ((enumFrom 0 l).filter (fun q => !idx.contains (q.1 : Int))).map (·.2) := by
  rw [enumFrom_eq]
  simp only [dropIdx, List.filter_map, List.map_map]
  have h1 : ((fun q : Nat × Int => !idx.contains (q.1 : Int)) ∘ fun j => (0 + j, l.getD j 0))
      = (fun (i : Nat) => !idx.contains (i : Int)) := by
    funext i; simp
  rw [h1]
  apply List.map_congr_left
  intro i _
  simp

end MV.Lemmas.Coll
