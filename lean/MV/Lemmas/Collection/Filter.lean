import MV.Lemmas.Collection.Compact
/-! Lemmas about filter.go / drop.go: the in-place and the copying variants compute the plain list filter. -/
namespace MV.Lemmas.Coll
open MV.Model.Coll MV.Spec.Coll

theorem enumFrom_map_snd (l : List Int) : ∀ i, (enumFrom i l).map (·.2) = l := by
  induction l with
  | nil => intro i; rfl
  | cons v vs ih => intro i; simp [enumFrom, ih]

theorem enumFrom_length (l : List Int) : ∀ i, (enumFrom i l).length = l.length := by
  induction l with
  | nil => intro i; rfl
  | cons v vs ih => intro i; simp [enumFrom, ih]

theorem enumFrom_eq (l : List Int) : ∀ i, enumFrom i l = (List.range l.length).map (fun j => (i + j, l.getD j 0)) := by
  induction l with
  | nil => intro i; rfl
  | cons v vs ih =>
    intro i
    rw [enumFrom, ih (i + 1), List.length_cons, List.range_succ_eq_map]
    simp only [List.map_cons, List.map_map]
    congr 1
    apply List.map_congr_left
    intro j _
    simp [List.getD]
    omega

theorem mem_enumFrom (l : List Int) : ∀ i (p : Nat × Int), p ∈ enumFrom i l → i ≤ p.1 ∧ p.1 < i + l.length := by
  induction l with
  | nil => intro i p h; simp [enumFrom] at h
  | cons v vs ih =>
    intro i p h
    simp only [enumFrom, List.mem_cons] at h
    rcases h with h | h
    · subst h; simp
    · have := ih (i + 1) p h
      simp; omega

/-- a keep-decision that looks only at index and value: the copying loop is `filter` -/
theorem copyFrom_stateless (p : Nat → Int → Bool) (l : List (Nat × Int)) : ∀ acc : List Int,
    copyFrom (σ := Unit) (fun _ _ i v => p i v) (fun _ _ _ => ()) l acc ()
      = acc ++ (l.filter (fun q => p q.1 q.2)).map (·.2) := by
  induction l with
  | nil => intro acc; simp [copyFrom]
  | cons q qs ih =>
    intro acc
    obtain ⟨i, v⟩ := q
    simp only [copyFrom, List.filter_cons]
    by_cases h : p i v = true
    · simp [h, ih]
    · have h' : p i v = false := by simpa using h
      simp [h', ih]

theorem compact_stateless (p : Nat → Int → Bool) (l : List Int) :
    (compact (σ := Unit) (fun _ _ _ i v => p i v) (fun _ _ _ => ()) l ()).result
      = ((enumFrom 0 l).filter (fun q => p q.1 q.2)).map (·.2) := by
  rw [compact_result _ (fun _ _ i v => p i v) _ (by intros; rfl), copyFrom_stateless]
  simp

theorem enum_filter_value (f : Int → Bool) (l : List Int) : ∀ i,
    ((enumFrom i l).filter (fun q => f q.2)).map (·.2) = l.filter f := by
  induction l with
  | nil => intro i; rfl
  | cons v vs ih =>
    intro i
    simp only [enumFrom, List.filter_cons]
    cases h : f v <;> simp [ih]

/-- the index-based specification in `enumFrom` form -/
theorem dropIdx_eq (l idx : List Int) :
    dropIdx l idx = ((enumFrom 0 l).filter (fun q => !idx.contains (q.1 : Int))).map (·.2) := by
  rw [enumFrom_eq]
  simp only [dropIdx, List.filter_map, List.map_map]
  have h1 : ((fun q : Nat × Int => !idx.contains (q.1 : Int)) ∘ fun j => (0 + j, l.getD j 0))
      = (fun (i : Nat) => !idx.contains (i : Int)) := by
    funext i; simp
  rw [h1]
  apply List.map_congr_left
  intro i _
  simp

end MV.Lemmas.Coll

namespace MV.Lemmas.Coll
open MV.Model.Coll MV.Spec.Coll

theorem filter_congr_mem {α} {p q : α → Bool} {l : List α} (h : ∀ x ∈ l, p x = q x) : l.filter p = l.filter q := by
  induction l with
  | nil => rfl
  | cons a as ih =>
    have ha := h a (by simp)
    have ih' := ih (fun x hx => h x (by simp [hx]))
    simp [List.filter, ha, ih']

theorem exclIn_contains (len : Nat) (idx : List Int) (i : Nat) (hi : i < len) :
    (exclIn len idx).contains (i : Int) = idx.contains (i : Int) := by
  simp only [exclIn, List.contains_eq_mem, List.mem_filter, Bool.and_eq_true, decide_eq_true_eq]
  have h1 : (0 : Int) ≤ (i : Int) := by omega
  have h2 : (i : Int) < (len : Int) := by omega
  simp [h1, h2]

/-- `FilterOutByIndices`: the elements whose index is not listed (out-of-range indices are ignored) -/
theorem filterOutByIndices_spec (l : List Int) (idx : Sl) :
    (filterOutByIndices (some l) idx).els = dropIdx l idx.els := by
  rw [dropIdx_eq]
  unfold filterOutByIndices
  generalize idx.els = ix
  dsimp only
  have hall : ∀ ex : List Int, (∀ q ∈ enumFrom 0 l, ex.contains (q.1 : Int) = false) →
      ((enumFrom 0 l).filter (fun q => !ex.contains (q.1 : Int))).map (·.2) = l := by
    intro ex h
    have : (enumFrom 0 l).filter (fun q => !ex.contains (q.1 : Int)) = enumFrom 0 l := by
      apply List.filter_eq_self.mpr
      intro q hq; rw [h q hq]; rfl
    rw [this, enumFrom_map_snd]
  have hex : ((enumFrom 0 l).filter (fun q => !(exclIn l.length ix).contains (q.1 : Int)))
      = ((enumFrom 0 l).filter (fun q => !ix.contains (q.1 : Int))) := by
    apply filter_congr_mem
    intro q hq
    have := mem_enumFrom l 0 q hq
    rw [exclIn_contains l.length ix q.1 (by omega)]
  by_cases h1 : l.length = 0 ∨ ix.length = 0
  · rw [if_pos h1]
    show l = _
    rcases h1 with h1 | h1
    · have : l = [] := List.length_eq_zero_iff.mp h1
      subst this; simp [enumFrom]
    · have : ix = [] := List.length_eq_zero_iff.mp h1
      rw [this]
      exact (hall [] (by intro q _; rfl)).symm
  · rw [if_neg h1]
    by_cases h2 : (exclIn l.length ix).length = 0
    · rw [if_pos h2]
      show l = _
      have he : exclIn l.length ix = [] := List.length_eq_zero_iff.mp h2
      rw [← hex, he]
      exact (hall [] (by intro q _; rfl)).symm
    · rw [if_neg h2]
      show _ = _
      rw [← hex]
      rfl

/-- `DropSliceByIndices` leaves the same elements in `(*s)[:len]` -/
theorem dropSliceByIndices_spec (l : List Int) (idx : Sl) :
    (dropSliceByIndices (some l) idx).map InPlace.result = some (dropIdx l idx.els) := by
  rw [dropIdx_eq]
  unfold dropSliceByIndices
  generalize idx.els = ix
  dsimp only
  by_cases h1 : ix.length = 0
  · have hix : ix = [] := List.length_eq_zero_iff.mp h1
    subst hix
    simp only [List.length_nil, if_true, Option.map_some, InPlace.result, List.take_length]
    have : (enumFrom 0 l).filter (fun q => !([] : List Int).contains (q.1 : Int)) = enumFrom 0 l := by
      apply List.filter_eq_self.mpr
      intro q _; rfl
    rw [this, enumFrom_map_snd]
  · simp only [h1, if_false, Option.map_some]
    rw [compact_stateless (fun i _ => !ix.contains (i : Int)) l]

end MV.Lemmas.Coll
