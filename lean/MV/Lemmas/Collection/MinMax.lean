import MV.Model.Collection.Order
import MV.Spec.Collection
/-! Lemmas about `FindMinimum…`/`FindMaximum…`/`FindMin…FromMap` (find.go). -/
namespace MV.Lemmas.Coll
open MV.Model.Coll MV.Spec.Coll

/-- the scan returns the *first* element with the least key: everything before it has a strictly
    greater key, everything after it a key that is not smaller -/
theorem minGo_split (g : Int → Int) : ∀ (l : List Int) (r : Int),
    ∃ pre post, r :: l = pre ++ minGo g r l :: post ∧ (∀ y ∈ pre, g (minGo g r l) < g y) ∧ (∀ y ∈ post, g (minGo g r l) ≤ g y) := by
  intro l
  induction l with
  | nil => intro r; exact ⟨[], [], by simp [minGo], by simp, by simp⟩
  | cons v vs ih =>
    intro r
    simp only [minGo]
    by_cases hgt : g r > g v
    · simp only [hgt, if_true]
      obtain ⟨pre, post, heq, hpre, hpost⟩ := ih v
      refine ⟨r :: pre, post, by rw [heq]; simp, ?_, hpost⟩
      intro y hy
      simp only [List.mem_cons] at hy
      rcases hy with rfl | hy
      · -- g m ≤ g v < g r
        have hmv : g (minGo g v vs) ≤ g v := by
          cases pre with
          | nil =>
            simp only [List.nil_append, List.cons.injEq] at heq
            rw [← heq.1]; exact Int.le_refl _
          | cons p ps =>
            simp only [List.cons_append, List.cons.injEq] at heq
            have := hpre v (by rw [heq.1]; simp)
            omega
        omega
      · exact hpre y hy
    · simp only [hgt, if_false]
      obtain ⟨pre, post, heq, hpre, hpost⟩ := ih r
      cases pre with
      | nil =>
        simp only [List.nil_append, List.cons.injEq] at heq
        refine ⟨[], v :: vs, by rw [← heq.1]; rfl, by simp, ?_⟩
        intro y hy
        simp only [List.mem_cons] at hy
        rcases hy with rfl | hy
        · rw [← heq.1]; omega
        · exact hpost y (by rw [← heq.2]; exact hy)
      | cons p ps =>
        simp only [List.cons_append, List.cons.injEq] at heq
        refine ⟨r :: v :: ps, post, by simp only [List.cons_append, List.cons.injEq, true_and]; exact heq.2, ?_, hpost⟩
        intro y hy
        simp only [List.mem_cons] at hy
        have hmr : g (minGo g r vs) < g r := hpre r (by rw [heq.1]; simp)
        rcases hy with rfl | rfl | hy
        · exact hmr
        · omega
        · exact hpre y (by simp [hy])

theorem argMin_of_split (g : Int → Int) (l pre post : List Int) (m : Int) (heq : l = pre ++ m :: post)
    (hpre : ∀ y ∈ pre, g m < g y) (hpost : ∀ y ∈ post, g m ≤ g y) : argMin g l = m := by
  unfold argMin
  have hall : ∀ z ∈ l, g m ≤ g z := by
    intro z hz
    rw [heq] at hz
    simp only [List.mem_append, List.mem_cons] at hz
    rcases hz with hz | rfl | hz
    · have := hpre z hz; omega
    · exact Int.le_refl _
    · exact hpost z hz
  have hfind : l.find? (fun x => l.all (fun y => decide (g x ≤ g y))) = some m := by
    conv => lhs; arg 2; rw [heq]
    rw [List.find?_append]
    have h1 : pre.find? (fun x => l.all (fun y => decide (g x ≤ g y))) = none := by
      apply List.find?_eq_none.mpr
      intro y hy hall'
      have h3 := (List.all_eq_true.mp hall') m (by rw [heq]; simp)
      simp only [decide_eq_true_eq] at h3
      have := hpre y hy; omega
    rw [h1]
    simp only [Option.none_or, List.find?_cons]
    have h2 : l.all (fun y => decide (g m ≤ g y)) = true := by
      simp only [List.all_eq_true, decide_eq_true_eq]; exact hall
    rw [h2]
  rw [hfind]; rfl

theorem findMinimumInSlice_eq_argMin (l : List Int) (g : Int → Int) : findMinimumInSlice l g = argMin g l := by
  cases l with
  | nil => simp [findMinimumInSlice, argMin]
  | cons x xs =>
    obtain ⟨pre, post, heq, hpre, hpost⟩ := minGo_split g xs x
    simp only [findMinimumInSlice]
    exact (argMin_of_split g (x :: xs) pre post _ heq hpre hpost).symm

theorem maxGo_eq_minGo (g : Int → Int) : ∀ (l : List Int) (r : Int), maxGo g r l = minGo (fun x => - g x) r l := by
  intro l
  induction l with
  | nil => intro r; rfl
  | cons v vs ih =>
    intro r
    simp only [maxGo, minGo, ih]
    by_cases h : g r < g v
    · have : - g r > - g v := by omega
      simp [h, this]
    · have : ¬ (- g r > - g v) := by omega
      simp [h, this]

theorem argMax_eq_argMin (g : Int → Int) (l : List Int) : argMax g l = argMin (fun x => - g x) l := by
  unfold argMax argMin
  congr 2
  funext x
  congr 1
  funext y
  have : (g y ≤ g x) ↔ (- g x ≤ - g y) := by omega
  rw [decide_eq_decide]; exact this

theorem findMaximumInSlice_eq_argMax (l : List Int) (g : Int → Int) : findMaximumInSlice l g = argMax g l := by
  rw [argMax_eq_argMin, ← findMinimumInSlice_eq_argMin]
  cases l with
  | nil => rfl
  | cons x xs => simp [findMaximumInSlice, findMinimumInSlice, maxGo_eq_minGo]

/-- member and least -/
theorem findMinimumInSlice_spec (l : List Int) (g : Int → Int) (hne : l ≠ []) :
    findMinimumInSlice l g ∈ l ∧ ∀ y ∈ l, g (findMinimumInSlice l g) ≤ g y := by
  cases l with
  | nil => exact absurd rfl hne
  | cons x xs =>
    obtain ⟨pre, post, heq, hpre, hpost⟩ := minGo_split g xs x
    simp only [findMinimumInSlice]
    refine ⟨by rw [heq]; simp, ?_⟩
    intro y hy
    rw [heq] at hy
    simp only [List.mem_append, List.mem_cons] at hy
    rcases hy with hy | rfl | hy
    · have := hpre y hy; omega
    · exact Int.le_refl _
    · exact hpost y hy

theorem findMaximumInSlice_spec (l : List Int) (g : Int → Int) (hne : l ≠ []) :
    findMaximumInSlice l g ∈ l ∧ ∀ y ∈ l, g y ≤ g (findMaximumInSlice l g) := by
  have h := findMinimumInSlice_spec l (fun x => - g x) hne
  have e : findMaximumInSlice l g = findMinimumInSlice l (fun x => - g x) := by
    cases l with
    | nil => rfl
    | cons x xs => simp [findMaximumInSlice, findMinimumInSlice, maxGo_eq_minGo]
  rw [e]
  refine ⟨h.1, fun y hy => ?_⟩
  have := h.2 y hy
  omega

end MV.Lemmas.Coll
