import MV.Lemmas.Collection.Judge
/-! The order search the judge uses to check `ErrCircularDependencyDetected` is complete: whenever some
order respects all dependencies, `kahn` finds one. -/
namespace MV.Lemmas.Coll
open MV.Model.Coll MV.Spec.Coll

theorem posOf_lt_length_iff (l : List Int) (x : Int) : posOf l x < l.length ↔ x ∈ l := by
  simp [posOf, List.findIdx_lt_length]

theorem posOf_append_left (l r : List Int) (x : Int) (h : x ∈ l) : posOf (l ++ r) x = posOf l x := by
  have := (posOf_lt_length_iff l x).mpr h
  simp only [posOf] at this ⊢
  rw [List.findIdx_append, if_pos this]

theorem posOf_append_singleton_self (l : List Int) (x : Int) (h : x ∉ l) : posOf (l ++ [x]) x = l.length := by
  have hn : ¬ posOf l x < l.length := fun hh => h ((posOf_lt_length_iff l x).mp hh)
  simp only [posOf] at hn ⊢
  rw [List.findIdx_append, if_neg hn]
  simp [List.findIdx_cons]

theorem exists_min_of_ne_nil (f : Int → Nat) : ∀ l : List Int, l ≠ [] → ∃ x ∈ l, ∀ y ∈ l, f x ≤ f y := by
  intro l
  induction l with
  | nil => intro h; exact absurd rfl h
  | cons a as ih =>
    intro _
    cases as with
    | nil => exact ⟨a, by simp, by simp⟩
    | cons b bs =>
      obtain ⟨x, hx, hmin⟩ := ih (by simp)
      by_cases h : f a ≤ f x
      · refine ⟨a, by simp, ?_⟩
        intro y hy
        simp only [List.mem_cons] at hy
        rcases hy with rfl | hy
        · exact Nat.le_refl _
        · have := hmin y (by simpa using hy); omega
      · refine ⟨x, List.mem_cons_of_mem _ hx, ?_⟩
        intro y hy
        simp only [List.mem_cons] at hy
        rcases hy with rfl | hy
        · omega
        · exact hmin y (by simpa using hy)

/-- invariant-carrying correctness of the search, given any ranking `f` that increases along every edge -/
theorem kahn_valid (edges : List (Int × Int)) (f : Int → Nat) (hf : ∀ e ∈ edges, f e.1 < f e.2) :
    ∀ (fuel : Nat) (remaining acc : List Int), remaining.length ≤ fuel → (acc ++ remaining).Nodup →
      (∀ e ∈ edges, e.1 ∈ acc ++ remaining ∧ e.2 ∈ acc ++ remaining) →
      (∀ e ∈ edges, e.2 ∈ acc → e.1 ∈ acc ∧ posOf acc e.1 < posOf acc e.2) →
      (kahn edges fuel remaining acc).Perm (acc ++ remaining) ∧
        ∀ e ∈ edges, posOf (kahn edges fuel remaining acc) e.1 < posOf (kahn edges fuel remaining acc) e.2 := by
  intro fuel
  induction fuel with
  | zero =>
    intro remaining acc hl _ hends hinv
    have : remaining = [] := List.length_eq_zero_iff.mp (by omega)
    subst this
    simp only [kahn, List.append_nil] at hends ⊢
    exact ⟨List.Perm.refl _, fun e he => (hinv e he (hends e he).2).2⟩
  | succ fuel ih =>
    intro remaining acc hl hnd hends hinv
    by_cases hrem : remaining = []
    · subst hrem
      simp only [kahn, List.find?_nil, List.append_nil] at hends ⊢
      exact ⟨List.Perm.refl _, fun e he => (hinv e he (hends e he).2).2⟩
    · -- a remaining node of least rank has no remaining predecessor
      obtain ⟨x0, hx0, hmin⟩ := exists_min_of_ne_nil f remaining hrem
      have hp0 : (!(edges.any (fun e => e.2 == x0 && remaining.contains e.1))) = true := by
        simp only [Bool.not_eq_true', List.any_eq_false, Bool.and_eq_true, beq_iff_eq, List.contains_iff_mem, not_and]
        intro e he hex hin
        have h1 := hf e he
        have h2 := hmin e.1 hin
        rw [hex] at h1; omega
      simp only [kahn]
      cases hfind : remaining.find? (fun x => !(edges.any (fun e => e.2 == x && remaining.contains e.1))) with
      | none =>
        have := List.find?_eq_none.mp hfind x0 hx0
        exact absurd hp0 this
      | some x =>
        have hxmem : x ∈ remaining := List.mem_of_find?_eq_some hfind
        have hpx := List.find?_some hfind
        simp only [Bool.not_eq_true', List.any_eq_false, Bool.and_eq_true, beq_iff_eq, List.contains_iff_mem, not_and] at hpx
        have hperm : (acc ++ [x] ++ remaining.erase x).Perm (acc ++ remaining) := by
          rw [List.append_assoc]
          exact List.Perm.append_left acc (List.perm_cons_erase hxmem).symm
        have hxacc : x ∉ acc := by
          intro hin
          have := (List.nodup_append.mp hnd).2.2 x hin x hxmem
          exact this rfl
        have := ih (remaining.erase x) (acc ++ [x])
          (by rw [List.length_erase]; simp [hxmem]; omega)
          (hperm.symm.nodup hnd)
          (by
            intro e he
            obtain ⟨h1, h2⟩ := hends e he
            exact ⟨hperm.symm.subset h1, hperm.symm.subset h2⟩)
          (by
            intro e he h2
            simp only [List.mem_append, List.mem_singleton] at h2
            rcases h2 with h2 | h2
            · obtain ⟨h1, hlt⟩ := hinv e he h2
              refine ⟨by simp [h1], ?_⟩
              rw [posOf_append_left _ _ _ h1, posOf_append_left _ _ _ h2]; exact hlt
            · have hnr : e.1 ∉ remaining := fun hin => hpx e he h2 hin
              have h1 : e.1 ∈ acc := by
                rcases List.mem_append.mp (hends e he).1 with h | h
                · exact h
                · exact absurd h hnr
              refine ⟨by simp [h1], ?_⟩
              rw [posOf_append_left _ _ _ h1, h2, posOf_append_singleton_self _ _ hxacc]
              exact (posOf_lt_length_iff acc e.1).mpr h1)
        exact ⟨this.1.trans hperm, this.2⟩

/-- completeness: if any order respects the dependencies (indices distinct), the judge's search succeeds -/
theorem orderExists_of_valid (items : List (Int × List Int)) (hnd : (items.map (·.1)).Nodup) (out : List Int)
    (h : validOrder items out = true) : orderExists items = true := by
  obtain ⟨_, hresp⟩ := (validOrder_iff items out).mp h
  have hends : ∀ e ∈ edgesOf items, e.1 ∈ ([] : List Int) ++ items.map (·.1) ∧ e.2 ∈ ([] : List Int) ++ items.map (·.1) := by
    intro e he
    obtain ⟨it, hit, h1, _, h3⟩ := (mem_edgesOf items e.1 e.2).mp he
    exact ⟨by simp only [List.nil_append]; rw [← h1]; exact List.mem_map.mpr ⟨it, hit, rfl⟩, by simpa using h3⟩
  have := kahn_valid (edgesOf items) (posOf out) hresp (items.map (·.1)).length (items.map (·.1)) []
    (Nat.le_refl _) (by simpa using hnd) hends (by intro e _ h2; simp at h2)
  simp only [List.nil_append] at this
  simp only [orderExists]
  exact (validOrder_iff items _).mpr this

/-- hence, for distinct indices: the judge accepts `ErrCircularDependencyDetected` exactly when no order respects all
    dependencies -/
theorem topoVerdict_none_iff (items : List (Int × List Int)) (hnd : (items.map (·.1)).Nodup) :
    topoVerdict items none = true ↔ ¬ ∃ out, validOrder items out = true := by
  have hd : distinct (items.map (·.1)) = true := (distinct_iff _).mpr hnd
  simp only [topoVerdict, hd, Bool.not_true, Bool.false_or, Bool.not_eq_true']
  constructor
  · intro hno ⟨out, hv⟩
    rw [orderExists_of_valid items hnd out hv] at hno
    cases hno
  · intro hno
    cases he : orderExists items with
    | false => rfl
    | true =>
      exact absurd ⟨_, he⟩ hno

end MV.Lemmas.Coll

namespace MV.Lemmas.Coll
open MV.Model.Coll MV.Spec.Coll

theorem countP_le_of_imp (p q : Int → Bool) : ∀ l : List Int, (∀ a ∈ l, p a = true → q a = true) → l.countP p ≤ l.countP q := by
  intro l
  induction l with
  | nil => intro _; simp
  | cons a as ih =>
    intro h
    have ih' := ih (fun b hb => h b (List.mem_cons_of_mem _ hb))
    have ha := h a (by simp)
    simp only [List.countP_cons]
    cases hp : p a <;> cases hq : q a <;> simp_all <;> omega

theorem countP_lt_of_imp (p q : Int → Bool) : ∀ l : List Int, (∀ a ∈ l, p a = true → q a = true) →
    (∃ x ∈ l, q x = true ∧ p x = false) → l.countP p < l.countP q := by
  intro l
  induction l with
  | nil => intro _ ⟨x, hx, _⟩; simp at hx
  | cons a as ih =>
    intro h ⟨x, hx, hqx, hpx⟩
    have himp := fun b hb => h b (List.mem_cons_of_mem _ hb)
    have hle := countP_le_of_imp p q as himp
    have ha := h a (by simp)
    simp only [List.countP_cons]
    simp only [List.mem_cons] at hx
    rcases hx with rfl | hx
    · simp [hqx, hpx]; omega
    · have := ih himp ⟨x, hx, hqx, hpx⟩
      cases hp : p a <;> cases hq : q a <;> simp_all <;> omega

open Classical in
/-- in an acyclic dependency graph the number of indices that reach a node strictly grows along every edge -/
theorem exists_rank_of_acyclic (edges : List (Int × Int)) (ids : List Int) (hends : ∀ e ∈ edges, e.1 ∈ ids)
    (hac : ∀ x, ¬ Reach edges x x) : ∃ f : Int → Nat, ∀ e ∈ edges, f e.1 < f e.2 := by
  refine ⟨fun x => ids.countP (fun a => decide (Reach edges a x)), ?_⟩
  intro e he
  apply countP_lt_of_imp
  · intro a _ ha
    have : Reach edges a e.1 := by simpa using ha
    simpa using Reach.trans this (Reach.step (by simpa using he))
  · refine ⟨e.1, hends e he, ?_, ?_⟩
    · simpa using (Reach.step (by simpa using he) : Reach edges e.1 e.2)
    · simpa using hac e.1

/-- no cycle ⇒ the judge's search finds an order -/
theorem orderExists_of_acyclic (items : List (Int × List Int)) (hnd : (items.map (·.1)).Nodup)
    (hac : ∀ x, ¬ Reach (edgesOf items) x x) : orderExists items = true := by
  have hends : ∀ e ∈ edgesOf items, e.1 ∈ ([] : List Int) ++ items.map (·.1) ∧ e.2 ∈ ([] : List Int) ++ items.map (·.1) := by
    intro e he
    obtain ⟨it, hit, h1, _, h3⟩ := (mem_edgesOf items e.1 e.2).mp he
    exact ⟨by simp only [List.nil_append]; rw [← h1]; exact List.mem_map.mpr ⟨it, hit, rfl⟩, by simpa using h3⟩
  obtain ⟨f, hf⟩ := exists_rank_of_acyclic (edgesOf items) (items.map (·.1)) (fun e he => by simpa using (hends e he).1) hac
  have := kahn_valid (edgesOf items) f hf (items.map (·.1)).length (items.map (·.1)) []
    (Nat.le_refl _) (by simpa using hnd) hends (by intro e _ h2; simp at h2)
  simp only [List.nil_append] at this
  simp only [orderExists]
  exact (validOrder_iff items _).mpr this

/-- error ⇔ cycle: with distinct indices the judge accepts `ErrCircularDependencyDetected` exactly when some item
    depends on itself through a chain of dependencies, and accepts an order only when there is no such chain -/
theorem topoVerdict_none_iff_cycle (items : List (Int × List Int)) (hnd : (items.map (·.1)).Nodup) :
    topoVerdict items none = true ↔ ∃ x, Reach (edgesOf items) x x := by
  rw [topoVerdict_none_iff items hnd]
  constructor
  · intro hno
    apply Classical.byContradiction
    intro hnc
    have hac : ∀ x, ¬ Reach (edgesOf items) x x := fun x hx => hnc ⟨x, hx⟩
    exact hno ⟨_, orderExists_of_acyclic items hnd hac⟩
  · rintro ⟨x, hx⟩ ⟨out, hv⟩
    exact validOrder_acyclic items out hv x hx

end MV.Lemmas.Coll
