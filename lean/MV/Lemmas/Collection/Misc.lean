import MV.Lemmas.Collection.Dedup
import MV.Lemmas.Collection.Maps
import MV.Lemmas.Collection.Random
/-! Further laws: value sets, `InvertMap`, combinations, no-repeat element choice. -/
namespace MV.Lemmas.Coll
open MV.Model.Coll MV.Spec.Coll

/-- `ConvertSliceToMap`/`ConvertSliceToBoolMap`: the key set is the set of distinct values (first-insertion order) -/
theorem setOf_eq (l : List Int) : ∀ r : List Int, setOf r l = r ++ (firstOcc l).filter (fun y => !r.contains y) := by
  induction l with
  | nil => intro r; simp [setOf, firstOcc, firstOccBy]
  | cons v vs ih =>
    intro r
    simp only [setOf]
    by_cases hv : r.contains v = true
    · simp only [hv, if_true]
      rw [ih r]
      simp only [firstOcc, firstOccBy, List.filter_cons, hv, Bool.not_true, Bool.false_eq_true, if_false, List.filter_filter]
      congr 1
      apply filter_congr'
      intro x _
      have hv2 : v ∈ r := by simpa using hv
      by_cases hx2 : x ∈ r <;> by_cases hvx : v = x <;> simp_all
    · have hv' : r.contains v = false := by simpa using hv
      simp only [hv', Bool.false_eq_true, if_false]
      rw [ih (r ++ [v])]
      simp only [firstOcc, firstOccBy, List.filter_cons, hv', Bool.not_false, if_true, List.filter_filter,
        List.append_assoc, List.singleton_append]
      congr 2
      apply filter_congr'
      intro x _
      simp only [List.contains_eq_mem, List.mem_append, List.mem_singleton]
      by_cases hx2 : x ∈ r <;> by_cases hvx : x = v <;> simp_all
      exact fun hh => hvx hh.symm

theorem setOf_nil (l : List Int) : setOf [] l = firstOcc l := by
  rw [setOf_eq]; simp

/-- `InvertMap` on a map with pairwise different values swaps every entry -/
theorem invertGo_append (m : List (Int × Int)) : ∀ r : List (Int × Int), (keysOf r ++ valsOf m).Nodup →
    invertGo r m = r ++ m.map (fun e => (e.2, e.1)) := by
  induction m with
  | nil => intro r _; simp [invertGo]
  | cons e es ih =>
    intro r hnd
    obtain ⟨k, v⟩ := e
    simp only [invertGo]
    have hv : v ∉ keysOf r := by
      simp only [valsOf, List.map_cons] at hnd
      have := (List.nodup_append.mp hnd).2.2
      intro hvr
      exact this v hvr v (by simp) rfl
    rw [mset_of_not_mem r v k hv, ih (r ++ [(v, k)]) (by
      simp only [keysOf, valsOf, List.map_append, List.map_cons, List.map_nil, List.append_assoc, List.singleton_append] at hnd ⊢
      exact hnd)]
    simp

/-! ### combinations -/

/-- soundness: every emitted combination extends `cur` by a non-empty sub-sequence of the remaining elements and has an
    admissible size -/
theorem combosLoop_sound (lo hi : Int) : ∀ (l cur c : List Int), c ∈ combosLoop lo hi cur l →
    ∃ t, t.Sublist l ∧ t ≠ [] ∧ c = cur ++ t ∧ lo ≤ (c.length : Int) ∧ (c.length : Int) ≤ hi := by
  intro l
  induction l with
  | nil => intro cur c h; simp [combosLoop] at h
  | cons x post ih =>
    intro cur c h
    simp only [combosLoop, List.mem_append] at h
    rcases h with (h | h) | h
    · split at h
      · rename_i hr
        simp only [List.mem_singleton] at h
        subst h
        exact ⟨[x], by simp, by simp, rfl, hr.1, hr.2⟩
      · simp at h
    · obtain ⟨t, hs, _, hc, hlo, hhi⟩ := ih (cur ++ [x]) c h
      exact ⟨x :: t, List.Sublist.cons_cons x hs, by simp, by simp [hc], hlo, hhi⟩
    · obtain ⟨t, hs, hne, hc, hlo, hhi⟩ := ih cur c h
      exact ⟨t, List.Sublist.cons x hs, hne, hc, hlo, hhi⟩

/-- completeness: every non-empty sub-sequence of admissible size is emitted -/
theorem combosLoop_complete (lo hi : Int) : ∀ (l t : List Int), t.Sublist l → t ≠ [] → ∀ cur : List Int,
    lo ≤ ((cur ++ t).length : Int) → ((cur ++ t).length : Int) ≤ hi → cur ++ t ∈ combosLoop lo hi cur l := by
  intro l t hs
  induction hs with
  | slnil => intro h; exact absurd rfl h
  | cons x _ ih =>
    intro hne cur hlo hhi
    simp only [combosLoop, List.mem_append]
    exact Or.inr (ih hne cur hlo hhi)
  | @cons_cons t' l' x hs' ih =>
    intro _ cur hlo hhi
    simp only [combosLoop, List.mem_append]
    by_cases ht : t' = []
    · subst ht
      refine Or.inl (Or.inl ?_)
      have : lo ≤ ((cur ++ [x]).length : Int) ∧ ((cur ++ [x]).length : Int) ≤ hi := ⟨hlo, hhi⟩
      simp only [this, and_self, if_true, List.mem_singleton]
    · refine Or.inl (Or.inr ?_)
      have := ih ht (cur ++ [x]) (by simpa using hlo) (by simpa using hhi)
      simpa using this

/-! ### no-repeat element choice -/

/-- taking the elements at pairwise distinct valid positions gives a sub-multiset of the slice -/
theorem map_nodup_indices_subMultiset (l : List Int) (is : List Nat) (hnd : is.Nodup) (hr : ∀ i ∈ is, i < l.length) :
    subMultiset (is.map (fun i => l.getD i 0)) l = true := by
  rw [subMultiset_iff]
  let rest := (List.range l.length).filter (fun i => !is.contains i)
  refine ⟨rest.map (fun i => l.getD i 0), ?_⟩
  have hperm : (is ++ rest).Perm (List.range l.length) := by
    apply (List.perm_ext_iff_of_nodup ?_ List.nodup_range).mpr
    · intro a
      simp only [List.mem_append, List.mem_filter, List.mem_range, rest, Bool.not_eq_true', List.contains_eq_mem,
        decide_eq_false_iff_not]
      constructor
      · rintro (h | h)
        · exact hr a h
        · exact h.1
      · intro h
        by_cases ha : a ∈ is
        · exact Or.inl ha
        · exact Or.inr ⟨h, ha⟩
    · apply List.nodup_append.mpr
      refine ⟨hnd, List.nodup_range.sublist List.filter_sublist, ?_⟩
      intro a ha b hb hab
      subst hab
      simp only [List.mem_filter, rest, Bool.not_eq_true', List.contains_eq_mem, decide_eq_false_iff_not] at hb
      exact hb.2 ha
  have := hperm.map (fun i => l.getD i 0)
  rw [List.map_append] at this
  refine this.trans ?_
  have : (List.range l.length).map (fun i => l.getD i 0) = l := by
    apply List.ext_getElem
    · simp
    · intro i h1 h2
      simp [List.getD]
      simp at h1
      simp [h1]
  rw [this]

end MV.Lemmas.Coll
