import MV.Model.Collection.Order
import MV.Spec.Collection
/-! Lemmas about random.go (no-repeat choices) and the judge predicates used for it. -/
namespace MV.Lemmas.Coll
open MV.Model.Coll MV.Spec.Coll

theorem le_count_of_getElem (l : List Nat) (i : Nat) (hi : i < l.length) (z : Nat) :
    (if (l[i] == z) = true then 1 else 0) ≤ l.count z := by
  by_cases h : (l[i] == z) = true
  · simp only [h, if_true]
    have : z ∈ l := by
      have : l[i] = z := by simpa using h
      rw [← this]; exact List.getElem_mem hi
    exact List.count_pos_iff.mpr this
  · simp [h]

/-- swapping two cells of a slice rearranges it -/
theorem swap_perm (l : List Nat) (i j : Nat) (hi : i < l.length) (hj : j < l.length) :
    ((l.set i l[j]).set j l[i]).Perm l := by
  rw [List.perm_iff_count]
  intro z
  rw [List.count_set (by simpa using hj), List.count_set hi]
  simp only [List.getElem_set]
  have h1 := le_count_of_getElem l i hi z
  have h2 := le_count_of_getElem l j hj z
  by_cases hij : i = j
  · subst hij
    simp only [if_true]
    omega
  · simp only [hij, if_false]
    omega

/-- the partial Fisher–Yates loop only rearranges the index slice, whatever the draws are (as long
    as they are valid positions) -/
theorem fyGo_perm : ∀ (js : List Nat) (i : Nat) (idx : List Nat), (∀ j ∈ js, j < idx.length) → i + js.length ≤ idx.length →
    (fyGo js i idx).Perm idx := by
  intro js
  induction js with
  | nil => intro i idx _ _; simp [fyGo]
  | cons j js ih =>
    intro i idx hj hlen
    simp only [List.length_cons] at hlen
    have hi : i < idx.length := by omega
    have hj' : j < idx.length := hj j (by simp)
    simp only [fyGo]
    have e1 : idx.getD i 0 = idx[i] := by simp [List.getD, hi]
    have e2 : idx.getD j 0 = idx[j] := by simp [List.getD, hj']
    rw [e1, e2]
    have hsw := swap_perm idx i j hi hj'
    have := ih (i + 1) ((idx.set i idx[j]).set j idx[i]) (by
      intro k hk; simp; exact hj k (by simp [hk])) (by simp; omega)
    exact this.trans hsw

theorem distinct_iff (l : List Int) : distinct l = true ↔ l.Nodup := by
  induction l with
  | nil => simp [distinct]
  | cons x xs ih =>
    simp only [distinct, Bool.and_eq_true, Bool.not_eq_true', List.nodup_cons, ih]
    constructor
    · rintro ⟨h1, h2⟩; exact ⟨by simpa using h1, h2⟩
    · rintro ⟨h1, h2⟩; exact ⟨by simpa using h1, h2⟩

/-- the judge predicate for no-repeat choices, as a statement -/
theorem distinctMembers_iff (out pool : List Int) :
    distinctMembers out pool = true ↔ out.Nodup ∧ ∀ x ∈ out, x ∈ pool := by
  simp [distinctMembers, distinct_iff]

/-- `ChooseRandomIndexN` (as fixed): for every draw list with valid positions the answer has `n`
    pairwise distinct indices of the slice -/
theorem chooseRandomIndexN_spec (l : List Int) (n : Nat) (draws : List Nat) (hne : l ≠ []) (hn : n ≤ l.length)
    (hd : ∀ d ∈ draws, d < l.length) :
    ∃ out, chooseRandomIndexN l (n : Int) draws = some (some out) ∧ out.length = n ∧ out.Nodup ∧
      ∀ x ∈ out, 0 ≤ x ∧ x < (l.length : Int) := by
  have hlen : ¬ l.length = 0 := by
    intro h; exact hne (List.length_eq_zero_iff.mp h)
  have hn' : ¬ ((n : Int) > (l.length : Int) ∨ (n : Int) < 0) := by omega
  simp only [chooseRandomIndexN, hlen, if_false, hn', Int.toNat_natCast]
  refine ⟨_, rfl, ?_, ?_, ?_⟩
  · have hp := fyGo_perm (draws.take n) 0 (List.range l.length)
      (by intro j hj; simp; exact hd j (List.mem_of_mem_take hj)) (by simp; omega)
    simp [hp.length_eq]; omega
  · have hp := fyGo_perm (draws.take n) 0 (List.range l.length)
      (by intro j hj; simp; exact hd j (List.mem_of_mem_take hj)) (by simp; omega)
    have hnd : (fyGo (draws.take n) 0 (List.range l.length)).Nodup := hp.symm.nodup List.nodup_range
    have hnd2 : ((fyGo (draws.take n) 0 (List.range l.length)).take n).Nodup := hnd.sublist (List.take_sublist _ _)
    exact List.Pairwise.map _ (by intro a b h hh; exact h (by omega)) hnd2
  · intro x hx
    have hp := fyGo_perm (draws.take n) 0 (List.range l.length)
      (by intro j hj; simp; exact hd j (List.mem_of_mem_take hj)) (by simp; omega)
    obtain ⟨d, hd1, rfl⟩ := List.mem_map.mp hx
    have := hp.subset (List.mem_of_mem_take hd1)
    simp at this
    omega

/-! ### sub-multisets (positions drawn without repetition from a slice that may contain duplicates) -/

theorem subMultiset_iff : ∀ (a b : List Int), subMultiset a b = true ↔ ∃ rest, (a ++ rest).Perm b := by
  intro a
  induction a with
  | nil => intro b; simp [subMultiset]; exact ⟨b, List.Perm.refl _⟩
  | cons x xs ih =>
    intro b
    simp only [subMultiset, Bool.and_eq_true, List.contains_iff_mem, ih]
    constructor
    · rintro ⟨hx, rest, hp⟩
      refine ⟨rest, ?_⟩
      simp only [List.cons_append]
      exact (List.Perm.cons x hp).trans (List.perm_cons_erase hx).symm
    · rintro ⟨rest, hp⟩
      simp only [List.cons_append] at hp
      have hx : x ∈ b := hp.subset (by simp)
      refine ⟨hx, rest, ?_⟩
      exact List.Perm.cons_inv (hp.trans (List.perm_cons_erase hx))

end MV.Lemmas.Coll
