import MV.Model.Collection.Order
import MV.Spec.Collection
/-! In-place compaction on the backing array computes what the copying loop computes, provided
the keep-decision only looks at the elements kept so far (`arr.take w`), the loop state, the read
index and the value read. -/
namespace MV.Lemmas.Coll
open MV.Model.Coll MV.Spec.Coll

theorem range'_succ_left (r n : Nat) : List.range' r (n + 1) = r :: List.range' (r + 1) n := by
  simp [List.range'_succ]

theorem compactFrom_spec {σ : Type} (keep : List Int → Nat → σ → Nat → Int → Bool)
    (keepC : List Int → σ → Nat → Int → Bool) (upd : σ → Nat → Int → σ)
    (hk : ∀ arr w st i v, keep arr w st i v = keepC (arr.take w) st i v) :
    ∀ (rest : List Int) (r : Nat) (c : CSt σ), c.w ≤ r → r + rest.length = c.arr.length → c.arr.drop r = rest →
      (compactFrom keep upd (List.range' r rest.length) c).arr.take (compactFrom keep upd (List.range' r rest.length) c).w
          = copyFrom keepC upd (enumFrom r rest) (c.arr.take c.w) c.st
        ∧ (compactFrom keep upd (List.range' r rest.length) c).arr.length = c.arr.length
        ∧ (compactFrom keep upd (List.range' r rest.length) c).w ≤ c.arr.length := by
  intro rest
  induction rest with
  | nil =>
    intro r c hw hl hd
    simp [compactFrom, copyFrom, enumFrom]
    simp at hl; omega
  | cons v rest ih =>
    intro r c hw hl hd
    simp only [List.length_cons] at hl ⊢
    rw [range'_succ_left]
    have hr : r < c.arr.length := by omega
    have hv : c.arr.getD r 0 = v := by
      have : c.arr[r]? = some v := by
        have := congrArg (fun l => l[0]?) hd
        simpa using this
      simp [List.getD, this]
    unfold compactFrom
    simp only [hv, enumFrom, copyFrom]
    rw [hk]
    by_cases hkeep : keepC (c.arr.take c.w) c.st r v = true
    · simp only [hkeep, if_true]
      have hd' : (c.arr.set c.w v).drop (r + 1) = rest := by
        have h1 : (c.arr.set c.w v).drop (r + 1) = c.arr.drop (r + 1) := by
          apply List.ext_getElem
          · simp
          · intro i h1 h2
            simp [List.getElem_drop, List.getElem_set]
            omega
        rw [h1]
        have := congrArg List.tail hd
        simpa using this
      have ht : (c.arr.set c.w v).take (c.w + 1) = c.arr.take c.w ++ [v] := by
        apply List.ext_getElem
        · simp; omega
        · intro i h1 h2
          simp [List.getElem_take, List.getElem_set, List.getElem_append]
          simp at h1
          by_cases hi : i < c.w
          · have : ¬ c.w = i := by omega
            simp [hi, this]
            intro hh; omega
          · have : c.w = i := by omega
            simp [this]
            intro hh; omega
      have := ih (r + 1) ⟨c.arr.set c.w v, c.w + 1, upd c.st r v⟩ (by simp; omega) (by simp; omega) hd'
      simp only [List.length_set] at this
      rw [ht] at this
      exact this
    · have hkeep' : keepC (c.arr.take c.w) c.st r v = false := by simpa using hkeep
      simp only [hkeep', Bool.false_eq_true, if_false]
      have hd' : c.arr.drop (r + 1) = rest := by
        have := congrArg List.tail hd
        simpa using this
      exact ih (r + 1) c (by omega) (by omega) hd'

/-- in-place = copying: the visible result `(*s)[:w]` equals what the copying loop builds -/
theorem compact_result {σ : Type} (keep : List Int → Nat → σ → Nat → Int → Bool)
    (keepC : List Int → σ → Nat → Int → Bool) (upd : σ → Nat → Int → σ)
    (hk : ∀ arr w st i v, keep arr w st i v = keepC (arr.take w) st i v) (l : List Int) (st0 : σ) :
    (compact keep upd l st0).result = copyFrom keepC upd (enumFrom 0 l) [] st0 := by
  have := (compactFrom_spec keep keepC upd hk l 0 ⟨l, 0, st0⟩ (by simp) (by simp) (by simp)).1
  simp only [List.take_zero] at this
  unfold compact InPlace.result
  rw [List.range_eq_range']
  exact this

end MV.Lemmas.Coll
