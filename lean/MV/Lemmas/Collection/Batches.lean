import MV.Model.Collection.Order
import MV.Spec.Collection
/-! Lemmas about `ConvertSliceToBatches` (convert.go) and `ReverseSlice`. -/
namespace MV.Lemmas.Coll
open MV.Model.Coll MV.Spec.Coll

/-- the index loop of the code produces the chunks of the remaining suffix -/
theorem batchesGo_eq_chunk (l : List Int) (n : Nat) : ∀ fuel i, batchesGo l n fuel i = chunk n fuel (l.drop i) := by
  intro fuel
  induction fuel with
  | zero => intro i; rfl
  | succ f ih =>
    intro i
    simp only [batchesGo, chunk]
    by_cases h : i < l.length
    · have : (l.drop i).isEmpty = false := by
        simp [List.isEmpty_iff]; omega
      simp only [h, if_true, this, Bool.false_eq_true, if_false, ih (i + n), List.drop_drop]
    · have : (l.drop i).isEmpty = true := by
        simp [List.isEmpty_iff]; omega
      simp [h, this]

theorem chunk_join (n : Nat) (hn : 1 ≤ n) : ∀ fuel (l : List Int), l.length ≤ fuel → (chunk n fuel l).flatten = l := by
  intro fuel
  induction fuel with
  | zero => intro l h; simp at h; simp [chunk, h]
  | succ f ih =>
    intro l h
    simp only [chunk]
    cases l with
    | nil => simp
    | cons x xs =>
      simp only [List.isEmpty_cons, Bool.false_eq_true, if_false, List.flatten_cons]
      rw [ih]
      · exact List.take_append_drop n (x :: xs)
      · simp only [List.length_drop, List.length_cons] at h ⊢; omega

theorem chunk_sizes (n : Nat) (hn : 1 ≤ n) : ∀ fuel (l : List Int), l.length ≤ fuel → batchSizesOk n (chunk n fuel l) = true := by
  intro fuel
  induction fuel with
  | zero => intro l h; simp [chunk, batchSizesOk]
  | succ f ih =>
    intro l h
    simp only [chunk]
    cases hl : l with
    | nil => simp [batchSizesOk]
    | cons x xs =>
      subst hl
      simp only [List.isEmpty_cons, Bool.false_eq_true, if_false]
      have hrest := ih ((x :: xs).drop n) (by simp only [List.length_drop, List.length_cons] at h ⊢; omega)
      -- is there another chunk?
      cases hc : chunk n f ((x :: xs).drop n) with
      | nil =>
        simp only [batchSizesOk, List.length_take, List.length_cons]
        simp; omega
      | cons b bs =>
        rw [hc] at hrest
        simp only [batchSizesOk, hrest, Bool.and_true, List.length_take, List.length_cons]
        -- the rest is non-empty, so the drop is non-empty, so this chunk is full
        have hne : ((x :: xs).drop n) ≠ [] := by
          intro he
          rw [he] at hc
          cases f <;> simp [chunk] at hc
        have : n < (x :: xs).length := by
          apply Nat.lt_of_not_le
          intro hh
          exact hne (List.drop_eq_nil_of_le hh)
        simp only [List.length_cons] at this
        have hmin : min n (xs.length + 1) = n := by omega
        simp [hmin]

/-- `Bool` size predicate, read as a statement -/
theorem batchSizesOk_iff (n : Nat) (bs : List (List Int)) :
    batchSizesOk n bs = true ↔ (∀ b ∈ bs.dropLast, b.length = n) ∧ (∀ b ∈ bs.getLast?, 1 ≤ b.length ∧ b.length ≤ n) := by
  induction bs with
  | nil => simp [batchSizesOk]
  | cons b rest ih =>
    cases rest with
    | nil => simp [batchSizesOk]
    | cons c rest' =>
      simp only [batchSizesOk, Bool.and_eq_true, beq_iff_eq, ih, List.dropLast_cons₂, List.mem_cons, forall_eq_or_imp,
        List.getLast?_cons_cons]
      constructor
      · rintro ⟨h1, h2, h3⟩; exact ⟨⟨h1, h2⟩, h3⟩
      · rintro ⟨⟨h1, h2⟩, h3⟩; exact ⟨h1, h2, h3⟩

/-! ### ReverseSlice -/

theorem reverseFrom_append (xs ys : List Nat) : ∀ a : List Int, reverseFrom (xs ++ ys) a = reverseFrom ys (reverseFrom xs a) := by
  induction xs with
  | nil => intro a; rfl
  | cons x xs ih => intro a; simp [reverseFrom, ih]

theorem reverseFrom_inv (a : List Int) : ∀ k, 2 * k ≤ a.length →
    (reverseFrom (List.range k) a).length = a.length ∧
    ∀ j, j < a.length → (reverseFrom (List.range k) a)[j]? =
      if j < k ∨ a.length - 1 - j < k then a[a.length - 1 - j]? else a[j]? := by
  intro k
  induction k with
  | zero => intro _; simp [reverseFrom]
  | succ k ih =>
    intro hk
    obtain ⟨hlen, hget⟩ := ih (by omega)
    rw [List.range_succ, reverseFrom_append]
    generalize hb : reverseFrom (List.range k) a = b at hlen hget
    simp only [reverseFrom, hlen]
    refine ⟨by simp [hlen], ?_⟩
    intro j hj
    have hbk : b.getD k 0 = a.getD k 0 := by
      have := hget k (by omega)
      have h2 : ¬ (k < k ∨ a.length - 1 - k < k) := by omega
      simp only [h2, if_false] at this
      simp [List.getD, this]
    have hbk' : b.getD (a.length - k - 1) 0 = a.getD (a.length - k - 1) 0 := by
      have := hget (a.length - k - 1) (by omega)
      have h2 : ¬ (a.length - k - 1 < k ∨ a.length - 1 - (a.length - k - 1) < k) := by omega
      simp only [h2, if_false] at this
      simp [List.getD, this]
    rw [hbk, hbk']
    simp only [List.getElem?_set, List.length_set, hlen]
    have hgj := hget j hj
    by_cases h1 : a.length - k - 1 = j
    · have hjk : ¬ k = j := by omega
      simp only [h1, if_true, hj]
      have : (j < k + 1 ∨ a.length - 1 - j < k + 1) := by omega
      simp only [this, if_true]
      have e : a.length - 1 - j = k := by omega
      rw [e]
      simp [List.getD]
      have : k < a.length := by omega
      simp [this]
    · simp only [h1, if_false]
      by_cases h2 : k = j
      · subst h2
        simp only [if_true, hj]
        have : (k < k + 1 ∨ a.length - 1 - k < k + 1) := by omega
        simp only [this, if_true]
        have e : a.length - 1 - k = a.length - k - 1 := by omega
        rw [e]
        have : a.length - k - 1 < a.length := by omega
        simp [List.getD, this]
      · simp only [h2, if_false]
        rw [hgj]
        have : (j < k ∨ a.length - 1 - j < k) ↔ (j < k + 1 ∨ a.length - 1 - j < k + 1) := by omega
        by_cases h3 : (j < k ∨ a.length - 1 - j < k)
        · simp [h3, this.mp h3]
        · have h4 : ¬ (j < k + 1 ∨ a.length - 1 - j < k + 1) := fun h => h3 (this.mpr h)
          simp only [h3, h4, if_false]

theorem reverseFrom_eq_reverse (l : List Int) : reverseFrom (List.range (l.length / 2)) l = l.reverse := by
  obtain ⟨hlen, hget⟩ := reverseFrom_inv l (l.length / 2) (by omega)
  apply List.ext_getElem?
  intro j
  by_cases hj : j < l.length
  · rw [hget j hj, List.getElem?_reverse hj]
    by_cases h : (j < l.length / 2 ∨ l.length - 1 - j < l.length / 2)
    · simp [h]
    · have : l.length - 1 - j = j := by omega
      simp [h, this]
  · rw [List.getElem?_eq_none (by omega), List.getElem?_eq_none (by simp; omega)]

end MV.Lemmas.Coll
