import MV.Lemmas.Collection.Random
/-! What the judge predicates of `MV.Spec.Coll` mean (sortedness, permutations, topological order). -/
namespace MV.Lemmas.Coll
open MV.Model.Coll MV.Spec.Coll

theorem isPermOf_iff (a b : List Int) : isPermOf a b = true ↔ a.Perm b := by
  simp [isPermOf, List.isPerm_iff]

/-- the adjacent-pairs check is sortedness for a transitive relation -/
theorem sortedBy_iff (le : Int → Int → Bool) (htr : ∀ a b c, le a b = true → le b c = true → le a c = true) :
    ∀ l : List Int, sortedBy le l = true ↔ l.Pairwise (fun a b => le a b = true) := by
  intro l
  induction l with
  | nil => simp [sortedBy]
  | cons x xs ih =>
    cases xs with
    | nil => simp [sortedBy]
    | cons y rest =>
      simp only [sortedBy, Bool.and_eq_true, ih]
      constructor
      · rintro ⟨hxy, hp⟩
        refine List.pairwise_cons.mpr ⟨?_, hp⟩
        intro z hz
        simp only [List.mem_cons] at hz
        rcases hz with rfl | hz
        · exact hxy
        · exact htr x y z hxy ((List.pairwise_cons.mp hp).1 z hz)
      · intro hp
        have := List.pairwise_cons.mp hp
        exact ⟨this.1 y (by simp), this.2⟩

theorem sortedPermAsc_iff (g : Int → Int) (l out : List Int) :
    sortedPermAsc g l out = true ↔ out.Perm l ∧ out.Pairwise (fun a b => g a ≤ g b) := by
  unfold sortedPermAsc
  rw [Bool.and_eq_true, isPermOf_iff, sortedBy_iff _ (by intro a b c; simp; omega)]
  simp

theorem sortedPermDesc_iff (g : Int → Int) (l out : List Int) :
    sortedPermDesc g l out = true ↔ out.Perm l ∧ out.Pairwise (fun a b => g a ≥ g b) := by
  unfold sortedPermDesc
  rw [Bool.and_eq_true, isPermOf_iff, sortedBy_iff _ (by intro a b c; simp; omega)]
  simp

/-- the specification is satisfiable: a correct sort is accepted -/
theorem sortedPermAsc_mergeSort (g : Int → Int) (l : List Int) :
    sortedPermAsc g l (l.mergeSort (fun a b => decide (g a ≤ g b))) = true := by
  rw [sortedPermAsc_iff]
  refine ⟨List.mergeSort_perm _ _, ?_⟩
  have := List.pairwise_mergeSort (le := fun a b => decide (g a ≤ g b)) (by intro a b c; simp; omega) (by intro a b; simp; omega) l
  exact this.imp (by intro a b h; simpa using h)

/-! ### topological order -/

/-- `a` (transitively) depends on `b` -/
inductive Reach (edges : List (Int × Int)) : Int → Int → Prop
  | step {a b : Int} : (a, b) ∈ edges → Reach edges a b
  | trans {a b c : Int} : Reach edges a b → Reach edges b c → Reach edges a c

theorem respectsDeps_iff (items : List (Int × List Int)) (out : List Int) :
    respectsDeps items out = true ↔ ∀ e ∈ edgesOf items, posOf out e.1 < posOf out e.2 := by
  simp [respectsDeps, List.all_eq_true]

theorem reach_pos_lt (items : List (Int × List Int)) (out : List Int) (h : respectsDeps items out = true) :
    ∀ a b, Reach (edgesOf items) a b → posOf out a < posOf out b := by
  intro a b hr
  induction hr with
  | step he => exact (respectsDeps_iff items out).mp h _ he
  | trans _ _ ih1 ih2 => omega

/-- an order that respects every dependency can only exist when no item depends on itself through
    a chain of dependencies -/
theorem validOrder_acyclic (items : List (Int × List Int)) (out : List Int) (h : validOrder items out = true) :
    ∀ x, ¬ Reach (edgesOf items) x x := by
  intro x hx
  simp only [validOrder, Bool.and_eq_true] at h
  have := reach_pos_lt items out h.2 x x hx
  omega

theorem validOrder_iff (items : List (Int × List Int)) (out : List Int) :
    validOrder items out = true ↔ out.Perm (items.map (·.1)) ∧ ∀ e ∈ edgesOf items, posOf out e.1 < posOf out e.2 := by
  simp only [validOrder, Bool.and_eq_true, isPermOf_iff, respectsDeps_iff]

/-- an edge is a dependency on an index that is present -/
theorem mem_edgesOf (items : List (Int × List Int)) (a b : Int) :
    (a, b) ∈ edgesOf items ↔ ∃ it ∈ items, it.1 = a ∧ b ∈ it.2 ∧ b ∈ items.map (·.1) := by
  simp only [edgesOf, List.mem_flatMap, List.mem_map, List.mem_filter, List.contains_iff_mem, Prod.mk.injEq]
  constructor
  · rintro ⟨it, hit, d, ⟨hd1, hd2⟩, rfl, rfl⟩
    exact ⟨it, hit, rfl, hd1, by simpa using hd2⟩
  · rintro ⟨it, hit, rfl, hb1, hb2⟩
    exact ⟨it, hit, b, ⟨hb1, by simpa using hb2⟩, rfl, rfl⟩

end MV.Lemmas.Coll
