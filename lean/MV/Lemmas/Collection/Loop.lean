import MV.Lemmas.Collection.FindLoop
import MV.Lemmas.Collection.Equal
import MV.Lemmas.Collection.Judge
/-! The map loops of loop.go satisfy the judge predicate `visitedPairsMatch` for every iteration order and every
sorted key order `sort.Slice` may produce. -/
namespace MV.Lemmas.Coll
open MV.Model.Coll MV.Spec.Coll

/-- sort key used by the judge -/
def keyOf (m : List (Int × Int)) (c : Int → Int → Int) (desc : Bool) (k : Int) : Int :=
  if desc then - c k (mget m k) else c k (mget m k)

theorem triplesOf_length (m : List (Int × Int)) (ks : List Int) : (triplesOf m ks).length = ks.length := by
  simp [triplesOf, enumFrom_length]

theorem triplesOf_fst (m : List (Int × Int)) (ks : List Int) : (triplesOf m ks).map (·.1) = List.range ks.length := by
  simp only [triplesOf, List.map_map, enumFrom_eq]
  apply List.ext_getElem
  · simp
  · intro i h1 h2; simp

theorem triplesOf_keys (m : List (Int × Int)) (ks : List Int) : (triplesOf m ks).map (·.2.1) = ks := by
  simp only [triplesOf, List.map_map]
  have : ((fun x : Nat × Int × Int => x.2.1) ∘ fun p : Nat × Int => (p.1, p.2, mget m p.2)) = (·.2) := by
    funext p; rfl
  rw [this, enumFrom_map_snd]

theorem mem_triplesOf (m : List (Int × Int)) (ks : List Int) (t : Nat × Int × Int) (ht : t ∈ triplesOf m ks) :
    t.2.1 ∈ ks ∧ t.2.2 = mget m t.2.1 := by
  simp only [triplesOf, List.mem_map] at ht
  obtain ⟨p, hp, rfl⟩ := ht
  refine ⟨?_, rfl⟩
  have := List.mem_map_of_mem (f := (·.2)) hp
  rwa [enumFrom_map_snd] at this

theorem mget_of_mem (m : List (Int × Int)) (hd : (keysOf m).Nodup) (e : Int × Int) (he : e ∈ m) : mget m e.1 = e.2 := by
  simp [mget, lookup_of_mem m hd e.1 e.2 he]

theorem pairwise_sortedBy (le : Int → Int → Bool) : ∀ l : List Int, l.Pairwise (fun a b => le a b = true) → sortedBy le l = true := by
  intro l
  induction l with
  | nil => intro _; rfl
  | cons x xs ih =>
    intro hp
    cases xs with
    | nil => rfl
    | cons y rest =>
      have := List.pairwise_cons.mp hp
      simp only [sortedBy, Bool.and_eq_true]
      exact ⟨this.1 y (by simp), ih this.2⟩

/-- main lemma: visiting `(i, k, m[k])` along a key order that is a rearrangement of the keys, sorted by the
    criterion when one is promised, up to the `stop`-th callback, passes the judge -/
theorem visited_triples_match (m : List (Int × Int)) (hd : (keysOf m).Nodup) (ks : List Int) (hp : ks.Perm (keysOf m))
    (crit : Option (Int → Int → Int)) (desc : Bool) (stop : Nat)
    (hs : ∀ c, crit = some c → ks.Pairwise (fun a b => keyOf m c desc a ≤ keyOf m c desc b)) :
    visitedPairsMatch m crit desc stop (visited stop (triplesOf m ks)) = true := by
  have hlen : ks.length = m.length := by simpa [keysOf] using hp.length_eq
  have hnd : ks.Nodup := hp.symm.nodup hd
  -- the visited list is a prefix of the triples
  obtain ⟨s, hvis⟩ : ∃ s, visited stop (triplesOf m ks) = (triplesOf m ks).take s ∧
      min s ks.length = (if stop = 0 ∨ stop ≥ m.length then m.length else stop) := by
    by_cases h0 : stop = 0
    · refine ⟨ks.length, ?_, by simp [h0, hlen]⟩
      simp [visited, h0, ← triplesOf_length m ks]
    · refine ⟨stop, by simp [visited, h0], ?_⟩
      by_cases h1 : stop ≥ m.length
      · simp [h0, h1]; omega
      · simp [h0, h1]; omega
  obtain ⟨hv, hmin⟩ := hvis
  rw [hv]
  have hkeys : ((triplesOf m ks).take s).map (·.2.1) = ks.take s := by
    rw [List.map_take, triplesOf_keys]
  unfold visitedPairsMatch
  simp only [Bool.and_eq_true]
  refine ⟨⟨⟨⟨?_, ?_⟩, ?_⟩, ?_⟩, ?_⟩
  · -- positions 0,1,2,…
    rw [List.map_take, triplesOf_fst, List.length_take, triplesOf_length, List.take_range]
    simp
  · -- every pair is an entry of m
    rw [List.all_eq_true]
    intro t ht
    obtain ⟨hk, hvv⟩ := mem_triplesOf m ks t (List.mem_of_mem_take ht)
    have hk' : t.2.1 ∈ keysOf m := hp.subset hk
    obtain ⟨e, he, hek⟩ := List.mem_map.mp hk'
    have := mget_of_mem m hd e he
    rw [List.contains_iff_mem]
    have : (t.2.1, t.2.2) = e := by
      rw [hvv, ← hek, this]
    rw [this]; exact he
  · -- no key twice
    rw [hkeys, distinct_iff]
    exact hnd.sublist (List.take_sublist _ _)
  · -- number of visits
    rw [List.length_take, triplesOf_length, hmin]
    simp
  · -- order
    cases crit with
    | none => rfl
    | some c =>
      have hsorted := hs c rfl
      simp only [Bool.and_eq_true]
      have hkeyt : ∀ t ∈ (triplesOf m ks).take s,
          (if desc then - c t.2.1 t.2.2 else c t.2.1 t.2.2) = keyOf m c desc t.2.1 := by
        intro t ht
        obtain ⟨_, hvv⟩ := mem_triplesOf m ks t (List.mem_of_mem_take ht)
        simp [keyOf, hvv]
      have hsplit : ks = ks.take s ++ ks.drop s := (List.take_append_drop s ks).symm
      have hpw := hsorted
      rw [hsplit, List.pairwise_append] at hpw
      refine ⟨?_, ?_⟩
      · apply pairwise_sortedBy
        have : ((triplesOf m ks).take s).map (fun t => if desc then - c t.2.1 t.2.2 else c t.2.1 t.2.2)
            = (ks.take s).map (keyOf m c desc) := by
          rw [← hkeys, List.map_map]
          apply List.map_congr_left
          intro t ht
          exact hkeyt t ht
        rw [this]
        exact List.Pairwise.map _ (by intro a b h; simpa using h) hpw.1
      · rw [List.all_eq_true]
        intro e he
        rw [List.all_eq_true]
        intro t ht
        simp only [List.mem_filter, Bool.not_eq_true', hkeys] at he
        have hek : e.1 ∈ ks := hp.symm.subset (List.mem_map.mpr ⟨e, he.1, rfl⟩)
        have hnot : e.1 ∉ ks.take s := by
          intro hin
          have : (ks.take s).contains e.1 = true := List.contains_iff_mem.mpr hin
          rw [this] at he; exact absurd he.2 (by simp)
        have hdrop : e.1 ∈ ks.drop s := by
          rw [hsplit] at hek
          rcases List.mem_append.mp hek with h | h
          · exact absurd h hnot
          · exact h
        have htk : t.2.1 ∈ ks.take s := by
          rw [← hkeys]; exact List.mem_map.mpr ⟨t, ht, rfl⟩
        have := hpw.2.2 _ htk _ hdrop
        have hee : (if desc then - c e.1 e.2 else c e.1 e.2) = keyOf m c desc e.1 := by
          simp [keyOf, mget_of_mem m hd e he.1]
        have goal : (if desc then - c t.2.1 t.2.2 else c t.2.1 t.2.2) ≤ (if desc then - c e.1 e.2 else c e.1 e.2) := by
          rw [hkeyt t ht, hee]; exact this
        simpa using goal

end MV.Lemmas.Coll

namespace MV.Lemmas.Coll
open MV.Model.Coll MV.Spec.Coll

theorem enumEntries_eq (m : List (Int × Int)) : ∀ (m' : List (Int × Int)) (i : Nat), (∀ e ∈ m', mget m e.1 = e.2) →
    enumEntries i m' = (enumFrom i (keysOf m')).map (fun p => (p.1, p.2, mget m p.2)) := by
  intro m'
  induction m' with
  | nil => intro i _; rfl
  | cons e es ih =>
    intro i h
    obtain ⟨k, v⟩ := e
    simp only [enumEntries, keysOf, List.map_cons, enumFrom]
    rw [ih (i + 1) (fun e he => h e (by simp [he]))]
    have := h (k, v) (by simp)
    simp only at this
    simp [this, keysOf]

/-- what an accepted verdict says about the visits (the clauses that hold whatever order is promised) -/
theorem visitedPairsMatch_sound (m : List (Int × Int)) (crit : Option (Int → Int → Int)) (desc : Bool) (stop : Nat)
    (vis : List (Nat × Int × Int)) (h : visitedPairsMatch m crit desc stop vis = true) :
    vis.map (·.1) = List.range vis.length ∧ (∀ t ∈ vis, (t.2.1, t.2.2) ∈ m) ∧ (vis.map (·.2.1)).Nodup ∧
      vis.length = (if stop = 0 ∨ stop ≥ m.length then m.length else stop) := by
  unfold visitedPairsMatch at h
  simp only [Bool.and_eq_true] at h
  obtain ⟨⟨⟨⟨h1, h2⟩, h3⟩, h4⟩, _⟩ := h
  refine ⟨by simpa using h1, ?_, (distinct_iff _).mp h3, by simpa using h4⟩
  intro t ht
  have := (List.all_eq_true.mp h2) t ht
  exact List.contains_iff_mem.mp this

end MV.Lemmas.Coll
