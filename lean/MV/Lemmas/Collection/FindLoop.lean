import MV.Lemmas.Collection.Filter
/-! Lemmas about `Find…InSlice` and the `Loop…` helpers. -/
namespace MV.Lemmas.Coll
open MV.Model.Coll MV.Spec.Coll

/-- `findFrom` answers the first position whose element satisfies `p` -/
theorem findFrom_some (p : Int → Bool) : ∀ (l : List Int) (i j : Nat) (v : Int), findFrom p i l = some (j, v) →
    ∃ k, j = i + k ∧ l[k]? = some v ∧ p v = true ∧ ∀ k' < k, ∀ x, l[k']? = some x → p x = false := by
  intro l
  induction l with
  | nil => intro i j v h; simp [findFrom] at h
  | cons a as ih =>
    intro i j v h
    simp only [findFrom] at h
    by_cases hp : p a = true
    · simp only [hp, if_true, Option.some.injEq, Prod.mk.injEq] at h
      obtain ⟨rfl, rfl⟩ := h
      exact ⟨0, by simp, by simp, hp, by intro k' hk; omega⟩
    · have hp' : p a = false := by simpa using hp
      simp only [hp', Bool.false_eq_true, if_false] at h
      obtain ⟨k, hj, hk, hpv, hbefore⟩ := ih (i + 1) j v h
      refine ⟨k + 1, by omega, by simpa using hk, hpv, ?_⟩
      intro k' hk' x hx
      cases k' with
      | zero => simp at hx; rw [← hx]; exact hp'
      | succ k'' => exact hbefore k'' (by omega) x (by simpa using hx)

theorem findFrom_none (p : Int → Bool) : ∀ (l : List Int) (i : Nat), findFrom p i l = none ↔ ∀ x ∈ l, p x = false := by
  intro l
  induction l with
  | nil => intro i; simp [findFrom]
  | cons a as ih =>
    intro i
    simp only [findFrom, List.mem_cons, forall_eq_or_imp]
    by_cases hp : p a = true
    · simp [hp]
    · have hp' : p a = false := by simpa using hp
      simp [hp', ih]

/-- the harness callback stops the loop on its `stop`-th call: the visited elements are the first
    `stop` ones (all of them when `stop = 0`) -/
theorem loopGo_eq {α : Type} (stop : Nat) : ∀ (l : List α) (c : Nat), (stop = 0 ∨ c < stop) →
    loopGo stop l c = if stop = 0 then l else l.take (stop - c) := by
  intro l
  induction l with
  | nil => intro c _; simp [loopGo]
  | cons p ps ih =>
    intro c hc
    simp only [loopGo]
    by_cases h0 : stop = 0
    · subst h0
      have hc1 : cont 0 (c + 1) = true := by simp [cont]
      rw [if_pos hc1, ih (c + 1) (Or.inl rfl)]
      simp
    · have hc' : c < stop := by rcases hc with h | h; exact absurd h h0; exact h
      simp only [h0, if_false]
      by_cases he : c + 1 = stop
      · have hc1 : ¬ cont stop (c + 1) = true := by simp [cont, h0, he]
        rw [if_neg hc1]
        have : stop - c = 1 := by omega
        simp [this]
      · have hc1 : cont stop (c + 1) = true := by simp [cont, he]
        rw [if_pos hc1, ih (c + 1) (Or.inr (by omega))]
        simp only [h0, if_false]
        have : stop - c = (stop - (c + 1)) + 1 := by omega
        rw [this, List.take_succ_cons]

theorem loopGo_visited {α : Type} (stop : Nat) (l : List α) : loopGo stop l 0 = visited stop l := by
  rw [loopGo_eq stop l 0 (by omega)]
  simp [visited]

theorem enumFrom_zero_eq_indexed (l : List Int) : enumFrom 0 l = indexed l := by
  rw [enumFrom_eq]; simp [indexed]

/-! ### sorted key order -/

theorem insertSorted_perm (le : Int → Int → Bool) (x : Int) : ∀ l, (insertSorted le x l).Perm (x :: l) := by
  intro l
  induction l with
  | nil => simp [insertSorted]
  | cons y ys ih =>
    simp only [insertSorted]
    by_cases h : le x y = true
    · simp [h]
    · simp only [h, if_false]
      exact (List.Perm.cons y ih).trans (List.Perm.swap x y ys)

theorem isort_perm (le : Int → Int → Bool) : ∀ l, (isort le l).Perm l := by
  intro l
  induction l with
  | nil => simp [isort]
  | cons x xs ih =>
    simp only [isort, List.foldr_cons] at ih ⊢
    exact (insertSorted_perm le x _).trans (List.Perm.cons x ih)

theorem insertSorted_pairwise (le : Int → Int → Bool) (htot : ∀ a b, le a b = true ∨ le b a = true)
    (htr : ∀ a b c, le a b = true → le b c = true → le a c = true) (x : Int) :
    ∀ l, l.Pairwise (fun a b => le a b = true) → (insertSorted le x l).Pairwise (fun a b => le a b = true) := by
  intro l
  induction l with
  | nil => intro _; simp [insertSorted]
  | cons y ys ih =>
    intro hp
    simp only [insertSorted]
    have hp' := List.pairwise_cons.mp hp
    by_cases h : le x y = true
    · simp only [h, if_true]
      refine List.pairwise_cons.mpr ⟨?_, hp⟩
      intro z hz
      simp only [List.mem_cons] at hz
      rcases hz with rfl | hz
      · exact h
      · exact htr x y z h (hp'.1 z hz)
    · simp only [h, if_false]
      refine List.pairwise_cons.mpr ⟨?_, ih hp'.2⟩
      intro z hz
      have hz' := (insertSorted_perm le x ys).subset hz
      simp only [List.mem_cons] at hz'
      rcases hz' with rfl | hz'
      · rcases htot z y with h1 | h1
        · exact absurd h1 h
        · exact h1
      · exact hp'.1 z hz'

theorem isort_pairwise (le : Int → Int → Bool) (htot : ∀ a b, le a b = true ∨ le b a = true)
    (htr : ∀ a b c, le a b = true → le b c = true → le a c = true) :
    ∀ l, (isort le l).Pairwise (fun a b => le a b = true) := by
  intro l
  induction l with
  | nil => simp [isort]
  | cons x xs ih =>
    simp only [isort, List.foldr_cons] at ih ⊢
    exact insertSorted_pairwise le htot htr x _ ih

/-- merge sort and insertion sort agree on every list for an antisymmetric total order (`sort.Slice`
    can do nothing else either) -/
theorem mergeSort_eq_isort_le (l : List Int) :
    l.mergeSort (fun a b => decide (a ≤ b)) = isort (fun a b => decide (a ≤ b)) l := by
  apply List.Perm.eq_of_pairwise (le := fun a b => decide (a ≤ b))
  · intro a b _ _ h1 h2; simp at h1 h2; omega
  · exact List.pairwise_mergeSort (by intro a b c; simp; omega) (by intro a b; simp; omega) l
  · exact isort_pairwise _ (by intro a b; simp; omega) (by intro a b c; simp; omega) l
  · exact (List.mergeSort_perm l _).trans (isort_perm _ l).symm

theorem mergeSort_eq_isort_ge (l : List Int) :
    l.mergeSort (fun a b => decide (a ≥ b)) = isort (fun a b => decide (a ≥ b)) l := by
  apply List.Perm.eq_of_pairwise (le := fun a b => decide (a ≥ b))
  · intro a b _ _ h1 h2; simp at h1 h2; omega
  · exact List.pairwise_mergeSort (by intro a b c; simp; omega) (by intro a b; simp; omega) l
  · exact isort_pairwise _ (by intro a b; simp; omega) (by intro a b c; simp; omega) l
  · exact (List.mergeSort_perm l _).trans (isort_perm _ l).symm

end MV.Lemmas.Coll
