import MV.Model.Collection.Order
import MV.Spec.Collection
/-! Lemmas about `EqualSlice`/`EqualMap` (contains.go). -/
namespace MV.Lemmas.Coll
open MV.Model.Coll MV.Spec.Coll

theorem equalGo_eq (h : Int → Int → Bool) : ∀ (a b : List Int), a.length = b.length →
    equalGo h a b = (List.zipWith h a b).all id := by
  intro a
  induction a with
  | nil => intro b _; simp [equalGo]
  | cons x xs ih =>
    intro b hl
    cases b with
    | nil => simp at hl
    | cons y ys =>
      simp only [equalGo, List.zipWith_cons_cons, List.all_cons, id]
      rw [ih ys (by simpa using hl)]
      cases h x y <;> simp

theorem equalSlice_eq_spec (s1 s2 : Sl) (h : Int → Int → Bool) :
    equalSlice s1 s2 h = equalBy h s1.els s2.els := by
  unfold equalSlice equalBy
  by_cases hl : s1.els.length = s2.els.length
  · have : (s1.els.length != s2.els.length) = false := by simp [hl]
    rw [this]
    simp only [Bool.false_eq_true, if_false, equalGo_eq h _ _ hl, hl, beq_self_eq_true, Bool.true_and]
  · have h1 : (s1.els.length != s2.els.length) = true := by simp [hl]
    have h2 : (s1.els.length == s2.els.length) = false := by simp [hl]
    simp [h1, h2]

theorem equalBy_iff (h : Int → Int → Bool) : ∀ (a b : List Int),
    equalBy h a b = true ↔ a.length = b.length ∧ ∀ i (h1 : i < a.length) (h2 : i < b.length), h a[i] b[i] = true := by
  intro a
  induction a with
  | nil =>
    intro b
    cases b <;> simp [equalBy]
  | cons x xs ih =>
    intro b
    cases b with
    | nil => simp [equalBy]
    | cons y ys =>
      have := ih ys
      simp only [equalBy, Bool.and_eq_true, beq_iff_eq] at this
      simp only [equalBy, List.length_cons, List.zipWith_cons_cons, List.all_cons, id, Bool.and_eq_true, beq_iff_eq,
        Nat.add_right_cancel_iff]
      constructor
      · rintro ⟨hl, hxy, hrest⟩
        refine ⟨hl, ?_⟩
        intro i h1 h2
        cases i with
        | zero => simpa using hxy
        | succ j =>
          simp only [List.getElem_cons_succ]
          exact (this.mp ⟨hl, hrest⟩).2 j (by omega) (by omega)
      · rintro ⟨hl, hall⟩
        refine ⟨hl, ?_, ?_⟩
        · simpa using hall 0 (by omega) (by omega)
        · refine (this.mpr ⟨hl, ?_⟩).2
          intro i h1 h2
          have := hall (i + 1) (by omega) (by omega)
          simpa using this

/-- with `==` as the handler, equality of slices is equality of the element lists -/
theorem equalBy_beq_iff (a b : List Int) : equalBy (· == ·) a b = true ↔ a = b := by
  rw [equalBy_iff]
  constructor
  · rintro ⟨hl, h⟩
    apply List.ext_getElem hl
    intro i h1 h2
    simpa using h i h1 h2
  · rintro rfl
    exact ⟨rfl, by intro i h1 h2; simp⟩

/-! ### maps -/

theorem lookup_of_mem (m : List (Int × Int)) (hd : (keysOf m).Nodup) (k v : Int) (hm : (k, v) ∈ m) :
    m.lookup k = some v := by
  induction m with
  | nil => simp at hm
  | cons e es ih =>
    obtain ⟨k', v'⟩ := e
    simp only [keysOf, List.map_cons, List.nodup_cons] at hd
    simp only [List.mem_cons, Prod.mk.injEq] at hm
    rcases hm with ⟨rfl, rfl⟩ | hm
    · simp [List.lookup]
    · have hne : k ≠ k' := by
        intro he; subst he
        exact hd.1 (List.mem_map.mpr ⟨(k, v), hm, rfl⟩)
      have : (k == k') = false := by simp [hne]
      simp only [List.lookup, this]
      exact ih hd.2 hm

theorem mem_of_lookup (m : List (Int × Int)) (k v : Int) (h : m.lookup k = some v) : (k, v) ∈ m := by
  induction m with
  | nil => simp at h
  | cons e es ih =>
    obtain ⟨k', v'⟩ := e
    simp only [List.lookup] at h
    by_cases hk : k = k'
    · subst hk; simp at h; subst h; simp
    · have : (k == k') = false := by simp [hk]
      simp only [this] at h
      exact List.mem_cons_of_mem _ (ih h)

theorem mhas_iff (m : List (Int × Int)) (k : Int) : mhas m k = true ↔ k ∈ keysOf m := by
  induction m with
  | nil => simp [mhas, keysOf]
  | cons e es ih =>
    obtain ⟨k', v'⟩ := e
    simp only [mhas, keysOf, List.map_cons, List.mem_cons] at ih ⊢
    by_cases hk : k = k'
    · subst hk; simp [List.lookup]
    · have : (k == k') = false := by simp [hk]
      simp only [List.lookup, this, hk, false_or]
      exact ih

theorem equalMapGo_iff (h : Int → Int → Bool) (m2 : List (Int × Int)) : ∀ m1 : List (Int × Int),
    equalMapGo h m2 m1 = true ↔ ∀ e ∈ m1, ∃ v2, m2.lookup e.1 = some v2 ∧ h e.2 v2 = true := by
  intro m1
  induction m1 with
  | nil => simp [equalMapGo]
  | cons e es ih =>
    obtain ⟨k, v1⟩ := e
    simp only [equalMapGo, List.mem_cons, forall_eq_or_imp]
    cases hl : m2.lookup k with
    | none => simp
    | some v2 =>
      cases hh : h v1 v2 with
      | false => simp [hh]
      | true => simp [hh, ih]

/-- a duplicate-free list contained in a list of the same length has the same members -/
theorem subset_of_nodup_length {a b : List Int} (ha : a.Nodup) (hsub : a ⊆ b) (hl : a.length = b.length) : b ⊆ a := by
  intro x hx
  apply Decidable.byContradiction
  intro hxa
  have hsub' : a ⊆ b.erase x := by
    intro y hy
    have : y ≠ x := fun he => hxa (he ▸ hy)
    exact (List.mem_erase_of_ne this).mpr (hsub hy)
  have h1 := ha.length_le_of_subset hsub'
  have h2 : (b.erase x).length = b.length - 1 := by rw [List.length_erase]; simp [hx]
  have h3 : 1 ≤ b.length := List.length_pos_of_mem hx
  omega

/-- `EqualMap` (as fixed) on maps with distinct keys: same key set, and the handler accepts the two
    values under every key -/
theorem equalMap_iff (m1 m2 : Mp) (h : Int → Int → Bool) (hd1 : (keysOf m1.ents).Nodup) (hd2 : (keysOf m2.ents).Nodup) :
    equalMap m1 m2 h = true ↔
      (∀ k, k ∈ keysOf m1.ents ↔ k ∈ keysOf m2.ents) ∧ ∀ k, k ∈ keysOf m1.ents → h (mget m1.ents k) (mget m2.ents k) = true := by
  unfold equalMap
  constructor
  · intro heq
    by_cases hl : m1.ents.length = m2.ents.length
    · have : (m1.ents.length != m2.ents.length) = false := by simp [hl]
      rw [this] at heq
      simp only [Bool.false_eq_true, if_false] at heq
      have hall := (equalMapGo_iff h m2.ents m1.ents).mp heq
      have hsub : keysOf m1.ents ⊆ keysOf m2.ents := by
        intro k hk
        obtain ⟨e, he, rfl⟩ := List.mem_map.mp hk
        obtain ⟨v2, hv2, _⟩ := hall e he
        exact List.mem_map.mpr ⟨(e.1, v2), mem_of_lookup _ _ _ hv2, rfl⟩
      have hsub' := subset_of_nodup_length hd1 hsub (by simp [keysOf, hl])
      refine ⟨fun k => ⟨fun hk => hsub hk, fun hk => hsub' hk⟩, ?_⟩
      intro k hk
      obtain ⟨e, he, rfl⟩ := List.mem_map.mp hk
      obtain ⟨v2, hv2, hh⟩ := hall e he
      have h1 : m1.ents.lookup e.1 = some e.2 := lookup_of_mem _ hd1 _ _ he
      simp [mget, h1, hv2, hh]
    · have : (m1.ents.length != m2.ents.length) = true := by simp [hl]
      rw [this] at heq
      simp at heq
  · rintro ⟨hkeys, hvals⟩
    have hp : (keysOf m1.ents).Perm (keysOf m2.ents) := (List.perm_ext_iff_of_nodup hd1 hd2).mpr hkeys
    have hl : m1.ents.length = m2.ents.length := by simpa [keysOf] using hp.length_eq
    have : (m1.ents.length != m2.ents.length) = false := by simp [hl]
    rw [this]
    simp only [Bool.false_eq_true, if_false]
    apply (equalMapGo_iff h m2.ents m1.ents).mpr
    intro e he
    have hk1 : e.1 ∈ keysOf m1.ents := List.mem_map.mpr ⟨e, he, rfl⟩
    have hk2 : e.1 ∈ keysOf m2.ents := (hkeys _).mp hk1
    obtain ⟨e2, he2, hk⟩ := List.mem_map.mp hk2
    have hl2 : m2.ents.lookup e.1 = some e2.2 := by
      apply lookup_of_mem _ hd2
      rw [← hk]; exact he2
    refine ⟨e2.2, hl2, ?_⟩
    have := hvals _ hk1
    have h1 : m1.ents.lookup e.1 = some e.2 := lookup_of_mem _ hd1 _ _ he
    simpa [mget, h1, hl2] using this

end MV.Lemmas.Coll
