import MV.Lemmas.Collection.Equal
/-! Lemmas about the map-building loops of clone.go / merge.go (association lists with distinct keys). -/
namespace MV.Lemmas.Coll
open MV.Model.Coll MV.Spec.Coll

theorem lookup_mset (r : List (Int × Int)) (k v k' : Int) :
    (mset r k v).lookup k' = if k' = k then some v else r.lookup k' := by
  induction r with
  | nil =>
    simp only [mset, List.lookup]
    by_cases h : k' = k
    · simp [h]
    · have : (k' == k) = false := by simp [h]
      simp [h, this]
  | cons e es ih =>
    obtain ⟨k1, v1⟩ := e
    simp only [mset]
    by_cases h1 : k1 = k
    · subst h1
      simp only [beq_self_eq_true, if_true, List.lookup]
      by_cases h : k' = k1
      · simp [h]
      · have : (k' == k1) = false := by simp [h]
        simp [h, this]
    · have hb : (k1 == k) = false := by simp [h1]
      simp only [hb, Bool.false_eq_true, if_false, List.lookup]
      by_cases h : k' = k1
      · subst h
        have : ¬ k' = k := h1
        simp [this]
      · have : (k' == k1) = false := by simp [h]
        simp only [this, ih]

theorem mset_of_not_mem (r : List (Int × Int)) (k v : Int) (h : k ∉ keysOf r) : mset r k v = r ++ [(k, v)] := by
  induction r with
  | nil => rfl
  | cons e es ih =>
    obtain ⟨k1, v1⟩ := e
    simp only [keysOf, List.map_cons, List.mem_cons, not_or] at h
    have hb : (k1 == k) = false := by simp; exact fun he => h.1 he.symm
    simp only [mset, hb, Bool.false_eq_true, if_false, List.cons_append]
    rw [ih h.2]

/-- copying a map with distinct keys entry by entry reproduces it -/
theorem insertAll_append (m : List (Int × Int)) : ∀ r : List (Int × Int), (keysOf (r ++ m)).Nodup → insertAll r m = r ++ m := by
  induction m with
  | nil => intro r _; simp [insertAll]
  | cons e es ih =>
    intro r hnd
    obtain ⟨k, v⟩ := e
    simp only [insertAll]
    have hk : k ∉ keysOf r := by
      simp only [keysOf, List.map_append, List.map_cons] at hnd
      have := (List.nodup_append.mp hnd).2.2
      intro hkr
      exact this k hkr k (by simp) rfl
    rw [mset_of_not_mem r k v hk, ih (r ++ [(k, v)]) (by simpa using hnd)]
    simp

/-- `for k, v := range m { r[k] = v }`: afterwards a key of `m` has `m`'s value, any other key keeps its old one -/
theorem lookup_insertAll (m : List (Int × Int)) : ∀ r : List (Int × Int), (keysOf m).Nodup → ∀ k,
    (insertAll r m).lookup k = if mhas m k then m.lookup k else r.lookup k := by
  induction m with
  | nil => intro r _ k; simp [insertAll, mhas]
  | cons e es ih =>
    intro r hnd k
    obtain ⟨k1, v1⟩ := e
    simp only [keysOf, List.map_cons, List.nodup_cons] at hnd
    simp only [insertAll]
    rw [ih (mset r k1 v1) hnd.2 k, lookup_mset]
    by_cases h : k = k1
    · subst h
      have : mhas es k = false := by
        cases hh : mhas es k with
        | false => rfl
        | true => exact absurd ((mhas_iff es k).mp hh) hnd.1
      have h2 : mhas ((k, v1) :: es) k = true := by simp [mhas, List.lookup]
      rw [this, h2]
      simp [List.lookup]
    · have hb : (k == k1) = false := by simp [h]
      simp only [h, if_false, mhas, List.lookup, hb]

/-- `if _, ok := r[k]; !ok { r[k] = v }`: existing keys keep their value, new keys get `m`'s -/
theorem lookup_insertNew (m : List (Int × Int)) : ∀ r : List (Int × Int), (keysOf m).Nodup → ∀ k,
    (insertNew r m).lookup k = if mhas r k then r.lookup k else m.lookup k := by
  induction m with
  | nil =>
    intro r _ k
    simp only [insertNew, List.lookup]
    cases h : mhas r k with
    | true => simp
    | false =>
      simp only [mhas, Option.isSome_eq_false_iff, Option.isNone_iff_eq_none] at h
      simp [h]
  | cons e es ih =>
    intro r hnd k
    obtain ⟨k1, v1⟩ := e
    simp only [keysOf, List.map_cons, List.nodup_cons] at hnd
    simp only [insertNew]
    rw [ih _ hnd.2 k]
    by_cases hr : mhas r k1 = true
    · simp only [hr, if_true]
      by_cases h : k = k1
      · subst h; simp [hr]
      · have hb : (k == k1) = false := by simp [h]
        simp [List.lookup, hb]
    · have hr' : mhas r k1 = false := by simpa using hr
      simp only [hr', Bool.false_eq_true, if_false]
      have hm : ∀ k', mhas (mset r k1 v1) k' = (if k' = k1 then true else mhas r k') := by
        intro k'
        simp only [mhas, lookup_mset]
        by_cases h : k' = k1 <;> simp [h]
      rw [hm, lookup_mset]
      by_cases h : k = k1
      · subst h
        simp [hr', List.lookup]
      · have hb : (k == k1) = false := by simp [h]
        simp [h, List.lookup, hb]

end MV.Lemmas.Coll

namespace MV.Lemmas.Coll
open MV.Model.Coll MV.Spec.Coll

/-- `MergeMaps`: a key has the value of the *last* map that contains it (or what was there before) -/
theorem lookup_mergeMapsGo : ∀ (ms : List Mp) (r : List (Int × Int)), (∀ m ∈ ms, (keysOf (Mp.ents m)).Nodup) → ∀ k,
    (mergeMapsGo r ms).lookup k =
      match ms.reverse.find? (fun m => mhas (Mp.ents m) k) with
      | some m => (Mp.ents m).lookup k
      | none => r.lookup k := by
  intro ms
  induction ms with
  | nil => intro r _ k; simp [mergeMapsGo]
  | cons m ms ih =>
    intro r hnd k
    simp only [mergeMapsGo]
    rw [ih (insertAll r (Mp.ents m)) (fun m' hm' => hnd m' (List.mem_cons_of_mem _ hm')) k]
    simp only [List.reverse_cons, List.find?_append]
    cases hf : ms.reverse.find? (fun m => mhas (Mp.ents m) k) with
    | some m' => simp
    | none =>
      simp only [Option.none_or, List.find?_cons, List.find?_nil]
      rw [lookup_insertAll (Mp.ents m) r (hnd m (by simp)) k]
      cases hm : mhas (Mp.ents m) k <;> simp

/-- `MergeMapsWithSkip`: a key has the value of the *first* map that contains it -/
theorem lookup_mergeSkipGo : ∀ (ms : List Mp) (r : List (Int × Int)), (∀ m ∈ ms, (keysOf (Mp.ents m)).Nodup) → ∀ k,
    (mergeSkipGo r ms).lookup k =
      if mhas r k then r.lookup k else
      match ms.find? (fun m => mhas (Mp.ents m) k) with
      | some m => (Mp.ents m).lookup k
      | none => none := by
  intro ms
  induction ms with
  | nil =>
    intro r _ k
    simp only [mergeSkipGo, List.find?_nil]
    cases h : mhas r k with
    | true => simp
    | false =>
      simp only [mhas, Option.isSome_eq_false_iff, Option.isNone_iff_eq_none] at h
      simp [h]
  | cons m ms ih =>
    intro r hnd k
    simp only [mergeSkipGo]
    rw [ih (insertNew r (Mp.ents m)) (fun m' hm' => hnd m' (List.mem_cons_of_mem _ hm')) k]
    have hl := lookup_insertNew (Mp.ents m) r (hnd m (by simp)) k
    have hh : mhas (insertNew r (Mp.ents m)) k = (mhas r k || mhas (Mp.ents m) k) := by
      show ((insertNew r (Mp.ents m)).lookup k).isSome = _
      rw [hl]
      by_cases h1 : mhas r k = true
      · rw [if_pos h1, h1, Bool.true_or]; exact h1
      · rw [if_neg h1]
        have : mhas r k = false := by simpa using h1
        rw [this, Bool.false_or]; rfl
    rw [hh, hl]
    simp only [List.find?_cons]
    cases h1 : mhas r k <;> cases h2 : mhas (Mp.ents m) k <;> simp

end MV.Lemmas.Coll
