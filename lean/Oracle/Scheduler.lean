import Oracle.Proto
import MV.Model.Scheduler
import MV.Spec.Scheduler
/-!
Oracle suites `scheduler` (the executable model, ideal timing) and `scheduler-spec` (closed form).

    after <name> <ms>                      RegisterAfterTask
    repeat <name> <after> <interval> <n>   RegisterRepeatedTask (n ≤ 0: forever)
    cron <name>                            RegisterCronTask "* * * * * * *" (period 1000 ms)
    unreg <name> | clear | close
    wait <ms>
    counts                                 firings per registration, in registration order (`c` for cron)
    tasks                                  GetRegisteredTasks, sorted
    cronwait <i> <k>                       wait until registration i (cron) has fired k times
    cronquiet <i> <ms>                     firings of registration i during the next ms milliseconds
-/
namespace Oracle.Scheduler
open MV.Model.Scheduler

def tickMs : Nat := 10

def fmtOut : Out → String
  | .ok => "ok"
  | .panic => "panic"

def sortNats (l : List Nat) : List Nat := (l.toArray.qsort (· < ·)).toList

def fmtCounts (cs : List (Bool × Nat)) : String :=
  "[" ++ " ".intercalate (cs.map (fun (c, n) => if c then "c" else toString n)) ++ "]"

/-- advance millisecond by millisecond until registration `i` has fired `k` times (bounded) -/
def waitFired (s : Sched) (i k : Nat) : Nat → Sched
  | 0 => s
  | fuel + 1 => if fired s i ≥ k then s else waitFired (msStep s) i k fuel

def model : Suite where
  σ := Sched
  init := MV.Model.Scheduler.init tickMs
  step s toks :=
    let ev (e : Ev) := let r := MV.Model.Scheduler.step s e; (r.1, fmtOut r.2)
    match toks with
    | ["after", n, d] => match n.toNat?, d.toInt? with
      | some n, some d => ev (.reg n d tickMs 1)
      | _, _ => (s, "bad-op")
    | ["repeat", n, a, iv, k] => match n.toNat?, a.toInt?, iv.toInt?, k.toInt? with
      | some n, some a, some iv, some k => ev (.reg n a iv k)
      | _, _, _, _ => (s, "bad-op")
    | ["cron", n] => match n.toNat? with
      | some n => ev (.regCron n 1000)
      | none => (s, "bad-op")
    | ["unreg", n] => match n.toNat? with
      | some n => ev (.unreg n)
      | none => (s, "bad-op")
    | ["clear"] => ev .clear
    | ["close"] => ev .close
    | ["wait", d] => match d.toNat? with
      | some d => (wait s d, "ok")
      | none => (s, "bad-op")
    | ["counts"] =>
      (s, fmtCounts ((List.range s.nobjs).map (fun i => ((s.objs i).cron.isSome, fired s i))))
    | ["tasks"] => (s, fmtNats (sortNats (registered s)))
    | ["cronwait", i, k] => match i.toNat?, k.toNat? with
      | some i, some k =>
        if i < s.nobjs ∧ (s.objs i).cron.isSome ∧ ¬ (s.objs i).kill ∧ ¬ s.stopped then
          (waitFired s i k ((k + 1) * 1000), "ok")
        else (s, "bad-op")
      | _, _ => (s, "bad-op")
    | ["cronquiet", i, d] => match i.toNat?, d.toNat? with
      | some i, some d =>
        if i < s.nobjs then
          let s' := wait s d
          if (s.objs i).kill || s.stopped then (s', toString (fired s' i - fired s i)) else (s', "-")
        else (s, "bad-op")
      | _, _ => (s, "bad-op")
    | _ => (s, "bad-op")

open MV.Spec.Scheduler in
def spec : Suite where
  σ := MV.Spec.Scheduler.State
  init := MV.Spec.Scheduler.init tickMs
  step s toks :=
    match toks with
    | ["after", n, d] => match n.toNat?, d.toInt? with
      | some n, some d => (register s n d tickMs none 1, "ok")
      | _, _ => (s, "bad-op")
    | ["repeat", n, a, iv, k] => match n.toNat?, a.toInt?, iv.toInt?, k.toInt? with
      | some n, some a, some iv, some k => (register s n a iv none k, "ok")
      | _, _, _, _ => (s, "bad-op")
    | ["cron", n] => match n.toNat? with
      | some n => (register s n 0 0 (some 1000) 0, "ok")
      | none => (s, "bad-op")
    | ["unreg", n] => match n.toNat? with
      | some n => (cancelName s n, "ok")
      | none => (s, "bad-op")
    | ["clear"] => (cancelAll s, "ok")
    | ["close"] => ({ cancelAll s with stopped := true }, "ok")
    | ["wait", d] => match d.toNat? with
      | some d => ({ s with now := s.now + d }, "ok")
      | none => (s, "bad-op")
    | ["counts"] =>
      (s, Oracle.Scheduler.fmtCounts ((s.regs.zip (counts s)).map (fun (r, c) => (r.cron.isSome, c))))
    | ["tasks"] => (s, fmtNats (Oracle.Scheduler.sortNats (registered s)))
    | ["cronwait", i, k] => match i.toNat?, k.toNat? with
      | some i, some _ =>
        match s.regs[i]? with
        | some r => if r.cron.isSome ∧ r.cancel.isNone ∧ ¬ s.stopped then (s, "ok") else (s, "bad-op")
        | none => (s, "bad-op")
      | _, _ => (s, "bad-op")
    | ["cronquiet", i, d] => match i.toNat?, d.toNat? with
      | some i, some _ =>
        match s.regs[i]? with
        | some r => if r.cancel.isSome || s.stopped then (s, "0") else (s, "-")
        | none => (s, "bad-op")
      | _, _ => (s, "bad-op")
    | _ => (s, "bad-op")

end Oracle.Scheduler
