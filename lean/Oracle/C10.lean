import Oracle.Proto
import Oracle.PubSub
import Oracle.PubSubJudge
import Oracle.PubSubFanout
/-! Oracle suites of property C10 (linked into `oracle-c10` through `Oracle/MainC10.lean`). -/
namespace Oracle.C10

def suites : List (String × Suite) :=
  [("pubsub", Oracle.PubSub.model), ("pubsub-spec", Oracle.PubSub.spec), ("pubsub-remote", Oracle.PubSub.remote),
   ("pubsub-conc-judge", Oracle.PubSubJudge.judge), ("pubsub-fanout-judge", Oracle.PubSubFanout.judge)]

end Oracle.C10
