import Oracle.Proto
/-! Oracle suites of property C10 (registered in Oracle/Main.lean through `suites`). -/
namespace Oracle.C10

def suites : List (String × Suite) := []

end Oracle.C10
