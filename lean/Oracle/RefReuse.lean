import Oracle.Proto
/-!
# Oracle suite `refreuse` (C12): a recycled reference resolves its NEW address

Sequential specification: the registry is a finite map address ↦ process id; a lookup answers the current
registrant of the address the reference NAMES NOW, or the dead-letter substitute — whatever the reference
object was used for before.  (`MV.Model.Registry` keeps the cache inside the reference object; a reference
whose address changes must start with an empty cache, which is what `ProcessId.Reset` guarantees.)
-/
namespace Oracle.RefReuse

structure St where
  reg : List (Nat × Nat) := []     -- address ↦ process id
  next : Nat := 1

def lookup (s : St) (a : Nat) : String :=
  match s.reg.lookup a with
  | some p => s!"p{p}"
  | none => "sub"

def suite : Suite where
  σ := St
  init := {}
  step s toks := match toks with
    | ["reg", a] => match a.toNat? with
      | some a => if a < 8 then
          (if (s.reg.lookup a).isSome then (s, "exists")
           else ({ reg := (a, s.next) :: s.reg, next := s.next + 1 }, s!"p{s.next}"))
        else (s, "bad-op")
      | none => (s, "bad-op")
    | ["unreg", a] => match a.toNat? with
      | some a => if a < 8 then ({ s with reg := s.reg.filter (·.1 != a) }, "ok") else (s, "bad-op")
      | none => (s, "bad-op")
    | ["reuse", x, y, how] => match x.toNat?, y.toNat? with
      | some x, some y =>
        if x < 8 ∧ y < 8 ∧ (how == "reset" || how == "unmarshal" || how == "merge") then
          (s, lookup s x ++ " " ++ lookup s y)
        else (s, "bad-op")
      | _, _ => (s, "bad-op")
    | _ => (s, "bad-op")

end Oracle.RefReuse
