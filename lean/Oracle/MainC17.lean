import Oracle.C17
def main (args : List String) : IO UInt32 := Oracle.mainWith Oracle.C17.suites args
