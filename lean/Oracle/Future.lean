import Oracle.Proto
import MV.Model.Future
import MV.Spec.Future
import MV.Model.FutureFacts
/-!
Oracle suites for `engine/future` (T-sched): the model executes the same schedule as the instrumented
Go code, one scheduling quantum (= one model step) per `run` line; the judge evaluates
`MV.Spec.Future.verdict` on the final observation printed by the implementation.
-/
namespace Oracle.Future
open MV.Model MV.Model.Conc MV.Model.Future MV.Spec.Future

def b01 (b : Bool) : String := if b then "1" else "0"

def fmtErr : Option Err → String
  | none => "nil"
  | some .timeout => "timeout"
  | some (.reason n) => s!"reason:{n}"
  | some (.reply t v) => s!"reply:{t}.{v}"

def fmtMsg : Option Reply → String
  | none => "-"
  | some r => (if r.isErr then "E" else "") ++ s!"{r.tag}.{r.val}"

def fmtRes (x : Res) : String := fmtMsg x.1 ++ "/" ++ fmtErr x.2

def commaOr (l : List String) : String := if l.isEmpty then "-" else ",".intercalate l

def isReg (g : G) (k : Nat) : Bool := g.reg (g.futs k).addr == some k

def fmtFut (g : G) (k : Nat) : String :=
  let f := g.futs k
  s!"F{k}[a={f.addr} c={b01 f.closed} d={f.dones} m={fmtMsg f.msg} e={fmtErr f.err} rc={b01 f.rcSet} tm={b01 f.timerSet} fw={f.forwards.length} reg={b01 (isReg g k)} res={commaOr (f.results.map fmtRes)} fwd={commaOr (f.fwdLog.map fun x => s!"{x.1}/{fmtErr x.2}")}]"

def fmtState (g : G) : String :=
  " ".intercalate ((List.range g.nfut).map (fmtFut g)) ++ s!" dead={g.dead.length} crashes={g.crashes}"

def fmtObs (o : Obs) : String :=
  s!"F k={o.k} addr={o.addr} tmo={b01 o.tmo} rc={b01 o.rcSet} closed={b01 o.closed} done={o.dones} reg={b01 o.registered} timer={b01 o.timerActive} pfw={o.pendingFwd} res={commaOr (o.results.map fmtRes)} fwd={commaOr (o.fwdLog.map fun x => s!"{x.1}/{fmtErr x.2}")} req={commaOr (o.fwdReq.map toString)}"

def parseErr (s : String) : Option (Option Err) :=
  if s == "nil" then some none
  else if s == "timeout" then some (some .timeout)
  else match s.splitOn ":" with
    | ["reason", n] => n.toNat?.map (fun n => some (.reason n))
    | ["reply", n] => match n.splitOn "." with
        | [t, v] => match t.toNat?, v.toNat? with
          | some t, some v => some (some (.reply t v))
          | _, _ => none
        | _ => none
    | _ => none

def parseMsg (s : String) : Option (Option Reply) :=
  if s == "-" then some none
  else
    let (isErr, body) := if s.startsWith "E" then (true, (s.drop 1).toString) else (false, s)
    match body.splitOn "." with
    | [t, v] => match t.toNat?, v.toNat? with
      | some t, some v => some (some ⟨t, v, isErr⟩)
      | _, _ => none
    | _ => none

def parseList {α} (s : String) (p : String → Option α) : Option (List α) :=
  if s == "-" then some [] else (s.splitOn ",").mapM p

def parseRes (s : String) : Option Res :=
  match s.splitOn "/" with
  | [m, e] => match parseMsg m, parseErr e with
    | some m, some e => some (m, e)
    | _, _ => none
  | _ => none

def parseFwd (s : String) : Option (Nat × Option Err) :=
  match s.splitOn "/" with
  | [r, e] => match r.toNat?, parseErr e with
    | some r, some e => some (r, e)
    | _, _ => none
  | _ => none

def kv (toks : List String) (key : String) : Option String :=
  toks.findSome? fun t => if t.startsWith (key ++ "=") then some (t.drop (key.length + 1)).toString else none

def parseBool (s : String) : Option Bool := if s == "1" then some true else if s == "0" then some false else none

def parseObs (toks : List String) : Option Obs := do
  let k ← (← kv toks "k").toNat?
  let addr ← (← kv toks "addr").toNat?
  let tmo ← parseBool (← kv toks "tmo")
  let rc ← parseBool (← kv toks "rc")
  let closed ← parseBool (← kv toks "closed")
  let dones ← (← kv toks "done").toNat?
  let reg ← parseBool (← kv toks "reg")
  let timer ← parseBool (← kv toks "timer")
  let pfw ← (← kv toks "pfw").toNat?
  let res ← parseList (← kv toks "res") parseRes
  let fwd ← parseList (← kv toks "fwd") parseFwd
  let req ← parseList (← kv toks "req") (·.toNat?)
  pure { k := k, addr := addr, tmo := tmo, rcSet := rc, closed := closed, dones := dones, registered := reg,
         timerActive := timer, pendingFwd := pfw, results := res, fwdLog := fwd, fwdReq := req }

/-- final line: `crashes=<n> live=<..> | F k=.. … | F k=.. …` -/
def parseFinal (line : String) : Option (Nat × List Obs) := do
  match line.splitOn " | " with
  | [] => none
  | hd :: rest =>
    let crashes ← (← kv (tokens hd) "crashes").toNat?
    let os ← rest.mapM (fun p => parseObs (tokens p))
    pure (crashes, os)

def spawnPC : List String → Option PC
  | ["new", a, t] => match a.toNat?, parseBool t with
      | some a, some t => some (.new a t)
      | _, _ => none
  | ["reply", tag, v, e] => match tag.toNat?, v.toNat?, parseBool e with
      | some tag, some v, some e => some (.reply ⟨tag, v, e⟩)
      | _, _, _ => none
  | ["close", k, r] => match k.toNat? with
      | some k => if r == "nil" then some (.close k none) else (r.toNat?).map (fun n => .close k (some (.reason n)))
      | none => none
  | ["forward", k, r] => match k.toNat?, r.toNat? with
      | some k, some r => if r < 4 then some (.forward k r) else none   -- the test-bed has 4 forward targets
      | _, _ => none
  | ["result", k] => k.toNat?.map .result
  | _ => none

structure OState where
  cfg : Cfg := Cfg.shipped
  s : State := Future.init

def runLine (c : Cfg) (s : State) (i : Nat) : State × String :=
  match step (sysRaw c) s i with
  | none => (s, "skip")
  | some s' =>
    let pc' := (s'.ths[i]?).getD .done
    let spawned := (List.range (s'.ths.length - s.ths.length)).map (fun k => s!"t{s.ths.length + k}")
    (s', s!"t{i}@{siteName pc'} spawn=[{" ".intercalate spawned}] {fmtState s'.g}")

/-- lowest enabled thread first, until nobody is enabled (fuel-bounded) -/
def drain (c : Cfg) (s : State) : Nat → State
  | 0 => s
  | fuel + 1 =>
    match (List.range s.ths.length).findSome? (fun i => step (sysRaw c) s i) with
    | none => s
    | some s' => drain c s' fuel

def liveThreads (s : State) : List String :=
  (List.range s.ths.length).filterMap fun i =>
    match s.ths[i]? with
    | some PC.done => none
    | some PC.crashed => none
    | some pc => some s!"t{i}@{siteName pc}"
    | none => none

def fmtFinal (s : State) : String :=
  " | ".intercalate (s!"crashes={s.g.crashes} dead={s.g.dead.length} live={commaOr (liveThreads s)}" :: (observeAll s.g).map fmtObs)

def model : Suite where
  σ := OState
  init := {}
  step st toks := match toks with
    | ["cfg", "legacy"] => ({ cfg := Cfg.legacy }, "ok")
    | ["cfg", "shipped"] => ({ cfg := Cfg.shipped }, "ok")
    | "spawn" :: rest => match spawnPC rest with
        | some pc => ({ st with s := { st.s with ths := st.s.ths ++ [pc] } }, s!"t{st.s.ths.length}@{siteName pc}")
        | none => (st, "bad-op")
    | ["run", k] => match k.toNat? with
        | some i => let (s', o) := runLine st.cfg st.s i; ({ st with s := s' }, o)
        | none => (st, "bad-op")
    | ["drain"] =>
        let s' := drain st.cfg st.s 3000
        ({ st with s := s' }, fmtFinal s')
    | _ => (st, "bad-op")

/-- judge: `drain => <final line of the implementation>`; every other line is `ok` -/
def judge : Suite where
  σ := Unit
  init := ()
  step _ toks :=
    match toks.dropWhile (· ≠ "=>") with
    | _ :: out =>
      if toks.head? == some "drain" then
        match parseFinal (" ".intercalate out) with
        | some (crashes, os) => ((), verdict crashes os)
        | none => ((), "bad:unparsable-final-line")
      else ((), "ok")
    | [] => ((), "bad-op")

/-! ## end-to-end `ask` suite -/

def parseRecv : String → Option Recv
  | "echo" => some .echo | "silent" => some .silent | "error" => some .error
  | "double" => some .double | "late" => some .late | _ => none

def validEntry (e : String) : Bool := e == "ctx" || e == "sys" || e == "typed" || e == "sysspawn"

def parseAskOp : List String → Option (Nat × Nat × Recv × Nat)
  | ["ask", e, n, each, r, t] =>
    match n.toNat?, each.toNat?, parseRecv r, t.toNat? with
    | some n, some each, some r, some t =>
      if validEntry e && 1 ≤ n && n ≤ 64 && 1 ≤ each && each ≤ 100000 && 1 ≤ t then some (n, each, r, t) else none
    | _, _, _, _ => none
  | ["askrestart", p, a] =>
    -- asks of a restarted incarnation: judged as `a` asks of one asker to the echo receiver, generous timeout
    match p.toNat?, a.toNat? with
    | some p, some a => if p ≤ 32 && 1 ≤ a && a ≤ 64 then some (1, a, .echo, 60000000) else none
    | _, _ => none
  | _ => none

def parseAskObs (op out : List String) : Option AskObs := do
  let (n, each, r, t) ← parseAskOp op
  let cnt ← Outcome.all.mapM (fun c => if c == .closed then some (c, 0) else (kv out c.name).bind (·.toNat?) |>.map (fun v => (c, v)))
  let late ← (← kv out "late").toNat?
  let req ← (← kv out "req").toNat?
  let nilreq ← (← kv out "nilreq").toNat?
  let rd ← (← kv out "regdelta").toInt?
  let sp ← parseBool (← kv out "spawnpanic")
  pure { askers := n, each := each, recv := r, timeoutUs := t, count := fun c => (cnt.lookup c).getD 0,
         late := late, req := req, nilreq := nilreq, regdelta := rd, spawnPanic := sp }

/-- judge of the `ask` suite: `ask … => <counts>` -/
def askJudge : Suite where
  σ := Unit
  init := ()
  step _ toks :=
    let op := toks.takeWhile (· ≠ "=>")
    match toks.dropWhile (· ≠ "=>") with
    | _ :: out =>
      match parseAskOp op with
      | none => ((), if out == ["bad-op"] then "ok" else "bad:malformed-op-accepted")
      | some _ =>
        match parseAskObs op out with
        | some o =>
          let v := askVerdict o
          if v ≠ "ok" then ((), v) else
          match op with
          | ["askrestart", p, _] =>
            -- the asks that were outstanding when the actor restarted time out, each with its own timeout
            ((), if kv out "ptimeout" == some p && kv out "launches" == some "2" then "ok"
                 else "bad:outstanding-ask-across-restart-not-timed-out")
          | _ => ((), "ok")
        | none => ((), "bad:unparsable-output")
    | [] => ((), "bad-op")

/-! ## un-serialised `future-race` suite -/

def validRaceOp : List String → Bool
  | ["race", a, b, c, d, e, f, g] =>
    match a.toNat?, b.toNat?, c.toNat?, d.toNat?, e.toNat?, f.toNat?, g.toNat? with
    | some r, some er, some cl, some tm, some fw, some rd, some reps =>
      tm ≤ 1 && 0 < r + er + cl + tm && r + er + cl + fw + rd ≤ 64 && fw ≤ 4 && 1 ≤ reps && reps ≤ 1000000
    | _, _, _, _, _, _, _ => false
  | _ => false

/-- judge of the `future-race` suite: `race … => reps=… | n=… crashes=… F k=0 … | …`: every distinct
observation (each is a quiescent state: all goroutines have been joined) must satisfy the spec -/
def raceJudge : Suite where
  σ := Unit
  init := ()
  step _ toks :=
    let op := toks.takeWhile (· ≠ "=>")
    match toks.dropWhile (· ≠ "=>") with
    | _ :: out =>
      if !validRaceOp op then ((), if out == ["bad-op"] then "ok" else "bad:malformed-op-accepted")
      else
        match (" ".intercalate out).splitOn " | " with
        | [] => ((), "bad:unparsable-output")
        | _ :: groups =>
          let verdicts := groups.map fun grp =>
            let ts := tokens grp
            match (kv ts "crashes").bind (·.toNat?), parseObs ts with
            | some cr, some o => if cr == 0 then verdict cr [o] else "bad:panic"
            | _, _ => "bad:unparsable-output"
          if groups.isEmpty then ((), "bad:unparsable-output")
          else ((), (verdicts.find? (· ≠ "ok")).getD "ok")
    | [] => ((), "bad-op")

/-- T-facts: `facts <file-key> <Func>` answers the skeleton the model was transcribed from -/
def factsSuite : Suite where
  σ := Unit
  init := ()
  step _ toks := match toks with
    | ["facts", k, f] =>
      match MV.Model.FutureFacts.table.lookup (k, f) with
      | some s => ((), s)
      | none => ((), "bad-op")
    | _ => ((), "bad-op")

end Oracle.Future
