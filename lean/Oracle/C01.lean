import Oracle.Proto
/-! Oracle suites of property C01 (registered in Oracle/Main.lean through `suites`). -/
namespace Oracle.C01

def suites : List (String × Suite) := []

end Oracle.C01
