import Oracle.Proto
import Oracle.Mailbox
import Oracle.Turns
/-! Oracle suites of property C01 (shared with C02). -/
namespace Oracle.C01

def suites : List (String × Suite) := [
  ("dispatchers", Oracle.Mailbox.dispatchSuite),
  ("mailbox-facts", Oracle.Mailbox.factsSuite),
  ("mailbox", Oracle.Mailbox.model),
  ("mailbox-judge-c01", Oracle.Mailbox.judge true),
  ("turns-judge", Oracle.Turns.judge)
]

end Oracle.C01
