import Oracle.Proto
import Oracle.ActorSys
import Oracle.Persistence
import Oracle.LifecycleJudge
/-! Oracle suites of property C03 (the Layer-2 actor-system model is shared by C03–C06). -/
namespace Oracle.C03

def suites : List (String × Suite) := [
  ("actorsys", Oracle.ActorSys.model),
  ("actorsys-judge", Oracle.ActorSys.judgeC03),
  ("persist", Oracle.Persistence.model),
  ("persist-spec", Oracle.Persistence.spec),
  ("lifecycle-judge", Oracle.LifecycleJudge.judge)
]

end Oracle.C03
