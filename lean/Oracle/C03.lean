import Oracle.Proto
import Oracle.ActorSys
/-! Oracle suites of property C03 (the Layer-2 actor-system model, shared with C04, C05, C06). -/
namespace Oracle.C03

def suites : List (String × Suite) := [
  ("actorsys", Oracle.ActorSys.model)
]

end Oracle.C03
