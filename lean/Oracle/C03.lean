import Oracle.Proto
/-! Oracle suites of property C03 (registered in Oracle/Main.lean through `suites`). -/
namespace Oracle.C03

def suites : List (String × Suite) := []

end Oracle.C03
