import Oracle.Proto
/-!
# T-facts of the actor process (C06)

Shared-memory skeleton of `engine/vivid/actor_process.go` as the Layer-2 model assumes it: user and system
messages are forwarded to the mailbox unconditionally (in particular also after `Terminate` has set the
`terminated` flag — a `Watch` resolved before the target's `Unregister` and delivered after it still reaches
the dead actor, which answers with `Terminated`: `MV.Props.C06.C06_watch_on_dead_address_answered`); only
`IsTerminated` reads the flag and only `Terminate` writes it.
-/
namespace Oracle.ProcessFacts

def expected : String → Option String
  | "DeliveryUserMessage" => some ""
  | "DeliverySystemMessage" => some ""
  | "delivery" => some "if forward != nil { ; } ; if ok { ; } ; typeswitch { ; case *onSuspendMailboxMessage: ; case *onResumeMailboxMessage: ; default: ; }"
  | "IsTerminated" => some "a.terminated.Load() ; return"
  | "Terminate" => some "a.terminated.Store(true)"
  | _ => none

def suite : Suite where
  σ := Unit
  init := ()
  step _ toks := match toks with
    | ["facts", f] => ((), (expected f).getD "bad-op")
    | _ => ((), "bad-op")

end Oracle.ProcessFacts
