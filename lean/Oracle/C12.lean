import Oracle.Proto
import Oracle.Registry
import Oracle.Address
import Oracle.RefReuse
/-! Oracle suites of property C12. -/
namespace Oracle.C12

def suites : List (String × Suite) := [
  ("registry", Oracle.Registry.model),
  ("registry-judge", Oracle.Registry.judge),
  ("registry-facts", Oracle.Registry.factsSuite),
  ("address", Oracle.Address.model),
  ("address-spec", Oracle.Address.spec),
  ("refreuse", Oracle.RefReuse.suite)
]

end Oracle.C12
