import Oracle.Proto
/-! Oracle suites of property C12 (registered in Oracle/Main.lean through `suites`). -/
namespace Oracle.C12

def suites : List (String × Suite) := []

end Oracle.C12
