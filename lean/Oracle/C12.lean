import Oracle.Proto
import Oracle.Registry
import Oracle.Address
/-! Oracle suites of property C12. -/
namespace Oracle.C12

def suites : List (String × Suite) := [
  ("registry", Oracle.Registry.model),
  ("registry-judge", Oracle.Registry.judge),
  ("registry-facts", Oracle.Registry.factsSuite),
  ("address", Oracle.Address.model),
  ("address-spec", Oracle.Address.spec)
]

end Oracle.C12
