import Oracle.Proto
import Oracle.Backoff
import MV.Model.SharedRestart
/-!
# Oracle suite `shared-restart-judge` (C18): the restart back-off of the remoting listener

Keeps the configuration (`MV.Model.SharedRestart.Cfg`) through `new / limit / interval / fixed` and judges
every `delay <count> => <answer>`:
* no interval configured ⇒ `none`; a fixed interval ⇒ exactly that duration;
* a back-off interval ⇒ the judge of suite `backoff` (`Oracle.Backoff.judgeTwo`) for the parameters of the
  model (`maxRetries` of the limit in force *now*, multiplier 2, randomization 1/2);
* and whenever `Shared.runtimeError` would retry (`retries limit count`) the answer must not be the stop signal.
`cond` answers the text of the retry test / delay hand-over in `Shared.runtimeError` (T-facts).
-/
namespace Oracle.SharedRestart
open MV.Model.SharedRestart MV.Model.Backoff

/-- the three places of `Shared.runtimeError` the model transcribes -/
def runtimeErrorFacts : String :=
  "count: s.restartCount++ ; " ++
  "retry-if: s.restartCount <= s.config.consecutiveRestartLimit || s.config.consecutiveRestartLimit <= 0 ; " ++
  "delay: next = s.config.restartInterval(s.restartCount) ; " ++
  "afterfunc: next"

def judgeDelay (c : Cfg) (count : Nat) (out : List String) : String :=
  match c.interval, out with
  | .none, ["none"] => "ok"
  | .none, _ => "bad:interval-not-configured"
  | .fixed d, [lo, hi] => if lo.toInt? = some d ∧ hi.toInt? = some d then "ok" else "bad:fixed-interval"
  | .fixed _, _ => "bad:fixed-interval"
  | .backoff base max, [lo, hi] =>
    let p : Params := { count := count, limit := maxRetries c.limit, base := base, max := max, mn := 2, md := 1, rn := 1, rd := 2 }
    if retries c.limit count ∧ (lo.toInt? = some (-1) ∨ hi.toInt? = some (-1)) then "bad:stop-signal-while-retrying"
    else Oracle.Backoff.judgeTwo p lo hi
  | .backoff _ _, _ => "bad:no-delay"

def judge : Suite where
  σ := Cfg
  init := {}
  step c toks := match toks with
    | ["new", "=>", "ok"] => ({}, "ok")
    | ["limit", n, "=>", "ok"] => match n.toInt? with
      | some k => (c.withLimit k, "ok")
      | none => (c, "bad-op")
    | ["interval", b, m, "=>", "ok"] => match b.toInt?, m.toInt? with
      | some b, some m => (c.withBackoff b m, "ok")
      | _, _ => (c, "bad-op")
    | ["fixed", d, "=>", "ok"] => match d.toInt? with
      | some d => (c.withFixed d, "ok")
      | none => (c, "bad-op")
    | "delay" :: n :: "=>" :: out => match n.toNat? with
      | some k => (c, judgeDelay c k out)
      | none => (c, "bad-op")
    | "cond" :: "=>" :: out => (c, if " ".intercalate out = runtimeErrorFacts then "ok" else "bad:runtimeError-text")
    | _ => (c, "bad-op")

end Oracle.SharedRestart
