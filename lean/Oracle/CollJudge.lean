import Oracle.CollModel
/-!
Judge oracle of the C17 suites `c17-order`, `c17-random`, `c17-topo`: a line is
`<op> <args> => <implementation output>`; the verdict is `ok` or `bad:<clause>` according to the
`Bool` predicates of `MV.Spec.Coll` (the theorems of `MV.Props.C17` say what those predicates mean and
that every answer the model can give, for any iteration order / draw list, satisfies them).
-/
namespace Oracle.Coll
open MV.Model.Coll MV.Spec.Coll

def verdict (clauses : List (String × Bool)) : String :=
  match clauses.find? (fun c => !c.2) with
  | some c => "bad:" ++ c.1
  | none => "ok"

/-- `[(0 1 2) (1 5 6)]` -/
def pVisits3 (s : String) : Option (List (Nat × Int × Int)) :=
  match stripBr s '[' ']' with
  | none => none
  | some inner =>
    let flat := (inner.replace "(" " ").replace ")" " "
    match (fields flat).mapM pInt with
    | none => none
    | some ints =>
      let rec go : Nat → List Int → Option (List (Nat × Int × Int))
        | _, [] => some []
        | 0, _ => none
        | fuel + 1, i :: k :: v :: rest => if i < 0 then none else (go fuel rest).map (fun r => (i.toNat, k, v) :: r)
        | _, _ => none
      go (ints.length + 1) ints

def insertEverywhere {α : Type} (x : α) : List α → List (List α)
  | [] => [[x]]
  | y :: ys => (x :: y :: ys) :: (insertEverywhere x ys).map (y :: ·)
def perms {α : Type} : List α → List (List α)
  | [] => [[]]
  | x :: xs => (perms xs).flatMap (insertEverywhere x)

def inRange (len : Nat) (i : Int) : Bool := 0 ≤ i && i < (len : Int)
def rangeInts (len : Nat) : List Int := (List.range len).map (fun (i : Nat) => (i : Int))

/-- n-or-panic guard shared by the `ChooseRandomMap…N` helpers -/
def mapNGuard (m : Mp) (n : Int) (out : String) (k : List (Int × Int) → String) : String :=
  match m with
  | none => verdict [("nil-map-gives-nil", out == "nil")]
  | some l =>
    if n > (l.length : Int) || n < 0 then verdict [("must-panic", out == "panic")]
    else if out == "panic" then "bad:unexpected-panic" else k l

def judgeStep (name : String) (a : List String) (out : String) : Option String :=
  let loopJ (m : Mp) (crit : Option (Int → Int → Int)) (desc : Bool) (stop : Nat) : Option String := do
    let vis ← pVisits3 out
    pure (verdict [("visited-pairs", visitedPairsMatch m.ents crit desc stop vis)])
  match name, a with
  -- convert.go
  | "ConvertMapKeysToSlice", [m] => do
      let m ← pMap m; let o ← pInts out
      pure (verdict [("nil-iff-empty", o.isNone == m.ents.isEmpty), ("perm-of-keys", isPermOf o.els (keysOf m.ents))])
  | "ConvertMapValuesToSlice", [m] => do
      let m ← pMap m; let o ← pInts out
      pure (verdict [("nil-iff-empty", o.isNone == m.ents.isEmpty), ("perm-of-values", isPermOf o.els (valsOf m.ents))])
  | "ConvertMapKeysToBatches", [m, n] => do
      let m ← pMap m; let n ← pInt n; let o ← pIntss out
      let bs := (o.getD []).map Sl.els
      pure (verdict [("nil-iff-empty-or-bad-size", o.isNone == (m.ents.isEmpty || n ≤ 0)),
        ("join-perm-of-keys", o.isNone || isPermOf bs.flatten (keysOf m.ents)), ("batch-sizes", o.isNone || batchSizesOk n.toNat bs)])
  | "ConvertMapValuesToBatches", [m, n] => do
      let m ← pMap m; let n ← pInt n; let o ← pIntss out
      let bs := (o.getD []).map Sl.els
      pure (verdict [("nil-iff-empty-or-bad-size", o.isNone == (m.ents.isEmpty || n ≤ 0)),
        ("join-perm-of-values", o.isNone || isPermOf bs.flatten (valsOf m.ents)), ("batch-sizes", o.isNone || batchSizesOk n.toNat bs)])
  | "InvertMap", [m] => do
      let m ← pMap m; let o ← pMap out
      pure (verdict [("nil-iff-nil", o.isNone == m.isNone),
        ("entries-are-inverted-entries", o.ents.all (fun e => m.ents.contains (e.2, e.1))),
        ("every-value-is-a-key", m.ents.all (fun e => hasKey o.ents e.2))])
  -- find.go
  | "FindMinFromMap", [m, g] => do
      let m ← pMap m; let g ← getterOf g; let o ← pInt out
      let vs := valsOf m.ents
      pure (if vs.isEmpty then verdict [("zero-when-empty", o == 0)]
            else verdict [("member", vs.contains o), ("minimal", vs.all (fun v => g o ≤ g v))])
  | "FindMaxFromMap", [m, g] => do
      let m ← pMap m; let g ← getterOf g; let o ← pInt out
      let vs := valsOf m.ents
      pure (if vs.isEmpty then verdict [("zero-when-empty", o == 0)]
            else verdict [("member", vs.contains o), ("maximal", vs.all (fun v => g v ≤ g o))])
  -- loop.go
  | "LoopMap", [m, st] => do let m ← pMap m; let st ← pNat st; loopJ m none false st
  | "LoopMapByOrderedValueAsc", [m, st] => do let m ← pMap m; let st ← pNat st; loopJ m (some (fun _ v => v)) false st
  | "LoopMapByOrderedValueDesc", [m, st] => do let m ← pMap m; let st ← pNat st; loopJ m (some (fun _ v => v)) true st
  | "LoopMapByKeyGetterAsc", [m, g, st] => do let m ← pMap m; let g ← getterOf g; let st ← pNat st; loopJ m (some (fun k _ => g k)) false st
  | "LoopMapByKeyGetterDesc", [m, g, st] => do let m ← pMap m; let g ← getterOf g; let st ← pNat st; loopJ m (some (fun k _ => g k)) true st
  | "LoopMapByValueGetterAsc", [m, g, st] => do let m ← pMap m; let g ← getterOf g; let st ← pNat st; loopJ m (some (fun _ v => g v)) false st
  | "LoopMapByValueGetterDesc", [m, g, st] => do let m ← pMap m; let g ← getterOf g; let st ← pNat st; loopJ m (some (fun _ v => g v)) true st
  -- sort.go
  | "Asc", [s, g] => do
      let s ← pInts s; let g ← getterOf g; let o ← pInts out
      pure (verdict [("nil-iff-nil", o.isNone == s.isNone), ("sorted-permutation", sortedPermAsc g s.els o.els)])
  | "AscByClone", [s, g] => do
      let s ← pInts s; let g ← getterOf g; let o ← pInts out
      pure (verdict [("nil-iff-nil", o.isNone == s.isNone), ("sorted-permutation", sortedPermAsc g s.els o.els)])
  | "Desc", [s, g] => do
      let s ← pInts s; let g ← getterOf g; let o ← pInts out
      pure (verdict [("nil-iff-nil", o.isNone == s.isNone), ("sorted-permutation", sortedPermDesc g s.els o.els)])
  | "DescByClone", [s, g] => do
      let s ← pInts s; let g ← getterOf g; let o ← pInts out
      pure (verdict [("nil-iff-nil", o.isNone == s.isNone), ("sorted-permutation", sortedPermDesc g s.els o.els)])
  | "Shuffle", [s] => do
      let s ← pInts s; let o ← pInts out
      pure (verdict [("nil-iff-nil", o.isNone == s.isNone), ("permutation", isPermOf o.els s.els)])
  | "ShuffleByClone", [s] => do
      let s ← pInts s; let o ← pInts out
      pure (verdict [("nil-iff-nil", o.isNone == s.isNone), ("permutation", isPermOf o.els s.els)])
  -- random.go
  | "ChooseRandomSliceElementRepeatN", [s, n] => do
      let s ← pInts s; let n ← pInt n
      if n > 4096 then none else
      let o ← pInts out
      pure (if s.els.isEmpty || n ≤ 0 then verdict [("nil", o.isNone)]
            else verdict [("count", o.isSome && o.els.length == n.toNat), ("members", o.els.all (s.els.contains ·))])
  | "ChooseRandomIndexRepeatN", [s, n] => do
      let s ← pInts s; let n ← pInt n
      if n > 4096 then none else
      let o ← pInts out
      pure (if s.els.isEmpty || n ≤ 0 then verdict [("nil", o.isNone)]
            else verdict [("count", o.isSome && o.els.length == n.toNat), ("in-range", o.els.all (inRange s.els.length))])
  | "ChooseRandomSliceElement", [s] => do
      let s ← pInts s; let o ← pInt out
      pure (if s.els.isEmpty then verdict [("zero-when-empty", o == 0)] else verdict [("member", s.els.contains o)])
  | "ChooseRandomIndex", [s] => do
      let s ← pInts s; let o ← pInt out
      pure (if s.els.isEmpty then verdict [("minus-one-when-empty", o == -1)] else verdict [("in-range", inRange s.els.length o)])
  | "ChooseRandomSliceElementN", [s, n] => do
      let s ← pInts s; let n ← pInt n
      if n > 4096 then none else
      if s.els.isEmpty || n ≤ 0 || n > (s.els.length : Int) then pure (verdict [("must-panic", out == "panic")])
      else if out == "panic" then pure "bad:unexpected-panic" else
      let o ← pInts out
      pure (verdict [("count", o.isSome && o.els.length == n.toNat), ("distinct-positions", subMultiset o.els s.els)])
  | "ChooseRandomIndexN", [s, n] => do
      let s ← pInts s; let n ← pInt n
      if n > 4096 then none else
      if s.els.isEmpty then pure (verdict [("nil-when-empty", out == "nil")])
      else if n > (s.els.length : Int) || n < 0 then pure (verdict [("must-panic", out == "panic")])
      else if out == "panic" then pure "bad:unexpected-panic" else
      let o ← pInts out
      pure (verdict [("count", o.isSome && o.els.length == n.toNat),
        ("distinct-members", distinctMembers o.els (rangeInts s.els.length))])
  | "ChooseRandomMapKeyRepeatN", [m, n] => do
      let m ← pMap m; let n ← pInt n
      if n > 4096 then none else
      pure (mapNGuard m n out fun l => match pInts out with
        | some o => verdict [("count", o.isSome && o.els.length == n.toNat), ("members", o.els.all ((keysOf l).contains ·))]
        | none => "bad:unparsable")
  | "ChooseRandomMapValueRepeatN", [m, n] => do
      let m ← pMap m; let n ← pInt n
      if n > 4096 then none else
      pure (mapNGuard m n out fun l => match pInts out with
        | some o => verdict [("count", o.isSome && o.els.length == n.toNat), ("members", o.els.all ((valsOf l).contains ·))]
        | none => "bad:unparsable")
  | "ChooseRandomMapKeyAndValueRepeatN", [m, n] => do
      let m ← pMap m; let n ← pInt n
      if n > 4096 then none else
      pure (mapNGuard m n out fun l => match pMap out with
        | some o => verdict [("non-nil", o.isSome), ("entries-of-m", o.ents.all (l.contains ·)),
            ("at-most-n", o.ents.length ≤ n.toNat), ("non-empty-when-n-positive", n ≤ 0 || !o.ents.isEmpty)]
        | none => "bad:unparsable")
  | "ChooseRandomMapKeyN", [m, n] => do
      let m ← pMap m; let n ← pInt n
      if n > 4096 then none else
      pure (mapNGuard m n out fun l => match pInts out with
        | some o => verdict [("count", o.isSome && o.els.length == n.toNat), ("distinct-members", distinctMembers o.els (keysOf l))]
        | none => "bad:unparsable")
  | "ChooseRandomMapValueN", [m, n] => do
      let m ← pMap m; let n ← pInt n
      if n > 4096 then none else
      pure (mapNGuard m n out fun l => match pInts out with
        | some o => verdict [("count", o.isSome && o.els.length == n.toNat), ("distinct-entries", subMultiset o.els (valsOf l))]
        | none => "bad:unparsable")
  | "ChooseRandomMapKeyAndValueN", [m, n] => do
      let m ← pMap m; let n ← pInt n
      if n > 4096 then none else
      pure (mapNGuard m n out fun l => match pMap out with
        | some o => verdict [("non-nil", o.isSome), ("entries-of-m", o.ents.all (l.contains ·)), ("count", o.ents.length == n.toNat)]
        | none => "bad:unparsable")
  | "ChooseRandomMapKey", [m] => do
      let m ← pMap m; let o ← pInt out
      pure (if m.ents.isEmpty then verdict [("zero-when-empty", o == 0)] else verdict [("member", (keysOf m.ents).contains o)])
  | "ChooseRandomMapValue", [m] => do
      let m ← pMap m; let o ← pInt out
      pure (if m.ents.isEmpty then verdict [("zero-when-empty", o == 0)] else verdict [("member", (valsOf m.ents).contains o)])
  | "ChooseRandomMapKeyAndValue", [m] => do
      let m ← pMap m
      match fields out with
      | [k, v] => do
        let k ← pInt k; let v ← pInt v
        pure (if m.ents.isEmpty then verdict [("zero-when-empty", k == 0 && v == 0)] else verdict [("entry", m.ents.contains (k, v))])
      | _ => none
  -- topological.go
  | "TopologicalSort", [its] => do
      let raw ← pIntss its
      let lists := (raw.getD []).map Sl.els
      if lists.any (·.isEmpty) then none else
      let items : List (Int × List Int) := lists.map (fun l => (l.headD 0, l.tail))
      let ids := items.map (·.1)
      if out == "err:cycle" then
        pure (verdict [("error-without-cycle", topoVerdict items none),
          ("model-explains", ids.length > 5 || !distinct ids || (perms ids).any (fun p => topologicalSort items p == none))])
      else
        let o ← pIntss out
        let olists := (o.getD []).map Sl.els
        let oids := olists.map (fun l => l.headD 0)
        pure (verdict [("non-nil", o.isSome), ("items-are-input-items", olists.all (lists.contains ·)),
          ("valid-order", topoVerdict items (some oids)),
          ("model-explains", ids.length > 5 || (perms ids).any (fun p => topologicalSort items p == some oids))])
  | _, _ => none

def splitArrow : List String → List String → Option (List String × List String)
  | _, [] => none
  | acc, t :: ts => if t == "=>" then some (acc.reverse, ts) else splitArrow (t :: acc) ts

def judgeAnswer (toks : List String) : String :=
  match splitArrow [] toks with
  | none => "bad-op"
  | some (l, r) =>
    let out := " ".intercalate r
    if out == "bad-op" then "ok"   -- malformed stream: the implementation side rejected the line
    else if out.endsWith " ARGS-MODIFIED" then "bad:args-modified"
    else
      let out := if out.endsWith argsU then (out.dropEnd argsU.length).toString else out
      match parseLine l with
      | some (n, false, a) => (judgeStep n a out).getD "bad:unparsable-or-unknown-op"
      | _ => "bad:unparsable-or-unknown-op"

def judge : Suite where
  σ := Unit
  init := ()
  step _ toks := ((), judgeAnswer toks)

end Oracle.Coll
