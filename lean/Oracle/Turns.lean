import Oracle.Proto
/-!
# Oracle suite `turns-judge` (C01): no two turns of one actor overlap, writes are visible — end to end

Judges `burst … => turns=t expected=e overlap=o plain=p`: no overlap was observed (`o = 0`), the plain
(unsynchronised) counter incremented by every turn equals the number of turns (`p = t`: nothing one turn
wrote was lost to the next), and every turn that was asked for happened (`t = e`).
-/
namespace Oracle.Turns

def field (key : String) (toks : List String) : Option Nat :=
  toks.findSome? fun t => if t.startsWith (key ++ "=") then (t.drop (key.length + 1)).toString.toNat? else none

def judge : Suite where
  σ := Unit
  init := ()
  step _ toks :=
    let op := toks.takeWhile (· ≠ "=>")
    let out := (toks.dropWhile (· ≠ "=>")).drop 1
    if out == ["bad-op"] then ((), "ok") else
    match op with
    | "burst" :: _ =>
      match field "turns" out, field "expected" out, field "overlap" out, field "plain" out with
      | some t, some e, some o, some p =>
        if o ≠ 0 then ((), "bad:c01-two-turns-of-one-actor-overlapped")
        else if p ≠ t then ((), "bad:c01-write-of-one-turn-not-visible-to-the-next")
        else if t ≠ e then ((), "bad:c01-turn-count-differs")
        else ((), "ok")
      | _, _, _, _ => ((), "bad:unparsable-output")
    | _ => ((), "ok")

end Oracle.Turns
