import Oracle.Proto
import Oracle.Ring
import Oracle.Unbounded
import Oracle.Queues
import Oracle.Pump
import Oracle.LfqSched
/-! Oracle suites of property C15. -/
namespace Oracle.C15

def suites : List (String × Suite) := [
  ("ring", Oracle.Ring.model),
  ("ring-spec", Oracle.Ring.spec),
  ("unbounded", Oracle.Unbounded.model),
  ("unbounded-spec", Oracle.Unbounded.spec),
  ("lfq-seq", Oracle.Queues.lfqSeq),
  ("mpsc-seq", Oracle.Queues.mpscSeq),
  ("queue-seq-spec", Oracle.Queues.seqSpec),
  ("queue-facts", Oracle.Queues.facts),
  ("queue-judge", Oracle.Queues.judge),
  ("pump-judge", Oracle.Pump.judge),
  ("lfq-sched", Oracle.LfqSched.model),
  ("lfq-sched-judge", Oracle.LfqSched.judge)
]

end Oracle.C15
