import Oracle.Proto
import Oracle.Ring
/-! Oracle suites of property C15. -/
namespace Oracle.C15

def suites : List (String × Suite) := [
  ("ring", Oracle.Ring.model),
  ("ring-spec", Oracle.Ring.spec)
]

end Oracle.C15
